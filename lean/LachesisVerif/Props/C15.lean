import LachesisVerif.Proofs.ProcessorOrder
import LachesisVerif.Proofs.ProcessorInv
import LachesisVerif.Proofs.ProcessorRel
import LachesisVerif.Proofs.ProcessorBalOps
import LachesisVerif.Gen.FactsC15
/-!
# C15 — Event processor releases every event and balances its semaphore

"Every event of a batch that the processor accepted and finished handling is reported released
exactly once by the time the processor is stopped, whether it was processed, rejected, dropped as too
far ahead, or spilled; the amount held in the events semaphore never exceeds its capacity and returns
to zero once all events are released. Events of an ordered batch reach the ordering buffer in batch
order, and events whose Lamport time is more than the buffer's event limit plus one above the highest
known Lamport time are never processed."

Model: `Model.Processor` — the semaphore as a counter pair (`tryAcquire`/`Release` conditions and
arithmetic regenerated from `utils/datasemaphore`), `process()` with the far-future rule (its constant
`1 + Num`, the comparison and the re-request condition regenerated from `processor.go`), the ordered
reassembly loop of `Enqueue` (loop conditions regenerated), the C14 buffer, all run by the single
inserter over the accepted batches in `Enqueue` order. Oracles: `CheckParents`/`Process` results, the
arrival order of the asynchronous `CheckParentless` results (`POp.deliver`), the position of `Stop`.

Semaphore clause: `C15_semaphore_within_capacity` (held ≤ capacity, always) and
`C15_semaphore_balanced` (the warning callback — over-release — never fires, held = acquired − released
always, hence zero once everything is released), the latter for operation sequences that are
well-formed in the sense of `wfOps`: no (batch id, position) check result is delivered twice, which is
what the real processor guarantees (one `checkedC` channel per batch, every check callback fires once).
Without this hypothesis an unordered batch would hand the same event to `process()` twice and the
statement is false (`C15_double_delivery_warns`); `C15_semaphore_balanced_partial` is the hypothesis-free
conditional form. Proof: the semaphore always holds at least the copies waiting in the ordering buffer
plus what the pending inserter tasks will still hand to `process()` (`Proofs/ProcessorBal*.lean`,
weighted release accounting of the buffer in `Proofs/BufferWeight.lean`).

**Partial by nature**: goroutine interleavings beyond these oracles (a `quit` racing with a half
handled batch, `Acquire` waiting while another goroutine releases) are not exhibited by the model; the
property's wording ("accepted and finished handling") excludes the first, the stream `proc` samples
the rest on the real `Processor`.
-/
namespace C15
open Model.EventsBuffer Model.Processor

/-- **Ordered batches reach `process()` (hence `PushEvent`) in batch order.** For every handler, every
    batch and every arrival order `perm` of the check results (a permutation of the positions), the
    inserter's loop ends having handled exactly items `0, 1, …, n-1` in this order, item `i` with its own
    check result `errs i` (`runTo … n` is by definition `hd (… hd (hd s₀ item₀ e₀) item₁ e₁ …)`), and
    the batch is finished. -/
theorem C15_ordered_batch_in_order {σ : Type} (hd : σ → Item → Nat → σ × List Nat) (id : Nat)
    (items : List Item) (errs : Nat → Nat) (perm : List Nat) (hperm : perm.Perm (List.range items.length)) (s0 : σ) :
    let r := drain hd (Batch.new id true items) s0 (perm.map fun pos => (pos, errs pos))
    r.2 = runTo hd errs items s0 items.length ∧ r.1.processed = items.length ∧ r.1.finished = true := by
  show (drain hd (Batch.new id true items) s0 (perm.map fun pos => (pos, errs pos))).2 = _ ∧
    (drain hd (Batch.new id true items) s0 (perm.map fun pos => (pos, errs pos))).1.processed = _ ∧
    (drain hd (Batch.new id true items) s0 (perm.map fun pos => (pos, errs pos))).1.finished = true
  have sh0 : Shape hd errs items s0 [] (Batch.new id true items) s0 := {
    items_eq := rfl
    ordered := rfl
    len := by simp [Batch.new]
    le := Nat.zero_le _
    low := fun j hj => by cases hj
    res := by
      intro j hj
      simp [Batch.new, List.getD_eq_getElem?_getD, hj]
    st := rfl }
  have hnd : perm.Nodup := (List.Perm.nodup_iff hperm).2 List.nodup_range
  have hmem : ∀ pos, pos ∈ perm ↔ pos < items.length := by
    intro pos; rw [List.Perm.mem_iff hperm, List.mem_range]
  obtain ⟨sh, hstop⟩ := drain_shape hd errs items s0 perm [] (Batch.new id true items) s0 sh0
    (by
      show (0 : Nat) = items.length ∨ 0 ∉ ([] : List Nat)
      exact Or.inr (by simp))
    hnd (fun pos hp => ⟨(hmem pos).1 hp, by simp⟩)
  have hproc : (drain hd (Batch.new id true items) s0 (perm.map fun pos => (pos, errs pos))).1.processed = items.length := by
    rcases hstop with h | h
    · exact h
    · have hle := sh.le
      have hlt : ¬ (drain hd (Batch.new id true items) s0 (perm.map fun pos => (pos, errs pos))).1.processed < items.length := by
        intro hlt
        apply h
        simp only [List.append_nil, List.mem_reverse]
        exact (hmem _).2 hlt
      omega
  refine ⟨?_, hproc, ?_⟩
  · have := sh.st
    rw [hproc] at this
    exact this
  · unfold Batch.finished Gen.Buffer.batchLoop
    rw [hproc, sh.items_eq]
    simp

/-- non-vacuity: results arriving in the order 2, 0, 1 are handled in the order 0, 1, 2 -/
example :
    (drain (fun (s : List Nat) it _ => (s ++ [it.tag], []))
      (Batch.new 0 true [⟨10, ⟨1, [], 1⟩, 1⟩, ⟨11, ⟨2, [], 1⟩, 1⟩, ⟨12, ⟨3, [], 1⟩, 1⟩]) []
      [(2, 0), (0, 0), (1, 0)]).2 = [10, 11, 12] := by decide

/-- **Far-future events are never processed.** If the event's Lamport time exceeds
    `highest + 1 + Num` (the constants of `process()`, regenerated; `highest + 1 + Num` fits `uint32`)
    when it is handled, `process()` calls `HighestLamport`, releases it with "spilled" and returns: it
    is not pushed into the ordering buffer (so no `Check`/`Process` can ever be called for it) and no
    parents are requested. -/
theorem C15_far_future_never_processed (cfg : Cfg) (O : Oracle) (st : PSt) (it : Item)
    (hrange : st.highest + 1 + cfg.bufNum < 4294967296)
    (hfar : it.lamport > st.highest + 1 + cfg.bufNum) :
    handle cfg O st it 0 = (relTag (st1Of (mark st it)) it.tag it.ev.size errSpilled, []) ∧
    (handle cfg O st it 0).1.buf = st.buf ∧
    (handle cfg O st it 0).1.relNum = st.relNum + 1 := by
  have hff : Gen.Buffer.farFuture it.lamport st.highest (Gen.Buffer.maxLamportDiff cfg.bufNum) = true := by
    unfold Gen.Buffer.farFuture Gen.Buffer.maxLamportDiff
    have h1 : cfg.bufNum % 4294967296 = cfg.bufNum := Nat.mod_eq_of_lt (by omega)
    rw [h1]
    have h2 : (1 + cfg.bufNum) % 4294967296 = 1 + cfg.bufNum := Nat.mod_eq_of_lt (by omega)
    rw [h2]
    have h3 : (st.highest + (1 + cfg.bufNum)) % 4294967296 = st.highest + (1 + cfg.bufNum) := Nat.mod_eq_of_lt (by omega)
    rw [h3]
    simp only [decide_eq_true_eq]
    omega
  have e : handle cfg O st it 0 = (relTag (st1Of (mark st it)) it.tag it.ev.size errSpilled, []) := by
    rw [handle_eq]
    simp [hff]
  refine ⟨e, ?_, ?_⟩ <;> rw [e] <;> rfl

/-- the bound is tight: at exactly `highest + 1 + Num` the event is pushed into the buffer -/
example : Gen.Buffer.farFuture 14 3 (Gen.Buffer.maxLamportDiff 10) = false ∧
    Gen.Buffer.farFuture 15 3 (Gen.Buffer.maxLamportDiff 10) = true := by decide

/-- **Rejected events** (failed `CheckParentless`) are released at once with the check's error and never
    reach the buffer. -/
theorem C15_rejected_never_processed (cfg : Cfg) (O : Oracle) (st : PSt) (it : Item) (err : Nat) (herr : err ≠ 0) :
    handle cfg O st it err = (relTag (mark st it) it.tag it.ev.size err, []) ∧ (handle cfg O st it err).1.buf = st.buf := by
  have e : handle cfg O st it err = (relTag (mark st it) it.tag it.ev.size err, []) := by
    rw [handle_eq]
    simp [herr]
  exact ⟨e, by rw [e]; rfl⟩

/-- **The semaphore never holds more than its capacity** — for every sequence of `Enqueue`s, arrivals
    of check results in any order, and `Stop`, every oracle, and capacities within Go's integer types. -/
theorem C15_semaphore_within_capacity (cfg : Cfg) (O : Oracle) (capNum capSize highest : Nat) (conn : List Nat)
    (hN : capNum < 4294967296) (hS : capSize < 18446744073709551616)
    (ops : List POp) (hv : ∀ op ∈ ops, validOp op) :
    let p := prun O (Proc.init cfg capNum capSize highest conn) ops
    p.st.sem.num ≤ capNum ∧ p.st.sem.size ≤ capSize := by
  intro p
  have h0 : SemInv capNum capSize (Proc.init cfg capNum capSize highest conn).st :=
    ⟨Nat.zero_le _, Nat.zero_le _, Nat.le_refl _, Nat.le_refl _, fun _ => ⟨rfl, rfl⟩⟩
  have := prun_semInv capNum capSize hN hS O ops _ hv h0
  exact ⟨this.1, this.2.1⟩

/-- **Semaphore balance, conditional form** (kept; superseded by `C15_semaphore_balanced`). For every
    operation sequence — well-formed or not — held = (events and bytes of accepted batches) − (events
    and bytes released) **as long as the semaphore's warning callback has not fired** (`warned = false`;
    the flag is raised by `relTag` exactly when it logs `PCb.warn`, i.e. when `Release` finds less held
    than it is asked to release). That the warning never fires needs the well-formedness of the
    deliveries and is `C15_semaphore_balanced`. -/
theorem C15_semaphore_balanced_partial (cfg : Cfg) (O : Oracle) (capNum capSize highest : Nat) (conn : List Nat)
    (hN : capNum < 4294967296) (hS : capSize < 18446744073709551616)
    (ops : List POp) (hv : ∀ op ∈ ops, validOp op) :
    let p := prun O (Proc.init cfg capNum capSize highest conn) ops
    p.st.warned = false →
      (p.st.sem.num + p.st.relNum = p.st.acqNum ∧ p.st.sem.size + p.st.relSize = p.st.acqSize) ∧
      (p.st.relNum = p.st.acqNum → p.st.relSize = p.st.acqSize → p.st.sem.num = 0 ∧ p.st.sem.size = 0) := by
  intro p hw
  have h0 : SemInv capNum capSize (Proc.init cfg capNum capSize highest conn).st :=
    ⟨Nat.zero_le _, Nat.zero_le _, Nat.le_refl _, Nat.le_refl _, fun _ => ⟨rfl, rfl⟩⟩
  have hbal : p.st.sem.num + p.st.relNum = p.st.acqNum ∧ p.st.sem.size + p.st.relSize = p.st.acqSize :=
    (prun_semInv capNum capSize hN hS O ops _ hv h0).2.2.2.2 hw
  refine ⟨hbal, ?_⟩
  intro h1 h2
  obtain ⟨b1, b2⟩ := hbal
  omega

/-- **Semaphore balance** (full clause: "… and returns to zero once all events are released"). For every
    sequence of `Enqueue`s, arrivals of check results in any order and interleaving, and `Stop`s, in which
    no (batch id, position) check result is delivered twice (`wfOps`), every oracle and capacities within
    Go's integer types: the semaphore's warning callback never fires (no `Release` ever finds less held
    than it is asked to release: the ghost flag stays down and no `PCb.warn` is in the trace), the held amount is exactly (events and bytes acquired by accepted
    batches) − (events and bytes released), and therefore it is zero once as many events and bytes are
    released as were acquired. Batch ids need not be distinct beyond `wfOps` (a delivery is seen by every
    pending batch carrying its id). -/
theorem C15_semaphore_balanced (cfg : Cfg) (O : Oracle) (capNum capSize highest : Nat) (conn : List Nat)
    (hN : capNum < 4294967296) (hS : capSize < 18446744073709551616)
    (ops : List POp) (hv : ∀ op ∈ ops, validOp op) (hwf : wfOps ops) :
    let p := prun O (Proc.init cfg capNum capSize highest conn) ops
    (p.st.warned = false ∧ PCb.warn ∉ p.st.trace) ∧
      (p.st.sem.num + p.st.relNum = p.st.acqNum ∧ p.st.sem.size + p.st.relSize = p.st.acqSize) ∧
      (p.st.relNum = p.st.acqNum → p.st.relSize = p.st.acqSize → p.st.sem.num = 0 ∧ p.st.sem.size = 0) := by
  intro p
  have h0 : SemInv capNum capSize (Proc.init cfg capNum capSize highest conn).st :=
    ⟨Nat.zero_le _, Nat.zero_le _, Nat.le_refl _, Nat.le_refl _, fun _ => ⟨rfl, rfl⟩⟩
  have hbalInv : Bal conn [] p :=
    prun_bal conn capNum capSize hN hS O ops _ hv hwf h0 (bal_init cfg capNum capSize highest conn ops)
  have hw : p.st.warned = false := hbalInv.2.1
  have hflag : WarnFlag p.st := prun_warnFlag O ops _ (fun hm => by cases hm)
  have hnot : PCb.warn ∉ p.st.trace := fun hm => by
    have := hflag hm
    rw [hw] at this; cases this
  exact ⟨⟨hw, hnot⟩, C15_semaphore_balanced_partial cfg O capNum capSize highest conn hN hS ops hv hw⟩

/-- the hypothesis `wfOps` is needed: delivering the check result of position 1 of an unordered batch
    (events of 10 and 30 bytes) twice makes `process()` release the 30-byte event twice, and the second
    `Release` (30 bytes asked, 10 held) fires the warning -/
theorem C15_double_delivery_warns :
    (prun Oracle.allOk (Proc.init ⟨3, 1000⟩ 10 1000 0 [])
      [.enq 0 false [⟨0, ⟨1, [], 10⟩, 1⟩, ⟨1, ⟨2, [], 30⟩, 1⟩], .deliver 0 1 6, .deliver 0 1 6]).st.warned = true ∧
    ¬ wfOps [.enq 0 false [⟨0, ⟨1, [], 10⟩, 1⟩, ⟨1, ⟨2, [], 30⟩, 1⟩], .deliver 0 1 6, .deliver 0 1 6] := by
  decide

/-- Unordered batches: every arriving result is handled at once, so the events are handed to `process()`
    in arrival order, each exactly once, and the batch finishes with the last result. -/
theorem C15_unordered_batch_each_once {σ : Type} (hd : σ → Item → Nat → σ × List Nat) (id : Nat)
    (items : List Item) (errs : Nat → Nat) (perm : List Nat) (hperm : perm.Perm (List.range items.length)) (s0 : σ) :
    let r := drain hd (Batch.new id false items) s0 (perm.map fun pos => (pos, errs pos))
    r.2 = perm.foldl (fun s pos => match items[pos]? with
      | some it => (hd s it (errs pos)).1
      | none => s) s0 ∧ r.1.processed = items.length ∧ r.1.finished = true := by
  have key : ∀ (L : List Nat) (b : Batch) (s : σ), b.ordered = false → b.items = items →
      b.processed + L.length ≤ items.length → (∀ pos ∈ L, pos < items.length) →
      (drain hd b s (L.map fun pos => (pos, errs pos))).2 = L.foldl (fun s pos => match items[pos]? with
        | some it => (hd s it (errs pos)).1
        | none => s) s ∧
      (drain hd b s (L.map fun pos => (pos, errs pos))).1.processed = b.processed + L.length ∧
      (drain hd b s (L.map fun pos => (pos, errs pos))).1.items = items := by
    intro L
    induction L with
    | nil => intro b s _ hi _ _; exact ⟨rfl, rfl, hi⟩
    | cons pos L ih =>
      intro b s ho hi hle hpos
      have hp : pos < items.length := hpos pos List.mem_cons_self
      have hlt : b.processed < items.length := by simp only [List.length_cons] at hle; omega
      have hcons : consume hd b s pos (errs pos) =
          ({ b with processed := b.processed + 1, toRequest := b.toRequest ++ (hd s (items[pos]'hp) (errs pos)).2 },
           (hd s (items[pos]'hp) (errs pos)).1) := by
        unfold consume
        have hloop : Gen.Buffer.batchLoop b.processed b.items.length = true := by
          unfold Gen.Buffer.batchLoop; rw [hi]; simp [hlt]
        have hit : b.items[pos]? = some (items[pos]'hp) := by rw [hi]; exact List.getElem?_eq_getElem hp
        simp only [hloop, Bool.not_true, Bool.false_eq_true, if_false, ho, hit]
      have hdrain : drain hd b s ((pos :: L).map fun pos => (pos, errs pos)) =
          drain hd { b with processed := b.processed + 1, toRequest := b.toRequest ++ (hd s (items[pos]'hp) (errs pos)).2 }
            (hd s (items[pos]'hp) (errs pos)).1 (L.map fun pos => (pos, errs pos)) := by
        simp only [List.map_cons]
        rw [drain, hcons]
      rw [hdrain]
      obtain ⟨a, b', c⟩ := ih { b with processed := b.processed + 1, toRequest := b.toRequest ++ (hd s (items[pos]'hp) (errs pos)).2 }
        (hd s (items[pos]'hp) (errs pos)).1 ho hi
        (by show b.processed + 1 + L.length ≤ items.length; simp only [List.length_cons] at hle; omega)
        (fun q hq => hpos q (List.mem_cons_of_mem _ hq))
      refine ⟨?_, ?_, c⟩
      · rw [a, List.foldl_cons, List.getElem?_eq_getElem hp]
      · rw [b']; show b.processed + 1 + L.length = _; simp only [List.length_cons]; omega
  have hlen : perm.length = items.length := by rw [List.Perm.length_eq hperm, List.length_range]
  obtain ⟨a, b, c⟩ := key perm (Batch.new id false items) s0 rfl rfl (by show 0 + perm.length ≤ _; omega)
    (fun pos hp => List.mem_range.1 ((List.Perm.mem_iff hperm).1 hp))
  refine ⟨a, by rw [b]; show 0 + perm.length = _; omega, ?_⟩
  unfold Batch.finished Gen.Buffer.batchLoop
  rw [b, c]
  show (!decide (0 + perm.length < items.length)) = true
  simp [hlen]

/-- Before `Stop`, no event is reported released more often than `process()` was called for it
    (`handled` is the log of these calls, kept by `handle`): the difference are the copies of it that
    still wait in the ordering buffer. -/
theorem C15_released_at_most_once (cfg : Cfg) (O : Oracle) (capNum capSize highest : Nat) (conn : List Nat)
    (ops : List POp) :
    let p := prun O (Proc.init cfg capNum capSize highest conn) ops
    ∀ tg, cRel tg p.st.trace + C14.unrelTag p.st.buf tg = p.st.handled.count tg := by
  intro p tg
  have h0 : RelInv conn (Proc.init cfg capNum capSize highest conn).cfg (Proc.init cfg capNum capSize highest conn).st :=
    ⟨⟨C14.good_init conn, C14.lim_init _ _ conn⟩, fun _ => rfl⟩
  exact (prun_relInv conn O ops _ h0).2 tg

/-- **Released exactly once by the time the processor is stopped.** For every sequence of `Enqueue`s,
    arrivals of check results (any order, any interleaving between batches) and a final `Stop`, every
    oracle and all limits: each event is reported released exactly as many times as `process()` was
    called for it — whether it was processed, rejected by a check, dropped as too far ahead, a duplicate,
    already connected, or spilled (by a later push or by `Stop`'s `Clear`). For the events of a batch whose
    inserter task ran to completion `process()` is called exactly once each
    (`C15_ordered_batch_in_order`, `C15_unordered_batch_each_once`), hence exactly one `Released`.
    Also: every copy that reached the ordering buffer has exactly one `Released` in the buffer's own
    trace, and the buffer is empty. (`n < 2^32`: the number of events that reached the buffer fits
    `idx.Event`.) -/
theorem C15_released_exactly_once (cfg : Cfg) (O : Oracle) (capNum capSize highest : Nat) (conn : List Nat)
    (ops : List POp) :
    let p := prun O (Proc.init cfg capNum capSize highest conn) (ops ++ [POp.stop])
    p.st.buf.n < 4294967296 →
      (∀ tg, cRel tg p.st.trace = p.st.handled.count tg) ∧
      allReleased p.st.buf.n p.st.buf.trace = true ∧ relOk p.st.buf.trace = true ∧ p.st.buf.inc = [] := by
  intro p hn
  have h0 : RelInv conn (Proc.init cfg capNum capSize highest conn).cfg (Proc.init cfg capNum capSize highest conn).st :=
    ⟨⟨C14.good_init conn, C14.lim_init _ _ conn⟩, fun _ => rfl⟩
  have hr := prun_relInv conn O (ops ++ [POp.stop]) _ h0
  have hr' : RelInv conn p.cfg p.st := hr
  have hb := prun_bufInv conn O ops _ h0.1
  have hp : p = stop (prun O (Proc.init cfg capNum capSize highest conn) ops) := by
    show prun O _ (ops ++ [POp.stop]) = _
    unfold prun
    rw [List.foldl_append]; rfl
  have hbuf : p.st.buf = clear (prun O (Proc.init cfg capNum capSize highest conn) ops).st.buf := by
    rw [hp]
    show (absorb _ _ _).buf = _
    rw [absorb_buf]
  obtain ⟨a, b, _, _, e⟩ := C14.clear_post conn 0 0 _ hb.1
  rw [← hbuf] at a b e
  have hempty := e (by rw [← b]; exact hn)
  have a' : C14.Inv conn p.st.buf.n p.st.buf := a
  refine ⟨?_, ?_, a'.relOk, hempty⟩
  · intro tg
    have := hr'.2 tg
    rw [unrelTag_zero_of_empty a hempty tg] at this
    omega
  · unfold allReleased
    rw [List.all_eq_true]
    intro c hc
    have hc' : c < p.st.buf.n := List.mem_range.1 hc
    cases hrl : (p.st.buf.recs c).released
    · have := a'.buffered c hc' (Nat.ne_of_lt hc') hrl
      rw [hempty] at this; cases this
    · rw [a'.relsync c, hrl]; rfl

/-! ### non-vacuity: two batches (the second ordered, results arriving in reverse), a rejected event,
    a far-future event, a buffered event spilled by `Stop`; the semaphore ends at zero -/
def exA : Item := ⟨0, ⟨1, [], 10⟩, 1⟩
def exB : Item := ⟨1, ⟨2, [1], 10⟩, 2⟩
def exC : Item := ⟨2, ⟨3, [9], 10⟩, 2⟩      -- parent 9 never arrives
def exD : Item := ⟨3, ⟨4, [1], 10⟩, 50⟩     -- far future
def exRun : Proc := prun Oracle.allOk (Proc.init ⟨3, 1000⟩ 10 1000 0 [])
  [.enq 0 false [exB, exA], .enq 1 true [exC, exD], .deliver 1 1 0, .deliver 0 0 6, .deliver 0 1 0,
   .deliver 1 0 0, .stop]
def exOps : List POp :=
  [.enq 0 false [exB, exA], .enq 1 true [exC, exD], .deliver 1 1 0, .deliver 0 0 6, .deliver 0 1 0,
   .deliver 1 0 0, .stop]
/-- the hypotheses of `C15_semaphore_balanced` hold for this run (and `exRun` is this run) -/
example : wfOps exOps ∧ exRun = prun Oracle.allOk (Proc.init ⟨3, 1000⟩ 10 1000 0 []) exOps :=
  ⟨by decide, rfl⟩
example : ∀ op ∈ exOps, validOp op := by
  intro op h
  simp only [exOps, List.mem_cons, List.not_mem_nil, or_false] at h
  rcases h with h | h | h | h | h | h | h <;> subst h <;> first | trivial | decide
example : exRun.st.sem.num = 0 ∧ exRun.st.sem.size = 0 ∧ exRun.st.relNum = 4 ∧ exRun.st.acqNum = 4 ∧
    exRun.st.warned = false ∧ exRun.st.buf.inc = [] ∧ exRun.st.buf.n = 2 ∧ exRun.st.handled = [3, 2, 0, 1] ∧
    cRel 2 exRun.st.trace = 1 := by
  decide

end C15

/-! ### Structural expectations (regenerated facts `Gen.FactsC15`)
The processor model takes for granted that `Processor.Stop` terminates the semaphore, waits for the
workers and only then clears the ordering buffer (so that no event is pushed after the clear). -/
namespace C15Facts
theorem stop_order : Gen.FactsC15.stopTerminatesSemaphore = true ∧ Gen.FactsC15.stopWaitsBeforeClear = true := by decide
end C15Facts
