import LachesisVerif.Gen.FactsC23
/-!
# Structural expectations for C23 (regenerated facts `Gen.FactsC23`)

Split out of the family survey (`notes/facts-kv-notes.md` lists what the selectors cannot express).
Each theorem states the expected value of Bool facts regenerated from the Go source by
`go/cmd/extract` (selectors `hascall:`, `topcall:`, `topassign:`, `before:`); a statement that is
dropped, guarded or reordered flips a fact and breaks the theorem.
-/
namespace FactsC23

/-- kvdb/pebble: both `NewIterator`s bound the engine iterator by `bytesPrefixRange` (what
    `pbl_bytesPrefixRange_spec` is about), which appends `start` to the lower bound at top level
    (`pblRange`: `lo ++ start` on both non-nil paths); the wrapper's `Next` uses `First` and records
    that it did (`PebbleIt.next`, `pebble_iterator_wrapper`: every item once); `Get` clones the value
    before the closer releases the engine's buffer (a value is a value, not a view into a buffer
    that later writes reuse). -/
theorem pebble_structure :
    Gen.FactsC23.pblIterUsesRange = true ∧ Gen.FactsC23.pblSnapIterUsesRange = true ∧
    Gen.FactsC23.pblRangeAppendsStart = true ∧ Gen.FactsC23.pblFirstOnStart = true ∧
    Gen.FactsC23.pblMarksStarted = true ∧ Gen.FactsC23.pblGetCopiesBeforeClose = true := by decide

/-- kvdb/leveldb: `NewIterator` uses `bytesPrefixRange`, which appends `start` unconditionally
    (`ldbRange`, `ldb_bytesPrefixRange_spec`); the replayer forwards every `Put` to the writer
    (`ldbReplayer`, `ldb_replay_keeps_ops`; the nil-to-empty repair is the kernel
    `Gen.Kv.ldbReplayNilValue`). -/
theorem leveldb_structure :
    Gen.FactsC23.ldbIterUsesRange = true ∧ Gen.FactsC23.ldbRangeAppendsStart = true ∧
    Gen.FactsC23.ldbReplayForwardsPut = true := by decide

/-- `memorydb.New` = `flushable.Wrap(devnulldb.New())` (`memorydb_refines`: a flushable store over an
    always-empty store); kvdb/synced forwards (`syncedOver`). -/
theorem memory_synced_structure :
    Gen.FactsC23.memIsFlushable = true ∧ Gen.FactsC23.memOverDevnull = true ∧
    Gen.FactsC23.syncedPutForwards = true := by decide

end FactsC23
