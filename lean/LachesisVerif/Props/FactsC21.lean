import LachesisVerif.Gen.FactsC21
/-!
# Structural expectations for C21 (regenerated facts `Gen.FactsC21`)

Split out of the family survey (`notes/facts-misc-notes.md` lists what the selectors cannot express).
Each theorem states the expected value of Bool facts regenerated from the Go source by
`go/cmd/extract` (selectors `hascall:`, `topcall:`, `topassign:`, `before:`); a statement that is
dropped, guarded or reordered flips a fact and breaks the theorem.
-/
namespace FactsC21

/-- `SyncedToEmit` (`Model.Doublesign.syncedToEmit`): the second guard is hard-coded in the model as
    `s.p2pSynced = 0` (`IsZero`, no kernel); both guards return before the first `max.apply`; every
    accumulated wait is `remaining(threshold, Since(..))` (saturating — "capped at the largest
    representable duration"). `maxWaitError.apply` (`Model.Doublesign.apply`) replaces the wait AND
    its error; `Since` is `Now.Sub` (`Status.since`, saturating by the stdlib contract). -/
theorem synced_to_emit_structure :
    Gen.FactsC21.emitChecksP2PZero = true ∧ Gen.FactsC21.emitGuardsBeforeWaits = true ∧
    Gen.FactsC21.emitUsesRemaining = true ∧ Gen.FactsC21.emitSinceBeforeApply = true ∧
    Gen.FactsC21.applySetsWaitAndErr = true ∧ Gen.FactsC21.sinceIsNowSub = true := by decide

/-- `DetectParallelInstance` (`Model.Doublesign.detectParallel`): the guard "created before startup"
    is hard-coded in the model (`s.extCreated < s.startup`, Go `Before`, no kernel) and the age is
    `s.Since(..)` — "exactly when … not older than startup and younger than the threshold". -/
theorem detect_parallel_structure :
    Gen.FactsC21.parallelChecksStartup = true ∧ Gen.FactsC21.parallelUsesSince = true := by decide

end FactsC21
