import LachesisVerif.Proofs.OrdererRestart2
import LachesisVerif.Proofs.OrdererRestart3c
import LachesisVerif.Proofs.ElectionExample
/-!
# C08 — A restart is invisible

"Restarting a consensus instance between any two processed events from its persisted main and epoch
databases, with a fresh vector index over the persisted index data, yields exactly the same later
accept/reject decisions, blocks, epoch transitions and decided frames as an instance that kept
running."

Model (`Model.Orderer`, run in lock-step against the Go code by the `cons` stream, which restarts
instances at event boundaries): the persisted part of `OState` is `(epoch, vals, ldf, roots)` (main
DB: epoch state, `LastDecidedFrame`; epoch DB: roots table), the volatile part is the election `el`.
A restart is `Model.Orderer.bootstrap`: the election is re-created for frame `ldf + 1` and the known
roots are re-voted by `bootstrapElection` (table order: frame, validator, id). For a state of a
running instance this decides nothing new, because everything decidable was already decided — that
is L5 of C10 (in the one-step theorems of the first half it enters as the named hypothesis
`RunningFeed`; in the second half it is the proved invariant `OpenEl`).

PARTIAL proof (one epoch; the `observe` oracle is the graph's forkless cause before and after).

Proved for whole continuations (second half of this file, `Proofs/OrdererRestart3*.lean`), from L5 as an
invariant of `process` runs (`OInv`, `OpenEl`; C10):
* `C08_restart_invisible_partial`: for every valid history with accepted frames and forkers below one
  third, every parents-first processing order `pre ++ post` of (an ancestry-closed part of) its events
  and every split point: the instance that processed `pre` can be restarted — `bootstrap` succeeds,
  emits no block, reports no seal, keeps (epoch, validators, `LastDecidedFrame`, roots table) — and
  the restarted instance answers every event of `post` exactly like the instance that kept running
  (all accepted, the same decided frames = epoch, frame, Atropos, sealed flag, per event) and ends
  with the same persisted state. `C08_restart_invisible_history_partial`: the same read on the
  history order `0 … n-1` itself, restart after the first `k` events.
* `C08_restarts_invisible_partial`: restarts at any number of points (`runSegs` restarts before every
  segment of the order): same answers and same final persisted state as the run without restarts.
* The hypotheses `RunningFeed`, `Contiguous`, `Setup`, `hunseen` of the one-step theorems below are
  discharged: `OrdererRestart3.restart_open` (a state reached by running satisfies them in the
  semantic form `OpenEl`; the restart decides nothing and is `OpenEl` again),
  `OrdererRestart3.step_agree` / `process_lockstep` / `run_lockstep` (two instances with the same
  persisted state and `OpenEl` elections go through `Process` in lock-step).
Remaining hypotheses of these theorems beyond the property's own (valid history, BFT): `hframes`
(claimed frames obey the frame rule — what `Process` itself checks), `hbound` (frames `< 2^31`),
`hvals` (canonical validator record; C12), `hobs` (the forkless-cause oracle answers the graph
relation `N.FC` both before and after the restart — C05 for the vector index; the reload of the
index from `BranchesInfo` is not modelled), `hseal` (the application does not seal: one epoch).
Restarts across epoch seals: `Consensus.indexed_restarts_multi_epoch_partial` (Props/Consensus.lean, combined model); reload of the
vector index from its store: Props/VecPersist.lean. Not proved here: store caches (C33).

Earlier one-step results (kept; first half of this file):
* `C08_persisted_unchanged` (unconditional): `bootstrap` changes nothing of the persisted part unless it
  decides a frame, and then reports `sealed = false`; `C08_volatile_irrelevant`: its result does not
  depend on the volatile part at all. `C08_sync`: `LastDecidedFrame + 1 = frameToDecide` and the
  election's validators = the epoch's are invariants of `process` / hold after `initial`.
* `C08_restart_election_equiv_partial`, `C08_next_root_equiv_partial`,
  `C08_restart_next_process_partial`: under the named hypotheses `RunningFeed env s rs` (the running
  election is the result of feeding, from `reset`, a closed feed `rs` of exactly the known roots above
  the frame to decide, nothing returned), `Contiguous s.roots f`, `Setup` (before and after the next
  event), `hunseen`, frame bounds: `bootstrap` returns the same persisted state, decides nothing, its
  election is `ElEquiv` to the running one (same subjects decided the same way with the same observed
  root = the graph-level `DecidedYes/DecidedNo`; every known later root has a stored vote on every
  undecided subject in both, equal to the graph-level `voteYes`), the next `processRoot` and the next
  `Process` step give the same outcome and persisted state.
Composition with the vector index (`hobs`, `hvals`, `hbound` discharged; the restarted instance keeps the persisted index state and re-indexes nothing): `Consensus.indexed_restart_invisible_partial` (Props/Consensus.lean).
-/
namespace C08
open Model.Pos Model.Election Model.Orderer ElectionRules ElectionRefine OrdererRestart

/-- C08 (1): a restart that decides nothing leaves epoch, validators, `LastDecidedFrame` and the
    roots table untouched (and is not a seal). Unconditional. -/
theorem C08_persisted_unchanged (env : Env) (s s' : OState) (out : List Decided) (flag : Bool)
    (h : bootstrap env s = .ok (s', out, flag)) (hout : out = []) :
    s'.epoch = s.epoch ∧ s'.vals = s.vals ∧ s'.ldf = s.ldf ∧ s'.roots = s.roots ∧ flag = false := by
  unfold bootstrap at h
  obtain ⟨more, hm, hsame⟩ := bootstrapElection_out env _ _ _ _ _ _ h
  have : more = [] := by rw [hout] at hm; simpa using hm.symm
  obtain ⟨hp, hf⟩ := hsame this
  exact ⟨hp.epoch, hp.vals, hp.ldf, hp.roots, hf⟩

/-- the outcome of a restart is a function of the persisted part only -/
theorem C08_volatile_irrelevant (env : Env) (s : OState) (e : Election) :
    bootstrap env { s with el := e } = bootstrap env s := rfl

/-- the election re-created by `Bootstrap` is for the frame the running election was deciding:
    `frameToDecide = LastDecidedFrame + 1` and the election's validators are the epoch's, initially
    and after every `Process` -/
theorem C08_sync (env : Env) :
    (∀ epoch vals, Sync (initial epoch vals)) ∧
    (∀ s id creator spf claimed, Sync s → Sync (process env s id creator spf claimed).1) :=
  ⟨sync_initial, fun s id creator spf claimed h => sync_process env s id creator spf claimed h⟩

/-- C08 (2): the election rebuilt by a restart from the roots table is equivalent to the election of
    the running instance, both being determined by the graph-level rules. -/
theorem C08_restart_election_equiv_partial (N : Net) (env : Env) (s : OState) (rs : List Root)
    (hsync : Sync s) (S : Setup N s.vals s.el.frameToDecide env.observe (frameRoots s)) (hpos : 0 < N.nVals)
    (hrun : RunningFeed env s rs) (hcont : Contiguous s.roots s.el.frameToDecide)
    (hb : ∀ r ∈ s.roots, r.frame < 4294967296) :
    ∃ el₂, bootstrap env s = .ok ({ s with el := el₂ }, [], false) ∧
      ElEquiv N s.el.frameToDecide rs.reverse s.el el₂ := by
  obtain ⟨el₂, h1, _, _, _, _, h6⟩ := restart_election_equiv N env s rs hsync S hpos hrun hcont hb
  exact ⟨el₂, h1, h6⟩

/-- … hence the next root is processed with the same outcome by both elections -/
theorem C08_next_root_equiv_partial (N : Net) (env : Env) (s : OState) (rs : List Root)
    (hsync : Sync s) (S : Setup N s.vals s.el.frameToDecide env.observe (frameRoots s)) (hpos : 0 < N.nVals)
    (hrun : RunningFeed env s rs) (hcont : Contiguous s.roots s.el.frameToDecide)
    (hb : ∀ r ∈ s.roots, r.frame < 4294967296)
    (nr : Root) (hroot : nr ∈ frameRoots s nr.frame) (hnb : nr.frame < 4294967296)
    (hclosed : ∀ p ∈ frameRoots s (nr.frame - 1), s.el.frameToDecide < p.frame → env.observe nr.id p.id = true → p ∈ rs) :
    ∃ el₂, bootstrap env s = .ok ({ s with el := el₂ }, [], false) ∧
      Except.map Prod.snd (processRoot env.observe (frameRoots s) s.el nr) =
        Except.map Prod.snd (processRoot env.observe (frameRoots s) el₂ nr) ∧
      ∀ el₁', processRoot env.observe (frameRoots s) s.el nr = .ok (el₁', none) →
        ∃ el₂', processRoot env.observe (frameRoots s) el₂ nr = .ok (el₂', none) ∧
          ElEquiv N s.el.frameToDecide (nr :: rs.reverse) el₁' el₂' := by
  obtain ⟨el₂, h1, h2, h3, h4, h5, _⟩ := restart_election_equiv N env s rs hsync S hpos hrun hcont hb
  obtain ⟨a, b⟩ := next_processRoot_equiv S hpos rs (restartFeed s) hrun.closed h3 h4 h5 s.el el₂ hrun.run h2
    nr hroot hnb hclosed
  exact ⟨el₂, h1, a, b⟩

/-- C08 (3), the property for one further step: restart the instance in state `s`
    (`bootstrap`), then submit the next event to the running and to the restarted instance: same
    accept/reject, same error, same decided frames; the persisted states afterwards coincide. -/
theorem C08_restart_next_process_partial (N₀ N : Net) (env : Env) (s : OState) (rs : List Root)
    (hsync : Sync s) (S : Setup N₀ s.vals s.el.frameToDecide env.observe (frameRoots s)) (hpos₀ : 0 < N₀.nVals)
    (hrun : RunningFeed env s rs) (hcont : Contiguous s.roots s.el.frameToDecide)
    (hb : ∀ r ∈ s.roots, r.frame < 4294967296)
    (id creator spf claimed : Nat) (hclaimed : claimed < 4294967296) (hspf : spf + 1 < 4294967296)
    (S1 : Setup N s.vals s.el.frameToDecide env.observe
      (framesOf (insRoots env id creator (rootFrames spf claimed) s.roots)))
    (hpos : 0 < N.nVals) (hunseen : ∀ p ∈ s.roots, env.observe p.id id = false) :
    ∃ s₂, bootstrap env s = .ok (s₂, [], false) ∧ SamePersisted s s₂ ∧
      (process env s id creator spf claimed).2 = (process env s₂ id creator spf claimed).2 ∧
      SamePersisted (process env s id creator spf claimed).1 (process env s₂ id creator spf claimed).1 := by
  obtain ⟨el₂, h1, h2, h3, h4, h5, _⟩ := restart_election_equiv N₀ env s rs hsync S hpos₀ hrun hcont hb
  refine ⟨{ s with el := el₂ }, h1, ⟨rfl, rfl, rfl, rfl⟩, ?_⟩
  exact process_coupled N env s el₂ rs (restartFeed s) id creator spf claimed hclaimed hspf S1 hpos
    hrun.closed h3 h4 h5 hrun.run h2 hrun.known
    (fun r hr => ((mem_knownList _ _ _ r).1 hr).1) hrun.covers hunseen

/-! ### non-vacuity

One validator, the chain `0 ← 1 ← 2` of `Proofs/ElectionExample.lean` (frames 1, 2, 3), frame 1 already
decided: `LastDecidedFrame = 1`, the election is deciding frame 2 and holds the first-round vote of
root 2. The running instance was fed `[root of frame 3, root of frame 2]`, the restart feeds the table
order `[root of frame 2, root of frame 3]`. All hypotheses of `C08_restart_election_equiv_partial`
hold. (For `C08_restart_next_process_partial` two nets are needed, before and after the next event;
the example file only provides this one, so its hypotheses are not instantiated here.) -/
namespace Example

def exEnv : Env := { observe := ElectionExample.observe, idKey := id, sealAt := fun _ _ => none }
def exEl : Election :=
  { frameToDecide := 2, vals := ElectionExample.vals
    votes := [((⟨2, 3, 0⟩, 0), { decided := false, yes := true, observedRoot := 1 })] }
def exS : OState :=
  { epoch := 1, vals := ElectionExample.vals, ldf := 1, el := exEl, roots := [⟨0, 1, 0⟩, ⟨1, 2, 0⟩, ⟨2, 3, 0⟩] }
def exFeed : List Root := [⟨2, 3, 0⟩, ⟨1, 2, 0⟩]

theorem ex_frameRoots : frameRoots exS = ElectionExample.frameRoots := by
  funext g
  match g with
  | 0 => rfl
  | 1 => rfl
  | 2 => rfl
  | 3 => rfl
  | g + 4 =>
    simp [frameRoots, ElectionExample.frameRoots, exS]

theorem ex_setup : Setup ElectionExample.net exS.vals exS.el.frameToDecide exEnv.observe (frameRoots exS) := by
  rw [ex_frameRoots]; exact ElectionExample.setup 2 (by decide)

theorem ex_sync : Sync exS := ⟨by decide, rfl⟩

theorem ex_running : RunningFeed exEnv exS exFeed where
  closed := by
    rw [ex_frameRoots]
    refine ⟨⟨by decide, by decide, ?_⟩, ⟨by decide, by decide, ?_⟩, trivial⟩
    · intro p hp hfp; simp [ElectionExample.frameRoots] at hp; subst hp; simp [exS, exEl] at hfp
    · intro p hp hfp; simp [ElectionExample.frameRoots] at hp; subst hp; simp [exS, exEl] at hfp
  run := by rw [ex_frameRoots]; rfl
  known := by decide
  covers := by
    intro r hr hfr
    simp [exS] at hr
    rcases hr with rfl | rfl | rfl
    · simp [exS, exEl] at hfr
    · simp [exS, exEl] at hfr
    · decide

theorem ex_contiguous : Contiguous exS.roots exS.el.frameToDecide := by
  intro r hr h1 g h2 h3
  have hr3 : r.frame ≤ 3 := by
    simp [exS] at hr
    rcases hr with rfl | rfl | rfl <;> decide
  have : g = 2 ∨ g = 3 := by
    have : exS.el.frameToDecide = 2 := rfl
    omega
  rcases this with rfl | rfl <;> decide

/-- the hypotheses of `C08_restart_election_equiv_partial` are satisfiable, and `bootstrap` indeed
    returns the persisted state with a rebuilt election and no decision -/
example : ∃ el₂, bootstrap exEnv exS = .ok ({ exS with el := el₂ }, [], false) ∧
    ElEquiv ElectionExample.net 2 exFeed.reverse exS.el el₂ :=
  C08_restart_election_equiv_partial ElectionExample.net exEnv exS exFeed ex_sync ex_setup (by decide)
    ex_running ex_contiguous (by decide)

end Example

/-! ## Whole continuations (L5 as an invariant)

`Proofs/OrdererRestart3*.lean`. With L5 proved as an invariant of `process` runs (`OInv`, `OpenEl` of
`Proofs/OrdererRun.lean`; `C10.L5_run_invariant`) the named hypotheses above are discharged:
`RunningFeed` is replaced by the semantic invariant `OpenEl` (the election stores exactly the votes and
decisions of the rules for the fed roots, every known root above the frame to decide is fed, nothing
is decidable), `Contiguous` and `Setup` follow from the exact roots table of an ancestry-closed set of
processed events (`contiguous_of_table`, `setup_of_table`), `hunseen` is not needed any more. The one
step is lifted to all later steps by the lock-step invariant "same persisted state, both elections
open" (`process_lockstep`, `run_lockstep`). -/
section Whole
open OrdererProofs OrdererRestart3 VecProofs

/-- **C08 for whole continuations, one restart.** `N`: a valid history with accepted frames, forkers
    below one third; `pre ++ post`: any parents-first processing order of (an ancestry-closed part
    of) its events, split anywhere. `sk` = the instance that has processed `pre`. Restarting it
    (`bootstrap` reads only the persisted part) succeeds, emits no block, reports no seal and keeps
    the persisted part; then the restarted instance `s₂` and the instance `sk` that kept running
    answer every event of `post` identically — every event accepted, with the same decided frames
    `dss[i]` (epoch, frame, Atropos, sealed flag) — and end with the same persisted state (epoch,
    validators, `LastDecidedFrame`, roots table).
    `_partial`: hypotheses beyond the property's own (valid history, BFT) are `hframes` (claimed frames
    obey the frame rule: what `Process` checks), `hbound` (frames `< 2^31`), `hvals` (canonical
    validator record, C12), `hobs` (the forkless-cause oracle answers the graph relation, before and
    after the restart: C05, and the reload of the vector index is not modelled), `hseal` (one epoch). -/
theorem C08_restart_invisible_partial (N : Net) (vals : Vals) (env : Env) (ep : Nat)
    (hvalid : Valid N.nVals N.h) (hframes : N.FramesAccepted) (hbft : N.BFT) (hbound : FrameBound N)
    (hvals : ValsOK vals N.nVals N.w) (hobs : ∀ a b, env.observe a b = true ↔ N.FC a b)
    (hseal : ∀ ep f, env.sealAt ep f = none)
    (pre post : List Nat) (horder : PFFrom N [] (pre ++ post)) :
    ∃ (s₂ : OState) (dss : List (List Decided)),
      bootstrap env (runAll N env pre (initial ep vals)).1 = .ok (s₂, [], false) ∧
      SamePersisted (runAll N env pre (initial ep vals)).1 s₂ ∧
      (runAll N env post (runAll N env pre (initial ep vals)).1).2 = dss.map Res.ok ∧
      (runAll N env post s₂).2 = dss.map Res.ok ∧
      SamePersisted (runAll N env post (runAll N env pre (initial ep vals)).1).1 (runAll N env post s₂).1 := by
  have C : Ctx N vals env := ⟨hvalid, hframes, hbft, hbound, hvals, hobs, hseal⟩
  obtain ⟨I0, O0⟩ := initial_inv C ep
  rw [pf_append] at horder
  obtain ⟨_, _, _, _, Ik, Ok, _⟩ := run_lockstep C pre [] [] (initial ep vals) (initial ep vals).el I0 O0 O0 horder.1
  obtain ⟨el₂, hb, O₂⟩ := restart_open C Ik Ok
  obtain ⟨dss, a, b, c, _⟩ := run_lockstep C post _ _ _ el₂ Ik Ok O₂ horder.2
  exact ⟨_, dss, hb, ⟨rfl, rfl, rfl, rfl⟩, a, b, c⟩

/-- the same read on the history itself: process the events `0 … n-1` of a valid history in their
    order, restart after the first `k` -/
theorem C08_restart_invisible_history_partial (N : Net) (vals : Vals) (env : Env) (ep : Nat)
    (hvalid : Valid N.nVals N.h) (hframes : N.FramesAccepted) (hbft : N.BFT) (hbound : FrameBound N)
    (hvals : ValsOK vals N.nVals N.w) (hobs : ∀ a b, env.observe a b = true ↔ N.FC a b)
    (hseal : ∀ ep f, env.sealAt ep f = none) (k : Nat) (hk : k ≤ N.h.length) :
    ∃ (s₂ : OState) (dss : List (List Decided)),
      bootstrap env (runAll N env (List.range' 0 k) (initial ep vals)).1 = .ok (s₂, [], false) ∧
      SamePersisted (runAll N env (List.range' 0 k) (initial ep vals)).1 s₂ ∧
      (runAll N env (List.range' k (N.h.length - k)) (runAll N env (List.range' 0 k) (initial ep vals)).1).2 =
        dss.map Res.ok ∧
      (runAll N env (List.range' k (N.h.length - k)) s₂).2 = dss.map Res.ok ∧
      SamePersisted (runAll N env (List.range' k (N.h.length - k)) (runAll N env (List.range' 0 k) (initial ep vals)).1).1
        (runAll N env (List.range' k (N.h.length - k)) s₂).1 :=
  C08_restart_invisible_partial N vals env ep hvalid hframes hbft hbound hvals hobs hseal _ _
    (pf_split N hvalid k hk)

/-- **Restarts at several points.** `segs`: the processing order cut into segments; `runSegs` restarts
    the instance before every segment (and fails if a restart errs, decides a frame or reports a
    seal). It succeeds and gives the same answers and the same final persisted state as the
    instance that processes `segs.flatten` without any restart. -/
theorem C08_restarts_invisible_partial (N : Net) (vals : Vals) (env : Env) (ep : Nat)
    (hvalid : Valid N.nVals N.h) (hframes : N.FramesAccepted) (hbft : N.BFT) (hbound : FrameBound N)
    (hvals : ValsOK vals N.nVals N.w) (hobs : ∀ a b, env.observe a b = true ↔ N.FC a b)
    (hseal : ∀ ep f, env.sealAt ep f = none)
    (segs : List (List Nat)) (horder : PFFrom N [] segs.flatten) :
    ∃ (dss : List (List Decided)) (s' : OState),
      runSegs N env segs (initial ep vals) = some (s', dss.map Res.ok) ∧
      (runAll N env segs.flatten (initial ep vals)).2 = dss.map Res.ok ∧
      SamePersisted (runAll N env segs.flatten (initial ep vals)).1 s' ∧
      runIds N env segs.flatten (initial ep vals) [] =
        some ((runAll N env segs.flatten (initial ep vals)).1, dss.flatten) := by
  have C : Ctx N vals env := ⟨hvalid, hframes, hbft, hbound, hvals, hobs, hseal⟩
  obtain ⟨I0, O0⟩ := initial_inv C ep
  obtain ⟨dss, s', a, b, c⟩ := segs_lockstep C segs [] [] (initial ep vals) (initial ep vals).el I0 O0 O0 horder
  refine ⟨dss, s', a, b, c, ?_⟩
  have := runIds_of_runAll N env segs.flatten (initial ep vals) [] dss b
  simpa using this

/-- non-vacuity: the three-event chain of `Proofs/OrdererFinal.lean` (`Example`), restarted after the
    second event (and before the first): all hypotheses hold -/
example : ∃ (dss : List (List Decided)) (s' : OState),
    runSegs ElectionExample.net OrdererProofs.Example.env [[0, 1], [2]] (initial 1 ElectionExample.vals) =
      some (s', dss.map Res.ok) ∧
    (runAll ElectionExample.net OrdererProofs.Example.env [0, 1, 2] (initial 1 ElectionExample.vals)).2 =
      dss.map Res.ok :=
  have C := OrdererProofs.Example.ctx
  let ⟨dss, s', a, b, _⟩ := C08_restarts_invisible_partial ElectionExample.net ElectionExample.vals
    OrdererProofs.Example.env 1 C.hv C.hfa C.hbft C.hb C.ok C.obs C.noseal [[0, 1], [2]] OrdererProofs.Example.pf
  ⟨dss, s', a, b⟩

end Whole

end C08
