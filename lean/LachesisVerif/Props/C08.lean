import LachesisVerif.Proofs.OrdererRestart2
import LachesisVerif.Proofs.ElectionExample
/-!
# C08 — A restart is invisible

"Restarting a consensus instance between any two processed events from its persisted main and epoch
databases, with a fresh vector index over the persisted index data, yields exactly the same later
accept/reject decisions, blocks, epoch transitions and decided frames as an instance that kept
running."

Model (`Model.Orderer`, run in lock-step against the Go code by the `cons` stream, which restarts
instances at event boundaries): the persisted part of `OState` is `(epoch, vals, ldf, roots)` (main
DB: epoch state, `LastDecidedFrame`; epoch DB: roots table), the volatile part is the election `el`.
A restart is `Model.Orderer.bootstrap`: the election is re-created for frame `ldf + 1` and the known
roots are re-voted by `bootstrapElection` (table order: frame, validator, id). For a state of a
running instance this decides nothing new, because everything decidable was already decided — that
is L5 of C10, which enters below as the named hypothesis `RunningFeed`.

PARTIAL proof. Proved:
* `C08_persisted_unchanged` (unconditional): `bootstrap` changes nothing of the persisted part unless it
  decides a frame, and then reports `sealed = false`; `C08_volatile_irrelevant`: its result does not
  depend on the volatile part at all. `C08_sync`: `LastDecidedFrame + 1 = frameToDecide` and the
  election's validators = the epoch's are invariants of `process` / hold after `initial` (so the
  election re-created by `Bootstrap` is for the frame the running election was deciding).
* `C08_restart_election_equiv_partial`: under the hypotheses of `C10_single_election_partial` for the
  open election (`Setup`: canonical validators, `observe` = graph forkless cause, roots table = the
  roots of the graph, slot uniqueness — discharged from BFT by L2 —, accepted frames) and the named
  hypotheses below, `bootstrap` returns the same persisted state, decides nothing, and its election is
  `ElEquiv` to the running one: the same subjects are decided, with the same yes/no and the same
  observed root, these being the graph-level `DecidedYes/DecidedNo`; every known root of a later frame
  has a stored vote on every undecided subject in both, with the same yes/no = the graph-level
  `voteYes` and the same observed root. Hence (`C08_next_root_equiv_partial`) the next `processRoot`
  gives the same outcome (same error, same Atropos, or nothing and again equivalent elections).
* `C08_restart_next_process_partial`: the property's sentence for one further `Process` step: the
  restarted instance accepts/rejects the next event exactly like the running one, reports the same
  election error if any, emits the same decided frames (blocks, seals, epoch transitions are
  functions of these: C09), and the persisted states after the step coincide.

Named hypotheses (NOT proved here; they are consequences of the unproved L5 of C10, "the invariant
maintained by `handleElection` + `bootstrapElection`", and of graph facts):
* `RunningFeed env s rs` — L5: the running election is the result of feeding, from `reset`, a closed
  feed `rs` (the arrival order) consisting of exactly the known roots above the frame to decide, and
  nothing was returned (everything decidable from the known roots has been decided);
* `Contiguous s.roots f` — no frame without roots below a frame with roots (every root is
  forkless-caused by a quorum of roots of the previous frame);
* root frames `< 2^32`; at least one validator;
* for the next event: `Setup` for the table including the event's roots; no known root
  forkless-causes the new event (`hunseen`; the new event is nobody's ancestor);
  `claimed < 2^32`, `selfParentFrame + 1 < 2^32`.
Also not proved: the lifting from one step to all later steps (needs `RunningFeed` as an invariant =
L5), restarts that decide frames on start-up, the vector index reload (`BranchesInfo` round-trip; the
`observe` oracle is assumed to be the same function before and after), store caches (C33).
-/
namespace C08
open Model.Pos Model.Election Model.Orderer ElectionRules ElectionRefine OrdererRestart

/-- C08 (1): a restart that decides nothing leaves epoch, validators, `LastDecidedFrame` and the
    roots table untouched (and is not a seal). Unconditional. -/
theorem C08_persisted_unchanged (env : Env) (s s' : OState) (out : List Decided) (flag : Bool)
    (h : bootstrap env s = .ok (s', out, flag)) (hout : out = []) :
    s'.epoch = s.epoch ∧ s'.vals = s.vals ∧ s'.ldf = s.ldf ∧ s'.roots = s.roots ∧ flag = false := by
  unfold bootstrap at h
  obtain ⟨more, hm, hsame⟩ := bootstrapElection_out env _ _ _ _ _ _ h
  have : more = [] := by rw [hout] at hm; simpa using hm.symm
  obtain ⟨hp, hf⟩ := hsame this
  exact ⟨hp.epoch, hp.vals, hp.ldf, hp.roots, hf⟩

/-- the outcome of a restart is a function of the persisted part only -/
theorem C08_volatile_irrelevant (env : Env) (s : OState) (e : Election) :
    bootstrap env { s with el := e } = bootstrap env s := rfl

/-- the election re-created by `Bootstrap` is for the frame the running election was deciding:
    `frameToDecide = LastDecidedFrame + 1` and the election's validators are the epoch's, initially
    and after every `Process` -/
theorem C08_sync (env : Env) :
    (∀ epoch vals, Sync (initial epoch vals)) ∧
    (∀ s id creator spf claimed, Sync s → Sync (process env s id creator spf claimed).1) :=
  ⟨sync_initial, fun s id creator spf claimed h => sync_process env s id creator spf claimed h⟩

/-- C08 (2): the election rebuilt by a restart from the roots table is equivalent to the election of
    the running instance, both being determined by the graph-level rules. -/
theorem C08_restart_election_equiv_partial (N : Net) (env : Env) (s : OState) (rs : List Root)
    (hsync : Sync s) (S : Setup N s.vals s.el.frameToDecide env.observe (frameRoots s)) (hpos : 0 < N.nVals)
    (hrun : RunningFeed env s rs) (hcont : Contiguous s.roots s.el.frameToDecide)
    (hb : ∀ r ∈ s.roots, r.frame < 4294967296) :
    ∃ el₂, bootstrap env s = .ok ({ s with el := el₂ }, [], false) ∧
      ElEquiv N s.el.frameToDecide rs.reverse s.el el₂ := by
  obtain ⟨el₂, h1, _, _, _, _, h6⟩ := restart_election_equiv N env s rs hsync S hpos hrun hcont hb
  exact ⟨el₂, h1, h6⟩

/-- … hence the next root is processed with the same outcome by both elections -/
theorem C08_next_root_equiv_partial (N : Net) (env : Env) (s : OState) (rs : List Root)
    (hsync : Sync s) (S : Setup N s.vals s.el.frameToDecide env.observe (frameRoots s)) (hpos : 0 < N.nVals)
    (hrun : RunningFeed env s rs) (hcont : Contiguous s.roots s.el.frameToDecide)
    (hb : ∀ r ∈ s.roots, r.frame < 4294967296)
    (nr : Root) (hroot : nr ∈ frameRoots s nr.frame) (hnb : nr.frame < 4294967296)
    (hclosed : ∀ p ∈ frameRoots s (nr.frame - 1), s.el.frameToDecide < p.frame → env.observe nr.id p.id = true → p ∈ rs) :
    ∃ el₂, bootstrap env s = .ok ({ s with el := el₂ }, [], false) ∧
      Except.map Prod.snd (processRoot env.observe (frameRoots s) s.el nr) =
        Except.map Prod.snd (processRoot env.observe (frameRoots s) el₂ nr) ∧
      ∀ el₁', processRoot env.observe (frameRoots s) s.el nr = .ok (el₁', none) →
        ∃ el₂', processRoot env.observe (frameRoots s) el₂ nr = .ok (el₂', none) ∧
          ElEquiv N s.el.frameToDecide (nr :: rs.reverse) el₁' el₂' := by
  obtain ⟨el₂, h1, h2, h3, h4, h5, _⟩ := restart_election_equiv N env s rs hsync S hpos hrun hcont hb
  obtain ⟨a, b⟩ := next_processRoot_equiv S hpos rs (restartFeed s) hrun.closed h3 h4 h5 s.el el₂ hrun.run h2
    nr hroot hnb hclosed
  exact ⟨el₂, h1, a, b⟩

/-- C08 (3), the property for one further step: restart the instance in state `s`
    (`bootstrap`), then submit the next event to the running and to the restarted instance: same
    accept/reject, same error, same decided frames; the persisted states afterwards coincide. -/
theorem C08_restart_next_process_partial (N₀ N : Net) (env : Env) (s : OState) (rs : List Root)
    (hsync : Sync s) (S : Setup N₀ s.vals s.el.frameToDecide env.observe (frameRoots s)) (hpos₀ : 0 < N₀.nVals)
    (hrun : RunningFeed env s rs) (hcont : Contiguous s.roots s.el.frameToDecide)
    (hb : ∀ r ∈ s.roots, r.frame < 4294967296)
    (id creator spf claimed : Nat) (hclaimed : claimed < 4294967296) (hspf : spf + 1 < 4294967296)
    (S1 : Setup N s.vals s.el.frameToDecide env.observe
      (framesOf (insRoots env id creator (rootFrames spf claimed) s.roots)))
    (hpos : 0 < N.nVals) (hunseen : ∀ p ∈ s.roots, env.observe p.id id = false) :
    ∃ s₂, bootstrap env s = .ok (s₂, [], false) ∧ SamePersisted s s₂ ∧
      (process env s id creator spf claimed).2 = (process env s₂ id creator spf claimed).2 ∧
      SamePersisted (process env s id creator spf claimed).1 (process env s₂ id creator spf claimed).1 := by
  obtain ⟨el₂, h1, h2, h3, h4, h5, _⟩ := restart_election_equiv N₀ env s rs hsync S hpos₀ hrun hcont hb
  refine ⟨{ s with el := el₂ }, h1, ⟨rfl, rfl, rfl, rfl⟩, ?_⟩
  exact process_coupled N env s el₂ rs (restartFeed s) id creator spf claimed hclaimed hspf S1 hpos
    hrun.closed h3 h4 h5 hrun.run h2 hrun.known
    (fun r hr => ((mem_knownList _ _ _ r).1 hr).1) hrun.covers hunseen

/-! ### non-vacuity

One validator, the chain `0 ← 1 ← 2` of `Proofs/ElectionExample.lean` (frames 1, 2, 3), frame 1 already
decided: `LastDecidedFrame = 1`, the election is deciding frame 2 and holds the first-round vote of
root 2. The running instance was fed `[root of frame 3, root of frame 2]`, the restart feeds the table
order `[root of frame 2, root of frame 3]`. All hypotheses of `C08_restart_election_equiv_partial`
hold. (For `C08_restart_next_process_partial` two nets are needed, before and after the next event;
the example file only provides this one, so its hypotheses are not instantiated here.) -/
namespace Example

def exEnv : Env := { observe := ElectionExample.observe, idKey := id, sealAt := fun _ _ => none }
def exEl : Election :=
  { frameToDecide := 2, vals := ElectionExample.vals
    votes := [((⟨2, 3, 0⟩, 0), { decided := false, yes := true, observedRoot := 1 })] }
def exS : OState :=
  { epoch := 1, vals := ElectionExample.vals, ldf := 1, el := exEl, roots := [⟨0, 1, 0⟩, ⟨1, 2, 0⟩, ⟨2, 3, 0⟩] }
def exFeed : List Root := [⟨2, 3, 0⟩, ⟨1, 2, 0⟩]

theorem ex_frameRoots : frameRoots exS = ElectionExample.frameRoots := by
  funext g
  match g with
  | 0 => rfl
  | 1 => rfl
  | 2 => rfl
  | 3 => rfl
  | g + 4 =>
    simp [frameRoots, ElectionExample.frameRoots, exS]

theorem ex_setup : Setup ElectionExample.net exS.vals exS.el.frameToDecide exEnv.observe (frameRoots exS) := by
  rw [ex_frameRoots]; exact ElectionExample.setup 2 (by decide)

theorem ex_sync : Sync exS := ⟨by decide, rfl⟩

theorem ex_running : RunningFeed exEnv exS exFeed where
  closed := by
    rw [ex_frameRoots]
    refine ⟨⟨by decide, by decide, ?_⟩, ⟨by decide, by decide, ?_⟩, trivial⟩
    · intro p hp hfp; simp [ElectionExample.frameRoots] at hp; subst hp; simp [exS, exEl] at hfp
    · intro p hp hfp; simp [ElectionExample.frameRoots] at hp; subst hp; simp [exS, exEl] at hfp
  run := by rw [ex_frameRoots]; rfl
  known := by decide
  covers := by
    intro r hr hfr
    simp [exS] at hr
    rcases hr with rfl | rfl | rfl
    · simp [exS, exEl] at hfr
    · simp [exS, exEl] at hfr
    · decide

theorem ex_contiguous : Contiguous exS.roots exS.el.frameToDecide := by
  intro r hr h1 g h2 h3
  have hr3 : r.frame ≤ 3 := by
    simp [exS] at hr
    rcases hr with rfl | rfl | rfl <;> decide
  have : g = 2 ∨ g = 3 := by
    have : exS.el.frameToDecide = 2 := rfl
    omega
  rcases this with rfl | rfl <;> decide

/-- the hypotheses of `C08_restart_election_equiv_partial` are satisfiable, and `bootstrap` indeed
    returns the persisted state with a rebuilt election and no decision -/
example : ∃ el₂, bootstrap exEnv exS = .ok ({ exS with el := el₂ }, [], false) ∧
    ElEquiv ElectionExample.net 2 exFeed.reverse exS.el el₂ :=
  C08_restart_election_equiv_partial ElectionExample.net exEnv exS exFeed ex_sync ex_setup (by decide)
    ex_running ex_contiguous (by decide)

end Example

end C08
