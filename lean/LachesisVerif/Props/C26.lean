import LachesisVerif.Model.Multidb
/-!
# C26 — Multi-DB routing is deterministic and isolating

> Routing a database request is deterministic, and stores opened for different requests never see
> each other's keys: a request whose table would overlap the table of another request in the same
> database is refused. Re-opening a request, also after a restart over the same databases, yields
> the same database and table, and verification fails exactly when some recorded request would now
> be routed to a different database type, name or table.
> (All routing tables with exact and pattern routes, nested request paths, and request sequences;
> tables that are prefixes of the metadata key excluded.)

Model: `Model.Multidb` (`NewProducer` with the repaired sorted construction, `RouteOf`,
`handleRoute`, `OpenDB`, `Verify`; `%d`/`%s` matchers modelled concretely, but every theorem about
`RouteOf` on a `Router` holds for arbitrary matcher functions). The Boolean combinations come from
`Gen.Multidb` (regenerated from kvdb/multidb on every run).

* `routeOf_terminates`, `newProducer_routes` — routing always returns (default route).
* `routeOf_deterministic` — the route is a function of the routing table: independent of the Go
  map iteration order (any permutation) in which `NewProducer` receives it (D8 repaired);
  `prefix_order_dependent` is the `decide`d witness for the pre-fix construction.
* `C26_isolation`, `keys_disjoint`, `conflicting_refused` — isolation.
* `reopen_same` — re-opening (any later state, any instance built from the same table).
* `verify_iff` — `Verify` fails exactly when a recorded request routes elsewhere.
-/

namespace C26
open Model.Multidb

/-! ## termination -/

theorem splitLast_length {s a b : Str} (h : splitLast s = some (a, b)) : a.length < s.length := by
  induction s generalizing a b with
  | nil => simp [splitLast] at h
  | cons c rest ih =>
    unfold splitLast at h
    cases hr : splitLast rest with
    | some p =>
      obtain ⟨a', b'⟩ := p
      rw [hr] at h
      simp only [Option.some.injEq, Prod.mk.injEq] at h
      obtain ⟨rfl, rfl⟩ := h
      have := ih hr
      simp only [List.length_cons]; omega
    | none =>
      rw [hr] at h
      simp only at h
      split at h
      · simp only [Option.some.injEq, Prod.mk.injEq] at h
        obtain ⟨rfl, _⟩ := h
        simp
      · cases h

theorem routeLoop_empty (r : Router) (hd : (matchReq r []).isSome) (fuel : Nat) (n t : Str) :
    (routeLoop (fuel + 1) r [] n t).isSome := by
  unfold routeLoop
  cases h : matchReq r [] with
  | some d => simp
  | none => rw [h] at hd; cases hd

theorem routeLoop_some (r : Router) (hd : (matchReq r []).isSome) :
    ∀ (fuel : Nat) (req n t : Str), req.length + 2 ≤ fuel → (routeLoop fuel r req n t).isSome := by
  intro fuel
  induction fuel with
  | zero => intro req n t h; omega
  | succ k ih =>
    intro req n t h
    unfold routeLoop
    cases hm : matchReq r req with
    | some d => simp
    | none =>
      simp only
      cases hs : splitLast req with
      | none =>
        simp only
        cases k with
        | zero => omega
        | succ k' => exact routeLoop_empty r hd k' _ _
      | some p =>
        obtain ⟨a, b⟩ := p
        simp only
        have := splitLast_length hs
        exact ih a n (t ++ b) (by omega)

/-- `RouteOf` terminates for every request when the default route (request `""`) matches. -/
theorem routeOf_terminates (r : Router) (hd : (matchReq r []).isSome) (req : Str) :
    (routeOf r req).isSome :=
  routeLoop_some r hd _ req [] [] (Nat.le_refl _)

/-! ## `NewProducer` always yields a router whose default route matches -/

theorem firstPat_cons (p : Pat) (rest : List Pat) (req : Str) :
    firstPat (p :: rest) req =
      match p.matcher req with
      | some name => some ⟨p.type, name, p.table, p.noDrop⟩
      | none => firstPat rest req := by
  simp only [firstPat, Gen.Multidb.tryNextPattern, Bool.not_false, Bool.true_and,
    Nat.zero_lt_succ, decide_true, if_true]
  cases p.matcher req <;> rfl

theorem firstPat_append_isSome (ps : List Pat) (p : Pat) (req : Str) :
    (firstPat (ps ++ [p]) req).isSome = ((firstPat ps req).isSome || (p.matcher req).isSome) := by
  induction ps with
  | nil =>
    simp only [List.nil_append, firstPat_cons]
    cases p.matcher req <;> simp [firstPat]
  | cons q qs ih =>
    simp only [List.cons_append, firstPat_cons]
    cases q.matcher req with
    | some n => simp
    | none => simpa using ih

theorem lookupExact_append_isSome (es : List Entry) (e : Entry) (req : Str) :
    (lookupExact (es ++ [e]) req).isSome = ((lookupExact es req).isSome || decide (e.req = req)) := by
  simp only [lookupExact, Option.isSome_map, List.find?_append]
  cases h : List.find? (fun e => decide (e.req = req)) es with
  | some x => simp
  | none =>
    by_cases hq : e.req = req <;> simp [List.find?, hq]

def DefOK (r : Router) : Prop := (matchReq r []).isSome

theorem defOK_iff (r : Router) :
    DefOK r ↔ (lookupExact r.exact []).isSome ∨ (firstPat r.pats []).isSome := by
  unfold DefOK matchReq
  cases lookupExact r.exact [] <;> simp

theorem compileFilter_empty {name : Str} {fn : Str → Option Str}
    (h : compileFilter [] name = some fn) : (fn []).isSome := by
  unfold compileFilter at h
  simp only [parseTemplate] at h
  cases hp : parseTemplate name with
  | none => rw [hp] at h; cases h
  | some pt =>
    rw [hp] at h
    simp only [verbsOf, List.filter_nil, List.isEmpty_nil, if_true] at h
    split at h
    · cases h
    · simp only [Option.some.injEq] at h
      subst h
      simp

theorem addEntries_defOK : ∀ (es : List Entry) (r0 r : Router), addEntries es r0 = some r →
    (DefOK r0 ∨ ∃ e ∈ es, e.req = []) → DefOK r := by
  intro es
  induction es with
  | nil =>
    intro r0 r h hd
    simp only [addEntries, Option.some.injEq] at h
    subst h
    rcases hd with hd | ⟨e, he, _⟩
    · exact hd
    · cases he
  | cons e es ih =>
    intro r0 r h hd
    unfold addEntries at h
    split at h
    · -- exact route
      refine ih _ r h ?_
      rcases hd with hd | ⟨e', he', hq⟩
      · left
        rw [defOK_iff] at hd ⊢
        rcases hd with hd | hd
        · left; simp [lookupExact_append_isSome, hd]
        · right; exact hd
      · rcases List.mem_cons.mp he' with rfl | hmem
        · left
          rw [defOK_iff]; left
          simp [lookupExact_append_isSome, hq]
        · right; exact ⟨e', hmem, hq⟩
    · -- pattern route
      cases hc : compileFilter e.req e.route.name with
      | none => rw [hc] at h; cases h
      | some fn =>
        rw [hc] at h
        refine ih _ r h ?_
        rcases hd with hd | ⟨e', he', hq⟩
        · left
          rw [defOK_iff] at hd ⊢
          rcases hd with hd | hd
          · left; exact hd
          · right; simp [firstPat_append_isSome, hd]
        · rcases List.mem_cons.mp he' with rfl | hmem
          · left
            rw [defOK_iff]; right
            rw [hq] at hc
            simp [firstPat_append_isSome, compileFilter_empty hc]
          · right; exact ⟨e', hmem, hq⟩

/-- Every router `NewProducer` returns (repaired or pre-fix construction, any visiting order)
    answers every request: the loop of `RouteOf` ends at the default route at the latest. -/
theorem newProducerIn_routes {order : List Entry} {r : Router} (h : newProducerIn order = some r)
    (req : Str) : (routeOf r req).isSome := by
  unfold newProducerIn at h
  split at h
  · cases h
  · rename_i hd
    have hd : ∃ e ∈ order, e.req = [] := by
      cases ha : hasDefault order with
      | false => rw [ha] at hd; exact absurd rfl hd
      | true => simpa [hasDefault] using ha
    exact routeOf_terminates r (addEntries_defOK _ _ r h (Or.inr hd)) req

theorem newProducer_routes {table : List Entry} {r : Router} (h : newProducer table = some r)
    (req : Str) : (routeOf r req).isSome := newProducerIn_routes h req

/-! ## determinism: the router is a function of the routing table, not of the map order -/

theorem entryLe_trans (a b c : Entry) : entryLe a b = true → entryLe b c = true → entryLe a c = true := by
  simp only [entryLe, strLe, decide_eq_true_eq]; exact List.le_trans

theorem entryLe_total (a b : Entry) : (entryLe a b || entryLe b a) = true := by
  simp only [entryLe, strLe, Bool.or_eq_true, decide_eq_true_eq]; exact List.le_total _ _

theorem eq_of_req_eq {t : List Entry} (hn : (t.map (·.req)).Nodup) {a b : Entry}
    (ha : a ∈ t) (hb : b ∈ t) (h : a.req = b.req) : a = b := by
  induction t with
  | nil => cases ha
  | cons x xs ih =>
    simp only [List.map_cons, List.nodup_cons, List.mem_map, not_exists, not_and] at hn
    rcases List.mem_cons.mp ha with rfl | ha' <;> rcases List.mem_cons.mp hb with rfl | hb'
    · rfl
    · exact absurd h.symm (hn.1 b hb')
    · exact absurd h (hn.1 a ha')
    · exact ih hn.2 ha' hb'

theorem insertEntry_perm (e : Entry) (l : List Entry) : (insertEntry e l).Perm (e :: l) := by
  induction l with
  | nil => exact List.Perm.refl _
  | cons x xs ih =>
    unfold insertEntry
    split
    · exact List.Perm.refl _
    · exact (List.Perm.cons x ih).trans (List.Perm.swap e x xs)

theorem sortEntries_perm_self (t : List Entry) : (sortEntries t).Perm t := by
  induction t with
  | nil => exact List.Perm.refl _
  | cons x xs ih => exact (insertEntry_perm x _).trans (List.Perm.cons x ih)

theorem insertEntry_sorted (e : Entry) (l : List Entry)
    (h : l.Pairwise (fun a b => entryLe a b = true)) :
    (insertEntry e l).Pairwise (fun a b => entryLe a b = true) := by
  induction l with
  | nil => simp [insertEntry]
  | cons x xs ih =>
    unfold insertEntry
    rw [List.pairwise_cons] at h
    split
    · rename_i hle
      refine List.pairwise_cons.mpr ⟨?_, List.pairwise_cons.mpr h⟩
      intro b hb
      rcases List.mem_cons.mp hb with rfl | hb'
      · exact hle
      · exact entryLe_trans _ _ _ hle (h.1 b hb')
    · rename_i hle
      have hxe : entryLe x e = true := by
        have := entryLe_total e x
        simp only [Bool.or_eq_true] at this
        rcases this with h1 | h1
        · exact absurd h1 hle
        · exact h1
      refine List.pairwise_cons.mpr ⟨?_, ih h.2⟩
      intro b hb
      rcases List.mem_cons.mp ((insertEntry_perm e xs).subset hb) with rfl | hb'
      · exact hxe
      · exact h.1 b hb'

theorem sortEntries_sorted (t : List Entry) :
    (sortEntries t).Pairwise (fun a b => entryLe a b = true) := by
  induction t with
  | nil => exact List.Pairwise.nil
  | cons x xs ih => exact insertEntry_sorted x _ ih

/-- `sort.Strings` makes the visiting order independent of the map order (keys are distinct). -/
theorem sortEntries_perm {t₁ t₂ : List Entry} (hp : t₁.Perm t₂) (hn : (t₁.map (·.req)).Nodup) :
    sortEntries t₁ = sortEntries t₂ := by
  have p1 := sortEntries_perm_self t₁
  have p2 := sortEntries_perm_self t₂
  refine List.Perm.eq_of_pairwise (le := fun a b => entryLe a b = true) ?_
    (sortEntries_sorted t₁) (sortEntries_sorted t₂) (p1.trans (hp.trans p2.symm))
  intro a b ha hb hab hba
  have ha' : a ∈ t₁ := p1.subset ha
  have hb' : b ∈ t₁ := hp.symm.subset (p2.subset hb)
  refine eq_of_req_eq hn ha' hb' ?_
  simp only [entryLe, strLe, decide_eq_true_eq] at hab hba
  exact List.le_antisymm hab hba

/-- **Determinism.** Whatever order Go's map iteration hands the routing table to `NewProducer`
    (any two permutations `t₁`, `t₂` of the same table with distinct keys), the resulting producers
    are equal — same exact table, same ordered pattern list — hence `RouteOf`, `OpenDB` and `Verify`
    agree on every request. -/
theorem newProducer_deterministic {t₁ t₂ : List Entry} (hp : t₁.Perm t₂)
    (hn : (t₁.map (·.req)).Nodup) : newProducer t₁ = newProducer t₂ := by
  unfold newProducer; rw [sortEntries_perm hp hn]

theorem routeOf_deterministic {t₁ t₂ : List Entry} (hp : t₁.Perm t₂) (hn : (t₁.map (·.req)).Nodup)
    {r₁ r₂ : Router} (h₁ : newProducer t₁ = some r₁) (h₂ : newProducer t₂ = some r₂) (req : Str) :
    routeOf r₁ req = routeOf r₂ req := by
  rw [newProducer_deterministic hp hn, h₂] at h₁
  cases h₁; rfl

/-- `RouteOf` is a function: on one producer the answer never changes (no hidden state). Together
    with `routeOf_deterministic` this is the "routing is deterministic" clause. -/
theorem routeOf_some_unique {r : Router} {req : Str} {a b : Route}
    (ha : routeOf r req = some a) (hb : routeOf r req = some b) : a = b := by
  rw [ha] at hb; cases hb; rfl

/-! ### D8 (pre-fix): two pattern routes matching one request, compiled in map order -/

def d8_table : List Entry :=
  [⟨[], ⟨ofAscii "A", ofAscii "main", [], false⟩⟩,
   ⟨ofAscii "%s", ⟨ofAscii "A", ofAscii "s-%s", ofAscii "t", false⟩⟩,
   ⟨ofAscii "a%d", ⟨ofAscii "B", ofAscii "n%d", ofAscii "u", false⟩⟩]

/-- Negative witness for the pre-fix `NewProducer`: the same table in two map orders routes the
    request `a5` to different databases (`A/s-a5` table `t` versus `B/n5` table `u`). -/
theorem prefix_order_dependent :
    (newProducerPreFix d8_table).bind (routeOf · (ofAscii "a5"))
      ≠ (newProducerPreFix d8_table.reverse).bind (routeOf · (ofAscii "a5")) := by
  decide

/-- … while the repaired construction gives one answer for both orders (instance of the theorem,
    also showing the hypotheses are satisfiable on a table with overlapping patterns). -/
example : (newProducer d8_table).bind (routeOf · (ofAscii "a5"))
      = some ⟨ofAscii "A", ofAscii "s-a5", ofAscii "t", false⟩ ∧
    (newProducer d8_table.reverse).bind (routeOf · (ofAscii "a5"))
      = some ⟨ofAscii "A", ofAscii "s-a5", ofAscii "t", false⟩ := by
  decide

/-- nested path: `x/7/k/j` falls back to the exact route `x/7`; the dropped segments accumulate
    in the table (in the order the loop strips them) -/
example : (newProducer [⟨[], ⟨ofAscii "A", ofAscii "main", [], false⟩⟩,
      ⟨ofAscii "x/7", ⟨ofAscii "B", ofAscii "e", ofAscii "t", true⟩⟩]).bind (routeOf · (ofAscii "x/7/k/j"))
    = some ⟨ofAscii "B", ofAscii "e", ofAscii "tjk", true⟩ := by
  decide

/-- `Sscanf` ignores trailing input: `x/7/k` matches the pattern `x/%d` directly; a request without
    any match ends at the default route with the root segment appended to the DB name -/
example : (newProducer [⟨[], ⟨ofAscii "A", ofAscii "main", [], false⟩⟩,
      ⟨ofAscii "x/%d", ⟨ofAscii "B", ofAscii "e%d", ofAscii "t", true⟩⟩]).bind
        (fun r => some (routeOf r (ofAscii "x/7/k"), routeOf r (ofAscii "y/k")))
    = some (some ⟨ofAscii "B", ofAscii "e7", ofAscii "t", true⟩,
            some ⟨ofAscii "A", ofAscii "mainy", ofAscii "k", false⟩) := by
  decide

/-! ## isolation -/

theorem conflicting_iff (a b : Str) : conflicting a b = true ↔ (b <+: a ∨ a <+: b) := by
  simp [conflicting, Gen.Multidb.tablesConflicting, List.isPrefixOf_iff_prefix]

theorem conflicting_comm (a b : Str) : conflicting a b = conflicting b a := by
  simp [conflicting, Gen.Multidb.tablesConflicting, Bool.or_comm]

/-- If neither table is a prefix of the other, the key spaces `table ++ key` are disjoint. -/
theorem keys_disjoint {t₁ t₂ : Str} (h : conflicting t₁ t₂ = false) (k₁ k₂ : Str) :
    physKey t₁ k₁ ≠ physKey t₂ k₂ := by
  intro he
  have h1 : t₁ <+: t₂ ++ k₂ := ⟨k₁, he⟩
  have h2 : t₂ <+: t₂ ++ k₂ := ⟨k₂, rfl⟩
  have : conflicting t₁ t₂ = true := by
    rw [conflicting_iff]
    rcases List.prefix_or_prefix_of_prefix h1 h2 with h | h
    · right; exact h
    · left; exact h
  rw [h] at this; cases this

/-- records of one DB: different records have different requests and non-conflicting tables -/
def RecsOK (rs : List Rec) : Prop :=
  ∀ a b, a ∈ rs → b ∈ rs → a = b ∨ (a.req ≠ b.req ∧ conflicting a.table b.table = false)

theorem scan_spec : ∀ (rs : List Rec) (req t : Str),
    (scanRecords rs req t = .ok true → ∀ old ∈ rs, old.req ≠ req ∧ conflicting old.table t = false) ∧
    (scanRecords rs req t = .ok false → (⟨req, t⟩ : Rec) ∈ rs) := by
  intro rs req t
  induction rs with
  | nil => simp [scanRecords]
  | cons old rest ih =>
    unfold scanRecords
    split
    · rename_i h1
      simp only [Gen.Multidb.recordFound, Bool.and_eq_true, decide_eq_true_eq] at h1
      refine ⟨nofun, fun _ => ?_⟩
      obtain ⟨rfl, rfl⟩ := h1
      exact List.mem_cons_self
    · rename_i h1
      simp only [Gen.Multidb.recordFound, Bool.and_eq_true, decide_eq_true_eq] at h1
      split
      · exact ⟨nofun, nofun⟩
      · rename_i h2
        simp only [Gen.Multidb.recordReassigned, Bool.and_eq_true, decide_eq_true_eq] at h2
        split
        · exact ⟨nofun, nofun⟩
        · rename_i h3
          simp only [Gen.Multidb.recordConflicts, Bool.not_eq_true] at h3
          have hreq : old.req ≠ req := by
            intro hq
            by_cases ht : old.table = t
            · exact h1 ⟨hq, ht⟩
            · exact h2 ⟨hq, ht⟩
          refine ⟨fun h o ho => ?_, fun h => List.mem_cons_of_mem _ (ih.2 h)⟩
          rcases List.mem_cons.mp ho with rfl | ho'
          · exact ⟨hreq, h3⟩
          · exact ih.1 h o ho'

/-- `handleRoute` keeps the record invariant, records the request, never forgets a record. -/
theorem handleRoute_ok {rs rs' : List Rec} {req t : Str} (hok : RecsOK rs)
    (h : handleRoute rs req t = .ok rs') :
    RecsOK rs' ∧ (⟨req, t⟩ : Rec) ∈ rs' ∧ ∀ x ∈ rs, x ∈ rs' := by
  unfold handleRoute at h
  cases hs : scanRecords rs req t with
  | error e => rw [hs] at h; cases h
  | ok b =>
    rw [hs] at h
    cases b with
    | false =>
      simp only [Except.ok.injEq] at h; subst h
      exact ⟨hok, (scan_spec rs req t).2 hs, fun _ hx => hx⟩
    | true =>
      simp only [Except.ok.injEq] at h; subst h
      have hnew := (scan_spec rs req t).1 hs
      refine ⟨?_, by simp, fun x hx => List.mem_append_left _ hx⟩
      intro a b ha hb
      rcases List.mem_append.mp ha with ha | ha <;> rcases List.mem_append.mp hb with hb | hb
      · exact hok a b ha hb
      · simp only [List.mem_singleton] at hb; subst hb
        exact Or.inr (hnew a ha)
      · simp only [List.mem_singleton] at ha; subst ha
        have := hnew b hb
        exact Or.inr ⟨fun h => this.1 h.symm, by rw [conflicting_comm]; exact this.2⟩
      · simp only [List.mem_singleton] at ha hb; subst ha; subst hb; exact Or.inl rfl

/-- **A conflicting request is refused**: if the DB already records another request whose table is
    a prefix of the new table or vice versa, `handleRoute` returns an error. -/
theorem handleRoute_refuses {rs : List Rec} {req t : Str} (hok : RecsOK rs) {old : Rec}
    (hold : old ∈ rs) (hreq : old.req ≠ req) (hc : conflicting old.table t = true) :
    ∀ rs', handleRoute rs req t ≠ .ok rs' := by
  intro rs' h
  unfold handleRoute at h
  cases hs : scanRecords rs req t with
  | error e => rw [hs] at h; cases h
  | ok b =>
    cases b with
    | true =>
      have := ((scan_spec rs req t).1 hs old hold).2
      rw [hc] at this; cases this
    | false =>
      have hm := (scan_spec rs req t).2 hs
      rcases hok old ⟨req, t⟩ hold hm with h1 | h1
      · exact hreq (by rw [h1])
      · rw [hc] at h1; cases h1.2

/-! ### over request sequences -/

theorem getRecs_setRecs (s : DBs) (l l' : Loc) (rs : List Rec) :
    getRecs (setRecs s l rs) l' = if l = l' then rs else getRecs s l' := by
  induction s with
  | nil =>
    simp only [setRecs, getRecs]
  | cons p rest ih =>
    obtain ⟨l0, rs0⟩ := p
    unfold setRecs
    by_cases h0 : l0 = l
    · rw [if_pos h0]
      subst h0
      by_cases h : l0 = l' <;> simp [getRecs, h]
    · rw [if_neg h0]
      simp only [getRecs, ih]
      by_cases h : l0 = l'
      · have : l ≠ l' := fun e => h0 (h.trans e.symm)
        simp [h, this]
      · simp [h]

/-- the invariant of the durable state: every DB's record list is conflict free -/
def Inv (s : DBs) : Prop := ∀ l, RecsOK (getRecs s l)

theorem inv_empty : Inv [] := by
  intro l a b ha; cases ha

/-- one `OpenDB` call of some producer instance (any producer map, any routing table) -/
structure Call where
  types : List Str
  router : Router
  req : Str

def Call.run (c : Call) (s : DBs) : DBs × OpenRes := openDB c.types c.router s c.req

def runAll (s : DBs) : List Call → DBs
  | [] => s
  | c :: cs => runAll (c.run s).1 cs

theorem openDB_spec (types : List Str) (r : Router) (s : DBs) (req : Str) (hinv : Inv s) :
    Inv (openDB types r s req).1 ∧
    (∀ l x, x ∈ getRecs s l → x ∈ getRecs (openDB types r s req).1 l) ∧
    (∀ loc t nd, (openDB types r s req).2 = .ok loc t nd →
      routeOf r req = some ⟨loc.type, loc.name, t, nd⟩ ∧
      (⟨req, t⟩ : Rec) ∈ getRecs (openDB types r s req).1 loc) := by
  unfold openDB
  cases hr : routeOf r req with
  | none => exact ⟨hinv, fun _ _ h => h, nofun⟩
  | some route =>
    simp only
    split
    · exact ⟨hinv, fun _ _ h => h, nofun⟩
    · have same : ∀ l', getRecs (setRecs s ⟨route.type, route.name⟩ (getRecs s ⟨route.type, route.name⟩)) l'
          = getRecs s l' := by
        intro l'; rw [getRecs_setRecs]; split
        · rename_i h; rw [h]
        · rfl
      cases hh : handleRoute (getRecs s ⟨route.type, route.name⟩) req route.table with
      | error e =>
        cases e <;>
        · simp only
          exact ⟨fun l' => by rw [same]; exact hinv l', fun l' x hx => by rw [same]; exact hx, nofun⟩
      | ok recs =>
        simp only
        obtain ⟨h1, h2, h3⟩ := handleRoute_ok (hinv _) hh
        refine ⟨fun l' => ?_, fun l' x hx => ?_, ?_⟩
        · rw [getRecs_setRecs]; split
          · exact h1
          · exact hinv l'
        · rw [getRecs_setRecs]; split
          · rename_i h; subst h; exact h3 x hx
          · exact hx
        · intro loc t nd h
          simp only [OpenRes.ok.injEq] at h
          obtain ⟨rfl, rfl, rfl⟩ := h
          refine ⟨rfl, ?_⟩
          rw [getRecs_setRecs, if_pos rfl]; exact h2

theorem runAll_spec (cs : List Call) : ∀ (s : DBs), Inv s →
    Inv (runAll s cs) ∧ ∀ l x, x ∈ getRecs s l → x ∈ getRecs (runAll s cs) l := by
  induction cs with
  | nil => intro s h; exact ⟨h, fun _ _ hx => hx⟩
  | cons c cs ih =>
    intro s h
    obtain ⟨h1, h2, _⟩ := openDB_spec c.types c.router s c.req h
    obtain ⟨h3, h4⟩ := ih _ h1
    exact ⟨h3, fun l x hx => h4 l x (h2 l x hx)⟩

/-- **Isolation.** Start from empty databases and let any producer instances (any routing tables,
    any restarts in between — `before`, `between` are arbitrary call sequences) serve requests.
    If `req₁` and, later, a different `req₂` are both opened successfully and land in the same
    database `loc`, then neither table is a prefix of the other, hence no key written through one
    store is a key of the other (`table ++ key` spaces are disjoint). -/
theorem C26_isolation (before between : List Call) (c₁ c₂ : Call)
    {loc : Loc} {t₁ t₂ : Str} {nd₁ nd₂ : Bool}
    (h₁ : (c₁.run (runAll [] before)).2 = .ok loc t₁ nd₁)
    (h₂ : (c₂.run (runAll (c₁.run (runAll [] before)).1 between)).2 = .ok loc t₂ nd₂)
    (hne : c₁.req ≠ c₂.req) :
    conflicting t₁ t₂ = false ∧ ∀ k₁ k₂, physKey t₁ k₁ ≠ physKey t₂ k₂ := by
  have i0 := (runAll_spec before [] inv_empty).1
  obtain ⟨i1, _, o1⟩ := openDB_spec c₁.types c₁.router _ c₁.req i0
  obtain ⟨i2, m2⟩ := runAll_spec between _ i1
  obtain ⟨i3, m3, o3⟩ := openDB_spec c₂.types c₂.router _ c₂.req i2
  have r1 := m3 _ _ (m2 _ _ (o1 loc t₁ nd₁ h₁).2)
  have r2 := (o3 loc t₂ nd₂ h₂).2
  have hc : conflicting t₁ t₂ = false := by
    rcases i3 loc _ _ r1 r2 with h | h
    · exact absurd (congrArg Rec.req h) hne
    · exact h.2
  exact ⟨hc, keys_disjoint hc⟩

/-- **Refusal.** In any reachable state, a request routed to a DB that records a different request
    with an overlapping table is not opened. -/
theorem conflicting_refused (history : List Call) (c : Call) {route : Route} {old : Rec}
    (hr : routeOf c.router c.req = some route)
    (hold : old ∈ getRecs (runAll [] history) ⟨route.type, route.name⟩)
    (hreq : old.req ≠ c.req) (hc : conflicting old.table route.table = true) :
    ∀ loc t nd, (c.run (runAll [] history)).2 ≠ .ok loc t nd := by
  intro loc t nd h
  have i0 := (runAll_spec history [] inv_empty).1
  have href := handleRoute_refuses (i0 ⟨route.type, route.name⟩) hold hreq hc
  unfold Call.run openDB at h
  rw [hr] at h
  simp only at h
  split at h
  · cases h
  · cases hh : handleRoute (getRecs (runAll [] history) ⟨route.type, route.name⟩) c.req route.table with
    | ok recs => exact href recs hh
    | error e => rw [hh] at h; cases e <;> cases h

/-! ## re-opening -/

theorem scan_found {rs : List Rec} {req t : Str} (hok : RecsOK rs) (hm : (⟨req, t⟩ : Rec) ∈ rs) :
    scanRecords rs req t = .ok false := by
  cases hs : scanRecords rs req t with
  | error e =>
    -- an error would mean a record conflicting with the present record ⟨req, t⟩
    exfalso
    induction rs with
    | nil => cases hm
    | cons old rest ih =>
      unfold scanRecords at hs
      have hold := hok old ⟨req, t⟩ List.mem_cons_self hm
      split at hs
      · cases hs
      · rename_i h1
        simp only [Gen.Multidb.recordFound, Bool.and_eq_true, decide_eq_true_eq] at h1
        have hne : old ≠ ⟨req, t⟩ := fun e => h1 (by rw [e]; exact ⟨rfl, rfl⟩)
        rcases hold with e | ⟨hq, hc⟩
        · exact hne e
        · split at hs
          · rename_i h2
            simp only [Gen.Multidb.recordReassigned, Bool.and_eq_true, decide_eq_true_eq] at h2
            exact hq h2.1
          · split at hs
            · rename_i h3
              simp only [Gen.Multidb.recordConflicts] at h3
              rw [hc] at h3; cases h3
            · refine ih (fun a b ha hb => hok a b (List.mem_cons_of_mem _ ha) (List.mem_cons_of_mem _ hb)) ?_ hs
              rcases List.mem_cons.mp hm with e | hm'
              · exact absurd e.symm hne
              · exact hm'
  | ok b =>
    cases b with
    | false => rfl
    | true =>
      have := ((scan_spec rs req t).1 hs ⟨req, t⟩ hm).1
      exact absurd rfl this

theorem setRecs_same {s : DBs} {l : Loc} {x : Rec} (hx : x ∈ getRecs s l) :
    setRecs s l (getRecs s l) = s := by
  induction s with
  | nil => cases hx
  | cons p rest ih =>
    obtain ⟨l0, rs0⟩ := p
    unfold setRecs getRecs
    by_cases h0 : l0 = l
    · simp [h0]
    · simp only [h0, if_false, List.cons.injEq, true_and]
      apply ih
      simpa [getRecs, h0] using hx

theorem reopen_aux {types : List Str} {r : Router} {s : DBs} {req t : Str} {loc : Loc} {nd : Bool}
    (hinv : Inv s) (hroute : routeOf r req = some ⟨loc.type, loc.name, t, nd⟩)
    (htypes : types.contains loc.type = true) (hmem : (⟨req, t⟩ : Rec) ∈ getRecs s loc) :
    openDB types r s req = (s, .ok loc t nd) := by
  unfold openDB
  rw [hroute]
  simp only [htypes, Bool.not_true, Bool.false_eq_true, if_false]
  have : handleRoute (getRecs s loc) req t = .ok (getRecs s loc) := by
    unfold handleRoute; rw [scan_found (hinv loc) hmem]
  rw [this]
  simp only [setRecs_same hmem]

/-- **Re-opening.** Once `req` was opened successfully through a producer, opening it again through
    that producer — after any further calls of any instances — succeeds with the same database, table
    and drop flag, and leaves the records untouched. By `newProducer_deterministic` "that producer"
    includes every instance built after a restart from the same routing table in any map order. -/
theorem reopen_same (before between : List Call) (c : Call) {loc : Loc} {t : Str} {nd : Bool}
    (h : (c.run (runAll [] before)).2 = .ok loc t nd) :
    c.run (runAll (c.run (runAll [] before)).1 between)
      = (runAll (c.run (runAll [] before)).1 between, .ok loc t nd) := by
  have i0 := (runAll_spec before [] inv_empty).1
  obtain ⟨i1, _, o1⟩ := openDB_spec c.types c.router _ c.req i0
  obtain ⟨hroute, hmem⟩ := o1 loc t nd h
  obtain ⟨i2, m2⟩ := runAll_spec between _ i1
  have hmem2 := m2 _ _ hmem
  -- the producer map contains the type (the first call got past that check)
  have htypes : c.types.contains loc.type = true := by
    unfold Call.run openDB at h
    rw [hroute] at h
    simp only at h
    split at h
    · cases h
    · rename_i hc; simpa using hc
  exact reopen_aux i2 hroute htypes hmem2

/-! ## verification -/

/-- `Verify` succeeds iff every record of every DB is still routed to the DB (type, name) it is
    stored in, with the recorded table; i.e. it **fails exactly when some recorded request would now
    be routed to a different database type, name or table**. -/
theorem verify_iff (r : Router) (s : DBs) :
    verify r s = true ↔
      ∀ l rs, (l, rs) ∈ s → ∀ rc ∈ rs, ∃ nd, routeOf r rc.req = some ⟨l.type, l.name, rc.table, nd⟩ := by
  unfold verify
  simp only [List.all_eq_true]
  constructor
  · intro h l rs hm rc hrc
    have := h (l, rs) hm rc hrc
    unfold recordStays at this
    cases hr : routeOf r rc.req with
    | none => rw [hr] at this; cases this
    | some nr =>
      rw [hr] at this
      simp only [Gen.Multidb.verifyTypeDiffers, Gen.Multidb.verifyNameDiffers,
        Gen.Multidb.verifyTableDiffers, Bool.and_eq_true, Bool.not_eq_true', decide_eq_false_iff_not,
        Decidable.not_not] at this
      obtain ⟨⟨h1, h2⟩, h3⟩ := this
      refine ⟨nr.noDrop, ?_⟩
      cases nr; simp_all
  · intro h p hp rc hrc
    obtain ⟨nd, hr⟩ := h p.1 p.2 hp rc hrc
    unfold recordStays
    rw [hr]
    simp [Gen.Multidb.verifyTypeDiffers, Gen.Multidb.verifyNameDiffers, Gen.Multidb.verifyTableDiffers]

/-- in particular a producer verifies the databases it filled itself (same routing table) -/
theorem verify_fails_iff (r : Router) (s : DBs) :
    verify r s = false ↔
      ∃ l rs, (l, rs) ∈ s ∧ ∃ rc ∈ rs, ∀ nd, routeOf r rc.req ≠ some ⟨l.type, l.name, rc.table, nd⟩ := by
  rw [← Bool.not_eq_true, verify_iff]
  constructor
  · intro h
    apply Classical.byContradiction
    intro hn
    apply h
    intro l rs hm rc hrc
    apply Classical.byContradiction
    intro hne
    exact hn ⟨l, rs, hm, rc, hrc, fun nd hh => hne ⟨nd, hh⟩⟩
  · rintro ⟨l, rs, hm, rc, hrc, hne⟩ h
    obtain ⟨nd, hh⟩ := h l rs hm rc hrc
    exact hne nd hh

/-! ## non-vacuity: a concrete table with exact and pattern routes -/

def ex_table : List Entry :=
  [⟨ofAscii "a%d", ⟨ofAscii "A", ofAscii "m%d", ofAscii "t", false⟩⟩,
   ⟨[], ⟨ofAscii "A", ofAscii "m7", ofAscii "u", false⟩⟩,
   ⟨ofAscii "b", ⟨ofAscii "A", ofAscii "m7", ofAscii "t1", true⟩⟩]

def ex_call (table : List Entry) (req : String) : Option Call :=
  (newProducer table).map (fun r => ⟨[ofAscii "A"], r, ofAscii req⟩)

def ex_run (s : DBs) (reqs : List String) : DBs × List OpenRes :=
  reqs.foldl (fun (acc : DBs × List OpenRes) q =>
    match ex_call ex_table q with
    | some c => let (s', o) := c.run acc.1; (s', acc.2 ++ [o])
    | none => acc) (s, [])

/-- `a7` (pattern, table `t`) and `""` (default, table `u`) share DB `A/m7`; `b` (table `t1`,
    which `t` is a prefix of) is refused; re-opening `a7` gives the same answer. -/
example : (ex_run [] ["a7", "", "b", "a7"]).2 =
    [.ok ⟨ofAscii "A", ofAscii "m7"⟩ (ofAscii "t") false,
     .ok ⟨ofAscii "A", ofAscii "m7"⟩ (ofAscii "u") false,
     .conflict,
     .ok ⟨ofAscii "A", ofAscii "m7"⟩ (ofAscii "t") false] := by decide

/-- `Verify` accepts the databases under the table that filled them and rejects them once the
    pattern route moves to another table. -/
example : ((newProducer ex_table).map (fun r => verify r (ex_run [] ["a7", ""]).1)) = some true ∧
    ((newProducer (⟨ofAscii "a%d", ⟨ofAscii "A", ofAscii "m%d", ofAscii "tz", false⟩⟩ :: ex_table.tail)).map
      (fun r => verify r (ex_run [] ["a7", ""]).1)) = some false := by decide

end C26
