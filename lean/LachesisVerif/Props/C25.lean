import LachesisVerif.Model.SyncedPool
import LachesisVerif.Gen.FactsC25
/-!
# C25 — Multi-database flushes are crash consistent

> For every crash point during any sequence of writes, database drops and flushes through the
> flush-buffering pool or the dirty-flag producer, restarting over the surviving databases either
> reports a dirty or unsynchronised state, or reports a flush ID such that every database holds
> exactly the contents it had when that flush completed (and databases absent at that flush are
> absent or empty).
> (Every prefix of the durable operation sequence — each put, delete, batch write and database
> drop — of generated multi-database histories.)

Model: `Model.SyncedPool` (durable ops, `CheckDBsSynced`, `SyncedPool`, `flaggedproducer`; the
constants, the mark layout and the `CheckDBsSynced` conditions are regenerated from the sources).
`P_C25` is the predicate of the property; a crash keeps `List.take k` of the durable operations.

Structure of the proof: `Reach` is the write discipline both producers obey (dirty mark before any
data write, a drop only when another DB is dirty or nothing remains, clean marks of one fresh id in a
row); `reach_consistent` shows by an invariant over the durable-op list that every journal obeying it
satisfies `P_C25` ("all marks clean with one id ⇒ contents = snapshot at that id"); `pool_reach`
and `flagged_reach` show that the journals of the two producers obey it, for every history, every
map-order oracle; `Reach` is prefix closed, which gives every crash point.
-/

namespace C25
open Model.SyncedPool Gen.SyncedPool

/-! ## marks -/

theorem isDirty_dirtyMark (id : Bytes) : isDirty (dirtyMark id) = true := by
  simp [isDirty, dirtyMark, markValue]

theorem isDirty_flagged : isDirty flaggedDirtyMark = true := by
  simp [isDirty, flaggedDirtyMark]

theorem isDirty_cleanMark (id : Bytes) : isDirty (cleanMark id) = false := by
  simp [isDirty, cleanMark, markValue, cleanPrefix, dirtyPrefix]

theorem cleanMark_inj {a b : Bytes} (h : cleanMark a = cleanMark b) : a = b := by
  simpa [cleanMark, markValue] using h

/-! ## `CheckDBsSynced` -/

theorem checkLoop_spec : ∀ (l : List (Option Bytes)) (id : Option Bytes) (ni : Bool)
    (id' : Option Bytes) (ni' : Bool), checkLoop l id ni = some (id', ni') →
    (∀ x, id = some x → id' = some x) ∧
    (∀ m, some m ∈ l → isDirty m = false ∧ id' = some m) ∧
    (none ∈ l → ni' = true) ∧ (ni = true → ni' = true) ∧
    (∀ m, id = none → id' = some m → some m ∈ l) := by
  intro l
  induction l with
  | nil =>
    intro id ni id' ni' h
    simp only [checkLoop, Option.some.injEq, Prod.mk.injEq] at h
    obtain ⟨rfl, rfl⟩ := h
    refine ⟨fun x hx => hx, nofun, nofun, fun h => h, ?_⟩
    intro m h1 h2; rw [h1] at h2; cases h2
  | cons mark rest ih =>
    intro id ni id' ni' h
    unfold checkLoop at h
    cases mark with
    | none =>
      simp only [markMissing, Option.isNone_none, if_true] at h
      obtain ⟨a, b, c, d, e⟩ := ih id true id' ni' h
      refine ⟨a, ?_, fun _ => d rfl, fun _ => d rfl, ?_⟩
      · intro m hm
        rcases List.mem_cons.mp hm with hm | hm
        · cases hm
        · exact b m hm
      · intro m h1 h2; exact List.mem_cons_of_mem _ (e m h1 h2)
    | some m0 =>
      simp only [markMissing, Option.isNone_some, Bool.false_eq_true, if_false, markDirty,
        Option.getD_some, adoptMark, notSynced] at h
      cases hd : isDirty m0 with
      | true => simp [hd] at h
      | false =>
        simp only [hd, Bool.false_eq_true, if_false] at h
        have key : ∀ nid : Option Bytes, nid = some m0 → checkLoop rest nid ni = some (id', ni') →
            (∀ m, some m ∈ some m0 :: rest → isDirty m = false ∧ id' = some m) ∧
            (none ∈ some m0 :: rest → ni' = true) ∧ (ni = true → ni' = true) ∧ id' = some m0 := by
          intro nid hn hc
          obtain ⟨a, b, c, d, _⟩ := ih _ ni id' ni' hc
          have hid' : id' = some m0 := a m0 hn
          refine ⟨?_, ?_, d, hid'⟩
          · intro m hm
            rcases List.mem_cons.mp hm with hm | hm
            · cases hm; exact ⟨hd, hid'⟩
            · exact b m hm
          · intro hn'
            rcases List.mem_cons.mp hn' with hn' | hn'
            · cases hn'
            · exact c hn'
        cases id with
        | none =>
          simp only [Option.isNone_none, if_true, beq_self_eq_true, Bool.not_true,
            Bool.false_eq_true, if_false] at h
          obtain ⟨b, c, d, e⟩ := key _ rfl h
          refine ⟨nofun, b, c, d, ?_⟩
          intro m _ h2
          rw [e] at h2; cases h2; exact List.mem_cons_self
        | some x =>
          simp only [Option.isNone_some, Bool.false_eq_true, if_false] at h
          by_cases hx : x = m0
          · subst hx
            simp only [beq_self_eq_true, Bool.not_true, Bool.false_eq_true, if_false] at h
            obtain ⟨b, c, d, e⟩ := key _ rfl h
            refine ⟨?_, b, c, d, nofun⟩
            intro y hy; cases hy; exact e
          · have : (some x == some m0) = false := by simpa using hx
            simp [this] at h

/-- What a successful restart tells about the marks of the DBs it visited. -/
theorem restart_spec {D : DState} {order : List Name} {r : Option Bytes}
    (h : restart D order = some r) :
    (r = none → ∀ n ∈ order, markOf D n = none) ∧
    (∀ m, r = some m → isDirty m = false ∧ (∃ n ∈ order, markOf D n = some m) ∧
        ∀ n ∈ order, markOf D n = some m) := by
  unfold restart checkDBsSynced at h
  cases hc : checkLoop (order.map (markOf D)) none false with
  | none => rw [hc] at h; cases h
  | some p =>
    obtain ⟨id, ni⟩ := p
    rw [hc] at h
    cases hni : nonInitialized id.isSome ni with
    | true => simp [hni] at h
    | false =>
      simp only [hni, Bool.false_eq_true, if_false, Option.some.injEq] at h
      subst h
      obtain ⟨_, b, c, _, e⟩ := checkLoop_spec _ _ _ _ _ hc
      constructor
      · intro hid n hn
        subst hid
        cases hm : markOf D n with
        | none => rfl
        | some m =>
          have := (b m (by rw [← hm]; exact List.mem_map_of_mem hn)).2
          cases this
      · intro m hid
        subst hid
        simp only [nonInitialized, Option.isSome_some, Bool.true_and] at hni
        have hall : ∀ n ∈ order, markOf D n = some m := by
          intro n hn
          cases hm : markOf D n with
          | none =>
            have := c (by rw [← hm]; exact List.mem_map_of_mem hn)
            rw [hni] at this; cases this
          | some m' =>
            have := (b m' (by rw [← hm]; exact List.mem_map_of_mem hn)).2
            cases this; rfl
        have hex := e m rfl rfl
        obtain ⟨n, hn, hm⟩ := List.mem_map.mp hex
        exact ⟨(b m hex).1, ⟨n, hn, hm⟩, hall⟩

/-! ## durable operations -/

def opName : DOp → Name
  | .create n | .drop n | .putMark n _ | .write n _ => n

theorem replay_snoc (j : List DOp) (op : DOp) : replay (j ++ [op]) = DOp.apply (replay j) op := by
  simp [replay, List.foldl_append]

theorem upd_get (D : DState) (n n' : Name) (x : Option DB) :
    (upd D n x).get n' = if n' = n then x else D.get n' := rfl

theorem apply_other {D : DState} {op : DOp} {n' : Name} (h : n' ≠ opName op) :
    (DOp.apply D op).get n' = D.get n' := by
  cases op <;> simp only [opName] at h <;> simp only [DOp.apply]
  · split <;> simp [upd_get, h]
  · split <;> simp [upd_get, h]
  · split <;> simp [upd_get, h]
  · simp [upd_get, h]

/-! ## the write discipline -/

/-- ghost state of the discipline -/
structure Ghost where
  /-- id of the last completed flush -/
  F : Option Bytes
  /-- id of the flush whose clean marks are being written -/
  G : Option Bytes
  /-- a DB was dropped since `F` completed -/
  broken : Bool
  /-- user data of every DB when `F` completed -/
  S : Name → Data

def NoDBs (D : DState) : Prop := ∀ n, D.get n = none

/-- `Reach j g`: the durable-operation list `j` obeys the discipline (ghost state `g` afterwards):
    a data write only into a DB whose mark is dirty; a drop only outside the clean phase and only if
    nothing else remains or some other DB is dirty; clean marks carry one id per flush, different from
    the last completed one, written in a row; the flush completes with the clean mark that makes every
    existing DB clean. -/
inductive Reach : List DOp → Ghost → Prop
  | nil : Reach [] ⟨none, none, false, fun _ => emptyData⟩
  | create {j g n} : Reach j g → (replay j).get n = none → Reach (j ++ [.create n]) g
  | dirty {j g n m} : Reach j g → isDirty m = true → Reach (j ++ [.putMark n m]) g
  | write {j g n b db m} : Reach j g → (replay j).get n = some db → db.mark = some m →
      isDirty m = true → Reach (j ++ [.write n b]) g
  | drop {j g n} : Reach j g → g.G = none →
      ((∀ n', n' ≠ n → (replay j).get n' = none) ∨
        (∃ n' db m, n' ≠ n ∧ (replay j).get n' = some db ∧ db.mark = some m ∧ isDirty m = true)) →
      Reach (j ++ [.drop n]) { g with broken := true }
  | cleanStep {j g n id db} : Reach j g → ((g.G = none ∧ g.F ≠ some id) ∨ g.G = some id) →
      (replay j).get n = some db →
      ¬ AllClean (replay (j ++ [.putMark n (cleanMark id)])) id →
      Reach (j ++ [.putMark n (cleanMark id)]) { g with G := some id }
  | cleanDone {j g n id db} : Reach j g → ((g.G = none ∧ g.F ≠ some id) ∨ g.G = some id) →
      (replay j).get n = some db →
      AllClean (replay (j ++ [.putMark n (cleanMark id)])) id →
      Reach (j ++ [.putMark n (cleanMark id)])
        ⟨some id, none, false, fun n' => dataOf (replay (j ++ [.putMark n (cleanMark id)])) n'⟩

theorem take_snoc_cases (j0 : List DOp) (op : DOp) (k : Nat) :
    (j0 ++ [op]).take k = j0.take k ∨ (j0 ++ [op]).take k = j0 ++ [op] := by
  by_cases hk : k ≤ j0.length
  · left; exact List.take_append_of_le_length hk
  · right; exact List.take_of_length_le (by simp; omega)

/-- the discipline is prefix closed: a crash leaves a list that obeys it too -/
theorem reach_take {j : List DOp} {g : Ghost} (h : Reach j g) (k : Nat) : ∃ g', Reach (j.take k) g' := by
  induction h with
  | nil => exact ⟨_, by simpa using Reach.nil⟩
  | create h0 h1 ih =>
    rcases take_snoc_cases _ _ k with e | e <;> rw [e]
    · exact ih
    · exact ⟨_, Reach.create h0 h1⟩
  | dirty h0 h1 ih =>
    rcases take_snoc_cases _ _ k with e | e <;> rw [e]
    · exact ih
    · exact ⟨_, Reach.dirty h0 h1⟩
  | write h0 h1 h2 h3 ih =>
    rcases take_snoc_cases _ _ k with e | e <;> rw [e]
    · exact ih
    · exact ⟨_, Reach.write h0 h1 h2 h3⟩
  | drop h0 h1 h2 ih =>
    rcases take_snoc_cases _ _ k with e | e <;> rw [e]
    · exact ih
    · exact ⟨_, Reach.drop h0 h1 h2⟩
  | cleanStep h0 h1 h2 h3 ih =>
    rcases take_snoc_cases _ _ k with e | e <;> rw [e]
    · exact ih
    · exact ⟨_, Reach.cleanStep h0 h1 h2 h3⟩
  | cleanDone h0 h1 h2 h3 ih =>
    rcases take_snoc_cases _ _ k with e | e <;> rw [e]
    · exact ih
    · exact ⟨_, Reach.cleanDone h0 h1 h2 h3⟩

theorem get_create (D : DState) (n n' : Name) (h : D.get n = none) :
    (DOp.apply D (.create n)).get n' = if n' = n then some ⟨none, emptyData⟩ else D.get n' := by
  simp only [DOp.apply, h, upd_get]

theorem get_putMark (D : DState) (n n' : Name) (m : Bytes) :
    (DOp.apply D (.putMark n m)).get n' =
      if n' = n then (D.get n).map (fun db => { db with mark := some m }) else D.get n' := by
  simp only [DOp.apply]
  cases h : D.get n with
  | none => by_cases hn : n' = n <;> simp [hn, h]
  | some db => simp [upd_get]

theorem get_write (D : DState) (n n' : Name) (b : Batch) :
    (DOp.apply D (.write n b)).get n' =
      if n' = n then (D.get n).map (fun db => { db with data := applyBatch db.data b }) else D.get n' := by
  simp only [DOp.apply]
  cases h : D.get n with
  | none => by_cases hn : n' = n <;> simp [hn, h]
  | some db => simp [upd_get]

theorem get_drop (D : DState) (n n' : Name) :
    (DOp.apply D (.drop n)).get n' = if n' = n then none else D.get n' := by
  simp only [DOp.apply, upd_get]

/-- the invariant carried along a disciplined durable-operation list -/
structure Inv (j : List DOp) (g : Ghost) : Prop where
  /-- every mark is dirty, or the clean mark of the completed or of the running flush -/
  marks : ∀ n db m, (replay j).get n = some db → db.mark = some m →
    isDirty m = true ∨ ∃ id, m = cleanMark id ∧ (g.F = some id ∨ g.G = some id)
  /-- a DB without mark holds no user data -/
  unmarked : ∀ n db, (replay j).get n = some db → db.mark = none → db.data = emptyData
  /-- a DB still carrying the clean mark of the completed flush holds its data of then -/
  kept : ∀ id, g.F = some id → ∀ n db, (replay j).get n = some db →
    db.mark = some (cleanMark id) → db.data = g.S n
  /-- no drop since the completed flush: the DBs absent now held nothing then -/
  absent : g.broken = false → ∀ n, (replay j).get n = none → g.S n = emptyData
  /-- after a drop, nothing remains or not every DB carries the completed flush's clean mark -/
  dropped : g.broken = true → ∀ id, g.F = some id → NoDBs (replay j) ∨ ¬ AllClean (replay j) id
  /-- while clean marks are being written, not every DB carries them yet -/
  running : ∀ id, g.G = some id → g.F ≠ some id ∧ ¬ AllClean (replay j) id
  /-- the completed flush completed inside `j`, and `S` is the data of that moment -/
  snap : ∀ id, g.F = some id → ∃ j0 n0, (j0 ++ [DOp.putMark n0 (cleanMark id)]) <+: j ∧
    AllClean (replay (j0 ++ [DOp.putMark n0 (cleanMark id)])) id ∧
    g.S = fun n => dataOf (replay (j0 ++ [DOp.putMark n0 (cleanMark id)])) n

theorem inv_nil : Inv [] ⟨none, none, false, fun _ => emptyData⟩ where
  marks := by intro n db m h; simp [replay, noDBs] at h
  unmarked := by intro n db h; simp [replay, noDBs] at h
  kept := by intro id h; cases h
  absent := by intro _ n _; rfl
  dropped := by intro h; cases h
  running := by intro id h; cases h
  snap := by intro id h; cases h

theorem snap_mono {j : List DOp} {g : Ghost} (hi : Inv j g) (op : DOp) :
    ∀ id, g.F = some id → ∃ j0 n0, (j0 ++ [DOp.putMark n0 (cleanMark id)]) <+: (j ++ [op]) ∧
      AllClean (replay (j0 ++ [DOp.putMark n0 (cleanMark id)])) id ∧
      g.S = fun n => dataOf (replay (j0 ++ [DOp.putMark n0 (cleanMark id)])) n := by
  intro id hF
  obtain ⟨j0, n0, hp, ha, hs⟩ := hi.snap id hF
  exact ⟨j0, n0, hp.trans (List.prefix_append _ _), ha, hs⟩

theorem inv_create {j : List DOp} {g : Ghost} {n : Name} (hi : Inv j g)
    (hn : (replay j).get n = none) : Inv (j ++ [.create n]) g := by
  have hnew : (replay (j ++ [.create n])).get n = some ⟨none, emptyData⟩ := by
    rw [replay_snoc, get_create _ _ _ hn, if_pos rfl]
  have notAll : ∀ id, ¬ AllClean (replay (j ++ [.create n])) id := by
    intro id hall; have := hall n _ hnew; cases this
  constructor
  · intro n' db m h hm
    rw [replay_snoc, get_create _ _ _ hn] at h
    split at h
    · cases h; cases hm
    · exact hi.marks n' db m h hm
  · intro n' db h hm
    rw [replay_snoc, get_create _ _ _ hn] at h
    split at h
    · cases h; rfl
    · exact hi.unmarked n' db h hm
  · intro id hF n' db h hm
    rw [replay_snoc, get_create _ _ _ hn] at h
    split at h
    · cases h; cases hm
    · exact hi.kept id hF n' db h hm
  · intro hb n' h
    rw [replay_snoc, get_create _ _ _ hn] at h
    split at h
    · cases h
    · exact hi.absent hb n' h
  · intro _ id _; exact Or.inr (notAll id)
  · intro id hG; exact ⟨(hi.running id hG).1, notAll id⟩
  · exact snap_mono hi _

/-- a dirty mark written to `n` -/
theorem inv_dirty {j : List DOp} {g : Ghost} {n : Name} {m : Bytes} (hi : Inv j g)
    (hm : isDirty m = true) : Inv (j ++ [.putMark n m]) g := by
  have notClean : ∀ id, some m ≠ some (cleanMark id) := by
    intro id h; cases h; rw [isDirty_cleanMark] at hm; cases hm
  -- AllClean after the write implies AllClean before (and is impossible if `n` exists)
  have allBack : ∀ id, AllClean (replay (j ++ [.putMark n m])) id → AllClean (replay j) id := by
    intro id hall n' db h
    by_cases hn : n' = n
    · subst hn
      have := hall n' { db with mark := some m } (by rw [replay_snoc, get_putMark, if_pos rfl, h]; rfl)
      exact absurd this (notClean id)
    · exact hall n' db (by rw [replay_snoc, get_putMark, if_neg hn]; exact h)
  constructor
  · intro n' db m' h hm'
    rw [replay_snoc, get_putMark] at h
    split at h
    · cases h0 : (replay j).get n with
      | none => rw [h0] at h; cases h
      | some db0 =>
        rw [h0] at h; simp only [Option.map_some, Option.some.injEq] at h
        subst h; simp only [Option.some.injEq] at hm'; subst hm'
        exact Or.inl hm
    · exact hi.marks n' db m' h hm'
  · intro n' db h hm'
    rw [replay_snoc, get_putMark] at h
    split at h
    · cases h0 : (replay j).get n with
      | none => rw [h0] at h; cases h
      | some db0 =>
        rw [h0] at h; simp only [Option.map_some, Option.some.injEq] at h
        subst h; cases hm'
    · exact hi.unmarked n' db h hm'
  · intro id hF n' db h hm'
    rw [replay_snoc, get_putMark] at h
    split at h
    · cases h0 : (replay j).get n with
      | none => rw [h0] at h; cases h
      | some db0 =>
        rw [h0] at h; simp only [Option.map_some, Option.some.injEq] at h
        subst h; exact absurd hm' (notClean id)
    · exact hi.kept id hF n' db h hm'
  · intro hb n' h
    rw [replay_snoc, get_putMark] at h
    split at h
    · rename_i hn; subst hn
      cases h0 : (replay j).get n' with
      | none => exact hi.absent hb n' h0
      | some db0 => rw [h0] at h; cases h
    · exact hi.absent hb n' h
  · intro hb id hF
    rcases hi.dropped hb id hF with h | h
    · left
      intro n'
      rw [replay_snoc, get_putMark]
      split
      · rename_i hn; subst hn; rw [h n']; rfl
      · exact h n'
    · right; exact fun hall => h (allBack id hall)
  · intro id hG
    exact ⟨(hi.running id hG).1, fun hall => (hi.running id hG).2 (allBack id hall)⟩
  · exact snap_mono hi _

theorem dirty_ne_clean {m : Bytes} (hm : isDirty m = true) (id : Bytes) : some m ≠ some (cleanMark id) := by
  intro h; cases h; rw [isDirty_cleanMark] at hm; cases hm

/-- a data write into a DB whose mark is dirty -/
theorem inv_write {j : List DOp} {g : Ghost} {n : Name} {b : Batch} {db0 : DB} {m : Bytes}
    (hi : Inv j g) (h0 : (replay j).get n = some db0) (hmk : db0.mark = some m)
    (hm : isDirty m = true) : Inv (j ++ [.write n b]) g := by
  have hnew : (replay (j ++ [.write n b])).get n = some { db0 with data := applyBatch db0.data b } := by
    rw [replay_snoc, get_write, if_pos rfl, h0]; rfl
  have notAll : ∀ id, ¬ AllClean (replay (j ++ [.write n b])) id := by
    intro id hall
    have := hall n _ hnew
    simp only [hmk] at this
    exact dirty_ne_clean hm id this
  constructor
  · intro n' db m' h hm'
    by_cases hn : n' = n
    · subst hn; rw [hnew] at h; cases h
      simp only [hmk, Option.some.injEq] at hm'; subst hm'; exact Or.inl hm
    · rw [replay_snoc, get_write, if_neg hn] at h; exact hi.marks n' db m' h hm'
  · intro n' db h hm'
    by_cases hn : n' = n
    · subst hn; rw [hnew] at h; cases h; simp only [hmk] at hm'; cases hm'
    · rw [replay_snoc, get_write, if_neg hn] at h; exact hi.unmarked n' db h hm'
  · intro id hF n' db h hm'
    by_cases hn : n' = n
    · subst hn; rw [hnew] at h; cases h; simp only [hmk] at hm'
      exact absurd hm' (dirty_ne_clean hm id)
    · rw [replay_snoc, get_write, if_neg hn] at h; exact hi.kept id hF n' db h hm'
  · intro hb n' h
    by_cases hn : n' = n
    · subst hn; rw [hnew] at h; cases h
    · rw [replay_snoc, get_write, if_neg hn] at h; exact hi.absent hb n' h
  · intro _ id _; exact Or.inr (notAll id)
  · intro id hG; exact ⟨(hi.running id hG).1, notAll id⟩
  · exact snap_mono hi _

/-- a drop outside the clean phase, with nothing else left or another DB dirty -/
theorem inv_drop {j : List DOp} {g : Ghost} {n : Name} (hi : Inv j g) (hG : g.G = none)
    (hoth : (∀ n', n' ≠ n → (replay j).get n' = none) ∨
      (∃ n' db m, n' ≠ n ∧ (replay j).get n' = some db ∧ db.mark = some m ∧ isDirty m = true)) :
    Inv (j ++ [.drop n]) { g with broken := true } := by
  constructor
  · intro n' db m h hm
    rw [replay_snoc, get_drop] at h
    split at h
    · cases h
    · exact hi.marks n' db m h hm
  · intro n' db h hm
    rw [replay_snoc, get_drop] at h
    split at h
    · cases h
    · exact hi.unmarked n' db h hm
  · intro id hF n' db h hm
    rw [replay_snoc, get_drop] at h
    split at h
    · cases h
    · exact hi.kept id hF n' db h hm
  · intro hb; cases hb
  · intro _ id _
    rcases hoth with h | ⟨n', db, m, hne, hget, hmk, hm⟩
    · left
      intro n'
      rw [replay_snoc, get_drop]
      split
      · rfl
      · rename_i hn; exact h n' hn
    · right
      intro hall
      have := hall n' db (by rw [replay_snoc, get_drop, if_neg hne]; exact hget)
      rw [hmk] at this
      exact dirty_ne_clean hm id this
  · intro id hG'; simp only [hG] at hG'; cases hG'
  · exact snap_mono hi _

theorem inv_cleanStep {j : List DOp} {g : Ghost} {n : Name} {id : Bytes} {db0 : DB} (hi : Inv j g)
    (hc : (g.G = none ∧ g.F ≠ some id) ∨ g.G = some id) (h0 : (replay j).get n = some db0)
    (hna : ¬ AllClean (replay (j ++ [.putMark n (cleanMark id)])) id) :
    Inv (j ++ [.putMark n (cleanMark id)]) { g with G := some id } := by
  have hF : g.F ≠ some id := by
    rcases hc with h | h
    · exact h.2
    · exact (hi.running id h).1
  have hnew : (replay (j ++ [.putMark n (cleanMark id)])).get n
      = some { db0 with mark := some (cleanMark id) } := by
    rw [replay_snoc, get_putMark, if_pos rfl, h0]; rfl
  constructor
  · intro n' db m h hm
    by_cases hn : n' = n
    · subst hn; rw [hnew] at h; cases h
      simp only [Option.some.injEq] at hm; subst hm
      exact Or.inr ⟨id, rfl, Or.inr rfl⟩
    · rw [replay_snoc, get_putMark, if_neg hn] at h
      rcases hi.marks n' db m h hm with h1 | ⟨id0, e, h1 | h1⟩
      · exact Or.inl h1
      · exact Or.inr ⟨id0, e, Or.inl h1⟩
      · rcases hc with hc | hc
        · rw [hc.1] at h1; cases h1
        · rw [hc] at h1; cases h1; exact Or.inr ⟨id, e, Or.inr rfl⟩
  · intro n' db h hm
    by_cases hn : n' = n
    · subst hn; rw [hnew] at h; cases h; cases hm
    · rw [replay_snoc, get_putMark, if_neg hn] at h; exact hi.unmarked n' db h hm
  · intro id1 hF1 n' db h hm
    by_cases hn : n' = n
    · subst hn; rw [hnew] at h; cases h
      simp only [Option.some.injEq] at hm
      have := cleanMark_inj hm; subst this
      exact absurd hF1 hF
    · rw [replay_snoc, get_putMark, if_neg hn] at h; exact hi.kept id1 hF1 n' db h hm
  · intro hb n' h
    by_cases hn : n' = n
    · subst hn; rw [hnew] at h; cases h
    · rw [replay_snoc, get_putMark, if_neg hn] at h; exact hi.absent hb n' h
  · intro _ id1 hF1
    right
    intro hall
    have := hall n _ hnew
    simp only [Option.some.injEq] at this
    have := cleanMark_inj this; subst this
    exact absurd hF1 hF
  · intro id1 hG1
    simp only [Option.some.injEq] at hG1; subst hG1
    exact ⟨hF, hna⟩
  · exact snap_mono hi _

theorem inv_cleanDone {j : List DOp} {n : Name} {id : Bytes}
    (hall : AllClean (replay (j ++ [.putMark n (cleanMark id)])) id) :
    Inv (j ++ [.putMark n (cleanMark id)])
      ⟨some id, none, false, fun n' => dataOf (replay (j ++ [.putMark n (cleanMark id)])) n'⟩ := by
  constructor
  · intro n' db m h hm
    have := hall n' db h; rw [hm] at this
    simp only [Option.some.injEq] at this
    exact Or.inr ⟨id, this, Or.inl rfl⟩
  · intro n' db h hm
    have := hall n' db h; rw [hm] at this; cases this
  · intro id1 hF1 n' db h _
    simp only [dataOf, h]
  · intro _ n' h
    simp only [dataOf, h]
  · intro hb; cases hb
  · intro id1 hG1; cases hG1
  · intro id1 hF1
    simp only [Option.some.injEq] at hF1; subst hF1
    exact ⟨j, n, List.prefix_refl _, hall, rfl⟩

/-- every disciplined list satisfies the invariant -/
theorem reach_inv {j : List DOp} {g : Ghost} (h : Reach j g) : Inv j g := by
  induction h with
  | nil => exact inv_nil
  | create _ h1 ih => exact inv_create ih h1
  | dirty _ h1 ih => exact inv_dirty ih h1
  | write _ h1 h2 h3 ih => exact inv_write ih h1 h2 h3
  | drop _ h1 h2 ih => exact inv_drop ih h1 h2
  | cleanStep _ h1 h2 h3 ih => exact inv_cleanStep ih h1 h2 h3
  | cleanDone _ _ _ h3 _ => exact inv_cleanDone h3

/-- `order` lists exactly the surviving DBs (`Names()` of the backend) -/
def Covers (D : DState) (order : List Name) : Prop := ∀ n, n ∈ order ↔ (D.get n).isSome

/-- **The protocol theorem.** A durable-operation list obeying the discipline satisfies `P_C25` for
    whatever order the restart visits the surviving DBs in. -/
theorem reach_consistent {j : List DOp} {g : Ghost} (h : Reach j g) (order : List Name)
    (hcov : Covers (replay j) order) : P_C25 j (restart (replay j) order) := by
  have hi := reach_inv h
  cases hr : restart (replay j) order with
  | none => trivial
  | some r =>
    obtain ⟨s1, s2⟩ := restart_spec hr
    have markOf_eq : ∀ n db, (replay j).get n = some db → markOf (replay j) n = db.mark := by
      intro n db hg; simp [markOf, hg]
    have inOrder : ∀ n db, (replay j).get n = some db → n ∈ order := by
      intro n db hg; rw [hcov n, hg]; rfl
    cases r with
    | none =>
      intro n
      cases hg : (replay j).get n with
      | none => simp [dataOf, hg]
      | some db =>
        have hm := s1 rfl n (inOrder n db hg)
        rw [markOf_eq n db hg] at hm
        simp only [dataOf, hg]
        exact hi.unmarked n db hg hm
    | some m =>
      obtain ⟨hnd, ⟨n0, hn0, hm0⟩, hallm⟩ := s2 m rfl
      have hex0 : ∃ db0, (replay j).get n0 = some db0 := by
        have := (hcov n0).mp hn0
        cases hg : (replay j).get n0 with
        | none => rw [hg] at this; cases this
        | some db0 => exact ⟨db0, rfl⟩
      obtain ⟨db0, hg0⟩ := hex0
      rw [markOf_eq n0 db0 hg0] at hm0
      rcases hi.marks n0 db0 m hg0 hm0 with hd | ⟨id, hmid, hFG⟩
      · rw [hnd] at hd; cases hd
      · subst hmid
        have hall : AllClean (replay j) id := by
          intro n db hg
          have := hallm n (inOrder n db hg)
          rw [markOf_eq n db hg] at this; exact this
        rcases hFG with hF | hG
        · have hnb : g.broken = false := by
            cases hb : g.broken with
            | false => rfl
            | true =>
              rcases hi.dropped hb id hF with h1 | h1
              · rw [h1 n0] at hg0; cases hg0
              · exact absurd hall h1
          obtain ⟨j0, n1, hp, ha, hS⟩ := hi.snap id hF
          refine ⟨id, j0, n1, rfl, hp, ha, ?_⟩
          intro n
          rw [← congrFun hS n]
          cases hg : (replay j).get n with
          | none => simp only [dataOf, hg]; exact (hi.absent hnb n hg).symm
          | some db => simp only [dataOf, hg]; exact hi.kept id hF n db hg (hall n db hg)
        · exact absurd hall (hi.running id hG).2

/-- … and so does every crash prefix of it. -/
theorem reach_crash_consistent {j : List DOp} {g : Ghost} (h : Reach j g) (k : Nat)
    (order : List Name) (hcov : Covers (replay (j.take k)) order) :
    P_C25 (j.take k) (restart (replay (j.take k)) order) := by
  obtain ⟨g', h'⟩ := reach_take h k
  exact reach_consistent h' order hcov

/-! ## the flagged producer obeys the discipline -/

theorem isSome_putMark (D : DState) (n x : Name) (m : Bytes) :
    ((DOp.apply D (.putMark n m)).get x).isSome = (D.get x).isSome := by
  rw [get_putMark]; split
  · rename_i h; subst h; cases D.get x <;> rfl
  · rfl

/-- link between the producer's volatile state and the durable state / ghost -/
structure FLink (f : Flagged) (j : List DOp) (g : Ghost) (used : List Bytes) : Prop where
  /-- the producer has opened exactly the existing DBs -/
  opened : ∀ n, (f.dbs n).isSome = ((replay j).get n).isSome
  /-- `Dirty = 1` ⇒ the durable mark is dirty -/
  flagged : ∀ n db, f.dbs n = some true → (replay j).get n = some db →
    ∃ m, db.mark = some m ∧ isDirty m = true
  idle : g.G = none
  usedF : ∀ id, g.F = some id → id ∈ used

theorem needsMark_iff (flag : Bool) : flaggedNeedsMark (if flag then 1 else 0) = !flag := by
  cases flag <;> simp [flaggedNeedsMark]

theorem flag_open {f : Flagged} {j : List DOp} {g : Ghost} {used : List Bytes} (n : Name)
    (hr : Reach j g) (hl : FLink f j g used) :
    Reach (j ++ (f.step (.open n)).2) g ∧ FLink (f.step (.open n)).1 (j ++ (f.step (.open n)).2) g used := by
  simp only [Flagged.step]
  cases hd : f.dbs n with
  | some flag => simpa using ⟨hr, hl⟩
  | none =>
    have hn : (replay j).get n = none := by
      have := hl.opened n; rw [hd] at this
      cases hg : (replay j).get n with
      | none => rfl
      | some db => rw [hg] at this; cases this
    refine ⟨Reach.create hr hn, ?_⟩
    constructor
    · intro x
      simp only [setF]
      rw [replay_snoc, get_create _ _ _ hn]
      split
      · rfl
      · exact hl.opened x
    · intro x db hx hg
      simp only [setF] at hx
      rw [replay_snoc, get_create _ _ _ hn] at hg
      split at hx
      · cases hx
      · rename_i hne; rw [if_neg hne] at hg; exact hl.flagged x db hx hg
    · exact hl.idle
    · exact hl.usedF

theorem flag_write {f : Flagged} {j : List DOp} {g : Ghost} {used : List Bytes} (n : Name) (b : Batch)
    (hr : Reach j g) (hl : FLink f j g used) :
    Reach (j ++ (f.step (.write n b)).2) g ∧
      FLink (f.step (.write n b)).1 (j ++ (f.step (.write n b)).2) g used := by
  simp only [Flagged.step]
  cases hd : f.dbs n with
  | none => simpa using ⟨hr, hl⟩
  | some flag =>
    -- the DB exists
    have hex : ∃ db, (replay j).get n = some db := by
      have := hl.opened n; rw [hd] at this
      cases hg : (replay j).get n with
      | none => rw [hg] at this; cases this
      | some db => exact ⟨db, rfl⟩
    obtain ⟨db, hg⟩ := hex
    simp only [needsMark_iff]
    -- after `modified()` the mark is dirty
    have step1 : ∃ j1 db1 m, j1 = j ++ (if (!flag) = true then [DOp.putMark n flaggedDirtyMark] else []) ∧
        Reach j1 g ∧ (replay j1).get n = some db1 ∧ db1.mark = some m ∧ isDirty m = true ∧
        (∀ x, x ≠ n → (replay j1).get x = (replay j).get x) := by
      cases flag with
      | true =>
        obtain ⟨m, hm, hdm⟩ := hl.flagged n db hd hg
        exact ⟨j, db, m, by simp, hr, hg, hm, hdm, fun _ _ => rfl⟩
      | false =>
        refine ⟨_, { db with mark := some flaggedDirtyMark }, flaggedDirtyMark, rfl,
          by simpa using Reach.dirty hr isDirty_flagged, ?_, rfl, isDirty_flagged, ?_⟩
        · simp only [Bool.not_false, if_true]
          rw [replay_snoc, get_putMark, if_pos rfl, hg]; rfl
        · intro x hx
          simp only [Bool.not_false, if_true]
          rw [replay_snoc, get_putMark, if_neg hx]
    obtain ⟨j1, db1, m, hj1, hr1, hg1, hm1, hd1, hoth⟩ := step1
    rw [← List.append_assoc, ← hj1]
    refine ⟨Reach.write hr1 hg1 hm1 hd1, ?_⟩
    have hgn : (replay (j1 ++ [DOp.write n b])).get n = some { db1 with data := applyBatch db1.data b } := by
      rw [replay_snoc, get_write, if_pos rfl, hg1]; rfl
    constructor
    · intro x
      simp only [setF]
      by_cases hx : x = n
      · subst hx; rw [if_pos rfl, hgn]; rfl
      · rw [if_neg hx, replay_snoc, get_write, if_neg hx, hoth x hx]; exact hl.opened x
    · intro x dbx hfx hgx
      simp only [setF] at hfx
      by_cases hx : x = n
      · subst hx; rw [hgn] at hgx; cases hgx; exact ⟨m, hm1, hd1⟩
      · rw [if_neg hx] at hfx
        rw [replay_snoc, get_write, if_neg hx, hoth x hx] at hgx
        exact hl.flagged x dbx hfx hgx
    · exact hl.idle
    · exact hl.usedF

theorem append_cons_snoc (j : List DOp) (op : DOp) (more : List DOp) :
    j ++ op :: more = (j ++ [op]) ++ more := by simp

theorem markOthers_spec : ∀ (o : List Name) (d : Name → Option Bool) (j : List DOp) (g : Ghost),
    Reach j g →
    (∀ x db, d x = some true → (replay j).get x = some db → ∃ m, db.mark = some m ∧ isDirty m = true) →
    Reach (j ++ (markOthers o d).2) g ∧
    (∀ x db, (markOthers o d).1 x = some true → (replay (j ++ (markOthers o d).2)).get x = some db →
      ∃ m, db.mark = some m ∧ isDirty m = true) ∧
    (∀ x, ((markOthers o d).1 x).isSome = (d x).isSome) ∧
    (∀ x, x ∈ o → (d x).isSome = true → (markOthers o d).1 x = some true) ∧
    (∀ x, d x = some true → (markOthers o d).1 x = some true) ∧
    (∀ x, ((replay (j ++ (markOthers o d).2)).get x).isSome = ((replay j).get x).isSome) := by
  intro o
  induction o with
  | nil =>
    intro d j g hr hf
    simp only [markOthers, List.append_nil]
    exact ⟨hr, hf, fun _ => trivial, nofun, fun _ h => h, fun _ => trivial⟩
  | cons m rest ih =>
    intro d j g hr hf
    unfold markOthers
    cases hdm : d m with
    | none =>
      simp only
      obtain ⟨a, b, c, e, f, k⟩ := ih d j g hr hf
      refine ⟨a, b, c, ?_, f, k⟩
      intro x hx hs
      rcases List.mem_cons.mp hx with rfl | hx
      · rw [hdm] at hs; cases hs
      · exact e x hx hs
    | some flag =>
      simp only [needsMark_iff]
      cases flag with
      | true =>
        simp only [Bool.not_true, Bool.false_eq_true, if_false]
        obtain ⟨a, b, c, e, f, k⟩ := ih d j g hr hf
        refine ⟨a, b, c, ?_, f, k⟩
        intro x hx hs
        rcases List.mem_cons.mp hx with rfl | hx
        · exact f _ hdm
        · exact e x hx hs
      | false =>
        simp only [Bool.not_false, if_true]
        have hr1 : Reach (j ++ [DOp.putMark m flaggedDirtyMark]) g := Reach.dirty hr isDirty_flagged
        have hf1 : ∀ x db, setF d m (some true) x = some true →
            (replay (j ++ [DOp.putMark m flaggedDirtyMark])).get x = some db →
            ∃ mk, db.mark = some mk ∧ isDirty mk = true := by
          intro x db hx hg
          rw [replay_snoc, get_putMark] at hg
          by_cases hxm : x = m
          · subst hxm
            rw [if_pos rfl] at hg
            cases h0 : (replay j).get x with
            | none => rw [h0] at hg; cases hg
            | some db0 =>
              rw [h0] at hg; simp only [Option.map_some, Option.some.injEq] at hg
              subst hg; exact ⟨_, rfl, isDirty_flagged⟩
          · rw [if_neg hxm] at hg
            simp only [setF, if_neg hxm] at hx
            exact hf x db hx hg
        obtain ⟨a, b, c, e, f, k⟩ := ih (setF d m (some true)) _ g hr1 hf1
        rw [append_cons_snoc]
        refine ⟨a, b, ?_, ?_, ?_, ?_⟩
        · intro x; rw [c x]; simp only [setF]; split
          · rename_i h; subst h; rw [hdm]; rfl
          · rfl
        · intro x hx hs
          rcases List.mem_cons.mp hx with rfl | hx
          · exact f _ (by simp [setF])
          · by_cases hxm : x = m
            · subst hxm; exact f _ (by simp [setF])
            · exact e x hx (by simpa [setF, hxm] using hs)
        · intro x hx
          by_cases hxm : x = m
          · subst hxm; exact f _ (by simp [setF])
          · exact f x (by simpa [setF, hxm] using hx)
        · intro x; rw [k x, replay_snoc, isSome_putMark]

theorem flag_drop {f : Flagged} {j : List DOp} {g : Ghost} {used : List Bytes} (n : Name) (o : List Name)
    (hr : Reach j g) (hl : FLink f j g used)
    (hcov : ∀ x, x ≠ n → (f.dbs x).isSome = true → x ∈ o) :
    ∃ g', Reach (j ++ (f.step (.drop n o)).2) g' ∧
      FLink (f.step (.drop n o)).1 (j ++ (f.step (.drop n o)).2) g' used := by
  simp only [Flagged.step]
  cases hd : f.dbs n with
  | none => exact ⟨g, by simpa using ⟨hr, hl⟩⟩
  | some flag =>
    simp only
    have hf : ∀ x db, setF f.dbs n none x = some true → (replay j).get x = some db →
        ∃ m, db.mark = some m ∧ isDirty m = true := by
      intro x db hx hg
      simp only [setF] at hx
      split at hx
      · cases hx
      · exact hl.flagged x db hx hg
    obtain ⟨a, b, c, e, _, k⟩ := markOthers_spec o (setF f.dbs n none) j g hr hf
    generalize markOthers o (setF f.dbs n none) = r at a b c e k
    have hoth : (∀ n', n' ≠ n → (replay (j ++ r.2)).get n' = none) ∨
        (∃ n' db m, n' ≠ n ∧ (replay (j ++ r.2)).get n' = some db ∧ db.mark = some m ∧ isDirty m = true) := by
      by_cases hex : ∃ x, x ≠ n ∧ (f.dbs x).isSome = true
      · right
        obtain ⟨x, hxn, hxs⟩ := hex
        have h1 : r.1 x = some true := e x (hcov x hxn hxs) (by simpa [setF, hxn] using hxs)
        have h2 : ((replay (j ++ r.2)).get x).isSome = true := by rw [k x, ← hl.opened x]; exact hxs
        cases hg : (replay (j ++ r.2)).get x with
        | none => rw [hg] at h2; cases h2
        | some db =>
          obtain ⟨m, hm, hdm⟩ := b x db h1 hg
          exact ⟨x, db, m, hxn, hg, hm, hdm⟩
      · left
        intro x hxn
        have h1 : (f.dbs x).isSome = false := by
          cases hs : (f.dbs x).isSome with
          | false => rfl
          | true => exact absurd ⟨x, hxn, hs⟩ hex
        have h2 : ((replay (j ++ r.2)).get x).isSome = false := by rw [k x, ← hl.opened x]; exact h1
        cases hg : (replay (j ++ r.2)).get x with
        | none => rfl
        | some db => rw [hg] at h2; cases h2
    refine ⟨{ g with broken := true }, ?_, ?_⟩
    · rw [← List.append_assoc]; exact Reach.drop a hl.idle hoth
    · rw [← List.append_assoc]
      constructor
      · intro x
        rw [replay_snoc, get_drop]
        by_cases hxn : x = n
        · subst hxn; rw [if_pos rfl, c x]; simp [setF]
        · rw [if_neg hxn, c x, k x, ← hl.opened x]; simp [setF, hxn]
      · intro x db hx hg
        rw [replay_snoc, get_drop] at hg
        split at hg
        · cases hg
        · exact b x db hx hg
      · exact hl.idle
      · exact hl.usedF

/-- `modified()` before a write to `x`: an optional dirty mark -/
theorem pre_dirty (cond : Bool) {j : List DOp} {g : Ghost} (x : Name) (hr : Reach j g) :
    Reach (j ++ (if cond = true then [DOp.putMark x flaggedDirtyMark] else [])) g ∧
    (∀ y, y ≠ x → (replay (j ++ (if cond = true then [DOp.putMark x flaggedDirtyMark] else []))).get y
        = (replay j).get y) ∧
    (∀ y, ((replay (j ++ (if cond = true then [DOp.putMark x flaggedDirtyMark] else []))).get y).isSome
        = ((replay j).get y).isSome) := by
  cases cond with
  | false => simpa using hr
  | true =>
    simp only [if_true]
    refine ⟨Reach.dirty hr isDirty_flagged, ?_, ?_⟩
    · intro y hy; rw [replay_snoc, get_putMark, if_neg hy]
    · intro y; rw [replay_snoc, isSome_putMark]

theorem isSome_get {D : DState} {x : Name} (h : (D.get x).isSome = true) : ∃ db, D.get x = some db := by
  cases hg : D.get x with
  | none => rw [hg] at h; cases h
  | some db => exact ⟨db, rfl⟩

theorem flagFlush_spec (id : Bytes) : ∀ (o : List Name) (d : Name → Option Bool) (j : List DOp) (g : Ghost),
    Reach j g → o.Nodup →
    (∀ x ∈ o, (d x).isSome = true) →
    (∀ x ∈ o, ((replay j).get x).isSome = true) →
    ((g.G = none ∧ g.F ≠ some id) ∨ g.G = some id) →
    (o = [] → g.G = none) →
    (∀ x ∈ o, ∀ db, (replay j).get x = some db → db.mark ≠ some (cleanMark id)) →
    (∀ x db, (replay j).get x = some db → x ∉ o → db.mark = some (cleanMark id)) →
    ∃ g', Reach (j ++ (flagFlush id o d).2) g' ∧ g'.G = none ∧
      (∀ id', g'.F = some id' → id' = id ∨ g.F = some id') ∧
      (∀ x ∈ o, (flagFlush id o d).1 x = some false) ∧
      (∀ x, x ∉ o → (flagFlush id o d).1 x = d x) ∧
      (∀ x, ((replay (j ++ (flagFlush id o d).2)).get x).isSome = ((replay j).get x).isSome) := by
  intro o
  induction o with
  | nil =>
    intro d j g hr _ _ _ _ hnil _ _
    simp only [flagFlush, List.append_nil]
    exact ⟨g, hr, hnil rfl, fun _ h => Or.inr h, nofun, fun _ _ => trivial, fun _ => trivial⟩
  | cons x rest ih =>
    intro d j g hr hnd hop hex hc _ hun hpr
    have hxr : x ∉ rest := (List.nodup_cons.mp hnd).1
    have hndr : rest.Nodup := (List.nodup_cons.mp hnd).2
    unfold flagFlush
    obtain ⟨flag, hdx⟩ : ∃ flag, d x = some flag := by
      have := hop x List.mem_cons_self
      cases h : d x with
      | none => rw [h] at this; cases this
      | some fl => exact ⟨fl, rfl⟩
    simp only [hdx, needsMark_iff]
    obtain ⟨hr1, hoth1, hsome1⟩ := pre_dirty (!flag) x hr
    generalize hj1 : j ++ (if (!flag) = true then [DOp.putMark x flaggedDirtyMark] else []) = j1 at hr1 hoth1 hsome1
    obtain ⟨db1, hg1⟩ := isSome_get (by rw [hsome1 x]; exact hex x List.mem_cons_self)
    -- state after the clean mark
    have hget2 : ∀ y, (replay (j1 ++ [DOp.putMark x (cleanMark id)])).get y =
        if y = x then some { db1 with mark := some (cleanMark id) } else (replay j).get y := by
      intro y
      rw [replay_snoc, get_putMark]
      split
      · rename_i h; subst h; rw [hg1]; rfl
      · rename_i h; exact hoth1 y h
    have hsome2 : ∀ y, ((replay (j1 ++ [DOp.putMark x (cleanMark id)])).get y).isSome = ((replay j).get y).isSome := by
      intro y; rw [replay_snoc, isSome_putMark, hsome1 y]
    have hassoc : j ++ ((if (!flag) = true then [DOp.putMark x flaggedDirtyMark] else []) ++
        DOp.putMark x (cleanMark id) :: (flagFlush id rest (setF d x (some false))).2)
        = (j1 ++ [DOp.putMark x (cleanMark id)]) ++ (flagFlush id rest (setF d x (some false))).2 := by
      rw [← hj1]; simp
    rw [hassoc]
    -- preconditions of the recursive call that do not depend on the ghost
    have hop' : ∀ y ∈ rest, (setF d x (some false) y).isSome = true := by
      intro y hy
      have : y ≠ x := fun e => hxr (e ▸ hy)
      simp only [setF, if_neg this]; exact hop y (List.mem_cons_of_mem _ hy)
    have hex' : ∀ y ∈ rest, ((replay (j1 ++ [DOp.putMark x (cleanMark id)])).get y).isSome = true := by
      intro y hy; rw [hsome2 y]; exact hex y (List.mem_cons_of_mem _ hy)
    have hun' : ∀ y ∈ rest, ∀ db, (replay (j1 ++ [DOp.putMark x (cleanMark id)])).get y = some db →
        db.mark ≠ some (cleanMark id) := by
      intro y hy db hg
      have : y ≠ x := fun e => hxr (e ▸ hy)
      rw [hget2 y, if_neg this] at hg
      exact hun y (List.mem_cons_of_mem _ hy) db hg
    have hpr' : ∀ y db, (replay (j1 ++ [DOp.putMark x (cleanMark id)])).get y = some db → y ∉ rest →
        db.mark = some (cleanMark id) := by
      intro y db hg hy
      rw [hget2 y] at hg
      split at hg
      · cases hg; rfl
      · rename_i hyx
        exact hpr y db hg (by simp [hyx, hy])
    have wrap : ∀ g2, Reach (j1 ++ [DOp.putMark x (cleanMark id)]) g2 →
        ((g2.G = none ∧ g2.F ≠ some id) ∨ g2.G = some id) → (rest = [] → g2.G = none) →
        (∀ id', g2.F = some id' → id' = id ∨ g.F = some id') →
        ∃ g', Reach ((j1 ++ [DOp.putMark x (cleanMark id)]) ++ (flagFlush id rest (setF d x (some false))).2) g' ∧
          g'.G = none ∧ (∀ id', g'.F = some id' → id' = id ∨ g.F = some id') ∧
          (∀ y ∈ x :: rest, (flagFlush id rest (setF d x (some false))).1 y = some false) ∧
          (∀ y, y ∉ x :: rest → (flagFlush id rest (setF d x (some false))).1 y = d y) ∧
          (∀ y, ((replay ((j1 ++ [DOp.putMark x (cleanMark id)]) ++
            (flagFlush id rest (setF d x (some false))).2)).get y).isSome = ((replay j).get y).isSome) := by
      intro g2 hr2 hc2 hnil2 hF2
      obtain ⟨g', a, b, c, e, f, k⟩ := ih (setF d x (some false)) _ g2 hr2 hndr hop' hex' hc2 hnil2 hun' hpr'
      refine ⟨g', a, b, ?_, ?_, ?_, ?_⟩
      · intro id' h
        rcases c id' h with h1 | h1
        · exact Or.inl h1
        · exact hF2 id' h1
      · intro y hy
        rcases List.mem_cons.mp hy with rfl | hy
        · rw [f _ hxr]; simp [setF]
        · exact e y hy
      · intro y hy
        have hyx : y ≠ x := fun e => hy (e ▸ List.mem_cons_self)
        rw [f y (fun h => hy (List.mem_cons_of_mem _ h))]; simp [setF, hyx]
      · intro y; rw [k y, hsome2 y]
    by_cases hall : AllClean (replay (j1 ++ [DOp.putMark x (cleanMark id)])) id
    · -- the flush completes here; nothing can be left to mark
      have hrest : rest = [] := by
        cases rest with
        | nil => rfl
        | cons y ys =>
          exfalso
          obtain ⟨dby, hgy⟩ := isSome_get (hex' y List.mem_cons_self)
          exact hun' y List.mem_cons_self dby hgy (hall y dby hgy)
      subst hrest
      simp only [flagFlush, List.append_nil]
      refine ⟨_, Reach.cleanDone hr1 hc hg1 hall, rfl, ?_, ?_, ?_, hsome2⟩
      · intro id' h; simp only [Option.some.injEq] at h; exact Or.inl h.symm
      · intro y hy; simp only [List.mem_singleton] at hy; subst hy; simp [setF]
      · intro y hy
        have hyx : y ≠ x := fun e => hy (by simp [e])
        simp [setF, hyx]
    · -- more DBs wait for their clean mark
      have hne : rest ≠ [] := by
        intro hrest
        apply hall
        intro y db hg
        exact hpr' y db hg (by simp [hrest])
      exact wrap _ (Reach.cleanStep hr1 hc hg1 hall) (Or.inr rfl) (fun h => absurd h hne)
        (fun id' h => Or.inr h)

theorem flag_flush {f : Flagged} {j : List DOp} {g : Ghost} {used : List Bytes} (id : Bytes) (o : List Name)
    (hr : Reach j g) (hl : FLink f j g used) (hfresh : id ∉ used) (hnd : o.Nodup)
    (hcov : ∀ x, x ∈ o ↔ (f.dbs x).isSome = true) :
    ∃ g', Reach (j ++ (f.step (.flush id o)).2) g' ∧
      FLink (f.step (.flush id o)).1 (j ++ (f.step (.flush id o)).2) g' (id :: used) := by
  simp only [Flagged.step]
  have hi := reach_inv hr
  have hF : g.F ≠ some id := fun h => hfresh (hl.usedF id h)
  have hex : ∀ x ∈ o, ((replay j).get x).isSome = true := by
    intro x hx; rw [← hl.opened x]; exact (hcov x).mp hx
  have hun : ∀ x ∈ o, ∀ db, (replay j).get x = some db → db.mark ≠ some (cleanMark id) := by
    intro x _ db hg hm
    rcases hi.marks x db _ hg hm with h | ⟨id0, e, h | h⟩
    · rw [isDirty_cleanMark] at h; cases h
    · exact hF (by rw [cleanMark_inj e]; exact h)
    · rw [hl.idle] at h; cases h
  have hpr : ∀ x db, (replay j).get x = some db → x ∉ o → db.mark = some (cleanMark id) := by
    intro x db hg hx
    exfalso; apply hx; rw [hcov x, hl.opened x, hg]; rfl
  obtain ⟨g', a, b, c, e, k, s⟩ := flagFlush_spec id o f.dbs j g hr hnd (fun x hx => (hcov x).mp hx) hex
    (Or.inl ⟨hl.idle, hF⟩) (fun _ => hl.idle) hun hpr
  refine ⟨g', a, ?_⟩
  constructor
  · intro x
    rw [s x, ← hl.opened x]
    show ((flagFlush id o f.dbs).1 x).isSome = _
    by_cases hx : x ∈ o
    · rw [e x hx, (hcov x).mp hx]; rfl
    · rw [k x hx]
  · intro x db hx _
    change (flagFlush id o f.dbs).1 x = some true at hx
    by_cases hxo : x ∈ o
    · rw [e x hxo] at hx; cases hx
    · rw [k x hxo] at hx
      exfalso; apply hxo; rw [hcov x, hx]; rfl
  · exact b
  · intro id' h
    rcases c id' h with h1 | h1
    · subst h1; exact List.mem_cons_self
    · exact List.mem_cons_of_mem _ (hl.usedF id' h1)

/-- validity of a flagged-producer history: flush ids pairwise distinct (and different from the ids
    `used` before); the oracles are what Go's map iteration can produce — the flush order enumerates
    the opened DBs once each, the drop order contains every other opened DB -/
def FlagValid : Flagged → List Bytes → List FlagOp → Prop
  | _, _, [] => True
  | f, used, op :: rest =>
    (match op with
      | .flush id o => id ∉ used ∧ o.Nodup ∧ ∀ x, x ∈ o ↔ (f.dbs x).isSome = true
      | .drop n o => ∀ x, x ≠ n → (f.dbs x).isSome = true → x ∈ o
      | _ => True) ∧
    FlagValid (f.step op).1 (match op with | .flush id _ => id :: used | _ => used) rest

theorem flagged_reach : ∀ (ops : List FlagOp) (f : Flagged) (j : List DOp) (g : Ghost) (used : List Bytes),
    Reach j g → FLink f j g used → FlagValid f used ops → ∃ g', Reach (j ++ f.run ops) g' := by
  intro ops
  induction ops with
  | nil => intro f j g used hr _ _; exact ⟨g, by simpa [Flagged.run] using hr⟩
  | cons op rest ih =>
    intro f j g used hr hl hv
    obtain ⟨hv1, hv2⟩ := hv
    simp only [Flagged.run]
    rw [← List.append_assoc]
    cases op with
    | «open» n =>
      obtain ⟨a, b⟩ := flag_open n hr hl
      exact ih _ _ g used a b hv2
    | write n b =>
      obtain ⟨a, b'⟩ := flag_write n b hr hl
      exact ih _ _ g used a b' hv2
    | drop n o =>
      obtain ⟨g', a, b⟩ := flag_drop n o hr hl hv1
      exact ih _ _ g' used a b hv2
    | flush id o =>
      obtain ⟨g', a, b⟩ := flag_flush id o hr hl hv1.1 hv1.2.1 hv1.2.2
      exact ih _ _ g' (id :: used) a b hv2

theorem flink_init : FLink Flagged.init [] ⟨none, none, false, fun _ => emptyData⟩ [] where
  opened := fun _ => rfl
  flagged := by intro n db h; cases h
  idle := rfl
  usedF := by intro id h; cases h

/-! ## the synced pool obeys the discipline -/

theorem setW_get (w : Name → Option Wrapper) (n n' : Name) (x : Option Wrapper) :
    setW w n x n' = if n' = n then x else w n' := rfl

theorem closePhase_spec : ∀ (o : List Name) (w : Name → Option Wrapper) (acc : List Name),
    (∀ n, (closePhase o w acc).1 n = none ∨ (closePhase o w acc).1 n = w n) ∧
    (∀ n, n ∈ (closePhase o w acc).2 →
      n ∈ acc ∨ ∃ x, w n = some x ∧ x.inited = true ∧ (closePhase o w acc).1 n = none) ∧
    (∀ n, n ∈ acc → n ∈ (closePhase o w acc).2) ∧
    (∀ n x, w n = some x → x.inited = true → (closePhase o w acc).1 n = none → n ∈ (closePhase o w acc).2) := by
  intro o
  induction o with
  | nil =>
    intro w acc
    simp only [closePhase]
    refine ⟨fun _ => Or.inr trivial, fun n h => Or.inl h, fun _ h => h, ?_⟩
    intro n x h _ h2; rw [h] at h2; cases h2
  | cons m rest ih =>
    intro w acc
    unfold closePhase
    cases hm : w m with
    | none => exact ih w acc
    | some xm =>
      simp only
      obtain ⟨a, b, c, e⟩ := ih (setW w m none) (if xm.inited = true then acc ++ [m] else acc)
      have gone : (closePhase rest (setW w m none) (if xm.inited = true then acc ++ [m] else acc)).1 m = none := by
        rcases a m with h | h
        · exact h
        · rw [h]; simp [setW_get]
      refine ⟨?_, ?_, ?_, ?_⟩
      · intro n
        by_cases hn : n = m
        · subst hn; exact Or.inl gone
        · rcases a n with h | h
          · exact Or.inl h
          · right; rw [h]; simp [setW_get, hn]
      · intro n hn
        rcases b n hn with h | ⟨x, h1, h2, h3⟩
        · split at h
          · rcases List.mem_append.mp h with h | h
            · exact Or.inl h
            · simp only [List.mem_singleton] at h; subst h
              rename_i hin
              exact Or.inr ⟨xm, hm, hin, gone⟩
          · exact Or.inl h
        · by_cases hnm : n = m
          · subst hnm; simp [setW_get] at h1
          · simp only [setW_get, if_neg hnm] at h1
            exact Or.inr ⟨x, h1, h2, h3⟩
      · intro n hn
        apply c
        split
        · exact List.mem_append_left _ hn
        · exact hn
      · intro n x h1 h2 h3
        by_cases hnm : n = m
        · subst hnm
          rw [hm] at h1; cases h1
          apply c; rw [if_pos h2]; simp
        · exact e n x (by simp [setW_get, hnm, h1]) h2 h3

theorem dirtyPhase_spec (id : Bytes) : ∀ (o : List Name) (w : Name → Option Wrapper) (j : List DOp) (g : Ghost),
    Reach j g →
    (∀ n x, w n = some x → ((replay j).get n).isSome = x.inited) →
    Reach (j ++ (dirtyPhase id o w).2) g ∧
    (∀ n x, n ∈ o → w n = some x → (dirtyPhase id o w).1 n = some { x with inited := true }) ∧
    (∀ n, (n ∉ o ∨ w n = none) → (dirtyPhase id o w).1 n = w n) ∧
    (∀ n, (n ∉ o ∨ w n = none) → (replay (j ++ (dirtyPhase id o w).2)).get n = (replay j).get n) ∧
    (∀ n x, n ∈ o → w n = some x →
      ∃ db, (replay (j ++ (dirtyPhase id o w).2)).get n = some db ∧ db.mark = some (dirtyMark id)) := by
  intro o
  induction o with
  | nil =>
    intro w j g hr _
    simp only [dirtyPhase, List.append_nil]
    exact ⟨hr, nofun, fun _ _ => trivial, fun _ _ => trivial, nofun⟩
  | cons m rest ih =>
    intro w j g hr hl
    unfold dirtyPhase
    cases hm : w m with
    | none =>
      simp only
      obtain ⟨a, s1, s2, u, dm⟩ := ih w j g hr hl
      refine ⟨a, ?_, ?_, ?_, ?_⟩
      · intro n x hn hx
        rcases List.mem_cons.mp hn with rfl | hn
        · rw [hm] at hx; cases hx
        · exact s1 n x hn hx
      · intro n hn
        apply s2
        rcases hn with hn | hn
        · exact Or.inl (fun h => hn (List.mem_cons_of_mem _ h))
        · exact Or.inr hn
      · intro n hn
        apply u
        rcases hn with hn | hn
        · exact Or.inl (fun h => hn (List.mem_cons_of_mem _ h))
        · exact Or.inr hn
      · intro n x hn hx
        rcases List.mem_cons.mp hn with rfl | hn
        · rw [hm] at hx; cases hx
        · exact dm n x hn hx
    | some xm =>
      simp only
      -- the (optional) create and the dirty mark
      have hex := hl m xm hm
      have step : ∃ db, Reach (j ++ ((if xm.inited = true then [] else [DOp.create m]) ++
            [DOp.putMark m (dirtyMark id)])) g ∧
          (replay (j ++ ((if xm.inited = true then [] else [DOp.create m]) ++
            [DOp.putMark m (dirtyMark id)]))).get m = some db ∧ db.mark = some (dirtyMark id) ∧
          (∀ n, n ≠ m → (replay (j ++ ((if xm.inited = true then [] else [DOp.create m]) ++
            [DOp.putMark m (dirtyMark id)]))).get n = (replay j).get n) := by
        cases hin : xm.inited with
        | true =>
          rw [hin] at hex
          obtain ⟨db, hg⟩ := isSome_get hex
          refine ⟨{ db with mark := some (dirtyMark id) }, ?_, ?_, rfl, ?_⟩
          · simpa using Reach.dirty hr (isDirty_dirtyMark id)
          · simp only [if_true, List.nil_append]
            rw [replay_snoc, get_putMark, if_pos rfl, hg]; rfl
          · intro n hn
            simp only [if_true, List.nil_append]
            rw [replay_snoc, get_putMark, if_neg hn]
        | false =>
          rw [hin] at hex
          have hnone : (replay j).get m = none := by
            cases hg : (replay j).get m with
            | none => rfl
            | some db => rw [hg] at hex; cases hex
          have h1 : (replay (j ++ [DOp.create m])).get m = some ⟨none, emptyData⟩ := by
            rw [replay_snoc, get_create _ _ _ hnone, if_pos rfl]
          refine ⟨{ (⟨none, emptyData⟩ : DB) with mark := some (dirtyMark id) }, ?_, ?_, rfl, ?_⟩
          · simp only [Bool.false_eq_true, if_false, List.cons_append, List.nil_append]
            rw [append_cons_snoc]
            exact Reach.dirty (Reach.create hr hnone) (isDirty_dirtyMark id)
          · simp only [Bool.false_eq_true, if_false, List.cons_append, List.nil_append]
            rw [append_cons_snoc, replay_snoc, get_putMark, if_pos rfl, h1]; rfl
          · intro n hn
            simp only [Bool.false_eq_true, if_false, List.cons_append, List.nil_append]
            rw [append_cons_snoc, replay_snoc, get_putMark, if_neg hn, replay_snoc,
              get_create _ _ _ hnone, if_neg hn]
      obtain ⟨dbm, hr1, hgm, hmk, hoth⟩ := step
      generalize hj1 : j ++ ((if xm.inited = true then [] else [DOp.create m]) ++
            [DOp.putMark m (dirtyMark id)]) = j1 at hr1 hgm hoth
      have hl1 : ∀ n x, setW w m (some { xm with inited := true }) n = some x →
          ((replay j1).get n).isSome = x.inited := by
        intro n x hx
        by_cases hn : n = m
        · subst hn
          simp only [setW_get, if_true, Option.some.injEq] at hx
          subst hx; rw [hgm]; rfl
        · simp only [setW_get, if_neg hn] at hx
          rw [hoth n hn]; exact hl n x hx
      obtain ⟨a, s1, s2, u, dm⟩ := ih (setW w m (some { xm with inited := true })) j1 g hr1 hl1
      have hassoc : j ++ (((if xm.inited = true then [] else [DOp.create m]) ++
            [DOp.putMark m (dirtyMark id)]) ++ (dirtyPhase id rest (setW w m (some { xm with inited := true }))).2)
          = j1 ++ (dirtyPhase id rest (setW w m (some { xm with inited := true }))).2 := by
        rw [← hj1]; simp only [List.append_assoc]
      rw [hassoc]
      refine ⟨a, ?_, ?_, ?_, ?_⟩
      · intro n x hn hx
        by_cases hnm : n = m
        · subst hnm
          rw [hm] at hx; cases hx
          by_cases hin : n ∈ rest
          · have := s1 n { xm with inited := true } hin (by simp [setW_get])
            rw [this]
          · rw [s2 n (Or.inl hin)]; simp [setW_get]
        · rcases List.mem_cons.mp hn with h | h
          · exact absurd h hnm
          · exact s1 n x h (by simp [setW_get, hnm, hx])
      · intro n hn
        have hnm : n ≠ m := by
          rintro rfl
          rcases hn with hn | hn
          · exact hn List.mem_cons_self
          · rw [hm] at hn; cases hn
        rw [s2 n (by
          rcases hn with hn | hn
          · exact Or.inl (fun h => hn (List.mem_cons_of_mem _ h))
          · exact Or.inr (by simp [setW_get, hnm, hn]))]
        simp [setW_get, hnm]
      · intro n hn
        have hnm : n ≠ m := by
          rintro rfl
          rcases hn with hn | hn
          · exact hn List.mem_cons_self
          · rw [hm] at hn; cases hn
        rw [u n (by
          rcases hn with hn | hn
          · exact Or.inl (fun h => hn (List.mem_cons_of_mem _ h))
          · exact Or.inr (by simp [setW_get, hnm, hn])), hoth n hnm]
      · intro n x hn hx
        by_cases hnm : n = m
        · subst hnm
          by_cases hin : n ∈ rest
          · exact dm n { xm with inited := true } hin (by simp [setW_get])
          · rw [u n (Or.inl hin)]; exact ⟨dbm, hgm, hmk⟩
        · rcases List.mem_cons.mp hn with h | h
          · exact absurd h hnm
          · exact dm n x h (by simp [setW_get, hnm, hx])

/-- "drop DBs": while every existing DB carries a dirty mark -/
theorem drops_spec : ∀ (l : List Name) (j : List DOp) (g : Ghost), Reach j g → g.G = none →
    (∀ x db, (replay j).get x = some db → ∃ m, db.mark = some m ∧ isDirty m = true) →
    ∃ g', Reach (j ++ l.map DOp.drop) g' ∧ g'.G = none ∧ g'.F = g.F ∧
      (∀ x, (replay (j ++ l.map DOp.drop)).get x = if x ∈ l then none else (replay j).get x) := by
  intro l
  induction l with
  | nil =>
    intro j g hr hG _
    exact ⟨g, by simpa using hr, hG, rfl, fun x => by simp⟩
  | cons n rest ih =>
    intro j g hr hG hd
    have hoth : (∀ n', n' ≠ n → (replay j).get n' = none) ∨
        (∃ n' db m, n' ≠ n ∧ (replay j).get n' = some db ∧ db.mark = some m ∧ isDirty m = true) := by
      by_cases hex : ∃ n', n' ≠ n ∧ ((replay j).get n').isSome = true
      · obtain ⟨n', hne, hs⟩ := hex
        obtain ⟨db, hg⟩ := isSome_get hs
        obtain ⟨m, hm, hdm⟩ := hd n' db hg
        exact Or.inr ⟨n', db, m, hne, hg, hm, hdm⟩
      · left
        intro n' hne
        cases hg : (replay j).get n' with
        | none => rfl
        | some db => exact absurd ⟨n', hne, by rw [hg]; rfl⟩ hex
    have hr1 := Reach.drop (n := n) hr hG hoth
    have hd1 : ∀ x db, (replay (j ++ [DOp.drop n])).get x = some db → ∃ m, db.mark = some m ∧ isDirty m = true := by
      intro x db hg
      rw [replay_snoc, get_drop] at hg
      split at hg
      · cases hg
      · exact hd x db hg
    obtain ⟨g', a, b, c, e⟩ := ih (j ++ [DOp.drop n]) _ hr1 hG hd1
    refine ⟨g', by rw [List.map_cons, append_cons_snoc]; exact a, b, c, ?_⟩
    intro x
    have := e x
    rw [List.map_cons, append_cons_snoc]
    rw [this, replay_snoc, get_drop]
    by_cases hxr : x ∈ rest
    · simp [hxr]
    · by_cases hxn : x = n
      · simp [hxn]
      · simp [hxr, hxn]

/-- dirty marks into the DBs about to be dropped -/
theorem dropMarks_spec (m : Bytes) (hm : isDirty m = true) : ∀ (l : List Name) (j : List DOp) (g : Ghost),
    Reach j g →
    Reach (j ++ l.map (fun n => DOp.putMark n m)) g ∧
    (∀ x, ((replay (j ++ l.map (fun n => DOp.putMark n m))).get x).isSome = ((replay j).get x).isSome) ∧
    (∀ x, x ∉ l → (replay (j ++ l.map (fun n => DOp.putMark n m))).get x = (replay j).get x) ∧
    (∀ x, x ∈ l → ∀ db, (replay (j ++ l.map (fun n => DOp.putMark n m))).get x = some db → db.mark = some m) := by
  intro l
  induction l with
  | nil => intro j g hr; simpa using hr
  | cons n rest ih =>
    intro j g hr
    obtain ⟨a, b, c, e⟩ := ih (j ++ [DOp.putMark n m]) g (Reach.dirty hr hm)
    rw [List.map_cons, append_cons_snoc]
    refine ⟨a, ?_, ?_, ?_⟩
    · intro x; rw [b x, replay_snoc, isSome_putMark]
    · intro x hx
      have h1 : x ∉ rest := fun h => hx (List.mem_cons_of_mem _ h)
      have h2 : x ≠ n := fun h => hx (h ▸ List.mem_cons_self)
      rw [c x h1, replay_snoc, get_putMark, if_neg h2]
    · intro x hx db hg
      by_cases hxr : x ∈ rest
      · exact e x hxr db hg
      · have hxn : x = n := by
          rcases List.mem_cons.mp hx with h | h
          · exact h
          · exact absurd h hxr
        subst hxn
        rw [c x hxr, replay_snoc, get_putMark, if_pos rfl] at hg
        cases h0 : (replay j).get x with
        | none => rw [h0] at hg; cases hg
        | some db0 =>
          rw [h0] at hg; simp only [Option.map_some, Option.some.injEq] at hg
          subst hg; rfl

/-- "flush data": every wrapper's DB carries a dirty mark -/
theorem dataPhase_spec : ∀ (o : List Name) (w : Name → Option Wrapper) (j : List DOp) (g : Ghost),
    Reach j g →
    (∀ n x, w n = some x → ∃ db m, (replay j).get n = some db ∧ db.mark = some m ∧ isDirty m = true) →
    Reach (j ++ (dataPhase o w).2) g ∧
    (∀ n, ((dataPhase o w).1 n).map (·.inited) = (w n).map (·.inited)) ∧
    (∀ n, markOf (replay (j ++ (dataPhase o w).2)) n = markOf (replay j) n) ∧
    (∀ n, ((replay (j ++ (dataPhase o w).2)).get n).isSome = ((replay j).get n).isSome) := by
  intro o
  induction o with
  | nil =>
    intro w j g hr _
    simp only [dataPhase, List.append_nil]
    exact ⟨hr, fun _ => trivial, fun _ => trivial, fun _ => trivial⟩
  | cons m rest ih =>
    intro w j g hr hd
    unfold dataPhase
    cases hm : w m with
    | none => exact ih w j g hr hd
    | some xm =>
      simp only
      obtain ⟨db, mk, hg, hmk, hdm⟩ := hd m xm hm
      have hr1 := Reach.write (b := xm.pending) hr hg hmk hdm
      have hget : ∀ n, (replay (j ++ [DOp.write m xm.pending])).get n =
          if n = m then some { db with data := applyBatch db.data xm.pending } else (replay j).get n := by
        intro n; rw [replay_snoc, get_write]; split
        · rw [hg]; rfl
        · rfl
      have hd1 : ∀ n x, setW w m (some { xm with pending := [] }) n = some x →
          ∃ db m', (replay (j ++ [DOp.write m xm.pending])).get n = some db ∧ db.mark = some m' ∧ isDirty m' = true := by
        intro n x hx
        rw [hget n]
        by_cases hn : n = m
        · rw [if_pos hn]; exact ⟨_, mk, rfl, hmk, hdm⟩
        · rw [if_neg hn]
          simp only [setW_get, if_neg hn] at hx
          exact hd n x hx
      obtain ⟨a, b, c, e⟩ := ih _ _ g hr1 hd1
      rw [append_cons_snoc]
      refine ⟨a, ?_, ?_, ?_⟩
      · intro n; rw [b n]
        by_cases hn : n = m
        · subst hn; simp [setW_get, hm]
        · simp [setW_get, hn]
      · intro n; rw [c n]
        simp only [markOf, hget n]
        by_cases hn : n = m
        · subst hn; simp [hg, hmk]
        · simp [hn]
      · intro n; rw [e n, hget n]
        by_cases hn : n = m
        · subst hn; simp [hg]
        · simp [hn]

/-- "write clean flags" is the flagged producer's flush loop without `modified()` calls -/
theorem cleanPhase_eq (id : Bytes) : ∀ (o : List Name) (w : Name → Option Wrapper) (d : Name → Option Bool),
    o.Nodup → (∀ x ∈ o, (w x).isSome = true) → (∀ x ∈ o, d x = some true) →
    cleanPhase id o w = (flagFlush id o d).2 := by
  intro o
  induction o with
  | nil => intro w d _ _ _; rfl
  | cons x rest ih =>
    intro w d hnd hw hd
    unfold cleanPhase flagFlush
    obtain ⟨xw, hxw⟩ : ∃ xw, w x = some xw := by
      have := hw x List.mem_cons_self
      cases h : w x with
      | none => rw [h] at this; cases this
      | some v => exact ⟨v, rfl⟩
    have hxr : x ∉ rest := (List.nodup_cons.mp hnd).1
    simp only [hxw, hd x List.mem_cons_self, needsMark_iff, Bool.not_true, Bool.false_eq_true,
      if_false, List.nil_append]
    rw [ih w (setF d x (some false)) (List.nodup_cons.mp hnd).2
      (fun y hy => hw y (List.mem_cons_of_mem _ hy))
      (fun y hy => by
        have : y ≠ x := fun e => hxr (e ▸ hy)
        simp only [setF, if_neg this]; exact hd y (List.mem_cons_of_mem _ hy))]
    simp [flaggedNeedsMark]

def initedOf (w : Name → Option Wrapper) (n : Name) : Bool := ((w n).map (·.inited)).getD false

/-- link between the pool's volatile state and the durable state / ghost -/
structure PLink (p : Pool) (j : List DOp) (g : Ghost) (used : List Bytes) : Prop where
  /-- exactly the DBs of produced (initialised) wrappers exist -/
  inited : ∀ n, ((replay j).get n).isSome = initedOf p.wrappers n
  idle : g.G = none
  usedF : ∀ id, g.F = some id → id ∈ used

/-- validity of one pool flush: fresh id; the oracles of the dirty and clean loops enumerate the
    remaining wrappers (the clean one without repetition), as Go's map iteration does. -/
def FlushValid (p : Pool) (used : List Bytes) (id : Bytes) (o0 o1 o3 : List Name) : Prop :=
  let r := closePhase (o0.filter (p.queued.contains ·)) p.wrappers []
  id ∉ used ∧ (∀ n, n ∈ o1 ↔ (r.1 n).isSome = true) ∧ o3.Nodup ∧ (∀ n, n ∈ o3 ↔ (r.1 n).isSome = true)

theorem pool_flush {p : Pool} {j : List DOp} {g : Ghost} {used : List Bytes} (id : Bytes)
    (o0 o1 o2 o3 : List Name) (hr : Reach j g) (hl : PLink p j g used)
    (hv : FlushValid p used id o0 o1 o3) :
    ∃ g', Reach (j ++ (p.flush id o0 o1 o2 o3).2) g' ∧
      PLink (p.flush id o0 o1 o2 o3).1 (j ++ (p.flush id o0 o1 o2 o3).2) g' (id :: used) := by
  obtain ⟨hfresh, hv1, hnd3, hv3⟩ := hv
  simp only [Pool.flush]
  obtain ⟨c1, c2, _, c4⟩ := closePhase_spec (o0.filter (p.queued.contains ·)) p.wrappers []
  generalize closePhase (o0.filter (p.queued.contains ·)) p.wrappers [] = cp at c1 c2 c4 hv1 hv3
  obtain ⟨w0, toDrop⟩ := cp
  simp only at c1 c2 c4 hv1 hv3 ⊢
  have w0_eq : ∀ n x, w0 n = some x → p.wrappers n = some x := by
    intro n x h
    rcases c1 n with h1 | h1
    · rw [h1] at h; cases h
    · rw [← h1]; exact h
  have drop_gone : ∀ n, n ∈ toDrop → w0 n = none := by
    intro n hn
    rcases c2 n hn with h | ⟨_, _, _, h⟩
    · cases h
    · exact h
  -- an existing DB without a remaining wrapper is one of the DBs to drop
  have orphan : ∀ n, ((replay j).get n).isSome = true → w0 n = none → n ∈ toDrop := by
    intro n hex h0
    rw [hl.inited n] at hex
    cases hp : p.wrappers n with
    | none => simp [initedOf, hp] at hex
    | some xx =>
      have : xx.inited = true := by simpa [initedOf, hp] using hex
      exact c4 n xx hp this h0
  have link0 : ∀ n x, w0 n = some x → ((replay j).get n).isSome = x.inited := by
    intro n x h; rw [hl.inited n]; simp [initedOf, w0_eq n x h]
  -- phase M: dirty marks into the DBs about to be dropped
  obtain ⟨rM, someM, sameM, markM⟩ := dropMarks_spec (dirtyMark id) (isDirty_dirtyMark id) toDrop j g hr
  generalize hjM : j ++ toDrop.map (fun n => DOp.putMark n (dirtyMark id)) = jM at rM someM sameM markM
  have orphanM : ∀ n, ((replay jM).get n).isSome = true → w0 n = none → n ∈ toDrop :=
    fun n h => orphan n (by rw [← someM n]; exact h)
  have linkM : ∀ n x, w0 n = some x → ((replay jM).get n).isSome = x.inited :=
    fun n x h => by rw [someM n]; exact link0 n x h
  -- phase A: dirty marks
  obtain ⟨rA, s1, s2, uA, dm⟩ := dirtyPhase_spec id o1 w0 jM g rM linkM
  generalize dirtyPhase id o1 w0 = dp at rA s1 s2 uA dm
  obtain ⟨w1, opsA⟩ := dp
  simp only at rA s1 s2 uA dm ⊢
  have w1_some : ∀ n x, w0 n = some x → w1 n = some { x with inited := true } := by
    intro n x h; exact s1 n x ((hv1 n).mpr (by rw [h]; rfl)) h
  have w1_none : ∀ n, w0 n = none → w1 n = none := by
    intro n h; rw [s2 n (Or.inr h)]; exact h
  have getA_none : ∀ n, w0 n = none → (replay (jM ++ opsA)).get n = (replay jM).get n :=
    fun n h => uA n (Or.inr h)
  have getA_some : ∀ n x, w0 n = some x →
      ∃ db, (replay (jM ++ opsA)).get n = some db ∧ db.mark = some (dirtyMark id) :=
    fun n x h => dm n x ((hv1 n).mpr (by rw [h]; rfl)) h
  -- phase B: drops (every existing DB is dirty by now)
  have allDirty : ∀ x db, (replay (jM ++ opsA)).get x = some db → ∃ m, db.mark = some m ∧ isDirty m = true := by
    intro x db hg
    cases h0 : w0 x with
    | some x0 =>
      obtain ⟨db', hg', hmk⟩ := getA_some x x0 h0
      rw [hg] at hg'; cases hg'
      exact ⟨_, hmk, isDirty_dirtyMark id⟩
    | none =>
      rw [getA_none x h0] at hg
      have hin := orphanM x (by rw [hg]; rfl) h0
      exact ⟨_, markM x hin db hg, isDirty_dirtyMark id⟩
  have phaseB := drops_spec toDrop (jM ++ opsA) g rA hl.idle allDirty
  obtain ⟨gB, rB, gBG, gBF, getB⟩ := phaseB
  -- phase C: data
  have dirtyB : ∀ n x, w1 n = some x →
      ∃ db m, (replay (jM ++ opsA ++ toDrop.map DOp.drop)).get n = some db ∧ db.mark = some m ∧ isDirty m = true := by
    intro n x hx
    cases h0 : w0 n with
    | none => rw [w1_none n h0] at hx; cases hx
    | some x0 =>
      obtain ⟨db, hg, hmk⟩ := getA_some n x0 h0
      have hnd : n ∉ toDrop := fun h => by rw [drop_gone n h] at h0; cases h0
      exact ⟨db, _, by rw [getB n, if_neg hnd]; exact hg, hmk, isDirty_dirtyMark id⟩
  obtain ⟨rC, initC, markC, someC⟩ := dataPhase_spec o2 w1 _ gB rB dirtyB
  generalize dataPhase o2 w1 = dpc at rC initC markC someC
  obtain ⟨w2, opsC⟩ := dpc
  simp only at rC initC markC someC ⊢
  have w2_some : ∀ n, (w2 n).isSome = (w0 n).isSome := by
    intro n
    have := congrArg Option.isSome (initC n)
    simp only [Option.isSome_map] at this
    rw [this]
    cases h0 : w0 n with
    | none => rw [w1_none n h0]
    | some x0 => rw [w1_some n x0 h0]; rfl
  -- phase D: clean marks
  have existsC : ∀ n, ((replay (jM ++ opsA ++ toDrop.map DOp.drop ++ opsC)).get n).isSome =
      (if n ∈ toDrop then false else ((replay (jM ++ opsA)).get n).isSome) := by
    intro n; rw [someC n, getB n]; split <;> rfl
  rw [cleanPhase_eq id o3 w2 (fun n => if n ∈ o3 then some true else none) hnd3
    (fun x hx => by rw [w2_some x]; exact (hv3 x).mp hx) (fun x hx => by simp [hx])]
  have hF : gB.F ≠ some id := by rw [gBF]; exact fun h => hfresh (hl.usedF id h)
  obtain ⟨g', rD, gG, gF, _, _, someD⟩ := flagFlush_spec id o3 (fun n => if n ∈ o3 then some true else none)
    (jM ++ opsA ++ toDrop.map DOp.drop ++ opsC) gB rC hnd3 (fun x hx => by simp [hx])
    (by
      intro x hx
      obtain ⟨x0, h0⟩ : ∃ x0, w0 x = some x0 := by
        have := (hv3 x).mp hx
        cases h : w0 x with
        | none => rw [h] at this; cases this
        | some v => exact ⟨v, rfl⟩
      obtain ⟨db, hg, _⟩ := getA_some x x0 h0
      have hnd : x ∉ toDrop := fun h => by rw [drop_gone x h] at h0; cases h0
      rw [existsC x, if_neg hnd, hg]; rfl)
    (Or.inl ⟨gBG, hF⟩) (fun _ => gBG)
    (by
      intro x hx db hg hm
      obtain ⟨x0, h0⟩ : ∃ x0, w0 x = some x0 := by
        have := (hv3 x).mp hx
        cases h : w0 x with
        | none => rw [h] at this; cases this
        | some v => exact ⟨v, rfl⟩
      obtain ⟨dbA, hgA, hmkA⟩ := getA_some x x0 h0
      have hnd : x ∉ toDrop := fun h => by rw [drop_gone x h] at h0; cases h0
      have h1 := markC x
      simp only [markOf, hg, getB x, if_neg hnd, hgA, Option.bind_some, hm, hmkA] at h1
      simp only [Option.some.injEq] at h1
      have := isDirty_dirtyMark id
      rw [← h1, isDirty_cleanMark] at this; cases this)
    (by
      intro x db hg hx
      exfalso
      have h0 : w0 x = none := by
        cases h : w0 x with
        | none => rfl
        | some v => exact absurd ((hv3 x).mpr (by rw [h]; rfl)) hx
      have hs := existsC x
      rw [hg] at hs
      by_cases hnd : x ∈ toDrop
      · rw [if_pos hnd] at hs; cases hs
      · rw [if_neg hnd, getA_none x h0] at hs
        exact hnd (orphanM x hs.symm h0))
  have eAll : j ++ (toDrop.map (fun n => DOp.putMark n (dirtyMark id)) ++ opsA ++ toDrop.map DOp.drop ++ opsC ++
      (flagFlush id o3 (fun n => if n ∈ o3 then some true else none)).2)
      = jM ++ opsA ++ toDrop.map DOp.drop ++ opsC ++
      (flagFlush id o3 (fun n => if n ∈ o3 then some true else none)).2 := by
    rw [← hjM]; simp only [List.append_assoc]
  rw [eAll]
  refine ⟨g', rD, ?_⟩
  constructor
  · intro n
    rw [someD n, existsC n]
    show _ = initedOf w2 n
    have hin : initedOf w2 n = initedOf w1 n := by simp only [initedOf, initC n]
    rw [hin]
    cases h0 : w0 n with
    | some x0 =>
      obtain ⟨db, hg, _⟩ := getA_some n x0 h0
      have hnd : n ∉ toDrop := fun h => by rw [drop_gone n h] at h0; cases h0
      rw [if_neg hnd, hg]; simp [initedOf, w1_some n x0 h0]
    | none =>
      have : initedOf w1 n = false := by simp [initedOf, w1_none n h0]
      rw [this]
      by_cases hnd : n ∈ toDrop
      · rw [if_pos hnd]
      · rw [if_neg hnd, getA_none n h0]
        cases hs : ((replay jM).get n).isSome with
        | false => rfl
        | true => exact absurd (orphanM n hs h0) hnd
  · exact gG
  · intro id' h
    rcases gF id' h with h1 | h1
    · subst h1; exact List.mem_cons_self
    · rw [gBF] at h1; exact List.mem_cons_of_mem _ (hl.usedF id' h1)

theorem pool_quiet {p : Pool} {j : List DOp} {g : Ghost} {used : List Bytes} (op : PoolOp)
    (hop : ∀ id o0 o1 o2 o3, op ≠ .flush id o0 o1 o2 o3) (hl : PLink p j g used) :
    (p.step op).2 = [] ∧ PLink (p.step op).1 j g used := by
  have keep : ∀ (n : Name) (f : Wrapper → Wrapper), (∀ x, (f x).inited = x.inited) →
      ∀ n', initedOf (setW p.wrappers n (some (f (getW p n)))) n' = initedOf p.wrappers n' := by
    intro n f hf n'
    simp only [initedOf, setW_get]
    split
    · rename_i h; subst h
      simp only [Option.map_some, Option.getD_some, hf, getW]
      cases p.wrappers n' <;> rfl
    · rfl
  cases op with
  | «open» n =>
    refine ⟨rfl, ⟨fun n' => ?_, hl.idle, hl.usedF⟩⟩
    rw [hl.inited n']; exact (keep n id (fun _ => rfl) n').symm
  | put n k v =>
    refine ⟨rfl, ⟨fun n' => ?_, hl.idle, hl.usedF⟩⟩
    rw [hl.inited n']
    exact (keep n (fun x => { x with pending := setPending x.pending k v }) (fun _ => rfl) n').symm
  | dropQ n => exact ⟨rfl, ⟨hl.inited, hl.idle, hl.usedF⟩⟩
  | flush id o0 o1 o2 o3 => exact absurd rfl (hop id o0 o1 o2 o3)

/-- validity of a pool history: every flush is valid (`FlushValid`) in the state it is issued in -/
def PoolValid : Pool → List Bytes → List PoolOp → Prop
  | _, _, [] => True
  | p, used, op :: rest =>
    (match op with
      | .flush id o0 o1 _ o3 => FlushValid p used id o0 o1 o3
      | _ => True) ∧
    PoolValid (p.step op).1 (match op with | .flush id _ _ _ _ => id :: used | _ => used) rest

theorem pool_reach : ∀ (ops : List PoolOp) (p : Pool) (j : List DOp) (g : Ghost) (used : List Bytes),
    Reach j g → PLink p j g used → PoolValid p used ops → ∃ g', Reach (j ++ p.run ops) g' := by
  intro ops
  induction ops with
  | nil => intro p j g used hr _ _; exact ⟨g, by simpa [Pool.run] using hr⟩
  | cons op rest ih =>
    intro p j g used hr hl hv
    obtain ⟨hv1, hv2⟩ := hv
    simp only [Pool.run]
    rw [← List.append_assoc]
    cases op with
    | flush id o0 o1 o2 o3 =>
      obtain ⟨g', a, b⟩ := pool_flush id o0 o1 o2 o3 hr hl hv1
      exact ih _ _ g' (id :: used) a b hv2
    | «open» n =>
      obtain ⟨e, b⟩ := pool_quiet (.open n) (fun _ _ _ _ _ => nofun) hl
      rw [e, List.append_nil]; exact ih _ _ g used hr b hv2
    | put n k v =>
      obtain ⟨e, b⟩ := pool_quiet (.put n k v) (fun _ _ _ _ _ => nofun) hl
      rw [e, List.append_nil]; exact ih _ _ g used hr b hv2
    | dropQ n =>
      obtain ⟨e, b⟩ := pool_quiet (.dropQ n) (fun _ _ _ _ _ => nofun) hl
      rw [e, List.append_nil]; exact ih _ _ g used hr b hv2

theorem plink_init : PLink Pool.init [] ⟨none, none, false, fun _ => emptyData⟩ [] where
  inited := fun _ => rfl
  idle := rfl
  usedF := by intro id h; cases h

/-! ## C25 -/

/-- **C25 for the flush-buffering pool.** For every history of opens, writes, deletes, queued drops
    and flushes through `SyncedPool` (flush ids pairwise distinct, map-order oracles arbitrary but
    what a map iteration can yield),
    for EVERY crash point `k` in the durable-operation sequence and every order in which the restart
    visits the surviving DBs: `Initialize` reports an error, or returns nil with no user data anywhere,
    or returns the id of a flush that completed before the crash with every DB holding exactly the
    user data it held when that flush completed. -/
theorem C25_crash_consistent_pool (ops : List PoolOp) (hv : PoolValid Pool.init [] ops) (k : Nat)
    (order : List Name) (hcov : Covers (replay ((Pool.init.run ops).take k)) order) :
    P_C25 ((Pool.init.run ops).take k) (restart (replay ((Pool.init.run ops).take k)) order) := by
  obtain ⟨g, h⟩ := pool_reach ops Pool.init [] _ [] Reach.nil plink_init hv
  simp only [List.nil_append] at h
  exact reach_crash_consistent h k order hcov

/-- **C25 for the dirty-flag producer**: same statement for every history through
    `flaggedproducer.Producer` (distinct flush ids; oracles = map orders). -/
theorem C25_crash_consistent_flagged (ops : List FlagOp) (hv : FlagValid Flagged.init [] ops) (k : Nat)
    (order : List Name) (hcov : Covers (replay ((Flagged.init.run ops).take k)) order) :
    P_C25 ((Flagged.init.run ops).take k) (restart (replay ((Flagged.init.run ops).take k)) order) := by
  obtain ⟨g, h⟩ := flagged_reach ops Flagged.init [] _ [] Reach.nil flink_init hv
  simp only [List.nil_append] at h
  exact reach_crash_consistent h k order hcov

/-- the histories of either producer -/
inductive History where
  | pool (ops : List PoolOp) (hv : PoolValid Pool.init [] ops)
  | flagged (ops : List FlagOp) (hv : FlagValid Flagged.init [] ops)

def History.journal : History → List DOp
  | .pool ops _ => Pool.init.run ops
  | .flagged ops _ => Flagged.init.run ops

/-- **C25.** Every crash point of every history through either producer is consistent. -/
theorem C25_crash_consistent (h : History) (k : Nat) (order : List Name)
    (hcov : Covers (replay (h.journal.take k)) order) :
    P_C25 (h.journal.take k) (restart (replay (h.journal.take k)) order) := by
  cases h with
  | pool ops hv => exact C25_crash_consistent_pool ops hv k order hcov
  | flagged ops hv => exact C25_crash_consistent_flagged ops hv k order hcov

/-! ## an executable necessary condition of `P_C25` (for the negative witnesses) -/

/-- `P_C25` restricted to finitely many DB names and keys, searched over all completion points -/
def checkP (names : List Name) (keys : List Bytes) (j : List DOp) (res : Option (Option Bytes)) : Bool :=
  match res with
  | none => true
  | some none => names.all fun n => keys.all fun k => dataOf (replay j) n k == none
  | some (some m) => (List.range (j.length + 1)).any fun i =>
      (match (j.take i).getLast? with
        | some (.putMark _ m') => m' == m
        | _ => false) &&
      (names.all fun n => match (replay (j.take i)).get n with
        | some db => db.mark == some m
        | none => true) &&
      (names.all fun n => keys.all fun k => dataOf (replay j) n k == dataOf (replay (j.take i)) n k)

theorem checkP_of_P (names : List Name) (keys : List Bytes) (j : List DOp) (res : Option (Option Bytes))
    (h : P_C25 j res) : checkP names keys j res = true := by
  unfold checkP
  cases res with
  | none => rfl
  | some r =>
    cases r with
    | none =>
      simp only [P_C25] at h
      simp only [List.all_eq_true, beq_iff_eq]
      intro n _ k _
      rw [h n]; rfl
    | some m =>
      simp only [P_C25] at h
      obtain ⟨fid, j0, n0, hm, hp, ha, hd⟩ := h
      simp only [List.any_eq_true, List.mem_range, Bool.and_eq_true, List.all_eq_true, beq_iff_eq]
      refine ⟨j0.length + 1, ?_, ?_⟩
      · have := hp.length_le
        simp only [List.length_append, List.length_singleton] at this
        omega
      · have htake : j.take (j0.length + 1) = j0 ++ [DOp.putMark n0 (cleanMark fid)] := by
          have := List.prefix_iff_eq_take.mp hp
          simp only [List.length_append, List.length_singleton] at this
          exact this.symm
        rw [htake]
        refine ⟨⟨?_, ?_⟩, ?_⟩
        · simp [hm]
        · intro n _
          cases hg : (replay (j0 ++ [DOp.putMark n0 (cleanMark fid)])).get n with
          | none => rfl
          | some db => simp [ha n db hg, hm]
        · intro n _ k _
          rw [hd n]

/-- run a pool history, returning the final state too -/
def poolExec : Pool → List PoolOp → Pool × List DOp
  | p, [] => (p, [])
  | p, op :: rest =>
    let (p', ops) := p.step op
    let (p'', more) := poolExec p' rest
    (p'', ops ++ more)

def flagExec : Flagged → List FlagOp → Flagged × List DOp
  | f, [] => (f, [])
  | f, op :: rest =>
    let (f', ops) := f.step op
    let (f'', more) := flagExec f' rest
    (f'', ops ++ more)

/-- two DBs with data, flushed with id `01`; then `a` is dropped -/
def w_setup : List PoolOp :=
  [.put "a" [1] (some [17]), .put "c" [2] (some [34]), .flush [1] [] ["a", "c"] ["a", "c"] ["a", "c"], .dropQ "a"]

/-- journal of the second flush (id `02`) after `w_setup`, pre-fix and repaired -/
def w_prefix : List DOp :=
  (poolExec Pool.init w_setup).2 ++ ((poolExec Pool.init w_setup).1.flushPreFix [2] ["a"] ["c"] ["c"] ["c"]).2
def w_fixed : List DOp :=
  (poolExec Pool.init w_setup).2 ++ ((poolExec Pool.init w_setup).1.flush [2] ["a"] ["c"] ["c"] ["c"]).2

/-- **D7, pool (pre-fix ordering: drop before the dirty marks).** A crash right after the drop of
    `a` (9 durable ops survive) restarts without error on the old flush id `01`, although `a`, which
    held data when flush `01` completed, is gone: `P_C25` is false. -/
theorem d7_pool_prefix_violates :
    restart (replay (w_prefix.take 9)) ["c"] = some (some (cleanMark [1])) ∧
    ¬ P_C25 (w_prefix.take 9) (restart (replay (w_prefix.take 9)) ["c"]) := by
  refine ⟨by decide, fun h => ?_⟩
  have := checkP_of_P ["a", "c"] [[1], [2]] _ _ h
  revert this; decide

/-- … while with the repaired ordering every crash point of the same history passes the check -/
example : (List.range (w_fixed.length + 1)).all (fun k =>
    let D := replay (w_fixed.take k)
    checkP ["a", "c"] [[1], [2]] (w_fixed.take k)
      (restart D (["a", "c"].filter (fun n => (D.get n).isSome)))) = true := by decide

def f_setup : List FlagOp :=
  [.open "a", .open "c", .write "a" [([1], some [17])], .write "c" [([2], some [34])], .flush [1] ["a", "c"]]

def f_prefix : List DOp :=
  (flagExec Flagged.init f_setup).2 ++ ((flagExec Flagged.init f_setup).1.stepPreFix (.drop "a" ["c"])).2
def f_fixed : List DOp :=
  (flagExec Flagged.init f_setup).2 ++ ((flagExec Flagged.init f_setup).1.step (.drop "a" ["c"])).2

/-- **D7, flagged producer (pre-fix: the DB is dropped without marking the others).** After the drop
    the restart answers the old flush id `01` without `a`. -/
theorem d7_flagged_prefix_violates :
    restart (replay f_prefix) ["c"] = some (some (cleanMark [1])) ∧
    ¬ P_C25 f_prefix (restart (replay f_prefix) ["c"]) := by
  refine ⟨by decide, fun h => ?_⟩
  have := checkP_of_P ["a", "c"] [[1], [2]] _ _ h
  revert this; decide

example : (List.range (f_fixed.length + 1)).all (fun k =>
    let D := replay (f_fixed.take k)
    checkP ["a", "c"] [[1], [2]] (f_fixed.take k)
      (restart D (["a", "c"].filter (fun n => (D.get n).isSome)))) = true := by decide

/-- both DBs are dropped, no wrapper remains -/
def w_all_setup : List PoolOp :=
  [.put "a" [1] (some [17]), .put "c" [2] (some [34]), .flush [1] [] ["a", "c"] ["a", "c"] ["a", "c"],
   .dropQ "a", .dropQ "c"]

/-- second flush with the intermediate repair (6f78193 only: no mark when no wrapper remains) -/
def w_all_mid : List DOp :=
  (poolExec Pool.init w_all_setup).2 ++ ((poolExec Pool.init w_all_setup).1.flushNoDropMarks [2] ["a", "c"] [] [] []).2
/-- … and with the final ordering (3bb25a4: the DBs about to be dropped are marked dirty first) -/
def w_all_fixed : List DOp :=
  (poolExec Pool.init w_all_setup).2 ++ ((poolExec Pool.init w_all_setup).1.flush [2] ["a", "c"] [] [] []).2

/-- **D7, residual (ordering of 6f78193 alone).** Both DBs are dropped in one flush and no wrapper
    remains, so no dirty mark is written; a crash between the two drops restarts on flush id `01` with
    `a` gone: `P_C25` is false. Repaired by 3bb25a4. -/
theorem pool_all_dropped_violates :
    restart (replay (w_all_mid.take 9)) ["c"] = some (some (cleanMark [1])) ∧
    ¬ P_C25 (w_all_mid.take 9) (restart (replay (w_all_mid.take 9)) ["c"]) := by
  refine ⟨by decide, fun h => ?_⟩
  have := checkP_of_P ["a", "c"] [[1], [2]] _ _ h
  revert this; decide

example : (List.range (w_all_fixed.length + 1)).all (fun k =>
    let D := replay (w_all_fixed.take k)
    checkP ["a", "c"] [[1], [2]] (w_all_fixed.take k)
      (restart D (["a", "c"].filter (fun n => (D.get n).isSome)))) = true := by decide

/-! ## non-vacuity: the hypotheses hold for a history with writes, a drop and two flushes -/

def w_ops : List PoolOp := w_setup ++ [.flush [2] ["a"] ["c"] ["c"] ["c"]]

/-- membership in a two-element oracle against a wrapper map, decided name by name -/
theorem iff_by_names {l : List Name} {f : Name → Bool} (names : List Name)
    (hin : ∀ n ∈ names, (n ∈ l ↔ f n = true))
    (hout : ∀ n, n ∉ names → n ∉ l ∧ f n = false) : ∀ n, n ∈ l ↔ f n = true := by
  intro n
  by_cases h : n ∈ names
  · exact hin n h
  · obtain ⟨h1, h2⟩ := hout n h
    simp [h1, h2]

theorem w_ops_valid : PoolValid Pool.init [] w_ops := by
  simp only [w_ops, w_setup, List.cons_append, List.nil_append, PoolValid, and_true, true_and]
  refine ⟨⟨by simp, ?_, by decide, ?_⟩, ⟨by decide, ?_, by decide, ?_⟩⟩
  all_goals
    refine iff_by_names ["a", "c"] (by decide) ?_
    intro n hn
    have ha : n ≠ "a" := fun e => hn (by simp [e])
    have hc : n ≠ "c" := fun e => hn (by simp [e])
    simp [closePhase, Pool.step, Pool.flush, dirtyPhase, dataPhase, cleanPhase, setW_get, getW, Pool.init, ha, hc]

example : Pool.init.run w_ops = w_fixed := by decide

def f_ops : List FlagOp := f_setup ++ [.drop "a" ["c"], .flush [2] ["c"]]

theorem f_ops_valid : FlagValid Flagged.init [] f_ops := by
  simp only [f_ops, f_setup, List.cons_append, List.nil_append, FlagValid, and_true, true_and]
  refine ⟨⟨by simp, by decide, ?_⟩, ?_, ⟨by decide, by decide, ?_⟩⟩
  · refine iff_by_names ["a", "c"] (by decide) ?_
    intro n hn
    have ha : n ≠ "a" := fun e => hn (by simp [e])
    have hc : n ≠ "c" := fun e => hn (by simp [e])
    simp [Flagged.step, Flagged.init, setF, ha, hc]
  · intro x hx hs
    by_cases hc : x = "c"
    · simp [hc]
    · exfalso
      revert hs
      simp [Flagged.step, Flagged.init, setF, flagFlush, flaggedNeedsMark, hx, hc]
  · refine iff_by_names ["a", "c"] (by decide) ?_
    intro n hn
    have ha : n ≠ "a" := fun e => hn (by simp [e])
    have hc : n ≠ "c" := fun e => hn (by simp [e])
    simp [Flagged.step, Flagged.init, setF, flagFlush, markOthers, flaggedNeedsMark, ha, hc]

/-- instances of the theorem on the two concrete histories (hypotheses satisfiable, conclusion
    non-trivial: after the last durable op the restart answers flush id `02`) -/
example : restart (replay (Pool.init.run w_ops)) ["c"] = some (some (cleanMark [2])) := by decide
example : restart (replay (Flagged.init.run f_ops)) ["c"] = some (some (cleanMark [2])) := by decide

example (k : Nat) (order : List Name) (hcov : Covers (replay ((Pool.init.run w_ops).take k)) order) :
    P_C25 ((Pool.init.run w_ops).take k) (restart (replay ((Pool.init.run w_ops).take k)) order) :=
  C25_crash_consistent (.pool w_ops w_ops_valid) k order hcov

end C25

/-! ### Structural expectations (regenerated facts `Gen.FactsC25`)
The pool model's flush writes the dirty marks first, then closes and drops the queued DBs, then
flushes the data (the clean marks come last). -/
namespace C25Facts
theorem flush_order : Gen.FactsC25.poolDirtyBeforeDrop = true ∧ Gen.FactsC25.poolCloseBeforeDrop = true ∧ Gen.FactsC25.poolDropBeforeData = true := by decide
end C25Facts
