import LachesisVerif.Props.C06
import LachesisVerif.Proofs.RefEquivL
/-!
# C03 — Cheater lists name exactly the visible forkers

"Each block's cheater list contains exactly those current validators that have two different
events with the same sequence number among the ancestors-or-self of the block's Atropos, listed in
the validator set's canonical order. An honest validator is never listed."

`applyAtropos` builds the cheater list by walking the validators in canonical order
(`SortedIDs`, here the indices `0 … nVals-1`) and keeping those for which
`GetMergedHighestBefore(atropos).Get(idx).IsForkDetected()` holds; `cheaters` below is that loop
over the implementation-level model of the vector index. Proved (from C06): for every valid
history, every indexed event `a` taken as Atropos and ANY number / weight of forking validators
(weights play no role), the list is exactly the ascending list of the validator indices with a
fork visible in the ancestry of `a`; a validator that never created two different events with the
same sequence number is never listed.
Not part of this theorem (covered by correspondence with the reference): that the `a` handed to
`applyAtropos` is the elected Atropos of the block, and the index → validator-ID map.
Appended (`C03_reference_cheaters`): the executable reference `Spec/Lachesis.lean` (oracle of the
`cons` stream) lists, in every block of a run of one epoch (no seals), exactly the model's cheater
loop output for the block's Atropos — the Atropos of the rules (C10) — mapped through the
reference's index → id table. Seals / several epochs are not covered.
-/
namespace C03
open Model.Vec VecProofs

/-- the cheater loop of `applyAtropos`: validators in canonical order with `IsForkDetected` -/
def cheaters (s : VState) (a : Nat) : List Nat :=
  (List.range s.nVals).filter (fun c => (s.merged a c).isNone)

theorem run_nVals {nVals : Nat} {h : Hist} (hv : Valid nVals h) (hsz : nVals + h.length < 4294967296) :
    (run nVals h).nVals = nVals := by
  obtain ⟨_, A⟩ := allInv_of_valid hv hsz
  exact A.nVals_eq

open Classical in
/-- the cheater list IS the canonical-order list of validators with a visible fork -/
theorem C03_cheaters_exact {nVals : Nat} {h : Hist} {a : Nat} (hv : Valid nVals h)
    (hsz : nVals + h.length < 4294967296) (ha : a < h.length) :
    cheaters (run nVals h) a = (List.range nVals).filter (fun c => decide (ForkSeen h a c)) := by
  unfold cheaters
  rw [run_nVals hv hsz]
  apply List.filter_congr
  intro c hc
  have hc' := List.mem_range.1 hc
  have h1 := (C06.C06_merged_eq_spec hv hsz ha hc').1
  cases hm : (run nVals h).merged a c with
  | none => simp [h1.1 hm]
  | some m =>
    have : ¬ ForkSeen h a c := fun hF => by rw [h1.2 hF] at hm; exact absurd hm (by simp)
    simp [this]

/-- membership form: listed iff a current validator with a visible fork -/
theorem C03_mem_cheaters {nVals : Nat} {h : Hist} {a : Nat} (hv : Valid nVals h)
    (hsz : nVals + h.length < 4294967296) (ha : a < h.length) (c : Nat) :
    c ∈ cheaters (run nVals h) a ↔ c < nVals ∧ ForkSeen h a c := by
  rw [C03_cheaters_exact hv hsz ha]
  simp [List.mem_filter]

/-- canonical order, no duplicates -/
theorem C03_cheaters_sorted (s : VState) (a : Nat) : (cheaters s a).Pairwise (· < ·) :=
  List.Pairwise.filter _ List.pairwise_lt_range

/-- a validator is honest in `h` if it never created two different events with one seq -/
def Honest (h : Hist) (c : Nat) : Prop :=
  ∀ x y, x < h.length → y < h.length → (h.ev x).creator = c → (h.ev y).creator = c →
    (h.ev x).seq = (h.ev y).seq → x = y

/-- an honest validator is never listed, whatever the Atropos -/
theorem C03_honest_never_listed {nVals : Nat} {h : Hist} {a c : Nat} (hv : Valid nVals h)
    (hsz : nVals + h.length < 4294967296) (ha : a < h.length) (hh : Honest h c) :
    c ∉ cheaters (run nVals h) a := by
  intro hc
  obtain ⟨_, x, y, hxy, hax, hay, hcx, hcy, hs⟩ := (C03_mem_cheaters hv hsz ha c).1 hc
  exact hxy (hh x y (hax.lt_right hv) (hay.lt_right hv) hcx hcy hs)

/-! ## Non-vacuity (history of C06: validator 0 forks three ways and forks a fork) -/

example : cheaters (run 3 C06.hist) 8 = [0] := by decide
example : cheaters (run 3 C06.hist) 7 = [] := by decide
example : cheaters (run 3 C06.hist) 4 = [0] := by decide
example : ∀ c, c ∈ cheaters (run 3 C06.hist) 8 ↔ c < 3 ∧ ForkSeen C06.hist 8 c :=
  C03_mem_cheaters C06.hist_valid (by decide) (by decide)
/-- validators 1 and 2 are honest in that history -/
example : Honest C06.hist 1 ∧ Honest C06.hist 2 := by
  have h1 : ∀ x, x < C06.hist.length → ∀ y, y < C06.hist.length →
      (C06.hist.ev x).creator = 1 → (C06.hist.ev y).creator = 1 →
      (C06.hist.ev x).seq = (C06.hist.ev y).seq → x = y := by decide
  have h2 : ∀ x, x < C06.hist.length → ∀ y, y < C06.hist.length →
      (C06.hist.ev x).creator = 2 → (C06.hist.ev y).creator = 2 →
      (C06.hist.ev x).seq = (C06.hist.ev y).seq → x = y := by decide
  exact ⟨fun x y hx hy => h1 x hx y hy, fun x y hx hy => h2 x hx y hy⟩
/-- hence they are never listed (instance of the theorem) -/
example : 1 ∉ cheaters (run 3 C06.hist) 8 := by decide

/-! ## The executable reference (oracle of the `cons` stream) -/
section Reference
open Spec.Lachesis RefEquiv

/-- C03 for the executable reference. In a run of the reference (`RefEquiv.Run`: one epoch, no seals,
    checked events) with fewer than 2^32 - nVals events, block `i` names the Atropos `a` of frame
    `i + 1` of the rules, and its cheater list is the output of the model's cheater loop for `a`
    (`cheaters (run nv hist) a`: the validators, in canonical order, with two different equal-seq
    events among the ancestors-or-self of `a` — `C03_mem_cheaters`) mapped to validator ids. -/
theorem C03_reference_cheaters {ep : Nat} {rvals : List (Nat × Nat)} {evs : List Ev} {s : Inst}
    {out : List Inst.Block} (hrun : Run ep rvals evs s out) (hsz : s.nv + s.size < 4294967296) :
    ∀ i (h : i < out.length), ∃ a, a < s.size ∧ (out[i]).atropos = (s.ev a).n ∧
      (netOf s).IsAtropos (i + 1) a ∧
      (out[i]).cheaters = (cheaters (run s.nv (histOf s)) a).map s.idOf ∧
      (∀ c, c ∈ cheaters (run s.nv (histOf s)) a ↔ c < s.nv ∧ ForkSeen (histOf s) a c) := by
  intro i h
  have hv := (run_inv hrun).valid
  obtain ⟨_, hb, _⟩ := reference_blocks hrun
  obtain ⟨_, _, a, ha, h1, h2, h3, h4⟩ := hb i h
  have hlen : s.nv + (histOf s).length < 4294967296 := by rw [length_histOf]; exact hsz
  have ha' : a < (histOf s).length := by rw [length_histOf]; exact ha
  refine ⟨a, ha, h1, h2, ?_, C03_mem_cheaters hv hlen ha'⟩
  rw [h3, C03_cheaters_exact hv hlen ha']
  congr 1
  apply List.filter_congr
  intro v _
  rw [Bool.eq_iff_iff, h4 v]
  exact (@decide_eq_true_iff _ (Classical.propDecidable _)).symm

/-- non-vacuity: the run of `RefEquiv.exRun1` (one validator, one accepted event) -/
example : ∃ s out, Run 1 exV1 [exE0] s out := exRun1

end Reference

end C03
