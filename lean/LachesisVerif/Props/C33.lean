import LachesisVerif.Model.RootsStore
/-!
# C33 — Root registry returns exactly the registered roots

"For each frame, the consensus store returns exactly the set of roots registered for that frame
in the current epoch, each with the frame and creator it was registered under, regardless of cache
size, evictions and earlier queries, and a new epoch starts with no roots."

Theorem over every history of `addRoot` / `GetFrameRoots` / epoch switches and EVERY eviction
policy of the cache (any subset may survive an `Add`).
-/
namespace C33
open Model.RootsStore Model.Election

/-- eviction only drops entries -/
def Shrinks (ev : Evict) : Prop := ∀ c x, x ∈ ev c → x ∈ c

/-- every cached list is, as a set, the table's content for that frame -/
def Inv (s : RStore) : Prop :=
  ∀ f l, (f, l) ∈ s.cache → ∀ r, r ∈ l ↔ (r ∈ s.table ∧ r.frame = f)

theorem lookup_mem {α} (c : List (Nat × α)) (f : Nat) (l : α) (h : c.lookup f = some l) : (f, l) ∈ c := by
  induction c with
  | nil => simp at h
  | cons x xs ih =>
    obtain ⟨k, v⟩ := x
    simp only [List.lookup] at h
    by_cases hk : f = k
    · subst hk; simp at h; subst h; exact List.mem_cons_self
    · have : (f == k) = false := by simpa using hk
      rw [this] at h
      exact List.mem_cons_of_mem _ (ih h)

theorem lookup_none_not_mem {α} (c : List (Nat × α)) (f : Nat) (l : α) (h : c.lookup f = none) : (f, l) ∉ c := by
  induction c with
  | nil => simp
  | cons x xs ih =>
    obtain ⟨k, v⟩ := x
    simp only [List.lookup] at h
    by_cases hk : f = k
    · subst hk; simp at h
    · have hb : (f == k) = false := by simpa using hk
      rw [hb] at h
      intro hm
      rcases List.mem_cons.1 hm with h' | h'
      · cases h'; exact hk rfl
      · exact ih h h'

theorem inv_cacheAdd (ev : Evict) (hev : Shrinks ev) (t : List Root) (c : List (Nat × List Root)) (f : Nat) (l : List Root)
    (hc : ∀ g m, (g, m) ∈ c → g ≠ f → ∀ r, r ∈ m ↔ (r ∈ t ∧ r.frame = g))
    (hl : ∀ r, r ∈ l ↔ (r ∈ t ∧ r.frame = f)) :
    ∀ g m, (g, m) ∈ cacheAdd ev c f l → ∀ r, r ∈ m ↔ (r ∈ t ∧ r.frame = g) := by
  intro g m hm
  have := hev _ _ hm
  rcases List.mem_cons.1 this with h | h
  · cases h; exact hl
  · have hmem := List.mem_filter.1 h
    exact hc g m hmem.1 (by simpa using hmem.2)

theorem mem_table_add (s : RStore) (r x : Root) :
    x ∈ (if s.table.contains r then s.table else s.table ++ [r]) ↔ (x = r ∨ x ∈ s.table) := by
  by_cases hc : s.table.contains r = true
  · simp only [hc, if_true]
    have : r ∈ s.table := by simpa using hc
    constructor
    · intro hx; exact Or.inr hx
    · rintro (rfl | hx)
      · exact this
      · exact hx
  · simp only [hc, Bool.false_eq_true, if_false, List.mem_append, List.mem_singleton]
    constructor
    · rintro (hx | hx)
      · exact Or.inr hx
      · exact Or.inl hx
    · rintro (hx | hx)
      · exact Or.inr hx
      · exact Or.inl hx

theorem addRoot_inv (ev : Evict) (hev : Shrinks ev) (s : RStore) (r : Root) (h : Inv s) :
    Inv (addRoot ev s r) ∧ ∀ x, x ∈ (addRoot ev s r).table ↔ (x = r ∨ x ∈ s.table) := by
  have ht := mem_table_add s r
  unfold addRoot
  cases hl : s.cache.lookup r.frame with
  | none =>
    refine ⟨?_, ht⟩
    intro f l hm x
    have hne : f ≠ r.frame := fun hf => lookup_none_not_mem _ _ l hl (hf ▸ hm)
    rw [ht x, h f l hm x]
    constructor
    · rintro ⟨hx, hf⟩; exact ⟨Or.inr hx, hf⟩
    · rintro ⟨hx | hx, hf⟩
      · subst hx; exact absurd hf.symm hne
      · exact ⟨hx, hf⟩
  | some rr =>
    refine ⟨?_, ht⟩
    have hrr := h r.frame rr (lookup_mem _ _ _ hl)
    apply inv_cacheAdd ev hev
    · intro g m hm hne x
      rw [ht x, h g m hm x]
      constructor
      · rintro ⟨hx, hf⟩; exact ⟨Or.inr hx, hf⟩
      · rintro ⟨hx | hx, hf⟩
        · subst hx; exact absurd hf.symm hne
        · exact ⟨hx, hf⟩
    · intro x
      simp only [List.mem_append, List.mem_singleton]
      rw [hrr x, ht x]
      constructor
      · rintro (⟨hx, hf⟩ | hx)
        · exact ⟨Or.inr hx, hf⟩
        · subst hx; exact ⟨Or.inl rfl, rfl⟩
      · rintro ⟨hx | hx, hf⟩
        · exact Or.inr hx
        · exact Or.inl ⟨hx, hf⟩

theorem getFrameRoots_inv (ev : Evict) (hev : Shrinks ev) (s : RStore) (f : Nat) (h : Inv s) :
    Inv (getFrameRoots ev s f).1 ∧ (getFrameRoots ev s f).1.table = s.table ∧
    ∀ r, r ∈ (getFrameRoots ev s f).2 ↔ (r ∈ s.table ∧ r.frame = f) := by
  unfold getFrameRoots
  cases hl : s.cache.lookup f with
  | some rr => exact ⟨h, rfl, h f rr (lookup_mem _ _ _ hl)⟩
  | none =>
    have hset : ∀ r, r ∈ s.table.filter (fun r => r.frame == f) ↔ (r ∈ s.table ∧ r.frame = f) := by
      intro r; simp [List.mem_filter]
    refine ⟨?_, rfl, hset⟩
    exact inv_cacheAdd ev hev s.table s.cache f _ (fun g m hm _ => h g m hm) hset

/-- the state reached by a history (most recent op first) -/
def run (ev : Evict) : List Op → RStore
  | [] => {}
  | op :: rest => step ev (run ev rest) op

theorem run_inv (ev : Evict) (hev : Shrinks ev) (ops : List Op) :
    Inv (run ev ops) ∧ ∀ x, x ∈ (run ev ops).table ↔ x ∈ registered ops := by
  induction ops with
  | nil => exact ⟨fun f l hm => (by cases hm), fun x => (by simp [run, registered])⟩
  | cons op rest ih =>
    cases op with
    | add r =>
      obtain ⟨hi, ht⟩ := addRoot_inv ev hev (run ev rest) r ih.1
      refine ⟨hi, fun x => ?_⟩
      show x ∈ (addRoot ev (run ev rest) r).table ↔ _
      rw [ht x, ih.2 x]; simp [registered]
    | get f =>
      obtain ⟨hi, ht, _⟩ := getFrameRoots_inv ev hev (run ev rest) f ih.1
      refine ⟨hi, fun x => ?_⟩
      show x ∈ (getFrameRoots ev (run ev rest) f).1.table ↔ _
      rw [ht, ih.2 x]; simp [registered]
    | epoch => exact ⟨fun f l hm => (by cases hm), fun x => (by simp [run, step, newEpoch, registered])⟩

/-- C33: after any history of root registrations, queries and epoch switches, and under any eviction
    policy, `GetFrameRoots f` returns exactly the roots registered for `f` in the current epoch, each
    with the frame and validator it was registered under. -/
theorem C33_roots_exact (ev : Evict) (hev : Shrinks ev) (ops : List Op) (f : Nat) (r : Root) :
    r ∈ (getFrameRoots ev (run ev ops) f).2 ↔ (r ∈ registered ops ∧ r.frame = f) := by
  obtain ⟨hi, ht⟩ := run_inv ev hev ops
  rw [(getFrameRoots_inv ev hev (run ev ops) f hi).2.2 r, ht r]

/-- a new epoch starts with no roots -/
theorem C33_new_epoch_empty (ev : Evict) (ops : List Op) (f : Nat) :
    (getFrameRoots ev (run ev (.epoch :: ops)) f).2 = [] := by
  simp [run, step, newEpoch, getFrameRoots]

/-! ### non-vacuity: a cache that keeps nothing, and one that keeps everything -/
example : Shrinks (fun _ => []) := fun c x h => by cases h
example : Shrinks (fun c => c) := fun c x h => h
example : (getFrameRoots (fun _ => []) (run (fun _ => []) [.add ⟨5, 2, 9⟩, .get 2, .add ⟨4, 2, 7⟩, .add ⟨3, 1, 7⟩]) 2).2
    = [⟨4, 2, 7⟩, ⟨5, 2, 9⟩] := by decide

end C33
