import LachesisVerif.Gen.FactsC27
/-!
# Structural expectations for C27 (regenerated facts `Gen.FactsC27`)

Split out of the family survey (`notes/facts-multi-notes.md` lists what the selectors cannot express).
Each theorem states the expected value of Bool facts regenerated from the Go source by
`go/cmd/extract` (selectors `hascall:`, `topcall:`, `topassign:`, `before:`); a statement that is
dropped, guarded or reordered flips a fact and breaks the theorem.
-/
namespace FactsC27

/-- `openDB`: `notDropped[name] = true` before the first unlock, i.e. on every open including the
    re-use path (`Model.CachedProducer.openDB`: `s := { … with notDropped := true }` first — "at most
    once per OPEN"); the underlying `Close` is captured unconditionally; the store is cached after the
    underlying open succeeded. -/
theorem open_bookkeeping :
    Gen.FactsC27.openRearmsDropFirst = true ∧ Gen.FactsC27.capturesRealClose = true ∧
    Gen.FactsC27.openCachesAfterRealOpen = true := by decide

/-- the reference counter: `+1` on the re-use path and on the new-store path, `-1` written back by a
    non-last close (`ref := s.ref + 1`, `ref := s.ref - 1` in the model); under `if toClose` the
    closure returns `realClose()` (the `.realClose` event of `Model.CachedProducer.close`). A missing
    increment / write-back closes the DB too early or never ("exactly once, at the last close"). -/
theorem counter_updates :
    (∀ r, Gen.FactsC27.reuseCounter r = r + 1) ∧ (∀ r, Gen.FactsC27.newCounter r = r + 1) ∧
    (∀ c, Gen.FactsC27.closeCounter c = c - 1) ∧ Gen.FactsC27.closeWritesBackCounter = true ∧
    (∀ b, Gen.FactsC27.lastCloseReturnsReal b = b) :=
  ⟨fun _ => rfl, fun _ => rfl, fun _ => rfl, by decide, fun _ => rfl⟩

/-- the handles go through the bookkeeping (`StoreWithFn.Close` → `CloseFn`, `Drop` → `DropFn`), and
    both producers (`Wrap`, `WrapAll`: the `Kind` of the model) share `openDB`. -/
theorem handles_and_producers :
    Gen.FactsC27.storeCloseCallsFn = true ∧ Gen.FactsC27.storeDropCallsFn = true ∧
    Gen.FactsC27.wrapUsesOpenDB = true ∧ Gen.FactsC27.wrapAllUsesOpenDB = true := by decide

end FactsC27
