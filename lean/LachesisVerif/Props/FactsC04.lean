import LachesisVerif.Gen.FactsC04
/-!
# Structural expectations for C04 (regenerated facts `Gen.FactsC04`)

Split out of the family survey (`notes/facts-cons-notes.md` lists what the selectors cannot express).
Each theorem states the expected value of Bool facts regenerated from the Go source by
`go/cmd/extract` (selectors `hascall:`, `topcall:`, `topassign:`, `before:`); a statement that is
dropped, guarded or reordered flips a fact and breaks the theorem.
-/
namespace FactsC04

/-- `Model.Election.frameAccepted` / `Model.Orderer.process`, `build` (abft/event_processing.go):
    `checkAndSaveEvent` computes the frame at top level and registers the root only afterwards (the
    quorum predicate `Q` of the check is evaluated on the roots table WITHOUT the event itself: the
    model evaluates `frameAccepted (quorumOn env s id)` on `s`, then inserts); `Build` computes, then
    sets the frame unconditionally. Neither `Build` nor `calcFrameIdx` registers a root (expected
    FALSE) — "no matter which events were built before": `Model.Orderer.build` returns no state. -/
theorem check_and_build :
    Gen.FactsC04.checkCalcsAtTop = true ∧ Gen.FactsC04.checkBeforeSave = true ∧
    Gen.FactsC04.buildSetsFrame = true ∧ Gen.FactsC04.buildCalcsBeforeSet = true ∧
    Gen.FactsC04.buildDoesNotSave = false ∧ Gen.FactsC04.calcDoesNotSave = false := by decide

/-- `Model.Election.calcFrameIdx` takes `selfParentFrame` as an input that is 0 without self-parent and
    the self-parent's stored frame otherwise; `Model.Orderer.quorumOn` folds over the frame's roots of
    the table with a FRESH counter, asking the index per root and counting the root's validator;
    `Model.Election.rootFrames` = one `addRoot` per frame of `(selfParentFrame, frame]`
    (the kernels `addRootFirstFrame`, `addRootLoopCond` give the bounds). -/
theorem frame_inputs :
    Gen.FactsC04.spfDefaultsToZero = true ∧ Gen.FactsC04.spfFromSelfParent = true ∧
    Gen.FactsC04.quorumFreshCounter = true ∧ Gen.FactsC04.quorumReadsFrameRoots = true ∧
    Gen.FactsC04.quorumAsksIndexThenCounts = true ∧ Gen.FactsC04.addRootEveryFrame = true := by decide

end FactsC04
