import LachesisVerif.Proofs.PosCanon
/-!
# C12 — Validator sets have a canonical, serialisable form

"A validator set's canonical order (descending weight, ties by ascending ID), index mapping,
weights and total depend only on its non-zero (ID, weight) pairs, and encoding then decoding
yields the same set in the same order. Building from arbitrary-precision stakes never panics,
keeps the weight order of stakes, and scales all stakes down by one common power of two just
enough for the total to fit the weight limit."

Quantifier: all multisets of (ID, weight) pairs inserted in any order, including zero weights,
duplicates overwritten, and big stakes up to 2^256 (the theorems have no upper bound on stakes).

Model: `Model.Pos` (`less` over the regenerated kernels of `validators.Less`, `build` with the
regenerated `calcCaches` tests) and `Model.PosCanon` (`setK` with the regenerated zero test,
RLP fragment, big builder with the regenerated `totalBits > 31` test). Go's `sort.Sort` and the
iteration order of the builder map are *not* modelled by one function: the uniqueness theorems
speak about every sorted permutation (`Sorted`, `List.Perm`), of which the model's insertion sort
is one instance. A sequence of `Set` calls denotes the map `finalW` (last weight set per id,
0 = absent); "the non-zero pairs" of a set are the pairs `(id, finalW id)` with non-zero weight.
-/
namespace C12
open Model.Pos Model.PosCanon Model.Enc Proofs.PosCanon

/-! ### canonical order -/

/-- `less` is "weight descending, then id ascending" (the regenerated comparison kernels). -/
theorem less_is_weight_desc_id_asc (a b : Nat × Nat) :
    less a b = true ↔ (a.2 > b.2 ∨ (a.2 = b.2 ∧ a.1 < b.1)) := less_iff a b

/-- Two sorted permutations of the same pairs are equal: whatever `sort.Sort` (unstable) and the
    map iteration order do, the canonical order is unique. -/
theorem canonical_unique {s₁ s₂ : Pairs} (hp : s₁.Perm s₂) (h₁ : Sorted s₁) (h₂ : Sorted s₂) : s₁ = s₂ :=
  sorted_perm_eq hp h₁ h₂

/-- The model's insertion sort yields a sorted permutation of any builder content. -/
theorem sortPairs_sorted_perm (b : Pairs) (hb : BInv b) : (sortPairs b).Perm b ∧ Sorted (sortPairs b) :=
  ⟨sortPairs_perm b, sortPairs_sorted b (nodup_of_binv hb)⟩

/-- A sequence of `Set` calls leaves exactly the non-zero pairs of the map it denotes: distinct
    ids, no zero weight, and `(id, w)` is stored iff `w ≠ 0` is the last weight set for `id` —
    regardless of insertion order, overwritten duplicates and zero-weight deletes. -/
theorem builder_holds_final_pairs (ops : List (Nat × Nat)) :
    BInv (applySets ops) ∧ ∀ id w, (id, w) ∈ applySets ops ↔ w ≠ 0 ∧ finalW ops id = w := by
  refine ⟨binv_applySets ops, fun id w => ?_⟩
  rw [mem_iff_getW (binv_applySets ops), getW_applySets]

/-- The builder model written over the regenerated zero test is the one C11 uses. -/
theorem setK_is_set (b : Pairs) (id w : Nat) : setK b id w = Model.Pos.set b id w := setK_eq_set b id w

/-- The canonical order depends only on the non-zero (id, weight) pairs: two call sequences that
    denote the same map have the same canonical order, for *every* sorted permutation either
    build may produce. -/
theorem canonical_depends_only_on_pairs (ops₁ ops₂ : List (Nat × Nat))
    (h : ∀ id, finalW ops₁ id = finalW ops₂ id) (s₁ s₂ : Pairs)
    (hp₁ : s₁.Perm (applySets ops₁)) (hp₂ : s₂.Perm (applySets ops₂))
    (h₁ : Sorted s₁) (h₂ : Sorted s₂) : s₁ = s₂ := by
  have hperm : (applySets ops₁).Perm (applySets ops₂) :=
    perm_of_same_getW (binv_applySets ops₁) (binv_applySets ops₂)
      (fun id => by rw [getW_applySets, getW_applySets, h id])
  exact canonical_unique (hp₁.trans (hperm.trans hp₂.symm)) h₁ h₂

/-- Hence every observable of the built set — sorted ids, sorted weights, index map, total
    weight, quorum, and whether `Build` panics — is a function of the non-zero pairs. -/
theorem observables_depend_only_on_pairs (ops₁ ops₂ : List (Nat × Nat))
    (h : ∀ id, finalW ops₁ id = finalW ops₂ id) : build (applySets ops₁) = build (applySets ops₂) := by
  have hs : sortPairs (applySets ops₁) = sortPairs (applySets ops₂) :=
    canonical_depends_only_on_pairs ops₁ ops₂ h _ _ (sortPairs_perm _) (sortPairs_perm _)
      (sortPairs_sorted _ (nodup_of_binv (binv_applySets ops₁)))
      (sortPairs_sorted _ (nodup_of_binv (binv_applySets ops₂)))
  unfold build
  rw [hs]

theorem findIdx_get (l : Pairs) (hnd : (l.map (·.1)).Nodup) (id w : Nat) (hm : (id, w) ∈ l) :
    l[(l.findIdx? (fun p => p.1 == id)).getD 0]? = some (id, w) := by
  induction l with
  | nil => cases hm
  | cons p ps ih =>
    have hn := List.nodup_cons.1 hnd
    rw [List.findIdx?_cons]
    by_cases hp : p.1 = id
    · have : (p.1 == id) = true := by simp [hp]
      rw [if_pos this]
      rcases List.mem_cons.1 hm with h | h
      · simp [h]
      · exact absurd (List.mem_map_of_mem (f := (·.1)) h) (hp ▸ hn.1)
    · have : ¬ (p.1 == id) = true := by simp [hp]
      rw [if_neg this]
      have hm' : (id, w) ∈ ps := by
        rcases List.mem_cons.1 hm with h | h
        · exact absurd (congrArg Prod.fst h).symm hp
        · exact h
      have := ih hn.2 hm'
      cases hf : ps.findIdx? (fun p => p.1 == id) with
      | none =>
        -- impossible: the id occurs in ps
        have := List.findIdx?_eq_none_iff.1 hf (id, w) hm'
        simp at this
      | some i =>
        rw [hf] at this
        simpa using this

theorem mem_enumFrom (l : List Nat) (k x i : Nat) :
    (x, i) ∈ enumFrom k l ↔ k ≤ i ∧ l[i - k]? = some x := by
  induction l generalizing k with
  | nil => simp [enumFrom]
  | cons y ys ih =>
    simp only [enumFrom, List.mem_cons, Prod.mk.injEq, ih]
    constructor
    · rintro (⟨rfl, rfl⟩ | ⟨h1, h2⟩)
      · simp
      · refine ⟨by omega, ?_⟩
        have : i - k = (i - (k + 1)) + 1 := by omega
        rw [this, List.getElem?_cons_succ]; exact h2
    · rintro ⟨h1, h2⟩
      by_cases hik : i = k
      · left
        subst hik
        simp at h2
        exact ⟨h2.symm, rfl⟩
      · right
        refine ⟨by omega, ?_⟩
        have : i - k = (i - (k + 1)) + 1 := by omega
        rw [this, List.getElem?_cons_succ] at h2; exact h2

/-- The caches of a built set are consistent with its pairs: the sorted array is a sorted
    permutation of the builder; `GetIdx` sends every stored id to the position where the sorted
    arrays hold that id and its weight; `Idxs` is exactly the enumeration of `SortedIDs`; the total
    is the sum of the weights and lies within the weight limit. -/
theorem idx_ids_weights_total (b : Pairs) (hb : BInv b) (hw : ∀ p ∈ b, p.2 < 4294967296) (v : Vals)
    (hv : build b = some v) :
    v.sorted.Perm b ∧ Sorted v.sorted ∧
    (∀ id w, (id, w) ∈ b → (ids v)[v.idxOf id]? = some id ∧ (weights v)[v.idxOf id]? = some w) ∧
    (∀ id i, (id, i) ∈ idxs v ↔ (ids v)[i]? = some id) ∧
    (weights v).sum = v.total ∧ v.total ≤ 2147483647 := by
  have hsorted : v.sorted = sortPairs b := by
    unfold build at hv
    simp only [Option.map_eq_some_iff] at hv
    obtain ⟨t, _, rfl⟩ := hv
    rfl
  have hperm : v.sorted.Perm b := hsorted ▸ sortPairs_perm b
  have hbt := C11.build_total b v (fun p hp => hw p ((sortPairs_perm b).subset hp)) hv
  refine ⟨hperm, hsorted ▸ sortPairs_sorted b (nodup_of_binv hb), ?_, ?_, hbt.1, (C11.limit_is_maxint32 _).1 hbt.2⟩
  · intro id w hm
    have hnd : (v.sorted.map (·.1)).Nodup := (binv_perm hperm hb).nodup
    have := findIdx_get v.sorted hnd id w (hperm.symm.subset hm)
    unfold Vals.idxOf ids weights
    simp [List.getElem?_map, this]
  · intro id i
    unfold idxs
    rw [mem_enumFrom]
    simp

/-! ### RLP -/

/-- decode ∘ encode = id on the RLP fragment, for every list of uint32 pairs whose payload length
    is representable (go-ethereum sizes are uint64). -/
theorem rlp_roundtrip_pairs (ps : List (Nat × Nat)) (hf : Fields32 ps)
    (hlen : (encItems ps).length < 18446744073709551616) : decPairs (encPairs ps) = some ps :=
  decPairs_enc ps hf hlen

/-- Encoding then decoding yields the same set in the same order, for every set `Build` can
    return (`DecodeRLP` re-inserts the decoded pairs into a builder and builds again). -/
theorem rlp_roundtrip (b : Pairs) (hb : BInv b) (hf : Fields32 b) (v : Vals) (hv : build b = some v) :
    decodeVals (encodeVals v) = .ok v := by
  obtain ⟨hperm, hsorted, _, _, hsum, htot⟩ := idx_ids_weights_total b hb (fun p hp => (hf p hp).2) v hv
  have hbv : BInv v.sorted := binv_perm hperm hb
  have hfv : Fields32 v.sorted := fun p hp => hf p (hperm.subset hp)
  have hlen : v.sorted.length ≤ 2147483647 := by
    have := length_le_sum (weights v) (by
      intro x hx
      rcases List.mem_map.1 hx with ⟨p, hp, rfl⟩
      exact hbv.nonzero p hp)
    unfold weights at this hsum
    simp only [List.length_map] at this
    omega
  have hl := encItems_length_le v.sorted hfv
  unfold decodeVals encodeVals
  rw [rlp_roundtrip_pairs v.sorted hfv (by omega)]
  simp only
  rw [applySets_self v.sorted hbv]
  have hs : sortPairs v.sorted = sortPairs b :=
    canonical_unique ((sortPairs_perm _).trans (hperm.trans (sortPairs_perm b).symm))
      (sortPairs_sorted _ (nodup_of_binv hbv)) (sortPairs_sorted _ (nodup_of_binv hb))
  have : build v.sorted = build b := by unfold build; rw [hs]
  rw [this, hv]

/-! ### ValidatorsBigBuilder (stakes are arbitrary naturals; `hbits` says that the bit length of the
    total is a Go `uint` — `big.Int.BitLen` returns an `int`, so it always holds) -/

/-- The big builder is a map too: after any sequence of `Set` calls (nil or zero stakes delete)
    the ids are distinct and no stored stake is zero — the hypothesis of the theorems below. -/
theorem big_builder_is_map (ops : List (Nat × Option Nat)) : BInv (applyBigSets ops) := by
  unfold applyBigSets
  suffices h : ∀ b, BInv b → BInv (ops.foldl (fun b p => bigSet b p.1 p.2) b) from h [] binv_nil
  induction ops with
  | nil => intro b hb; exact hb
  | cons o os ih =>
    intro b hb
    refine ih _ ?_
    show BInv (bigSet b o.1 o.2)
    unfold bigSet Gen.PosBig.bigSetDeletes
    have hf := binv_filter hb o.1
    split
    · exact hf
    · rename_i hk
      constructor
      · rw [List.map_append, List.nodup_append]
        refine ⟨hf.nodup, by simp, ?_⟩
        intro a ha c hc
        simp at hc
        subst hc
        rcases List.mem_map.1 ha with ⟨p, hp, rfl⟩
        have := (List.mem_filter.1 hp).2
        simpa using this
      · intro p hp
        rcases List.mem_append.1 hp with hp | hp
        · exact hf.nonzero p hp
        · simp at hp
          subst hp
          intro h0
          apply hk
          simp only at h0
          simp [h0]

/-- shift = BitLen(total) − 31, and 0 when the total has at most 31 bits -/
theorem big_shift_spec (t : Nat) (hbits : bitLen t < 18446744073709551616) : bigShift t = bitLen t - 31 := by
  unfold bigShift Gen.PosBig.overBits Gen.PosBig.shiftInit Gen.PosBig.shiftValue
  by_cases h : bitLen t > 31
  · simp only [h, decide_true, if_true]; omega
  · simp [h]; omega

/-- the scaled total fits the weight limit 2^31−1 … -/
theorem big_total_fits (t : Nat) (hbits : bitLen t < 18446744073709551616) : t / 2 ^ bigShift t ≤ 2147483647 := by
  rw [big_shift_spec t hbits]
  have hb := (bitLen_spec t).1
  have hpos : 0 < 2 ^ (bitLen t - 31) := Nat.pow_pos (by decide)
  have : t / 2 ^ (bitLen t - 31) < 2147483648 := by
    rw [Nat.div_lt_iff_lt_mul hpos]
    by_cases h : bitLen t ≤ 31
    · have : bitLen t - 31 = 0 := by omega
      rw [this]
      have : 2 ^ bitLen t ≤ 2 ^ 31 := Nat.pow_le_pow_right (by decide) h
      omega
    · have e : bitLen t = 31 + (bitLen t - 31) := by omega
      rw [e, Nat.pow_add] at hb
      simpa using hb
  omega

/-- … and the shift is minimal: with one bit less the total would not fit. -/
theorem big_minimal_shift (t : Nat) (hbits : bitLen t < 18446744073709551616) (h : 0 < bigShift t) : 2147483648 ≤ t / 2 ^ (bigShift t - 1) := by
  rw [big_shift_spec t hbits] at h ⊢
  have ht : t ≠ 0 := by
    intro h0; subst h0; simp [bitLen] at h
  have hb := (bitLen_spec t).2 ht
  have hpos : 0 < 2 ^ (bitLen t - 31 - 1) := Nat.pow_pos (by decide)
  rw [Nat.le_div_iff_mul_le hpos]
  have e : bitLen t - 1 = 31 + (bitLen t - 31 - 1) := by omega
  rw [e, Nat.pow_add] at hb
  simpa using hb

/-- every stake is scaled by the same power of two; the conversion to uint32 loses nothing -/
theorem big_truncation_identity (b : Stakes) (hbits : bitLen (bigTotal b) < 18446744073709551616) (p : Nat × Nat) (hp : p ∈ b) :
    scale (bigShift (bigTotal b)) p.2 = p.2 / 2 ^ bigShift (bigTotal b) := by
  have hle : p.2 ≤ bigTotal b := mem_le_sum _ _ (List.mem_map_of_mem (f := (·.2)) hp)
  have h1 : p.2 / 2 ^ bigShift (bigTotal b) ≤ bigTotal b / 2 ^ bigShift (bigTotal b) := Nat.div_le_div_right hle
  have h2 := big_total_fits (bigTotal b) hbits
  unfold scale
  rw [Nat.shiftRight_eq_div_pow]
  generalize p.2 / 2 ^ bigShift (bigTotal b) = x at h1 ⊢
  rw [Nat.mod_eq_of_lt (a := x) (by omega), Nat.mod_eq_of_lt (by omega)]

/-- the weight order of stakes is kept -/
theorem big_monotone (b : Stakes) (hbits : bitLen (bigTotal b) < 18446744073709551616) (p q : Nat × Nat) (hp : p ∈ b) (hq : q ∈ b) (h : p.2 ≤ q.2) :
    scale (bigShift (bigTotal b)) p.2 ≤ scale (bigShift (bigTotal b)) q.2 := by
  rw [big_truncation_identity b hbits p hp, big_truncation_identity b hbits q hq]
  exact Nat.div_le_div_right h

theorem bigBuilder_eq (b : Stakes) (hnd : (b.map (·.1)).Nodup) (s : Nat) :
    bigBuilder b s = (b.map (fun p => (p.1, scale s p.2))).filter (fun p => p.2 != 0) := by
  unfold bigBuilder
  rw [applySets_nodup]
  have : (b.map (fun p => (p.1, scale s p.2))).map (·.1) = b.map (·.1) := by
    rw [List.map_map]; rfl
  rw [this]; exact hnd

/-- `Build` never panics: the scaled weights sum to at most ⌊total / 2^shift⌋ ≤ 2^31−1, so the
    uint32 running sum of `calcCaches` neither wraps nor exceeds the limit; the result's total is
    the sum of the scaled stakes. -/
theorem big_no_panic (b : Stakes) (hbits : bitLen (bigTotal b) < 18446744073709551616) (hnd : (b.map (·.1)).Nodup) :
    ∃ v, bigBuild b = some v ∧
      v.total = (b.map (fun p => p.2 / 2 ^ bigShift (bigTotal b))).sum ∧ v.total ≤ 2147483647 := by
  have hsum : ((bigBuilder b (bigShift (bigTotal b))).map (·.2)).sum
      = (b.map (fun p => p.2 / 2 ^ bigShift (bigTotal b))).sum := by
    rw [bigBuilder_eq b hnd, sum_filter_ne_zero, List.map_map]
    congr 1
    apply List.map_congr_left
    intro p hp
    exact big_truncation_identity b hbits p hp
  have hle : (b.map (fun p => p.2 / 2 ^ bigShift (bigTotal b))).sum ≤ 2147483647 := by
    have := sum_div_le (b.map (·.2)) (2 ^ bigShift (bigTotal b))
    rw [List.map_map] at this
    have h2 := big_total_fits (bigTotal b) hbits
    unfold bigTotal at h2
    exact Nat.le_trans this h2
  refine ⟨_, build_ok _ (by rw [hsum]; exact hle), ?_, ?_⟩
  · exact hsum
  · show ((bigBuilder b (bigShift (bigTotal b))).map (·.2)).sum ≤ 2147483647
    rw [hsum]; exact hle

/-- The result does not depend on the order in which Go iterates the big builder map. -/
theorem big_order_independent (b b' : Stakes) (hp : b'.Perm b) (hnd : (b.map (·.1)).Nodup) :
    bigBuild b' = bigBuild b := by
  have hnd' : (b'.map (·.1)).Nodup := ((hp.map (·.1)).nodup_iff).2 hnd
  have ht : bigTotal b' = bigTotal b := (List.Perm.map (fun p : Nat × Nat => p.2) hp).sum_nat
  unfold bigBuild
  rw [ht]
  generalize bigShift (bigTotal b) = s
  have hpp : (bigBuilder b' s).Perm (bigBuilder b s) := by
    rw [bigBuilder_eq b hnd, bigBuilder_eq b' hnd']
    exact (hp.map _).filter _
  have hb : BInv (bigBuilder b s) := binv_applySets _
  have hb' : BInv (bigBuilder b' s) := binv_applySets _
  have hs : sortPairs (bigBuilder b' s) = sortPairs (bigBuilder b s) :=
    canonical_unique ((sortPairs_perm _).trans (hpp.trans (sortPairs_perm _).symm))
      (sortPairs_sorted _ (nodup_of_binv hb')) (sortPairs_sorted _ (nodup_of_binv hb))
  unfold build
  rw [hs]

/-! ### non-vacuity -/

example : applySets [(7, 5), (3, 5), (9, 2), (7, 0), (4, 1), (7, 5), (4, 0)] = [(3, 5), (9, 2), (7, 5)] := by decide
example : (build (applySets [(7, 5), (3, 5), (9, 2), (7, 0), (7, 5)])).map (·.sorted) = some [(3, 5), (7, 5), (9, 2)] := by decide
example : (build (applySets [(9, 2), (7, 5), (3, 5)])).map (fun v => (ids v, weights v, idxs v, v.total))
    = some ([3, 7, 9], [5, 5, 2], [(3, 0), (7, 1), (9, 2)], 12) := by decide
example : encPairs [(3, 5), (300, 70000)] = [203, 194, 3, 5, 199, 130, 1, 44, 131, 1, 17, 112] := by decide
example : decPairs [203, 194, 3, 5, 199, 130, 1, 44, 131, 1, 17, 112] = some [(3, 5), (300, 70000)] := by decide
/-- non-canonical integers are rejected: 0x8105 (5 in long form), leading zero -/
example : decPairs [195, 194, 129, 5, 1] = none ∧ decPairs [196, 195, 130, 0, 200, 1] = none := by decide
example : bitLen (2 ^ 31 - 1) = 31 ∧ bigShift (2 ^ 31 - 1) = 0 ∧ bitLen (2 ^ 31) = 32 ∧ bigShift (2 ^ 31) = 1 := by decide
example : bigShift (2 ^ 256) = 226 ∧ 2 ^ 256 / 2 ^ 226 = 2 ^ 30 := by decide
example : (bigBuild [(1, 2 ^ 255), (2, 2 ^ 255), (3, 1)]).map (·.sorted) = some [(1, 536870912), (2, 536870912)] := by decide
/-- the limit is tight: one bit less of shift and the builder would panic -/
example : build [(1, 2 ^ 31 / 2 ^ 0)] = none := by decide

end C12
