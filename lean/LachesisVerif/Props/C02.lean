import LachesisVerif.Model.Confirm
import LachesisVerif.Model.Orderer
import LachesisVerif.Proofs.ElectionInv
import LachesisVerif.Proofs.RefEquivM
import LachesisVerif.Proofs.ApplyAtropos
/-!
# C02 — Each block delivers exactly the new ancestry of its Atropos

"For every block, the events handed to the application are exactly the ancestors-or-self of the
block's Atropos that no earlier block of the same epoch delivered, each handed over once, so no
event is delivered twice in an epoch and every delivered event's ancestors were delivered no
later. The blocks of an epoch have consecutive frame numbers starting at 1, and each block's
Atropos is a root of that frame."

Proved: the explicit-stack DFS of `confirmEvents` (model `Model.Confirm.dfs`), started on a
confirmed set that is closed under parents, delivers exactly `Reach atropos \ confirmed`, each event
once, and leaves a confirmed set that is again closed under parents (so the next block can rely on
it, and ancestors are delivered no later). Also: a frame decided by the election model is always
`frameToDecide`, and `onFrameDecided` moves `frameToDecide` to the next frame (consecutive frames,
starting at `FirstFrame` after a seal / genesis).
Termination (`C02_confirm_terminates`): the Go loop has no bound and the model carries fuel; on a DAG
given as a parents-first history (every parent has a smaller position than its child) with `n`
events and at most `k` parents per event the loop finishes within `n·(k+1) + 1` iterations from any
confirmed set (each event is confirmed at most once, a confirmation pushes at most `k` parents,
every other iteration pops a confirmed event), so with that much fuel the run always finishes;
`C02_block_total` combines this with the delivered-set theorem (total correctness).
The Atropos is a root (`C02_atropos_is_root`): in every state of the election model reachable from
`reset` by `processRoot` calls whose roots oracle returns only roots of the asked frame (labelled
with their slot validator), a returned Atropos `(f, a)` has `f = frameToDecide` and `a` is a root of
that frame whose slot validator is a member of the validator set. (That the roots table of the real
store returns exactly the registered roots is C33; that roots are registered for exactly the frames
`(selfParentFrame, frame]` is C04.)
Appended (`C02_reference_delivers`, `C02_reference_eq_model_delivered`): in a run of one epoch (no
seals) of the executable reference `Spec/Lachesis.lean` (oracle of the `cons` stream) every block
carries the Atropos of its frame by the rules (C10) and its `events` are exactly the protocol numbers
of the ancestors-or-self of that Atropos not reached from an earlier Atropos, ascending; hence they
are the protocol numbers of what the model's `confirmEvents` delivers from the confirmed set of the
earlier blocks. Several epochs / seals are not covered.
-/
namespace C02
open Model.Confirm

/-- ancestors-or-self -/
inductive Reach (parents : Nat → List Nat) : Nat → Nat → Prop
  | refl (a : Nat) : Reach parents a a
  | step {a p x : Nat} : p ∈ parents a → Reach parents p x → Reach parents a x

theorem Reach.trans_parent {parents : Nat → List Nat} {a y p : Nat} (h : Reach parents a y) (hp : p ∈ parents y) :
    Reach parents a p := by
  induction h with
  | refl a => exact .step hp (.refl p)
  | step hq _ ih => exact .step hq (ih hp)

def Closed (parents : Nat → List Nat) (c : List Nat) : Prop := ∀ y ∈ c, ∀ p ∈ parents y, p ∈ c

/-- loop invariant of the DFS -/
structure Inv (parents : Nat → List Nat) (a : Nat) (c0 stack c out : List Nat) : Prop where
  conf : ∀ x, x ∈ c ↔ (x ∈ c0 ∨ x ∈ out)
  nodup : out.Nodup
  fresh : ∀ x ∈ out, x ∉ c0
  par : ∀ y ∈ out, ∀ p ∈ parents y, p ∈ c ∨ p ∈ stack
  reachS : ∀ s ∈ stack, Reach parents a s
  reachO : ∀ y ∈ out, Reach parents a y
  root : a ∈ c ∨ a ∈ stack

theorem dfs_inv (parents : Nat → List Nat) (a : Nat) (c0 : List Nat) (fuel : Nat) (stack c out c' out' : List Nat)
    (hinv : Inv parents a c0 stack c out) (h : dfs parents fuel stack c out = some (c', out')) :
    Inv parents a c0 [] c' out' := by
  induction fuel generalizing stack c out with
  | zero =>
    cases stack with
    | nil => simp [dfs] at h; obtain ⟨rfl, rfl⟩ := h; exact hinv
    | cons w st => simp [dfs] at h
  | succ k ih =>
    cases stack with
    | nil => simp [dfs] at h; obtain ⟨rfl, rfl⟩ := h; exact hinv
    | cons w st =>
      simp only [dfs] at h
      by_cases hw : c.contains w = true
      · rw [if_pos hw] at h
        have hwc : w ∈ c := by simpa using hw
        apply ih st c out _ h
        exact { conf := hinv.conf, nodup := hinv.nodup, fresh := hinv.fresh,
                par := fun y hy p hp => by
                  rcases hinv.par y hy p hp with h1 | h1
                  · exact Or.inl h1
                  · rcases List.mem_cons.1 h1 with rfl | h2
                    · exact Or.inl hwc
                    · exact Or.inr h2,
                reachS := fun s hs => hinv.reachS s (List.mem_cons_of_mem _ hs),
                reachO := hinv.reachO,
                root := by
                  rcases hinv.root with h1 | h1
                  · exact Or.inl h1
                  · rcases List.mem_cons.1 h1 with rfl | h2
                    · exact Or.inl hwc
                    · exact Or.inr h2 }
      · rw [if_neg hw] at h
        have hwc : w ∉ c := by simpa using hw
        have hw0 : w ∉ c0 := fun hc => hwc ((hinv.conf w).2 (Or.inl hc))
        have hwo : w ∉ out := fun hc => hwc ((hinv.conf w).2 (Or.inr hc))
        have hwr : Reach parents a w := hinv.reachS w List.mem_cons_self
        apply ih ((parents w).reverse ++ st) (w :: c) (out ++ [w]) _ h
        refine { conf := ?_, nodup := ?_, fresh := ?_, par := ?_, reachS := ?_, reachO := ?_, root := ?_ }
        · intro x
          have hc := hinv.conf x
          constructor
          · intro hx
            rcases List.mem_cons.1 hx with h1 | h1
            · exact Or.inr (List.mem_append_right _ (by simp [h1]))
            · rcases hc.1 h1 with h2 | h2
              · exact Or.inl h2
              · exact Or.inr (List.mem_append_left _ h2)
          · rintro (h1 | h1)
            · exact List.mem_cons_of_mem _ (hc.2 (Or.inl h1))
            · rcases List.mem_append.1 h1 with h2 | h2
              · exact List.mem_cons_of_mem _ (hc.2 (Or.inr h2))
              · simp at h2; subst h2; exact List.mem_cons_self
        · rw [List.nodup_append]
          refine ⟨hinv.nodup, by simp, ?_⟩
          intro x hx y hy
          simp at hy; subst hy
          intro hxy; subst hxy; exact hwo hx
        · intro x hx
          rcases List.mem_append.1 hx with h1 | h1
          · exact hinv.fresh x h1
          · simp at h1; subst h1; exact hw0
        · intro y hy p hp
          rcases List.mem_append.1 hy with h1 | h1
          · rcases hinv.par y h1 p hp with h2 | h2
            · exact Or.inl (List.mem_cons_of_mem _ h2)
            · rcases List.mem_cons.1 h2 with rfl | h3
              · exact Or.inl List.mem_cons_self
              · exact Or.inr (List.mem_append_right _ h3)
          · simp at h1; subst h1
            exact Or.inr (List.mem_append_left _ (List.mem_reverse.2 hp))
        · intro s hs
          rcases List.mem_append.1 hs with h1 | h1
          · exact hwr.trans_parent (List.mem_reverse.1 h1)
          · exact hinv.reachS s (List.mem_cons_of_mem _ h1)
        · intro y hy
          rcases List.mem_append.1 hy with h1 | h1
          · exact hinv.reachO y h1
          · simp at h1; subst h1; exact hwr
        · rcases hinv.root with h1 | h1
          · exact Or.inl (List.mem_cons_of_mem _ h1)
          · rcases List.mem_cons.1 h1 with rfl | h2
            · exact Or.inl List.mem_cons_self
            · exact Or.inr (List.mem_append_right _ h2)

/-- C02 (delivered set): a finished `confirmEvents` run from an ancestor-closed confirmed set delivers
    exactly the ancestors-or-self of the Atropos not confirmed before, each once; the new confirmed
    set is the old one plus the delivered events and is ancestor-closed again. -/
theorem C02_block_delivers_new_ancestry (parents : Nat → List Nat) (fuel : Nat) (c0 : List Nat) (a : Nat)
    (c' out : List Nat) (hclosed : Closed parents c0)
    (h : confirmEvents parents fuel c0 a = some (c', out)) :
    (∀ x, x ∈ out ↔ (Reach parents a x ∧ x ∉ c0)) ∧ out.Nodup ∧
    (∀ x, x ∈ c' ↔ (x ∈ c0 ∨ x ∈ out)) ∧ Closed parents c' := by
  have hinit : Inv parents a c0 [a] c0 [] :=
    { conf := fun x => (by simp), nodup := List.nodup_nil, fresh := fun x hx => (by cases hx),
      par := fun y hy => (by cases hy), reachS := fun s hs => (by simp at hs; subst hs; exact .refl _),
      reachO := fun y hy => (by cases hy), root := Or.inr List.mem_cons_self }
  have inv := dfs_inv parents a c0 fuel [a] c0 [] c' out hinit h
  have hcl : Closed parents c' := by
    intro y hy p hp
    rcases (inv.conf y).1 hy with h1 | h1
    · exact (inv.conf p).2 (Or.inl (hclosed y h1 p hp))
    · rcases inv.par y h1 p hp with h2 | h2
      · exact h2
      · cases h2
  have hroot : a ∈ c' := by
    rcases inv.root with h1 | h1
    · exact h1
    · cases h1
  have hall : ∀ x, Reach parents a x → x ∈ c' := by
    intro x hx
    have gen : ∀ b, b ∈ c' → ∀ y, Reach parents b y → y ∈ c' := by
      intro b hb y hy
      induction hy with
      | refl b => exact hb
      | step hp _ ih => exact ih (hcl _ hb _ hp)
    exact gen a hroot x hx
  refine ⟨fun x => ⟨fun hx => ⟨inv.reachO x hx, inv.fresh x hx⟩, fun ⟨hr, hn⟩ => ?_⟩, inv.nodup, inv.conf, hcl⟩
  rcases (inv.conf x).1 (hall x hr) with h1 | h1
  · exact absurd h1 hn
  · exact h1

/-! ### termination: the DFS finishes on every finite DAG within an explicit number of iterations -/

/-- number of events below `n` that are not confirmed yet -/
def unconf (n : Nat) (c : List Nat) : Nat := (List.range n).countP (fun x => !c.contains x)

/-- counting with a pointwise smaller predicate that is moreover false at some `w ∈ l` where the
    larger one is true gives a strictly smaller count -/
theorem countP_drop (p q : Nat → Bool) (w : Nat) (l : List Nat) (hw : w ∈ l)
    (hpq : ∀ x, p x = true → q x = true) (hpw : p w = false) (hqw : q w = true) :
    l.countP p + 1 ≤ l.countP q := by
  induction l with
  | nil => cases hw
  | cons x xs ih =>
    rw [List.countP_cons, List.countP_cons]
    by_cases hxw : x = w
    · have hm : xs.countP p ≤ xs.countP q := List.countP_mono_left (fun y _ hy => hpq y hy)
      rw [hxw, hpw, hqw]
      simp only [if_true, Bool.false_eq_true, if_false]
      omega
    · have hw' : w ∈ xs := by
        rcases List.mem_cons.1 hw with h | h
        · exact absurd h.symm hxw
        · exact h
      have h1 := ih hw'
      cases hp : p x
      · cases hq : q x
        · simp only [Bool.false_eq_true, if_false]; omega
        · simp only [Bool.false_eq_true, if_false, if_true]; omega
      · rw [hpq x hp]
        simp only [if_true]; omega

theorem unconf_le (n : Nat) (c : List Nat) : unconf n c ≤ n := by
  unfold unconf
  have := List.countP_le_length (p := fun x => !c.contains x) (l := List.range n)
  simpa using this

theorem unconf_drop (n w : Nat) (c : List Nat) (hw : w < n) (hc : w ∉ c) : unconf n (w :: c) + 1 ≤ unconf n c :=
  countP_drop _ _ w (List.range n) (List.mem_range.2 hw)
    (fun x hx => by
      simp only [List.contains_cons, Bool.not_or, Bool.and_eq_true] at hx
      exact hx.2)
    (by simp) (by simpa using hc)

/-- The loop measure `|stack| + (k+1)·(unconfirmed events < n)` drops by at least one per
    iteration: a confirmed top of stack is popped; an unconfirmed one is confirmed (each event at
    most once) and replaced by its at most `k` parents. -/
theorem dfs_terminates (parents : Nat → List Nat) (n k : Nat)
    (hpar : ∀ w, w < n → ∀ p ∈ parents w, p < n) (hk : ∀ w, w < n → (parents w).length ≤ k)
    (fuel : Nat) (stack c out : List Nat) (hst : ∀ s ∈ stack, s < n)
    (hf : stack.length + (k + 1) * unconf n c ≤ fuel) :
    ∃ res, dfs parents fuel stack c out = some res := by
  induction fuel generalizing stack c out with
  | zero =>
    cases stack with
    | nil => exact ⟨(c, out), by simp [dfs]⟩
    | cons w st => simp at hf
  | succ f ih =>
    cases stack with
    | nil => exact ⟨(c, out), by simp [dfs]⟩
    | cons w st =>
      simp only [dfs]
      have hwn : w < n := hst w List.mem_cons_self
      by_cases hw : c.contains w = true
      · rw [if_pos hw]
        apply ih st c out (fun s hs => hst s (List.mem_cons_of_mem _ hs))
        simp only [List.length_cons] at hf
        omega
      · rw [if_neg hw]
        have hwc : w ∉ c := by simpa using hw
        apply ih
        · intro s hs
          rcases List.mem_append.1 hs with h1 | h1
          · exact hpar w hwn s (List.mem_reverse.1 h1)
          · exact hst s (List.mem_cons_of_mem _ h1)
        · have hd := unconf_drop n w c hwn hwc
          have hm : (k + 1) * (unconf n (w :: c) + 1) ≤ (k + 1) * unconf n c := Nat.mul_le_mul_left _ hd
          rw [Nat.mul_add, Nat.mul_one] at hm
          have hl := hk w hwn
          simp only [List.length_cons, List.length_append, List.length_reverse] at hf ⊢
          generalize (k + 1) * unconf n (w :: c) = A at *
          generalize (k + 1) * unconf n c = B at *
          omega

/-- C02 (termination): on a DAG whose events are positions in a parents-first history (every
    parent has a smaller number than its child), with at most `k` parents per event, the
    explicit-stack DFS of `confirmEvents` started at an Atropos `a < n` finishes within
    `n·(k+1) + 1` loop iterations, whatever the confirmed set is. In particular it finishes with
    any fuel `≥ (n+1)·(k+1) + 1`. -/
theorem C02_confirm_terminates (parents : Nat → List Nat) (n k fuel : Nat) (c0 : List Nat) (a : Nat)
    (hrank : ∀ w p, p ∈ parents w → p < w) (hk : ∀ w, w < n → (parents w).length ≤ k)
    (ha : a < n) (hfuel : n * (k + 1) + 1 ≤ fuel) :
    ∃ res, confirmEvents parents fuel c0 a = some res := by
  unfold confirmEvents
  apply dfs_terminates parents n k (fun w hw p hp => Nat.lt_trans (hrank w p hp) hw) hk
  · intro s hs
    simp at hs; subst hs; exact ha
  · have h1 : (k + 1) * unconf n c0 ≤ (k + 1) * n := Nat.mul_le_mul_left _ (unconf_le n c0)
    rw [Nat.mul_comm (k + 1) n] at h1
    simp only [List.length_cons, List.length_nil]
    generalize (k + 1) * unconf n c0 = A at *
    generalize n * (k + 1) = B at *
    omega

theorem C02_confirm_terminates_fuel (parents : Nat → List Nat) (n k fuel : Nat) (c0 : List Nat) (a : Nat)
    (hrank : ∀ w p, p ∈ parents w → p < w) (hk : ∀ w, w < n → (parents w).length ≤ k)
    (ha : a < n) (hfuel : (n + 1) * (k + 1) + 1 ≤ fuel) :
    ∃ res, confirmEvents parents fuel c0 a = some res := by
  apply C02_confirm_terminates parents n k fuel c0 a hrank hk ha
  have : n * (k + 1) ≤ (n + 1) * (k + 1) := Nat.mul_le_mul_right _ (Nat.le_succ n)
  omega

/-- C02 (total correctness of one block): with enough fuel the run finishes AND delivers exactly
    the ancestors-or-self of the Atropos not confirmed before, each once, leaving an
    ancestor-closed confirmed set = old set + delivered events. -/
theorem C02_block_total (parents : Nat → List Nat) (n k fuel : Nat) (c0 : List Nat) (a : Nat)
    (hrank : ∀ w p, p ∈ parents w → p < w) (hk : ∀ w, w < n → (parents w).length ≤ k)
    (ha : a < n) (hfuel : n * (k + 1) + 1 ≤ fuel) (hclosed : Closed parents c0) :
    ∃ c' out, confirmEvents parents fuel c0 a = some (c', out) ∧
      (∀ x, x ∈ out ↔ (Reach parents a x ∧ x ∉ c0)) ∧ out.Nodup ∧
      (∀ x, x ∈ c' ↔ (x ∈ c0 ∨ x ∈ out)) ∧ Closed parents c' := by
  obtain ⟨⟨c', out⟩, h⟩ := C02_confirm_terminates parents n k fuel c0 a hrank hk ha hfuel
  exact ⟨c', out, h, C02_block_delivers_new_ancestry parents fuel c0 a c' out hclosed h⟩

/-! ### frames are consecutive -/
open Model.Election Model.Orderer

theorem chooseAtroposFrom_frame (el : Election) (l : List (Nat × Nat)) (f a : Nat)
    (h : chooseAtroposFrom el l = .ok (some (f, a))) : f = el.frameToDecide := by
  induction l with
  | nil => simp [chooseAtroposFrom] at h
  | cons x xs ih =>
    obtain ⟨vid, w⟩ := x
    simp only [chooseAtroposFrom] at h
    split at h
    · cases h
    · split at h
      · simp at h; exact h.1.symm
      · exact ih h

/-- a decision of `onFrameDecided` for frame `f` makes `f + 1` the next frame to decide and `f` the
    last decided frame; a seal restarts at `FirstFrame` with no decided frame (regenerated kernels) -/
theorem onFrameDecided_next (env : Env) (s : OState) (frame atropos : Nat) (hf : frame + 1 < 4294967296) :
    (env.sealAt s.epoch frame = none →
      (onFrameDecided env s frame atropos).1.ldf = frame ∧
      (onFrameDecided env s frame atropos).1.el.frameToDecide = frame + 1 ∧
      (onFrameDecided env s frame atropos).1.epoch = s.epoch) ∧
    (∀ nv, env.sealAt s.epoch frame = some nv →
      (onFrameDecided env s frame atropos).1.ldf = 0 ∧
      (onFrameDecided env s frame atropos).1.el.frameToDecide = 1 ∧
      (onFrameDecided env s frame atropos).1.vals = nv ∧
      (onFrameDecided env s frame atropos).1.roots = []) := by
  unfold onFrameDecided
  constructor
  · intro h
    simp only [h, Gen.Orderer.nextLastDecided, Gen.Orderer.nextFrameToDecide, reset]
    exact ⟨trivial, Nat.mod_eq_of_lt hf, trivial⟩
  · intro nv h
    simp only [h, reset]
    exact ⟨by decide, by decide, trivial, trivial⟩

/-! ### the Atropos is a root of the decided frame -/

/-- "each block's Atropos is a root of that frame": `IsSlotRoot f v id` is any predicate such that the
    roots oracle only returns roots `r` of the asked frame `f` with `IsSlotRoot f r.validator r.id`;
    `ElectionProofs.Reach` = reachable from `reset vals ftd` by successful `processRoot` calls
    (arbitrary roots, arbitrary oracles per call). -/
theorem C02_atropos_is_root (IsSlotRoot : Nat → Nat → Nat → Prop) (vals : Model.Pos.Vals) (ftd : Nat)
    (hids : (vals.sorted.map (·.1)).Nodup) (hf : ftd < 4294967296) (el el' : Election)
    (hr : ElectionProofs.Reach IsSlotRoot vals ftd el)
    (observe : Nat → Nat → Bool) (frameRoots : Nat → List Root) (nr : Root)
    (hs : ElectionProofs.SoundRoots IsSlotRoot frameRoots) (hn : nr.frame < 4294967296) (f a : Nat)
    (h : processRoot observe frameRoots el nr = .ok (el', some (f, a))) :
    f = ftd ∧ ∃ v w, (v, w) ∈ vals.sorted ∧ IsSlotRoot ftd v a :=
  ElectionProofs.reach_atropos IsSlotRoot vals ftd hids hf el el' hr observe frameRoots nr hs hn f a h

/-- non-vacuity: one validator, root `10·f` in frame `f`; after the root of frame 2 has voted, the
    root of frame 3 decides and the returned Atropos `(1, 10)` is the root of frame 1 -/
example : ∃ el el', ElectionProofs.Reach (fun f v id => id = 10 * f ∧ v = 0) ⟨[(0, 1)], 1⟩ 1 el ∧
    processRoot (fun _ _ => true) (fun f => [⟨10 * f, f, 0⟩]) el ⟨30, 3, 0⟩ = .ok (el', some (1, 10)) :=
  ⟨_, _, ElectionProofs.Reach.step (res := none) (nr := ⟨20, 2, 0⟩) (observe := fun _ _ => true)
      (frameRoots := fun f => [⟨10 * f, f, 0⟩]) ElectionProofs.Reach.init
      (by intro f r hr; simp only [List.mem_singleton] at hr; subst hr; exact ⟨rfl, rfl⟩) (by decide) rfl, rfl⟩

/-! ### non-vacuity: a diamond 4 → {2,3} → 1 with event 1 already confirmed -/
example : confirmEvents (fun n => if n = 4 then [2, 3] else if n = 2 ∨ n = 3 then [1] else []) 10 [1] 4
    = some ([2, 3, 4, 1], [4, 3, 2]) := by decide

/-- the hypotheses of the termination theorem hold for this diamond (`n = 5`, `k = 2`) -/
example : ∃ res, confirmEvents (fun n => if n = 4 then [2, 3] else if n = 2 ∨ n = 3 then [1] else []) 16 [1] 4 = some res := by
  apply C02_confirm_terminates _ 5 2 16 [1] 4 _ _ (by decide) (by decide)
  · intro w p hp
    by_cases h4 : w = 4
    · subst h4; simp at hp; omega
    · by_cases h23 : w = 2 ∨ w = 3
      · simp [h4, h23] at hp; omega
      · simp [h4, h23] at hp
  · intro w _
    by_cases h4 : w = 4
    · subst h4; simp
    · by_cases h23 : w = 2 ∨ w = 3
      · simp [h4, h23]
      · simp [h4, h23]

/-! ### the executable reference (oracle of the `cons` stream) -/
section Reference
open Spec.Lachesis RefEquiv VecProofs

/-- the DAG of a reference instance: parents (as positions) of the event at position `i` -/
def refParents (s : Inst) (i : Nat) : List Nat := ((histOf s).ev i).parents

/-- `Anc` of the history of an instance is `Reach` over its parents, from any event of the instance -/
theorem anc_iff_reach {s : Inst} (hi : RefEquiv.Inv s) {a x : Nat} (ha : a < s.size) :
    Anc (histOf s) a x ↔ Reach (refParents s) a x := by
  have fwd : ∀ {a x : Nat}, Anc (histOf s) a x → Reach (refParents s) a x := by
    intro a x h
    induction h with
    | refl _ => exact .refl _
    | step _ hp _ ih => exact .step hp ih
  constructor
  · exact fwd
  · intro h
    induction h with
    | refl a => exact Anc.refl (by rw [length_histOf]; exact ha)
    | @step a p x hp _ ih =>
      have hal : a < (histOf s).length := by rw [length_histOf]; exact ha
      have := hi.pf a hal p hp
      exact Anc.step hal hp (ih (by omega))

/-- C02 for the executable reference. In a run (`RefEquiv.Run`: one epoch, no seals, checked events)
    there are positions `as[0], as[1], …` such that block `i` carries the protocol number of `as[i]`,
    `as[i]` is the Atropos of the block's frame by the rules, and the block's `events` are exactly the
    protocol numbers of the ancestors-or-self of `as[i]` that are not ancestors-or-self of an earlier
    Atropos, in ascending order; the `confirmed` mask is the union of these ancestries. -/
theorem C02_reference_delivers {ep : Nat} {rvals : List (Nat × Nat)} {evs : List Ev} {s : Inst}
    {out : List Inst.Block} (hrun : Run ep rvals evs s out) :
    ∃ as : List Nat, as.length = out.length ∧ (∀ a ∈ as, a < s.size) ∧
      (∀ i (h1 : i < as.length) (h2 : i < out.length),
        (out[i]).atropos = (s.ev as[i]).n ∧ (netOf s).IsAtropos (out[i]).frame as[i] ∧
        (∀ n, n ∈ (out[i]).events ↔ ∃ x, (s.ev x).n = n ∧ Reach (refParents s) as[i] x ∧
          ∀ a' ∈ as.take i, ¬ Reach (refParents s) a' x) ∧
        (out[i]).events.Pairwise (· ≤ ·)) ∧
      (∀ x, Spec.Lachesis.bit s.confirmed x = true ↔ ∃ a ∈ as, Reach (refParents s) a x) := by
  have hi := (run_inv hrun).good.inv
  obtain ⟨as, hl, hb, hc⟩ := reference_delivered hrun
  have hlt : ∀ a ∈ as, a < s.size := by
    intro a ha
    obtain ⟨j, hj, rfl⟩ := List.mem_iff_getElem.1 ha
    exact (hb j hj (by omega)).1
  refine ⟨as, hl, hlt, fun i h1 h2 => ?_, fun x => ?_⟩
  · obtain ⟨a1, a2, a3, a4, a5⟩ := hb i h1 h2
    refine ⟨a2, a3, fun n => ?_, a5⟩
    rw [a4 n]
    constructor
    · rintro ⟨x, hn, hx, hno⟩
      exact ⟨x, hn, (anc_iff_reach hi a1).1 hx, fun a' ha' hr =>
        hno a' ha' ((anc_iff_reach hi (hlt a' (List.mem_of_mem_take ha'))).2 hr)⟩
    · rintro ⟨x, hn, hx, hno⟩
      exact ⟨x, hn, (anc_iff_reach hi a1).2 hx, fun a' ha' hr =>
        hno a' ha' ((anc_iff_reach hi (hlt a' (List.mem_of_mem_take ha'))).1 hr)⟩
  · rw [hc x]
    constructor
    · rintro ⟨a, ha, hx⟩; exact ⟨a, ha, (anc_iff_reach hi (hlt a ha)).1 hx⟩
    · rintro ⟨a, ha, hx⟩; exact ⟨a, ha, (anc_iff_reach hi (hlt a ha)).2 hx⟩

/-- model delivered set = reference delivered set: for block `i` of a run of the reference, any
    finished `confirmEvents` run of the model on the DAG of the instance, started from a confirmed
    set holding exactly what the earlier Atropoi reach, delivers the events whose protocol numbers
    are the block's `events`, and leaves the confirmed set of the next block -/
theorem C02_reference_eq_model_delivered {ep : Nat} {rvals : List (Nat × Nat)} {evs : List Ev} {s : Inst}
    {out : List Inst.Block} (hrun : Run ep rvals evs s out) :
    ∃ as : List Nat, as.length = out.length ∧
      ∀ i (h1 : i < as.length) (h2 : i < out.length) (fuel : Nat) (c0 c' outm : List Nat),
        (∀ x, x ∈ c0 ↔ ∃ a' ∈ as.take i, Reach (refParents s) a' x) →
        confirmEvents (refParents s) fuel c0 as[i] = some (c', outm) →
        (out[i]).atropos = (s.ev as[i]).n ∧
        (∀ n, n ∈ (out[i]).events ↔ ∃ x ∈ outm, (s.ev x).n = n) ∧ outm.Nodup ∧
        (∀ x, x ∈ c' ↔ ∃ a' ∈ as.take (i + 1), Reach (refParents s) a' x) := by
  obtain ⟨as, hl, _, hb, _⟩ := C02_reference_delivers hrun
  refine ⟨as, hl, fun i h1 h2 fuel c0 c' outm hc0 hrunm => ?_⟩
  obtain ⟨a2, _, a4, _⟩ := hb i h1 h2
  have hclosed : Closed (refParents s) c0 := by
    intro y hy p hp
    obtain ⟨a', ha', hr⟩ := (hc0 y).1 hy
    exact (hc0 p).2 ⟨a', ha', hr.trans_parent hp⟩
  obtain ⟨m1, m2, m3, _⟩ := C02_block_delivers_new_ancestry (refParents s) fuel c0 as[i] c' outm hclosed hrunm
  refine ⟨a2, fun n => ?_, m2, fun x => ?_⟩
  · rw [a4 n]
    constructor
    · rintro ⟨x, hn, hx, hno⟩
      exact ⟨x, (m1 x).2 ⟨hx, fun hc => by
        obtain ⟨a', ha', hr⟩ := (hc0 x).1 hc
        exact hno a' ha' hr⟩, hn⟩
    · rintro ⟨x, hx, hn⟩
      obtain ⟨hr, hnc⟩ := (m1 x).1 hx
      exact ⟨x, hn, hr, fun a' ha' hr' => hnc ((hc0 x).2 ⟨a', ha', hr'⟩)⟩
  · rw [m3 x, hc0 x, m1 x, List.take_succ_eq_append_getElem h1]
    constructor
    · rintro (⟨a', ha', hr⟩ | ⟨hr, _⟩)
      · exact ⟨a', List.mem_append_left _ ha', hr⟩
      · exact ⟨as[i], List.mem_append_right _ List.mem_cons_self, hr⟩
    · rintro ⟨a', ha', hr⟩
      rcases List.mem_append.1 ha' with h | h
      · exact Or.inl ⟨a', h, hr⟩
      · rw [List.mem_singleton.1 h] at hr
        by_cases hx : ∃ a'' ∈ as.take i, Reach (refParents s) a'' x
        · exact Or.inl hx
        · exact Or.inr ⟨hr, fun hc => hx ((hc0 x).1 hc)⟩

/-- non-vacuity: the run of `RefEquiv.exRun1` (one validator, one accepted event) -/
example : ∃ s out, Run 1 exV1 [exE0] s out := exRun1

end Reference

/-! ### Optional callbacks (`applyAtropos`, abft/lachesis.go)

The theorems above are about `Model.Confirm` (confirmed SET, `ApplyEvent` always present).
`Model.ApplyAtropos` is the same walk over the store's confirmed-on TABLE with the application's
optional callbacks; its four conditions (`decidedFrame != 0`, `onEventConfirmed != nil`,
`BeginBlock == nil`, `EndBlock != nil`) are regenerated from the source (`Gen.Lachesis`). Which events
a block marks confirmed does not depend on whether the application listens, so a block without
`ApplyEvent` (or without `EndBlock`) changes nothing about what later blocks deliver. -/
section Callbacks
open Model.ApplyAtropos ApplyAtroposProofs

/-- C02 (callbacks): when `BeginBlock` is given, `applyAtropos` marks exactly the events
    `Model.Confirm.confirmEvents` confirms — whatever callbacks the application returned —, hands to
    `ApplyEvent` exactly the list delivered there (nothing when `ApplyEvent` is nil), fails (runs out of
    fuel) exactly when that does, and reports a seal only through a given `EndBlock`. -/
theorem C02_callbacks_irrelevant {V : Type} (parents : Nat → List Nat) (fuel frame a : Nat) (hf : frame ≠ 0)
    (cbs : Callbacks) (hb : cbs.beginBlock = true) (t : Tab) (c : List Nat) (h : Rel t c) (sr : Option V) :
    (applyAtropos parents fuel cbs frame a t sr = none ↔ Model.Confirm.confirmEvents parents fuel c a = none) ∧
    ∀ t' out r c' out', applyAtropos parents fuel cbs frame a t sr = some (t', out, r) →
      Model.Confirm.confirmEvents parents fuel c a = some (c', out') →
      Rel t' c' ∧ out = (if cbs.applyEvent then out' else []) ∧ r = (if cbs.endBlock then sr else none) := by
  unfold applyAtropos Model.Confirm.confirmEvents Gen.Lachesis.noBeginBlock Gen.Lachesis.hasEndBlock
  simp only [hb, Bool.not_true, Bool.false_eq_true, if_false]
  obtain ⟨hn, hs⟩ := dfsCb_sim parents frame hf cbs.applyEvent fuel [a] t c [] [] h
  constructor
  · rw [← hn]
    cases dfsCb parents frame cbs.applyEvent fuel [a] t [] <;> simp
  · intro t' out r c' out' e1 e2
    cases hd : dfsCb parents frame cbs.applyEvent fuel [a] t [] with
    | none => rw [hd] at e1; cases e1
    | some p =>
      rw [hd] at e1
      cases e1
      obtain ⟨r1, r2, r3⟩ := hs p.1 p.2 c' out' (by rw [hd]) e2
      refine ⟨r1, ?_, rfl⟩
      cases ha : cbs.applyEvent with
      | true => simp only [if_true]; exact r2 ha rfl
      | false => simp only [Bool.false_eq_true, if_false]; exact r3 ha

/-- without `BeginBlock` nothing is marked or delivered and the epoch is never sealed -/
theorem C02_no_begin_block {V : Type} (parents : Nat → List Nat) (fuel frame a : Nat) (cbs : Callbacks)
    (hb : cbs.beginBlock = false) (t : Tab) (sr : Option V) :
    applyAtropos parents fuel cbs frame a t sr = some (t, [], none) := by
  unfold applyAtropos Gen.Lachesis.noBeginBlock
  simp [hb]

/-- non-vacuity / sensitivity: chain 0 ← 1 ← 2; block 1 (Atropos 1) is delivered WITHOUT `ApplyEvent`,
    block 2 (Atropos 2) with it: block 2 hands over exactly event 2 -/
example :
    let par : Nat → List Nat := fun n => if n = 0 then [] else [n - 1]
    (do let (t1, _, _) ← applyAtropos (V := Unit) par 10 ⟨true, false, false⟩ 1 1 {} none
        let (_, out, _) ← applyAtropos (V := Unit) par 10 ⟨true, true, true⟩ 2 2 t1 none
        pure out) = some [2] := by decide

end Callbacks

end C02
