import LachesisVerif.Proofs.VecMerged
/-!
# C06 — Merged vector clock reports highest observed sequence or a fork

"For every indexed event and every validator, the merged view of the event's ancestry reports a
fork exactly when two different events of that validator with the same sequence number are
ancestors-or-self of the event, and otherwise the highest sequence number among that validator's
ancestor-or-self events (0 if there is none)."

Proved for the implementation-level model `Model.Vec` (run in lock-step against
`vecengine`/`vecfc`, decision kernels regenerated from the Go source): for EVERY valid history `h`
(events in any parents-first indexing order, any number of forking validators, forks of forks),
every indexed event `a` and every validator index `c`,
`merged (run nVals h) a c` (= `GetMergedHighestBefore`: the `GatherFrom` loop over the creator's
branches, or the raw entry on the no-fork fast path) is `none` iff a fork of `c` is visible in the
ancestry of `a`, and otherwise `some m` with `m` the highest seq of `c` in that ancestry.
The answer only mentions `Anc`, so it is the same for every indexing order of the same DAG.

Hypotheses: `Valid` (what the event checkers guarantee: parents indexed before, self-parent first
with seq+1, seq in [1, 2^31-2), creator a validator) and `nVals + h.length < 2^32` (the code
compares the branch count as a 32-bit value in `AtLeastOneFork`).

Proof: invariants I1 (`BranchInv`, `BranchConsec`) and I2 (`VecInv`, `VecInv2`) by induction over
`Valid` (`Proofs/VecHB*.lean`), then `Proofs/VecMerged.lean`.
-/
namespace C06
open Model.Vec VecProofs

/-- C06, both clauses, both code paths of `GetMergedHighestBefore` -/
theorem C06_merged_eq_spec {nVals : Nat} {h : Hist} {a c : Nat} (hv : Valid nVals h)
    (hsz : nVals + h.length < 4294967296) (ha : a < h.length) (hc : c < nVals) :
    ((run nVals h).merged a c = none ↔ ForkSeen h a c) ∧
    (∀ m, (run nVals h).merged a c = some m ↔ (¬ ForkSeen h a c ∧ MaxSeq h a c m)) := by
  obtain ⟨nBrAt, A⟩ := allInv_of_valid hv hsz
  have hlt : (run nVals h).nBr < 4294967296 := by have := A.nBr_le; omega
  exact merged_spec hv A.bi A.vi A.vi2 hlt ha (by rw [A.nVals_eq]; exact hc)

/-- the result is always determined: a fork, or exactly one number -/
theorem C06_merged_total {nVals : Nat} {h : Hist} {a c : Nat} (hv : Valid nVals h)
    (hsz : nVals + h.length < 4294967296) (ha : a < h.length) (hc : c < nVals) :
    ForkSeen h a c ∨ ∃ m, (run nVals h).merged a c = some m ∧ MaxSeq h a c m := by
  obtain ⟨h1, h2⟩ := C06_merged_eq_spec hv hsz ha hc
  cases hm : (run nVals h).merged a c with
  | none => exact Or.inl (h1.1 hm)
  | some m => exact Or.inr ⟨m, rfl, ((h2 m).1 hm).2⟩

/-! ## Non-vacuity: a history with a three-way fork and a fork of a fork -/

/-- validators 0,1,2. Validator 0 creates three different first events (three-way fork), then two
    different second events on top of the first one (a fork of a fork). -/
def hist : Hist :=
  [ ⟨0, 1, []⟩,          -- 0: A1
    ⟨0, 1, []⟩,          -- 1: A1'   (fork)
    ⟨0, 1, []⟩,          -- 2: A1''  (three-way fork)
    ⟨1, 1, [0]⟩,         -- 3: B1 sees A1
    ⟨1, 2, [3, 1]⟩,      -- 4: B2 sees A1, A1'
    ⟨0, 2, [0]⟩,         -- 5: A2 on A1
    ⟨0, 2, [0]⟩,         -- 6: A2' on A1 (fork of a fork)
    ⟨2, 1, [5]⟩,         -- 7: C1 sees A1, A2 only
    ⟨2, 2, [7, 6, 2]⟩ ]  -- 8: C2 sees everything of validator 0 except A1'

/-- `ValidNext` of an event with seq 1 -/
macro "vn_first" : tactic =>
  `(tactic| exact ⟨by decide, by decide, by decide, by decide, by decide, fun hlt => absurd hlt (by decide)⟩)
/-- `ValidNext` of an event with seq > 1, self-parent `sp`, other parents `ps` -/
macro "vn_next" sp:term "," ps:term : tactic =>
  `(tactic| exact ⟨by decide, by decide, by decide, by decide, by decide,
      fun _ => ⟨$sp, $ps, rfl, by decide, by decide, by decide⟩⟩)

/-- the hypotheses of the theorem are satisfiable on this history -/
theorem hist_valid : Valid 3 hist := by
  have v0 : Valid 3 (hist.take 0) := Valid.nil
  have v1 : Valid 3 (hist.take 1) := Valid.snoc (h := hist.take 0) (e := hist.ev 0) v0 (by vn_first)
  have v2 : Valid 3 (hist.take 2) := Valid.snoc (h := hist.take 1) (e := hist.ev 1) v1 (by vn_first)
  have v3 : Valid 3 (hist.take 3) := Valid.snoc (h := hist.take 2) (e := hist.ev 2) v2 (by vn_first)
  have v4 : Valid 3 (hist.take 4) := Valid.snoc (h := hist.take 3) (e := hist.ev 3) v3 (by vn_first)
  have v5 : Valid 3 (hist.take 5) := Valid.snoc (h := hist.take 4) (e := hist.ev 4) v4 (by vn_next 3, [1])
  have v6 : Valid 3 (hist.take 6) := Valid.snoc (h := hist.take 5) (e := hist.ev 5) v5 (by vn_next 0, [])
  have v7 : Valid 3 (hist.take 7) := Valid.snoc (h := hist.take 6) (e := hist.ev 6) v6 (by vn_next 0, [])
  have v8 : Valid 3 (hist.take 8) := Valid.snoc (h := hist.take 7) (e := hist.ev 7) v7 (by vn_first)
  exact Valid.snoc (h := hist.take 8) (e := hist.ev 8) v8 (by vn_next 7, [6, 2])

/-- the index opened three extra branches: A1', A1'' and A2' -/
example : (run 3 hist).nBr = 6 ∧ (run 3 hist).atLeastOneFork = true := by decide

/-- C2 (event 8) sees the three-way fork / fork of a fork of validator 0: the model says "fork"
    and, by the theorem, the graph definition agrees -/
example : (run 3 hist).merged 8 0 = none := by decide
example : ForkSeen hist 8 0 :=
  (C06_merged_eq_spec hist_valid (by decide) (by decide) (by decide)).1.1 (by decide)
/-- C1 (event 7) sees only A1, A2: no fork, highest seq 2 -/
example : ¬ ForkSeen hist 7 0 ∧ MaxSeq hist 7 0 2 :=
  ((C06_merged_eq_spec hist_valid (by decide) (by decide) (by decide)).2 2).1 (by decide)
/-- B2 (event 4) sees A1 and A1' (fork) and nothing of validator 2 (highest seq 0) -/
example : ForkSeen hist 4 0 :=
  (C06_merged_eq_spec hist_valid (by decide) (by decide) (by decide)).1.1 (by decide)
example : ¬ ForkSeen hist 4 2 ∧ MaxSeq hist 4 2 0 :=
  ((C06_merged_eq_spec hist_valid (by decide) (by decide) (by decide)).2 0).1 (by decide)
/-- the answer for an unforked validator on the `GatherFrom` path -/
example : (run 3 hist).merged 8 1 = some 0 ∧ (run 3 hist).merged 8 2 = some 2 := by decide

/-- a fork-free history exercises the fast path (raw vector entry) -/
def histNoFork : Hist := [⟨0, 1, []⟩, ⟨1, 1, [0]⟩, ⟨0, 2, [0, 1]⟩]

theorem histNoFork_valid : Valid 2 histNoFork := by
  have v0 : Valid 2 (histNoFork.take 0) := Valid.nil
  have v1 : Valid 2 (histNoFork.take 1) :=
    Valid.snoc (h := histNoFork.take 0) (e := histNoFork.ev 0) v0 (by vn_first)
  have v2 : Valid 2 (histNoFork.take 2) :=
    Valid.snoc (h := histNoFork.take 1) (e := histNoFork.ev 1) v1 (by vn_first)
  exact Valid.snoc (h := histNoFork.take 2) (e := histNoFork.ev 2) v2 (by vn_next 0, [1])

example : (run 2 histNoFork).atLeastOneFork = false ∧ (run 2 histNoFork).merged 2 1 = some 1 ∧
    (run 2 histNoFork).merged 2 0 = some 2 ∧ (run 2 histNoFork).merged 0 1 = some 0 := by decide
example : ¬ ForkSeen histNoFork 2 0 ∧ MaxSeq histNoFork 2 0 2 :=
  ((C06_merged_eq_spec histNoFork_valid (by decide) (by decide) (by decide)).2 2).1 (by decide)

end C06
