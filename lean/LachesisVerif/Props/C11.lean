import LachesisVerif.Model.Pos
/-!
# C11 — Quorum arithmetic is safe for every validator set

"For every non-empty validator set, the quorum equals floor(2·total/3)+1 computed without
overflow; the whole set reaches it, no subset holding at most two thirds of the total reaches
it, and any two subsets that each reach it share more than one third of the total weight. A
weight counter adds each validator's weight at most once and reports a quorum exactly when the
counted weight reaches it."

`Gen.Pos.quorum`, `Gen.Pos.overLimit`, `Gen.Pos.hasQuorum`, `Gen.Pos.counterAdd` are
regenerated from `inter/pos` on every run; the statements below are about those definitions.
Subsets of a validator set are Boolean masks over the canonical order.
-/
namespace C11
open Model.Pos

/-- weight of the masked validators -/
def msum : List Nat → List Bool → Nat
  | w :: ws, b :: bs => (if b then w else 0) + msum ws bs
  | _, _ => 0

def mand : List Bool → List Bool → List Bool
  | a :: as, b :: bs => (a && b) :: mand as bs
  | _, _ => []

/-- The limit enforced by `calcCaches` (regenerated): a total passes iff it is ≤ 2^31-1. -/
theorem limit_is_maxint32 (t : Nat) : Gen.Pos.overLimit t = false ↔ t ≤ 2147483647 := by
  unfold Gen.Pos.overLimit
  simp only [decide_eq_false_iff_not]
  omega

/-- The quorum is floor(2·total/3)+1 and the uint32 computation does not overflow. -/
theorem quorum_no_overflow (t : Nat) (h : Gen.Pos.overLimit t = false) :
    Gen.Pos.quorum t = 2 * t / 3 + 1 := by
  have ht := (limit_is_maxint32 t).1 h
  unfold Gen.Pos.quorum
  have h1 : t * 2 % 4294967296 = t * 2 := Nat.mod_eq_of_lt (by omega)
  have h2 : (t * 2 / 3 + 1) % 4294967296 = t * 2 / 3 + 1 := Nat.mod_eq_of_lt (by omega)
  rw [h1, h2]
  omega

/-- The whole (non-empty, hence positive-weight) set reaches the quorum. -/
theorem whole_set_reaches (t : Nat) (h : Gen.Pos.overLimit t = false) (hpos : 1 ≤ t) :
    Gen.Pos.hasQuorum t (Gen.Pos.quorum t) = true := by
  rw [quorum_no_overflow t h]
  unfold Gen.Pos.hasQuorum
  simp only [decide_eq_true_eq]
  omega

/-- No subset holding at most two thirds of the total reaches the quorum. -/
theorem two_thirds_not_enough (t w : Nat) (h : Gen.Pos.overLimit t = false) (hw : 3 * w ≤ 2 * t) :
    Gen.Pos.hasQuorum w (Gen.Pos.quorum t) = false := by
  rw [quorum_no_overflow t h]
  unfold Gen.Pos.hasQuorum
  simp only [decide_eq_false_iff_not]
  omega

theorem msum_le_sum (ws : List Nat) (m : List Bool) : msum ws m ≤ ws.sum := by
  induction ws generalizing m with
  | nil => cases m <;> simp [msum]
  | cons w ws ih =>
    cases m with
    | nil => simp [msum]
    | cons b bs =>
      have := ih bs
      simp only [msum, List.sum_cons]
      split <;> omega

theorem msum_inclusion_exclusion (ws : List Nat) (m₁ m₂ : List Bool) :
    msum ws m₁ + msum ws m₂ ≤ msum ws (mand m₁ m₂) + ws.sum := by
  induction ws generalizing m₁ m₂ with
  | nil => cases m₁ <;> cases m₂ <;> simp [msum]
  | cons w ws ih =>
    cases m₁ with
    | nil =>
      have := msum_le_sum (w :: ws) m₂
      simp only [msum, mand, Nat.zero_add] at *
      cases m₂ <;> simp [msum] at * <;> omega
    | cons a as =>
      cases m₂ with
      | nil =>
        have := msum_le_sum (w :: ws) (a :: as)
        simp only [msum, mand, List.sum_cons] at *
        omega
      | cons b bs =>
        have := ih as bs
        simp only [msum, mand, List.sum_cons]
        cases a <;> cases b <;> simp <;> omega

/-- Any two subsets that each reach the quorum share more than one third of the total weight. -/
theorem quorum_intersection (ws : List Nat) (m₁ m₂ : List Bool)
    (h : Gen.Pos.overLimit ws.sum = false)
    (h₁ : Gen.Pos.hasQuorum (msum ws m₁) (Gen.Pos.quorum ws.sum) = true)
    (h₂ : Gen.Pos.hasQuorum (msum ws m₂) (Gen.Pos.quorum ws.sum) = true) :
    3 * msum ws (mand m₁ m₂) > ws.sum := by
  rw [quorum_no_overflow _ h] at h₁ h₂
  unfold Gen.Pos.hasQuorum at h₁ h₂
  simp only [decide_eq_true_eq] at h₁ h₂
  have := msum_inclusion_exclusion ws m₁ m₂
  omega

/-! ### the weight counter -/

/-- weights in canonical order -/
def weights (v : Vals) : List Nat := v.sorted.map (·.2)

theorem weightByIdx_eq (v : Vals) (i : Nat) : v.weightByIdx i = (weights v).getD i 0 := by
  unfold Vals.weightByIdx weights
  simp [List.getD_eq_getElem?_getD, List.getElem?_map]
  cases v.sorted[i]? <;> simp

theorem msum_set_true (ws : List Nat) (m : List Bool) (i : Nat) (hi : i < m.length) (hlen : m.length = ws.length)
    (hfalse : m.getD i false = false) :
    msum ws (m.set i true) = msum ws m + ws.getD i 0 := by
  induction ws generalizing m i with
  | nil => simp at hlen; subst hlen; simp at hi
  | cons w ws ih =>
    cases m with
    | nil => simp at hi
    | cons b bs =>
      cases i with
      | zero =>
        simp at hfalse
        subst hfalse
        simp [msum]
        omega
      | succ j =>
        simp only [List.length_cons, Nat.add_lt_add_iff_right] at hi
        simp only [List.length_cons, Nat.add_right_cancel_iff] at hlen
        have hf : bs.getD j false = false := by simpa using hfalse
        have := ih bs j hi hlen hf
        simp only [List.set_cons_succ, msum, List.getD_cons_succ, this]
        omega

/-- counter invariant: `already` is a mask over the set and `sum` is the weight of the marked -/
structure CInv (v : Vals) (c : Counter) : Prop where
  len : c.already.length = v.len
  sum : c.sum = msum (weights v) c.already

theorem newCounter_inv (v : Vals) : CInv v v.newCounter := by
  constructor
  · simp [Vals.newCounter]
  · simp only [Vals.newCounter]
    generalize weights v = ws
    generalize v.len = n
    induction n generalizing ws with
    | zero => cases ws <;> simp [msum]
    | succ k ih =>
      cases ws with
      | nil => simp [msum]
      | cons w ws => simp only [msum, List.replicate_succ]; simpa using ih ws

/-- `CountByIdx` adds the validator's weight exactly when it was not counted before, never
    overflows, and keeps the invariant. -/
theorem countByIdx_spec (v : Vals) (c : Counter) (i : Nat) (hv : (weights v).sum = v.total)
    (hlim : Gen.Pos.overLimit v.total = false) (hi : i < v.len) (inv : CInv v c) :
    CInv v (countByIdx v c i).1 ∧
    (c.already.getD i false = true → countByIdx v c i = (c, false)) ∧
    (c.already.getD i false = false →
       (countByIdx v c i).2 = true ∧ (countByIdx v c i).1.sum = c.sum + v.weightByIdx i ∧
       (countByIdx v c i).1.already = c.already.set i true) := by
  have hlen := inv.len
  have hwl : (weights v).length = v.len := by simp [weights, Vals.len]
  by_cases hal : c.already.getD i false = true
  · have e : countByIdx v c i = (c, false) := by unfold countByIdx; rw [if_pos hal]
    rw [e]
    exact ⟨inv, fun _ => rfl, fun h => by rw [hal] at h; cases h⟩
  · have hal' : c.already.getD i false = false := by simpa using hal
    have hset := msum_set_true (weights v) c.already i (by omega) (by omega) hal'
    have hle := msum_le_sum (weights v) (c.already.set i true)
    have ht := (limit_is_maxint32 _).1 hlim
    have hsum : Gen.Pos.counterAdd c.sum (v.weightByIdx i) = c.sum + v.weightByIdx i := by
      unfold Gen.Pos.counterAdd
      rw [weightByIdx_eq, inv.sum]
      apply Nat.mod_eq_of_lt
      omega
    have e : countByIdx v c i =
        ({ already := c.already.set i true, sum := c.sum + v.weightByIdx i }, true) := by
      unfold countByIdx; rw [if_neg hal, hsum]
    rw [e]
    refine ⟨⟨by simp [hlen], ?_⟩, fun h => (by rw [h] at hal'; cases hal'), fun _ => ⟨rfl, rfl, rfl⟩⟩
    show c.sum + v.weightByIdx i = msum (weights v) (c.already.set i true)
    rw [hset, inv.sum, weightByIdx_eq]

/-- After any sequence of `CountByIdx` calls (valid indices) the sum is the weight of the marked
    validators — each added at most once — it is bounded by the total (no overflow), and
    `HasQuorum` holds exactly when the counted weight reaches the quorum floor(2·total/3)+1. -/
theorem counter_sum_eq (v : Vals) (is : List Nat) (hv : (weights v).sum = v.total)
    (hlim : Gen.Pos.overLimit v.total = false) (his : ∀ i ∈ is, i < v.len) :
    let c := is.foldl (fun c i => (countByIdx v c i).1) v.newCounter
    CInv v c ∧ c.sum ≤ v.total ∧
    (hasQuorum v c = true ↔ msum (weights v) c.already ≥ 2 * v.total / 3 + 1) := by
  have key : ∀ (c : Counter), CInv v c → CInv v (is.foldl (fun c i => (countByIdx v c i).1) c) := by
    induction is with
    | nil => intro c h; simpa using h
    | cons i rest ih =>
      intro c h
      simp only [List.foldl_cons]
      apply ih (fun j hj => his j (List.mem_cons_of_mem _ hj))
      exact (countByIdx_spec v c i hv hlim (his i List.mem_cons_self) h).1
  have inv := key _ (newCounter_inv v)
  refine ⟨inv, ?_, ?_⟩
  · have := msum_le_sum (weights v) (is.foldl (fun c i => (countByIdx v c i).1) v.newCounter).already
    rw [inv.sum]; omega
  · unfold hasQuorum Vals.quorum
    rw [quorum_no_overflow _ hlim, inv.sum]
    unfold Gen.Pos.hasQuorum
    simp

/-- `Count` by validator id is `CountByIdx` at the id's canonical index (unknown ids read
    index 0, as Go's missing-key map read does). -/
theorem count_eq (v : Vals) (c : Counter) (id : Nat) : count v c id = countByIdx v c (v.idxOf id) := rfl

/-! ### the model's total agrees with the checked sum (ties `hv` above to `build`) -/

theorem sumChecked_eq (ps : Pairs) (t r : Nat) (ht : t < 4294967296)
    (hp : ∀ p ∈ ps, p.2 < 4294967296) (h : sumChecked ps t = some r) :
    r = t + (ps.map (·.2)).sum ∧ r < 4294967296 := by
  induction ps generalizing t with
  | nil => simp [sumChecked] at h; subst h; simp; exact ht
  | cons p ps ih =>
    simp only [sumChecked, Gen.Pos.sumWrapped] at h
    have hp2 := hp p List.mem_cons_self
    by_cases hw : (t + p.2) % 4294967296 < t
    · simp [hw] at h
    · simp only [hw, decide_false, Bool.false_eq_true, if_false] at h
      have hnw : t ≤ (t + p.2) % 4294967296 := Nat.le_of_not_lt hw
      have hlt : (t + p.2) % 4294967296 < 4294967296 := Nat.mod_lt _ (by decide)
      have := ih _ hlt (fun q hq => hp q (List.mem_cons_of_mem _ hq)) h
      have hno : (t + p.2) % 4294967296 = t + p.2 := by omega
      simp only [List.map_cons, List.sum_cons]
      omega

/-- `build` succeeds exactly with the true total of the (uint32) weights, which is ≤ 2^31-1;
    in particular a successfully built set satisfies the hypotheses of `counter_sum_eq`. -/
theorem build_total (b : Pairs) (v : Vals) (hb : ∀ p ∈ sortPairs b, p.2 < 4294967296) (h : build b = some v) :
    (weights v).sum = v.total ∧ Gen.Pos.overLimit v.total = false := by
  unfold build total at h
  simp only [Option.map_eq_some_iff] at h
  obtain ⟨t, ht, hv⟩ := h
  split at ht
  · simp at ht
  · rename_i t' hs
    split at ht
    · simp at ht
    · rename_i hlim
      simp at ht
      subst ht
      have := sumChecked_eq (sortPairs b) 0 t' (by decide) hb hs
      subst hv
      simp only [weights]
      constructor
      · omega
      · simpa using hlim

/-! ### non-vacuity -/

example : (build [(3, 3), (11, 4)]).map (fun v => (v.sorted, v.total)) = some ([(11, 4), (3, 3)], 7) := by decide
example : Gen.Pos.quorum 7 = 5 ∧ Gen.Pos.overLimit 7 = false := by decide
example : Gen.Pos.quorum 2147483647 = 1431655765 := by decide
/-- the limit is tight: one above it the uint32 computation *would* be wrong -/
example : Gen.Pos.quorum 2147483648 ≠ 2 * 2147483648 / 3 + 1 := by decide

end C11
