import LachesisVerif.Gen.FactsC15w
import LachesisVerif.Gen.FactsC15b
/-!
# Structural expectations for C15 (regenerated facts `Gen.FactsC15b`)

Split out of the family survey (`notes/facts-gossip-notes.md` lists what the selectors cannot express).
Each theorem states the expected value of Bool facts regenerated from the Go source by
`go/cmd/extract` (selectors `hascall:`, `topcall:`, `topassign:`, `before:`); a statement that is
dropped, guarded or reordered flips a fact and breaks the theorem.
-/
namespace FactsC15

/-- `dagprocessor.New` — `Model.Processor.relTag`: the `Released` wrapper (semaphore `Release`, then the
    application) is installed unconditionally, BEFORE the callbacks are copied (by value) into the ordering
    buffer and into `f.callback`; otherwise releases made by the buffer or by `process()` would not return
    their weight and the semaphore would never go back to zero (`C15_semaphore_balanced`). -/
theorem wrapper_structure :
    Gen.FactsC15b.wrapperInstalled = true ∧ Gen.FactsC15b.wrapperReleasesSemaphore = true ∧
    Gen.FactsC15b.wrapperBeforeBuffer = true ∧ Gen.FactsC15b.wrapperBeforeStore = true := by decide

/-- `Enqueue`, `process`, `Stop` — `Model.Processor.enqueue`, `handle`, `stop`: the batch weight is acquired
    before any task is queued; `process()` releases rejected / too-far events itself and pushes every other
    event unconditionally (each accepted event is released exactly once, by one of the three paths); `Stop`
    clears the buffer unconditionally ("released by the time the processor is stopped"; the order
    Terminate < Wait < Clear is `Gen.FactsC15`). -/
theorem processor_structure :
    Gen.FactsC15b.enqueueAcquiresFirst = true ∧ Gen.FactsC15b.processPushesAtTop = true ∧
    Gen.FactsC15b.processReleasesRejected = true ∧ Gen.FactsC15b.stopClearsAlways = true := by decide

/-- `datasemaphore`, `workers` — `Model.Processor.Sem.tryAcquire` / `Sem.terminate` and the eager single
    inserter: `tryAcquire` stores the new amount at top level (after both refusing returns); `Terminate`
    zeroes the capacity unconditionally (no batch is accepted after `Stop`); a worker is added to the wait
    group before its goroutine starts (so `Stop`'s `wg.Wait` really waits for the inserter before `Clear`)
    and runs the task it dequeued. -/
theorem semaphore_workers_structure :
    Gen.FactsC15b.tryAcquireCommits = true ∧ Gen.FactsC15b.terminateZeroesCapacity = true ∧
    Gen.FactsC15b.workersAddBeforeGo = true ∧ Gen.FactsC15b.workerRunsJob = true := by decide

end FactsC15

/-- `utils/workers`: `Enqueue` neither starts a goroutine nor has a non-blocking `default` branch — the
    single inserter of `Model.Processor` handles checked events strictly one after another. -/
theorem FactsC15.inserter_queue_fifo :
    Gen.FactsC15w.enqueueSpawns = false ∧ Gen.FactsC15w.enqueueNonBlocking = false := by decide
