import LachesisVerif.Proofs.Ancestor
import LachesisVerif.Gen.Check
import LachesisVerif.Props.C11
/-!
# C20 — Quorum indexer medians and metrics follow their definition

"For each validator, the median reported by the quorum indexer is the largest sequence number s
such that validators holding at least a quorum of weight have, in their latest processed events,
observed that validator at s or above (a detected fork counts as the maximal observation). The
metric of a candidate parent is the sum over validators of the diff function applied to that
median, the node's own latest observation, and the candidate's observation."

Quantifier: all DAGs (with forks), weights, event processing histories and self/non-self flags.

Model (`Model.Ancestor`): the indexer state with total functions for the matrix and the vectors;
the DAG index is an input (`hb v` = merged highest-before entry of the event for validator `v`,
with fork marker), the diff function is an arbitrary function, `sort.Slice` is an arbitrary
function `sorter` returning a permutation ordered by the regenerated less function
(`SorterOk` — the tie order is free). Loop conditions, `seqOf`'s fork value, the stop test and the
uint32 running sum of `wmedian.Of`, the uint64 metric sum and the dirty tests are regenerated
kernels (`Gen.Emitter`). `IsMedian l q m` says: `m` is the maximum of `{s | weight{i | lᵢ ≥ s} ≥ q}`.
Parameters: `WF n w quorum` = 1 ≤ quorum ≤ total weight < 2^32 (C11: every non-empty validator
set satisfies it with total ≤ 2^31-1).
-/
namespace C20
open Model.Ancestor Proofs.Ancestor

/-- `IsMedian` is literally "the maximum of {s | weight {i | valueᵢ ≥ s} ≥ q}". -/
theorem isMedian_iff_max (l : List (Nat × Nat)) (q m : Nat) :
    IsMedian l q m ↔ (weightGE l m ≥ q ∧ ∀ s, weightGE l s ≥ q → s ≤ m) := by
  unfold IsMedian
  constructor
  · intro ⟨h1, h2⟩
    refine ⟨h1, fun s hs => ?_⟩
    apply Nat.le_of_not_lt
    intro h
    have := h2 s h
    omega
  · intro ⟨h1, h2⟩
    refine ⟨h1, fun s hs => ?_⟩
    apply Nat.lt_of_not_le
    intro h
    have := h2 s h
    omega

/-- `wmedian.Of` applied to the pairs sorted descending by value — for *any* tie order
    `sort.Slice` may produce — never panics when 1 ≤ stop ≤ total weight, and returns
    max {s | weight{i | valueᵢ ≥ s} ≥ stop}. -/
theorem median_is_max (pairs sorted : List (Nat × Nat)) (hperm : sorted.Perm pairs) (hs : SortedDesc sorted)
    (stop : Nat) (h1 : 1 ≤ stop) (h2 : stop ≤ weight pairs) (h3 : weight pairs < 4294967296) :
    ∃ m, wmedianFrom sorted 0 stop = some m ∧ IsMedian pairs stop m := by
  have hw := weight_perm hperm
  have := wmedianFrom_spec stop sorted [] (by simpa using hs) (by simp [weight]; omega)
    (by simp; omega) (by simp; omega)
  obtain ⟨m, h, hm⟩ := this
  exact ⟨m, by simpa [weight] using h, isMedian_perm (by simpa using hperm) stop m hm⟩

/-- the median is determined by the pairs alone -/
theorem median_unique (l : List (Nat × Nat)) (q m₁ m₂ : Nat) (h₁ : IsMedian l q m₁) (h₂ : IsMedian l q m₂) :
    m₁ = m₂ := isMedian_unique l q m₁ m₂ h₁ h₂

/-- the model's own sort is an admissible `sort.Slice` -/
theorem model_sorter_ok : SorterOk sortDesc := sortDesc_ok

/-- A detected fork counts as the value `2^31-2`, which is above every sequence number the event
    checks admit (`Gen.Check.hugeValue`, regenerated from basiccheck): the maximal observation. -/
theorem fork_counts_as_maximal :
    (∀ s : Seq, s.fork = true → seqOf s = 2147483646) ∧ (∀ s : Seq, s.fork = false → seqOf s = s.seq) ∧
    ∀ seq epoch frame lamport, Gen.Check.hugeValue seq epoch frame lamport = false → seq < Gen.Emitter.forkSeq := by
  refine ⟨?_, ?_, ?_⟩
  · intro s h; unfold seqOf Gen.Emitter.seqIsFork Gen.Emitter.forkSeq; rw [h]; rfl
  · intro s h; unfold seqOf Gen.Emitter.seqIsFork; rw [h]; rfl
  · intro seq epoch frame lamport h
    unfold Gen.Check.hugeValue at h
    unfold Gen.Emitter.forkSeq
    simp only [Bool.or_eq_false_iff, decide_eq_false_iff_not] at h
    omega

/-- Every non-empty validator set `Build` accepts (C11: total within the weight limit) satisfies
    the parameter assumption with its own quorum: the indexer never panics on real validator sets. -/
theorem wf_of_validator_set (n : Nat) (w : Nat → Nat) (h1 : 1 ≤ sumTo n w)
    (h2 : Gen.Pos.overLimit (sumTo n w) = false) : WF n w (Gen.Pos.quorum (sumTo n w)) := by
  have hq := C11.quorum_no_overflow _ h2
  have hl := (C11.limit_is_maxint32 _).1 h2
  rw [hq]
  exact ⟨by omega, by omega, by omega⟩

/-! ### histories -/

/-- the observation of validator `v` in the latest processed event of creator `c` (`init` before) -/
def obsMatrix (ops : List Op) (v c init : Nat) : Nat :=
  ops.foldl (fun acc op => match op with
    | .process hb c' _ => if c' = c then seqOf (hb v) else acc
    | _ => acc) init

/-- the node's own latest observation of validator `v`: from the latest self event -/
def obsSelf (ops : List Op) (v init : Nat) : Nat :=
  ops.foldl (fun acc op => match op with
    | .process hb _ true => seqOf (hb v)
    | _ => acc) init

theorem good_new (n : Nat) (w : Nat → Nat) (quorum : Nat) : Good n w quorum (newQI n w quorum) :=
  ⟨rfl, rfl, rfl, fun h => by simp [newQI] at h⟩

/-- one operation keeps the invariant, never panics, and changes matrix / self vector exactly as
    the definition of "latest processed event" says -/
theorem step_spec (sorter : List (Nat × Nat) → List (Nat × Nat)) (hs : SorterOk sorter)
    (diff : Nat → Nat → Nat → Nat → Nat) (n : Nat) (w : Nat → Nat) (quorum : Nat) (wf : WF n w quorum)
    (q : QI) (hg : Good n w quorum q) (op : Op) :
    ∃ q', stepOp sorter diff q op = some q' ∧ Good n w quorum q' ∧
      (∀ v, v < n → ∀ c, q'.matrix v c = obsMatrix [op] v c (q.matrix v c)) ∧
      (∀ v, v < n → q'.selfSeqs v = obsSelf [op] v (q.selfSeqs v)) := by
  cases op with
  | process hb c self =>
    have hp := processEvent_spec q hb c self
    refine ⟨processEvent q hb c self, rfl, ⟨hp.1.trans hg.hn, hp.2.1.trans hg.hw, hp.2.2.1.trans hg.hq, ?_⟩, ?_, ?_⟩
    · intro hd; rw [hp.2.2.2.2.1] at hd; cases hd
    · intro v hv c'
      rw [hp.2.2.2.2.2.1 v c', hg.hn]
      simp only [obsMatrix, List.foldl_cons, List.foldl_nil]
      by_cases hc : c = c'
      · simp [hv, hc]
      · have : ¬ c' = c := fun e => hc e.symm
        simp [hc, this]
    · intro v hv
      rw [hp.2.2.2.2.2.2 v, hg.hn]
      cases self <;> simp [obsSelf, hv]
  | medians =>
    obtain ⟨q', h0, hg', hm, hsf, _⟩ := clean_spec sorter hs n w quorum wf q hg
    refine ⟨q', ?_, hg', fun v _ c => by rw [hm]; rfl, fun v _ => by rw [hsf]; rfl⟩
    unfold stepOp getMedians Gen.Emitter.mediansDirty
    rw [h0]; rfl
  | metric hb =>
    obtain ⟨q', h0, hg', hm, hsf, _⟩ := clean_spec sorter hs n w quorum wf q hg
    refine ⟨q', ?_, hg', fun v _ c => by rw [hm]; rfl, fun v _ => by rw [hsf]; rfl⟩
    unfold stepOp getMetric Gen.Emitter.metricDirty
    rw [h0]; rfl

/-- After any history of ProcessEvent / GetGlobalMedianSeqs / GetMetricOf calls the indexer has not
    panicked; `matrix[v][c]` is the observation of `v` in the latest processed event of creator `c`
    (0 before any), the self vector comes from the latest self event, and whenever the state is
    clean the cached medians are the medians of the current matrix (dirty-flag coherence). -/
theorem history (sorter : List (Nat × Nat) → List (Nat × Nat)) (hs : SorterOk sorter)
    (diff : Nat → Nat → Nat → Nat → Nat) (n : Nat) (w : Nat → Nat) (quorum : Nat) (wf : WF n w quorum)
    (ops : List Op) :
    ∃ q, run sorter diff (newQI n w quorum) ops = some q ∧ Good n w quorum q ∧
      (∀ v, v < n → ∀ c, q.matrix v c = obsMatrix ops v c 0) ∧
      (∀ v, v < n → q.selfSeqs v = obsSelf ops v 0) := by
  suffices h : ∀ (ops : List Op) (q0 : QI), Good n w quorum q0 →
      ∃ q, run sorter diff q0 ops = some q ∧ Good n w quorum q ∧
        (∀ v, v < n → ∀ c, q.matrix v c = obsMatrix ops v c (q0.matrix v c)) ∧
        (∀ v, v < n → q.selfSeqs v = obsSelf ops v (q0.selfSeqs v)) from
    h ops _ (good_new n w quorum)
  intro ops
  induction ops with
  | nil => intro q0 hg; exact ⟨q0, rfl, hg, fun _ _ _ => rfl, fun _ _ => rfl⟩
  | cons op ops ih =>
    intro q0 hg
    obtain ⟨q1, h1, hg1, hm1, hs1⟩ := step_spec sorter hs diff n w quorum wf q0 hg op
    obtain ⟨q, h2, hg2, hm2, hs2⟩ := ih q1 hg1
    refine ⟨q, ?_, hg2, ?_, ?_⟩
    · unfold run; rw [h1]; exact h2
    · intro v hv c
      rw [hm2 v hv c, hm1 v hv c]
      simp [obsMatrix]
    · intro v hv
      rw [hs2 v hv, hs1 v hv]
      simp [obsSelf]

/-- The medians reported after any history follow the definition: entry `v` of
    `GetGlobalMedianSeqs()` is the largest `s` such that the creators whose latest processed event
    observed `v` at `s` or above hold at least a quorum of weight — whether the call recomputes or
    serves the cache. -/
theorem medians_follow_definition (sorter : List (Nat × Nat) → List (Nat × Nat)) (hs : SorterOk sorter)
    (diff : Nat → Nat → Nat → Nat → Nat) (n : Nat) (w : Nat → Nat) (quorum : Nat) (wf : WF n w quorum)
    (ops : List Op) :
    ∃ q q' out, run sorter diff (newQI n w quorum) ops = some q ∧ getMedians sorter q = some (q', out) ∧
      out.length = n ∧
      ∀ v, v < n → IsMedian ((List.range n).map (fun c => (obsMatrix ops v c 0, w c))) quorum (out.getD v 0) := by
  obtain ⟨q, hrun, hg, hm, _⟩ := history sorter hs diff n w quorum wf ops
  obtain ⟨q', h0, hg', hmx, _, hclean⟩ := clean_spec sorter hs n w quorum wf q hg
  have hout : getMedians sorter q = some (q', (List.range q'.n).map q'.medians) := by
    unfold getMedians Gen.Emitter.mediansDirty
    rw [h0]
  refine ⟨q, q', _, hrun, hout, by simp [hg'.hn], ?_⟩
  intro v hv
  rw [hg'.hn, getD_range_map n _ v hv]
  have := hg'.coherent hclean v hv
  have hrow : rowPairs q' v = (List.range n).map (fun c => (obsMatrix ops v c 0, w c)) := by
    unfold rowPairs
    rw [hg'.hn, hg'.hw]
    apply List.map_congr_left
    intro c _
    rw [hmx, hm v hv c]
  rw [hrow] at this
  exact this

/-- The metric of a candidate after any history: the sum over validators of the diff function
    applied to the median (as defined), the node's own latest observation and the candidate's
    observation, modulo 2^64. -/
theorem metric_def (sorter : List (Nat × Nat) → List (Nat × Nat)) (hs : SorterOk sorter)
    (diff : Nat → Nat → Nat → Nat → Nat) (n : Nat) (w : Nat → Nat) (quorum : Nat) (wf : WF n w quorum)
    (ops : List Op) (hb : Nat → Seq) (med : Nat → Nat)
    (hmed : ∀ v, v < n → IsMedian ((List.range n).map (fun c => (obsMatrix ops v c 0, w c))) quorum (med v)) :
    ∃ q q', run sorter diff (newQI n w quorum) ops = some q ∧
      getMetric sorter diff q hb = some (q',
        sumTo n (fun v => diff (med v) (obsSelf ops v 0) (seqOf (hb v)) v) % 18446744073709551616) := by
  obtain ⟨q, hrun, hg, hm, hsf⟩ := history sorter hs diff n w quorum wf ops
  obtain ⟨q', h0, hg', hmx, hsx, hd'⟩ := clean_spec sorter hs n w quorum wf q hg
  refine ⟨q, q', hrun, ?_⟩
  unfold getMetric Gen.Emitter.metricDirty
  rw [h0]
  simp only
  rw [metricLoop_spec, hg'.hn]
  have hmap : (List.range n).map (fun v => diff (q'.medians v) (q'.selfSeqs v) (seqOf (hb v)) v)
      = (List.range n).map (fun v => diff (med v) (obsSelf ops v 0) (seqOf (hb v)) v) := by
    apply List.map_congr_left
    intro v hv
    have hv' : v < n := List.mem_range.1 hv
    have hmedv : q'.medians v = med v := by
      apply isMedian_unique _ quorum _ _ _ (hmed v hv')
      have := hg'.coherent hd' v hv'
      have hrow : rowPairs q' v = (List.range n).map (fun c => (obsMatrix ops v c 0, w c)) := by
        unfold rowPairs
        rw [hg'.hn, hg'.hw]
        apply List.map_congr_left
        intro c _
        rw [hmx, hm v hv' c]
      rw [hrow] at this
      exact this
    rw [hmedv, hsx, hsf v hv']
  unfold sumTo
  rw [hmap]

/-! ### non-vacuity -/

/-- three validators of weight 1 (quorum 3): the median is the minimum; weights 5,1,1 (quorum 5):
    the heavy validator's value -/
example : wmedianFrom (sortDesc [(4, 1), (9, 1), (7, 1)]) 0 3 = some 4 := by decide
example : wmedianFrom (sortDesc [(4, 5), (9, 1), (7, 1)]) 0 5 = some 4 := by decide
example : wmedianFrom (sortDesc [(4, 1), (9, 3), (7, 1)]) 0 4 = some 7 := by decide
/-- the tie order does not matter: both orders of the two entries with value 7 -/
example : wmedianFrom [(9, 1), (7, 3), (7, 1), (2, 2)] 0 5 = some 7 ∧ wmedianFrom [(9, 1), (7, 1), (7, 3), (2, 2)] 0 5 = some 7 := by decide
/-- below the quorum the real code would panic; the hypotheses exclude it -/
example : wmedianFrom (sortDesc [(4, 1), (9, 1)]) 0 3 = none := by decide
example : WF 3 (fun _ => 1) 3 := ⟨by decide, by decide, by decide⟩
example : Gen.Emitter.forkSeq = 2147483646 := by decide
/-- a two-validator history: creator 1 observes (3, fork), a self event of creator 0 observes (2, 1) -/
example :
    ((run sortDesc (fun m _ u _ => u - m) (newQI 2 (fun _ => 1) 2)
      [.process (fun v => if v = 0 then ⟨3, false⟩ else ⟨0, true⟩) 1 false,
       .process (fun v => if v = 0 then ⟨2, false⟩ else ⟨1, false⟩) 0 true, .medians]).map
      (fun q => ((List.range 2).map q.medians, (List.range 2).map q.selfSeqs, q.dirty)))
      = some ([2, 1], [2, 1], false) := by decide

end C20
