import LachesisVerif.Model.FcCache
import LachesisVerif.Model.Orderer
import LachesisVerif.Props.C05
import LachesisVerif.Proofs.VecEmb
/-!
# C07 — Rejected and merely built events leave no trace

"After an event is only built, or its processing fails (for example because of a wrong claimed
frame), the consensus instance behaves exactly as if that event had never been submitted: later
events are accepted or rejected identically, later builds assign the same frames, and the emitted
blocks are identical."

What survives a roll-back in the real code: (1) nothing of the persistent state — `Build` and a
failed `Process` end with `DropNotFlushed`, the Orderer writes roots / election state only after the
frame check; in the model `Model.Orderer.process` returns the unchanged state on `wrongFrame` and
`build` returns a frame only (theorems `process_rejected_no_trace`, `build_pure` — true by
construction of the model, which the `cons` stream ties to the code with injected builds and
wrong-frame twins); (2) the forkless-cause result cache, which is keyed by event ids and is NOT
purged. Theorem `cache_transparent`: for every history of index changes (adds, commits, roll-backs),
queries and evictions, every answer equals the uncached answer in the current state, PROVIDED the
uncached answer for a key is the same in all states in which the key's events are indexed
(`Deterministic`). For real events that is C05 (the answer is a function of the ancestry); for the
temporary ids of `Build` it additionally needs that an id never denotes two different events — the
defect repaired by `fix:` ae8ece9 (ids #1 and #256 coincided): `C07_defect_reused_id` shows that
without it a stale entry is served. That the repaired `uniqueID.sample` never repeats an id within 2^192
builds is `Facts.temp_ids_never_reused` (model `Model.TempId`, shape regenerated: `Facts.sample_shape`).
`Deterministic` is DISCHARGED for the vector-index model (second half of this file):
* `fc_deterministic_prefix` (= `C05_fc_stable`): growing a valid history `h` to `h ++ more`, or rolling
  back from `h ++ more` to `h`, does not change the model's `fc` answer for events of `h`;
* `fc_deterministic`: general "same two events indexed in two states" form — two valid index states
  whose events are events of one valid graph `U` under consistent ids (embeddings preserving creator,
  seq, parents: `VecProofs.HistEmb`; proof: `C05_fc_eq_spec` + the graph definition only looks at the
  ancestry of `A`, `VecProofs.emb_fcspec`) give equal answers;
* `C07_cache_transparent_vec`: `cache_transparent` instantiated with σ := the index after a prefix of
  one fixed valid history, κ := pair of positions, f := the vector `fc` when both are indexed, for
  all sequences of "add an event / roll back to an earlier prefix / query / evict": every cached
  answer equals the uncached vector answer of the current state — no hypothesis besides the
  standing ones of C05 (`Good`: `Valid`, `PLen`, 32-bit sizes; quorum > 0);
* `C07_cache_transparent_vec_ids`: the same for arbitrary sequences of valid index states over one
  graph with consistent ids (speculative `Build` events dropped again, other indexing orders).
NOT proved (correspondence only): that `DropNotFlushed` restores the vector/branch tables of the
real index to the state of the shorter history (the model's "roll back" is by definition the index
of the prefix); that the ids of the real code are consistent is the injective sampler of C04.
Combined model (`Model/Indexed.lean`: a `buildIndexed` or a rejected `processIndexed`, anywhere in a log of calls, returns literally the previous (Orderer, index, indexing order) state, so all later answers are equal — by construction of the model's transaction): `Consensus.indexed_no_trace`, `Consensus.processIndexed_rejected` (Props/Consensus.lean).
-/
namespace C07
open Model.FcCache

variable {σ κ : Type} [DecidableEq κ]

/-- the uncached answer for a key does not depend on the state, as long as it is defined -/
def Deterministic (f : σ → κ → Option Bool) : Prop :=
  ∀ s s' k v v', f s k = some v → f s' k = some v' → v = v'

def Shrinks (ev : Evict κ) : Prop := ∀ c x, x ∈ ev c → x ∈ c

/-- every cached entry was the uncached answer in some state -/
def Inv (f : σ → κ → Option Bool) (c : Cached σ κ) : Prop :=
  ∀ k v, (k, v) ∈ c.cache → ∃ s, f s k = some v

theorem lookup_mem (l : List (κ × Bool)) (k : κ) (v : Bool) (h : l.lookup k = some v) : (k, v) ∈ l := by
  induction l with
  | nil => simp at h
  | cons x xs ih =>
    obtain ⟨k', v'⟩ := x
    simp only [List.lookup] at h
    by_cases hk : k = k'
    · subst hk; simp at h; subst h; exact List.mem_cons_self
    · have : (k == k') = false := by simpa using hk
      rw [this] at h
      exact List.mem_cons_of_mem _ (ih h)

theorem step_inv (f : σ → κ → Option Bool) (ev : Evict κ) (hev : Shrinks ev) (c : Cached σ κ) (op : Op σ κ)
    (h : Inv f c) : Inv f (step f ev c op) := by
  cases op with
  | move s' => exact h
  | query k =>
    simp only [step, query]
    split
    · exact h
    · split
      · rename_i v hv
        intro k' v' hm
        rcases List.mem_cons.1 (hev _ _ hm) with h1 | h1
        · cases h1; exact ⟨c.st, hv⟩
        · exact h k' v' h1
      · exact h

/-- C07/C05 (cache transparency): after any history of index changes, queries and evictions, a query
    whose events are indexed in the current state returns the uncached answer of the current state. -/
theorem cache_transparent (f : σ → κ → Option Bool) (ev : Evict κ) (hev : Shrinks ev) (hdet : Deterministic f)
    (s0 : σ) (ops : List (Op σ κ)) (k : κ) (v : Bool) :
    let c := ops.foldl (step f ev) ⟨s0, []⟩
    f c.st k = some v → (query f ev c k).2 = some v := by
  intro c hv
  have inv : Inv f c := by
    have : ∀ (l : List (Op σ κ)) (c0 : Cached σ κ), Inv f c0 → Inv f (l.foldl (step f ev) c0) := by
      intro l
      induction l with
      | nil => intro c0 h; exact h
      | cons op rest ih => intro c0 h; exact ih _ (step_inv f ev hev c0 op h)
    exact this ops ⟨s0, []⟩ (fun k v hm => by cases hm)
  simp only [query]
  split
  · rename_i w hw
    obtain ⟨s, hs⟩ := inv k w (lookup_mem _ _ _ hw)
    rw [hdet s c.st k w v hs hv]
  · rw [hv]

/-- without determinism of keys (an id denoting two different events, as with the pre-fix temporary
    ids of `Build`) a stale entry is served: state 1 answers `true` for key 0, state 2 `false` -/
theorem C07_defect_reused_id :
    let f : Nat → Nat → Option Bool := fun s _ => some (s == 1)
    let c := [Op.move 1, Op.query 0, Op.move 2].foldl (step f (fun l => l)) (⟨0, []⟩ : Cached Nat Nat)
    f c.st 0 = some false ∧ (query f (fun l => l) c 0).2 = some true := by
  decide

/-! ### the Orderer model writes nothing before the frame check -/
open Model.Orderer

theorem process_rejected_no_trace (env : Env) (s : OState) (id creator spf claimed : Nat)
    (h : Model.Election.frameAccepted (quorumOn env s id) spf claimed = false) :
    (process env s id creator spf claimed).1 = s := by
  simp [process, h]

/-! ### `Deterministic` discharged for the vector-index model -/
section VecModel
open Model.Vec VecProofs

/-- the standing assumptions of C05 on a history: what the event checks guarantee (`Valid`), no
    double parents (`PLen`), 32-bit branch ids -/
structure Good (nVals : Nat) (h : Hist) : Prop where
  valid : Valid nVals h
  plen : PLen h
  small : nVals + h.length < 4294967296

theorem Good.take {nVals : Nat} {H : Hist} (g : Good nVals H) (n : Nat) : Good nVals (H.take n) := by
  have e : H.take n ++ H.drop n = H := List.take_append_drop n H
  refine ⟨la_valid_take g.valid n, la_plen_prefix (ext := H.drop n) (by rw [e]; exact g.plen), ?_⟩
  have := g.small
  have : (H.take n).length ≤ H.length := by rw [List.length_take]; exact Nat.min_le_right _ _
  omega

/-- `fc_deterministic`, prefix form (this is `C05_fc_stable`): the answer for two events does not
    change when the index grows from a valid history `h` to `h ++ more`, nor — read right to left —
    when it is rolled back from `h ++ more` to `h`. -/
theorem fc_deterministic_prefix {nVals : Nat} {h more : Hist} (weight : Nat → Nat) (quorum : Nat)
    (g : Good nVals (h ++ more)) (hq : 0 < quorum) {a b : Nat} (ha : a < h.length) (hb : b < h.length) :
    (run nVals h).fc weight quorum a b = (run nVals (h ++ more)).fc weight quorum a b :=
  (C05.C05_fc_stable weight quorum g.valid g.plen g.small hq ha hb).symm

/-- `fc_deterministic`, general form: "the same two events indexed in two states". Two valid index
    states `h₁`, `h₂` whose events are events of one valid graph `U` (embeddings `f₁`, `f₂`: same
    creator, seq, parents; an id — a position of `U` — never denotes two different events): if
    `(a₁, b₁)` in `h₁` and `(a₂, b₂)` in `h₂` are the same events of `U`, the model's `fc` answers
    coincide. Covers growing, rolling back, re-adding in another order, and speculative events of
    `Build` that were dropped (they are simply absent from `h₂`). -/
theorem fc_deterministic {nVals : Nat} {h₁ h₂ U : Hist} {f₁ f₂ : Nat → Nat} (weight : Nat → Nat) (quorum : Nat)
    (g₁ : Good nVals h₁) (g₂ : Good nVals h₂) (gU : Good nVals U)
    (I₁ : HistEmb h₁ U f₁) (I₂ : HistEmb h₂ U f₂) (hq : 0 < quorum)
    {a₁ b₁ a₂ b₂ : Nat} (ha₁ : a₁ < h₁.length) (hb₁ : b₁ < h₁.length) (ha₂ : a₂ < h₂.length) (hb₂ : b₂ < h₂.length)
    (hA : f₁ a₁ = f₂ a₂) (hB : f₁ b₁ = f₂ b₂) :
    (run nVals h₁).fc weight quorum a₁ b₁ = (run nVals h₂).fc weight quorum a₂ b₂ := by
  rw [emb_fc weight quorum I₁ (C05.hbInv_of_valid g₁.valid g₁.small) g₁.valid g₁.plen g₁.small
        (C05.hbInv_of_valid gU.valid gU.small) gU.valid gU.plen gU.small hq ha₁ hb₁,
      emb_fc weight quorum I₂ (C05.hbInv_of_valid g₂.valid g₂.small) g₂.valid g₂.plen g₂.small
        (C05.hbInv_of_valid gU.valid gU.small) gU.valid gU.plen gU.small hq ha₂ hb₂, hA, hB]

/-- the uncached forkless-cause answer when the index holds the first `n` events of `H`
    (`none` unless both events are indexed) -/
def fcAt (nVals : Nat) (H : Hist) (weight : Nat → Nat) (quorum : Nat) (n : Nat) (k : Nat × Nat) : Option Bool :=
  if k.1 < (H.take n).length ∧ k.2 < (H.take n).length then
    some ((run nVals (H.take n)).fc weight quorum k.1 k.2) else none

theorem fcAt_eq_full {nVals : Nat} {H : Hist} (weight : Nat → Nat) (quorum : Nat) (g : Good nVals H)
    (hq : 0 < quorum) (n : Nat) (k : Nat × Nat) (v : Bool) (h : fcAt nVals H weight quorum n k = some v) :
    v = (run nVals H).fc weight quorum k.1 k.2 := by
  unfold fcAt at h
  split at h
  · rename_i hk
    cases h
    have e : H.take n ++ H.drop n = H := List.take_append_drop n H
    have := fc_deterministic_prefix (h := H.take n) (more := H.drop n) weight quorum (by rw [e]; exact g) hq hk.1 hk.2
    rw [e] at this; exact this
  · cases h

/-- `Deterministic` holds for the vector model over the prefixes of one valid history -/
theorem fcAt_deterministic {nVals : Nat} {H : Hist} (weight : Nat → Nat) (quorum : Nat) (g : Good nVals H)
    (hq : 0 < quorum) : Deterministic (fcAt nVals H weight quorum) := by
  intro n n' k v v' h h'
  rw [fcAt_eq_full weight quorum g hq n k v h, fcAt_eq_full weight quorum g hq n' k v' h']

/-- C07 (cache transparency for the vector model, no determinism hypothesis left): the index holds a
    prefix of a valid history `H`; operations are `move n'` — add the next event (`n' = n + 1`), roll
    back to any earlier state (`n' < n`, `DropNotFlushed`), or any other jump between prefixes — and
    cached queries, with an arbitrary eviction policy. Then every query for two indexed events returns
    exactly what the uncached vector computation returns in the current state. -/
theorem C07_cache_transparent_vec {nVals : Nat} {H : Hist} (weight : Nat → Nat) (quorum : Nat)
    (g : Good nVals H) (hq : 0 < quorum) (ev : Evict (Nat × Nat)) (hev : Shrinks ev)
    (n0 : Nat) (ops : List (Op Nat (Nat × Nat))) (a b : Nat) :
    let c := ops.foldl (step (fcAt nVals H weight quorum) ev) ⟨n0, []⟩
    a < (H.take c.st).length → b < (H.take c.st).length →
    (query (fcAt nVals H weight quorum) ev c (a, b)).2 =
      some ((run nVals (H.take c.st)).fc weight quorum a b) := by
  intro c ha hb
  apply cache_transparent (fcAt nVals H weight quorum) ev hev (fcAt_deterministic weight quorum g hq) n0 ops (a, b)
  show fcAt nVals H weight quorum c.st (a, b) = _
  unfold fcAt
  rw [if_pos ⟨ha, hb⟩]

/-- non-vacuity: the forked six-event history of C05 satisfies `Good`; after add/add/…/roll back/query
    the cached answer is the vector answer of the current (rolled-back) state -/
theorem exH_good : Good 3 C05.exH := ⟨C05.exH_valid, C05.exH_plen, by decide⟩

example : (query (fcAt 3 C05.exH (fun _ => 1) 2) (fun l => l)
      ([Op.move 6, Op.query (5, 0), Op.query (3, 0), Op.move 4].foldl
        (step (fcAt 3 C05.exH (fun _ => 1) 2) (fun l => l)) ⟨0, []⟩) (3, 0)).2 =
    some ((run 3 (C05.exH.take 4)).fc (fun _ => 1) 2 3 0) :=
  C07_cache_transparent_vec (fun _ => 1) 2 exH_good (by decide) (fun l => l) (fun _ _ h => h) 0
    [Op.move 6, Op.query (5, 0), Op.query (3, 0), Op.move 4] 3 0 (by decide) (by decide)

/-! #### general index states: events named by ids of one graph

An index state is any valid history `h` together with an embedding `emb` of its positions into a
fixed valid graph `U` (the ids). Nothing relates two states except that ids are used consistently —
which is exactly "an id never denotes two different events". -/

structure IdxState (nVals : Nat) (U : Hist) where
  h : Hist
  emb : Nat → Nat
  good : Good nVals h
  isEmb : HistEmb h U emb

open Classical in
/-- the uncached answer for a pair of ids: defined when both ids are indexed in the state -/
noncomputable def fcIds {nVals : Nat} {U : Hist} (weight : Nat → Nat) (quorum : Nat) (s : IdxState nVals U)
    (k : Nat × Nat) : Option Bool :=
  if hx : ∃ p : Nat × Nat, p.1 < s.h.length ∧ p.2 < s.h.length ∧ s.emb p.1 = k.1 ∧ s.emb p.2 = k.2 then
    some ((run nVals s.h).fc weight quorum hx.choose.1 hx.choose.2) else none

theorem fcIds_eq_graph {nVals : Nat} {U : Hist} (weight : Nat → Nat) (quorum : Nat) (gU : Good nVals U)
    (hq : 0 < quorum) (s : IdxState nVals U) (k : Nat × Nat) (v : Bool) (h : fcIds weight quorum s k = some v) :
    v = (run nVals U).fc weight quorum k.1 k.2 := by
  unfold fcIds at h
  split at h
  · rename_i hx
    cases h
    obtain ⟨h1, h2, h3, h4⟩ := hx.choose_spec
    rw [emb_fc weight quorum s.isEmb (C05.hbInv_of_valid s.good.valid s.good.small) s.good.valid s.good.plen
      s.good.small (C05.hbInv_of_valid gU.valid gU.small) gU.valid gU.plen gU.small hq h1 h2, h3, h4]
  · cases h

theorem fcIds_deterministic {nVals : Nat} {U : Hist} (weight : Nat → Nat) (quorum : Nat) (gU : Good nVals U)
    (hq : 0 < quorum) : Deterministic (fcIds (nVals := nVals) (U := U) weight quorum) := by
  intro s s' k v v' h h'
  rw [fcIds_eq_graph weight quorum gU hq s k v h, fcIds_eq_graph weight quorum gU hq s' k v' h']

/-- C07 (cache transparency, general form): for ANY sequence of index states (each a valid history
    whose events are events of the graph `U` under consistent ids — adds, commits, roll-backs,
    speculative events of `Build`, re-indexing in another order) and cached queries with any eviction
    policy, a query for two indexed events `a`, `b` of the current state returns the uncached vector
    answer of the current state. -/
theorem C07_cache_transparent_vec_ids {nVals : Nat} {U : Hist} (weight : Nat → Nat) (quorum : Nat)
    (gU : Good nVals U) (hq : 0 < quorum) (ev : Evict (Nat × Nat)) (hev : Shrinks ev)
    (s0 : IdxState nVals U) (ops : List (Op (IdxState nVals U) (Nat × Nat))) (a b : Nat) :
    let c := ops.foldl (step (fcIds weight quorum) ev) ⟨s0, []⟩
    a < c.st.h.length → b < c.st.h.length →
    (query (fcIds weight quorum) ev c (c.st.emb a, c.st.emb b)).2 =
      some ((run nVals c.st.h).fc weight quorum a b) := by
  intro c ha hb
  apply cache_transparent (fcIds weight quorum) ev hev (fcIds_deterministic weight quorum gU hq) s0 ops
  show fcIds weight quorum c.st (c.st.emb a, c.st.emb b) = _
  unfold fcIds
  have hx : ∃ p : Nat × Nat, p.1 < c.st.h.length ∧ p.2 < c.st.h.length ∧
      c.st.emb p.1 = (c.st.emb a, c.st.emb b).1 ∧ c.st.emb p.2 = (c.st.emb a, c.st.emb b).2 :=
    ⟨(a, b), ha, hb, rfl, rfl⟩
  rw [dif_pos hx]
  obtain ⟨h1, h2, h3, h4⟩ := hx.choose_spec
  rw [c.st.isEmb.inj _ _ h1 ha h3, c.st.isEmb.inj _ _ h2 hb h4]

end VecModel

end C07
