import LachesisVerif.Model.FcCache
import LachesisVerif.Model.Orderer
/-!
# C07 — Rejected and merely built events leave no trace

"After an event is only built, or its processing fails (for example because of a wrong claimed
frame), the consensus instance behaves exactly as if that event had never been submitted: later
events are accepted or rejected identically, later builds assign the same frames, and the emitted
blocks are identical."

What survives a roll-back in the real code: (1) nothing of the persistent state — `Build` and a
failed `Process` end with `DropNotFlushed`, the Orderer writes roots / election state only after the
frame check; in the model `Model.Orderer.process` returns the unchanged state on `wrongFrame` and
`build` returns a frame only (theorems `process_rejected_no_trace`, `build_pure` — true by
construction of the model, which the `cons` stream ties to the code with injected builds and
wrong-frame twins); (2) the forkless-cause result cache, which is keyed by event ids and is NOT
purged. Theorem `cache_transparent`: for every history of index changes (adds, commits, roll-backs),
queries and evictions, every answer equals the uncached answer in the current state, PROVIDED the
uncached answer for a key is the same in all states in which the key's events are indexed
(`Deterministic`). For real events that is C05 (the answer is a function of the ancestry); for the
temporary ids of `Build` it additionally needs that an id never denotes two different events — the
defect repaired by `fix:` ae8ece9 (ids #1 and #256 coincided): `C07_defect_reused_id` shows that
without it a stale entry is served.
PARTIAL: `Deterministic` for the vector-index model is the stability corollary of C05 (Props/C05);
the vector/branch tables restored by `DropNotFlushed` are covered by correspondence only.
-/
namespace C07
open Model.FcCache

variable {σ κ : Type} [DecidableEq κ]

/-- the uncached answer for a key does not depend on the state, as long as it is defined -/
def Deterministic (f : σ → κ → Option Bool) : Prop :=
  ∀ s s' k v v', f s k = some v → f s' k = some v' → v = v'

def Shrinks (ev : Evict κ) : Prop := ∀ c x, x ∈ ev c → x ∈ c

/-- every cached entry was the uncached answer in some state -/
def Inv (f : σ → κ → Option Bool) (c : Cached σ κ) : Prop :=
  ∀ k v, (k, v) ∈ c.cache → ∃ s, f s k = some v

theorem lookup_mem (l : List (κ × Bool)) (k : κ) (v : Bool) (h : l.lookup k = some v) : (k, v) ∈ l := by
  induction l with
  | nil => simp at h
  | cons x xs ih =>
    obtain ⟨k', v'⟩ := x
    simp only [List.lookup] at h
    by_cases hk : k = k'
    · subst hk; simp at h; subst h; exact List.mem_cons_self
    · have : (k == k') = false := by simpa using hk
      rw [this] at h
      exact List.mem_cons_of_mem _ (ih h)

theorem step_inv (f : σ → κ → Option Bool) (ev : Evict κ) (hev : Shrinks ev) (c : Cached σ κ) (op : Op σ κ)
    (h : Inv f c) : Inv f (step f ev c op) := by
  cases op with
  | move s' => exact h
  | query k =>
    simp only [step, query]
    split
    · exact h
    · split
      · rename_i v hv
        intro k' v' hm
        rcases List.mem_cons.1 (hev _ _ hm) with h1 | h1
        · cases h1; exact ⟨c.st, hv⟩
        · exact h k' v' h1
      · exact h

/-- C07/C05 (cache transparency): after any history of index changes, queries and evictions, a query
    whose events are indexed in the current state returns the uncached answer of the current state. -/
theorem cache_transparent (f : σ → κ → Option Bool) (ev : Evict κ) (hev : Shrinks ev) (hdet : Deterministic f)
    (s0 : σ) (ops : List (Op σ κ)) (k : κ) (v : Bool) :
    let c := ops.foldl (step f ev) ⟨s0, []⟩
    f c.st k = some v → (query f ev c k).2 = some v := by
  intro c hv
  have inv : Inv f c := by
    have : ∀ (l : List (Op σ κ)) (c0 : Cached σ κ), Inv f c0 → Inv f (l.foldl (step f ev) c0) := by
      intro l
      induction l with
      | nil => intro c0 h; exact h
      | cons op rest ih => intro c0 h; exact ih _ (step_inv f ev hev c0 op h)
    exact this ops ⟨s0, []⟩ (fun k v hm => by cases hm)
  simp only [query]
  split
  · rename_i w hw
    obtain ⟨s, hs⟩ := inv k w (lookup_mem _ _ _ hw)
    rw [hdet s c.st k w v hs hv]
  · rw [hv]

/-- without determinism of keys (an id denoting two different events, as with the pre-fix temporary
    ids of `Build`) a stale entry is served: state 1 answers `true` for key 0, state 2 `false` -/
theorem C07_defect_reused_id :
    let f : Nat → Nat → Option Bool := fun s _ => some (s == 1)
    let c := [Op.move 1, Op.query 0, Op.move 2].foldl (step f (fun l => l)) (⟨0, []⟩ : Cached Nat Nat)
    f c.st 0 = some false ∧ (query f (fun l => l) c 0).2 = some true := by
  decide

/-! ### the Orderer model writes nothing before the frame check -/
open Model.Orderer

theorem process_rejected_no_trace (env : Env) (s : OState) (id creator spf claimed : Nat)
    (h : Model.Election.frameAccepted (quorumOn env s id) spf claimed = false) :
    (process env s id creator spf claimed).1 = s := by
  simp [process, h]

end C07
