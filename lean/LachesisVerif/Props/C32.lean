import LachesisVerif.Model.Enc
/-!
# C32 — Index encodings are invertible and order preserving

"Big-endian encodings of 16-, 32- and 64-bit values and of all index types decode to the
original value and compare byte-wise in the same order as the values; little-endian encodings
decode to the original value. Event IDs carry the epoch and Lamport time they were built with,
so byte-wise ID order sorts by epoch, then Lamport time."

The theorems are for every width `k` (bytes) and every value below `256^k`; the Go functions
are the instances k = 2, 4, 8 (all `idx` types are `uint32`/`uint64` wrappers of these).
-/
namespace C32
open Model.Enc Bytes

theorem beBytes_length (k n : Nat) : (beBytes k n).length = k := by
  induction k with
  | zero => rfl
  | succ k ih => simp [beBytes, ih]

theorem beBytes_lt (k n : Nat) : ∀ b ∈ beBytes k n, b < 256 := by
  induction k with
  | zero => simp [beBytes]
  | succ k ih =>
    intro b hb
    simp only [beBytes, List.mem_cons] at hb
    rcases hb with rfl | hb
    · exact Nat.mod_lt _ (by decide)
    · exact ih b hb

theorem foldl_be (k n a : Nat) :
    (beBytes k n).foldl (fun a b => a * 256 + b) a = a * 256 ^ k + n % 256 ^ k := by
  induction k generalizing a with
  | zero => simp [beBytes, Nat.mod_one]
  | succ k ih =>
    simp only [beBytes, List.foldl_cons, ih]
    rw [Nat.mod_pow_succ, Nat.pow_succ]
    rw [Nat.add_mul, Nat.mul_assoc, Nat.mul_comm 256 (256 ^ k), Nat.mul_comm (n / 256 ^ k % 256)]
    omega

/-- big-endian decode ∘ encode = id, every width -/
theorem be_roundtrip (k n : Nat) (h : n < 256 ^ k) : beVal (beBytes k n) = n := by
  unfold beVal
  rw [foldl_be, Nat.mod_eq_of_lt h]
  simp

theorem beBytes_mod (k n : Nat) : beBytes k (n % 256 ^ k) = beBytes k n := by
  induction k generalizing n with
  | zero => rfl
  | succ k ih =>
    simp only [beBytes]
    congr 1
    · rw [Nat.mod_pow_succ]
      have hpos : 0 < 256 ^ k := Nat.pow_pos (by decide)
      rw [Nat.add_comm, Nat.mul_add_div hpos, Nat.div_eq_of_lt (Nat.mod_lt _ hpos), Nat.add_zero, Nat.mod_mod]
    · rw [← ih (n % 256 ^ (k + 1)), ← ih n]
      congr 1
      rw [Nat.pow_succ, Nat.mod_mul_right_mod]

/-- big-endian encodings compare byte-wise as the values do, every width -/
theorem be_order (k n m : Nat) (hn : n < 256 ^ k) (hm : m < 256 ^ k) :
    lexLt (beBytes k n) (beBytes k m) = decide (n < m) := by
  induction k generalizing n m with
  | zero =>
    simp at hn hm
    subst hn hm
    rfl
  | succ k ih =>
    have hpos : 0 < 256 ^ k := Nat.pow_pos (by decide)
    have hn' : n / 256 ^ k < 256 := by
      rw [Nat.div_lt_iff_lt_mul hpos, Nat.mul_comm, ← Nat.pow_succ]; exact hn
    have hm' : m / 256 ^ k < 256 := by
      rw [Nat.div_lt_iff_lt_mul hpos, Nat.mul_comm, ← Nat.pow_succ]; exact hm
    simp only [beBytes, lexLt, Nat.mod_eq_of_lt hn', Nat.mod_eq_of_lt hm']
    rw [← beBytes_mod k n, ← beBytes_mod k m, ih _ _ (Nat.mod_lt _ hpos) (Nat.mod_lt _ hpos)]
    have en := Nat.div_add_mod n (256 ^ k)
    have em := Nat.div_add_mod m (256 ^ k)
    have ln := Nat.mod_lt n hpos
    have lm := Nat.mod_lt m hpos
    generalize n / 256 ^ k = qn at *
    generalize m / 256 ^ k = qm at *
    generalize n % 256 ^ k = rn at *
    generalize m % 256 ^ k = rm at *
    generalize 256 ^ k = P at *
    by_cases h1 : qn < qm
    · have : P * (qn + 1) ≤ P * qm := Nat.mul_le_mul_left _ h1
      rw [Nat.mul_add] at this
      have : n < m := by omega
      simp [h1, this]
    · by_cases h2 : qn = qm
      · subst h2
        have : (n < m) ↔ (rn < rm) := by omega
        simp [this]
      · have h3 : qm < qn := by omega
        have : P * (qm + 1) ≤ P * qn := Nat.mul_le_mul_left _ h3
        rw [Nat.mul_add] at this
        have : ¬ n < m := by omega
        simp [h1, h2, this]

theorem le_roundtrip (k n : Nat) (h : n < 256 ^ k) : leVal (leBytes k n) = n := by
  induction k generalizing n with
  | zero => simp at h; subst h; rfl
  | succ k ih =>
    simp only [leBytes, leVal]
    have : n / 256 < 256 ^ k := by
      rw [Nat.div_lt_iff_lt_mul (by decide)]; rw [Nat.pow_succ] at h; exact h
    rw [ih _ this]
    omega

/-! ### the concrete widths used by the Go code -/

theorem be16_roundtrip (n : Nat) (h : n < 65536) : beVal (beBytes 2 n) = n := be_roundtrip 2 n h
theorem be32_roundtrip (n : Nat) (h : n < 4294967296) : beVal (beBytes 4 n) = n := be_roundtrip 4 n h
theorem be64_roundtrip (n : Nat) (h : n < 18446744073709551616) : beVal (beBytes 8 n) = n := be_roundtrip 8 n h
theorem le16_roundtrip (n : Nat) (h : n < 65536) : leVal (leBytes 2 n) = n := le_roundtrip 2 n h
theorem le32_roundtrip (n : Nat) (h : n < 4294967296) : leVal (leBytes 4 n) = n := le_roundtrip 4 n h
theorem le64_roundtrip (n : Nat) (h : n < 18446744073709551616) : leVal (leBytes 8 n) = n := le_roundtrip 8 n h

/-! ### event ids -/

theorem lexLt_append (a b c d : Bytes) (h : a.length = b.length) :
    lexLt (a ++ c) (b ++ d) = (lexLt a b || (a == b && lexLt c d)) := by
  induction a generalizing b with
  | nil =>
    cases b with
    | nil => simp [lexLt]
    | cons _ _ => simp at h
  | cons x xs ih =>
    cases b with
    | nil => simp at h
    | cons y ys =>
      simp only [List.length_cons, Nat.add_right_cancel_iff] at h
      simp only [List.cons_append, lexLt, ih ys h]
      by_cases hxy : x = y
      · subst hxy; simp
      · by_cases hlt : x < y
        · simp [hlt]
        · have : (x == y) = false := by simp [hxy]
          simp [hlt, this]

theorem lexLt_irrefl (a : Bytes) : lexLt a a = false := by
  induction a with
  | nil => rfl
  | cons x xs ih => simp [lexLt, ih]

theorem tail24_length (t : Bytes) : (tail24 t).length = 24 := by
  simp [tail24]

/-- an id carries the epoch it was built with -/
theorem id_epoch (e l : Nat) (t : Bytes) (he : e < 4294967296) : idEpoch (eventID e l t) = e := by
  unfold idEpoch eventID
  rw [List.append_assoc, List.take_left' (beBytes_length 4 e)]
  exact be_roundtrip 4 e he

/-- an id carries the Lamport time it was built with -/
theorem id_lamport (e l : Nat) (t : Bytes) (hl : l < 4294967296) : idLamport (eventID e l t) = l := by
  unfold idLamport eventID
  rw [List.append_assoc, List.drop_left' (beBytes_length 4 e), List.take_left' (beBytes_length 4 l)]
  exact be_roundtrip 4 l hl

theorem beBytes_inj (k n m : Nat) (hn : n < 256 ^ k) (hm : m < 256 ^ k) (h : beBytes k n = beBytes k m) : n = m := by
  have := congrArg beVal h
  rwa [be_roundtrip k n hn, be_roundtrip k m hm] at this

/-- byte-wise id order sorts by epoch, then Lamport time, then the tail -/
theorem id_order (e₁ l₁ e₂ l₂ : Nat) (t₁ t₂ : Bytes)
    (h1 : e₁ < 4294967296) (h2 : l₁ < 4294967296) (h3 : e₂ < 4294967296) (h4 : l₂ < 4294967296) :
    lexLt (eventID e₁ l₁ t₁) (eventID e₂ l₂ t₂) =
      (decide (e₁ < e₂) || (decide (e₁ = e₂) && (decide (l₁ < l₂) || (decide (l₁ = l₂) && lexLt (tail24 t₁) (tail24 t₂))))) := by
  unfold eventID
  rw [List.append_assoc, List.append_assoc,
    lexLt_append _ _ _ _ (by rw [beBytes_length, beBytes_length]),
    lexLt_append _ _ _ _ (by rw [beBytes_length, beBytes_length]),
    be_order 4 e₁ e₂ h1 h3, be_order 4 l₁ l₂ h2 h4]
  have he : (beBytes 4 e₁ == beBytes 4 e₂) = decide (e₁ = e₂) := by
    by_cases h : e₁ = e₂
    · subst h; simp
    · have : beBytes 4 e₁ ≠ beBytes 4 e₂ := fun hh => h (beBytes_inj 4 _ _ h1 h3 hh)
      simp [h, this]
  have hl : (beBytes 4 l₁ == beBytes 4 l₂) = decide (l₁ = l₂) := by
    by_cases h : l₁ = l₂
    · subst h; simp
    · have : beBytes 4 l₁ ≠ beBytes 4 l₂ := fun hh => h (beBytes_inj 4 _ _ h2 h4 hh)
      simp [h, this]
  rw [he, hl]

/-- corollary in the property's words: a smaller (epoch, lamport) pair gives a smaller id -/
theorem id_sorts_by_epoch_then_lamport (e₁ l₁ e₂ l₂ : Nat) (t₁ t₂ : Bytes)
    (h1 : e₁ < 4294967296) (h2 : l₁ < 4294967296) (h3 : e₂ < 4294967296) (h4 : l₂ < 4294967296)
    (h : e₁ < e₂ ∨ (e₁ = e₂ ∧ l₁ < l₂)) :
    lexLt (eventID e₁ l₁ t₁) (eventID e₂ l₂ t₂) = true := by
  rw [id_order _ _ _ _ _ _ h1 h2 h3 h4]
  rcases h with h | ⟨h, h'⟩
  · simp [h]
  · simp [h, h']

/-! ### non-vacuity / samples -/
example : beBytes 4 258 = [0, 0, 1, 2] := by decide
example : leBytes 4 258 = [2, 1, 0, 0] := by decide
example : lexLt (beBytes 4 255) (beBytes 4 256) = true := by decide
/-- little-endian does *not* preserve order (which is why the property only claims it for big-endian) -/
example : lexLt (leBytes 4 255) (leBytes 4 256) = false := by decide

end C32
