import LachesisVerif.Proofs.Ancestor
/-!
# C19 — Parent selection is well-formed

"Parent selection returns the given existing parents first and in order, followed by at most one
new option per strategy, never repeats a parent, adds only offered options, and stops early only
when no options remain. The metric strategy always picks an option of maximal metric."

Quantifier: all existing-parent lists, option lists with overlaps and duplicates, strategy counts
and metric values.

Model (`Model.Ancestor`): `chooseParents existing options calls`, where `calls[i]` records how
strategy `i` behaved *if it is consulted*: the slice of current options it was given (Go builds it
by iterating the option set, a map — any order) and the index it returned. Strategies and map
orders are thereby arbitrary; `callsOk` is the contract of the environment: a consulted strategy
saw a permutation of the options remaining at that moment and answered with an index inside the
slice (otherwise the Go code panics with an index error). The loop condition
`i < len(strategies) && len(optionsSet) > 0` and the update test of `MetricStrategy.Choose` are
regenerated kernels (`Gen.Emitter.chooseLoop`, `Gen.Emitter.chooseUpdate`).
-/
namespace C19
open Model.Ancestor Proofs.Ancestor

/-- `ChooseParents` = existing parents, in order, followed by `added` where: at most one option
    per strategy; only offered options that are not existing parents; no repetition; and fewer
    additions than strategies only if every offered option is already a parent. -/
theorem choose_parents_wellformed (existing options : List Nat) (calls : List Call)
    (hok : callsOk calls.length 0 calls (optionSet existing options) = true) :
    ∃ added, chooseParents existing options calls = existing ++ added ∧
      added.length ≤ calls.length ∧
      (∀ x ∈ added, x ∈ options ∧ x ∉ existing) ∧
      added.Nodup ∧
      (added.length < calls.length → ∀ x ∈ options, x ∈ existing ∨ x ∈ added) := by
  have := chooseFrom_spec existing options calls.length calls [] (optionSet existing options)
    (by simp) (by simpa using hok)
    (fun x hx => by
      have := (mem_optionSet existing options x).1 hx
      exact ⟨this.1, this.2, by simp⟩)
    (fun x hx => by
      by_cases he : x ∈ existing
      · exact Or.inl he
      · exact Or.inr (Or.inr ((mem_optionSet existing options x).2 ⟨hx, he⟩)))
    List.nodup_nil (by simp)
  obtain ⟨added, h1, h2, h3, h4, h5⟩ := this
  refine ⟨added, ?_, h2, h3, h4, h5⟩
  unfold chooseParents chooseTrace
  simp only [List.length_nil, List.append_nil] at h1
  rw [h1]

/-- The number of strategies consulted is the number of parents added (the judge of the
    correspondence stream compares it with the calls the real code made). -/
theorem calls_made_eq_added (existing options : List Nat) (calls : List Call)
    (hok : callsOk calls.length 0 calls (optionSet existing options) = true) :
    (chooseTrace existing options calls).1.length = existing.length + (chooseTrace existing options calls).2 := by
  have := chooseFrom_spec existing options calls.length calls [] (optionSet existing options)
    (by simp) (by simpa using hok)
    (fun x hx => by
      have := (mem_optionSet existing options x).1 hx
      exact ⟨this.1, this.2, by simp⟩)
    (fun x hx => by
      by_cases he : x ∈ existing
      · exact Or.inl he
      · exact Or.inr (Or.inr ((mem_optionSet existing options x).2 ⟨hx, he⟩)))
    List.nodup_nil (by simp)
  obtain ⟨added, h1, _⟩ := this
  unfold chooseTrace
  simp only [List.length_nil, List.append_nil] at h1
  rw [h1]; simp

/-- `MetricStrategy.Choose` returns a valid index of an option whose metric is maximal — for
    every metric assignment, including all metrics zero and the `maxWeight == 0` re-pick path. -/
theorem metric_choose_argmax (metrics : List Nat) (hne : metrics ≠ []) :
    metricChoose metrics < metrics.length ∧
    ∀ j, j < metrics.length → metrics.getD j 0 ≤ metrics.getD (metricChoose metrics) 0 := by
  have := metricChooseFrom_spec metrics [] 0 0 (fun _ => ⟨rfl, rfl⟩) (fun h => absurd rfl h) (by simp)
  simp only [List.nil_append, List.length_nil] at this
  refine ⟨this.1 hne, fun j hj => this.2 _ (getD_mem metrics j hj)⟩

/-! ### non-vacuity -/

/-- two strategies, options {3,4,5} after removing the existing parent 1 and duplicates -/
example : chooseParents [1, 2] [3, 1, 4, 3, 5] [⟨[5, 3, 4], 2⟩, ⟨[3, 5], 0⟩] = [1, 2, 4, 3] := by decide
example : callsOk 2 0 [⟨[5, 3, 4], 2⟩, ⟨[3, 5], 0⟩] (optionSet [1, 2] [3, 1, 4, 3, 5]) = true := by decide
/-- early stop: three strategies, one fresh option -/
example : chooseTrace [1] [1, 7, 7] [⟨[7], 0⟩, ⟨[], 0⟩, ⟨[], 0⟩] = ([1, 7], 1) := by decide
/-- all-zero metrics: the last option is returned (and is an argmax); ties: the first maximum -/
example : metricChoose [0, 0, 0] = 2 ∧ metricChoose [1, 5, 5, 2] = 1 ∧ metricChoose [0, 3, 0] = 1 := by decide

end C19
