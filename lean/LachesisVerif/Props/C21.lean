import LachesisVerif.Model.Doublesign
/-!
# C21 — Double-sign guard never permits emission too early

"Emission is permitted only when the node has a peer, has finished P2P sync, and each of the
last-connected, P2P-synced, became-validator and both external self-event timestamps lies at
least the threshold in the past; otherwise an error is returned together with a positive wait
equal to the longest remaining time (capped at the largest representable duration). A parallel
instance is reported exactly when an externally created self-event is not older than startup
and is younger than the threshold."

Instants are unbounded integers (ns); `Time.Sub` saturates (stdlib contract); durations are
int64. The theorems hold for every int64 threshold except the single value -2^63 (there the
saturated `Since` can no longer distinguish "older than the threshold"; stated as a hypothesis).
The wait equals the capped longest remaining time for every threshold ≥ 0 (`C21_synced_to_emit`)
and for every negative threshold whose stamps lie at most 2^63 ns ahead of `now`
(`C21_wait_any_threshold`); in the remaining corner it is only bounded, and differs by a few ns
(`C21_far_future_negative_threshold_witness`).
All comparisons and the `remaining` arithmetic are regenerated from the source (`Gen.Doublesign`).
-/
namespace C21
open Model.Doublesign

def stamps (s : Status) : List Int := [s.extDetected, s.extCreated, s.becameValidator, s.lastConnected, s.p2pSynced]

/-- remaining time of one stamp on the unbounded time line, capped at the largest duration -/
def rem (s : Status) (thr t : Int) : Int := min maxDur (thr - (s.now - t))

def Inv (m : Int × Option Err) : Prop := 0 ≤ m.1 ∧ (m.2 = none ↔ m.1 = 0)

theorem sub_cases (a b : Int) :
    (a - b < minDur ∧ sub a b = minDur) ∨ (maxDur < a - b ∧ sub a b = maxDur) ∨
    (minDur ≤ a - b ∧ a - b ≤ maxDur ∧ sub a b = a - b) := by
  unfold sub
  by_cases h1 : a - b < minDur
  · simp [h1]
  · by_cases h2 : a - b > maxDur
    · simp [h1, h2] <;> omega
    · simp [h1, h2] <;> omega

/-- the saturated `Since` decides "at least thr in the past" exactly, for thr > -2^63 -/
theorem since_ge_iff (s : Status) (t thr : Int) (h1 : minDur < thr) (h2 : thr ≤ maxDur) :
    s.since t < thr ↔ s.now - t < thr := by
  unfold Status.since
  rcases sub_cases s.now t with ⟨h, e⟩ | ⟨h, e⟩ | ⟨h, h', e⟩ <;> rw [e] <;> unfold minDur maxDur at * <;> omega

/-- the repaired `remaining` on a saturated `since` value: capped difference, positive -/
theorem remaining_val (thr sv : Int) (h1 : minDur < thr) (h2 : thr ≤ maxDur) (hb1 : minDur ≤ sv) (hb2 : sv ≤ maxDur)
    (hr : sv < thr) : remaining thr sv = min maxDur (thr - sv) ∧ 0 < min maxDur (thr - sv) := by
  unfold remaining Gen.Doublesign.remainingWait Gen.Doublesign.remainingOverflow Gen.Doublesign.remainingSaturated
  unfold minDur maxDur at *
  simp only [Bool.and_eq_true, decide_eq_true_eq]
  split <;> omega

/-- for non-negative thresholds the value is the capped true remaining time -/
theorem remaining_spec (s : Status) (t thr : Int) (h0 : 0 ≤ thr) (h2 : thr ≤ maxDur)
    (hr : s.since t < thr) : remaining thr (s.since t) = rem s thr t := by
  have h1 : minDur < thr := by unfold minDur; omega
  unfold Status.since at *
  rcases sub_cases s.now t with ⟨h, e⟩ | ⟨h, e⟩ | ⟨h, h', e⟩ <;> rw [e] at hr ⊢
  · rw [(remaining_val thr minDur h1 h2 (by unfold minDur; omega) (by unfold minDur maxDur; omega) hr).1]
    unfold rem minDur maxDur at *; omega
  · unfold maxDur at *; omega
  · rw [(remaining_val thr _ h1 h2 h h' hr).1]; rfl

/-- one guarded `max.apply(remaining(...), err)` step -/
def stepM (s : Status) (thr t : Int) (e : Err) (m : Int × Option Err) : Int × Option Err :=
  if decide (s.since t < thr) then apply m (remaining thr (s.since t)) e else m

theorem stepM_spec (s : Status) (thr t : Int) (e : Err) (m : Int × Option Err)
    (h1 : minDur < thr) (h2 : thr ≤ maxDur) (hm : Inv m) :
    Inv (stepM s thr t e m) ∧ (m.1 ≤ maxDur → (stepM s thr t e m).1 ≤ maxDur) ∧
    ((stepM s thr t e m).2 = none ↔ m.2 = none ∧ thr ≤ s.now - t) ∧
    (0 ≤ thr → (stepM s thr t e m).1 = max m.1 (rem s thr t)) := by
  unfold stepM
  have hb : minDur ≤ s.since t ∧ s.since t ≤ maxDur := by
    unfold Status.since
    rcases sub_cases s.now t with ⟨h, e⟩ | ⟨h, e⟩ | ⟨h, h', e⟩ <;> rw [e] <;> unfold minDur maxDur at * <;> omega
  by_cases hr : s.since t < thr
  · obtain ⟨hval, hpos⟩ := remaining_val thr (s.since t) h1 h2 hb.1 hb.2 hr
    have hlt := (since_ge_iff s t thr h1 h2).1 hr
    simp only [hr, decide_true, if_true, apply, Gen.Doublesign.applyCond]
    by_cases hc : m.1 < remaining thr (s.since t)
    · simp only [hc, decide_true, if_true]
      refine ⟨⟨by omega, by simp; omega⟩, fun _ => by rw [hval]; unfold maxDur; omega, by simp; omega, fun h0 => ?_⟩
      rw [← remaining_spec s t thr h0 h2 hr]; omega
    · simp only [hc, decide_false, Bool.false_eq_true, if_false]
      have hm0 : m.1 ≠ 0 := by omega
      have hmn : m.2 ≠ none := fun h => hm0 (hm.2.1 h)
      refine ⟨hm, fun h => h, by simp [hmn], fun h0 => ?_⟩
      rw [← remaining_spec s t thr h0 h2 hr]; omega
  · simp only [hr, decide_false, Bool.false_eq_true, if_false]
    have hge : ¬ s.now - t < thr := fun h => hr ((since_ge_iff s t thr h1 h2).2 h)
    refine ⟨hm, fun h => h, by simp; omega, fun _ => ?_⟩
    have := hm.1
    unfold rem maxDur; omega

/-- `SyncedToEmit` as the five guarded steps -/
theorem syncedToEmit_eq (s : Status) (thr : Int) (hp : s.peersNum ≠ 0) (hs : s.p2pSynced ≠ 0) :
    syncedToEmit s thr =
      stepM s thr s.p2pSynced .justP2PSynced
      (stepM s thr s.lastConnected .justConnected
      (stepM s thr s.becameValidator .justBecameValidator
      (stepM s thr s.extCreated .selfEventsOngoing
      (stepM s thr s.extDetected .selfEventsOngoing (0, none))))) := by
  simp only [syncedToEmit, Gen.Doublesign.noPeers, hp, decide_false, Bool.false_eq_true, if_false, hs]
  rfl

/-- the longest remaining time over the five stamps (0 if none is too recent) -/
def longest (s : Status) (thr : Int) : Int :=
  max (max (max (max (max 0 (rem s thr s.extDetected)) (rem s thr s.extCreated)) (rem s thr s.becameValidator))
    (rem s thr s.lastConnected)) (rem s thr s.p2pSynced)

/-- C21, first sentence. For every int64 threshold above -2^63: emission is permitted exactly when
    the node has a peer, finished P2P sync and all five stamps lie at least `thr` in the past (on
    the unbounded time line); otherwise an error is returned, and in the time-stamp case the wait is
    positive and at most 2^63-1. For thresholds ≥ 0 the wait is the longest remaining time capped
    at 2^63-1 (for negative thresholds and stamps more than 292 years ahead the cap is reached a
    few ns early, which is why that clause carries `0 ≤ thr`). -/
theorem C21_synced_to_emit (s : Status) (thr : Int) (h1 : minDur < thr) (h2 : thr ≤ maxDur) :
    ((syncedToEmit s thr).2 = none ↔
        s.peersNum ≠ 0 ∧ s.p2pSynced ≠ 0 ∧ ∀ t ∈ stamps s, thr ≤ s.now - t) ∧
    (s.peersNum ≠ 0 → s.p2pSynced ≠ 0 →
        ((syncedToEmit s thr).2 ≠ none → 0 < (syncedToEmit s thr).1 ∧ (syncedToEmit s thr).1 ≤ maxDur) ∧
        (0 ≤ thr → (syncedToEmit s thr).1 = longest s thr)) := by
  by_cases hp : s.peersNum = 0
  · simp [syncedToEmit, Gen.Doublesign.noPeers, hp]
  by_cases hs : s.p2pSynced = 0
  · simp [syncedToEmit, Gen.Doublesign.noPeers, hp, hs]
  rw [syncedToEmit_eq s thr hp hs]
  have i0 : Inv ((0 : Int), (none : Option Err)) := ⟨by simp, by simp⟩
  obtain ⟨i1, b1, n1, e1⟩ := stepM_spec s thr s.extDetected .selfEventsOngoing _ h1 h2 i0
  obtain ⟨i2, b2, n2, e2⟩ := stepM_spec s thr s.extCreated .selfEventsOngoing _ h1 h2 i1
  obtain ⟨i3, b3, n3, e3⟩ := stepM_spec s thr s.becameValidator .justBecameValidator _ h1 h2 i2
  obtain ⟨i4, b4, n4, e4⟩ := stepM_spec s thr s.lastConnected .justConnected _ h1 h2 i3
  obtain ⟨i5, b5, n5, e5⟩ := stepM_spec s thr s.p2pSynced .justP2PSynced _ h1 h2 i4
  refine ⟨?_, fun _ _ => ⟨fun hne => ?_, fun h0 => ?_⟩⟩
  · rw [n5, n4, n3, n2, n1]
    simp only [ne_eq, hp, not_false_eq_true, hs, true_and, stamps, List.mem_cons, List.not_mem_nil, or_false,
      forall_eq_or_imp, forall_eq]
    simp only [and_assoc]
  · have hpos : (stepM s thr s.p2pSynced .justP2PSynced _).1 ≠ 0 := fun h => hne (i5.2.2 h)
    have := i5.1
    have hb := b5 (b4 (b3 (b2 (b1 (by unfold maxDur; simp)))))
    exact ⟨by omega, hb⟩
  · rw [e5 h0, e4 h0, e3 h0, e2 h0, e1 h0]; rfl

/-- C21, second sentence: a parallel instance is reported exactly when the externally created
    self-event is not older than startup and younger than the threshold. -/
theorem C21_parallel_instance (s : Status) (thr : Int) (h1 : minDur < thr) (h2 : thr ≤ maxDur) :
    detectParallel s thr = true ↔ s.startup ≤ s.extCreated ∧ s.now - s.extCreated < thr := by
  unfold detectParallel Gen.Doublesign.parallelRecent
  by_cases hb : s.extCreated < s.startup
  · simp [hb]; omega
  · simp only [hb, if_false, decide_eq_true_eq, since_ge_iff s _ thr h1 h2]
    omega

/-! ### the defect repaired by the `fix:` commit (D6): the plain int64 subtraction wraps -/

/-- with the pre-fix expression `threshold - since` a stamp beyond the saturation range yields a
    negative "wait", `apply` ignores it and emission would be permitted -/
theorem C21_defect_plain_subtraction_wraps :
    Gen.Doublesign.remainingWait 1 minDur < 0 ∧
    apply (0, none) (Gen.Doublesign.remainingWait 1 minDur) .justConnected = (0, none) := by decide

/-- the repaired computation saturates instead -/
theorem C21_repaired_saturates : remaining 1 minDur = maxDur := by decide

/-! ### non-vacuity -/
example : (syncedToEmit ⟨1, 100, 0, 90, 90, 90, 90, 90⟩ 10).2 = none := by decide
example : syncedToEmit ⟨1, 100, 0, 95, 90, 90, 90, 90⟩ 10 = (5, some .justConnected) := by decide
example : detectParallel ⟨1, 100, 50, 0, 0, 0, 95, 0⟩ 10 = true := by decide

/-! ### negative thresholds -/


/-- the capped true remaining time also for negative thresholds, as long as the stamp is not more
    than 2^63 ns (292 years) ahead of `now` (there `Since` saturates and the code reaches the cap a
    few ns early) -/
theorem remaining_spec_near (s : Status) (t thr : Int) (h1 : minDur < thr) (h2 : thr ≤ maxDur)
    (hn : minDur ≤ s.now - t) (hr : s.since t < thr) : remaining thr (s.since t) = rem s thr t := by
  unfold Status.since at *
  rcases sub_cases s.now t with ⟨h, e⟩ | ⟨h, e⟩ | ⟨h, h', e⟩ <;> rw [e] at hr ⊢
  · omega
  · unfold maxDur at *; omega
  · rw [(remaining_val thr _ h1 h2 h h' hr).1]; rfl

theorem stepM_wait_near (s : Status) (thr t : Int) (e : Err) (m : Int × Option Err)
    (h1 : minDur < thr) (h2 : thr ≤ maxDur) (hm : Inv m) (hn : minDur ≤ s.now - t) :
    (stepM s thr t e m).1 = max m.1 (rem s thr t) := by
  unfold stepM
  by_cases hr : s.since t < thr
  · simp only [hr, decide_true, if_true, apply, Gen.Doublesign.applyCond]
    rw [remaining_spec_near s t thr h1 h2 hn hr]
    by_cases hc : m.1 < rem s thr t
    · simp only [hc, decide_true, if_true]; omega
    · simp only [hc, decide_false, Bool.false_eq_true, if_false]; omega
  · simp only [hr, decide_false, Bool.false_eq_true, if_false]
    have hge : ¬ s.now - t < thr := fun h => hr ((since_ge_iff s t thr h1 h2).2 h)
    have := hm.1
    unfold rem maxDur; omega

/-- C21, wait clause for EVERY int64 threshold above -2^63 (negative ones included): if no stamp
    lies more than 2^63 ns ahead of `now`, the wait is the longest remaining time capped at
    2^63-1. Together with `C21_synced_to_emit` this leaves open only negative thresholds combined
    with a stamp more than 292 years in the future. -/
theorem C21_wait_any_threshold (s : Status) (thr : Int) (h1 : minDur < thr) (h2 : thr ≤ maxDur)
    (hp : s.peersNum ≠ 0) (hs : s.p2pSynced ≠ 0) (hn : ∀ t ∈ stamps s, minDur ≤ s.now - t) :
    (syncedToEmit s thr).1 = longest s thr := by
  rw [syncedToEmit_eq s thr hp hs]
  have i0 : Inv ((0 : Int), (none : Option Err)) := ⟨by simp, by simp⟩
  simp only [stamps, List.mem_cons, List.not_mem_nil, or_false, forall_eq_or_imp, forall_eq] at hn
  obtain ⟨n1, n2, n3, n4, n5⟩ := hn
  obtain ⟨i1, -, -, -⟩ := stepM_spec s thr s.extDetected .selfEventsOngoing _ h1 h2 i0
  obtain ⟨i2, -, -, -⟩ := stepM_spec s thr s.extCreated .selfEventsOngoing _ h1 h2 i1
  obtain ⟨i3, -, -, -⟩ := stepM_spec s thr s.becameValidator .justBecameValidator _ h1 h2 i2
  obtain ⟨i4, -, -, -⟩ := stepM_spec s thr s.lastConnected .justConnected _ h1 h2 i3
  rw [stepM_wait_near s thr _ _ _ h1 h2 i4 n5, stepM_wait_near s thr _ _ _ h1 h2 i3 n4,
    stepM_wait_near s thr _ _ _ h1 h2 i2 n3, stepM_wait_near s thr _ _ _ h1 h2 i1 n2,
    stepM_wait_near s thr _ _ _ h1 h2 i0 n1]; rfl

/-- the excluded corner is real (and harmless): threshold -10 with a stamp 2^63+5 ns ahead of
    `now`: the saturated `Since` makes the code report 2^63-10 where the true remaining time
    is 2^63-5; emission is refused in both -/
theorem C21_far_future_negative_threshold_witness :
    syncedToEmit ⟨1, 0, 0, 9223372036854775813, 1, 1, 1, 1⟩ (-10) = (maxDur - 9, some .justConnected) ∧
    longest ⟨1, 0, 0, 9223372036854775813, 1, 1, 1, 1⟩ (-10) = maxDur - 4 := by decide

example : syncedToEmit ⟨1, 100, 0, 103, 120, 120, 120, 120⟩ (-10) = (10, some .selfEventsOngoing) := by decide
example : (∀ t ∈ stamps ⟨1, 100, 0, 103, 120, 120, 120, 120⟩, minDur ≤ (100:Int) - t) := by decide

end C21
