import LachesisVerif.Proofs.KVRange
import LachesisVerif.Props.C22
import LachesisVerif.Props.C24
/-!
# C23 — Storage backends and wrappers share one key-value semantics

"The memory, LevelDB and Pebble backends, and the table, flushable and synchronised wrappers over
any of them, behave as an ordered byte-string map for every sequence of puts, deletes, batch writes
and replays, gets, existence checks, prefix-and-start iterations and snapshots. Empty values are
distinct from absent keys."

What is proved here is the repository's own code around the engines: the prefix-range translation
`bytesPrefixRange` (LevelDB and Pebble variants, kernels regenerated from kvdb/pebble), Pebble's
iterator wrapper, the replay order of the wrappers' batches, and the **composition theorem**: if a
store refines `Spec.KV` then so do a table, a flushable store and a synchronised wrapper over it —
hence every stacking over a backend that refines `Spec.KV`. The memory backend is
`flushable` over an empty store, so it is covered by the theorem; that goleveldb and pebble
themselves are ordered maps with range iteration, batches and snapshots is **not** proved: they are
contract-modelled and tied by the `kv` correspondence stream only (every op sequence runs against
memory, LevelDB and Pebble, bare and under table/flushable/synced stackings).
-/
namespace C23
open Bytes Spec Spec.KV Model.Table Model.Flushable

/-! ### `bytesPrefixRange` -/

/-- LevelDB variant (`util.BytesPrefix` + start appended): the engine range is `iterSpec` -/
theorem ldb_bytesPrefixRange_spec (m : KV) (pfx : Option Bytes) (start : Bytes)
    (hp : IsBytes (pfx.getD [])) (hm : ∀ x ∈ m, IsBytes x.1) :
    rangeItems m (ldbRange pfx start).1 (ldbRange pfx start).2 = iterSpec m (pfx.getD []) start :=
  rangeItems_eq_iterSpec m _ start hp hm

/-- Pebble variant, including nil options for `(nil, nil)` and the empty non-nil lower bound -/
theorem pbl_bytesPrefixRange_spec (m : KV) (pfx : Option Bytes) (start : Bytes) (startNil : Bool)
    (hnil : startNil = true → start = []) (hp : IsBytes (pfx.getD [])) (hm : ∀ x ∈ m, IsBytes x.1) :
    (match pblRange pfx start startNil with
     | none => m
     | some r => rangeItems m r.1 r.2) = iterSpec m (pfx.getD []) start := by
  unfold pblRange Gen.Kv.rangeAll Gen.Kv.rangeHasPrefix
  cases pfx with
  | some p => simpa using rangeItems_eq_iterSpec m p start hp hm
  | none =>
    cases startNil with
    | true =>
      rw [hnil rfl]
      simp only [Option.isNone_none, Bool.and_self, if_true, Option.getD_none]
      unfold iterSpec
      exact (List.filter_eq_self.2 (fun x _ => by simp [isPrefix, lexLe_nil])).symm
    | false =>
      simp only [Option.isNone_none, Bool.and_false, Bool.false_eq_true, if_false, Option.isSome_none, Option.getD_none]
      unfold rangeItems iterSpec
      apply List.filter_congr
      intro x _
      simp [isPrefix]

/-- the two bounds enclose exactly the prefixed byte strings -/
theorem bytesPrefix_bounds (p k : Bytes) (hp : IsBytes p) (hk : IsBytes k) :
    isPrefix p k = true ↔ lexLe p k = true ∧ ∀ h, prefixLimit p = some h → lexLt k h = true :=
  prefixLimit_spec p k hp hk

/-- Pebble's iterator wrapper (`First` on the first `Next`): every item once, in order -/
theorem pebble_iterator_wrapper (items : KV) : PebbleIt.drain (items.length + 1) { items := items } = items :=
  PebbleIt.drain_fresh items

/-! ### the composition theorem -/

/-- the sequential interface of a `kvdb.Store` with state `σ` (`Put`/`Delete` = one-element
    batches; `iter` = `NewIterator(prefix, start)` drained; `snap` = `GetSnapshot`, read through
    the same `get`/`has`/`iter`) -/
structure Impl (σ : Type) where
  get : σ → Bytes → Option Bytes
  has : σ → Bytes → Bool
  iter : σ → Option Bytes → Bytes → KV
  write : σ → List Op → σ
  snap : σ → σ

/-- `I` refines `Spec.KV` through the abstraction `abs` on the states satisfying `inv` -/
structure Refines {σ : Type} (I : Impl σ) (inv : σ → Prop) (abs : σ → KV) : Prop where
  sorted : ∀ s, inv s → KV.Sorted (abs s)
  get : ∀ s k, inv s → I.get s k = KV.get (abs s) k
  has : ∀ s k, inv s → I.has s k = KV.has (abs s) k
  iter : ∀ s pfx start, inv s → I.iter s pfx start = iterSpec (abs s) (pfx.getD []) start
  write_inv : ∀ s b, inv s → inv (I.write s b)
  write : ∀ s b, inv s → abs (I.write s b) = applyBatch (abs s) b
  snap_inv : ∀ s, inv s → inv (I.snap s)
  snap : ∀ s, inv s → abs (I.snap s) = abs s

/-- the specification itself -/
def specImpl : Impl KV where
  get := KV.get
  has := KV.has
  iter := fun m pfx start => iterSpec m (pfx.getD []) start
  write := applyBatch
  snap := snapshot

theorem spec_refines : Refines specImpl KV.Sorted id :=
  ⟨fun _ h => h, fun _ _ _ => rfl, fun _ _ _ => rfl, fun _ _ _ _ => rfl, fun _ b h => sorted_applyBatch h b,
   fun _ _ _ => rfl, fun _ h => h, fun _ _ => rfl⟩

/-- kvdb/table over any store -/
def tableOver {σ : Type} (I : Impl σ) (p : Bytes) : Impl σ where
  get := fun s k => I.get s (prefixed k p)
  has := fun s k => I.has s (prefixed k p)
  iter := fun s ip start => iterOver (fun pf st => I.iter s (some pf) st) p ip start
  write := fun s b => I.write s (b.map (prefixOp p))
  snap := I.snap

theorem table_refines {σ : Type} {I : Impl σ} {inv : σ → Prop} {abs : σ → KV} (r : Refines I inv abs) (p : Bytes) :
    Refines (tableOver I p) inv (fun s => tableView p (abs s)) := by
  refine ⟨fun s h => sorted_tableView (r.sorted s h) p, ?_, ?_, ?_, fun s b h => r.write_inv s _ h, ?_,
    r.snap_inv, fun s h => by simp only [tableOver, r.snap s h]⟩
  · intro s k h
    simp only [tableOver]
    rw [r.get s _ h, get_tableView]; rfl
  · intro s k h
    simp only [tableOver, KV.has]
    rw [r.has s _ h, get_tableView]; rfl
  · intro s ip start h
    have : (tableOver I p).iter s ip start = Model.Table.iterate p (abs s) ip start := by
      simp only [tableOver, iterOver, Model.Table.iterate]
      rw [r.iter s _ start h]; rfl
    rw [this, C24.iter_commutes]
  · intro s b h
    simp only [tableOver]
    rw [r.write s _ h]
    exact C24.write_commutes (r.sorted s h) p b

/-- kvdb/flushable over any store: the state is the inner state plus the tree -/
def flushOver {σ : Type} (I : Impl σ) : Impl (σ × Overlay) where
  get := fun s k => getOver (I.get s.1) s.2 k
  has := fun s k => hasOver (I.has s.1) s.2 k
  iter := fun s pfx start => iterateOver (I.iter s.1 pfx start) s.2 pfx start
  write := fun s b => (s.1, (Model.Flushable.write { under := [], overlay := s.2 } b).overlay)
  snap := fun s => (I.snap s.1, s.2)

/-- `Flush` / `DropNotFlushed` of a flushable over any store -/
def flushOp {σ : Type} (I : Impl σ) (s : σ × Overlay) : σ × Overlay := (I.write s.1 (flushOps s.2), [])
def dropOp {σ : Type} (s : σ × Overlay) : σ × Overlay := (s.1, [])

theorem write_overlay (under : KV) (hu : KV.Sorted under) : ∀ (b : List Op) (st : St), Overlay.Sorted st.overlay →
    Overlay.Sorted (Model.Flushable.write st b).overlay ∧
    overlayApply under (Model.Flushable.write st b).overlay = applyBatch (overlayApply under st.overlay) b := by
  intro b
  induction b with
  | nil => intro st ho; exact ⟨ho, rfl⟩
  | cons op ops ih =>
    intro st ho
    unfold Model.Flushable.write applyBatch
    rw [List.foldl_cons, List.foldl_cons]
    cases op with
    | put k v =>
      have := ih (Model.Flushable.put st k v) (Overlay.sorted_put ho _ _)
      refine ⟨this.1, ?_⟩
      have e : overlayApply under (Model.Flushable.put st k v).overlay = applyOp (overlayApply under st.overlay) (.put k v) :=
        view_put_some hu ho k v
      rw [← e]; exact this.2
    | del k =>
      have := ih (Model.Flushable.delete st k) (Overlay.sorted_put ho _ _)
      refine ⟨this.1, ?_⟩
      have e : overlayApply under (Model.Flushable.delete st k).overlay = applyOp (overlayApply under st.overlay) (.del k) :=
        view_put_none hu ho k
      rw [← e]; exact this.2

theorem flushable_refines {σ : Type} {I : Impl σ} {inv : σ → Prop} {abs : σ → KV} (r : Refines I inv abs) :
    Refines (flushOver I) (fun s => inv s.1 ∧ Overlay.Sorted s.2) (fun s => overlayApply (abs s.1) s.2) := by
  refine ⟨fun s h => sorted_overlayApply (r.sorted _ h.1) _, ?_, ?_, ?_, ?_, ?_, fun s h => ⟨r.snap_inv _ h.1, h.2⟩,
    fun s h => by simp only [flushOver, r.snap _ h.1]⟩
  · intro s k h
    simp only [flushOver, getOver]
    rw [get_overlayApply h.2]
    cases Overlay.lookup s.2 k with
    | some e => rfl
    | none => exact r.get _ _ h.1
  · intro s k h
    simp only [flushOver, hasOver, KV.has]
    rw [get_overlayApply h.2]
    cases Overlay.lookup s.2 k with
    | some e => rfl
    | none => simp only; rw [r.has _ _ h.1]; rfl
  · intro s pfx start h
    simp only [flushOver]
    rw [r.iter _ _ _ h.1]
    exact iterateOver_iterSpec (r.sorted _ h.1) h.2 pfx start
  · intro s b h
    exact ⟨h.1, (write_overlay (abs s.1) (r.sorted _ h.1) b { under := [], overlay := s.2 } h.2).1⟩
  · intro s b h
    exact (write_overlay (abs s.1) (r.sorted _ h.1) b { under := [], overlay := s.2 } h.2).2

/-- flushing through any refined store: the inner store becomes the view, the view is unchanged;
    dropping restores the inner view -/
theorem flushable_flush_drop {σ : Type} {I : Impl σ} {inv : σ → Prop} {abs : σ → KV} (r : Refines I inv abs)
    (s : σ × Overlay) (h : inv s.1) :
    abs (flushOp I s).1 = overlayApply (abs s.1) s.2 ∧ (flushOp I s).2 = [] ∧ inv (flushOp I s).1 ∧
    overlayApply (abs (flushOp I s).1) (flushOp I s).2 = overlayApply (abs s.1) s.2 ∧
    overlayApply (abs (dropOp s).1) (dropOp s).2 = abs s.1 := by
  have e : abs (flushOp I s).1 = overlayApply (abs s.1) s.2 := by
    simp only [flushOp]; rw [r.write _ _ h, applyBatch_flushOps]
  exact ⟨e, rfl, r.write_inv _ _ h, by rw [e]; rfl, rfl⟩

/-- kvdb/synced over any store: every method takes the lock and forwards (the sequential
    semantics is the identity) -/
def syncedOver {σ : Type} (I : Impl σ) : Impl σ where
  get := fun s k => I.get s k
  has := fun s k => I.has s k
  iter := fun s pfx start => I.iter s pfx start
  write := fun s b => I.write s b
  snap := fun s => I.snap s

theorem synced_refines {σ : Type} {I : Impl σ} {inv : σ → Prop} {abs : σ → KV} (r : Refines I inv abs) :
    Refines (syncedOver I) inv abs :=
  ⟨r.sorted, r.get, r.has, r.iter, r.write_inv, r.write, r.snap_inv, r.snap⟩

/-- the memory backend is a flushable store over an always-empty store -/
theorem memorydb_refines :
    Refines (flushOver specImpl) (fun s => s.1 = [] ∧ Overlay.Sorted s.2) (fun s => overlayApply [] s.2) := by
  have r := flushable_refines spec_refines
  have hi : ∀ ov : Overlay, Overlay.Sorted ov → (KV.Sorted (([], ov) : KV × Overlay).1 ∧ Overlay.Sorted (([], ov) : KV × Overlay).2) :=
    fun ov ho => ⟨sorted_nil, ho⟩
  refine ⟨?_, ?_, ?_, ?_, ?_, ?_, fun s h => ⟨h.1, h.2⟩, fun s h => rfl⟩
  · rintro ⟨s1, ov⟩ ⟨h1, ho⟩; cases h1; exact r.sorted ([], ov) (hi ov ho)
  · rintro ⟨s1, ov⟩ k ⟨h1, ho⟩; cases h1; exact r.get ([], ov) k (hi ov ho)
  · rintro ⟨s1, ov⟩ k ⟨h1, ho⟩; cases h1; exact r.has ([], ov) k (hi ov ho)
  · rintro ⟨s1, ov⟩ pfx start ⟨h1, ho⟩; cases h1; exact r.iter ([], ov) pfx start (hi ov ho)
  · rintro ⟨s1, ov⟩ b ⟨h1, ho⟩; cases h1; exact ⟨rfl, (r.write_inv ([], ov) b (hi ov ho)).2⟩
  · rintro ⟨s1, ov⟩ b ⟨h1, ho⟩; cases h1; exact r.write ([], ov) b (hi ov ho)

/-- a sample stacking: a flushable store over a table over a synchronised wrapper over any refined
    backend refines `Spec.KV` (each wrapper theorem applies to whatever is below it) -/
theorem stacking_refines {σ : Type} {I : Impl σ} {inv : σ → Prop} {abs : σ → KV} (r : Refines I inv abs) (p : Bytes) :
    Refines (flushOver (tableOver (syncedOver I) p)) (fun s => inv s.1 ∧ Overlay.Sorted s.2)
      (fun s => overlayApply (tableView p (abs s.1)) s.2) :=
  flushable_refines (table_refines (synced_refines r) p)

/-! ### batch replay order -/

/-- a refined store that receives the replay of a table batch or of a flushable batch ends as if
    the batch's operations had been written to it in the order they were added -/
theorem replay_into_refined_store {σ : Type} {I : Impl σ} {inv : σ → Prop} {abs : σ → KV} (r : Refines I inv abs)
    (s : σ) (h : inv s) (p : Bytes) (b : List Op) :
    abs (I.write s (Model.Table.replay p b)) = applyBatch (abs s) b ∧
    abs (I.write s (Model.Flushable.replay b)) = applyBatch (abs s) b := by
  rw [C24.replay_commutes]
  exact ⟨r.write s b h, r.write s b h⟩

/-- kvdb/leveldb `batch.Replay` into a flushable batch (or store) hands over exactly the recorded
    operations, empty values included (goleveldb's nil-for-empty is undone by the replayer) -/
theorem ldb_replay_keeps_ops (b : List Op) : ((ldbEngineReplay b).map ldbReplayer).map cacheBatchOp = b := by
  unfold ldbEngineReplay
  rw [List.map_map, List.map_map]
  conv => rhs; rw [← List.map_id b]
  apply List.map_congr_left
  intro op _
  cases op with
  | del k => rfl
  | put k v =>
    cases v with
    | nil => rfl
    | cons a as => rfl

/-- negative witness, pre-fix behaviour (before 228cf31 the replayer forwarded the nil value):
    an empty value replayed from a LevelDB batch reached the flushable batch as a deletion -/
example : (ldbEngineReplay [.put [1] []]).map cacheBatchOp = [.del [1]] ∧
    (ldbEngineReplay [.put [1] []]).map cacheBatchOp ≠ [.put [1] []] := by decide

/-- empty values are values: writing `k ↦ ""` makes `k` present in every refined store -/
theorem empty_value_is_present {σ : Type} {I : Impl σ} {inv : σ → Prop} {abs : σ → KV} (r : Refines I inv abs)
    (s : σ) (h : inv s) (k : Bytes) :
    I.get (I.write s [.put k []]) k = some [] ∧ I.has (I.write s [.put k []]) k = true ∧
    I.get (I.write s [.del k]) k = none := by
  have hi1 := r.write_inv s [.put k []] h
  have hi2 := r.write_inv s [.del k] h
  rw [r.get _ _ hi1, r.has _ _ hi1, r.get _ _ hi2, r.write _ _ h, r.write _ _ h]
  simp [applyBatch, applyOp, KV.has, get_insert, get_erase]

/-! ### non-vacuity -/

example : prefixLimit [0, 255] = some [1] ∧ prefixLimit [255, 255] = none ∧ prefixLimit [] = none ∧ prefixLimit [1, 254, 255] = some [1, 255] := by decide
example : ldbRange (some [0, 255]) [7] = ([0, 255, 7], some [1]) := by decide
example : pblRange none [] true = none ∧ pblRange none [] false = some ([], none) ∧ pblRange (some [255]) [1] true = some ([255, 1], none) := by decide
example : rangeItems C24.exM [0, 255] (some [1]) = iterSpec C24.exM [0, 255] [] := by decide
example : (flushOver (tableOver specImpl [0])).iter (C24.exM, [([255], none), ([255, 7], some [])]) (some [255]) [] = [([255, 0], []), ([255, 7], []), ([255, 255], [3])] := by decide

end C23
