import LachesisVerif.Model.Check
/-!
# C13 — Event checkers accept exactly well-formed events

"The combined basic, epoch and parents checks accept an event exactly when its sequence, epoch,
frame and Lamport values are all non-zero and below 2^31-2, its parents are distinct and present
whenever its sequence exceeds 1, its epoch is the current one and its creator a current
validator, and its Lamport time is one more than the largest parent Lamport time. In addition,
the event's only parent by its own creator must be its first parent, present exactly when its
sequence exceeds 1 and carrying a sequence one lower."

`Model.Check.validate` is built from the conditions regenerated from eventcheck/*
(`Gen.Check`). All event and parent fields are `uint32` in Go; this is the hypothesis `U32`.
-/
namespace C13
open Model.Check

/-- largest parent Lamport time (0 if there are no parents) -/
def maxL : List Parent → Nat
  | [] => 0
  | p :: ps => max p.lamport (maxL ps)

/-- the property's sentence -/
structure WellFormed (cur : Nat) (isVal : Nat → Bool) (e : Ev) (ps : List Parent) : Prop where
  seq_ok : 0 < e.seq ∧ e.seq < 2147483646
  epoch_ok : 0 < e.epoch ∧ e.epoch < 2147483646
  frame_ok : 0 < e.frame ∧ e.frame < 2147483646
  lamport_ok : 0 < e.lamport ∧ e.lamport < 2147483646
  parents_distinct : ps.Pairwise (fun p q => p.id ≠ q.id)
  parents_present : 1 < e.seq → ps ≠ []
  epoch_current : e.epoch = cur
  creator_valid : isVal e.creator = true
  lamport_next : e.lamport = maxL ps + 1
  /-- the only parent by the event's own creator is the first one, present exactly when seq > 1,
      carrying a sequence one lower -/
  self_parent : match ps with
    | [] => True
    | first :: rest =>
        (first.creator = e.creator ↔ 1 < e.seq) ∧ (∀ q ∈ rest, q.creator ≠ e.creator) ∧
        (1 < e.seq → first.seq + 1 = e.seq)

/-- Go's field types -/
structure U32 (e : Ev) (ps : List Parent) : Prop where
  ev : e.seq < 4294967296 ∧ e.epoch < 4294967296 ∧ e.frame < 4294967296 ∧ e.lamport < 4294967296
  par : ∀ p ∈ ps, p.seq < 4294967296 ∧ p.lamport < 4294967296

/-! ### helper lemmas -/

theorem nDistinct_le (l : List Nat) : nDistinct l ≤ l.length := by
  induction l with
  | nil => simp [nDistinct]
  | cons x xs ih => simp only [nDistinct, List.length_cons]; split <;> omega

theorem nDistinct_eq_iff (l : List Nat) : nDistinct l = l.length ↔ l.Pairwise (· ≠ ·) := by
  induction l with
  | nil => simp [nDistinct]
  | cons x xs ih =>
    have hle := nDistinct_le xs
    simp only [nDistinct, List.length_cons, List.pairwise_cons]
    by_cases hc : xs.contains x = true
    · simp only [hc, if_true]
      constructor
      · intro h; omega
      · intro ⟨h, _⟩
        have : x ∈ xs := by simpa using hc
        exact absurd rfl (h x this)
    · simp only [hc]
      have hnot : x ∉ xs := by simpa using hc
      constructor
      · intro h
        refine ⟨fun a ha hxa => hnot (hxa ▸ ha), ih.1 (by simpa using h)⟩
      · intro ⟨_, h⟩
        have := ih.2 h
        simp [this]

theorem pairwise_ids (ps : List Parent) :
    (ps.map (·.id)).Pairwise (· ≠ ·) ↔ ps.Pairwise (fun p q => p.id ≠ q.id) := by
  rw [List.pairwise_map]

theorem maxLamport_foldl (ps : List Parent) (a : Nat) :
    ps.foldl (fun m p => if m > p.lamport then m else p.lamport) a = max a (maxL ps) := by
  induction ps generalizing a with
  | nil => simp [maxL]
  | cons p ps ih =>
    simp only [List.foldl_cons, ih, maxL]
    split <;> omega

theorem maxLamport_eq (ps : List Parent) : maxLamport ps = maxL ps := by
  unfold maxLamport
  rw [maxLamport_foldl]
  omega

theorem maxL_lt (ps : List Parent) (h : ∀ p ∈ ps, p.lamport < 4294967296) : maxL ps < 4294967296 := by
  induction ps with
  | nil => simp [maxL]
  | cons p ps ih =>
    have h1 := h p List.mem_cons_self
    have h2 := ih (fun q hq => h q (List.mem_cons_of_mem _ hq))
    simp only [maxL]
    omega

/-- `validate` accepts iff none of the rejecting conditions fires (pure unfolding of the chain) -/
theorem validate_none_iff (cur : Nat) (isVal : Nat → Bool) (e : Ev) (ps : List Parent) :
    validate cur isVal e ps = none ↔
      (Gen.Check.hugeValue e.seq e.epoch e.frame e.lamport = false ∧
       Gen.Check.notInited e.seq e.epoch e.frame e.lamport = false ∧
       Gen.Check.noParents e.seq ps.length = false ∧
       Gen.Check.doubleParents (nDistinct (ps.map (·.id))) ps.length = false ∧
       Gen.Check.notRelevant e.epoch cur = false ∧
       Gen.Check.notAuth (isVal e.creator) = false ∧
       Gen.Check.wrongLamport e.lamport (maxLamport ps) = false ∧
       ps.any (fun p => Gen.Check.wrongSelfParentAt p.creator e.creator (isSelfParent e ps p.id)) = false ∧
       Gen.Check.wrongSeqFirst e.seq (noSelfParent e ps) = false ∧
       (noSelfParent e ps = false → match ps with
          | [] => True
          | sp :: _ => isSelfParent e ps sp.id = true ∧ Gen.Check.wrongSeqNext e.seq sp.seq = false)) := by
  unfold validate basic epochCheck parentsCheck
  generalize Gen.Check.hugeValue e.seq e.epoch e.frame e.lamport = b1
  generalize Gen.Check.notInited e.seq e.epoch e.frame e.lamport = b2
  generalize Gen.Check.noParents e.seq ps.length = b3
  generalize Gen.Check.doubleParents (nDistinct (ps.map (·.id))) ps.length = b4
  generalize Gen.Check.notRelevant e.epoch cur = b5
  generalize Gen.Check.notAuth (isVal e.creator) = b6
  generalize Gen.Check.wrongLamport e.lamport (maxLamport ps) = b7
  generalize ps.any (fun p => Gen.Check.wrongSelfParentAt p.creator e.creator (isSelfParent e ps p.id)) = b8
  generalize Gen.Check.wrongSeqFirst e.seq (noSelfParent e ps) = b9
  generalize noSelfParent e ps = b10
  cases b1 <;> simp
  cases b2 <;> simp
  cases b3 <;> simp
  cases b4 <;> simp
  cases b5 <;> simp
  cases b6 <;> simp
  cases b7 <;> simp
  cases b8 <;> simp
  cases b9 <;> simp
  cases b10 <;> simp
  cases ps with
  | nil => simp
  | cons sp rest =>
    simp only
    generalize isSelfParent e (sp :: rest) sp.id = b11
    generalize Gen.Check.wrongSeqNext e.seq sp.seq = b12
    cases b11 <;> cases b12 <;> simp

/-! ### the theorem -/

/-- C13: the combined checkers accept exactly the well-formed events. -/
theorem C13_validate_iff (cur : Nat) (isVal : Nat → Bool) (e : Ev) (ps : List Parent) (hu : U32 e ps) :
    validate cur isVal e ps = none ↔ WellFormed cur isVal e ps := by
  rw [validate_none_iff]
  have hml := maxL_lt ps (fun p hp => (hu.par p hp).2)
  obtain ⟨hs32, he32, hf32, hl32⟩ := hu.ev
  simp only [Gen.Check.hugeValue, Gen.Check.notInited, Gen.Check.noParents, Gen.Check.doubleParents,
    Gen.Check.notRelevant, Gen.Check.notAuth, Gen.Check.wrongLamport, Gen.Check.wrongSeqFirst,
    Gen.Check.wrongSeqNext, Gen.Check.wrongSelfParentAt, maxLamport_eq, noSelfParent, Gen.Check.noSelfParent,
    isSelfParent]
  constructor
  · rintro ⟨h1, h2, h3, h4, h5, h6, h7, h8, h9, h10⟩
    simp only [Bool.or_eq_false_iff, decide_eq_false_iff_not, Bool.and_eq_false_imp, decide_eq_true_eq,
      Bool.not_eq_false', Nat.not_le, Nat.not_lt, ne_eq, Decidable.not_not, Bool.not_eq_eq_eq_not, Bool.not_true] at h1 h2 h3 h4 h5 h6 h7
    have hdist : ps.Pairwise (fun p q => p.id ≠ q.id) := (pairwise_ids ps).1 ((nDistinct_eq_iff _).1 (by simpa using h4))
    have hlam : e.lamport = maxL ps + 1 := by
      have : (maxL ps + 1) % 4294967296 = e.lamport := by simpa [eq_comm] using h7
      omega
    refine ⟨by omega, by omega, by omega, by omega, hdist, ?_, h5, h6, hlam, ?_⟩
    · intro hs hnil; subst hnil; simp at h3; omega
    · cases ps with
      | nil => trivial
      | cons sp rest =>
        have hsp := (List.pairwise_cons.1 hdist).1
        simp only [List.any_cons, Bool.or_eq_false_iff, List.any_eq_false] at h8
        simp only [List.length_cons, Nat.add_eq_zero_iff, Nat.succ_ne_zero, and_false, decide_false, Bool.or_false] at h8 h9 h10
        obtain ⟨h8a, h8b⟩ := h8
        by_cases hs : e.seq ≤ 1
        · simp only [hs, decide_true, if_true] at h8a h8b
          refine ⟨?_, ?_, fun h => by omega⟩
          · constructor
            · intro hc; simp [hc] at h8a
            · intro h; omega
          · intro q hq hc
            have := h8b q hq
            simp [hc] at this
        · have hs' : 1 < e.seq := by omega
          simp only [hs, decide_false, Bool.false_eq_true, if_false] at h8a h8b h10
          refine ⟨?_, ?_, ?_⟩
          · constructor
            · intro _; exact hs'
            · intro _; simpa using h8a
          · intro q hq hc
            have := h8b q hq
            have hne : sp.id ≠ q.id := hsp q hq
            simp [hc, hne] at this
          · intro _
            have := (h10 trivial).2
            have hsq := (hu.par sp List.mem_cons_self).1
            have hq : e.seq = (sp.seq + 1) % 4294967296 := Decidable.not_not.1 (of_decide_eq_false this)
            omega
  · intro w
    obtain ⟨⟨a1, a2⟩, ⟨b1, b2⟩, ⟨c1, c2⟩, ⟨d1, d2⟩⟩ := And.intro w.seq_ok (And.intro w.epoch_ok (And.intro w.frame_ok w.lamport_ok))
    have hdist := w.parents_distinct
    have hnd : nDistinct (ps.map (·.id)) = ps.length := by
      have := (nDistinct_eq_iff (ps.map (·.id))).2 ((pairwise_ids ps).2 hdist)
      simpa using this
    have hlam := w.lamport_next
    have hsp := w.self_parent
    refine ⟨by simp; omega, by simp; omega, ?_, by simp [hnd], by simp [w.epoch_current], by simp [w.creator_valid],
      ?_, ?_, ?_, ?_⟩
    · simp only [Bool.and_eq_false_imp, decide_eq_true_eq, decide_eq_false_iff_not]
      intro hs hl
      exact w.parents_present hs (List.length_eq_zero_iff.1 hl)
    · simp only [decide_eq_false_iff_not, ne_eq, Decidable.not_not]
      rw [Nat.mod_eq_of_lt (by omega)]; exact hlam
    · cases ps with
      | nil => simp
      | cons sp rest =>
        obtain ⟨p1, p2, p3⟩ := hsp
        have hne := (List.pairwise_cons.1 hdist).1
        simp only [List.any_cons, Bool.or_eq_false_iff, List.any_eq_false, List.length_cons, Nat.add_eq_zero_iff,
          Nat.succ_ne_zero, and_false, decide_false, Bool.or_false]
        by_cases hs : e.seq ≤ 1
        · have hnc : sp.creator ≠ e.creator := fun hc => by have := p1.1 hc; omega
          simp only [hs, decide_true, if_true]
          refine ⟨by simp [hnc], fun q hq => by simp [p2 q hq]⟩
        · have hc : sp.creator = e.creator := p1.2 (by omega)
          simp only [hs, decide_false, Bool.false_eq_true, if_false]
          refine ⟨by simp [hc], fun q hq => ?_⟩
          have : sp.id ≠ q.id := hne q hq
          simp [p2 q hq, this]
    · cases ps with
      | nil =>
        have : ¬ 1 < e.seq := fun h => w.parents_present h rfl
        simp; omega
      | cons sp rest =>
        simp only [List.length_cons, Nat.add_eq_zero_iff, Nat.succ_ne_zero, and_false, decide_false, Bool.or_false]
        by_cases hs : e.seq ≤ 1
        · have : e.seq = 1 := by omega
          simp [this]
        · have : e.seq ≠ 1 := by omega
          simp [hs, this]
    · intro hno
      cases ps with
      | nil => trivial
      | cons sp rest =>
        obtain ⟨p1, p2, p3⟩ := hsp
        simp only [List.length_cons, Nat.add_eq_zero_iff, Nat.succ_ne_zero, and_false, decide_false, Bool.or_false,
          decide_eq_false_iff_not, Nat.not_le] at hno
        have hsq := (hu.par sp List.mem_cons_self).1
        have := p3 hno
        have hs : ¬ e.seq ≤ 1 := by omega
        simp only [List.length_cons, Nat.add_eq_zero_iff, Nat.succ_ne_zero, and_false, decide_false, Bool.or_false, hs,
          Bool.false_eq_true, if_false, beq_self_eq_true, true_and, decide_eq_false_iff_not, ne_eq, Decidable.not_not]
        rw [Nat.mod_eq_of_lt (by omega)]; omega

/-! ### non-vacuity: a concrete well-formed event with a self-parent and another parent -/
example : validate 3 (fun c => c == 1 || c == 2) ⟨3, 2, 1, 8, 1⟩ [⟨100, 1, 1, 7⟩, ⟨101, 2, 4, 5⟩] = none := by decide
example : validate 3 (fun c => c == 1 || c == 2) ⟨3, 2, 1, 8, 1⟩ [⟨101, 2, 4, 5⟩, ⟨100, 1, 1, 7⟩] = some .wrongSelfParent := by decide

end C13
