namespace C29
theorem stub : True := trivial
end C29
