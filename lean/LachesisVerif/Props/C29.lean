import LachesisVerif.Model.Wlru
/-!
# C29 — Weighted LRU caches follow the LRU model

"After every operation, a weighted LRU cache holds no more entries and total weight than
configured (an entry heavier than the bound is evicted at once), evicts least-recently used entries
first (gets and re-adds refresh recency, peeks and contains do not), reports each removed entry to
the eviction callback exactly once, and lists keys from oldest to newest."

Model: `Model.Wlru` (eviction list oldest first, the `normalize` condition and the weight
subtractions regenerated from the source). All theorems quantify over **all operation sequences**
from a fresh cache (`run (new mw ms) ops`; an arbitrary sequence includes all its prefixes, so a
statement about the state after `ops` is a statement about the state after every operation).

Recency is defined against the *history*, not the list: `lastTouch tr k` is the position in the
observable trace `tr` (operations with their outputs) of the last operation that touched `k` —
`Add k`, `Get k`, and `ContainsOrAdd`/`PeekOrAdd k` when they report "not found" (they then add);
`Peek`, `Contains` and the `…OrAdd` hits are not touches.

Interpretation (DESIGN §2.6): `maxSize ≥ 0` (sizes are naturals; the Go loop does not terminate
for a negative size) and `uint` weight sums do not wrap.
-/
namespace C29
open Model.Wlru

/-! ## list lemmas -/

theorem sumW_append (a b : List Entry) : sumW (a ++ b) = sumW a + sumW b := by
  induction a with
  | nil => simp [sumW]
  | cons e a ih => simp [sumW, ih]; omega

theorem lookup_none (l : List Entry) (k : Nat) (h : lookup l k = none) : ∀ e ∈ l, e.key ≠ k := by
  intro e he hk
  have := List.find?_eq_none.mp h e he
  simp [hk] at this

theorem lookup_some (l : List Entry) (k : Nat) (e : Entry) (h : lookup l k = some e) : e ∈ l ∧ e.key = k := by
  refine ⟨List.mem_of_find?_eq_some h, ?_⟩
  have := List.find?_some h
  simpa using this

theorem erase_of_none (l : List Entry) (k : Nat) (h : lookup l k = none) : erase l k = l := by
  unfold erase
  apply List.filter_eq_self.mpr
  intro e he
  simpa using lookup_none l k h e he

theorem mem_erase (l : List Entry) (k : Nat) (e : Entry) : e ∈ erase l k ↔ e ∈ l ∧ e.key ≠ k := by
  unfold erase; simp

theorem erase_sublist (l : List Entry) (k : Nat) : (erase l k).Sublist l := List.filter_sublist

def NodupKeys (l : List Entry) : Prop := l.Pairwise (fun a b => a.key ≠ b.key)

theorem NodupKeys.sublist {l l' : List Entry} (h : NodupKeys l) (s : l'.Sublist l) : NodupKeys l' :=
  List.Pairwise.sublist s h

/-- with distinct keys, the entry found under `k` and the rest make up the list -/
theorem perm_lookup (l : List Entry) (k : Nat) (e : Entry) (hn : NodupKeys l) (h : lookup l k = some e) :
    l.Perm (e :: erase l k) := by
  induction l with
  | nil => simp [lookup] at h
  | cons x l ih =>
    have hn' := List.pairwise_cons.mp hn
    unfold lookup at h
    rw [List.find?_cons] at h
    by_cases hx : x.key = k
    · simp [hx] at h
      subst h
      have : erase (x :: l) k = l := by
        unfold erase
        rw [List.filter_cons]
        simp [hx]
        intro y hy
        have := hn'.1 y hy
        rw [hx] at this
        exact fun h => this h.symm
      rw [this]
    · have hx' : (x.key == k) = false := by simpa using hx
      rw [hx'] at h
      have e1 : erase (x :: l) k = x :: erase l k := by
        unfold erase; rw [List.filter_cons]; simp [hx]
      rw [e1]
      exact ((ih hn'.2 h).cons x).trans (List.Perm.swap e x _)

theorem sumW_perm {a b : List Entry} (h : a.Perm b) : sumW a = sumW b := by
  induction h with
  | nil => rfl
  | cons x _ ih => simp [sumW, ih]
  | swap x y l => simp [sumW]; omega
  | trans _ _ ih1 ih2 => exact ih1.trans ih2

theorem sumW_lookup (l : List Entry) (k : Nat) (e : Entry) (hn : NodupKeys l) (h : lookup l k = some e) :
    sumW l = e.weight + sumW (erase l k) := by
  rw [sumW_perm (perm_lookup l k e hn h)]; rfl

theorem weight_le_sumW (l : List Entry) (e : Entry) (h : e ∈ l) : e.weight ≤ sumW l := by
  induction l with
  | nil => cases h
  | cons x l ih =>
    rcases List.mem_cons.mp h with rfl | h
    · simp [sumW]
    · have := ih h; simp [sumW]; omega

/-- the list after the insert/update half of Add has distinct keys -/
theorem nodup_insert (l : List Entry) (e : Entry) (hn : NodupKeys l) : NodupKeys (erase l e.key ++ [e]) := by
  unfold NodupKeys
  rw [List.pairwise_append]
  refine ⟨hn.sublist (erase_sublist _ _), by simp, ?_⟩
  intro a ha b hb
  simp at hb; subst hb
  exact ((mem_erase _ _ _).mp ha).2

/-! ## the `normalize` loop -/

/-- `normalize` removes a prefix of the (oldest-first) list — the oldest entries, in order — and
reports exactly that prefix; the weight counter stays the sum of the remaining weights; on exit
both bounds hold. -/
theorem evictLoop_spec (mw ms : Nat) : ∀ (l : List Entry) (w : Nat),
    (evictLoop mw ms l w).2.2 ++ (evictLoop mw ms l w).1 = l ∧
    (w = sumW l → (evictLoop mw ms l w).2.1 = sumW (evictLoop mw ms l w).1 ∧
      (evictLoop mw ms l w).2.1 ≤ mw ∧ (evictLoop mw ms l w).1.length ≤ ms) := by
  intro l
  induction l with
  | nil => intro w; simp [evictLoop, sumW]; intro h; omega
  | cons e rest ih =>
    intro w
    unfold evictLoop
    by_cases hc : Gen.Wlru.normalizeCond w mw (rest.length + 1) ms = true
    · rw [if_pos hc]
      have := ih (Gen.Wlru.removeSub w e.weight)
      refine ⟨by simp [this.1], ?_⟩
      intro hw
      apply this.2
      unfold Gen.Wlru.removeSub; rw [hw]; simp [sumW]
    · rw [if_neg hc]
      refine ⟨by simp, ?_⟩
      intro hw
      unfold Gen.Wlru.normalizeCond at hc
      simp at hc
      show w = sumW (e :: rest) ∧ w ≤ mw ∧ (e :: rest).length ≤ ms
      exact ⟨hw, by omega, by simp; omega⟩

/-- nothing is evicted needlessly: every eviction happened while a bound was exceeded -/
theorem evict_only_when_over (mw ms : Nat) : ∀ (l : List Entry) (w : Nat) (a : List Entry) (x : Entry) (b : List Entry),
    (evictLoop mw ms l w).2.2 = a ++ x :: b →
    (w - sumW a > mw ∨ l.length - a.length > ms) := by
  intro l
  induction l with
  | nil => intro w a x b h; simp [evictLoop] at h
  | cons e rest ih =>
    intro w a x b h
    unfold evictLoop at h
    by_cases hc : Gen.Wlru.normalizeCond w mw (rest.length + 1) ms = true
    · rw [if_pos hc] at h
      simp only at h
      cases a with
      | nil =>
        unfold Gen.Wlru.normalizeCond at hc
        simp at hc
        simp [sumW]; omega
      | cons a0 a' =>
        simp at h
        obtain ⟨rfl, h⟩ := h
        have := ih _ a' x b h
        unfold Gen.Wlru.removeSub at this
        simp [sumW]; omega
    · rw [if_neg hc] at h; simp at h

/-! ## bounds after every operation -/

/-- well-formed: the counter is the sum of the weights, keys are distinct, both bounds hold -/
structure Good (c : Cache) : Prop where
  weight_eq : c.weight = sumW c.items
  nodup : NodupKeys c.items
  weight_le : c.weight ≤ c.maxWeight
  size_le : c.items.length ≤ c.maxSize

theorem good_new (mw ms : Nat) : Good (new mw ms) := ⟨rfl, List.Pairwise.nil, Nat.zero_le _, Nat.zero_le _⟩

theorem good_normalize (c : Cache) (hw : c.weight = sumW c.items) (hn : NodupKeys c.items) : Good (normalize c).1 := by
  have h := evictLoop_spec c.maxWeight c.maxSize c.items c.weight
  have h2 := h.2 hw
  have hs : (evictLoop c.maxWeight c.maxSize c.items c.weight).1.Sublist c.items := by
    have := List.sublist_append_right (evictLoop c.maxWeight c.maxSize c.items c.weight).2.2
      (evictLoop c.maxWeight c.maxSize c.items c.weight).1
    rwa [h.1] at this
  exact ⟨h2.1, hn.sublist hs, h2.2.1, h2.2.2⟩

theorem inserted_items (c : Cache) (k v w : Nat) : (inserted c k v w).items = erase c.items k ++ [⟨k, v, w⟩] := by
  unfold inserted
  cases h : lookup c.items k with
  | none => show c.items ++ _ = _; rw [erase_of_none _ _ h]
  | some old => rfl

theorem inserted_bounds (c : Cache) (k v w : Nat) :
    (inserted c k v w).maxWeight = c.maxWeight ∧ (inserted c k v w).maxSize = c.maxSize := by
  unfold inserted
  cases lookup c.items k <;> exact ⟨rfl, rfl⟩

theorem inserted_wf (c : Cache) (k v w : Nat) (g : Good c) :
    (inserted c k v w).weight = sumW (inserted c k v w).items ∧ NodupKeys (inserted c k v w).items := by
  refine ⟨?_, by rw [inserted_items]; exact nodup_insert c.items ⟨k, v, w⟩ g.nodup⟩
  rw [inserted_items, sumW_append]
  unfold inserted
  cases h : lookup c.items k with
  | none =>
    show c.weight + w = _
    rw [erase_of_none _ _ h, g.weight_eq]; simp [sumW]
  | some old =>
    show Gen.Wlru.readdSub c.weight old.weight + w = _
    rw [g.weight_eq, sumW_lookup _ _ _ g.nodup h]
    unfold Gen.Wlru.readdSub; simp [sumW]

theorem good_add (c : Cache) (k v w : Nat) (g : Good c) : Good (add c k v w).1 := by
  have h := inserted_wf c k v w g
  exact good_normalize _ h.1 h.2

theorem length_erase_lookup (l : List Entry) (k : Nat) (e : Entry) (hn : NodupKeys l) (h : lookup l k = some e) :
    (erase l k).length + 1 = l.length := by
  have := (perm_lookup l k e hn h).length_eq
  simp at this; omega

theorem good_step (c : Cache) (op : Op) (g : Good c) : Good (step c op).1 := by
  cases op with
  | add k v w => exact good_add c k v w g
  | get k =>
    show Good (Model.Wlru.get c k).1
    unfold Model.Wlru.get
    cases h : lookup c.items k with
    | none => exact g
    | some e =>
      have hk := (lookup_some _ _ _ h).2
      have hp := perm_lookup _ _ _ g.nodup h
      refine ⟨?_, ?_, g.weight_le, ?_⟩
      · show c.weight = sumW (erase c.items k ++ [e])
        rw [g.weight_eq, sumW_perm hp, sumW_append]; simp [sumW]; omega
      · have := nodup_insert c.items e g.nodup; rwa [hk] at this
      · show (erase c.items k ++ [e]).length ≤ c.maxSize
        rw [List.length_append, List.length_singleton, length_erase_lookup _ _ _ g.nodup h]; exact g.size_le
  | peek k =>
    show Good (Model.Wlru.peek c k).1
    unfold Model.Wlru.peek; cases lookup c.items k <;> exact g
  | contains k => exact g
  | containsOrAdd k v w =>
    show Good (Model.Wlru.containsOrAdd c k v w).1
    unfold Model.Wlru.containsOrAdd
    split
    · exact g
    · exact good_add c k v w g
  | peekOrAdd k v w =>
    show Good (Model.Wlru.peekOrAdd c k v w).1
    unfold Model.Wlru.peekOrAdd
    cases lookup c.items k with
    | none => exact good_add c k v w g
    | some e => exact g
  | remove k =>
    show Good (Model.Wlru.remove c k).1
    unfold Model.Wlru.remove
    cases h : lookup c.items k with
    | none => exact g
    | some e =>
      have hs := sumW_lookup _ _ _ g.nodup h
      have hl := length_erase_lookup _ _ _ g.nodup h
      have hw := g.weight_eq; have hle := g.weight_le; have hsz := g.size_le
      refine ⟨?_, g.nodup.sublist (erase_sublist _ _), ?_, ?_⟩
      · show Gen.Wlru.removeSub c.weight e.weight = sumW (erase c.items k)
        unfold Gen.Wlru.removeSub; omega
      · show Gen.Wlru.removeSub c.weight e.weight ≤ c.maxWeight
        unfold Gen.Wlru.removeSub; omega
      · show (erase c.items k).length ≤ c.maxSize
        omega
  | removeOldest =>
    show Good (Model.Wlru.removeOldest c).1
    unfold Model.Wlru.removeOldest
    have hw := g.weight_eq; have hn := g.nodup; have hs := g.size_le; have hle := g.weight_le
    cases h : c.items with
    | nil => exact g
    | cons e rest =>
      rw [h] at hw hn hs
      simp only [sumW, List.length_cons] at hw hs
      refine ⟨?_, (List.pairwise_cons.mp hn).2, ?_, ?_⟩
      · show Gen.Wlru.removeSub c.weight e.weight = sumW rest
        unfold Gen.Wlru.removeSub; omega
      · show Gen.Wlru.removeSub c.weight e.weight ≤ c.maxWeight
        unfold Gen.Wlru.removeSub; omega
      · show rest.length ≤ c.maxSize
        omega
  | getOldest =>
    show Good (Model.Wlru.getOldest c).1
    unfold Model.Wlru.getOldest; cases c.items <;> exact g
  | keys => exact g
  | len => exact g
  | total => exact g
  | resize mw ms => exact good_normalize _ g.weight_eq g.nodup
  | purge ord =>
    have hw := g.weight_eq
    refine ⟨?_, List.Pairwise.nil, ?_, Nat.zero_le _⟩
    · show c.weight - sumW c.items = sumW []
      simp only [sumW]; omega
    · show c.weight - sumW c.items ≤ c.maxWeight
      omega

theorem good_run (c : Cache) (ops : List Op) (g : Good c) : Good (run c ops).1 := by
  induction ops generalizing c with
  | nil => exact g
  | cons op ops ih => exact ih _ (good_step c op g)

/-- **Bounds after every operation**: after any sequence of operations on a fresh cache, the number
of entries is at most `maxSize`, the weight counter is at most `maxWeight` (the bounds in force,
i.e. those of the last `Resize`), the counter equals the sum of the entry weights, and keys are
distinct. -/
theorem bounds_after_every_op (mw ms : Nat) (ops : List Op) :
    let c := (run (new mw ms) ops).1
    c.items.length ≤ c.maxSize ∧ c.weight ≤ c.maxWeight ∧ c.weight = sumW c.items ∧ NodupKeys c.items :=
  let g := good_run _ ops (good_new mw ms)
  ⟨g.size_le, g.weight_le, g.weight_eq, g.nodup⟩

/-! ## eviction order against the history of touches -/

/-- the key an operation touches, read off the observable (operation, output) pair -/
def touched : Op → Out → Option Nat
  | .add k _ _, _ => some k
  | .get k, _ => some k
  | .containsOrAdd k _ _, o => if o.ok then none else some k
  | .peekOrAdd k _ _, o => if o.ok then none else some k
  | _, _ => none

def upd (f : Nat → Nat) (k t : Nat) : Nat → Nat := fun x => if x = k then t else f x

def touchStep (t : Nat) (f : Nat → Nat) (x : Op × Out) : Nat → Nat :=
  match touched x.1 x.2 with
  | some k => upd f k (t + 1)
  | none => f

/-- last-touch map after a trace that starts at clock `t` with map `f` -/
def touches : Nat → (Nat → Nat) → List (Op × Out) → (Nat → Nat)
  | _, f, [] => f
  | t, f, x :: rest => touches (t + 1) (touchStep t f x) rest

/-- position (1-based) in the trace of the last operation that touched `k`; 0 = never -/
def lastTouch (tr : List (Op × Out)) (k : Nat) : Nat := touches 0 (fun _ => 0) tr k

theorem touches_append (t : Nat) (f : Nat → Nat) (a : List (Op × Out)) (x : Op × Out) :
    touches t f (a ++ [x]) = touchStep (t + a.length) (touches t f a) x := by
  induction a generalizing t f with
  | nil => rfl
  | cons y a ih =>
    show touches (t + 1) (touchStep t f y) (a ++ [x]) = _
    rw [ih]
    show _ = touchStep (t + (a.length + 1)) (touches (t + 1) (touchStep t f y) a) x
    rw [Nat.add_assoc, Nat.add_comm 1]

/-- the list is in strictly ascending last-touch order -/
def LruSorted (f : Nat → Nat) (l : List Entry) : Prop := l.Pairwise (fun a b => f a.key < f b.key)

/-- operations that remove entries only through `normalize` / `removeOldest` (LRU eviction);
`Remove k` takes out the named key and `Purge` everything, in map order -/
def isLruOp : Op → Bool
  | .remove _ => false
  | .purge _ => false
  | _ => true

theorem sorted_touch (f : Nat → Nat) (t : Nat) (l : List Entry) (e : Entry)
    (hs : LruSorted f l) (hb : ∀ x ∈ l, f x.key ≤ t) :
    LruSorted (upd f e.key (t + 1)) (erase l e.key ++ [e]) ∧
    ∀ x ∈ erase l e.key ++ [e], upd f e.key (t + 1) x.key ≤ t + 1 := by
  have hf : ∀ x ∈ erase l e.key, upd f e.key (t + 1) x.key = f x.key := by
    intro x hx
    have := ((mem_erase _ _ _).mp hx).2
    simp [upd, this]
  have he : upd f e.key (t + 1) e.key = t + 1 := by simp [upd]
  constructor
  · unfold LruSorted
    rw [List.pairwise_append]
    refine ⟨?_, by simp, ?_⟩
    · have h1 : LruSorted f (erase l e.key) := List.Pairwise.sublist (erase_sublist _ _) hs
      unfold LruSorted at h1
      refine List.Pairwise.imp_of_mem ?_ h1
      intro a b ha hb' hab
      rw [hf a ha, hf b hb']; exact hab
    · intro a ha b hb'
      simp at hb'; subst hb'
      rw [hf a ha, he]
      have := hb a ((mem_erase _ _ _).mp ha).1
      omega
  · intro x hx
    rcases List.mem_append.mp hx with hx | hx
    · rw [hf x hx]; have := hb x ((mem_erase _ _ _).mp hx).1; omega
    · simp at hx; subst hx; rw [he]; exact Nat.le_refl _

theorem sorted_mono (f : Nat → Nat) (t : Nat) (l l' : List Entry) (hs : LruSorted f l) (hb : ∀ x ∈ l, f x.key ≤ t)
    (sub : l'.Sublist l) : LruSorted f l' ∧ ∀ x ∈ l', f x.key ≤ t + 1 :=
  ⟨List.Pairwise.sublist sub hs, fun x hx => Nat.le_succ_of_le (hb x (sub.subset hx))⟩

/-- touching a key that is not in the list changes nothing for the list -/
theorem sorted_upd_absent (f : Nat → Nat) (k t' : Nat) (l : List Entry) (hk : ∀ e ∈ l, e.key ≠ k) (hs : LruSorted f l) :
    LruSorted (upd f k t') l ∧ ∀ x ∈ l, upd f k t' x.key = f x.key := by
  have hf : ∀ x ∈ l, upd f k t' x.key = f x.key := by
    intro x hx; simp [upd, hk x hx]
  refine ⟨?_, hf⟩
  unfold LruSorted at *
  refine List.Pairwise.imp_of_mem ?_ hs
  intro a b ha hb hab
  rw [hf a ha, hf b hb]; exact hab

theorem normalize_split (c : Cache) : (normalize c).2 ++ (normalize c).1.items = c.items :=
  (evictLoop_spec c.maxWeight c.maxSize c.items c.weight).1

theorem add_split (c : Cache) (k v w : Nat) :
    (add c k v w).2.cb ++ (add c k v w).1.items = erase c.items k ++ [⟨k, v, w⟩] := by
  have := normalize_split (inserted c k v w)
  rw [inserted_items] at this
  exact this

theorem removeOldest_spec (c : Cache) :
    (removeOldest c).2.cb ++ (removeOldest c).1.items = c.items ∧ (removeOldest c).1.items.Sublist c.items := by
  unfold removeOldest
  split
  next e rest h => rw [h]; exact ⟨rfl, List.sublist_cons_self _ _⟩
  next h => rw [h]; exact ⟨rfl, List.Sublist.refl _⟩

theorem getOldest_spec (c : Cache) : (getOldest c).1 = c ∧ (getOldest c).2.cb = [] := by
  unfold getOldest
  split <;> exact ⟨rfl, rfl⟩

/-- the invariant step: sortedness by last touch is kept by every operation, and for the LRU
operations the reported entries followed by the remaining ones are sorted too -/
theorem step_lru (c : Cache) (f : Nat → Nat) (t : Nat) (op : Op)
    (hs : LruSorted f c.items) (hb : ∀ e ∈ c.items, f e.key ≤ t) :
    (isLruOp op = true → LruSorted (touchStep t f (op, (step c op).2)) ((step c op).2.cb ++ (step c op).1.items)) ∧
    LruSorted (touchStep t f (op, (step c op).2)) (step c op).1.items ∧
    (∀ e ∈ (step c op).1.items, touchStep t f (op, (step c op).2) e.key ≤ t + 1) := by
  -- an operation that touches nothing and leaves a sublist
  have plain : ∀ (r : Cache × Out), touched op r.2 = none → r.1.items.Sublist c.items →
      (r.2.cb ++ r.1.items = c.items ∨ isLruOp op = false) →
      (isLruOp op = true → LruSorted (touchStep t f (op, r.2)) (r.2.cb ++ r.1.items)) ∧
      LruSorted (touchStep t f (op, r.2)) r.1.items ∧ (∀ e ∈ r.1.items, touchStep t f (op, r.2) e.key ≤ t + 1) := by
    intro r ht sub hcb
    have e1 : touchStep t f (op, r.2) = f := by unfold touchStep; simp only; rw [ht]
    rw [e1]
    have := sorted_mono f t _ _ hs hb sub
    refine ⟨?_, this.1, this.2⟩
    intro hl
    rcases hcb with h | h
    · rw [h]; exact hs
    · rw [h] at hl; cases hl
  -- an Add (also through ContainsOrAdd / PeekOrAdd on a miss)
  have adding : ∀ (k v w : Nat) (o : Out), touched op o = some k →
      LruSorted (touchStep t f (op, o)) ((add c k v w).2.cb ++ (add c k v w).1.items) ∧
      LruSorted (touchStep t f (op, o)) (add c k v w).1.items ∧
      (∀ e ∈ (add c k v w).1.items, touchStep t f (op, o) e.key ≤ t + 1) := by
    intro k v w o ht
    have e1 : touchStep t f (op, o) = upd f k (t + 1) := by unfold touchStep; simp only; rw [ht]
    rw [e1]
    have h := sorted_touch f t c.items ⟨k, v, w⟩ hs hb
    have sp := add_split c k v w
    rw [sp]
    refine ⟨h.1, ?_, ?_⟩
    · exact List.Pairwise.sublist (by rw [← sp]; exact List.sublist_append_right _ _) h.1
    · intro e he
      exact h.2 e (by rw [← sp]; exact List.mem_append_right _ he)
  cases op with
  | add k v w =>
    have := adding k v w (add c k v w).2 rfl
    exact ⟨fun _ => this.1, this.2⟩
  | get k =>
    show (_ → LruSorted (touchStep t f (_, (Model.Wlru.get c k).2)) ((Model.Wlru.get c k).2.cb ++ (Model.Wlru.get c k).1.items)) ∧
      LruSorted (touchStep t f (_, (Model.Wlru.get c k).2)) (Model.Wlru.get c k).1.items ∧
      ∀ e ∈ (Model.Wlru.get c k).1.items, touchStep t f (_, (Model.Wlru.get c k).2) e.key ≤ t + 1
    have e1 : ∀ o, touchStep t f (Op.get k, o) = upd f k (t + 1) := fun o => rfl
    simp only [e1]
    unfold Model.Wlru.get
    cases h : lookup c.items k with
    | none =>
      have ha := sorted_upd_absent f k (t + 1) c.items (lookup_none _ _ h) hs
      refine ⟨fun _ => ha.1, ha.1, ?_⟩
      intro e he
      show upd f k (t + 1) e.key ≤ t + 1
      rw [ha.2 e he]; exact Nat.le_succ_of_le (hb e he)
    | some e =>
      have hk := (lookup_some _ _ _ h).2
      have := sorted_touch f t c.items e hs hb
      rw [hk] at this
      exact ⟨fun _ => this.1, this.1, this.2⟩
  | peek k =>
    apply plain (step c (.peek k)) rfl
    · show (Model.Wlru.peek c k).1.items.Sublist c.items
      unfold Model.Wlru.peek; cases lookup c.items k <;> exact List.Sublist.refl _
    · left
      show (Model.Wlru.peek c k).2.cb ++ (Model.Wlru.peek c k).1.items = c.items
      unfold Model.Wlru.peek; cases lookup c.items k <;> rfl
  | contains k => exact plain (step c (.contains k)) rfl (List.Sublist.refl _) (Or.inl rfl)
  | containsOrAdd k v w =>
    show (_ → LruSorted (touchStep t f (_, (Model.Wlru.containsOrAdd c k v w).2)) ((Model.Wlru.containsOrAdd c k v w).2.cb ++ (Model.Wlru.containsOrAdd c k v w).1.items)) ∧
      LruSorted (touchStep t f (_, (Model.Wlru.containsOrAdd c k v w).2)) (Model.Wlru.containsOrAdd c k v w).1.items ∧
      ∀ e ∈ (Model.Wlru.containsOrAdd c k v w).1.items, touchStep t f (_, (Model.Wlru.containsOrAdd c k v w).2) e.key ≤ t + 1
    unfold Model.Wlru.containsOrAdd
    split
    · exact plain (c, { ok := true, vals := [0] }) rfl (List.Sublist.refl _) (Or.inl rfl)
    · have := adding k v w { (add c k v w).2 with ok := false } rfl
      exact ⟨fun _ => this.1, this.2⟩
  | peekOrAdd k v w =>
    show (_ → LruSorted (touchStep t f (_, (Model.Wlru.peekOrAdd c k v w).2)) ((Model.Wlru.peekOrAdd c k v w).2.cb ++ (Model.Wlru.peekOrAdd c k v w).1.items)) ∧
      LruSorted (touchStep t f (_, (Model.Wlru.peekOrAdd c k v w).2)) (Model.Wlru.peekOrAdd c k v w).1.items ∧
      ∀ e ∈ (Model.Wlru.peekOrAdd c k v w).1.items, touchStep t f (_, (Model.Wlru.peekOrAdd c k v w).2) e.key ≤ t + 1
    unfold Model.Wlru.peekOrAdd
    cases lookup c.items k with
    | some e => exact plain (c, { ok := true, vals := [e.val, 0] }) rfl (List.Sublist.refl _) (Or.inl rfl)
    | none =>
      have := adding k v w { ok := false, vals := 0 :: (add c k v w).2.vals, cb := (add c k v w).2.cb } rfl
      exact ⟨fun _ => this.1, this.2⟩
  | remove k =>
    apply plain (step c (.remove k)) rfl
    · show (Model.Wlru.remove c k).1.items.Sublist c.items
      unfold Model.Wlru.remove; cases lookup c.items k
      · exact List.Sublist.refl _
      · exact erase_sublist _ _
    · exact Or.inr rfl
  | removeOldest =>
    exact plain (step c .removeOldest) rfl (removeOldest_spec c).2 (Or.inl (removeOldest_spec c).1)
  | getOldest =>
    apply plain (step c .getOldest) rfl
    · show (Model.Wlru.getOldest c).1.items.Sublist c.items
      rw [(getOldest_spec c).1]; exact List.Sublist.refl _
    · left
      show (Model.Wlru.getOldest c).2.cb ++ (Model.Wlru.getOldest c).1.items = c.items
      rw [(getOldest_spec c).1, (getOldest_spec c).2]; rfl
  | keys => exact plain (step c .keys) rfl (List.Sublist.refl _) (Or.inl rfl)
  | len => exact plain (step c .len) rfl (List.Sublist.refl _) (Or.inl rfl)
  | total => exact plain (step c .total) rfl (List.Sublist.refl _) (Or.inl rfl)
  | resize mw ms =>
    have sp := normalize_split { c with maxWeight := mw, maxSize := ms }
    apply plain (step c (.resize mw ms)) rfl
    · show (normalize { c with maxWeight := mw, maxSize := ms }).1.items.Sublist c.items
      have := List.sublist_append_right (normalize { c with maxWeight := mw, maxSize := ms }).2
        (normalize { c with maxWeight := mw, maxSize := ms }).1.items
      rwa [sp] at this
    · exact Or.inl sp
  | purge ord =>
    exact plain (step c (.purge ord)) rfl (List.nil_sublist _) (Or.inr rfl)

theorem run_trace_length (c : Cache) (ops : List Op) : (run c ops).2.length = ops.length := by
  induction ops generalizing c with
  | nil => rfl
  | cons op ops ih => show ((run _ ops).2.length + 1 = _); rw [ih]; rfl

theorem run_lru (c : Cache) (f : Nat → Nat) (t : Nat) (ops : List Op)
    (hs : LruSorted f c.items) (hb : ∀ e ∈ c.items, f e.key ≤ t) :
    LruSorted (touches t f (run c ops).2) (run c ops).1.items ∧
    ∀ e ∈ (run c ops).1.items, touches t f (run c ops).2 e.key ≤ t + ops.length := by
  induction ops generalizing c f t with
  | nil => exact ⟨hs, hb⟩
  | cons op ops ih =>
    have h := step_lru c f t op hs hb
    have := ih (step c op).1 (touchStep t f (op, (step c op).2)) (t + 1) h.2.1 h.2.2
    refine ⟨this.1, ?_⟩
    intro e he
    have := this.2 e he
    simp only [List.length_cons]
    show touches (t + 1) _ _ e.key ≤ _
    omega

/-- **Eviction order = least recently touched first, against the history.** For every operation
sequence `pre` on a fresh cache and every next operation other than `Remove`/`Purge`: the entries
reported to the eviction callback by that operation, in callback order, followed by the entries
that remain, oldest first, are in strictly ascending order of their last touch in the history
(including the current operation). Hence every evicted entry was touched less recently than every
entry that stays, and evictions happen in least-recently-touched order. -/
theorem evicts_lru_first (mw ms : Nat) (pre : List Op) (op : Op) (hl : isLruOp op = true) :
    let r0 := run (new mw ms) pre
    let r := step r0.1 op
    let tr := r0.2 ++ [(op, r.2)]
    (r.2.cb ++ r.1.items).Pairwise (fun a b => lastTouch tr a.key < lastTouch tr b.key) := by
  intro r0 r tr
  have h0 := run_lru (new mw ms) (fun _ => 0) 0 pre List.Pairwise.nil (by intro e he; cases he)
  have h := (step_lru r0.1 _ _ op h0.1 h0.2).1 hl
  have e : (fun k => lastTouch tr k) = touchStep (0 + pre.length) (touches 0 (fun _ => 0) r0.2) (op, r.2) := by
    funext k
    show touches 0 _ (r0.2 ++ [(op, r.2)]) k = _
    rw [touches_append, run_trace_length]
  unfold LruSorted at h
  rw [← e] at h
  exact h

/-- the same invariant for the cache contents alone, after any sequence (also after `Remove` and
`Purge`): the list is in strictly ascending last-touch order -/
theorem items_sorted_by_history (mw ms : Nat) (ops : List Op) :
    let r := run (new mw ms) ops
    r.1.items.Pairwise (fun a b => lastTouch r.2 a.key < lastTouch r.2 b.key) :=
  (run_lru (new mw ms) (fun _ => 0) 0 ops List.Pairwise.nil (by intro e he; cases he)).1

/-- **Keys lists oldest to newest**: after any operation sequence, the result of `Keys()` is in
strictly ascending order of last touch in the history. -/
theorem keys_oldest_to_newest (mw ms : Nat) (ops : List Op) :
    let r := run (new mw ms) ops
    (step r.1 .keys).2.vals.Pairwise (fun a b => lastTouch r.2 a < lastTouch r.2 b) := by
  intro r
  show (r.1.items.map (·.key)).Pairwise _
  rw [List.pairwise_map]
  exact items_sorted_by_history mw ms ops

/-! ## eviction callback: every removed entry exactly once -/

/-- the entry an operation puts into the cache (new or replacing the one under the same key) -/
def added (c : Cache) : Op → Option Entry
  | .add k v w => some ⟨k, v, w⟩
  | .containsOrAdd k v w => if (lookup c.items k).isSome then none else some ⟨k, v, w⟩
  | .peekOrAdd k v w => if (lookup c.items k).isSome then none else some ⟨k, v, w⟩
  | _ => none

/-- the entries in play during an operation: the old contents, with the added entry in place of
the one it replaces -/
def inPlay (c : Cache) (op : Op) : List Entry :=
  match added c op with
  | some e => e :: erase c.items e.key
  | none => c.items

theorem purgeOrder_perm (ord : List Nat) : ∀ (l : List Entry), NodupKeys l → (purgeOrder l ord).Perm l := by
  induction ord with
  | nil => intro l _; exact List.Perm.refl _
  | cons k ord ih =>
    intro l hn
    unfold purgeOrder
    cases h : lookup l k with
    | none => exact ih l hn
    | some e =>
      exact ((ih (erase l k) (hn.sublist (erase_sublist _ _))).cons e).trans (perm_lookup l k e hn h).symm

theorem add_perm (c : Cache) (k v w : Nat) :
    ((add c k v w).2.cb ++ (add c k v w).1.items).Perm (⟨k, v, w⟩ :: erase c.items k) := by
  rw [add_split]
  exact List.perm_append_comm

theorem callback_step (c : Cache) (op : Op) (hn : NodupKeys c.items) :
    ((step c op).2.cb ++ (step c op).1.items).Perm (inPlay c op) := by
  cases op with
  | add k v w => exact add_perm c k v w
  | get k =>
    show ((Model.Wlru.get c k).2.cb ++ (Model.Wlru.get c k).1.items).Perm c.items
    unfold Model.Wlru.get
    cases h : lookup c.items k with
    | none => exact List.Perm.refl _
    | some e =>
      show ([] ++ (erase c.items k ++ [e])).Perm c.items
      rw [List.nil_append]
      exact (List.perm_append_comm.trans (perm_lookup _ _ _ hn h).symm)
  | peek k =>
    show ((Model.Wlru.peek c k).2.cb ++ (Model.Wlru.peek c k).1.items).Perm c.items
    unfold Model.Wlru.peek; cases lookup c.items k <;> exact List.Perm.refl _
  | contains k => exact List.Perm.refl _
  | containsOrAdd k v w =>
    show ((Model.Wlru.containsOrAdd c k v w).2.cb ++ (Model.Wlru.containsOrAdd c k v w).1.items).Perm
      (match (if (lookup c.items k).isSome then none else some (Entry.mk k v w)) with
       | some e => e :: erase c.items e.key | none => c.items)
    unfold Model.Wlru.containsOrAdd
    split
    · exact List.Perm.refl _
    · exact add_perm c k v w
  | peekOrAdd k v w =>
    show ((Model.Wlru.peekOrAdd c k v w).2.cb ++ (Model.Wlru.peekOrAdd c k v w).1.items).Perm
      (match (if (lookup c.items k).isSome then none else some (Entry.mk k v w)) with
       | some e => e :: erase c.items e.key | none => c.items)
    unfold Model.Wlru.peekOrAdd
    cases lookup c.items k with
    | some e => exact List.Perm.refl _
    | none => exact add_perm c k v w
  | remove k =>
    show ((Model.Wlru.remove c k).2.cb ++ (Model.Wlru.remove c k).1.items).Perm c.items
    unfold Model.Wlru.remove
    cases h : lookup c.items k with
    | none => exact List.Perm.refl _
    | some e => exact (perm_lookup _ _ _ hn h).symm
  | removeOldest =>
    show ((Model.Wlru.removeOldest c).2.cb ++ (Model.Wlru.removeOldest c).1.items).Perm c.items
    rw [(removeOldest_spec c).1]
  | getOldest =>
    show ((Model.Wlru.getOldest c).2.cb ++ (Model.Wlru.getOldest c).1.items).Perm c.items
    rw [(getOldest_spec c).1, (getOldest_spec c).2]; exact List.Perm.refl _
  | keys => exact List.Perm.refl _
  | len => exact List.Perm.refl _
  | total => exact List.Perm.refl _
  | resize mw ms =>
    show ((normalize { c with maxWeight := mw, maxSize := ms }).2 ++ (normalize { c with maxWeight := mw, maxSize := ms }).1.items).Perm c.items
    rw [normalize_split]
  | purge ord =>
    show (purgeOrder c.items ord ++ []).Perm c.items
    rw [List.append_nil]
    exact purgeOrder_perm ord c.items hn

/-- **Every removed entry is reported to the eviction callback exactly once.** For every operation
sequence and every next operation (with any map iteration order for `Purge`): the entries reported
by the operation together with the entries still in the cache are, as a multiset, exactly the
entries in play (old contents, the added/updated entry in place of the one it replaces). Keys in
play are distinct, so no entry is reported twice, none that stays is reported, and none that
disappears goes unreported. -/
theorem evict_callback_once (mw ms : Nat) (pre : List Op) (op : Op) :
    let c := (run (new mw ms) pre).1
    ((step c op).2.cb ++ (step c op).1.items).Perm (inPlay c op) ∧ NodupKeys (inPlay c op) := by
  intro c
  have g := good_run _ pre (good_new mw ms)
  refine ⟨callback_step c op g.nodup, ?_⟩
  unfold inPlay
  cases h : added c op with
  | none => exact g.nodup
  | some e =>
    show NodupKeys (e :: erase c.items e.key)
    exact List.pairwise_cons.mpr ⟨fun x hx => fun h => ((mem_erase _ _ _).mp hx).2 h.symm,
      g.nodup.sublist (erase_sublist _ _)⟩

/-! ## an entry heavier than the bound is evicted at once -/

/-- **Heavy entries**: after any operation sequence, `Add k v w` with `w` above the weight bound
leaves `k` out of the cache and reports exactly the new entry `(k, v)` among the evicted ones
(the same holds for `ContainsOrAdd` / `PeekOrAdd` on a miss, which call `Add`). -/
theorem heavy_entry_evicted_at_once (mw ms : Nat) (pre : List Op) (k v w : Nat) :
    let c := (run (new mw ms) pre).1
    w > c.maxWeight → (∀ e ∈ (add c k v w).1.items, e.key ≠ k) ∧ ⟨k, v, w⟩ ∈ (add c k v w).2.cb := by
  intro c hw
  have g := good_run _ pre (good_new mw ms)
  have ga := good_add c k v w g
  have sp := add_split c k v w
  have hmw : (add c k v w).1.maxWeight = c.maxWeight := (inserted_bounds c k v w).1
  have hnot : ∀ e ∈ (add c k v w).1.items, e.key ≠ k := by
    intro e he hk
    have hmem : e ∈ erase c.items k ++ [⟨k, v, w⟩] := by rw [← sp]; exact List.mem_append_right _ he
    have : e = ⟨k, v, w⟩ := by
      rcases List.mem_append.mp hmem with h | h
      · exact absurd hk ((mem_erase _ _ _).mp h).2
      · simpa using h
    have h1 := weight_le_sumW _ _ he
    have h2 := ga.weight_eq
    have h3 := ga.weight_le
    rw [this] at h1
    simp only at h1
    omega
  refine ⟨hnot, ?_⟩
  have hmem : (⟨k, v, w⟩ : Entry) ∈ (add c k v w).2.cb ++ (add c k v w).1.items := by rw [sp]; simp
  rcases List.mem_append.mp hmem with h | h
  · exact h
  · exact absurd rfl (hnot _ h)

/-! ## non-vacuity -/

/-- a concrete run: size bound 2; `Get 1` refreshes key 1, so adding key 3 evicts key 2 -/
example : ((run (new 10 2) [.add 1 10 1, .add 2 20 1, .get 1, .add 3 30 1]).2.map (fun x => x.2.cb)) =
    [[], [], [], [⟨2, 20, 1⟩]] := by decide

/-- `Peek` does not refresh: the same run with `Peek 1` evicts key 1 -/
example : ((run (new 10 2) [.add 1 10 1, .add 2 20 1, .peek 1, .add 3 30 1]).2.map (fun x => x.2.cb)) =
    [[], [], [], [⟨1, 10, 1⟩]] := by decide

/-- a heavy entry is evicted at once, together with everything older -/
example : (run (new 4 3) [.add 1 10 1, .add 2 20 5, .keys]).2.map (fun x => (x.2.vals, x.2.cb)) =
    [([0], []), ([2], [⟨1, 10, 1⟩, ⟨2, 20, 5⟩]), ([], [])] := by decide

example : lastTouch (run (new 10 2) [.add 1 10 1, .add 2 20 1, .get 1]).2 1 = 3 := by decide

end C29
