import LachesisVerif.Gen.FactsCons
import LachesisVerif.Gen.FactsVec
import LachesisVerif.Model.TempId
/-!
# Structural expectations of the consensus / vector-index models

The hand-written models `Model/Indexed.lean` (transaction of `IndexedLachesis.Build` / `Process`),
`Model/VecPersist.lean`, `Model/FcCache.lean`, `Model/ApplyAtropos.lean` and `Model/Orderer.lean`
take the following statements of the Go code for granted: a call made unconditionally, or the order
of two statements. `go/cmd/extract` regenerates each as a Bool constant (`Gen.FactsCons`,
`Gen.FactsVec`; selectors `topcall:`, `topassign:`, `hascall:`, `before:`); the theorems below state
the expected values, so dropping, guarding or reordering one of these statements breaks a proof
obligation of the properties that import this file (C02, C05–C09).
-/
namespace Facts

/-- `IndexedLachesis.Build`: fresh temporary id unconditionally; index `Add` before the Orderer's
    `Build`; the index is always rolled back (deferred `DropNotFlushed`) — what `Model.Indexed.buildIndexed`
    and `Model.FcCache` (C07: temporary ids are never reused) assume -/
theorem build_transaction :
    Gen.FactsCons.buildSetsFreshID = true ∧ Gen.FactsCons.buildDropsAlways = true ∧
    Gen.FactsCons.buildAddsBeforeBuild = true := by decide

/-- `uniqueID.sample` (the temporary ids of `Build`): the counter is advanced, then right-aligned in
    the whole 24-byte id by `FillBytes` — the shape `Model.TempId.sample` models -/
theorem sample_shape :
    Gen.FactsCons.sampleIncrements = true ∧ Gen.FactsCons.sampleFillsAllBytes = true ∧
    Gen.FactsCons.sampleIncrementsBeforeFill = true := by decide

/-- C07, "an id never denotes two different events" for the temporary ids of `Build`: the j-th and
    the k-th `Build` of an instance (fewer than 2^192 builds) get different well-formed 24-byte ids.
    (`FillBytes` panics from 2^192 builds on; the pre-fix left-aligned bytes and an 8-bit counter
    repeat after 256: `Model.TempId.low_byte_repeats`; directed case `corpus/cons/build-id-reuse.ops`.) -/
theorem temp_ids_never_reused (j k : Nat) (hj : j < 256 ^ 24) (hk : k < 256 ^ 24) (hne : j ≠ k) :
    Model.TempId.sample j ≠ Model.TempId.sample k ∧ (Model.TempId.sample k).length = 24 :=
  ⟨fun h => hne (Model.TempId.sample_injective j k hj hk h), (Model.TempId.sample_wf k).1⟩

example : Model.TempId.sample 258 = [0,0,0,0,0,0,0,0,0,0,0,0,0,0,0,0,0,0,0,0,0,0,1,2] := by decide

/-- `IndexedLachesis.Process`: `Add`, then the Orderer's `Process`, then `Flush` at top level (reached
    only on success), with a deferred `DropNotFlushed` (roll-back on every early return) -/
theorem process_transaction :
    Gen.FactsCons.processDropsAlways = true ∧ Gen.FactsCons.processAddsBeforeProcess = true ∧
    Gen.FactsCons.processFlushesAfterProcess = true ∧ Gen.FactsCons.processFlushesAtTop = true := by decide

/-- Orderer: frame check before the election; the decided state is stored at the end of every
    `onFrameDecided`; a seal stores the new epoch state before the epoch DB is replaced; a loaded epoch
    DB resets the index; `confirmEvents` marks what it walks -/
theorem orderer_structure :
    Gen.FactsCons.processChecksBeforeElection = true ∧ Gen.FactsCons.frameDecidedStoresState = true ∧
    Gen.FactsCons.sealStoresEpochBeforeReset = true ∧ Gen.FactsCons.epochDBLoadedResetsIndex = true ∧
    Gen.FactsCons.confirmMarks = true := by decide

/-- vecfc.Index / vecengine.Engine: `Reset` purges the forkless-cause cache and the row caches and
    resets the engine; a roll-back purges both row caches; `Flush` writes the branch table before the
    rows are flushed; `DropNotFlushed` forgets the in-memory branch table unconditionally; `Reset`
    rolls back; `Add` loads the branch table first -/
theorem index_structure :
    Gen.FactsVec.resetPurgesFc = true ∧ Gen.FactsVec.resetPurgesRows = true ∧ Gen.FactsVec.resetResetsEngine = true ∧
    Gen.FactsVec.dropPurgesHB = true ∧ Gen.FactsVec.dropPurgesLA = true ∧ Gen.FactsVec.flushWritesBIFirst = true ∧
    Gen.FactsVec.dropForgetsBI = true ∧ Gen.FactsVec.engineResetDrops = true ∧ Gen.FactsVec.addInitsBIFirst = true := by decide

end Facts
