import LachesisVerif.Gen.FactsC08
/-!
# Structural expectations for C08 (regenerated facts `Gen.FactsC08`)

Split out of the family survey (`notes/facts-cons-notes.md` lists what the selectors cannot express).
Each theorem states the expected value of Bool facts regenerated from the Go source by
`go/cmd/extract` (selectors `hascall:`, `topcall:`, `topassign:`, `before:`); a statement that is
dropped, guarded or reordered flips a fact and breaks the theorem.
-/
namespace FactsC08

/-- `Model.Orderer.bootstrap` / `Model.Indexed.restartIndexed` (abft/bootstrap.go `Bootstrap`): the epoch
    DB of the PERSISTED epoch is loaded at top level; `EpochDBLoaded` (index reset over the persisted
    vector tables) comes before the election is created, the election before the re-vote, the block
    handler is set before the re-vote (which may decide frames), and the re-vote
    (`bootstrapElection`) is unconditional — the model's `bootstrapElection … {s with el := reset …}`.
    Without the re-vote the restarted election lacks the votes of the known roots and the next root
    fails with "missing vote" (C08-1..3). -/
theorem bootstrap_shape :
    Gen.FactsC08.bootstrapLoadsEpochDB = true ∧ Gen.FactsC08.bootstrapCallbackBeforeRevote = true ∧
    Gen.FactsC08.bootstrapNotifiesBeforeElection = true ∧ Gen.FactsC08.bootstrapElectionBeforeRevote = true ∧
    Gen.FactsC08.bootstrapRevotesAtTop = true ∧ Gen.FactsC08.loadUsesStoredEpoch = true := by decide

/-- The persisted part of `OState` is `(epoch, vals, ldf, roots)` and of the index the vectors + branch
    table: the setters write THROUGH to the DB unconditionally (not only the in-memory copy, which a
    restart loses), every root reaches the epoch DB, a fresh index prefers the persisted branch
    table to the initial one (`Model.VecPersist`), and `Engine.Reset` binds its tables to the DB it
    was handed. -/
theorem persisted_part :
    Gen.FactsC08.decidedStateWrittenThrough = true ∧ Gen.FactsC08.epochStateWrittenThrough = true ∧
    Gen.FactsC08.epochStateSetWrites = true ∧ Gen.FactsC08.rootPersisted = true ∧
    Gen.FactsC08.initReadsPersistedFirst = true ∧ Gen.FactsC08.engineResetBindsTablesToDB = true := by decide

end FactsC08
