import LachesisVerif.Gen.FactsC19
/-!
# Structural expectations for C19 (regenerated facts `Gen.FactsC19`)

Split out of the family survey (`notes/facts-misc-notes.md` lists what the selectors cannot express).
Each theorem states the expected value of Bool facts regenerated from the Go source by
`go/cmd/extract` (selectors `hascall:`, `topcall:`, `topassign:`, `before:`); a statement that is
dropped, guarded or reordered flips a fact and breaks the theorem.
-/
namespace FactsC19

/-- `ChooseParents` (`Model.Ancestor.chooseTrace` / `chooseFrom`): the model starts the loop with
    `parents = existing` and `rest = optionSet existing options` (options deduplicated, existing
    parents removed), and hands each consulted strategy the current `rest`. In Go: `options.Set()`
    at top level; the top-level `append` of the existing parents and the `Erase` loop both precede the
    first `Choose`; `optionsSet.Slice()` is taken before `Choose`. C19 needs them for "existing
    parents first and in order", "never repeats a parent" and "adds only offered options". -/
theorem choose_parents_structure :
    Gen.FactsC19.optionsFromSet = true ∧ Gen.FactsC19.existingAppendedAtTop = true ∧
    Gen.FactsC19.existingAppendedBeforeChoose = true ∧ Gen.FactsC19.existingErasedBeforeChoose = true ∧
    Gen.FactsC19.sliceBeforeChoose = true := by decide

/-- `MetricStrategy.Choose` (`Model.Ancestor.metricChooseFrom`): the compared weight is
    `st.metricFn(opt)`, computed before the update, and an update (kernel `chooseUpdate`) stores both
    `maxI` and `maxWeight` — "always picks an option of maximal metric". `RandomStrategy.Choose`
    draws its answer with `Intn` (the environment contract `callsOk`: index inside the slice). -/
theorem strategies_structure :
    Gen.FactsC19.metricCallsFnBeforeUpdate = true ∧ Gen.FactsC19.metricUpdatesIndexAndWeight = true ∧
    Gen.FactsC19.randomInRange = true := by decide

end FactsC19
