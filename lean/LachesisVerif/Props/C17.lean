import LachesisVerif.Model.Seeder
/-!
# C17 — Stream seeder serves each session in order, once, within limits

"For each peer session, the responses sent across all of the peer's requests list the items
from the session start up to but excluding its stop, in order and without gaps or repeats, end
with exactly one response marked done once enough chunks were requested, after which nothing
more is sent for that session, and never exceed the requested item-count or size limit by more
than one item. A session stays resumable until its peer unregisters or opens a new session
while already holding three, and pending response memory never exceeds its limit by more than
one response."

The statements are about `Model.Seeder` (the reader loop of `BaseSeeder`, one step per dequeued
operation), whose comparisons (`len(sessions) > 2`, the two payload limits, the stop test, the
chunk loop condition, the pending test, the request sanitizing) are `Gen.Seeder.*`, regenerated
from the Go source on every run. Interpretation (DESIGN §2.6): locators are naturals with
`Inc = +1`; `ForEachItem` walks the items in ascending key order from the first key ≥ start;
`MaxPayloadNum = 0` gives one-item payloads.

Main theorems: `C17_stream_exact`, `C17_limits`, `C17_done_when_enough_chunks`,
`C17_selector_mismatch`, `C17_resumable`, `C17_sessions_table`, `C17_pending_bound`; negative
witnesses for the code before the repair of DESIGN §7-D4: `D4a_old_code_repeats`,
`D4b_old_code_prunes_live_session`.
-/
namespace C17
open Model.Seeder

def Sorted (db : List Item) : Prop := db.Pairwise (fun a b => a.key < b.key)

/-- the items of the data base in `[a, stop)` -/
def range (db : List Item) (stop a : Nat) : List Item :=
  (itemsFrom db a).filter (fun it => decide (it.key < stop))

theorem stopReached_iff (k stop : Nat) : Gen.Seeder.stopReached (cmp k stop) = true ↔ stop ≤ k := by
  unfold Gen.Seeder.stopReached cmp
  split
  · simp; omega
  · split <;> simp <;> omega

theorem mismatch_iff (a b : Nat) : Gen.Seeder.selectorMismatch (cmp a b) = true ↔ a ≠ b := by
  unfold Gen.Seeder.selectorMismatch cmp
  split
  · simp; omega
  · split <;> simp <;> omega

theorem scan_spec (stop mn ms : Nat) (L : List Item) (n sz last : Nat) (hs : Sorted L) :
    ∃ rest, L = (scan stop mn ms L n sz last).1 ++ rest ∧
      (∀ it ∈ (scan stop mn ms L n sz last).1, it.key < stop ∧ it.key ≤ (scan stop mn ms L n sz last).2.1) ∧
      ((scan stop mn ms L n sz last).1 ≠ [] → ∀ it ∈ rest, (scan stop mn ms L n sz last).2.1 < it.key) ∧
      ((scan stop mn ms L n sz last).1 = [] → (scan stop mn ms L n sz last).2.1 = last) ∧
      ((scan stop mn ms L n sz last).2.2 = true → ∀ it ∈ rest, stop ≤ it.key) ∧
      ((scan stop mn ms L n sz last).2.2 = false → (scan stop mn ms L n sz last).1 ≠ []) := by
  induction L generalizing n sz last with
  | nil => exact ⟨[], by simp [scan]⟩
  | cons it t ih =>
    have hs' : Sorted t := (List.pairwise_cons.1 hs).2
    have hlt : ∀ x ∈ t, it.key < x.key := (List.pairwise_cons.1 hs).1
    unfold scan
    by_cases h1 : Gen.Seeder.stopReached (cmp it.key stop) = true
    · rw [if_pos h1]
      have := (stopReached_iff _ _).1 h1
      refine ⟨it :: t, by simp, by simp, by simp, by simp, ?_, by simp⟩
      intro _ x hx
      rcases List.mem_cons.1 hx with rfl | hx
      · exact this
      · have := hlt x hx; omega
    · rw [if_neg h1]
      have hk : it.key < stop := by
        have : ¬ stop ≤ it.key := fun h => h1 ((stopReached_iff it.key stop).2 h)
        omega
      split
      · refine ⟨t, by simp, ?_, ?_, by simp, by simp, by simp⟩
        · intro x hx; simp at hx; subst hx; simp; exact hk
        · intro _ x hx; exact hlt x hx
      · obtain ⟨rest, e, hp, hr, he, ha, hn⟩ := ih (n + 1) (sz + it.size) it.key hs'
        generalize scan stop mn ms t (n + 1) (sz + it.size) it.key = res at *
        refine ⟨rest, by simp; exact e, ?_, ?_, by simp, ha, by simp⟩
        · intro x hx
          rcases List.mem_cons.1 hx with rfl | hx
          · refine ⟨hk, ?_⟩
            by_cases hemp : res.1 = []
            · have := he hemp; simp; omega
            · obtain ⟨y, hy⟩ := List.exists_mem_of_ne_nil _ hemp
              have h1 := (hp y hy).2
              have : y ∈ t := by rw [e]; exact List.mem_append_left _ hy
              have := hlt y this
              simp; omega
          · exact hp x hx
        · intro _ x hx
          by_cases hemp : res.1 = []
          · have h2 := he hemp
            have : x ∈ t := by rw [e]; exact List.mem_append_right _ hx
            have := hlt x this
            simp; omega
          · exact hr hemp x hx

theorem itemsFrom_mono (db : List Item) (a b : Nat) (h : a ≤ b) :
    itemsFrom db b = (itemsFrom db a).filter (fun it => decide (b ≤ it.key)) := by
  unfold itemsFrom
  rw [List.filter_filter]
  apply List.filter_congr
  intro x _
  by_cases hb : b ≤ x.key
  · have : a ≤ x.key := by omega
    simp [hb, this]
  · simp [hb]

theorem chunk_range (db : List Item) (hs : Sorted db) (r : Req) (s : Sess) :
    range db s.stop s.next = (chunk db r s).2.payload ++ range db s.stop (chunk db r s).1.next ∧
    ((chunk db r s).1.done = true → range db s.stop (chunk db r s).1.next = []) ∧
    ((chunk db r s).1.done = false → (chunk db r s).2.payload ≠ []) ∧
    (chunk db r s).2.done = (chunk db r s).1.done ∧ (chunk db r s).2.sid = r.sid ∧
    (chunk db r s).1.orig = s.orig ∧ (chunk db r s).1.stop = s.stop := by
  have hsL : Sorted (itemsFrom db s.next) := List.Pairwise.sublist List.filter_sublist hs
  have hge : ∀ it ∈ itemsFrom db s.next, s.next ≤ it.key := by
    intro it h; simpa [itemsFrom] using (List.mem_filter.1 h).2
  obtain ⟨rest, e, hp, hr, he, ha, hn⟩ := scan_spec s.stop r.maxNum r.maxSize (itemsFrom db s.next) 0 0 s.next hsL
  unfold chunk
  simp only
  generalize scan s.stop r.maxNum r.maxSize (itemsFrom db s.next) 0 0 s.next = res at *
  have hle : s.next ≤ res.2.1 + 1 := by
    by_cases hemp : res.1 = []
    · have := he hemp; omega
    · obtain ⟨y, hy⟩ := List.exists_mem_of_ne_nil _ hemp
      have := (hp y hy).2
      have := hge y (by rw [e]; exact List.mem_append_left _ hy)
      omega
  have hfp : res.1.filter (fun it => decide (it.key < s.stop)) = res.1 :=
    List.filter_eq_self.2 (fun x hx => by simpa using (hp x hx).1)
  have hfp2 : res.1.filter (fun it => decide (res.2.1 + 1 ≤ it.key)) = [] :=
    List.filter_eq_nil_iff.2 (fun x hx => by have := (hp x hx).2; simp; omega)
  have e1 : range db s.stop s.next = res.1 ++ rest.filter (fun it => decide (it.key < s.stop)) := by
    unfold range; rw [e, List.filter_append, hfp]
  have e2 : range db s.stop (res.2.1 + 1) =
      (rest.filter (fun it => decide (it.key < s.stop))).filter (fun it => decide (res.2.1 + 1 ≤ it.key)) := by
    unfold range
    rw [itemsFrom_mono db s.next _ hle, e, List.filter_append, hfp2, List.nil_append,
      List.filter_filter, List.filter_filter]
    apply List.filter_congr; intro x _; exact Bool.and_comm _ _
  have e3 : range db s.stop (res.2.1 + 1) = rest.filter (fun it => decide (it.key < s.stop)) := by
    rw [e2]
    by_cases hemp : res.1 = []
    · have hall : res.2.2 = true := by
        cases h : res.2.2 with
        | true => rfl
        | false => exact absurd hemp (hn h)
      have : rest.filter (fun it => decide (it.key < s.stop)) = [] :=
        List.filter_eq_nil_iff.2 (fun x hx => by have := ha hall x hx; simp; omega)
      rw [this]; rfl
    · exact List.filter_eq_self.2 (fun x hx => by
        have := hr hemp x (List.mem_filter.1 hx).1; simp; omega)
  refine ⟨by rw [e1, e3], ?_, hn, by simp⟩
  intro hall
  rw [e3]
  exact List.filter_eq_nil_iff.2 (fun x hx => by have := ha hall x hx; simp; omega)

/-! ### limits -/

/-- a payload exceeds neither limit by more than one item: with two or more items, the payload
    without its last item is strictly below both limits (so the count limit is not exceeded at
    all); a payload always may hold one item (`MaxPayloadNum = 0`, DESIGN §2.6). -/
def WithinLimits (maxNum maxSize : Nat) (p : List Item) : Prop :=
  p.length ≤ max maxNum 1 ∧ (2 ≤ p.length → totalSize p.dropLast < maxSize)

theorem scan_limits (stop mn ms : Nat) (L : List Item) (n sz last : Nat) (hlen : n + L.length < 4294967296) :
    2 ≤ (scan stop mn ms L n sz last).1.length →
      n + (scan stop mn ms L n sz last).1.length ≤ mn ∧
      sz + totalSize (scan stop mn ms L n sz last).1.dropLast < ms := by
  induction L generalizing n sz last with
  | nil => simp [scan]
  | cons it t ih =>
    unfold scan
    split
    · simp
    · split
      · simp
      · rename_i _ hlim
        have ih' := ih (n + 1) (sz + it.size) it.key (by simp at hlen; omega)
        generalize scan stop mn ms t (n + 1) (sz + it.size) it.key = res at *
        simp only [Gen.Seeder.limitReached, Gen.Seeder.numReached, Gen.Seeder.sizeReached, Bool.or_eq_true,
          decide_eq_true_eq, not_or, Nat.not_le] at hlim
        have hmod : (n + 1) % 4294967296 = n + 1 := Nat.mod_eq_of_lt (by simp at hlen; omega)
        rw [hmod] at hlim
        intro h2
        simp only [List.length_cons] at h2 ⊢
        match hres : res.1 with
        | [] => rw [hres] at h2; simp at h2
        | [x] => simp [totalSize]; omega
        | x :: y :: rest =>
          rw [hres] at ih'
          have := ih' (by simp)
          simp only [List.length_cons, List.dropLast_cons_cons, totalSize, List.map_cons, List.sum_cons] at this ⊢
          omega

theorem chunk_limits (db : List Item) (hdb : db.length < 4294967296) (r : Req) (s : Sess) :
    WithinLimits r.maxNum r.maxSize (chunk db r s).2.payload := by
  have hl : (itemsFrom db s.next).length ≤ db.length := List.length_filter_le _ _
  have := scan_limits s.stop r.maxNum r.maxSize (itemsFrom db s.next) 0 0 s.next (by omega)
  unfold chunk
  simp only
  generalize scan s.stop r.maxNum r.maxSize (itemsFrom db s.next) 0 0 s.next = res at *
  constructor
  · by_cases h2 : 2 ≤ res.1.length
    · have := (this h2).1; omega
    · omega
  · intro h2; have := (this h2).2; omega

/-! ### one session -/

def payloads (h : List Resp) : List Item := h.flatMap (·.payload)

/-- what a session (state `s`) and the responses `h` sent for it so far satisfy -/
structure SInv (db : List Item) (s : Sess) (h : List Resp) : Prop where
  /-- the items of `[orig, stop)` = what was sent, followed by what is still to be sent -/
  sent : range db s.stop s.orig = payloads h ++ range db s.stop s.next
  complete : s.done = true → range db s.stop s.next = []
  open_ : s.done = false → ∀ r ∈ h, r.done = false
  closed : s.done = true → ∃ pre r, h = pre ++ [r] ∧ r.done = true ∧ ∀ x ∈ pre, x.done = false

theorem fresh_inv (db : List Item) (a b : Nat) : SInv db { orig := a, next := a, stop := b, done := false } [] :=
  ⟨by simp [payloads], by simp, by simp, by simp⟩

theorem chunk_inv (db : List Item) (hs : Sorted db) (r : Req) (s : Sess) (h : List Resp) (inv : SInv db s h)
    (hd : s.done = false) : SInv db (chunk db r s).1 (h ++ [(chunk db r s).2]) := by
  obtain ⟨e, hc, _, hdone, _, ho, hst⟩ := chunk_range db hs r s
  refine ⟨?_, ?_, ?_, ?_⟩
  · rw [ho, hst, inv.sent, e]; simp [payloads]
  · rw [hst]; exact hc
  · intro hf x hx
    rcases List.mem_append.1 hx with hx | hx
    · exact inv.open_ hd x hx
    · simp at hx; subst hx; rw [hdone]; exact hf
  · intro ht
    exact ⟨h, _, rfl, by rw [hdone]; exact ht, inv.open_ hd⟩

theorem chunksFrom_inv (db : List Item) (hs : Sorted db) (r : Req) (fuel i : Nat) (s : Sess) (h : List Resp)
    (inv : SInv db s h) : SInv db (chunksFrom db r fuel i s).1 (h ++ (chunksFrom db r fuel i s).2) := by
  induction fuel generalizing i s h with
  | zero => simpa [chunksFrom] using inv
  | succ f ih =>
    unfold chunksFrom
    split
    · rename_i hc
      have hd : s.done = false := by
        simp only [Gen.Seeder.chunkLoop, Bool.and_eq_true, Bool.not_eq_true'] at hc; exact hc.2
      have := ih (i + 1) _ _ (chunk_inv db hs r s h inv hd)
      simpa using this
    · simpa using inv

theorem chunks_inv (db : List Item) (hs : Sorted db) (r : Req) (s : Sess) (h : List Resp) (inv : SInv db s h) :
    SInv db (chunks db r s).1 (h ++ (chunks db r s).2) := chunksFrom_inv db hs r _ _ s h inv

theorem chunksFrom_frame (db : List Item) (r : Req) (fuel i : Nat) (s : Sess) :
    (chunksFrom db r fuel i s).1.orig = s.orig ∧ (chunksFrom db r fuel i s).1.stop = s.stop ∧
    ∀ x ∈ (chunksFrom db r fuel i s).2, x.sid = r.sid := by
  induction fuel generalizing i s with
  | zero => simp [chunksFrom]
  | succ f ih =>
    unfold chunksFrom
    split
    · have := ih (i + 1) (chunk db r s).1
      refine ⟨this.1, this.2.1, ?_⟩
      intro x hx
      rcases List.mem_cons.1 hx with rfl | hx
      · rfl
      · exact this.2.2 x hx
    · simp

theorem chunksFrom_limits (db : List Item) (hdb : db.length < 4294967296) (r : Req) (fuel i : Nat) (s : Sess) :
    ∀ x ∈ (chunksFrom db r fuel i s).2, WithinLimits r.maxNum r.maxSize x.payload := by
  induction fuel generalizing i s with
  | zero => simp [chunksFrom]
  | succ f ih =>
    unfold chunksFrom
    split
    · intro x hx
      rcases List.mem_cons.1 hx with rfl | hx
      · exact chunk_limits db hdb r s
      · exact ih _ _ x hx
    · simp

/-! ### progress: enough requested chunks finish the session -/

theorem chunksFrom_done_id (db : List Item) (r : Req) (fuel i : Nat) (s : Sess) (hd : s.done = true) :
    chunksFrom db r fuel i s = (s, []) := by
  cases fuel with
  | zero => rfl
  | succ f => unfold chunksFrom; simp [Gen.Seeder.chunkLoop, hd]

theorem chunksFrom_progress (db : List Item) (hs : Sorted db) (r : Req) (fuel i : Nat) (s : Sess)
    (hi : i + fuel ≤ r.maxChunks) (hd : s.done = false) :
    (chunksFrom db r fuel i s).1.done = true ∨
    (range db s.stop (chunksFrom db r fuel i s).1.next).length + fuel ≤ (range db s.stop s.next).length := by
  induction fuel generalizing i s with
  | zero => right; simp [chunksFrom]
  | succ f ih =>
    unfold chunksFrom
    have hc : Gen.Seeder.chunkLoop i r.maxChunks s.done = true := by
      simp only [Gen.Seeder.chunkLoop, hd]; simp; omega
    rw [if_pos hc]
    obtain ⟨e, _, hne, _, _, _, hst⟩ := chunk_range db hs r s
    cases hdc : (chunk db r s).1.done with
    | true =>
      left
      show (chunksFrom db r f (i + 1) (chunk db r s).1).1.done = true
      rw [chunksFrom_done_id db r f (i + 1) _ hdc]; exact hdc
    | false =>
      have hpos : 0 < (chunk db r s).2.payload.length := List.length_pos_iff.2 (hne hdc)
      have hl := congrArg List.length e
      rw [List.length_append] at hl
      rcases ih (i + 1) (chunk db r s).1 (by omega) hdc with h | h
      · left; exact h
      · right; rw [hst] at h; simp only; omega

/-! ### the session table -/

theorem lget_filter {κ α} [DecidableEq κ] (m : List (κ × α)) (k k' : κ) :
    lget (m.filter (fun p => !decide (p.1 = k))) k' = if k' = k then none else lget m k' := by
  induction m with
  | nil => simp [lget]
  | cons p t ih =>
    obtain ⟨a, v⟩ := p
    by_cases h : a = k
    · subst h
      simp only [List.filter, decide_true, Bool.not_true]
      rw [ih]
      by_cases h2 : k' = a
      · simp [h2]
      · have : ¬ a = k' := fun e => h2 e.symm
        simp [lget, h2, this]
    · simp only [List.filter, h, decide_false, Bool.not_false, lget]
      rw [ih]
      by_cases h2 : a = k'
      · subst h2; simp [h]
      · simp [h2]

theorem lget_del {κ α} [DecidableEq κ] (m : List (κ × α)) (k k' : κ) :
    lget (ldel m k) k' = if k' = k then none else lget m k' := lget_filter m k k'

theorem lget_put {κ α} [DecidableEq κ] (m : List (κ × α)) (k k' : κ) (v : α) :
    lget (lput m k v) k' = if k' = k then some v else lget m k' := by
  unfold lput
  simp only [lget]
  by_cases h : k = k'
  · subst h; simp
  · have : ¬ k' = k := fun e => h e.symm
    simp [h, this, lget_del]

abbrev Key := Nat × Nat

def fresh (r : Req) : Sess := { orig := r.start, next := r.start, stop := r.stop, done := false }

theorem openSession_cases (st : St) (r : Req) :
    (∃ s0, lget st.sessions (r.sid, r.peer) = some s0 ∧ openSession st r = (st, s0)) ∨
    (lget st.sessions (r.sid, r.peer) = none ∧ (openSession st r).2 = fresh r ∧
      lget (openSession st r).1.sessions (r.sid, r.peer) = some (fresh r) ∧
      ∀ k, k ≠ (r.sid, r.peer) → ∀ s, lget (openSession st r).1.sessions k = some s → lget st.sessions k = some s) := by
  unfold openSession
  cases h : lget st.sessions (r.sid, r.peer) with
  | some s0 => left; exact ⟨s0, rfl, rfl⟩
  | none =>
    right
    refine ⟨rfl, rfl, by simp [lget_put, fresh], ?_⟩
    intro k hk s
    simp only [lget_put, hk, if_false]
    split
    · rw [lget_del]; split
      · intro h; cases h
      · exact id
    · exact id

/-- the responses sent so far for each live session (ghost variable of the statement): a
    session that is (re)created starts with an empty history, a deleted one has none -/
abbrev Hist := Key → List Resp

def outFor (k0 : Key) : Out → Key → List Resp
  | .responses rs, k => if k = k0 then rs else []
  | _, _ => []

def opKey : Op → Key
  | .request r => (r.sid, r.peer)
  | .unregister p => (0, p)

def histStep (st st' : St) (k0 : Key) (o : Out) (h : Hist) : Hist := fun k =>
  match lget st'.sessions k with
  | none => []
  | some _ => (if (lget st.sessions k).isSome then h k else []) ++ outFor k0 o k

def stepH (cfg : Cfg) (db : List Item) (x : St × Hist) (op : Op) : St × Hist :=
  let y := step cfg db x.1 op
  (y.1, histStep x.1 y.1 (opKey op) y.2 x.2)

def runH (cfg : Cfg) (db : List Item) (ops : List Op) : St × Hist :=
  ops.foldl (stepH cfg db) ({}, fun _ => [])

def Inv (db : List Item) (st : St) (h : Hist) : Prop :=
  ∀ k s, lget st.sessions k = some s → SInv db s (h k)

theorem stepRequest_mismatch (db : List Item) (st : St) (r : Req)
    (hm : Gen.Seeder.selectorMismatch (cmp (openSession st r).2.orig r.start) = true) :
    stepRequest db st r = ((openSession st r).1, .mismatch) := by
  unfold stepRequest; simp only; rw [if_pos hm]

theorem stepRequest_serve (db : List Item) (st : St) (r : Req)
    (hm : ¬ Gen.Seeder.selectorMismatch (cmp (openSession st r).2.orig r.start) = true) :
    stepRequest db st r =
      ({ (openSession st r).1 with
          sessions := lput (openSession st r).1.sessions (r.sid, r.peer) (chunks db r (openSession st r).2).1 },
       .responses (chunks db r (openSession st r).2).2) := by
  unfold stepRequest; simp only; rw [if_neg hm]

theorem stepRequest_inv (db : List Item) (hs : Sorted db) (st : St) (r : Req) (h : Hist) (inv : Inv db st h) :
    Inv db (stepRequest db st r).1 (histStep st (stepRequest db st r).1 (r.sid, r.peer) (stepRequest db st r).2 h) := by
  intro k s hk
  unfold histStep
  rw [hk]
  simp only
  by_cases hm : Gen.Seeder.selectorMismatch (cmp (openSession st r).2.orig r.start) = true
  · rw [stepRequest_mismatch db st r hm] at hk ⊢
    simp only [outFor, List.append_nil] at hk ⊢
    rcases openSession_cases st r with ⟨s0, h0, e⟩ | ⟨h0, e2, hk0, hother⟩
    · rw [e] at hk
      simp only [hk, Option.isSome_some, if_true]
      exact inv k s hk
    · by_cases hkk : k = (r.sid, r.peer)
      · subst hkk
        rw [hk0] at hk; cases hk
        simp only [h0, Option.isSome_none]
        exact fresh_inv db _ _
      · have := hother k hkk s hk
        simp only [this, Option.isSome_some, if_true]
        exact inv k s this
  · rw [stepRequest_serve db st r hm] at hk ⊢
    simp only [outFor, lget_put] at hk ⊢
    by_cases hkk : k = (r.sid, r.peer)
    · subst hkk
      simp only [if_true, Option.some.injEq] at hk
      subst hk
      rcases openSession_cases st r with ⟨s0, h0, e⟩ | ⟨h0, e2, hk0, hother⟩
      · rw [e]
        simp only [h0, Option.isSome_some, if_true]
        exact chunks_inv db hs r s0 _ (inv _ s0 h0)
      · simp only [h0, Option.isSome_none]
        rw [e2]
        have := chunks_inv db hs r (fresh r) [] (fresh_inv db _ _)
        simpa using this
    · simp only [hkk, if_false, List.append_nil] at hk ⊢
      rcases openSession_cases st r with ⟨s0, h0, e⟩ | ⟨h0, e2, hk0, hother⟩
      · rw [e] at hk
        simp only [hk, Option.isSome_some, if_true]
        exact inv k s hk
      · have := hother k hkk s hk
        simp only [this, Option.isSome_some, if_true]
        exact inv k s this

theorem lget_foldl_del (ids : List Nat) (p : Nat) (m : List (Key × Sess)) (k : Key) :
    lget (ids.foldl (fun m sid => ldel m (sid, p)) m) k = if k.1 ∈ ids ∧ k.2 = p then none else lget m k := by
  induction ids generalizing m with
  | nil => simp
  | cons a t ih =>
    simp only [List.foldl_cons]
    rw [ih, lget_del]
    obtain ⟨k1, k2⟩ := k
    by_cases h1 : k1 ∈ t ∧ k2 = p
    · have : k1 ∈ a :: t ∧ k2 = p := ⟨List.mem_cons_of_mem _ h1.1, h1.2⟩
      simp [h1, this]
    · rw [if_neg h1]
      by_cases h2 : (k1, k2) = (a, p)
      · cases h2; simp
      · rw [if_neg h2]
        have : ¬ (k1 ∈ a :: t ∧ k2 = p) := by
          rintro ⟨hm, rfl⟩
          rcases List.mem_cons.1 hm with rfl | hm
          · exact h2 rfl
          · exact h1 ⟨hm, rfl⟩
        rw [if_neg this]

theorem sanitize_some (cfg : Cfg) (r r' : Req) (h : sanitize cfg r = some r') :
    r'.peer = r.peer ∧ r'.sid = r.sid ∧ r'.start = r.start ∧ r'.stop = r.stop ∧ r'.maxChunks = r.maxChunks ∧
    r'.maxNum ≤ r.maxNum ∧ r'.maxSize ≤ r.maxSize := by
  unfold sanitize at h
  split at h
  · cases h
  · simp only [Option.some.injEq] at h
    subst h
    simp only [Gen.Seeder.clampNum, Gen.Seeder.clampSize, decide_eq_true_eq]
    refine ⟨?_, ?_, ?_, ?_, ?_, ?_, ?_⟩ <;> (repeat' split) <;> (try dsimp only at *) <;> omega

theorem step_inv (cfg : Cfg) (db : List Item) (hs : Sorted db) (x : St × Hist) (op : Op) (inv : Inv db x.1 x.2) :
    Inv db (stepH cfg db x op).1 (stepH cfg db x op).2 := by
  unfold stepH
  simp only
  cases op with
  | request r =>
    simp only [step, opKey]
    cases hsan : sanitize cfg r with
    | none =>
      intro k s hk
      simp only at hk
      simp only [histStep, hk, Option.isSome_some, if_true, outFor, List.append_nil]
      exact inv k s hk
    | some r' =>
      obtain ⟨e1, e2, _⟩ := sanitize_some cfg r r' hsan
      have := stepRequest_inv db hs x.1 r' x.2 inv
      rw [e1, e2] at this
      exact this
  | unregister p =>
    intro k s hk
    simp only [step, stepUnregister, lget_foldl_del] at hk
    split at hk
    · cases hk
    · simp only [histStep, step, stepUnregister, lget_foldl_del]
      rename_i hn
      rw [if_neg hn, hk]
      simp only [Option.isSome_some, if_true, outFor, List.append_nil]
      exact inv k s hk

theorem runH_inv (cfg : Cfg) (db : List Item) (hs : Sorted db) (ops : List Op) (x : St × Hist) (inv : Inv db x.1 x.2) :
    Inv db (ops.foldl (stepH cfg db) x).1 (ops.foldl (stepH cfg db) x).2 := by
  induction ops generalizing x with
  | nil => exact inv
  | cons op t ih => exact ih _ (step_inv cfg db hs x op inv)

/-! ## The property theorems -/

/-- **Order, no gaps, no repeats, one Done, completeness.** After any sequence of requests and
    unregistrations, for every live session `s` (key `(id, peer)`) the responses `h` sent for it
    since it was created satisfy: the concatenation of their payloads followed by the not yet
    sent items of `[next, stop)` *is* the list of data base items in `[start, stop)` in key
    order; a response marked done is the last one; if the last one is marked done, everything
    in `[start, stop)` was sent. -/
theorem C17_stream_exact (cfg : Cfg) (db : List Item) (hs : Sorted db) (ops : List Op) (k : Key) (s : Sess)
    (hk : lget (runH cfg db ops).1.sessions k = some s) :
    let h := (runH cfg db ops).2 k
    range db s.stop s.orig = payloads h ++ range db s.stop s.next ∧
    (∀ pre r post, h = pre ++ r :: post → r.done = true → post = []) ∧
    ((∃ r ∈ h, r.done = true) → s.done = true ∧ payloads h = range db s.stop s.orig) := by
  have inv : SInv db s ((runH cfg db ops).2 k) :=
    runH_inv cfg db hs ops ({}, fun _ => []) (by intro k s hk; simp [lget] at hk) k s hk
  refine ⟨inv.sent, ?_, ?_⟩
  · intro pre r post e hr
    cases hd : s.done with
    | false =>
      have := inv.open_ hd r (by rw [e]; simp)
      rw [hr] at this; cases this
    | true =>
      obtain ⟨pre', r', e', _, hpre⟩ := inv.closed hd
      rw [e] at e'
      match post with
      | [] => rfl
      | y :: post' =>
        exfalso
        have hmem : r ∈ pre' := by
          have h1 := congrArg List.dropLast e'
          simp only [List.dropLast_concat] at h1
          rw [← h1]
          rw [show pre ++ r :: y :: post' = (pre ++ [r]) ++ (y :: post') by simp,
            List.dropLast_append_of_ne_nil (by simp)]
          simp
        have := hpre r hmem
        rw [hr] at this; cases this
  · rintro ⟨r, hr, hd⟩
    cases hsd : s.done with
    | false => have := inv.open_ hsd r hr; rw [hd] at this; cases this
    | true =>
      refine ⟨rfl, ?_⟩
      rw [inv.sent, inv.complete hsd]; simp

/-- **Limits.** Every response to a request stays within the requested count and size limits
    up to one item (and carries the request's session id). -/
theorem C17_limits (cfg : Cfg) (db : List Item) (hdb : db.length < 4294967296) (st : St) (r : Req) (rs : List Resp)
    (h : (step cfg db st (.request r)).2 = .responses rs) :
    ∀ x ∈ rs, WithinLimits r.maxNum r.maxSize x.payload ∧ x.sid = r.sid := by
  simp only [step] at h
  cases hsan : sanitize cfg r with
  | none => rw [hsan] at h; cases h
  | some r' =>
    rw [hsan] at h
    simp only at h
    obtain ⟨_, e2, _, _, _, hn, hz⟩ := sanitize_some cfg r r' hsan
    by_cases hm : Gen.Seeder.selectorMismatch (cmp (openSession st r').2.orig r'.start) = true
    · rw [stepRequest_mismatch db st r' hm] at h; cases h
    · rw [stepRequest_serve db st r' hm] at h
      simp only [Out.responses.injEq] at h
      subst h
      intro x hx
      have hl := chunksFrom_limits db hdb r' _ _ _ x hx
      have hf := (chunksFrom_frame db r' _ _ _).2.2 x hx
      refine ⟨⟨?_, ?_⟩, by rw [← e2]; exact hf⟩
      · have := hl.1; omega
      · intro h2; have := hl.2 h2; omega

/-- **Done once enough chunks were requested.** A request either finishes the session or sends at
    least `MaxChunks` further items; hence requests whose chunk counts add up to more than the
    number of items left in `[next, stop)` end with the response marked done. -/
theorem C17_done_when_enough_chunks (db : List Item) (hs : Sorted db) (r : Req) (s : Sess) (hd : s.done = false) :
    (chunks db r s).1.done = true ∨
    (range db s.stop (chunks db r s).1.next).length + r.maxChunks ≤ (range db s.stop s.next).length :=
  chunksFrom_progress db hs r r.maxChunks 0 s (by omega) hd

/-- A request for a live session whose start differs from the session's start is refused
    (`Misbehaviour`), nothing is sent and the session is left as it is. -/
theorem C17_selector_mismatch (db : List Item) (st : St) (r : Req) (s : Sess)
    (hk : lget st.sessions (r.sid, r.peer) = some s) (hne : s.orig ≠ r.start) :
    stepRequest db st r = (st, .mismatch) := by
  have ho : openSession st r = (st, s) := by unfold openSession; rw [hk]
  have := stepRequest_mismatch db st r (by rw [ho]; exact (mismatch_iff _ _).2 hne)
  rw [this, ho]

/-- **Resumable.** A live session survives every reader step — with its start and stop, and
    unchanged unless the step is a request for this very session — except (a) the
    unregistration of its peer and (b) a request of its peer that creates a new session while
    the peer's list holds three (`Gen.Seeder.pruneCond`) and this session is the oldest. -/
theorem C17_resumable (cfg : Cfg) (db : List Item) (st : St) (op : Op) (k : Key) (s : Sess)
    (hk : lget st.sessions k = some s) :
    (∃ s', lget (step cfg db st op).1.sessions k = some s' ∧ s'.orig = s.orig ∧ s'.stop = s.stop ∧
        (opKey op ≠ k → s' = s)) ∨
    op = .unregister k.2 ∨
    (∃ r, op = .request r ∧ r.peer = k.2 ∧ lget st.sessions (r.sid, r.peer) = none ∧
        3 ≤ (idsOf st k.2).length ∧ (idsOf st k.2).head? = some k.1) := by
  cases op with
  | unregister p =>
    by_cases hp : p = k.2
    · right; left; rw [hp]
    · left
      refine ⟨s, ?_, rfl, rfl, fun _ => rfl⟩
      simp only [step, stepUnregister, lget_foldl_del]
      rw [if_neg (fun h => hp h.2.symm)]; exact hk
  | request r =>
    simp only [step, opKey]
    cases hsan : sanitize cfg r with
    | none => left; exact ⟨s, hk, rfl, rfl, fun _ => rfl⟩
    | some r' =>
      obtain ⟨e1, e2, _⟩ := sanitize_some cfg r r' hsan
      simp only
      -- the session table after opening the session, at key k
      have hopen : (∃ s0, lget st.sessions (r'.sid, r'.peer) = some s0 ∧ openSession st r' = (st, s0)) ∨
          (lget st.sessions (r'.sid, r'.peer) = none ∧ k ≠ (r'.sid, r'.peer) ∧
            (lget (openSession st r').1.sessions k = some s ∨
             (r'.peer = k.2 ∧ 3 ≤ (idsOf st k.2).length ∧ (idsOf st k.2).head? = some k.1))) := by
        cases h0 : lget st.sessions (r'.sid, r'.peer) with
        | some s0 => left; exact ⟨s0, rfl, by unfold openSession; rw [h0]⟩
        | none =>
          right
          have hne : k ≠ (r'.sid, r'.peer) := by intro e; rw [e, h0] at hk; cases hk
          refine ⟨rfl, hne, ?_⟩
          unfold openSession
          rw [h0]
          simp only [lget_put, hne, if_false]
          by_cases hp : Gen.Seeder.pruneCond (idsOf st r'.peer).length = true
          · rw [if_pos hp, lget_del]
            by_cases hkk : k = ((idsOf st r'.peer).headD 0, r'.peer)
            · right
              have hlen : 2 < (idsOf st r'.peer).length := by simpa [Gen.Seeder.pruneCond] using hp
              have hpe : r'.peer = k.2 := by rw [hkk]
              refine ⟨hpe, by rw [← hpe]; omega, ?_⟩
              rw [← hpe]
              match hl : idsOf st r'.peer with
              | [] => rw [hl] at hlen; simp at hlen
              | a :: t => rw [hl] at hkk; simp [hkk]
            · left; rw [if_neg hkk]; exact hk
          · left; rw [if_neg hp]; exact hk
      rcases hopen with ⟨s0, h0, ho⟩ | ⟨h0, hne, hcase⟩
      · left
        by_cases hm : Gen.Seeder.selectorMismatch (cmp (openSession st r').2.orig r'.start) = true
        · rw [stepRequest_mismatch db st r' hm, ho]; exact ⟨s, hk, rfl, rfl, fun _ => rfl⟩
        · rw [stepRequest_serve db st r' hm, ho]
          simp only [lget_put]
          by_cases hkk : k = (r'.sid, r'.peer)
          · rw [if_pos hkk]
            rw [hkk, h0] at hk; cases hk
            have := chunksFrom_frame db r' r'.maxChunks 0 s
            exact ⟨_, rfl, this.1, this.2.1, fun hn => absurd (by rw [hkk, e1, e2]) hn⟩
          · rw [if_neg hkk]; exact ⟨s, hk, rfl, rfl, fun _ => rfl⟩
      · rcases hcase with hkeep | ⟨hp, hlen, hhead⟩
        · left
          by_cases hm : Gen.Seeder.selectorMismatch (cmp (openSession st r').2.orig r'.start) = true
          · rw [stepRequest_mismatch db st r' hm]; exact ⟨s, hkeep, rfl, rfl, fun _ => rfl⟩
          · rw [stepRequest_serve db st r' hm]
            simp only [lget_put, hne, if_false]
            exact ⟨s, hkeep, rfl, rfl, fun _ => rfl⟩
        · right; right
          exact ⟨r, rfl, by rw [← e1]; exact hp, by rw [← e1, ← e2]; exact h0, hlen, hhead⟩

/-- the peer's session list and the session table agree: the list has no duplicates, at most
    three entries, and holds exactly the ids of the peer's live sessions -/
def TInv (st : St) : Prop :=
  ∀ p, (idsOf st p).Nodup ∧ (idsOf st p).length ≤ 3 ∧
    ∀ sid, sid ∈ idsOf st p ↔ (lget st.sessions (sid, p)).isSome = true

theorem idsOf_put (st : St) (p q : Nat) (l : List Nat) (ss : List (Key × Sess)) :
    idsOf { peerSessions := lput st.peerSessions q l, sessions := ss } p = if p = q then l else idsOf st p := by
  unfold idsOf
  simp only [lget_put]
  split <;> rfl

theorem idsOf_del (st : St) (p q : Nat) (ss : List (Key × Sess)) :
    idsOf { peerSessions := ldel st.peerSessions q, sessions := ss } p = if p = q then [] else idsOf st p := by
  unfold idsOf
  simp only [lget_del]
  split <;> rfl

theorem openSession_tinv (st : St) (r : Req) (inv : TInv st) :
    TInv (openSession st r).1 ∧ (lget (openSession st r).1.sessions (r.sid, r.peer)).isSome = true := by
  unfold openSession
  cases h0 : lget st.sessions (r.sid, r.peer) with
  | some s0 => exact ⟨inv, by simp [h0]⟩
  | none =>
    simp only
    refine ⟨?_, by simp [lget_put]⟩
    obtain ⟨hnd, hlen, hmem⟩ := inv r.peer
    have hnotin : r.sid ∉ idsOf st r.peer := by
      intro h; have := (hmem r.sid).1 h; rw [h0] at this; cases this
    intro p
    rw [idsOf_put]
    by_cases hp : p = r.peer
    · rw [if_pos hp, hp]
      by_cases hpr : Gen.Seeder.pruneCond (idsOf st r.peer).length = true
      · rw [if_pos hpr, if_pos hpr]
        have hl : 2 < (idsOf st r.peer).length := by simpa [Gen.Seeder.pruneCond] using hpr
        match hids : idsOf st r.peer with
        | [] => rw [hids] at hl; simp at hl
        | a :: t =>
          rw [hids] at hnd hlen hmem hnotin
          have hnd' := List.nodup_cons.1 hnd
          simp only [List.tail_cons, List.headD_cons]
          refine ⟨?_, ?_, ?_⟩
          · rw [List.nodup_append]
            refine ⟨hnd'.2, by simp, ?_⟩
            intro x hx y hy
            simp at hy; subst hy
            intro e; subst e
            exact hnotin (List.mem_cons_of_mem _ hx)
          · simp at hlen ⊢; omega
          · intro sid
            simp only [List.mem_append, List.mem_singleton, lget_put, lget_del]
            by_cases hs : sid = r.sid
            · subst hs; simp
            · have h1 : ¬ (sid, r.peer) = (r.sid, r.peer) := by intro e; cases e; exact hs rfl
              rw [if_neg h1]
              by_cases ha : sid = a
              · subst ha
                simp [hs, hnd'.1]
              · have h2 : ¬ (sid, r.peer) = (a, r.peer) := by intro e; cases e; exact ha rfl
                rw [if_neg h2]
                have := hmem sid
                simp only [List.mem_cons, ha, false_or] at this
                simp only [hs, or_false]
                exact this
      · rw [if_neg hpr, if_neg hpr]
        have hl : (idsOf st r.peer).length ≤ 2 := by
          have : ¬ (2 < (idsOf st r.peer).length) := by simpa [Gen.Seeder.pruneCond] using hpr
          omega
        refine ⟨?_, by simp; omega, ?_⟩
        · rw [List.nodup_append]
          refine ⟨hnd, by simp, ?_⟩
          intro x hx y hy
          simp at hy; subst hy
          intro e; subst e; exact hnotin hx
        · intro sid
          simp only [List.mem_append, List.mem_singleton, lget_put]
          by_cases hs : sid = r.sid
          · subst hs; simp
          · have h1 : ¬ (sid, r.peer) = (r.sid, r.peer) := by intro e; cases e; exact hs rfl
            rw [if_neg h1]
            simp only [hs, or_false]
            exact hmem sid
    · rw [if_neg hp]
      obtain ⟨hnd', hlen', hmem'⟩ := inv p
      refine ⟨hnd', hlen', ?_⟩
      intro sid
      have h1 : ¬ (sid, p) = (r.sid, r.peer) := by intro e; cases e; exact hp rfl
      simp only [lget_put, if_neg h1]
      split
      · have h2 : ¬ (sid, p) = ((idsOf st r.peer).headD 0, r.peer) := by intro e; cases e; exact hp rfl
        rw [lget_del, if_neg h2]; exact hmem' sid
      · exact hmem' sid

theorem tinv_put_live (st : St) (k : Key) (v : Sess) (inv : TInv st) (hk : (lget st.sessions k).isSome = true) :
    TInv { st with sessions := lput st.sessions k v } := by
  intro p
  obtain ⟨hnd, hlen, hmem⟩ := inv p
  refine ⟨hnd, hlen, ?_⟩
  intro sid
  show sid ∈ idsOf st p ↔ _
  simp only [lget_put]
  by_cases e : (sid, p) = k
  · rw [if_pos e, hmem sid, e, hk]; simp
  · rw [if_neg e]; exact hmem sid

theorem stepRequest_tinv (db : List Item) (st : St) (r : Req) (inv : TInv st) : TInv (stepRequest db st r).1 := by
  obtain ⟨h1, h2⟩ := openSession_tinv st r inv
  by_cases hm : Gen.Seeder.selectorMismatch (cmp (openSession st r).2.orig r.start) = true
  · rw [stepRequest_mismatch db st r hm]; exact h1
  · rw [stepRequest_serve db st r hm]; exact tinv_put_live _ _ _ h1 h2

theorem stepUnregister_tinv (st : St) (q : Nat) (inv : TInv st) : TInv (stepUnregister st q) := by
  intro p
  obtain ⟨hnd, hlen, hmem⟩ := inv p
  unfold stepUnregister
  rw [idsOf_del]
  by_cases hp : p = q
  · subst hp
    rw [if_pos rfl]
    refine ⟨List.nodup_nil, by simp, ?_⟩
    intro sid
    simp only [lget_foldl_del, List.not_mem_nil, false_iff]
    by_cases hin : sid ∈ idsOf st p
    · simp [hin]
    · have : ¬ (lget st.sessions (sid, p)).isSome = true := fun h => hin ((hmem sid).2 h)
      simp only [hin, false_and, if_false]; exact this
  · rw [if_neg hp]
    refine ⟨hnd, hlen, ?_⟩
    intro sid
    simp only [lget_foldl_del, hp, and_false, if_false]
    exact hmem sid

/-- **At most three live sessions per peer, listed exactly.** -/
theorem C17_sessions_table (cfg : Cfg) (db : List Item) (ops : List Op) : TInv (run cfg db {} ops) := by
  have key : ∀ st, TInv st → TInv (run cfg db st ops) := by
    induction ops with
    | nil => intro st h; exact h
    | cons op t ih =>
      intro st h
      apply ih
      cases op with
      | request r =>
        simp only [step]
        cases sanitize cfg r with
        | none => exact h
        | some r' => exact stepRequest_tinv db st r' h
      | unregister p => exact stepUnregister_tinv st p h
  apply key
  intro p
  simp [idsOf, lget]

/-! ### pending response memory -/

/-- what can happen to `pendingResponsesSize`: the reader adds a response's memory size, which
    it does only after `waitPendingResponsesBelowLimit` saw `pending < limit`
    (`Gen.Seeder.pendingFull` false); a sender subtracts the size of a response it has sent -/
inductive PEv where
  | enqueue (mem : Nat)
  | sent (mem : Nat)

def pstep (limit : Nat) (p : Nat) : PEv → Option Nat
  | .enqueue m => if Gen.Seeder.pendingFull p limit then none else some (p + m)
  | .sent m => some (p - m)

def prun (limit : Nat) : Nat → List PEv → Option Nat
  | p, [] => some p
  | p, e :: es => match pstep limit p e with
    | none => none
    | some p' => prun limit p' es

/-- **Pending bound.** Whatever the interleaving of the reader and the senders, pending response
    memory never exceeds `limit - 1` plus one response (`M` bounds the memory size of a response). -/
theorem C17_pending_bound (limit M : Nat) (hl : 0 < limit) (evs : List PEv) (p p' : Nat)
    (hM : ∀ e ∈ evs, ∀ m, e = .enqueue m → m ≤ M) (hp : p ≤ limit - 1 + M) (h : prun limit p evs = some p') :
    p' ≤ limit - 1 + M := by
  induction evs generalizing p with
  | nil => simp [prun] at h; omega
  | cons e es ih =>
    unfold prun at h
    cases e with
    | enqueue m =>
      simp only [pstep, Gen.Seeder.pendingFull] at h
      by_cases hf : p ≥ limit
      · simp [hf] at h
      · simp only [hf, decide_false, Bool.false_eq_true, if_false] at h
        have := hM (.enqueue m) List.mem_cons_self m rfl
        exact ih (p + m) (fun e he => hM e (List.mem_cons_of_mem _ he)) (by omega) h
    | sent m =>
      simp only [pstep] at h
      exact ih (p - m) (fun e he => hM e (List.mem_cons_of_mem _ he)) (by omega) h

/-- the same bound for the model's account of one request served with blocked senders -/
theorem gated_bound (limit M : Nat) (hl : 0 < limit) (rs : List Resp) (p : Nat)
    (hM : ∀ r ∈ rs, memSize r.payload ≤ M) (hp : p ≤ limit - 1 + M) :
    (gated limit p rs).2.1 ≤ limit - 1 + M := by
  have key : ∀ p, p ≤ limit - 1 + M → (gatedFrom limit p rs).2.1 ≤ limit - 1 + M := by
    induction rs with
    | nil => intro p hp; simpa [gatedFrom] using hp
    | cons r t ih =>
      intro p hp
      unfold gatedFrom
      split
      · exact hp
      · rename_i hf
        have hlt : p < limit := by simpa [Gen.Seeder.pendingFull] using hf
        have := hM r List.mem_cons_self
        exact ih (fun x hx => hM x (List.mem_cons_of_mem _ hx)) (p + memSize r.payload) (by omega)
  unfold gated
  split
  · exact hp
  · exact key p hp

/-! ### non-vacuity and the repaired defect (DESIGN §7-D4) -/

def db3 : List Item := [⟨1, 1⟩, ⟨2, 1⟩, ⟨3, 1⟩, ⟨5, 1⟩]
def cfg0 : Cfg := { maxNum := 100, maxSize := 1000, maxChunks := 5, maxPending := 1000 }
/-- one item per response, one response per request -/
def rq (sid chunks : Nat) : Req := ⟨1, sid, 0, 10, 1, 100, chunks⟩

def outs (stepf : St → Req → St × Out) (rs : List Req) : List Out :=
  (rs.foldl (fun (acc : St × List Out) r => let y := stepf acc.1 r; (y.1, acc.2 ++ [y.2])) ({}, [])).2

def keysOf : Out → List (List Nat)
  | .responses rs => rs.map (fun r => r.payload.map (·.key))
  | _ => []

example : Sorted db3 := by simp [Sorted, db3]

/-- a session served over three requests: items 1, 2 then 3 and 5 with the end marker -/
example : (outs (stepRequest db3) [rq 1 1, rq 1 1, ⟨1, 1, 0, 10, 2, 100, 2⟩]) =
    [.responses [⟨1, false, [⟨1, 1⟩]⟩], .responses [⟨1, false, [⟨2, 1⟩]⟩],
     .responses [⟨1, false, [⟨3, 1⟩, ⟨5, 1⟩]⟩, ⟨1, true, []⟩]] := by decide

/-- the ghost history of `C17_stream_exact` on a concrete run -/
example : ((runH cfg0 db3 [.request (rq 1 1), .request (rq 2 1), .request (rq 1 1), .unregister 2]).2 (1, 1)).map
    (fun r => r.payload.map (·.key)) = [[1], [2]] := by decide

/-- repaired code: a peer holding three sessions resumes the second one, then the first one:
    the first one continues with item 2 -/
example : (outs (stepRequest db3) [rq 1 1, rq 2 1, rq 3 1, rq 2 1, rq 1 1]).map keysOf =
    [[[1]], [[1]], [[1]], [[2]], [[2]]] := by decide

/-- **D4(a), before the repair**: the resume of session 2 pruned session 1, whose resume then
    started again from the beginning — item 1 was sent twice for one session. -/
theorem D4a_old_code_repeats : (outs (stepRequestOld db3) [rq 1 1, rq 2 1, rq 3 1, rq 2 1, rq 1 1]).map keysOf =
    [[[1]], [[1]], [[1]], [[2]], [[1]]] := by decide

/-- **D4(b), before the repair**: requests with `MaxChunks = 0` registered session 1 twice
    without storing it; with the duplicates the list exceeded two entries and creating session 3
    pruned session 2, the only live one, which restarted from the beginning. -/
theorem D4b_old_code_prunes_live_session :
    (outs (stepRequestOld db3) [rq 2 1, rq 1 0, rq 1 0, rq 3 1, rq 2 1]).map keysOf =
      [[[1]], [], [], [[1]], [[1]]] ∧
    (outs (stepRequest db3) [rq 2 1, rq 1 0, rq 1 0, rq 3 1, rq 2 1]).map keysOf =
      [[[1]], [], [], [[1]], [[2]]] := by decide

/-- a fourth session prunes the oldest one (this is intended: the peer already holds three) -/
example : (outs (stepRequest db3) [rq 1 1, rq 2 1, rq 3 1, rq 4 1, rq 1 1]).map keysOf =
    [[[1]], [[1]], [[1]], [[1]], [[1]]] := by decide

/-- blocked senders: limit 20, responses of 9 bytes each: the third response is produced and then waits -/
example : gated 20 0 [⟨1, false, [⟨1, 1⟩]⟩, ⟨1, false, [⟨2, 1⟩]⟩, ⟨1, false, [⟨3, 1⟩]⟩, ⟨1, false, [⟨5, 1⟩]⟩] = (4, 27, true) := by decide
end C17
