import LachesisVerif.Gen.FactsC25m
import LachesisVerif.Gen.FactsC25b
/-!
# Structural expectations for C25 (regenerated facts `Gen.FactsC25b`)

Split out of the family survey (`notes/facts-multi-notes.md` lists what the selectors cannot express).
Each theorem states the expected value of Bool facts regenerated from the Go source by
`go/cmd/extract` (selectors `hascall:`, `topcall:`, `topassign:`, `before:`); a statement that is
dropped, guarded or reordered flips a fact and breaks the theorem.
-/
namespace FactsC25

/-- `SyncedPool`: `Model.SyncedPool.Pool.step (.dropQ n)` only extends `queued` (the store's drop
    callback is `enqueueDropDb`), and `Pool.flush` starts from `closePhase (o0.filter queued…)` and
    ends with `queued = []`: every flush pops the queue unconditionally and the pop empties it.
    Otherwise a drop would never reach the disk, or be repeated by the next flush on a DB that was
    re-created in between (data of a completed flush lost without a dirty mark). -/
theorem pool_drop_queue :
    Gen.FactsC25b.poolDropCallbackEnqueues = true ∧ Gen.FactsC25b.poolFlushPopsQueue = true ∧
    Gen.FactsC25b.poolPopClearsQueue = true := by decide

/-- `SyncedPool.flush`: `closePhase` removes the wrappers of the queued DBs BEFORE `dirtyPhase`,
    `dataPhase`, `cleanPhase` range over the wrappers (a dropped DB is not re-created with data and a
    clean mark), and the three `MarkFlushID` calls carry, in source order, Dirty (DBs to be dropped:
    `opsM`), Dirty (`dirtyPhase`), Clean (`cleanPhase`). Together with `Gen.FactsC25` (first mark <
    close < drop < data) this is the op order `opsM ++ opsA ++ opsB ++ opsC ++ opsD` of `Pool.flush`,
    on which `C25` (crash between any two durable operations) rests. -/
theorem pool_flush_phases :
    Gen.FactsC25b.poolForgetsDroppedBeforeMarks = true ∧ Gen.FactsC25b.poolMark0Dirty = true ∧
    Gen.FactsC25b.poolMark1Dirty = true ∧ Gen.FactsC25b.poolMark2Dirty = false := by decide

/-- `flaggedStore.Put` / `Delete` / `flaggedBatch.Write`: `modified()` (the dirty mark) strictly
    before the write — `Flagged.step (.write n b)` emits `[putMark n dirty] ++ [write n b]`. In the
    other order a crash between the two leaves modified data under a clean mark. -/
theorem flagged_mark_before_write :
    Gen.FactsC25b.flaggedPutMarksFirst = true ∧ Gen.FactsC25b.flaggedDeleteMarksFirst = true ∧
    Gen.FactsC25b.flaggedBatchMarksFirst = true := by decide

/-- `flaggedproducer.Producer`: `DropFn` marks the remaining DBs dirty before the DB is dropped
    (`Flagged.step (.drop n o)` = `markOthers … ++ [drop n]`; the pre-fix order is defect D7), and
    `Flush` writes the clean mark — through `Put`, hence `modified()` — BEFORE it resets `Dirty`
    (`flagFlush`: `pre ++ putMark clean`, then flag `false`). With the reset first, `modified()` would
    set `Dirty = 1` again, and the next write after the flush would not write a dirty mark. -/
theorem flagged_drop_and_flush :
    Gen.FactsC25b.flaggedDropMarksOthersBeforeDrop = true ∧
    Gen.FactsC25b.flaggedFlushCleanBeforeReset = true := by decide

end FactsC25

/-- `multidb.Producer` over several pools / flagged producers: `Initialize` threads the flush id through
    the wrapped producers (plain assignment, no shadowing `:=`), and `Flush` reaches every producer — so a
    crash between the flushes of two producers is reported as an unsynchronised state on restart. -/
theorem FactsC25.across_producers :
    Gen.FactsC25m.initializeThreadsFlushID = true ∧ Gen.FactsC25m.initializeShadowsFlushID = false ∧
    Gen.FactsC25m.initializeCallsEvery = true ∧ Gen.FactsC25m.flushCallsEvery = true := by decide
