import LachesisVerif.Proofs.VecLA
import LachesisVerif.Proofs.VecHB
/-!
# C05 — the forkless-cause index equals the graph definition

"For events A and B, the forkless-cause query is true exactly when A's ancestry (including A)
shows no fork by B's creator and the validators that show no fork in A's ancestry and created
some event that is a descendant-or-self of B and an ancestor-or-self of A hold at least a quorum
of weight. The answer does not depend on the order in which events were indexed or on which
queries were made before."

Model: `Model/Vec.lean` (`VState.add` = `fillGlobalBranchID` + `fillEventVectors` with the
explicit-stack DFS `visitLA`, `fcYes`/`fc` = `vecfc.Index.forklessCause`; the branch conditions are
the regenerated kernels `Gen.Vec`), run in lock-step against the Go code by `bin/check C05`.
Graph definition: `VecProofs.FCSpec` (Proofs/VecDefs.lean) — literally the sentence above, with
`Anc` = ancestor-or-self and `ForkSeen` = two different events of one creator with equal seq.

Proved here, for EVERY valid history `h` (`Valid` = what the event checks guarantee: parents
earlier, seq = self-parent's seq + 1, self-parent first, no other parent of the same creator),
all `a b < h.length`, all weights and every quorum > 0:

* `C05_fc_eq_spec` — `fc (run nVals h) weight quorum a b = true ↔ FCSpec h nVals weight quorum a b`;
* `C05_lowinv` — invariant I3 (LowestAfter = least seq per branch among the descendants);
* `C05_fc_stable` — the answer for old events does not change when further events are indexed
  (this is what makes the Go result cache sound; in the model `fc` is a pure function of the index
  state, so "queries made before" cannot matter);
* `C05_fc_order_independent` — two valid indexing orders of the same graph (`HistIso`: a bijection
  of positions preserving creator, seq and parents) give the same answers.

Hypotheses besides `Valid`:
* `PLen h` — the event at position `i` has at most `i` parents (`la_plen_of_nodup`: follows from
  "no double parents", which the basic event check enforces). Needed only for the fuel of the
  model's DFS (the Go DFS has no fuel).
* `nVals + h.length < 2^32` — branch ids are 32-bit in the Go code (`AtLeastOneFork` compares a
  32-bit value: kernel `Gen.Vec.atLeastOneFork`).
* `0 < quorum` — with quorum 0 the code answers "yes" for a forked `B` on a branch `A` never saw
  (the first test only looks at branches known to `A`); quorum is always ≥ 1 in Lachesis.

The HighestBefore invariants I1/I2 used by the proof are `VecProofs.hb_invariants`
(Proofs/VecHB.lean, the C06 proof); `C05_fc_eq_spec_of_inv` is the statement relative to them.
-/
namespace C05
open Model.Vec VecProofs

/-- I1/I2/I2′ hold after indexing any valid history -/
theorem hbInv_of_valid {nVals : Nat} {h : Hist} (hv : Valid nVals h)
    (hsmall : nVals + h.length < 4294967296) : HBInv nVals h := by
  obtain ⟨nBrAt, hB, hV, hV2, _⟩ := hb_invariants hv hsmall
  exact ⟨nBrAt, hB, hV, hV2⟩

/-- I3: after indexing a valid history, `LowestAfter(b)[br]` is the least seq of an event of branch
    `br` that has `b` as ancestor-or-self (0 if there is none) -/
theorem C05_lowinv {nVals : Nat} {h : Hist} (hv : Valid nVals h) (hpl : PLen h) :
    LowInv h (run nVals h) := la_lowinv_run hv hpl

/-- the statement relative to the HighestBefore invariants -/
theorem C05_fc_eq_spec_of_inv {nVals : Nat} {h : Hist} {nBrAt : Nat → Nat} (weight : Nat → Nat)
    (quorum : Nat) (hB : BranchInv h (run nVals h)) (hV : VecInv h (run nVals h) nBrAt)
    (hV2 : VecInv2 h (run nVals h) nBrAt) (hv : Valid nVals h) (hpl : PLen h)
    (hsmall : nVals + h.length < 4294967296) (hq : 0 < quorum)
    {a b : Nat} (ha : a < h.length) (hb : b < h.length) :
    (run nVals h).fc weight quorum a b = true ↔ FCSpec h nVals weight quorum a b :=
  la_fc_eq_spec weight quorum hB hV hV2 hv hpl hsmall hq ha hb

/-- C05: the index answers exactly the graph definition -/
theorem C05_fc_eq_spec {nVals : Nat} {h : Hist} (weight : Nat → Nat) (quorum : Nat)
    (hv : Valid nVals h) (hpl : PLen h) (hsmall : nVals + h.length < 4294967296) (hq : 0 < quorum)
    {a b : Nat} (ha : a < h.length) (hb : b < h.length) :
    (run nVals h).fc weight quorum a b = true ↔ FCSpec h nVals weight quorum a b :=
  la_fc_eq_spec' weight quorum (hbInv_of_valid hv hsmall) hv hpl hsmall hq ha hb

/-- C05 (i): answers for old events are stable under indexing further events -/
theorem C05_fc_stable {nVals : Nat} {h ext : Hist} (weight : Nat → Nat) (quorum : Nat)
    (hv : Valid nVals (h ++ ext)) (hpl : PLen (h ++ ext))
    (hsmall : nVals + (h ++ ext).length < 4294967296) (hq : 0 < quorum)
    {a b : Nat} (ha : a < h.length) (hb : b < h.length) :
    (run nVals (h ++ ext)).fc weight quorum a b = (run nVals h).fc weight quorum a b := by
  have hlen : (h ++ ext).length = h.length + ext.length := List.length_append
  exact la_fc_stable weight quorum (hbInv_of_valid (la_valid_prefix hv) (by omega))
    (hbInv_of_valid hv hsmall) hv hpl hsmall hq ha hb

/-- C05 (ii): the answer does not depend on the indexing order -/
theorem C05_fc_order_independent {nVals : Nat} {h h' : Hist} {f g : Nat → Nat} (weight : Nat → Nat)
    (quorum : Nat) (I : HistIso h h' f g)
    (hv : Valid nVals h) (hpl : PLen h) (hsmall : nVals + h.length < 4294967296)
    (hv' : Valid nVals h') (hpl' : PLen h') (hsmall' : nVals + h'.length < 4294967296)
    (hq : 0 < quorum) {a b : Nat} (ha : a < h.length) (hb : b < h.length) :
    (run nVals h).fc weight quorum a b = (run nVals h').fc weight quorum (f a) (f b) :=
  la_fc_order weight quorum I (hbInv_of_valid hv hsmall) hv hpl hsmall
    (hbInv_of_valid hv' hsmall') hv' hpl' hsmall' hq ha hb

/-! ### non-vacuity: a concrete history with a fork

Three validators of weight 1, quorum 2. Validator 0 forks (positions 0 and 1, both seq 1).
Position 3 sees only one side of the fork, positions 4 and 5 see both. -/

def exH : Hist :=
  [⟨0, 1, []⟩, ⟨0, 1, []⟩, ⟨1, 1, []⟩, ⟨1, 2, [2, 0]⟩, ⟨2, 1, [3, 1]⟩, ⟨1, 3, [3, 4]⟩]

/-- the same graph indexed in another parents-first order -/
def exH2 : Hist :=
  [⟨1, 1, []⟩, ⟨0, 1, []⟩, ⟨1, 2, [0, 1]⟩, ⟨0, 1, []⟩, ⟨2, 1, [2, 3]⟩, ⟨1, 3, [2, 4]⟩]

theorem exH_valid : Valid 3 exH := by
  have v0 : Valid 3 [] := Valid.nil
  have v1 := Valid.snoc v0 (e := ⟨0, 1, []⟩)
    ⟨by decide, by decide, by decide, by decide, by decide, fun h => absurd h (by decide)⟩
  have v2 := Valid.snoc v1 (e := ⟨0, 1, []⟩)
    ⟨by decide, by decide, by decide, by decide, by decide, fun h => absurd h (by decide)⟩
  have v3 := Valid.snoc v2 (e := ⟨1, 1, []⟩)
    ⟨by decide, by decide, by decide, by decide, by decide, fun h => absurd h (by decide)⟩
  have v4 := Valid.snoc v3 (e := ⟨1, 2, [2, 0]⟩)
    ⟨by decide, by decide, by decide, by decide, by decide,
     fun _ => ⟨2, [0], rfl, by decide, by decide, by decide⟩⟩
  have v5 := Valid.snoc v4 (e := ⟨2, 1, [3, 1]⟩)
    ⟨by decide, by decide, by decide, by decide, by decide, fun h => absurd h (by decide)⟩
  have v6 := Valid.snoc v5 (e := ⟨1, 3, [3, 4]⟩)
    ⟨by decide, by decide, by decide, by decide, by decide,
     fun _ => ⟨3, [4], rfl, by decide, by decide, by decide⟩⟩
  exact v6

theorem exH_plen : PLen exH := by unfold PLen; decide

/-- a sees no fork of b's creator and validators 1, 2 lie between: yes -/
example : (run 3 exH).fc (fun _ => 1) 2 5 2 = true := by decide +kernel
/-- position 5 sees the fork of validator 0 (= creator of position 0): no, although validators 1
    and 2 (a quorum) lie between -/
example : (run 3 exH).fc (fun _ => 1) 2 5 0 = false := by decide +kernel
example : (run 3 exH).fcYes 5 0 = [1, 2] := by decide +kernel
/-- position 3 sees only one side of the fork: yes (validators 0 and 1) -/
example : (run 3 exH).fc (fun _ => 1) 2 3 0 = true := by decide +kernel

/-- the theorem applies: all hypotheses hold on the forked history, and it yields the graph facts -/
example : FCSpec exH 3 (fun _ => 1) 2 5 2 :=
  (C05_fc_eq_spec (fun _ => 1) 2 exH_valid exH_plen (by decide) (by decide)
    (a := 5) (b := 2) (by decide) (by decide)).mp (by decide +kernel)

example : ¬ FCSpec exH 3 (fun _ => 1) 2 5 0 := fun hs =>
  absurd ((C05_fc_eq_spec (fun _ => 1) 2 exH_valid exH_plen (by decide) (by decide)
    (a := 5) (b := 0) (by decide) (by decide)).mpr hs) (by decide +kernel)

/-- the other indexing order gives the same answers (position map 0↦1, 1↦3, 2↦0, 3↦2, 4↦4, 5↦5) -/
example : (run 3 exH2).fc (fun _ => 1) 2 5 0 = true
    ∧ (run 3 exH2).fc (fun _ => 1) 2 5 1 = false
    ∧ (run 3 exH2).fc (fun _ => 1) 2 2 1 = true := by decide +kernel

theorem exH2_valid : Valid 3 exH2 := by
  have v0 : Valid 3 [] := Valid.nil
  have v1 := Valid.snoc v0 (e := ⟨1, 1, []⟩)
    ⟨by decide, by decide, by decide, by decide, by decide, fun h => absurd h (by decide)⟩
  have v2 := Valid.snoc v1 (e := ⟨0, 1, []⟩)
    ⟨by decide, by decide, by decide, by decide, by decide, fun h => absurd h (by decide)⟩
  have v3 := Valid.snoc v2 (e := ⟨1, 2, [0, 1]⟩)
    ⟨by decide, by decide, by decide, by decide, by decide,
     fun _ => ⟨0, [1], rfl, by decide, by decide, by decide⟩⟩
  have v4 := Valid.snoc v3 (e := ⟨0, 1, []⟩)
    ⟨by decide, by decide, by decide, by decide, by decide, fun h => absurd h (by decide)⟩
  have v5 := Valid.snoc v4 (e := ⟨2, 1, [2, 3]⟩)
    ⟨by decide, by decide, by decide, by decide, by decide, fun h => absurd h (by decide)⟩
  have v6 := Valid.snoc v5 (e := ⟨1, 3, [2, 4]⟩)
    ⟨by decide, by decide, by decide, by decide, by decide,
     fun _ => ⟨2, [4], rfl, by decide, by decide, by decide⟩⟩
  exact v6

theorem exH2_plen : PLen exH2 := by unfold PLen; decide

def exF (i : Nat) : Nat := [1, 3, 0, 2, 4, 5].getD i i
def exG (j : Nat) : Nat := [2, 0, 3, 1, 4, 5].getD j j

/-- the two orders are re-orderings of one graph -/
theorem exIso : HistIso exH exH2 exF exG where
  f_lt := by decide
  g_lt := by decide
  gf := by decide
  fg := by decide
  creator := by decide
  seq := by decide
  parents := by decide

/-- `C05_fc_order_independent` applies to the forked example -/
example : (run 3 exH).fc (fun _ => 1) 2 5 0 = (run 3 exH2).fc (fun _ => 1) 2 5 1 :=
  C05_fc_order_independent (fun _ => 1) 2 exIso exH_valid exH_plen (by decide)
    exH2_valid exH2_plen (by decide) (by decide) (a := 5) (b := 0) (by decide) (by decide)

/-- `C05_fc_stable` applies: the first four events are a valid prefix -/
example : (run 3 exH).fc (fun _ => 1) 2 3 0 = (run 3 (exH.take 4)).fc (fun _ => 1) 2 3 0 :=
  C05_fc_stable (h := exH.take 4) (ext := exH.drop 4) (fun _ => 1) 2
    (by rw [List.take_append_drop]; exact exH_valid) (by rw [List.take_append_drop]; exact exH_plen)
    (by decide) (by decide) (a := 3) (b := 0) (by decide) (by decide)

/-! ### why `0 < quorum` is assumed

A three-way fork of validator 0: position 2 sees two sides (positions 0, 1); the third side
(position 3) is indexed later, on a branch position 2's vector knows nothing about. With quorum 0
the code says "yes", the graph definition says "no" (fork of `B`'s creator in `A`'s ancestry).
With any quorum ≥ 1 both say "no" (`C05_fc_eq_spec`). -/

def exQ : Hist := [⟨0, 1, []⟩, ⟨0, 1, []⟩, ⟨1, 1, [0, 1]⟩, ⟨0, 1, []⟩]

example : (run 2 exQ).fc (fun _ => 1) 0 2 3 = true := by decide +kernel
example : (run 2 exQ).fc (fun _ => 1) 1 2 3 = false := by decide +kernel

example : ¬ FCSpec exQ 2 (fun _ => 1) 0 2 3 := fun hs =>
  hs.1 ⟨0, 1, by decide,
    Anc.step (by decide) (by decide) (Anc.refl (by decide)),
    Anc.step (by decide) (by decide) (Anc.refl (by decide)), rfl, rfl, rfl⟩

end C05
