import LachesisVerif.Proofs.VecPersistPresent
/-!
# Persistence and reload of the vector index (supports C07, C08)

Go code: `vecengine.Engine.{Reset, Add, Flush, DropNotFlushed}`, `InitBranchesInfo`,
`getBranchesInfo` / `setBranchesInfo`, `newInitialBranchesInfo` (vecengine/index.go,
branches_info.go, store_branches_info.go); row accessors of vecfc/store_vectors.go; the call pattern
of abft/indexed_lachesis.go (`Process` = Add, [Flush], deferred DropNotFlushed; `Build` = Add,
deferred DropNotFlushed; `Bootstrap` → `Reset` over the persisted epoch DB).

Model: `Model.VecPersist` — parent DB (`store`: tables event → branch id / HighestBefore /
LowestAfter, plus the optional `BranchesInfo` record `storeBI`), the flushable's overlay `ov`
with its `NotFlushedPairs() != 0` flag `dirty`, the in-memory `vi.bi` (`bi`, `none` = nil). All
reads go overlay-then-parent, all writes go to the overlay, the LowestAfter DFS reads its own writes.
The four decisions of the persistence code are not written into the model but taken from the kernels
regenerated from the Go sources on every check run (`Gen.VecPersist`): `flushWritesBI` (index.go:79
`vi.bi != nil`: `PState.flush` writes the record iff it holds), `dropClears` (index.go:90
`NotFlushedPairs() != 0`: `PState.dropNotFlushed` clears the overlay iff it holds; the model feeds it
1 / 0 from its flag `dirty`), `initNeeded` (branches_info.go:17 `vi.bi == nil`: `initBI` / `curBI`
reload iff it holds), `useInitial` (branches_info.go:20 `vi.bi == nil` after `getBranchesInfo`:
`loadBI` takes the validators' initial table iff it holds). The proofs unfold them
(`VecPersistProofs.{flush_def, drop_def, initBI_def, curBI_def, loadBI_def}`), so a change of any of
these conditions in the Go code regenerates a kernel under which the proofs no longer go through.
`C08`/`Consensus` assume "the restarted instance keeps the persisted `VState`"; this file proves that
this is what `Reset` + `InitBranchesInfo` produce.

## Proved (no hypotheses beyond "the calls start from a fresh index over an empty DB")

For every list `ops` of calls `add e | flush | drop | query | restart` (`query` = any reader, whose
only effect is `InitBranchesInfo`), with ghost lists `flushedOf ops` (events whose `Flush` happened)
and `survivors ops` (flushed events followed by the events added since and not dropped):

* (a) `working_view_eq_run`: the working view (overlay over parent DB + current BranchesInfo) equals
  `VecProofs.run n (survivors ops)` — the functional model all other theorems (C03, C05, C06) are
  about. It rests on `add_refines`: one `Engine.Add` over the layers is exactly `VState.add` on the
  view, for ANY event and state (no validity needed).
* (b) `reload_eq_run_flushed`: `Reset` + `InitBranchesInfo` after `ops` gives the view
  `run n (flushedOf ops)`; `reload_branch_table`: the re-read `vi.bi` has the number of branches, the
  last seq per branch and the creator per branch of that run; `branches_record_persisted`: the
  record is present in the parent DB as soon as ONE event has been flushed, forks or no forks
  (because `Flush` writes it whenever `vi.bi != nil`, and `vi.bi == nil` only when nothing is
  pending); `restart_eq_drop`: replacing a `restart` by a `drop` anywhere in a call sequence changes
  neither the final working view nor the final persisted content — the restarted index answers every
  later call like the one that kept running; `fork_after_restart`: the event added right after a
  restart is indexed by `VState.add` on `run n (flushedOf ops)`, so a fork gets its new branch id
  exactly as without restart.
* (c) `add_drop_no_trace`: `Add e` then `DropNotFlushed` = `DropNotFlushed` alone, as whole states
  (parent DB, overlay, `vi.bi`, positions); `add_drop_identity_when_idle`: on an idle index (the
  state after any `DropNotFlushed`, i.e. between two `Process`/`Build` calls) it is the identity;
  `add_writes_nothing_persistent`: `Add` does not touch the parent DB.
* `rows_exist`: branch-id / HighestBefore / parents rows exist in the parent DB exactly for the
  flushed positions and through the flushable exactly for the surviving positions (so the Go errors
  "parent not found (inconsistent DB)" / "failed to read event's branch ID" cannot fire for parents
  among the surviving events, before or after a restart).

Sensitivity: `Mutant.witness` — if `Flush` wrote the record only once a fork exists, the concrete
history below would, after the restart, miss the fork of validator 0.

## Not modelled / not proved

* Byte level: RLP of `BranchesInfo` (decode ∘ encode = id is assumed), the vector encodings, the
  `table` prefixes, hash keys (events are positions; a dropped position is re-used).
* The wlru row caches of `vecfc.Index` (`cache.HighestBeforeSeq/LowestAfterSeq/ForklessCause`). They
  are purged by `onDropNotFlushed` only `if NotFlushedPairs() != 0` and by `vecfc.Index.Reset`
  unconditionally; the model reads the tables directly.
* `Flush` is atomic here; `Flushable.flush` writes in several batches when the overlay exceeds
  `kvdb.IdealBatchSize`, and a crash between batches is not modelled. Errors of the DB (`crit`).
* The error exits of `fillEventVectors` / `fillGlobalBranchID` (`add` is total: absent rows read as
  zero, as in `Model.Vec`). Note `fillEventVectors` discards the error of `fillGlobalBranchID`.
* `Reset` with a different validator set or a different DB (epoch change); concurrent use.
* `par` (the `getEvent` callback) is treated as a table under the same overlay discipline: the
  application remembers exactly the flushed events.
-/
namespace Props.VecPersist
open Model.Vec Model.VecPersist VecProofs VecPersistProofs

theorem add_refines (s : PState) (e : Event) : (s.add e).view = s.view.add e := view_add s e

theorem working_view_eq_run (n : Nat) (ops : List Op) :
    ((PState.fresh n).exec ops).view = run n (survivors ops) := exec_view n ops

theorem reload_eq_run_flushed (n : Nat) (ops : List Op) :
    ((PState.fresh n).exec ops).reload.view = run n (flushedOf ops) := reload_view n ops

theorem reload_branch_table (n : Nat) (ops : List Op) :
    ∃ b, ((PState.fresh n).exec ops).reload.bi = some b ∧
      b.nBr = (run n (flushedOf ops)).nBr ∧ b.lastSeq = (run n (flushedOf ops)).lastSeq ∧
      b.creatorOf = (run n (flushedOf ops)).creatorOf := reload_bi n ops

theorem branches_record_persisted (n : Nat) (ops : List Op) (hne : flushedOf ops ≠ []) :
    ∃ b, ((PState.fresh n).exec ops).storeBI = some b ∧
      b.nBr = (run n (flushedOf ops)).nBr ∧ b.lastSeq = (run n (flushedOf ops)).lastSeq ∧
      b.creatorOf = (run n (flushedOf ops)).creatorOf := record_persisted n ops hne

theorem restart_eq_drop (n : Nat) (ops more : List Op) :
    ((PState.fresh n).exec (ops ++ .restart :: more)).view =
      ((PState.fresh n).exec (ops ++ .drop :: more)).view ∧
    ((PState.fresh n).exec (ops ++ .restart :: more)).storeView =
      ((PState.fresh n).exec (ops ++ .drop :: more)).storeView := restart_invisible n ops more

theorem fork_after_restart (n : Nat) (ops : List Op) (e : Event) :
    (((PState.fresh n).exec ops).reload.add e).view = (run n (flushedOf ops)).add e :=
  add_after_reload n ops e

theorem add_drop_no_trace (n : Nat) (ops : List Op) (e : Event) :
    (((PState.fresh n).exec ops).add e).dropNotFlushed = ((PState.fresh n).exec ops).dropNotFlushed :=
  add_drop n ops e

theorem add_drop_identity_when_idle (s : PState) (hi : Idle s) (e : Event) :
    (s.add e).dropNotFlushed = s := add_drop_idle s hi e

theorem idle_between_calls (n : Nat) (ops : List Op) : Idle ((PState.fresh n).exec (ops ++ [.drop])) :=
  idle_after_drop n ops

theorem add_writes_nothing_persistent (s : PState) (e : Event) :
    (s.add e).store = s.store ∧ (s.add e).storeBI = s.storeBI ∧ (s.add e).fsize = s.fsize :=
  add_store s e

theorem rows_exist (n : Nat) (ops : List Op) (a : Nat) :
    let s := (PState.fresh n).exec ops
    (((s.store.br.get a).isSome = true ↔ a < (flushedOf ops).length) ∧
     ((s.store.hb.get a).isSome = true ↔ a < (flushedOf ops).length) ∧
     ((s.store.par.get a).isSome = true ↔ a < (flushedOf ops).length)) ∧
    (((Tab.look s.ov.br s.store.br a).isSome = true ↔ a < (survivors ops).length) ∧
     ((Tab.look s.ov.hb s.store.hb a).isSome = true ↔ a < (survivors ops).length) ∧
     ((Tab.look s.ov.par s.store.par a).isSome = true ↔ a < (survivors ops).length)) :=
  rows_present n ops a

/-! ### Non-vacuity: two validators; two honest first events processed and flushed (abft's `Process`
pattern: Add, Flush, DropNotFlushed); a restart while NO fork exists yet; then validator 0's second
"first" event `f0` (a fork of `e0`), and an event `e3` of validator 1 observing both. -/
namespace Example
def e0 : Event := ⟨0, 1, []⟩
def e1 : Event := ⟨1, 1, []⟩
def f0 : Event := ⟨0, 1, []⟩          -- position 2: same creator and seq as `e0`
def e3 : Event := ⟨1, 2, [1, 0, 2]⟩   -- position 3: self-parent `e1`, sees `e0` and `f0`
def pre : List Op := [.add e0, .flush, .drop, .add e1, .flush, .drop]
def post : List Op := [.add f0, .flush, .drop, .add e3, .flush, .drop]

/-- at the restart the record is in the parent DB: 2 branches, last seq 1 on both; no fork yet -/
example : ((PState.fresh 2).exec pre).storeBI.map (fun b => (b.nBr, b.lastSeq 0, b.lastSeq 1)) = some (2, 1, 1) := by
  decide
example : flushedOf pre = [e0, e1] ∧ survivors (pre ++ .restart :: post) = [e0, e1, f0, e3] := ⟨rfl, rfl⟩
/-- after the restart the fork opens branch 2 and `e3` sees validator 0 as a forker, validator 1 at seq 2 -/
example : ((PState.fresh 2).exec (pre ++ .restart :: post)).view.nBr = 3 ∧
    ((PState.fresh 2).exec (pre ++ .restart :: post)).view.merged 3 0 = none ∧
    ((PState.fresh 2).exec (pre ++ .restart :: post)).view.merged 3 1 = some 2 := by decide
/-- and that is the functional model's answer (theorem (a) instantiated) -/
example : ((PState.fresh 2).exec (pre ++ .restart :: post)).view = run 2 [e0, e1, f0, e3] :=
  working_view_eq_run 2 (pre ++ .restart :: post)
/-- a built-and-dropped event before the restart leaves nothing: same final state -/
example : (PState.fresh 2).exec ([.add e0, .flush, .drop] ++ .add f0 :: .drop :: []) =
    (PState.fresh 2).exec ([.add e0, .flush, .drop] ++ .drop :: []) :=
  add_drop_erased 2 _ [] f0
end Example

/-! ### Sensitivity to the condition in `Engine.Flush` -/
namespace Mutant
/-- NOT the Go code: a `Flush` that writes the record only once a fork exists -/
def flushIfForked (s : PState) : PState :=
  { s.flush with
    storeBI := (match s.bi with
                | some b => if Gen.Vec.atLeastOneFork b.nBr s.nVals then some b else s.storeBI
                | none => s.storeBI) }
def step (s : PState) : Op → PState
  | .flush => flushIfForked s
  | op => s.step op
def exec (s : PState) (ops : List Op) : PState := ops.foldl step s

/-- with that `Flush` the same history loses the last-seq table at every `DropNotFlushed`/restart:
    `f0` is taken for validator 0's first event and `e3` does not see the fork -/
theorem witness : (exec (PState.fresh 2) (Example.pre ++ .restart :: Example.post)).view.merged 3 0 = some 1 := by
  decide
end Mutant

end Props.VecPersist
