import LachesisVerif.Gen.FactsC09
/-!
# Structural expectations for C09 (regenerated facts `Gen.FactsC09`)

Split out of the family survey (`notes/facts-cons-notes.md` lists what the selectors cannot express).
Each theorem states the expected value of Bool facts regenerated from the Go source by
`go/cmd/extract` (selectors `hascall:`, `topcall:`, `topassign:`, `before:`); a statement that is
dropped, guarded or reordered flips a fact and breaks the theorem.
-/
namespace FactsC09

/-- `Model.Orderer.onFrameDecided` (seal branch) = `initial (epoch+1) nv` with `roots := []`
    (`C09_seal_state`): the block is applied BEFORE the seal (old validators / old epoch DB);
    `sealEpoch` stores exactly the returned set; `resetEpochStore` drops the old epoch DB (close, then
    drop), opens the new one at top level, rebinding the tables to it, and only then notifies
    `EpochDBLoaded` (index reset over the NEW tables; `Model.Indexed`: `VState.init`). -/
theorem seal_shape :
    Gen.FactsC09.sealSetsValidators = true ∧ Gen.FactsC09.applyBeforeSeal = true ∧
    Gen.FactsC09.resetDropsBeforeOpen = true ∧ Gen.FactsC09.resetOpensAtTop = true ∧
    Gen.FactsC09.resetNotifiesAfterOpen = true ∧ Gen.FactsC09.dropClosesBeforeDrop = true ∧
    Gen.FactsC09.openRebindsTables = true := by decide

/-- `Model.Orderer.initial` is also the state of `Orderer.Reset` (`C09_reset_equiv`): genesis state
    first, then the epoch store, then the election; `Model.Election.reset` = a record with EMPTY
    `votes` / `decidedRoots` and the given validators: the three assignments of `Election.Reset` are
    unconditional (defect C08-n guarded them by pointer equality of the validator sets). -/
theorem reset_shape :
    Gen.FactsC09.resetGenesisBeforeStore = true ∧ Gen.FactsC09.resetElectionAfterStore = true ∧
    Gen.FactsC09.electionResetClearsVotes = true ∧ Gen.FactsC09.electionResetClearsDecided = true ∧
    Gen.FactsC09.electionResetSetsValidators = true := by decide

end FactsC09
