import LachesisVerif.Model.Fetcher
/-!
# C16 — Items fetcher asks the right peers and does not forget pending items

"The fetcher requests an item only from a peer that announced it and only after the item was
reported interesting, and it stops requesting an item shortly after the item is reported
received or no longer interesting, unless it is announced anew. Every announced item that stays
interesting and unreceived, and whose announcement is younger than the forget timeout, is
requested within a small multiple of the arrive timeout after its announcement or after the
fetcher stops being suspended, whichever is later."

The statements are about `Model.Fetcher` (the fetcher loop as a timed state machine: events
`notify`, `received`, `timerFire`, each with its time stamp and the answers of `OnlyInterested`,
`Suspend`, `rand.Intn` as oracles); the decision expressions (`first`, `noAnnounces`, the arming
rule, the forget and refetch tests, the reschedule guard, `maxDuration`) are `Gen.Fetcher.*`,
regenerated from fetcher.go on every run.

* Safety, full strength: `C16_requests_sound` (all runs, all oracle answers).
* Liveness: `C16_pending_requested` — from any state of a run (timer-armed invariant
  `C16_timer_armed`: whenever something is announced the timer is armed with a deadline at most
  `ArriveTimeout` after the last event), through any notifications and receipts
  (`C16_deadline_kept`: they never move an armed deadline), the timer event comes by
  `t0 + ArriveTimeout + lat` and requests every pending item (`C16_fire_requests_pending`).
  Constant proved: `ArriveTimeout` + timer latency after the announcement, independent of
  suspension — stronger than the property's `2·ArriveTimeout` after max(announce, unsuspend).
  Negative witnesses for the two earlier arming rules: `D3_old_rule_leaves_timer_unarmed`,
  `previous_rule_postpones_pending_item`.
  Go timer and scheduler latency are outside the model (parameter `lat`; DESIGN §4); the stream
  `fetch` checks the real fetcher against the model with 2·ArriveTimeout + 300 ms slack.
-/
namespace C16
open Model.Fetcher

/-! ### frame lemmas: what the helper functions leave alone -/

theorem normalize_timer (limit fuel : Nat) (st : St) : (normalize limit fuel st).timer = st.timer := by
  induction fuel generalizing st with
  | zero => rfl
  | succ f ih =>
    unfold normalize
    split
    · split
      · rw [ih]
      · rfl
    · rfl

theorem addEntry_timer (limit : Nat) (st : St) (e : Entry) : (addEntry limit st e).timer = st.timer := by
  unfold addEntry; simp only; rw [normalize_timer]

theorem forget_timer (st : St) (id : Nat) : (forget st id).timer = st.timer := by
  unfold forget; split <;> rfl

theorem announceAll_timer (cfg : Cfg) (peer annT now : Nat) (susp : Bool) (ids : List Nat) (st : St) (acc : List Nat) :
    (announceAll cfg peer annT now susp ids st acc).1.timer = st.timer := by
  induction ids generalizing st acc with
  | nil => rfl
  | cons id rest ih =>
    unfold announceAll
    simp only
    split
    · rw [ih]; simp only; rw [addEntry_timer]
    · rw [ih, addEntry_timer]

theorem received_timer (ids : List Nat) (st : St) : (received ids st).timer = st.timer := by
  unfold received
  induction ids generalizing st with
  | nil => rfl
  | cons id rest ih => simp only [List.foldl_cons]; rw [ih, forget_timer]

/-- `rescheduleFetch` arms the timer whenever something is announced, never later than
    `now + ArriveTimeout` -/
theorem reschedule_spec (cfg : Cfg) (now : Nat) (st : St) :
    (reschedule cfg now st).announces = st.announces ∧ (reschedule cfg now st).fetching = st.fetching ∧
    (st.announces ≠ [] → ∃ d, (reschedule cfg now st).timer = some d ∧ d ≤ now + cfg.arrive ∧ now + cfg.arrive / 8 ≤ d) ∧
    (st.announces = [] → (reschedule cfg now st).timer = st.timer) := by
  unfold reschedule
  by_cases h : st.announces = []
  · simp [Gen.Fetcher.nothingAnnounced, h]
  · have hl : st.announces.length ≠ 0 := by simpa using h
    simp only [Gen.Fetcher.nothingAnnounced, hl, decide_false, Bool.false_eq_true, if_false]
    refine ⟨trivial, trivial, ?_, fun e => absurd e h⟩
    intro _
    refine ⟨_, rfl, ?_, ?_⟩
    · split
      · omega
      · have := Nat.div_le_self cfg.arrive 8; omega
    · split
      · rename_i hc; simp only [Gen.Fetcher.maxDurationFirst, decide_eq_true_eq] at hc; omega
      · omega

/-- the timer-armed invariant at time `now` -/
def Armed (cfg : Cfg) (st : St) (now : Nat) : Prop :=
  st.announces ≠ [] → ∃ d, st.timer = some d ∧ d ≤ now + cfg.arrive

theorem Armed.mono {cfg : Cfg} {st : St} {t t' : Nat} (h : Armed cfg st t) (ht : t ≤ t') : Armed cfg st t' := by
  intro hne; obtain ⟨d, e, hd⟩ := h hne; exact ⟨d, e, by omega⟩

theorem notify_armed (cfg : Cfg) (now t : Nat) (peer annT : Nat) (acc : List Nat) (susp : Bool) (st : St)
    (h : Armed cfg st t) (ht : t ≤ now) : Armed cfg (notify cfg now peer annT acc susp st).1 now := by
  unfold notify
  simp only
  split
  · exact h.mono ht
  · split
    · intro hne
      obtain ⟨ea, _, harm, _⟩ := reschedule_spec cfg now (announceAll cfg peer annT now susp acc st []).1
      rw [ea] at hne
      obtain ⟨d, e, hd, _⟩ := harm hne
      exact ⟨d, e, hd⟩
    · rename_i hna
      intro hne
      -- not re-armed: the announcements were not empty before, so the old deadline stands
      have hpre : st.announces ≠ [] := by
        intro he
        apply hna
        have hl : (announceAll cfg peer annT now susp acc st []).1.announces.length ≠ 0 := by simpa using hne
        simp [Gen.Fetcher.armTimer, Gen.Fetcher.noAnnounces, he, hl]
      obtain ⟨d, e, hd⟩ := h hpre
      exact ⟨d, by rw [announceAll_timer]; exact e, by omega⟩

theorem received_armed (cfg : Cfg) (now t : Nat) (ids : List Nat) (st : St) (h : Armed cfg st t) (ht : t ≤ now)
    (hsub : (received ids st).announces ≠ [] → st.announces ≠ []) : Armed cfg (received ids st) now := by
  intro hne
  obtain ⟨d, e, hd⟩ := h (hsub hne)
  exact ⟨d, by rw [received_timer]; exact e, by omega⟩

/-! ### membership lemmas for the LRU -/

theorem findEntry_some {a : List Entry} {id : Nat} {e : Entry} (h : findEntry a id = some e) : e ∈ a ∧ e.id = id := by
  unfold findEntry at h
  exact ⟨List.mem_of_find?_eq_some h, by simpa using List.find?_some h⟩

theorem findEntry_none {a : List Entry} {id : Nat} (h : findEntry a id = none) : ∀ e ∈ a, e.id ≠ id := by
  unfold findEntry at h
  intro e he
  have := List.find?_eq_none.1 h e he
  simpa using this

theorem mem_dropEntry {a : List Entry} {id : Nat} {e : Entry} : e ∈ dropEntry a id ↔ e ∈ a ∧ e.id ≠ id := by
  unfold dropEntry; simp [List.mem_filter]

theorem mem_touch {a : List Entry} {id : Nat} {e : Entry} (h : e ∈ touch a id) : e ∈ a := by
  unfold touch at h
  split at h
  · rename_i e' he'
    rcases List.mem_cons.1 h with rfl | h
    · exact (findEntry_some he').1
    · exact (mem_dropEntry.1 h).1
  · exact h

theorem mem_normalize (limit fuel : Nat) (st : St) {e : Entry} (h : e ∈ (normalize limit fuel st).announces) :
    e ∈ st.announces := by
  induction fuel generalizing st with
  | zero => exact h
  | succ f ih =>
    unfold normalize at h
    split at h
    · split at h
      · have := ih _ h
        exact (List.dropLast_sublist _).subset this
      · exact h
    · exact h

theorem mem_addEntry (limit : Nat) (st : St) (e e' : Entry) (h : e' ∈ (addEntry limit st e).announces) :
    e' = e ∨ (e' ∈ st.announces ∧ e'.id ≠ e.id) := by
  unfold addEntry at h
  have := mem_normalize _ _ _ h
  rcases List.mem_cons.1 this with h | h
  · left; exact h
  · right; exact mem_dropEntry.1 h

theorem mem_forget (st : St) (id : Nat) {e : Entry} (h : e ∈ (forget st id).announces) : e ∈ st.announces ∧ e.id ≠ id := by
  unfold forget at h
  split at h
  · exact mem_dropEntry.1 h
  · rename_i hn; exact ⟨h, findEntry_none hn e h⟩

theorem mem_received (ids : List Nat) (st : St) {e : Entry} (h : e ∈ (received ids st).announces) :
    e ∈ st.announces ∧ e.id ∉ ids := by
  unfold received at h
  induction ids generalizing st with
  | nil => exact ⟨h, by simp⟩
  | cons id rest ih =>
    simp only [List.foldl_cons] at h
    obtain ⟨h1, h2⟩ := ih _ h
    obtain ⟨h3, h4⟩ := mem_forget _ _ h1
    exact ⟨h3, by simp [h4, h2]⟩

/-! ### the timer-armed invariant over runs -/

theorem timerFire_armed (cfg : Cfg) (now : Nat) (intr : List Nat) (pick : Nat → Nat) (st : St) :
    Armed cfg (timerFire cfg now intr pick st).1 now := by
  unfold timerFire
  simp only
  intro hne
  obtain ⟨ea, _, harm, _⟩ := reschedule_spec cfg now
    (((st.announces.map (·.id)).reverse).foldl (fun s id => if intr.contains id then s else forget s id)
      (refetchAll cfg now pick intr { st with timer := none } []).1)
  rw [ea] at hne
  obtain ⟨d, e, hd, _⟩ := harm hne
  exact ⟨d, e, hd⟩

theorem step_armed (cfg : Cfg) (st : St) (t : Nat) (op : Op) (h : Armed cfg st t) (ht : t ≤ op.now) :
    Armed cfg (step cfg st op).1 op.now := by
  cases op with
  | notify now peer annT acc susp => exact notify_armed cfg now t peer annT acc susp st h ht
  | received now ids =>
    apply received_armed cfg now t ids st h ht
    intro hne he
    apply hne
    cases hr : (received ids st).announces with
    | nil => rfl
    | cons e _ =>
      have := (mem_received ids st (e := e) (by rw [hr]; exact List.mem_cons_self)).1
      rw [he] at this; cases this
  | timerFire now intr pick => exact timerFire_armed cfg now intr pick st

/-- time stamps of a run do not decrease -/
def Chrono : Nat → List Op → Prop
  | _, [] => True
  | t, op :: ops => t ≤ op.now ∧ Chrono op.now ops

def runSt (cfg : Cfg) (st : St) (ops : List Op) : St := ops.foldl (fun s op => (step cfg s op).1) st

/-- time of the last event (`t` if there is none) -/
def lastTime (t : Nat) (ops : List Op) : Nat := ops.foldl (fun _ op => op.now) t

theorem runSt_armed (cfg : Cfg) (ops : List Op) (st : St) (t : Nat) (h : Armed cfg st t) (hc : Chrono t ops) :
    Armed cfg (runSt cfg st ops) (lastTime t ops) := by
  induction ops generalizing st t with
  | nil => exact h
  | cons op rest ih =>
    have h' := step_armed cfg st t op h hc.1
    exact ih (step cfg st op).1 op.now h' hc.2

/-- **Timer-armed invariant** (repaired arming rule): after any chronological sequence of
    notifications, receipts and timer fires — whatever `OnlyInterested`, `Suspend` and `rand`
    answer — if anything is announced, the fetch timer is armed and its deadline is at most
    `ArriveTimeout` after the last event. -/
theorem C16_timer_armed (cfg : Cfg) (ops : List Op) (t0 : Nat) (hc : Chrono t0 ops) :
    (runSt cfg {} ops).announces ≠ [] →
    ∃ d, (runSt cfg {} ops).timer = some d ∧ d ≤ lastTime t0 ops + cfg.arrive :=
  runSt_armed cfg ops {} t0 (fun h => absurd rfl h) hc

/-! ### soundness of requests -/

/-- every stored announcement satisfies `P id peer` -/
def AnnOK (P : Nat → Nat → Prop) (a : List Entry) : Prop := ∀ e ∈ a, ∀ x ∈ e.anns, P e.id x.peer

theorem AnnOK.mono {P Q : Nat → Nat → Prop} {a : List Entry} (h : AnnOK P a) (hpq : ∀ i p, P i p → Q i p) : AnnOK Q a :=
  fun e he x hx => hpq _ _ (h e he x hx)

theorem addEntry_ok (P : Nat → Nat → Prop) (limit : Nat) (st : St) (e : Entry) (h : AnnOK P st.announces)
    (he : ∀ x ∈ e.anns, P e.id x.peer) : AnnOK P (addEntry limit st e).announces := by
  intro e' he' x hx
  rcases mem_addEntry _ _ _ _ he' with rfl | ⟨hm, _⟩
  · exact he x hx
  · exact h e' hm x hx

theorem announceAll_sound (cfg : Cfg) (peer annT now : Nat) (susp : Bool) (P : Nat → Nat → Prop)
    (ids : List Nat) (st : St) (acc : List Nat) (hok : AnnOK P st.announces) (hids : ∀ id ∈ ids, P id peer) :
    AnnOK P (announceAll cfg peer annT now susp ids st acc).1.announces ∧
    ∀ id ∈ (announceAll cfg peer annT now susp ids st acc).2, id ∈ acc ∨ id ∈ ids := by
  induction ids generalizing st acc with
  | nil => exact ⟨hok, fun id h => Or.inl h⟩
  | cons id rest ih =>
    unfold announceAll
    simp only
    have hold : ∀ x ∈ ((findEntry st.announces id).map Entry.anns).getD [], P id x.peer := by
      intro x hx
      cases hf : findEntry st.announces id with
      | none => rw [hf] at hx; simp at hx
      | some e0 =>
        rw [hf] at hx
        obtain ⟨hm0, hid0⟩ := findEntry_some hf
        have := hok e0 hm0 x (by simpa using hx)
        rw [hid0] at this; exact this
    have hadd := addEntry_ok P cfg.hashLimit { st with announces := touch st.announces id }
      { id := id, anns := ((findEntry st.announces id).map Entry.anns).getD [] ++ [(⟨peer, annT⟩ : Ann)] ++ [(⟨peer, annT⟩ : Ann)],
        weight := (((findEntry st.announces id).map Entry.anns).getD [] ++ [(⟨peer, annT⟩ : Ann)]).length }
      (fun e he => hok e (mem_touch he))
      (by
        intro x hx
        simp only [List.append_assoc, List.mem_append, List.mem_cons, List.not_mem_nil, or_false, or_self] at hx
        rcases hx with hx | hx
        · exact hold x hx
        · subst hx; exact hids id List.mem_cons_self)
    have hrest : ∀ id' ∈ rest, P id' peer := fun i hi => hids i (List.mem_cons_of_mem _ hi)
    split
    · refine ⟨(ih _ _ (by exact hadd) hrest).1, fun i hi => ?_⟩
      rcases (ih _ _ (by exact hadd) hrest).2 i hi with h | h
      · rcases List.mem_append.1 h with h | h
        · exact Or.inl h
        · right; simp at h; subst h; exact List.mem_cons_self
      · exact Or.inr (List.mem_cons_of_mem _ h)
    · refine ⟨(ih _ _ (by exact hadd) hrest).1, fun i hi => ?_⟩
      exact ((ih _ _ (by exact hadd) hrest).2 i hi).imp (fun h => h) (List.mem_cons_of_mem _)

theorem forget_ok {P : Nat → Nat → Prop} {st : St} (id : Nat) (h : AnnOK P st.announces) : AnnOK P (forget st id).announces :=
  fun e he => h e (mem_forget st id he).1

theorem refetchAll_sound (cfg : Cfg) (now : Nat) (pick : Nat → Nat) (P : Nat → Nat → Prop)
    (ids : List Nat) (st : St) (acc : List (Nat × Nat)) (hok : AnnOK P st.announces) :
    AnnOK P (refetchAll cfg now pick ids st acc).1.announces ∧
    (∀ e ∈ (refetchAll cfg now pick ids st acc).1.announces, e ∈ st.announces) ∧
    ∀ x ∈ (refetchAll cfg now pick ids st acc).2, x ∈ acc ∨ (x.1 ∈ ids ∧ P x.1 x.2) := by
  induction ids generalizing st acc with
  | nil => exact ⟨hok, fun e h => h, fun x h => Or.inl h⟩
  | cons id rest ih =>
    unfold refetchAll
    have lift : ∀ (st' : St) (acc' : List (Nat × Nat)), AnnOK P st'.announces → (∀ e ∈ st'.announces, e ∈ st.announces) →
        (∀ x ∈ acc', x ∈ acc ∨ (x.1 ∈ id :: rest ∧ P x.1 x.2)) →
        AnnOK P (refetchAll cfg now pick rest st' acc').1.announces ∧
        (∀ e ∈ (refetchAll cfg now pick rest st' acc').1.announces, e ∈ st.announces) ∧
        ∀ x ∈ (refetchAll cfg now pick rest st' acc').2, x ∈ acc ∨ (x.1 ∈ id :: rest ∧ P x.1 x.2) := by
      intro st' acc' h1 h2 h3
      obtain ⟨a, b, c⟩ := ih st' acc' h1
      refine ⟨a, fun e he => h2 e (b e he), ?_⟩
      intro x hx
      rcases c x hx with h | ⟨h, hp⟩
      · exact h3 x h
      · exact Or.inr ⟨List.mem_cons_of_mem _ h, hp⟩
    cases hf : findEntry st.announces id with
    | none => exact lift st acc hok (fun e h => h) (fun x h => Or.inl h)
    | some e =>
      simp only
      obtain ⟨hm, hid⟩ := findEntry_some hf
      have htouch : AnnOK P (touch st.announces id) := fun e' he' => hok e' (mem_touch he')
      have hsub : ∀ e' ∈ touch st.announces id, e' ∈ st.announces := fun e' he' => mem_touch he'
      cases hanns : e.anns with
      | nil => exact lift { st with announces := touch st.announces id } acc htouch hsub (fun x h => Or.inl h)
      | cons oldest more =>
        simp only
        split
        · exact lift _ acc (forget_ok id htouch) (fun e' he' => hsub e' (mem_forget _ id he').1) (fun x h => Or.inl h)
        · split
          · apply lift { st with announces := touch st.announces id, fetching := _ } _ htouch hsub
            intro x hx
            rcases List.mem_append.1 hx with hx | hx
            · exact Or.inl hx
            · right
              simp only [List.mem_singleton] at hx
              subst hx
              refine ⟨List.mem_cons_self, ?_⟩
              simp only
              have hin : (oldest :: more).getD (pick id % (oldest :: more).length) oldest ∈ e.anns := by
                rw [hanns, List.getD_eq_getElem?_getD]
                cases hg : (oldest :: more)[pick id % (oldest :: more).length]? with
                | none => simp
                | some y => simpa using List.mem_of_getElem? hg
              have := hok e hm _ hin
              rw [hid] at this; exact this
          · exact lift { st with announces := touch st.announces id } acc htouch hsub (fun x h => Or.inl h)

theorem mem_groupByPeer (l : List (Nat × Nat)) (q : Request) (hq : q ∈ groupByPeer l) (id : Nat) (hid : id ∈ q.ids) :
    (id, q.peer) ∈ l := by
  unfold groupByPeer at hq
  simp only [List.mem_map] at hq
  obtain ⟨pr, _, rfl⟩ := hq
  simp only [List.mem_map, List.mem_filter] at hid
  obtain ⟨x, ⟨hx, hp⟩, rfl⟩ := hid
  have : x.2 = pr := by simpa using hp
  rw [← this]; exact hx

/-- the peers whose announcement of an item is still valid after a sequence of loop events,
    by the words of the property: an accepted announcement adds its peer; a receipt, or a timer
    event at which the item is not reported interesting, cancels everything announced before -/
def liveStep (L : Nat → List Nat) : Op → Nat → List Nat
  | .notify _ peer _ accepted _, id => if id ∈ accepted then L id ++ [peer] else L id
  | .received _ ids, id => if id ∈ ids then [] else L id
  | .timerFire _ interested _, id => if id ∈ interested then L id else []

/-- the item was reported interesting in this very event -/
def Accepted : Op → Nat → Prop
  | .notify _ _ _ accepted _, id => id ∈ accepted
  | .received .., _ => False
  | .timerFire _ interested _, id => id ∈ interested

theorem mem_forgetFold (intr : List Nat) (all : List Nat) (s : St) {e : Entry}
    (h : e ∈ (all.foldl (fun s id => if intr.contains id then s else forget s id) s).announces) :
    e ∈ s.announces ∧ (e.id ∈ all → intr.contains e.id = true) := by
  induction all generalizing s with
  | nil => exact ⟨h, by simp⟩
  | cons a rest ih =>
    simp only [List.foldl_cons] at h
    obtain ⟨h1, h2⟩ := ih _ h
    by_cases hc : intr.contains a = true
    · rw [if_pos hc] at h1
      refine ⟨h1, ?_⟩
      intro hm
      rcases List.mem_cons.1 hm with hm | hm
      · rw [hm]; exact hc
      · exact h2 hm
    · rw [if_neg hc] at h1
      obtain ⟨h3, h4⟩ := mem_forget _ _ h1
      refine ⟨h3, ?_⟩
      intro hm
      rcases List.mem_cons.1 hm with hm | hm
      · exact absurd hm h4
      · exact h2 hm

theorem step_sound (cfg : Cfg) (st : St) (op : Op) (L : Nat → List Nat)
    (hok : AnnOK (fun i p => p ∈ L i) st.announces) :
    AnnOK (fun i p => p ∈ liveStep L op i) (step cfg st op).1.announces ∧
    ∀ q ∈ (step cfg st op).2, ∀ id ∈ q.ids, q.peer ∈ liveStep L op id ∧ Accepted op id := by
  cases op with
  | notify now peer annT accepted susp =>
    have hmono : AnnOK (fun i p => p ∈ liveStep L (.notify now peer annT accepted susp) i) st.announces :=
      hok.mono (fun i p h => by simp only [liveStep]; split <;> simp [h])
    simp only [step, notify]
    split
    · exact ⟨hmono, by simp⟩
    · obtain ⟨h1, h2⟩ := announceAll_sound cfg peer annT now susp
        (fun i p => p ∈ liveStep L (.notify now peer annT accepted susp) i) accepted st [] hmono
        (fun id hid => by simp [liveStep, hid])
      have hreq : ∀ q ∈ (if Gen.Fetcher.sendRequest (announceAll cfg peer annT now susp accepted st []).2.length = true
            then [(⟨peer, (announceAll cfg peer annT now susp accepted st []).2⟩ : Request)] else []),
          ∀ id ∈ q.ids, q.peer ∈ liveStep L (.notify now peer annT accepted susp) id ∧
            Accepted (.notify now peer annT accepted susp) id := by
        intro q hq id hid
        split at hq
        · simp only [List.mem_singleton] at hq
          subst hq
          have hacc : id ∈ accepted := by
            rcases h2 id hid with h | h
            · cases h
            · exact h
          exact ⟨by simp [liveStep, hacc], hacc⟩
        · cases hq
      split
      · exact ⟨by rw [(reschedule_spec cfg now _).1]; exact h1, hreq⟩
      · exact ⟨h1, hreq⟩
  | received now ids =>
    simp only [step]
    refine ⟨?_, by simp⟩
    intro e he x hx
    obtain ⟨h1, h2⟩ := mem_received ids st he
    simp only [liveStep, h2, if_false]
    exact hok e h1 x hx
  | timerFire now intr pick =>
    simp only [step, timerFire]
    obtain ⟨h1, h2, h3⟩ := refetchAll_sound cfg now pick (fun i p => p ∈ L i) intr { st with timer := none } [] hok
    refine ⟨?_, ?_⟩
    · rw [(reschedule_spec cfg now _).1]
      intro e he x hx
      obtain ⟨hm, hint⟩ := mem_forgetFold intr _ _ he
      have hall : e.id ∈ (st.announces.map (·.id)).reverse := by
        simp only [List.mem_reverse, List.mem_map]
        exact ⟨e, h2 e hm, rfl⟩
      have : e.id ∈ intr := by simpa using hint hall
      simp only [liveStep, this, if_true]
      exact h1 e hm x hx
    · intro q hq id hid
      have := mem_groupByPeer _ q hq id hid
      rcases h3 _ this with h | ⟨h, hp⟩
      · cases h
      · exact ⟨by simp only [liveStep]; rw [if_pos h]; exact hp, h⟩

/-- all (event, request) pairs of a run -/
def runReqs (cfg : Cfg) : St → List Op → List (Op × Request)
  | _, [] => []
  | st, op :: ops => ((step cfg st op).2.map (fun q => (op, q))) ++ runReqs cfg (step cfg st op).1 ops

/-- **Requests are sound.** In any run, a request for an item goes to a peer whose announcement
    of the item is valid at that moment — it was accepted by `OnlyInterested`, and since then the
    item was neither reported received nor reported not interesting — and the item is reported
    interesting in the very event that issues the request. Consequently, once an item is
    received or no longer interesting, no request for it is issued until it is announced anew
    (`liveStep` empties its list). `pre` = the events before the request's event. -/
theorem C16_requests_sound (cfg : Cfg) (pre : List Op) (op : Op) (q : Request) (id : Nat)
    (hq : q ∈ (step cfg (runSt cfg {} pre) op).2) (hid : id ∈ q.ids) :
    q.peer ∈ (pre ++ [op]).foldl liveStep (fun _ => []) id ∧ Accepted op id := by
  have key : ∀ (ops : List Op) (st : St) (L : Nat → List Nat), AnnOK (fun i p => p ∈ L i) st.announces →
      AnnOK (fun i p => p ∈ ops.foldl liveStep L i) (runSt cfg st ops).announces := by
    intro ops
    induction ops with
    | nil => intro st L h; exact h
    | cons o rest ih => intro st L h; exact ih _ _ (step_sound cfg st o L h).1
  have hpre := key pre {} (fun _ => []) (by intro e he; cases he)
  have := (step_sound cfg _ op _ hpre).2 q hq id hid
  simpa [List.foldl_append] using this

/-! ### liveness: what a timer event requests -/

theorem findEntry_dropEntry (a : List Entry) (id id' : Nat) (h : id ≠ id') :
    findEntry (dropEntry a id') id = findEntry a id := by
  unfold findEntry dropEntry
  induction a with
  | nil => rfl
  | cons e t ih =>
    by_cases h1 : e.id = id'
    · have b1 : (e.id != id') = false := by simp [h1]
      have b2 : (e.id == id) = false := by
        simp only [beq_eq_false_iff_ne, ne_eq]; exact fun x => h (x.symm.trans h1)
      rw [List.filter_cons, List.find?_cons]
      simp only [b1, b2, Bool.false_eq_true, if_false]
      exact ih
    · have b1 : (e.id != id') = true := by simp [h1]
      rw [List.filter_cons]
      simp only [b1, if_true]
      rw [List.find?_cons, List.find?_cons]
      cases (e.id == id) with
      | true => rfl
      | false => exact ih

theorem findEntry_touch (a : List Entry) (id id' : Nat) (h : id ≠ id') :
    findEntry (touch a id') id = findEntry a id := by
  unfold touch
  cases hf : findEntry a id' with
  | none => rfl
  | some e =>
    have he := (findEntry_some hf).2
    have : ¬ e.id = id := fun x => h (x.symm.trans he)
    simp only
    rw [← findEntry_dropEntry a id id' h]
    have b2 : (e.id == id) = false := by simp only [beq_eq_false_iff_ne, ne_eq]; exact this
    unfold findEntry
    rw [List.find?_cons]
    simp only [b2]

theorem fget_fdel (f : List (Nat × (Nat × Nat))) (id id' : Nat) (h : id ≠ id') : fget (fdel f id') id = fget f id := by
  unfold fget fdel
  congr 1
  induction f with
  | nil => rfl
  | cons p t ih =>
    by_cases h1 : p.1 = id'
    · have b1 : (p.1 != id') = false := by simp [h1]
      have b2 : (p.1 == id) = false := by
        simp only [beq_eq_false_iff_ne, ne_eq]; exact fun x => h (x.symm.trans h1)
      rw [List.filter_cons, List.find?_cons]
      simp only [b1, b2, Bool.false_eq_true, if_false]
      exact ih
    · have b1 : (p.1 != id') = true := by simp [h1]
      rw [List.filter_cons]
      simp only [b1, if_true]
      rw [List.find?_cons, List.find?_cons]
      cases (p.1 == id) with
      | true => rfl
      | false => exact ih

theorem fget_fput (f : List (Nat × (Nat × Nat))) (id id' : Nat) (v : Nat × Nat) (h : id ≠ id') :
    fget (fput f id' v) id = fget f id := by
  have : ¬ id' = id := fun x => h x.symm
  rw [← fget_fdel f id id' h]
  simp [fput, fget, this]

/-- what makes the timer event request item `id` -/
structure Pending (cfg : Cfg) (now : Nat) (st : St) (id : Nat) : Prop where
  announced : ∃ e oldest more, findEntry st.announces id = some e ∧ e.anns = oldest :: more ∧
    Gen.Fetcher.tooOld (now - oldest.time) cfg.forget = false
  due : needsFetch cfg now st.fetching id = true

theorem refetchAll_mono (cfg : Cfg) (now : Nat) (pick : Nat → Nat) (ids : List Nat) (st : St) (acc : List (Nat × Nat)) :
    ∀ x ∈ acc, x ∈ (refetchAll cfg now pick ids st acc).2 := by
  induction ids generalizing st acc with
  | nil => intro x h; exact h
  | cons id rest ih =>
    intro x hx
    unfold refetchAll
    split
    · exact ih _ _ x hx
    · simp only
      split
      · exact ih _ _ x hx
      · split
        · exact ih _ _ x hx
        · split
          · exact ih _ _ x (List.mem_append_left _ hx)
          · exact ih _ _ x hx

theorem refetchAll_complete (cfg : Cfg) (now : Nat) (pick : Nat → Nat) (ids : List Nat) (st : St) (acc : List (Nat × Nat))
    (id : Nat) (hid : id ∈ ids) (hp : Pending cfg now st id) :
    ∃ p, (id, p) ∈ (refetchAll cfg now pick ids st acc).2 := by
  induction ids generalizing st acc with
  | nil => cases hid
  | cons id' rest ih =>
    by_cases heq : id' = id
    · subst heq
      obtain ⟨e, oldest, more, hf, ha, hold⟩ := hp.announced
      unfold refetchAll
      rw [hf]
      simp only
      rw [ha]
      simp only
      rw [if_neg (by rw [hold]; simp), if_pos hp.due]
      exact ⟨_, refetchAll_mono cfg now pick rest _ _ _ (List.mem_append_right _ List.mem_cons_self)⟩
    · have hne : id ≠ id' := fun x => heq x.symm
      have hrest : id ∈ rest := by
        rcases List.mem_cons.1 hid with h | h
        · exact absurd h hne
        · exact h
      -- handling id' leaves what matters for id untouched
      have keep : ∀ st' : St, findEntry st'.announces id = findEntry st.announces id →
          fget st'.fetching id = fget st.fetching id → Pending cfg now st' id := by
        intro st' h1 h2
        obtain ⟨e, oldest, more, hf, ha, hold⟩ := hp.announced
        refine ⟨⟨e, oldest, more, by rw [h1]; exact hf, ha, hold⟩, ?_⟩
        have := hp.due
        unfold needsFetch at this ⊢
        rw [h2]; exact this
      unfold refetchAll
      split
      · exact ih _ _ hrest hp
      · simp only
        have ht : findEntry (touch st.announces id') id = findEntry st.announces id := findEntry_touch _ _ _ hne
        split
        · exact ih _ _ hrest (keep _ ht rfl)
        · split
          · apply ih _ _ hrest
            apply keep
            · simp only [forget]
              split
              · simp only; rw [findEntry_dropEntry _ _ _ hne, ht]
              · exact ht
            · simp only [forget]
              split
              · exact fget_fdel _ _ _ hne
              · rfl
          · split
            · exact ih _ _ hrest (keep _ ht (fget_fput _ _ _ _ hne))
            · exact ih _ _ hrest (keep _ ht rfl)

theorem groupByPeer_complete (l : List (Nat × Nat)) (id p : Nat) (h : (id, p) ∈ l) :
    ∃ q ∈ groupByPeer l, q.peer = p ∧ id ∈ q.ids := by
  have hpeers : ∀ (l' : List (Nat × Nat)) (acc : List Nat),
      (∀ x ∈ acc, x ∈ l'.foldl (fun acc p => if acc.contains p.2 then acc else acc ++ [p.2]) acc) ∧
      (∀ x ∈ l', x.2 ∈ l'.foldl (fun acc p => if acc.contains p.2 then acc else acc ++ [p.2]) acc) := by
    intro l'
    induction l' with
    | nil => intro acc; exact ⟨fun x h => h, by simp⟩
    | cons y t ih =>
      intro acc
      simp only [List.foldl_cons]
      obtain ⟨a, b⟩ := ih (if acc.contains y.2 then acc else acc ++ [y.2])
      refine ⟨fun x hx => a x (by split <;> simp [hx]), ?_⟩
      intro x hx
      rcases List.mem_cons.1 hx with rfl | hx
      · apply a
        by_cases hc : acc.contains x.2 = true
        · rw [if_pos hc]; simpa using hc
        · rw [if_neg hc]; simp
      · exact b x hx
  unfold groupByPeer
  refine ⟨⟨p, (l.filter (fun x => x.2 == p)).map (·.1)⟩, ?_, rfl, ?_⟩
  · simp only [List.mem_map]
    exact ⟨p, (hpeers l []).2 (id, p) h, rfl⟩
  · simp only [List.mem_map, List.mem_filter]
    exact ⟨(id, p), ⟨h, by simp⟩, rfl⟩

/-- **A timer event requests every pending item.** When the fetch timer fires, every item that
    is announced, reported interesting, whose oldest announcement is not older than
    `ForgetTimeout`, and that is not being fetched or was last requested more than
    `ArriveTimeout - GatherSlack` ago, is requested in this event (from one of its announcers,
    `C16_requests_sound`). -/
theorem C16_fire_requests_pending (cfg : Cfg) (now : Nat) (intr : List Nat) (pick : Nat → Nat) (st : St) (id : Nat)
    (hint : id ∈ intr) (hp : Pending cfg now st id) :
    ∃ q ∈ (timerFire cfg now intr pick st).2, id ∈ q.ids := by
  have hp' : Pending cfg now { st with timer := none } id := ⟨hp.announced, hp.due⟩
  obtain ⟨p, hmem⟩ := refetchAll_complete cfg now pick intr { st with timer := none } [] id hint hp'
  obtain ⟨q, hq, _, hid⟩ := groupByPeer_complete _ id p hmem
  exact ⟨q, hq, hid⟩

/-- **A notification never moves an armed deadline**: if anything is announced already (so the
    timer is armed, `C16_timer_armed`), the notification leaves the timer as it is; receipts
    never touch it (`received_timer`). -/
theorem C16_deadline_kept (cfg : Cfg) (now peer annT : Nat) (acc : List Nat) (susp : Bool) (st : St)
    (ha : st.announces ≠ []) : (notify cfg now peer annT acc susp st).1.timer = st.timer := by
  have h1 : st.announces.length ≠ 0 := by simpa using ha
  unfold notify
  simp only
  split
  · rfl
  · rw [if_neg (by simp [Gen.Fetcher.armTimer, Gen.Fetcher.noAnnounces, h1])]
    exact announceAll_timer ..

/-- no timer event among the operations -/
def NoFire : List Op → Prop
  | [] => True
  | .timerFire .. :: _ => False
  | _ :: rest => NoFire rest

/-- something stays announced in every state the operations go through -/
def KeepsAnnounced (cfg : Cfg) : St → List Op → Prop
  | st, [] => st.announces ≠ []
  | st, op :: rest => st.announces ≠ [] ∧ KeepsAnnounced cfg (step cfg st op).1 rest

theorem timer_kept (cfg : Cfg) (st : St) (mid : List Op) (hn : NoFire mid) (hk : KeepsAnnounced cfg st mid) :
    (runSt cfg st mid).timer = st.timer := by
  induction mid generalizing st with
  | nil => rfl
  | cons op rest ih =>
    cases op with
    | timerFire => exact absurd hn (by simp [NoFire])
    | notify now peer annT acc susp =>
      have := ih (step cfg st (.notify now peer annT acc susp)).1 hn hk.2
      simp only [runSt, List.foldl_cons] at this ⊢
      rw [this]
      exact C16_deadline_kept cfg now peer annT acc susp st hk.1
    | received now ids =>
      have := ih (step cfg st (.received now ids)).1 hn hk.2
      simp only [runSt, List.foldl_cons] at this ⊢
      rw [this]
      exact received_timer ids st

/-- **Every pending item is requested within `ArriveTimeout` (+ timer latency).** Logical time;
    `lat` bounds how late the Go runtime delivers the timer event after its deadline.
    Let `st` be any state in which the timer-armed invariant holds at time `t0` — by
    `C16_timer_armed` every state of a run, in particular the one right after the item's
    announcement was handled, suspended or not. Let notifications and receipts follow (any
    number, any oracle answers) during which something stays announced, and let the timer event
    come at `tf`, at most `lat` after the armed deadline. Then `tf ≤ t0 + ArriveTimeout + lat`,
    and every item that is then announced, reported interesting, not older than `ForgetTimeout`
    and not requested during the last `ArriveTimeout - GatherSlack` (`Pending`) is requested in
    that event. The property's bound `max(announce, unsuspend) + 2·ArriveTimeout` follows with
    room to spare: suspension does not delay the timer path at all, so the constant proved is
    `1·ArriveTimeout + lat` after the announcement. (An item that is not `Pending.due` has a
    `fetching` entry younger than `ArriveTimeout - GatherSlack`, `not_due_recently_fetched`;
    `fetching` entries are written only where a request is issued, in `announceAll` and
    `refetchAll` — this last link is by inspection of the two definitions, not a theorem.) -/
theorem C16_pending_requested (cfg : Cfg) (st : St) (t0 : Nat) (mid : List Op) (tf lat : Nat)
    (intr : List Nat) (pick : Nat → Nat) (id : Nat)
    (harm : Armed cfg st t0) (hn : NoFire mid) (hk : KeepsAnnounced cfg st mid)
    (htimely : ∀ d, (runSt cfg st mid).timer = some d → tf ≤ d + lat)
    (hint : id ∈ intr) (hp : Pending cfg tf (runSt cfg st mid) id) :
    tf ≤ t0 + cfg.arrive + lat ∧ ∃ q ∈ (timerFire cfg tf intr pick (runSt cfg st mid)).2, id ∈ q.ids := by
  have hne : st.announces ≠ [] := by cases mid with
    | nil => exact hk
    | cons _ _ => exact hk.1
  obtain ⟨d, hd, hle⟩ := harm hne
  have hkept := timer_kept cfg st mid hn hk
  have := htimely d (by rw [hkept]; exact hd)
  exact ⟨by omega, C16_fire_requests_pending cfg tf intr pick _ id hint hp⟩

theorem not_due_recently_fetched (cfg : Cfg) (now : Nat) (st : St) (id : Nat)
    (h : needsFetch cfg now st.fetching id = false) :
    ∃ v, fget st.fetching id = some v ∧ now - v.2 ≤ cfg.arrive - cfg.gather := by
  unfold needsFetch at h
  split at h
  · cases h
  · rename_i v hv
    refine ⟨v, hv, ?_⟩
    simpa [Gen.Fetcher.refetch] using h

/-! ### non-vacuity and the repaired defect (DESIGN §7-D3) -/

/-- ForgetTimeout 1 s, ArriveTimeout 100 ms, GatherSlack 20 ms (µs) -/
def cfg1 : Cfg := ⟨1000000, 100000, 20000, 2048⟩

/-- after the initial timer event nothing is armed; an announcement of item 7 by peer 1 arrives
    while the application is suspended: the repaired rule arms the timer (deadline 100 ms later) … -/
example : (notify cfg1 5000 1 5000 [7] true {}).1.timer = some 105000 ∧
    (notify cfg1 5000 1 5000 [7] true {}).2 = [] := by decide

/-- … the timer event then requests the item from its announcer, and keeps asking every 100 ms -/
example : (timerFire cfg1 105000 [7] (fun _ => 0) (notify cfg1 5000 1 5000 [7] true {}).1).2 = [⟨1, [7]⟩] ∧
    (timerFire cfg1 105000 [7] (fun _ => 0) (notify cfg1 5000 1 5000 [7] true {}).1).1.timer = some 205000 := by decide

/-- **D3, before the repair**: the same announcement left the timer unarmed although an item
    was announced — with no further event the item was never requested. -/
theorem D3_old_rule_leaves_timer_unarmed :
    (notifyOld cfg1 5000 1 5000 [7] true {}).1.timer = none ∧
    (notifyOld cfg1 5000 1 5000 [7] true {}).1.announces ≠ [] ∧
    (notifyOld cfg1 5000 1 5000 [7] true {}).2 = [] := by decide

/-- an unsuspended announcement is requested at once from the announcing peer; a receipt removes it -/
example : (notify cfg1 5000 2 5000 [7, 8] false {}).2 = [⟨2, [7, 8]⟩] ∧
    (received [7] (notify cfg1 5000 2 5000 [7, 8] false {}).1).announces.map (·.id) = [8] := by decide

/-- **The re-arm defect, before its repair** (`notifyPrev`, the rule
    `(first && len(fetching) != 0) || (noAnnounces && …)`): a notification that found `fetching`
    empty re-armed the timer although an older announcement (item 7, announced while suspended,
    due at 105 ms) was waiting: its request moved to 190 ms when item 9 was announced at 90 ms,
    and again to 280 ms after item 9 was received and item 10 announced — without bound. -/
theorem previous_rule_postpones_pending_item :
    let s1 := (notifyPrev cfg1 5000 1 5000 [7] true {}).1
    let s2 := (notifyPrev cfg1 90000 2 90000 [9] false s1).1
    s1.timer = some 105000 ∧ s2.timer = some 190000 ∧
    (received [9] s2).fetching = [] ∧
    (notifyPrev cfg1 180000 2 180000 [10] false (received [9] s2)).1.timer = some 280000 := by decide

/-- the repaired rule keeps the deadline of item 7 through the same events -/
example :
    let s1 := (notify cfg1 5000 1 5000 [7] true {}).1
    let s2 := (notify cfg1 90000 2 90000 [9] false s1).1
    s1.timer = some 105000 ∧ s2.timer = some 105000 ∧
    (notify cfg1 100000 2 100000 [10] false (received [9] s2)).1.timer = some 105000 := by decide

/-- non-vacuity of `C16_pending_requested`: its hypotheses hold on this run (item 7 pending at 105 ms) -/
example : Pending cfg1 105000 (runSt cfg1 (notify cfg1 5000 1 5000 [7] true {}).1 [.notify 90000 2 90000 [9] false]) 7 :=
  ⟨⟨⟨7, [⟨1, 5000⟩, ⟨1, 5000⟩], 1⟩, ⟨1, 5000⟩, [⟨1, 5000⟩], by decide, rfl, by decide⟩, by decide⟩
end C16
