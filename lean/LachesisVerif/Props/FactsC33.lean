import LachesisVerif.Gen.FactsC33
/-!
# Structural expectations for C33 (regenerated facts `Gen.FactsC33`)

Split out of the family survey (`notes/facts-cons-notes.md` lists what the selectors cannot express).
Each theorem states the expected value of Bool facts regenerated from the Go source by
`go/cmd/extract` (selectors `hascall:`, `topcall:`, `topassign:`, `before:`); a statement that is
dropped, guarded or reordered flips a fact and breaks the theorem.
-/
namespace FactsC33

/-- `Model.RootsStore.addRoot` / `getFrameRoots` (abft/store_roots.go): `addRoot` writes the table, then
    updates the cache, and only EXTENDS a cached list (`Get` before `Add`, and no `Add` at top level —
    expected FALSE; a list created from one root
    would hide the roots of the table); `GetFrameRoots` asks the cache first, otherwise iterates the
    table and caches the COMPLETE list (`Add` at top level, after the iteration). -/
theorem registry_shape :
    Gen.FactsC33.addRootWritesTable = true ∧ Gen.FactsC33.addRootWriteBeforeCache = true ∧
    Gen.FactsC33.addRootCacheOnlyIfPresent = true ∧ Gen.FactsC33.addRootCacheAddUnguarded = false ∧
    Gen.FactsC33.getChecksCacheFirst = true ∧
    Gen.FactsC33.getIteratesTable = true ∧ Gen.FactsC33.getFillsCacheAtTop = true ∧
    Gen.FactsC33.getFillsAfterIteration = true := by decide

/-- `Model.RootsStore.newEpoch = {}`: `openEpochDB` purges the roots cache and rebinds the tables
    unconditionally ("a new epoch starts with no roots"). `cacheAdd` (simplewlru `Add`): a present key
    gets the new value, a new key is stored; `Purge` deletes the items. -/
theorem epoch_and_cache :
    Gen.FactsC33.openPurgesRoots = true ∧ Gen.FactsC33.openRebindsTables = true ∧
    Gen.FactsC33.wlruAddReplacesExisting = true ∧ Gen.FactsC33.wlruAddStoresNew = true ∧
    Gen.FactsC33.wlruPurgeDeletes = true := by decide

end FactsC33
