import LachesisVerif.Gen.FactsC16
/-!
# Structural expectations for C16 (regenerated facts `Gen.FactsC16`)

Split out of the family survey (`notes/facts-gossip-notes.md` lists what the selectors cannot express).
Each theorem states the expected value of Bool facts regenerated from the Go source by
`go/cmd/extract` (selectors `hascall:`, `topcall:`, `topassign:`, `before:`); a statement that is
dropped, guarded or reordered flips a fact and breaks the theorem.
-/
namespace FactsC16

/-- `processNotification` — `Model.Fetcher.notify` / `announceAll`: the batch is replaced by the answer of
    `OnlyInterested` unconditionally and before anything is stored (requests "only after the item was
    reported interesting"); `Suspend` is asked before a request is queued; the `armTimer` branch really
    calls `rescheduleFetch` (`C16_timer_armed`). -/
theorem notify_structure :
    Gen.FactsC16.filterAssigned = true ∧ Gen.FactsC16.filterBeforeAdd = true ∧
    Gen.FactsC16.suspendBeforeRequest = true ∧ Gen.FactsC16.notifyArms = true := by decide

/-- timer case of `loop`, `rescheduleFetch` — `Model.Fetcher.timerFire`, `reschedule`: `OnlyInterested` is
    asked before the requests go out; items are forgotten; the timer is re-armed after a fire and
    `rescheduleFetch` resets it unconditionally once something is announced (liveness:
    `C16_fire_requests_pending`, `C16_timer_armed`). -/
theorem timer_structure :
    Gen.FactsC16.loopRefiltersBeforeRequest = true ∧ Gen.FactsC16.loopForgets = true ∧
    Gen.FactsC16.loopReschedules = true ∧ Gen.FactsC16.rescheduleResets = true := by decide

/-- `forgetHash` down to the eviction callback — `Model.Fetcher.forget` deletes the `fetching` entry together
    with the announcement: `forgetHash` → `wlru.Cache.Remove` → `simplewlru.Cache.Remove/removeElement` →
    `onEvict` → `delete(f.fetching, …)`. If any link is dropped a forgotten item keeps its `fetching` entry
    ("stops requesting an item shortly after it is reported received", and `announceAll`'s
    `notYetFetching` test for an item announced anew). -/
theorem forget_chain :
    Gen.FactsC16.forgetRemoves = true ∧ Gen.FactsC16.wlruRemoveDelegates = true ∧
    Gen.FactsC16.removeElementCallsEvict = true ∧ Gen.FactsC16.evictDeletesFetching = true := by decide

end FactsC16
