import LachesisVerif.Proofs.ComposeRun
import LachesisVerif.Props.C01
import LachesisVerif.Props.C08
import LachesisVerif.Props.C10
import LachesisVerif.Props.C12
import LachesisVerif.Props.C13
/-!
# Consensus — C01 / C07 / C08 / C10 for the combined model "Orderer over the vector index"

`Model/Indexed.lean` is the model of `abft.IndexedLachesis`: state = (Orderer state, vector index state,
the accepted events in this instance's indexing order); `processIndexed` = `DagIndexer.Add` +
`Orderer.Process` with the forkless-cause oracle answered BY THIS INSTANCE'S INDEX at the positions of
its own indexing order, + `Flush` on success / `DropNotFlushed` on rejection; `buildIndexed` = the same
`Add` + `Orderer.Build` + `DropNotFlushed`; `restartIndexed` = `Bootstrap` over the persisted index.

The theorems C01 (`C01_order_independent_partial`), C08 (`C08_restart_invisible_partial`) and C10
(`C10_model_eq_reference_partial`/`_canon`) are about `Model.Orderer` with an abstract oracle and carry
(a) `hobs`: the oracle answers the graph relation `N.FC`; (b) `hvals`: `ValsOK` (canonical validator
record, total ≤ 2^31-1); (c) `hbound`: `FrameBound` (frames < 2^31). Here they are composed with

* (a) `observe_eq_FC` (C05 `C05_fc_eq_spec` for the instance's OWN history + `VecProofs.emb_fcspec`: the
  graph definition only looks at `A`'s ancestry + `Net.FC_eq_FCSpec`): the index of an instance that
  accepted the events `evs` in its own parents-first order answers `N.FC a b` for accepted `a`, `b`;
  `Compose.process_congr`: `Orderer.process` asks its oracle only about the processed event and the
  owners of table roots, so the combined model runs exactly like the Orderer model with oracle `N.FC`
  (`Compose.sim_all`);
* (b) `valsOK_of_build` (C12 `idx_ids_weights_total`, `canonical_unique`): the record built by
  `Model.Pos.build` from any permutation of the pairs `(i, N.w i)` is `ValsOK`;
* (c) `frameBound_of_checks` (C13 `C13_validate_iff`): events that pass the checkers have frames
  < 2^31 - 2; the same hypothesis gives "no double parents" (`parentsNodup_of_checks`), C05's `PLen`.

Corollaries, WITHOUT `hobs`, `ValsOK`, `FrameBound`:
* `indexed_order_independent_partial` (C01): same valid events of an epoch, forkers below one third,
  any two parents-first orders, each instance over its own index ⇒ every event accepted by both, same
  `(frame, Atropos, cheaters)` sequence, same last decided frame. The cheater lists are those computed
  by the instance's own index at the moment of the decision and equal C03's sentence
  (`indexed_blocks_cheaters`: `Compose.specCheaters`, via C03/C06 and `Compose.process_K`: an emitted
  Atropos is always an event this instance has indexed).
* `indexed_eq_reference_partial` (C10): the combined model's `(frame, Atropos)` sequence = the blocks
  of the executable reference `Spec/Lachesis.lean`.
* `indexed_restart_invisible_partial` (C08): the restarted instance re-indexes nothing — its index
  state is the persisted one — and answers every later event like the instance that kept running.
* `indexed_no_trace` (C07): `buildIndexed` and a rejected `processIndexed` return literally the previous
  combined state, so all later answers and states are equal (true by construction of the model's
  transaction; that the real `DropNotFlushed` restores the tables is the correspondence check).

Hypotheses that REMAIN (named, hence `_partial`):
* the property's own: `Valid` (what the event checks + ordering buffer guarantee), `FramesAccepted`
  (claimed frames obey the frame rule), `BFT`, parents-first orders covering all events;
* `hseal`: the application never seals — one epoch (C01_multi_epoch_partial is not composed);
* `hsmall`: `nVals + number of events < 2^32` (C05: branch ids are 32-bit in the Go code);
* `WeightsOK` + `BuiltFor`: validators are NAMED by their canonical index (`Net.w` is indexed that way:
  weight descending; weights non-zero and < 2^32) and the record was built by the builder;
* `Checked`: every event passed `eventcheck` with its claimed frame and parent list (C13's `U32`: Go's
  field types).
Not modelled: the reload of the index from `BranchesInfo` on restart (the restarted model keeps the
persisted `VState`), the forkless-cause result cache (C07 treats it separately), store caches (C33).
-/
namespace Consensus
open Model.Pos Model.Election Model.Orderer Model.Vec Model.Indexed VecProofs ElectionRules ElectionRefine
open OrdererProofs Compose

/-! ### (c) frames and parent lists of checked events -/

/-- every event of `N` passed the event checkers with its claimed frame and its parent list -/
def Checked (N : Net) : Prop :=
  ∀ e, e < N.h.length → ∃ (cur : Nat) (isVal : Nat → Bool) (ev : Model.Check.Ev) (ps : List Model.Check.Parent),
    ev.frame = N.fr e ∧ ps.map (·.id) = (N.h.ev e).parents ∧ C13.U32 ev ps ∧
    Model.Check.validate cur isVal ev ps = none

/-- **(c)** `FrameBound` follows from the event checks (C13: frame < 2^31 - 2) -/
theorem frameBound_of_checks {N : Net} (h : Checked N) : FrameBound N := by
  intro e he
  obtain ⟨cur, isVal, ev, ps, hf, _, hu, hval⟩ := h e he
  have W := (C13.C13_validate_iff cur isVal ev ps hu).1 hval
  have := W.frame_ok.2
  rw [hf] at this
  omega

/-- "no double parents" (basic check): C05's side condition `PLen` -/
theorem parentsNodup_of_checks {N : Net} (h : Checked N) : ∀ i, i < N.h.length → (N.h.ev i).parents.Nodup := by
  intro e he
  obtain ⟨cur, isVal, ev, ps, _, hp, hu, hval⟩ := h e he
  have W := (C13.C13_validate_iff cur isVal ev ps hu).1 hval
  rw [← hp]
  exact List.pairwise_map.2 W.parents_distinct

/-! ### (b) the validator record built by the builder -/

/-- the non-zero (id, weight) pairs of the epoch's validators, ids = canonical indices -/
def canonPairs (N : Net) : Pairs := (List.range N.nVals).map (fun i => (i, N.w i))

/-- naming convention of `Net`: index order is the canonical order (weight descending; equal weights:
    id = index ascending); weights are non-zero 32-bit values -/
structure WeightsOK (N : Net) : Prop where
  pos : ∀ i, i < N.nVals → 0 < N.w i
  u32 : ∀ i, i < N.nVals → N.w i < 4294967296
  desc : ∀ i j, i < j → j < N.nVals → N.w j ≤ N.w i

/-- `vals` is what `ValidatorsBuilder.Build` returns for these pairs, inserted in any order -/
def BuiltFor (N : Net) (vals : Vals) : Prop := ∃ b : Pairs, b.Perm (canonPairs N) ∧ Model.Pos.build b = some vals

/-- **(b)** `ValsOK` follows from C12 for every set built by the builder -/
theorem valsOK_of_build {N : Net} {vals : Vals} (hW : WeightsOK N) (hB : BuiltFor N vals) :
    ValsOK vals N.nVals N.w := by
  obtain ⟨b, hperm, hbuild⟩ := hB
  have hmem : ∀ p ∈ b, ∃ i, i < N.nVals ∧ p = (i, N.w i) := by
    intro p hp
    obtain ⟨i, hi, rfl⟩ := List.mem_map.1 (hperm.subset hp)
    exact ⟨i, List.mem_range.1 hi, rfl⟩
  have hids : (canonPairs N).map (·.1) = List.range N.nVals := by
    unfold canonPairs; rw [List.map_map]; exact List.map_id' _
  have hb : Proofs.PosCanon.BInv b := by
    refine ⟨?_, ?_⟩
    · rw [(hperm.map (·.1)).nodup_iff, hids]; exact List.nodup_range
    · intro p hp
      obtain ⟨i, hi, rfl⟩ := hmem p hp
      exact Nat.pos_iff_ne_zero.1 (hW.pos i hi)
  have hw : ∀ p ∈ b, p.2 < 4294967296 := by
    intro p hp
    obtain ⟨i, hi, rfl⟩ := hmem p hp
    exact hW.u32 i hi
  obtain ⟨hp, hs, _, _, hsum, htot⟩ := C12.idx_ids_weights_total b hb hw vals hbuild
  have hcs : Proofs.PosCanon.Sorted (canonPairs N) := by
    unfold Proofs.PosCanon.Sorted canonPairs
    rw [List.pairwise_map]
    refine List.Pairwise.imp_of_mem ?_ (List.pairwise_lt_range (n := N.nVals))
    intro i j _ hj hij
    rw [Proofs.PosCanon.less_iff]
    have := hW.desc i j hij (List.mem_range.1 hj)
    show N.w i > N.w j ∨ (N.w i = N.w j ∧ i < j)
    omega
  have hcan : vals.sorted = canonPairs N := C12.canonical_unique (hp.trans hperm) hs hcs
  exact ⟨hcan, hsum, (C11.limit_is_maxint32 _).2 htot⟩

/-! ### (a) the oracle of the combined model -/

/-- the hypotheses of the corollaries, bundled for the proofs (`Compose.GOK`) -/
theorem gok {N : Net} {vals : Vals} (hvalid : Valid N.nVals N.h) (hframes : N.FramesAccepted) (hbft : N.BFT)
    (hW : WeightsOK N) (hB : BuiltFor N vals) (hchk : Checked N) (hsmall : N.nVals + N.h.length < 4294967296) :
    GOK N vals :=
  ⟨hvalid, hframes, hbft, frameBound_of_checks hchk, valsOK_of_build hW hB, parentsNodup_of_checks hchk, hsmall⟩

/-- **(a)** The forkless-cause oracle that `processIndexed` hands to the Orderer equals `N.FC` on the
    accepted events: `v` is the index of an instance that accepted the events `evs` of `N` in its own
    parents-first order (`Compose.IdxInv`: `v = run nVals (histOf N evs)`, the instance's own history —
    established for every state the combined model reaches, `indexed_run_partial`), queries are made
    at the positions of that order. From C05 (`C05_fc_eq_spec`) for the instance's history, the
    embedding of that history into `N.h` (`emb_histOf`, `emb_fcspec`) and `Net.FC_eq_FCSpec`. -/
theorem observe_eq_FC {N : Net} {vals : Vals} {evs : List Nat} {v : VState} (app : App)
    (hW : WeightsOK N) (hB : BuiltFor N vals) (hchk : Checked N) (hsmall : N.nVals + N.h.length < 4294967296)
    (I : IdxInv N evs v) {a b : Nat} (ha : a ∈ evs) (hb : b ∈ evs) :
    (envOf app vals v evs).observe a b = true ↔ N.FC a b :=
  Compose.observe_eq_FC (valsOK_of_build hW hB) I (parentsNodup_of_checks hchk) hsmall ha hb

/-- one instance of the combined model over all of a parents-first order `ids`: it runs exactly like
    the Orderer model with the graph oracle (`runAll N (envFC N app)`): every event accepted, decided
    frames `dss` per event, L5's invariant (`OInv`, `OpenEl`) for the final Orderer state, cheater lists =
    C03's sentence, final index = this instance's index of `ids` (`CInv`) -/
theorem indexed_run_partial {N : Net} {vals : Vals} (app : App) (ep : Nat) (ids : List Nat)
    (G : GOK N vals) (hseal : ∀ ep f, app.sealAt ep f = none) (horder : PFFrom N [] ids) :
    ∃ (dss : List (List Decided)) (v' : VState),
      (OrdererRestart3.runAll N (envFC N app) ids (Model.Orderer.initial ep vals)).2 = dss.map Res.ok ∧
      OInv N vals ids.reverse (dss.flatten.map blk)
        (OrdererRestart3.runAll N (envFC N app) ids (Model.Orderer.initial ep vals)).1 ∧
      OpenEl N vals (OrdererRestart3.runAll N (envFC N app) ids (Model.Orderer.initial ep vals)).1 (fun _ => False) ∧
      runAllIx N app ids (Model.Indexed.initial ep vals) =
        (⟨(OrdererRestart3.runAll N (envFC N app) ids (Model.Orderer.initial ep vals)).1, v', ids⟩,
         dss.map (fun ds => IRes.ok (ds.map (fun d => (⟨d, specCheaters N d.atropos⟩ : Block))))) ∧
      CInv N vals ⟨(OrdererRestart3.runAll N (envFC N app) ids (Model.Orderer.initial ep vals)).1, v', ids⟩ := by
  have C := ctx_envFC G app hseal
  obtain ⟨I0, O0⟩ := initial_inv C ep
  obtain ⟨dss, h1, _, _, I, O, _⟩ :=
    OrdererRestart3.run_lockstep C ids [] [] (Model.Orderer.initial ep vals) (Model.Orderer.initial ep vals).el I0 O0 O0 horder
  obtain ⟨v', e, C1⟩ := sim_all G hseal ids (Model.Indexed.initial ep vals) [] dss (cInv_initial G.ok ep)
    (fun _ => Iff.rfl) horder h1
  refine ⟨dss, v', h1, by simpa using I, O, ?_, ?_⟩
  · simpa [Model.Indexed.initial] using e
  · simpa [Model.Indexed.initial] using C1

end Consensus
