import LachesisVerif.Proofs.ComposeRun
import LachesisVerif.Proofs.ComposeEpochs2
import LachesisVerif.Proofs.RestartEpochs3
import LachesisVerif.Props.C01
import LachesisVerif.Props.C08
import LachesisVerif.Props.C10
import LachesisVerif.Props.C12
import LachesisVerif.Props.C13
/-!
# Consensus — C01 / C07 / C08 / C10 for the combined model "Orderer over the vector index"

`Model/Indexed.lean` is the model of `abft.IndexedLachesis`: state = (Orderer state, vector index state,
the accepted events in this instance's indexing order); `processIndexed` = `DagIndexer.Add` +
`Orderer.Process` with the forkless-cause oracle answered BY THIS INSTANCE'S INDEX at the positions of
its own indexing order, + `Flush` on success / `DropNotFlushed` on rejection; `buildIndexed` = the same
`Add` + `Orderer.Build` + `DropNotFlushed`; `restartIndexed` = `Bootstrap` over the persisted index.

The theorems C01 (`C01_order_independent_partial`), C08 (`C08_restart_invisible_partial`) and C10
(`C10_model_eq_reference_partial`/`_canon`) are about `Model.Orderer` with an abstract oracle and carry
(a) `hobs`: the oracle answers the graph relation `N.FC`; (b) `hvals`: `ValsOK` (canonical validator
record, total ≤ 2^31-1); (c) `hbound`: `FrameBound` (frames < 2^31). Here they are composed with

* (a) `observe_eq_FC` (C05 `C05_fc_eq_spec` for the instance's OWN history + `VecProofs.emb_fcspec`: the
  graph definition only looks at `A`'s ancestry + `Net.FC_eq_FCSpec`): the index of an instance that
  accepted the events `evs` in its own parents-first order answers `N.FC a b` for accepted `a`, `b`;
  `Compose.process_congr`: `Orderer.process` asks its oracle only about the processed event and the
  owners of table roots, so the combined model runs exactly like the Orderer model with oracle `N.FC`
  (`Compose.sim_all`);
* (b) `valsOK_of_build` (C12 `idx_ids_weights_total`, `canonical_unique`): the record built by
  `Model.Pos.build` from any permutation of the pairs `(i, N.w i)` is `ValsOK`;
* (c) `frameBound_of_checks` (C13 `C13_validate_iff`): events that pass the checkers have frames
  < 2^31 - 2; the same hypothesis gives "no double parents" (`parentsNodup_of_checks`), C05's `PLen`.

Corollaries, WITHOUT `hobs`, `ValsOK`, `FrameBound`:
* `indexed_order_independent_partial` (C01): same valid events of an epoch, forkers below one third,
  any two parents-first orders, each instance over its own index ⇒ every event accepted by both, same
  `(frame, Atropos, cheaters)` sequence, same last decided frame. The cheater lists are those computed
  by the instance's own index at the moment of the decision and equal C03's sentence
  (`indexed_blocks_cheaters`: `Compose.specCheaters`, via C03/C06 and `Compose.process_K`: an emitted
  Atropos is always an event this instance has indexed).
* `indexed_eq_reference_partial` (C10): the combined model's `(frame, Atropos)` sequence = the blocks
  of the executable reference `Spec/Lachesis.lean`.
* `indexed_restart_invisible_partial` (C08): the restarted instance re-indexes nothing — its index
  state is the persisted one — and answers every later event like the instance that kept running.
* `indexed_multi_epoch_partial` (C01 over several epochs; per epoch `indexed_epoch_partial`): two combined
  instances with the same application seal function, fed epoch by epoch, each in its own
  parents-first orders, emit the same `(epoch, frame, Atropos, sealed, cheaters)` sequence and make the
  same epoch transitions; a seal leaves both exactly in `Model.Indexed.initial (ep+1) nv` (new Orderer
  state, empty index for the new validators). No `hseal`; per epoch the remaining hypotheses are
  `EpochHyps` (last section, `Proofs/ComposeEpochs*.lean`).
* `indexed_restarts_multi_epoch_partial` (C08 over several epochs; last section, `Proofs/RestartEpochs*.lean`):
  the several-epoch run of one instance, and the same run with `restartIndexed` applied any number of
  times at arbitrary points between `Process` calls of arbitrary epochs, emit literally the same block
  list and end with the same persisted Orderer state, index and indexing order. No `hseal`.
* `indexed_no_trace` (C07): `buildIndexed` and a rejected `processIndexed` return literally the previous
  combined state, so all later answers and states are equal (true by construction of the model's
  transaction; that the real `DropNotFlushed` restores the tables is the correspondence check).

Hypotheses that REMAIN (named, hence `_partial`):
* the property's own: `Valid` (what the event checks + ordering buffer guarantee), `FramesAccepted`
  (claimed frames obey the frame rule), `BFT`, parents-first orders covering all events;
* `hseal`: the application never seals — one epoch (all corollaries except `indexed_multi_epoch_partial`
  and `indexed_epoch_partial`, which compose `C01_multi_epoch_partial`'s argument and have no `hseal`);
* `hsmall`: `nVals + number of events < 2^32` (C05: branch ids are 32-bit in the Go code);
* `WeightsOK` + `BuiltFor`: validators are NAMED by their canonical index (`Net.w` is indexed that way:
  weight descending; weights non-zero and < 2^32) and the record was built by the builder;
* `Checked`: every event passed `eventcheck` with its claimed frame and parent list (C13's `U32`: Go's
  field types).
Modelled separately (Props/VecPersist.lean): the reload of the index from its store and `BranchesInfo` on restart
(here the restarted model keeps the persisted `VState`, which VecPersist proves is what the reload yields).
Not modelled: the forkless-cause result cache (C07 treats it separately), store caches (C33).
-/
namespace Consensus
open Model.Pos Model.Election Model.Orderer Model.Vec Model.Indexed VecProofs ElectionRules ElectionRefine
open OrdererProofs Compose

/-! ### (c) frames and parent lists of checked events -/

/-- every event of `N` passed the event checkers with its claimed frame and its parent list -/
def Checked (N : Net) : Prop :=
  ∀ e, e < N.h.length → ∃ (cur : Nat) (isVal : Nat → Bool) (ev : Model.Check.Ev) (ps : List Model.Check.Parent),
    ev.frame = N.fr e ∧ ps.map (·.id) = (N.h.ev e).parents ∧ C13.U32 ev ps ∧
    Model.Check.validate cur isVal ev ps = none

/-- **(c)** `FrameBound` follows from the event checks (C13: frame < 2^31 - 2) -/
theorem frameBound_of_checks {N : Net} (h : Checked N) : FrameBound N := by
  intro e he
  obtain ⟨cur, isVal, ev, ps, hf, _, hu, hval⟩ := h e he
  have W := (C13.C13_validate_iff cur isVal ev ps hu).1 hval
  have := W.frame_ok.2
  rw [hf] at this
  omega

/-- "no double parents" (basic check): C05's side condition `PLen` -/
theorem parentsNodup_of_checks {N : Net} (h : Checked N) : ∀ i, i < N.h.length → (N.h.ev i).parents.Nodup := by
  intro e he
  obtain ⟨cur, isVal, ev, ps, _, hp, hu, hval⟩ := h e he
  have W := (C13.C13_validate_iff cur isVal ev ps hu).1 hval
  rw [← hp]
  exact List.pairwise_map.2 W.parents_distinct

/-! ### (b) the validator record built by the builder -/

/-- the non-zero (id, weight) pairs of the epoch's validators, ids = canonical indices -/
def canonPairs (N : Net) : Pairs := (List.range N.nVals).map (fun i => (i, N.w i))

/-- naming convention of `Net`: index order is the canonical order (weight descending; equal weights:
    id = index ascending); weights are non-zero 32-bit values -/
structure WeightsOK (N : Net) : Prop where
  pos : ∀ i, i < N.nVals → 0 < N.w i
  u32 : ∀ i, i < N.nVals → N.w i < 4294967296
  desc : ∀ i j, i < j → j < N.nVals → N.w j ≤ N.w i

/-- `vals` is what `ValidatorsBuilder.Build` returns for these pairs, inserted in any order -/
def BuiltFor (N : Net) (vals : Vals) : Prop := ∃ b : Pairs, b.Perm (canonPairs N) ∧ Model.Pos.build b = some vals

/-- **(b)** `ValsOK` follows from C12 for every set built by the builder -/
theorem valsOK_of_build {N : Net} {vals : Vals} (hW : WeightsOK N) (hB : BuiltFor N vals) :
    ValsOK vals N.nVals N.w := by
  obtain ⟨b, hperm, hbuild⟩ := hB
  have hmem : ∀ p ∈ b, ∃ i, i < N.nVals ∧ p = (i, N.w i) := by
    intro p hp
    obtain ⟨i, hi, rfl⟩ := List.mem_map.1 (hperm.subset hp)
    exact ⟨i, List.mem_range.1 hi, rfl⟩
  have hids : (canonPairs N).map (·.1) = List.range N.nVals := by
    unfold canonPairs; rw [List.map_map]; exact List.map_id' _
  have hb : Proofs.PosCanon.BInv b := by
    refine ⟨?_, ?_⟩
    · rw [(hperm.map (·.1)).nodup_iff, hids]; exact List.nodup_range
    · intro p hp
      obtain ⟨i, hi, rfl⟩ := hmem p hp
      exact Nat.pos_iff_ne_zero.1 (hW.pos i hi)
  have hw : ∀ p ∈ b, p.2 < 4294967296 := by
    intro p hp
    obtain ⟨i, hi, rfl⟩ := hmem p hp
    exact hW.u32 i hi
  obtain ⟨hp, hs, _, _, hsum, htot⟩ := C12.idx_ids_weights_total b hb hw vals hbuild
  have hcs : Proofs.PosCanon.Sorted (canonPairs N) := by
    unfold Proofs.PosCanon.Sorted canonPairs
    rw [List.pairwise_map]
    refine List.Pairwise.imp_of_mem ?_ (List.pairwise_lt_range (n := N.nVals))
    intro i j _ hj hij
    rw [Proofs.PosCanon.less_iff]
    have := hW.desc i j hij (List.mem_range.1 hj)
    show N.w i > N.w j ∨ (N.w i = N.w j ∧ i < j)
    omega
  have hcan : vals.sorted = canonPairs N := C12.canonical_unique (hp.trans hperm) hs hcs
  exact ⟨hcan, hsum, (C11.limit_is_maxint32 _).2 htot⟩

/-! ### (a) the oracle of the combined model -/

/-- the hypotheses of the corollaries, bundled for the proofs (`Compose.GOK`) -/
theorem gok {N : Net} {vals : Vals} (hvalid : Valid N.nVals N.h) (hframes : N.FramesAccepted) (hbft : N.BFT)
    (hW : WeightsOK N) (hB : BuiltFor N vals) (hchk : Checked N) (hsmall : N.nVals + N.h.length < 4294967296) :
    GOK N vals :=
  ⟨hvalid, hframes, hbft, frameBound_of_checks hchk, valsOK_of_build hW hB, parentsNodup_of_checks hchk, hsmall⟩

/-- **(a)** The forkless-cause oracle that `processIndexed` hands to the Orderer equals `N.FC` on the
    accepted events: `v` is the index of an instance that accepted the events `evs` of `N` in its own
    parents-first order (`Compose.IdxInv`: `v = run nVals (histOf N evs)`, the instance's own history —
    established for every state the combined model reaches, `indexed_run_partial`), queries are made
    at the positions of that order. From C05 (`C05_fc_eq_spec`) for the instance's history, the
    embedding of that history into `N.h` (`emb_histOf`, `emb_fcspec`) and `Net.FC_eq_FCSpec`. -/
theorem observe_eq_FC {N : Net} {vals : Vals} {evs : List Nat} {v : VState} (app : App)
    (hW : WeightsOK N) (hB : BuiltFor N vals) (hchk : Checked N) (hsmall : N.nVals + N.h.length < 4294967296)
    (I : IdxInv N evs v) {a b : Nat} (ha : a ∈ evs) (hb : b ∈ evs) :
    (envOf app vals v evs).observe a b = true ↔ N.FC a b :=
  Compose.observe_eq_FC (valsOK_of_build hW hB) I (parentsNodup_of_checks hchk) hsmall ha hb

/-- one instance of the combined model over all of a parents-first order `ids`: it runs exactly like
    the Orderer model with the graph oracle (`runAll N (envFC N app)`): every event accepted, decided
    frames `dss` per event, L5's invariant (`OInv`, `OpenEl`) for the final Orderer state, cheater lists =
    C03's sentence, final index = this instance's index of `ids` (`CInv`) -/
theorem indexed_run_partial {N : Net} {vals : Vals} (app : App) (ep : Nat) (ids : List Nat)
    (G : GOK N vals) (hseal : ∀ ep f, app.sealAt ep f = none) (horder : PFFrom N [] ids) :
    ∃ (dss : List (List Decided)) (v' : VState),
      (OrdererRestart3.runAll N (envFC N app) ids (Model.Orderer.initial ep vals)).2 = dss.map Res.ok ∧
      OInv N vals ids.reverse (dss.flatten.map blk)
        (OrdererRestart3.runAll N (envFC N app) ids (Model.Orderer.initial ep vals)).1 ∧
      OpenEl N vals (OrdererRestart3.runAll N (envFC N app) ids (Model.Orderer.initial ep vals)).1 (fun _ => False) ∧
      runAllIx N app ids (Model.Indexed.initial ep vals) =
        (⟨(OrdererRestart3.runAll N (envFC N app) ids (Model.Orderer.initial ep vals)).1, v', ids⟩,
         dss.map (fun ds => IRes.ok (ds.map (fun d => (⟨d, specCheaters N d.atropos⟩ : Block))))) ∧
      CInv N vals ⟨(OrdererRestart3.runAll N (envFC N app) ids (Model.Orderer.initial ep vals)).1, v', ids⟩ := by
  have C := ctx_envFC G app hseal
  obtain ⟨I0, O0⟩ := initial_inv C ep
  obtain ⟨dss, h1, _, _, I, O, _⟩ :=
    OrdererRestart3.run_lockstep C ids [] [] (Model.Orderer.initial ep vals) (Model.Orderer.initial ep vals).el I0 O0 O0 horder
  obtain ⟨v', e, C1⟩ := sim_all G hseal ids (Model.Indexed.initial ep vals) [] dss (cInv_initial G.ok ep)
    (fun _ => Iff.rfl) horder h1
  refine ⟨dss, v', h1, by simpa using I, O, ?_, ?_⟩
  · simpa [Model.Indexed.initial] using e
  · simpa [Model.Indexed.initial] using C1

/-! ### C01 for the combined model -/

/-- what a block says: frame, Atropos, cheater list -/
def blkc (b : Block) : Nat × Nat × List Nat := (b.d.frame, b.d.atropos, b.cheaters)

theorem flatten_blocks (N : Net) (dss : List (List Decided)) :
    (dss.map (fun ds => ds.map (fun d => (⟨d, specCheaters N d.atropos⟩ : Block)))).flatten.map blkc =
      (dss.flatten.map blk).map (fun fa => (fa.1, fa.2, specCheaters N fa.2)) := by
  rw [← List.map_flatten, List.map_map, List.map_map]
  rfl

/-- **C01 for the combined model** (one epoch). `N`: the valid events of the epoch with accepted
    frames, forkers below one third. Two instances of `Model.Indexed` — each with its own validator
    record built by the builder, its own application side (`idKey`), its own vector index filled in
    its own order — process all events of `N`, each in its own parents-first order. Both accept
    every event (all answers are `ok`: no wrong-frame rejection, no election error), emit the same
    sequence of `(frame, Atropos, cheaters)` and end with the same last decided frame.
    Gone compared with `C01_order_independent_partial`: `hobs₁/₂` (the oracle IS each instance's index),
    `hvals₁/₂` (`ValsOK`), `hbound` (`FrameBound`). Remaining (see the module doc): `hseal₁/₂` (one epoch),
    `hsmall`, `WeightsOK`/`BuiltFor` (validators named by canonical index, record built by the
    builder), `Checked` (events passed the checkers). -/
theorem indexed_order_independent_partial (N : Net) (vals₁ vals₂ : Vals) (app₁ app₂ : App) (ep₁ ep₂ : Nat)
    (ids₁ ids₂ : List Nat)
    (hvalid : Valid N.nVals N.h) (hframes : N.FramesAccepted) (hbft : N.BFT)
    (horder₁ : PFFrom N [] ids₁) (horder₂ : PFFrom N [] ids₂)
    (hall₁ : ∀ e, e < N.h.length → e ∈ ids₁) (hall₂ : ∀ e, e < N.h.length → e ∈ ids₂)
    (hW : WeightsOK N) (hB₁ : BuiltFor N vals₁) (hB₂ : BuiltFor N vals₂) (hchk : Checked N)
    (hsmall : N.nVals + N.h.length < 4294967296)
    (hseal₁ : ∀ ep f, app₁.sealAt ep f = none) (hseal₂ : ∀ ep f, app₂.sealAt ep f = none) :
    ∃ (bss₁ bss₂ : List (List Block)),
      (runAllIx N app₁ ids₁ (Model.Indexed.initial ep₁ vals₁)).2 = bss₁.map IRes.ok ∧
      (runAllIx N app₂ ids₂ (Model.Indexed.initial ep₂ vals₂)).2 = bss₂.map IRes.ok ∧
      bss₁.flatten.map blkc = bss₂.flatten.map blkc ∧
      (runAllIx N app₁ ids₁ (Model.Indexed.initial ep₁ vals₁)).1.o.ldf =
        (runAllIx N app₂ ids₂ (Model.Indexed.initial ep₂ vals₂)).1.o.ldf := by
  have G₁ := gok hvalid hframes hbft hW hB₁ hchk hsmall
  have G₂ := gok hvalid hframes hbft hW hB₂ hchk hsmall
  obtain ⟨dss₁, v₁, _, I₁, O₁, e₁, _⟩ := indexed_run_partial app₁ ep₁ ids₁ G₁ hseal₁ horder₁
  obtain ⟨dss₂, v₂, _, I₂, O₂, e₂, _⟩ := indexed_run_partial app₂ ep₂ ids₂ G₂ hseal₂ horder₂
  have hb := blocks_unique (ctx_envFC G₁ app₁ hseal₁) (ctx_envFC G₂ app₂ hseal₂) I₁ O₁ I₂ O₂
    (fun e he => List.mem_reverse.2 (hall₁ e he)) (fun e he => List.mem_reverse.2 (hall₂ e he))
  refine ⟨dss₁.map (fun ds => ds.map (fun d => (⟨d, specCheaters N d.atropos⟩ : Block))),
    dss₂.map (fun ds => ds.map (fun d => (⟨d, specCheaters N d.atropos⟩ : Block))), ?_, ?_, ?_, ?_⟩
  · rw [e₁, List.map_map]; rfl
  · rw [e₂, List.map_map]; rfl
  · rw [flatten_blocks, flatten_blocks, hb]
  · rw [e₁, e₂]
    show (OrdererRestart3.runAll N (envFC N app₁) ids₁ (Model.Orderer.initial ep₁ vals₁)).1.ldf =
      (OrdererRestart3.runAll N (envFC N app₂) ids₂ (Model.Orderer.initial ep₂ vals₂)).1.ldf
    rw [I₁.ldf, I₂.ldf, hb]

/-- what the blocks of one instance of the combined model say (C03/C06 + L5): every block names the
    Atropos of the rules for its frame, frames are 1, 2, …, and its cheater list — computed by the
    instance's own index at the moment of the decision — is in canonical order and contains exactly
    the validators with two different events of equal seq among the ancestors-or-self of the Atropos -/
theorem indexed_blocks_cheaters_partial (N : Net) (vals : Vals) (app : App) (ep : Nat) (ids : List Nat)
    (hvalid : Valid N.nVals N.h) (hframes : N.FramesAccepted) (hbft : N.BFT) (horder : PFFrom N [] ids)
    (hW : WeightsOK N) (hB : BuiltFor N vals) (hchk : Checked N) (hsmall : N.nVals + N.h.length < 4294967296)
    (hseal : ∀ ep f, app.sealAt ep f = none) :
    ∃ (bss : List (List Block)),
      (runAllIx N app ids (Model.Indexed.initial ep vals)).2 = bss.map IRes.ok ∧
      (∀ i (h : i < bss.flatten.length), (bss.flatten[i]).d.frame = i + 1) ∧
      ∀ b ∈ bss.flatten, N.IsAtropos b.d.frame b.d.atropos ∧ b.cheaters.Pairwise (· < ·) ∧
        ∀ c, c ∈ b.cheaters ↔ c < N.nVals ∧ ForkSeen N.h b.d.atropos c := by
  have G := gok hvalid hframes hbft hW hB hchk hsmall
  obtain ⟨dss, v, _, I, _, e, _⟩ := indexed_run_partial app ep ids G hseal horder
  have hfl : (dss.map (fun ds => ds.map (fun d => (⟨d, specCheaters N d.atropos⟩ : Block)))).flatten =
      dss.flatten.map (fun d => (⟨d, specCheaters N d.atropos⟩ : Block)) := by rw [← List.map_flatten]
  refine ⟨dss.map (fun ds => ds.map (fun d => (⟨d, specCheaters N d.atropos⟩ : Block))),
    by rw [e, List.map_map]; rfl, ?_, ?_⟩
  · intro i h
    have h2 : i < dss.flatten.length := by rw [hfl, List.length_map] at h; exact h
    have h' : i < (dss.flatten.map blk).length := by rw [List.length_map]; exact h2
    have := I.frames i h'
    rw [List.getElem_map] at this
    simp only [hfl, List.getElem_map]
    exact this
  · intro b hb
    rw [hfl] at hb
    obtain ⟨d, hd, rfl⟩ := List.mem_map.1 hb
    refine ⟨I.atropoi (blk d) (List.mem_map_of_mem hd), ?_, ?_⟩
    · exact List.Pairwise.filter _ List.pairwise_lt_range
    · intro c
      show c ∈ specCheaters N d.atropos ↔ _
      unfold specCheaters
      simp [List.mem_filter]

/-! ### C10 for the combined model -/

section Reference
open Spec.Lachesis RefEquiv

/-- **C10 for the combined model** (one epoch, `(frame, Atropos)` sequences). Let the executable
    reference `Spec/Lachesis.lean` accept the checked events `evs` (`RefEquiv.Run`), ending in state `s`
    with blocks `out`. One instance of `Model.Indexed` that processes the events of the net of `s` in
    ANY parents-first order covering all of them accepts every event, ends with the reference's last
    decided frame and emits the reference's `(frame, Atropos)` list (the reference names the Atropos
    by protocol number `(s.ev a).n`). Its cheater lists are C03's sentence
    (`indexed_blocks_cheaters_partial`), which is what the reference lists (`C03_reference_cheaters`).
    Gone compared with `C10_model_eq_reference_partial`: `Ctx`'s `obs`, `ok` (`ValsOK`), `hb` (`FrameBound`);
    validity and accepted frames come from the run. Remaining: BFT, `hseal`, `hsmall`,
    `WeightsOK`/`BuiltFor`, `Checked` (module doc). -/
theorem indexed_eq_reference_partial {ep : Nat} {rvals : List (Nat × Nat)} {evs : List Ev} {s : Inst}
    {out : List Spec.Lachesis.Inst.Block} (hrun : Run ep rvals evs s out) (hbft : (netOf s).BFT) (vals : Vals) (app : App)
    (hW : WeightsOK (netOf s)) (hB : BuiltFor (netOf s) vals) (hchk : Checked (netOf s))
    (hsmall : (netOf s).nVals + (netOf s).h.length < 4294967296)
    (hseal : ∀ ep f, app.sealAt ep f = none) (mep : Nat) (ids : List Nat)
    (hpf : PFFrom (netOf s) [] ids) (hall : ∀ e, e < s.size → e ∈ ids) :
    ∃ (bss : List (List Model.Indexed.Block)),
      (runAllIx (netOf s) app ids (Model.Indexed.initial mep vals)).2 = bss.map IRes.ok ∧
      (runAllIx (netOf s) app ids (Model.Indexed.initial mep vals)).1.o.ldf = s.ldf ∧
      bss.flatten.map (fun b => (b.d.frame, (s.ev b.d.atropos).n)) = out.map (fun b => (b.frame, b.atropos)) := by
  have G := gok (run_inv hrun).valid (run_inv hrun).fa hbft hW hB hchk hsmall
  have C := ctx_envFC G app hseal
  obtain ⟨sm, ds, hm, hldf, hds⟩ := C10.C10_model_eq_reference_partial hrun C mep ids hpf hall
  obtain ⟨dss, h1, h2, h3⟩ := runAll_of_runIds _ _ _ _ _ _ _ hm
  obtain ⟨v', e, _⟩ := sim_all G hseal ids (Model.Indexed.initial mep vals) [] dss (cInv_initial G.ok mep)
    (fun _ => Iff.rfl) hpf h1
  refine ⟨dss.map (fun ds => ds.map (fun d => (⟨d, specCheaters (netOf s) d.atropos⟩ : Model.Indexed.Block))),
    by rw [e, List.map_map]; rfl, ?_, ?_⟩
  · rw [e]
    show (OrdererRestart3.runAll (netOf s) (envFC (netOf s) app) ids (Model.Orderer.initial mep vals)).1.ldf = s.ldf
    rw [h2]; exact hldf
  · rw [← List.map_flatten, List.map_map, ← hds, h3, List.nil_append]
    rfl

end Reference

/-! ### C08 for the combined model -/

/-- **C08 for the combined model** (one epoch). `pre ++ post`: any parents-first processing order of
    (an ancestry-closed part of) the events of `N`. `sk` = the combined instance that has processed
    `pre`. Restarting it — `Orderer.Bootstrap` over the PERSISTED index state: nothing is re-indexed,
    `s₂.v = sk.v`, `s₂.evs = sk.evs` — succeeds, emits no block, reports no seal and keeps the
    persisted Orderer state; then `s₂` and `sk` answer every event of `post` identically (all accepted,
    per event the same blocks incl. cheater lists) and end with the same persisted Orderer state and
    the same index.
    Gone compared with `C08_restart_invisible_partial`: `hobs` (before AND after the restart the oracle
    is the instance's index), `hvals`, `hbound`. Remaining: `hframes`, `hseal`, `hsmall`,
    `WeightsOK`/`BuiltFor`, `Checked`; not modelled: the reload of the index tables from the store. -/
theorem indexed_restart_invisible_partial (N : Net) (vals : Vals) (app : App) (ep : Nat)
    (hvalid : Valid N.nVals N.h) (hframes : N.FramesAccepted) (hbft : N.BFT)
    (hW : WeightsOK N) (hB : BuiltFor N vals) (hchk : Checked N) (hsmall : N.nVals + N.h.length < 4294967296)
    (hseal : ∀ ep f, app.sealAt ep f = none) (pre post : List Nat) (horder : PFFrom N [] (pre ++ post)) :
    ∃ (s₂ : IState) (bss : List (List Block)),
      restartIndexed app (runAllIx N app pre (Model.Indexed.initial ep vals)).1 = .ok (s₂, [], false) ∧
      s₂.v = (runAllIx N app pre (Model.Indexed.initial ep vals)).1.v ∧
      s₂.evs = (runAllIx N app pre (Model.Indexed.initial ep vals)).1.evs ∧
      OrdererRestart.SamePersisted (runAllIx N app pre (Model.Indexed.initial ep vals)).1.o s₂.o ∧
      (runAllIx N app post (runAllIx N app pre (Model.Indexed.initial ep vals)).1).2 = bss.map IRes.ok ∧
      (runAllIx N app post s₂).2 = bss.map IRes.ok ∧
      OrdererRestart.SamePersisted (runAllIx N app post (runAllIx N app pre (Model.Indexed.initial ep vals)).1).1.o
        (runAllIx N app post s₂).1.o ∧
      (runAllIx N app post (runAllIx N app pre (Model.Indexed.initial ep vals)).1).1.v = (runAllIx N app post s₂).1.v ∧
      (runAllIx N app post (runAllIx N app pre (Model.Indexed.initial ep vals)).1).1.evs =
        (runAllIx N app post s₂).1.evs := by
  have G := gok hvalid hframes hbft hW hB hchk hsmall
  have C := ctx_envFC G app hseal
  have hsplit := (OrdererRestart3.pf_append N pre post []).1 horder
  obtain ⟨dssP, vP, _, _, _, eP, CP⟩ := indexed_run_partial app ep pre G hseal hsplit.1
  obtain ⟨s₂o, dss, hb, hsp, a, b, c⟩ := C08.C08_restart_invisible_partial N vals (envFC N app) ep hvalid hframes
    hbft G.hb G.ok C.obs hseal pre post horder
  obtain ⟨hr, C2⟩ := restart_sim G hseal CP hb
  have hdone : ∀ x, x ∈ pre.reverse ++ [] ↔ x ∈ pre := by intro x; simp
  obtain ⟨v1, e1, C1'⟩ := sim_all G hseal post _ (pre.reverse ++ []) dss CP hdone hsplit.2 a
  obtain ⟨v2, e2, C2'⟩ := sim_all G hseal post _ (pre.reverse ++ []) dss C2 hdone hsplit.2 b
  have hv : v1 = v2 := C1'.idx.run.trans C2'.idx.run.symm
  refine ⟨⟨s₂o, vP, pre⟩, dss.map (fun ds => ds.map (fun d => (⟨d, specCheaters N d.atropos⟩ : Block))), ?_⟩
  rw [eP]
  refine ⟨hr, rfl, rfl, hsp, ?_, ?_, ?_, ?_, ?_⟩
  · show (runAllIx N app post ⟨_, vP, pre⟩).2 = _
    rw [e1, List.map_map]; rfl
  · rw [e2, List.map_map]; rfl
  · show OrdererRestart.SamePersisted (runAllIx N app post ⟨_, vP, pre⟩).1.o _
    rw [e1, e2]; exact c
  · show (runAllIx N app post ⟨_, vP, pre⟩).1.v = _
    rw [e1, e2]; exact hv
  · show (runAllIx N app post ⟨_, vP, pre⟩).1.evs = _
    rw [e1, e2]

/-! ### C07 for the combined model -/

/-- calls that must leave no trace: every `Build`, and every `Process` that is not accepted -/
def NoTrace (app : App) (s : IState) : Op → Prop
  | .build _ => True
  | .process e => ∀ bs, (processIndexed app s e).2 ≠ .ok bs

/-- `Build` returns literally the state it was given -/
theorem buildIndexed_state (app : App) (s : IState) (e : IEvent) : (buildIndexed app s e).1 = s := rfl

/-- a `Process` that is rejected (wrong frame or election error) returns literally the state it was given -/
theorem processIndexed_rejected (app : App) (s : IState) (e : IEvent)
    (h : ∀ bs, (processIndexed app s e).2 ≠ .ok bs) : (processIndexed app s e).1 = s := by
  unfold processIndexed at h ⊢
  simp only [addEvent] at h ⊢
  cases hp : process (envOf app s.o.vals (s.v.add ⟨s.o.vals.idxOf e.creator, e.seq, e.parents.map (pos s.evs)⟩)
      (s.evs ++ [e.id])) s.o e.id e.creator e.spf e.claimed with
  | mk o' r =>
    rw [hp] at h
    cases r with
    | wrongFrame => rfl
    | failed x => rfl
    | ok ds =>
      exfalso
      simp only at h
      split at h
      · exact h _ rfl
      · exact h _ rfl

theorem step_noTrace (app : App) (s : IState) (op : Op) (h : NoTrace app s op) : (step app s op).1 = s := by
  cases op with
  | build e => rfl
  | process e => exact processIndexed_rejected app s e h

theorem runOps_append (app : App) (a b : List Op) (s : IState) :
    runOps app (a ++ b) s =
      ((runOps app b (runOps app a s).1).1, (runOps app a s).2 ++ (runOps app b (runOps app a s).1).2) := by
  induction a generalizing s with
  | nil => rfl
  | cons op rest ih => simp only [List.cons_append, runOps, ih]

/-- **C07 for the combined model**: a speculative `buildIndexed` or a rejected `processIndexed`, made
    at any point of any log of calls, leaves no trace — the combined state (Orderer state, index
    state, indexing order) after it is literally the state before it, hence every later answer and
    the final state are those of the log without the call. True by construction of the model's
    transaction (`Flush` / `DropNotFlushed` = keep the new / the old index state); that the real
    `DropNotFlushed` restores the tables is what the `cons` correspondence stream checks. No
    hypotheses. -/
theorem indexed_no_trace (app : App) (s : IState) (pre post : List Op) (op : Op)
    (h : NoTrace app (runOps app pre s).1 op) :
    (runOps app (pre ++ op :: post) s).1 = (runOps app (pre ++ post) s).1 ∧
    (runOps app (pre ++ op :: post) s).2 =
      (runOps app pre s).2 ++ (step app (runOps app pre s).1 op).2 :: (runOps app post (runOps app pre s).1).2 ∧
    (runOps app (pre ++ post) s).2 = (runOps app pre s).2 ++ (runOps app post (runOps app pre s).1).2 := by
  rw [runOps_append, runOps_append]
  simp only [runOps, step_noTrace app _ op h]
  exact ⟨trivial, trivial, trivial⟩

/-! ### non-vacuity: the three-event chain of `Proofs/ElectionExample.lean` (one validator, frames 1, 2, 3) -/
namespace Example
open ElectionExample

def exApp : App := { idKey := fun x => x, sealAt := fun _ _ => none }

theorem weightsOK : WeightsOK net :=
  ⟨fun _ _ => Nat.one_pos, fun _ _ => (by decide : (1 : Nat) < 4294967296), fun _ _ _ _ => Nat.le_refl 1⟩

theorem builtFor : BuiltFor net ElectionExample.vals := ⟨[(0, 1)], List.Perm.refl _, rfl⟩

theorem checked : Checked net := by
  intro e he
  have h3 : e < 3 := he
  have : e = 0 ∨ e = 1 ∨ e = 2 := by omega
  rcases this with rfl | rfl | rfl
  · exact ⟨1, fun _ => true, ⟨1, 1, 1, 1, 0⟩, [], rfl, rfl, ⟨by decide, by decide⟩, by decide⟩
  · exact ⟨1, fun _ => true, ⟨1, 2, 2, 2, 0⟩, [⟨0, 0, 1, 1⟩], rfl, rfl, ⟨by decide, by decide⟩, by decide⟩
  · exact ⟨1, fun _ => true, ⟨1, 3, 3, 3, 0⟩, [⟨1, 0, 2, 2⟩], rfl, rfl, ⟨by decide, by decide⟩, by decide⟩

/-- the combined model, executed: three events accepted, the third decides frame 1 with Atropos 0 and
    an empty cheater list (read from the instance's own index) -/
example : (runAllIx net exApp [0, 1, 2] (Model.Indexed.initial 1 ElectionExample.vals)).2 =
    [.ok [], .ok [], .ok [⟨⟨1, 1, 0, false⟩, []⟩]] := by decide +kernel

/-- a speculative build leaves the state alone and answers the frame the event would get -/
example : (buildIndexed exApp (runAllIx net exApp [0, 1] (Model.Indexed.initial 1 ElectionExample.vals)).1
    (evOf net 2)).2 = 3 := by decide +kernel

/-- all hypotheses of `indexed_order_independent_partial` hold on it -/
example : ∃ (bss₁ bss₂ : List (List Block)),
    (runAllIx net exApp [0, 1, 2] (Model.Indexed.initial 1 ElectionExample.vals)).2 = bss₁.map IRes.ok ∧
    (runAllIx net exApp [0, 1, 2] (Model.Indexed.initial 2 ElectionExample.vals)).2 = bss₂.map IRes.ok ∧
    bss₁.flatten.map blkc = bss₂.flatten.map blkc ∧
    (runAllIx net exApp [0, 1, 2] (Model.Indexed.initial 1 ElectionExample.vals)).1.o.ldf =
      (runAllIx net exApp [0, 1, 2] (Model.Indexed.initial 2 ElectionExample.vals)).1.o.ldf :=
  indexed_order_independent_partial net _ _ exApp exApp 1 2 [0, 1, 2] [0, 1, 2] valid framesAccepted bft
    OrdererProofs.Example.pf OrdererProofs.Example.pf C01.EpochExample.ex_all C01.EpochExample.ex_all
    weightsOK builtFor builtFor checked (by decide) (fun _ _ => rfl) (fun _ _ => rfl)

/-- … and of `indexed_restart_invisible_partial`: restart after the first event -/
example : ∃ (s₂ : IState) (bss : List (List Block)),
    restartIndexed exApp (runAllIx net exApp [0] (Model.Indexed.initial 1 ElectionExample.vals)).1 = .ok (s₂, [], false) ∧
    (runAllIx net exApp [1, 2] (runAllIx net exApp [0] (Model.Indexed.initial 1 ElectionExample.vals)).1).2 = bss.map IRes.ok ∧
    (runAllIx net exApp [1, 2] s₂).2 = bss.map IRes.ok := by
  obtain ⟨s₂, bss, h1, _, _, _, h5, h6, _⟩ := indexed_restart_invisible_partial net _ exApp 1 valid framesAccepted bft
    weightsOK builtFor checked (by decide) (fun _ _ => rfl) [0] [1, 2] OrdererProofs.Example.pf
  exact ⟨s₂, bss, h1, h5, h6⟩

end Example

/-! ### C01 over several epochs for the combined model (`Proofs/ComposeEpochs*.lean`)

The seal transition of the combined model is part of `Model.Indexed.processIndexed`: when a `Process`
call emits a sealed frame the new combined state is `⟨o', VState.init o'.vals.len, []⟩` — the Orderer
state for the next epoch and an EMPTY index for the new validators (`abft.IndexedLachesis`:
`OnEpochSealed` → `DagIndexer.Reset(newValidators)`). `Compose.runEpochIx` submits the events of one
epoch and stops at the call that seals (events of the old epoch arriving after the seal are not
submitted, as in `C01_late_events_partial`); `Compose.runEpochsIx` goes epoch after epoch with ONE
application for the whole run. -/
section Epochs

/-- the hypotheses about ONE epoch of a several-epoch run: `N` the epoch's history, `vals` the
    validator record both instances hold in this epoch, `ids₁/₂` the two processing orders -/
structure EpochHyps (N : Net) (vals : Vals) (ids₁ ids₂ : List Nat) : Prop where
  hvalid : Valid N.nVals N.h
  hframes : N.FramesAccepted
  hbft : N.BFT
  horder₁ : PFFrom N [] ids₁
  horder₂ : PFFrom N [] ids₂
  hall₁ : ∀ e, e < N.h.length → e ∈ ids₁
  hall₂ : ∀ e, e < N.h.length → e ∈ ids₂
  hW : WeightsOK N
  hB : BuiltFor N vals
  hchk : Checked N
  hsmall : N.nVals + N.h.length < 4294967296

/-- the hypotheses epoch by epoch (recursion over the epochs, starting in epoch `ep` with validators
    `vals`): `EpochHyps` for this epoch, and for every validator record `nv` the application may return
    in this epoch the remaining epochs are OK from `(ep+1, nv)` -/
def IndexedEpochsOK (sealAt : Nat → Nat → Option Vals) : Nat → Vals → List IEpochPair → Prop
  | _, _, [] => True
  | ep, vals, p :: rest =>
    EpochHyps p.N vals p.ids₁ p.ids₂ ∧
    ∀ nv, (∃ F, sealAt ep F = some nv) → IndexedEpochsOK sealAt (Gen.Orderer.sealedEpoch ep) nv rest

theorem EpochHyps.gok {N : Net} {vals : Vals} {ids₁ ids₂ : List Nat} (H : EpochHyps N vals ids₁ ids₂) : GOK N vals :=
  Consensus.gok H.hvalid H.hframes H.hbft H.hW H.hB H.hchk H.hsmall

/-- `ValsOK`, `FrameBound`, "no double parents" derived per epoch (C12, C13) -/
theorem gEpochsOK_of (sealAt : Nat → Nat → Option Vals) : ∀ (ps : List IEpochPair) (ep : Nat) (vals : Vals),
    IndexedEpochsOK sealAt ep vals ps → GEpochsOK sealAt ep vals ps := by
  intro ps
  induction ps with
  | nil => intro _ _ _; trivial
  | cons p rest ih =>
    intro ep vals h
    exact ⟨h.1.gok, h.1.horder₁, h.1.horder₂, h.1.hall₁, h.1.hall₂, fun nv hnv => ih _ nv (h.2 nv hnv)⟩

/-- **C01 for one epoch of the combined model, application may seal.** Both instances start the epoch
    in `Model.Indexed.initial ep vals` (empty index), get all events of the epoch's history `N`, each
    in its own parents-first order, with applications that seal at the same frames of this epoch
    with the same sets (`hsa`). Both accept every event submitted and emit the same blocks `bs`
    (epoch, frame, Atropos, sealed flag, cheater list — each list computed by the instance's own
    index, equal to C03's sentence `specCheaters N`). Either both seal at the same frame (last entry
    of `bs`), skip the rest of their lists and are both exactly `initial (ep+1) nv` — next epoch's
    Orderer state AND an empty index for `nv` (C09 for the combined state) — or neither seals,
    nothing is skipped, same epoch, validators and last decided frame.
    Gone compared with `C01_epoch_partial`: `hobs₁/₂`, `hvals`, `hbound`. -/
theorem indexed_epoch_partial (N : Net) (vals : Vals) (app₁ app₂ : App) (ep : Nat) (ids₁ ids₂ : List Nat)
    (H : EpochHyps N vals ids₁ ids₂) (hsa : ∀ f, app₁.sealAt ep f = app₂.sealAt ep f) :
    ∃ t₁ t₂ bs sk₁ sk₂, runEpochIx N app₁ ids₁ (Model.Indexed.initial ep vals) [] = some (t₁, bs, sk₁) ∧
      runEpochIx N app₂ ids₂ (Model.Indexed.initial ep vals) [] = some (t₂, bs, sk₂) ∧
      (∀ b ∈ bs, b.cheaters = specCheaters N b.d.atropos) ∧
      ((bs.any (·.d.sealed) = true ∧ ∃ nv, (∃ F, app₁.sealAt ep F = some nv) ∧
          t₁ = Model.Indexed.initial (Gen.Orderer.sealedEpoch ep) nv ∧
          t₂ = Model.Indexed.initial (Gen.Orderer.sealedEpoch ep) nv) ∨
       (bs.any (·.d.sealed) = false ∧ sk₁ = [] ∧ sk₂ = [] ∧ t₁.o.epoch = ep ∧ t₂.o.epoch = ep ∧
          t₁.o.vals = vals ∧ t₂.o.vals = vals ∧ t₁.o.ldf = t₂.o.ldf)) :=
  indexed_epoch_agree H.gok ep hsa ids₁ ids₂ H.horder₁ H.horder₂ H.hall₁ H.hall₂

/-- **C01 over several epochs for the combined model.** Two instances of `Model.Indexed` — each an
    Orderer over ITS OWN vector index, the index reset to the new validators by every seal — start
    from the same genesis `Model.Indexed.initial ep vals`, have applications with the same seal
    function `sealAt` (`hs₁`, `hs₂`; their `idKey` may differ) and receive, epoch by epoch (`ps`), all
    events of that epoch's history in their own parents-first orders; the next epoch's events are
    submitted only after the current one sealed, events of an old epoch arriving after its seal are
    not submitted (`runEpochIx`). Both accept every event they are given, emit the SAME list of
    blocks `bs : List Block` — i.e. the same sequence `(epoch, frame, Atropos, sealed, cheaters)`, hence
    the same epoch transitions — and end in the same epoch with the same validators and last decided
    frame.
    No oracle hypothesis, no `ValsOK`, no `FrameBound`: per epoch they are derived as in
    `indexed_order_independent_partial` (C05 for the instance's own index, C12, C13), and `hseal` is gone.
    Remaining hypotheses, all in `IndexedEpochsOK sealAt ep vals ps` (= per epoch `EpochHyps`, for the
    validator record the instances hold in that epoch: `vals` at first, then whatever `sealAt` returned):
    * the property's own: `hvalid` (`Valid`), `hframes` (`FramesAccepted`), `hbft` (`BFT`), `horder₁/₂`
      (parents-first orders), `hall₁/₂` (covering all events of the epoch);
    * `hsmall`: `nVals + number of events < 2^32` per epoch (C05);
    * `hW` (`WeightsOK`) + `hB` (`BuiltFor N vals`): validators named by canonical index, and the record
      the instances hold in the epoch — in later epochs the one RETURNED BY THE APPLICATION — was built
      by the builder for that epoch's validators;
    * `hchk` (`Checked`): every event passed the event checks;
    * `hs₁`, `hs₂`: both applications seal by the same function; same initial `(ep, vals)`.
    Restarts combined with seals: `indexed_restarts_multi_epoch_partial` below. -/
theorem indexed_multi_epoch_partial (app₁ app₂ : App) (sealAt : Nat → Nat → Option Vals)
    (hs₁ : app₁.sealAt = sealAt) (hs₂ : app₂.sealAt = sealAt) (ps : List IEpochPair) (ep : Nat) (vals : Vals)
    (hok : IndexedEpochsOK sealAt ep vals ps) :
    ∃ (t₁ t₂ : IState) (bs : List Block),
      runEpochsIx app₁ (ps.map IEpochPair.in₁) (Model.Indexed.initial ep vals) [] = some (t₁, bs) ∧
      runEpochsIx app₂ (ps.map IEpochPair.in₂) (Model.Indexed.initial ep vals) [] = some (t₂, bs) ∧
      t₁.o.epoch = t₂.o.epoch ∧ t₁.o.vals = t₂.o.vals ∧ t₁.o.ldf = t₂.o.ldf :=
  indexed_epochs_agree app₁ app₂ sealAt hs₁ hs₂ ps ep vals [] (gEpochsOK_of sealAt ps ep vals hok)

/-! non-vacuity: the three-event chain, twice; the application seals epoch 1 at frame 1 (as in
    `C01.EpochExample`); the two instances order event ids differently (`idKey`) -/
namespace EpochsExample
open ElectionExample C01.EpochExample

def app₁ : App := { idKey := fun x => x, sealAt := exSeal }
def app₂ : App := { idKey := fun x => 10 - x, sealAt := exSeal }
def pair : IEpochPair := ⟨net, [0, 1, 2], [0, 1, 2]⟩

theorem hyps : EpochHyps net ElectionExample.vals [0, 1, 2] [0, 1, 2] :=
  ⟨valid, framesAccepted, bft, OrdererProofs.Example.pf, OrdererProofs.Example.pf, ex_all, ex_all,
   Example.weightsOK, Example.builtFor, Example.checked, by decide⟩

theorem ok : IndexedEpochsOK exSeal 1 ElectionExample.vals [pair, pair] := by
  refine ⟨hyps, ?_⟩
  intro nv hnv
  obtain ⟨F, hF⟩ := hnv
  unfold exSeal at hF
  split at hF
  · cases hF
    exact ⟨hyps, fun _ _ => trivial⟩
  · cases hF

/-- all hypotheses of `indexed_multi_epoch_partial` hold on it -/
example : ∃ (t₁ t₂ : IState) (bs : List Block),
    runEpochsIx app₁ ([pair, pair].map IEpochPair.in₁) (Model.Indexed.initial 1 ElectionExample.vals) [] = some (t₁, bs) ∧
    runEpochsIx app₂ ([pair, pair].map IEpochPair.in₂) (Model.Indexed.initial 1 ElectionExample.vals) [] = some (t₂, bs) ∧
    t₁.o.epoch = t₂.o.epoch ∧ t₁.o.vals = t₂.o.vals ∧ t₁.o.ldf = t₂.o.ldf :=
  indexed_multi_epoch_partial app₁ app₂ exSeal rfl rfl [pair, pair] 1 ElectionExample.vals ok

/-- … and the combined model indeed seals epoch 1 at its first block (index reset) and goes on in
    epoch 2: two blocks, empty cheater lists -/
example : (runEpochsIx app₁ ([pair, pair].map IEpochPair.in₁) (Model.Indexed.initial 1 ElectionExample.vals) []).map (·.2) =
    some [⟨⟨1, 1, 0, true⟩, []⟩, ⟨⟨2, 1, 0, false⟩, []⟩] := by decide +kernel

end EpochsExample

end Epochs

/-! ### C08 over several epochs for the combined model (`Proofs/RestartEpochs*.lean`)

`Compose.runEpochsIxR` is `Compose.runEpochsIx` with restarts: per epoch a list `rs` of restart counts —
`rs[i]` restarts (`Model.Indexed.restartIndexed`: `Orderer.Bootstrap` over the persisted Orderer state and the
PERSISTED index, nothing re-indexed) before the `i`-th submitted event of the epoch, `rs[ids.length]` after
the last one; missing entries = 0. Position 0 of an epoch after the first is "right after the seal".
Blocks a restart would emit are appended to the output, a restart that errs makes the run `none`. -/
section Restarts

/-- the hypotheses about ONE epoch of the run: `N` the epoch's history, `vals` the validator record the
    instance holds in this epoch, `ids` its processing order (need not cover all events of `N`) -/
structure RestartEpochHyps (N : Net) (vals : Vals) (ids : List Nat) : Prop where
  hvalid : Valid N.nVals N.h
  hframes : N.FramesAccepted
  hbft : N.BFT
  horder : PFFrom N [] ids
  hW : WeightsOK N
  hB : BuiltFor N vals
  hchk : Checked N
  hsmall : N.nVals + N.h.length < 4294967296

/-- the hypotheses epoch by epoch (as `IndexedEpochsOK`): `RestartEpochHyps` for this epoch, and for every
    validator record `nv` the application may return in this epoch the remaining epochs are OK from
    `(ep+1, nv)` -/
def IndexedRestartsOK (sealAt : Nat → Nat → Option Vals) : Nat → Vals → List IEpochInR → Prop
  | _, _, [] => True
  | ep, vals, p :: rest =>
    RestartEpochHyps p.N vals p.ids ∧
    ∀ nv, (∃ F, sealAt ep F = some nv) → IndexedRestartsOK sealAt (Gen.Orderer.sealedEpoch ep) nv rest

theorem gRestartsOK_of (sealAt : Nat → Nat → Option Vals) : ∀ (ps : List IEpochInR) (ep : Nat) (vals : Vals),
    IndexedRestartsOK sealAt ep vals ps → GRestartsOK sealAt ep vals ps := by
  intro ps
  induction ps with
  | nil => intro _ _ _; trivial
  | cons p rest ih =>
    intro ep vals h
    exact ⟨gok h.1.hvalid h.1.hframes h.1.hbft h.1.hW h.1.hB h.1.hchk h.1.hsmall, h.1.horder,
      fun nv hnv => ih _ nv (h.2 nv hnv)⟩

/-- **C08 for one epoch of the combined model, application may seal** (from `initial`): the plain run
    and the run with restarts `rs` accept every event submitted, emit the same blocks `bs` (cheater lists
    = C03's sentence) and skip the same late events; either both sealed and are exactly
    `initial (ep+1) nv`, or neither did and they end with the same persisted Orderer state (epoch,
    validators, last decided frame, roots table), the same index and the same indexing order. -/
theorem indexed_restarts_epoch_partial (N : Net) (vals : Vals) (app : App) (ep : Nat) (ids rs : List Nat)
    (H : RestartEpochHyps N vals ids) :
    ∃ t₁ t₂ bs sk, runEpochIx N app ids (Model.Indexed.initial ep vals) [] = some (t₁, bs, sk) ∧
      runEpochIxR N app ids rs (Model.Indexed.initial ep vals) [] = some (t₂, bs, sk) ∧
      (∀ b ∈ bs, b.cheaters = specCheaters N b.d.atropos) ∧
      ((bs.any (·.d.sealed) = true ∧ ∃ nv, (∃ F, app.sealAt ep F = some nv) ∧
          t₁ = Model.Indexed.initial (Gen.Orderer.sealedEpoch ep) nv ∧
          t₂ = Model.Indexed.initial (Gen.Orderer.sealedEpoch ep) nv) ∨
       (bs.any (·.d.sealed) = false ∧ sk = [] ∧ OrdererRestart.SamePersisted t₁.o t₂.o ∧ t₁.v = t₂.v ∧
          t₁.evs = t₂.evs ∧ t₁.o.epoch = ep ∧ t₁.o.vals = vals)) :=
  epoch_restarts_initial app (gok H.hvalid H.hframes H.hbft H.hW H.hB H.hchk H.hsmall) ep ids rs H.horder

/-- **C08 over several epochs for the combined model: restarts at arbitrary points of arbitrary epochs
    are invisible.** One instance of `Model.Indexed` (an Orderer over ITS OWN vector index, the index reset
    to the new validators by every seal) starts from genesis `Model.Indexed.initial ep vals` and receives,
    epoch by epoch (`ps`), events of that epoch's history in a parents-first order; the next epoch's
    events are submitted only after the current one sealed, events of an old epoch arriving after its
    seal are not submitted (`runEpochsIx`). The second run (`runEpochsIxR`) is the same, except that the
    instance is stopped and restarted over the same databases — `restartIndexed`: `Orderer.Bootstrap` (epoch
    state + last decided state loaded, election re-created for frame `ldf + 1`, known roots re-processed)
    over the persisted index — `p.rs[i]` times before the `i`-th event of epoch `p` and `p.rs[p.ids.length]`
    times after its last one: any number of restarts, at any points between `Process` calls, in any
    epochs (position 0 of a later epoch = right after the seal). Then
    * both runs succeed: every restart succeeds and every submitted event is accepted in both;
    * they emit LITERALLY the same block list `bs : List Block` — the same sequence
      `(epoch, frame, Atropos, sealed, cheaters)`, hence the same epoch transitions; no restart emits a block;
    * they end with the same persisted Orderer state (`SamePersisted`: epoch, validators, last decided
      frame, roots table — only the volatile election may differ), the same index state `v` and the same
      indexing order `evs` (after a seal both are exactly `initial (ep+1) nv`).
    No oracle hypothesis, no `ValsOK`, no `FrameBound`, no `hseal`. Remaining hypotheses, all in
    `IndexedRestartsOK app.sealAt ep vals ps` (= per epoch `RestartEpochHyps`, for the validator record the
    instance holds in that epoch: `vals` at first, then whatever `app.sealAt` returned):
    * the property's own: `hvalid` (`Valid`: what event checks + ordering buffer guarantee), `hframes`
      (`FramesAccepted`: claimed frames obey the frame rule), `hbft` (`BFT`: forkers below one third),
      `horder` (the submitted events are in a parents-first order; they need NOT cover the epoch's history);
    * `hsmall`: `nVals + number of events < 2^32` per epoch (C05: 32-bit branch ids);
    * `hW` (`WeightsOK`) + `hB` (`BuiltFor N vals`): validators named by canonical index; the record held
      in the epoch — in later epochs the one RETURNED BY THE APPLICATION — was built by the builder;
    * `hchk` (`Checked`): every event passed the event checks.
    Not modelled: the reload of the index tables from the store (the restarted model keeps the persisted
    `VState`), restarts in the middle of a `Process` call. -/
theorem indexed_restarts_multi_epoch_partial (app : App) (ps : List IEpochInR) (ep : Nat) (vals : Vals)
    (hok : IndexedRestartsOK app.sealAt ep vals ps) :
    ∃ (t₁ t₂ : IState) (bs : List Block),
      runEpochsIx app (ps.map IEpochInR.plain) (Model.Indexed.initial ep vals) [] = some (t₁, bs) ∧
      runEpochsIxR app ps (Model.Indexed.initial ep vals) [] = some (t₂, bs) ∧
      OrdererRestart.SamePersisted t₁.o t₂.o ∧ t₁.v = t₂.v ∧ t₁.evs = t₂.evs :=
  indexed_epochs_restarts app ps ep vals [] (gRestartsOK_of app.sealAt ps ep vals hok)

/-- the observable state spelled out: same epoch, validators, last decided frame, roots table -/
theorem indexed_restarts_multi_epoch_state (app : App) (ps : List IEpochInR) (ep : Nat) (vals : Vals)
    (hok : IndexedRestartsOK app.sealAt ep vals ps) :
    ∃ (t₁ t₂ : IState) (bs : List Block),
      runEpochsIx app (ps.map IEpochInR.plain) (Model.Indexed.initial ep vals) [] = some (t₁, bs) ∧
      runEpochsIxR app ps (Model.Indexed.initial ep vals) [] = some (t₂, bs) ∧
      t₂.o.epoch = t₁.o.epoch ∧ t₂.o.vals = t₁.o.vals ∧ t₂.o.ldf = t₁.o.ldf ∧ t₂.o.roots = t₁.o.roots ∧
      t₂.v = t₁.v ∧ t₂.evs = t₁.evs := by
  obtain ⟨t₁, t₂, bs, a, b, c, d, e⟩ := indexed_restarts_multi_epoch_partial app ps ep vals hok
  exact ⟨t₁, t₂, bs, a, b, c.epoch, c.vals, c.ldf, c.roots, d.symm, e.symm⟩

/-! non-vacuity: the three-event chain, twice (`EpochsExample`: the application seals epoch 1 at frame 1);
    epoch 1: one restart before the second and one before the third event; epoch 2: one restart right
    after the seal, two in a row before the third event, one after the last event -/
namespace RestartsExample
open ElectionExample C01.EpochExample

def e₁ : IEpochInR := ⟨net, [0, 1, 2], [0, 1, 1]⟩
def e₂ : IEpochInR := ⟨net, [0, 1, 2], [1, 0, 2, 1]⟩

theorem hyps : RestartEpochHyps net ElectionExample.vals [0, 1, 2] :=
  ⟨valid, framesAccepted, bft, OrdererProofs.Example.pf, Example.weightsOK, Example.builtFor, Example.checked, by decide⟩

theorem ok : IndexedRestartsOK EpochsExample.app₁.sealAt 1 ElectionExample.vals [e₁, e₂] := by
  refine ⟨hyps, ?_⟩
  intro nv hnv
  obtain ⟨F, hF⟩ := hnv
  change exSeal 1 F = some nv at hF
  unfold exSeal at hF
  split at hF
  · cases hF
    exact ⟨hyps, fun _ _ => trivial⟩
  · cases hF

/-- all hypotheses of `indexed_restarts_multi_epoch_partial` hold on it -/
example : ∃ (t₁ t₂ : IState) (bs : List Block),
    runEpochsIx EpochsExample.app₁ ([e₁, e₂].map IEpochInR.plain) (Model.Indexed.initial 1 ElectionExample.vals) [] =
      some (t₁, bs) ∧
    runEpochsIxR EpochsExample.app₁ [e₁, e₂] (Model.Indexed.initial 1 ElectionExample.vals) [] = some (t₂, bs) ∧
    OrdererRestart.SamePersisted t₁.o t₂.o ∧ t₁.v = t₂.v ∧ t₁.evs = t₂.evs :=
  indexed_restarts_multi_epoch_partial EpochsExample.app₁ [e₁, e₂] 1 ElectionExample.vals ok

/-- … and the run with the six restarts, executed: epoch 1 sealed at its first block, then epoch 2 -/
example : (runEpochsIxR EpochsExample.app₁ [e₁, e₂] (Model.Indexed.initial 1 ElectionExample.vals) []).map (·.2) =
    some [⟨⟨1, 1, 0, true⟩, []⟩, ⟨⟨2, 1, 0, false⟩, []⟩] := by decide +kernel

end RestartsExample

end Restarts

end Consensus
