import LachesisVerif.Gen.FactsC17w
import LachesisVerif.Gen.FactsC17
/-!
# Structural expectations for C17 (regenerated facts `Gen.FactsC17`)

Split out of the family survey (`notes/facts-gossip-notes.md` lists what the selectors cannot express).
Each theorem states the expected value of Bool facts regenerated from the Go source by
`go/cmd/extract` (selectors `hascall:`, `topcall:`, `topassign:`, `before:`); a statement that is
dropped, guarded or reordered flips a fact and breaks the theorem.
-/
namespace FactsC17

/-- session creation in `readerLoop` — `Model.Seeder.openSession`: the new session is stored in `sessions`
    and listed in `peerSessions` at creation, before the selector check (the repair of DESIGN §7-D4: the old
    code stored it only in the chunk loop — `stepRequestOld`); the selector check precedes serving;
    the unregister case deletes (`stepUnregister`; "resumable until its peer unregisters"). -/
theorem session_structure :
    Gen.FactsC17.sessionStoredAtCreation = true ∧ Gen.FactsC17.sessionListedAtCreation = true ∧
    Gen.FactsC17.mismatchCheckedBeforeServing = true ∧ Gen.FactsC17.unregisterDeletes = true := by decide

/-- chunk loop of `readerLoop` — `Model.Seeder.chunk`, `gated`: `session.next` is `lastKey.Inc()` of the scan
    just made ("without gaps or repeats"); `session.done` and `resp.Done` are set before the response is
    queued on the session's own sender ("exactly one response marked done … nothing more is sent"); the
    response is really sent; the reader waits before producing and counts the response as pending before it is
    queued ("pending response memory never exceeds its limit by more than one response"). -/
theorem chunk_structure :
    Gen.FactsC17.nextFromLastKey = true ∧ Gen.FactsC17.doneMarkedBeforeSend = true ∧
    Gen.FactsC17.respDoneBeforeSend = true ∧ Gen.FactsC17.chunkIsSent = true ∧
    Gen.FactsC17.waitBeforeProduce = true ∧ Gen.FactsC17.pendingCountedBeforeSend = true := by decide

end FactsC17

/-- `utils/workers`: the sender threads are bounded FIFO queues — `Enqueue` neither starts a goroutine nor
    has a non-blocking `default` branch (a full queue blocks the reader loop: back-pressure, nothing
    overtakes), tasks run on the goroutines started by `Start`. `Model.Seeder` sends the responses of one
    session in production order on this assumption ("in order and without gaps or repeats"). -/
theorem FactsC17.sender_queue_fifo :
    Gen.FactsC17w.enqueueSpawns = false ∧ Gen.FactsC17w.enqueueNonBlocking = false ∧
    Gen.FactsC17w.startSpawnsWorkers = true ∧ Gen.FactsC17w.workerRunsJobs = true := by decide
