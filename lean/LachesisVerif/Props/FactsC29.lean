import LachesisVerif.Gen.FactsC29
/-!
# Structural expectations for C29 (regenerated facts `Gen.FactsC29`)

Split out of the family survey (`notes/facts-misc-notes.md` lists what the selectors cannot express).
Each theorem states the expected value of Bool facts regenerated from the Go source by
`go/cmd/extract` (selectors `hascall:`, `topcall:`, `topassign:`, `before:`); a statement that is
dropped, guarded or reordered flips a fact and breaks the theorem.
-/
namespace FactsC29

/-- `Cache.removeElement` / `normalize` / `removeOldest` (`Model.Wlru.evictLoop`, `remove`,
    `removeOldest`): an evicted entry leaves the list AND the key map unconditionally and is passed
    to `onEvict` ("reports each removed entry exactly once"); the loop body of `normalize` is
    `removeOldest`, whose victim is `evictList.Back()` — the head of the model's oldest-first list
    ("evicts least-recently used entries first"). -/
theorem eviction_structure :
    Gen.FactsC29.removeUnlinks = true ∧ Gen.FactsC29.removeDeletesKey = true ∧
    Gen.FactsC29.removeReports = true ∧ Gen.FactsC29.normalizeEvictsOldest = true ∧
    Gen.FactsC29.oldestIsBack = true := by decide

/-- recency (`Model.Wlru.inserted`, `get`, `peek`, `keys`): `Add` moves an existing entry to the front
    and pushes a new one to the front (model: appended = newest), updates `c.weight` before
    `normalize` runs; `Get` refreshes, `Peek` must NOT (`peekRefreshes = false`); `Keys` walks from
    `Back()` via `Prev()` (oldest to newest). `Purge` reports the entries, then `Init`s the list. -/
theorem recency_structure :
    Gen.FactsC29.addRefreshes = true ∧ Gen.FactsC29.addPushesFront = true ∧
    Gen.FactsC29.addWeightBeforeNormalize = true ∧ Gen.FactsC29.getRefreshes = true ∧
    Gen.FactsC29.peekRefreshes = false ∧ Gen.FactsC29.keysFromBack = true ∧
    Gen.FactsC29.purgeReports = true := by decide

end FactsC29
