import LachesisVerif.Gen.FactsC22
/-!
# Structural expectations for C22 (regenerated facts `Gen.FactsC22`)

Split out of the family survey (`notes/facts-kv-notes.md` lists what the selectors cannot express).
Each theorem states the expected value of Bool facts regenerated from the Go source by
`go/cmd/extract` (selectors `hascall:`, `topcall:`, `topassign:`, `before:`); a statement that is
dropped, guarded or reordered flips a fact and breaks the theorem.
-/
namespace FactsC22

/-- `Flushable.flush` as `Model.Flushable.flush` has it (`under := applyBatch under (flushOps overlay)`,
    `overlay := []`): the batch is one of the underlying store and is taken unconditionally; tombstones
    go out as deletions (`nodeOp`); the tree is cleared at top level (not only on some path) and only
    after it was walked into the batch. Without the clear the overlay is not empty after a flush and
    `NotFlushedPairs` is wrong; cleared first, the flush writes nothing and the view is lost. -/
theorem flush_structure :
    Gen.FactsC22.flushIntoUnderlying = true ∧ Gen.FactsC22.flushClearsTree = true ∧
    Gen.FactsC22.flushPutsBeforeClear = true ∧ Gen.FactsC22.flushDeletesTombstones = true := by decide

/-- `DropNotFlushed` → `dropNotFlushed` → `modified.Clear()`, each unconditional
    (`Model.Flushable.dropNotFlushed`: `overlay := []`): dropping restores the underlying view. -/
theorem drop_structure :
    Gen.FactsC22.dropCallsInner = true ∧ Gen.FactsC22.dropClearsTree = true := by decide

/-- `Get` / `Has` consult the tree before the parent (`getOver` / `hasOver`: `match ov.lookup k`
    first). Asked in the other order an unflushed overwrite or deletion would be invisible. -/
theorem read_cache_first :
    Gen.FactsC22.getCacheFirst = true ∧ Gen.FactsC22.hasCacheFirst = true := by decide

/-- `GetSnapshot` (`Model.Flushable.getSnapshot`: `under := snapshot under`, `overlay := overlay` by
    value): a snapshot of the parent is taken unconditionally and the tree is copied node by node, so
    later writes (tree), flushes (parent) and drops (tree) do not reach the snapshot. -/
theorem snapshot_structure :
    Gen.FactsC22.snapshotOfParent = true ∧ Gen.FactsC22.snapshotCopiesTree = true := by decide

/-- `NewIterator` calls `init` unconditionally before returning (`iterateOver` starts from
    `initTree` and the parent's first item); `LazyFlushable.Flush` produces the real store before
    `flush` writes into it (`Lazy.flush`: the result's `real` is the flushed real store). -/
theorem iter_lazy_structure :
    Gen.FactsC22.iterInit = true ∧ Gen.FactsC22.lazyInitsBeforeFlush = true := by decide

end FactsC22
