import LachesisVerif.Gen.FactsC01
/-!
# Structural expectations for C01 (regenerated facts `Gen.FactsC01`)

Split out of the family survey (`notes/facts-cons-notes.md` lists what the selectors cannot express).
Each theorem states the expected value of Bool facts regenerated from the Go source by
`go/cmd/extract` (selectors `hascall:`, `topcall:`, `topassign:`, `before:`); a statement that is
dropped, guarded or reordered flips a fact and breaks the theorem.
-/
namespace FactsC01

/-- `Model.Election.processRoot` (abft/election/election_math.go `ProcessRoot`): `chooseAtropos` first
    and unconditionally (a decided election answers every later root with its result and takes no
    more votes — L4 "decisions are final"); the subjects (`notDecided`) are computed once, before the
    vote loop writes; a decided vote goes to `decidedRoots` and every vote is stored in `votes` for the
    next rounds (`voteLoop`: `e1`, then `votes := … :: e1.votes`). Without the stored votes a later
    round fails with "missing vote"; with subjects recomputed inside the loop the votes of one root
    would depend on its own decisions. -/
theorem processRoot_shape :
    Gen.FactsC01.processRootChoosesFirst = true ∧ Gen.FactsC01.subjectsUnconditional = true ∧
    Gen.FactsC01.subjectsBeforeVotes = true ∧ Gen.FactsC01.decisionThenVote = true := by decide

/-- `Model.Orderer.handleElection` / `bootstrapElection` / `processKnownRoots` / `process`: a root is
    voted, then a decision is applied (`onFrameDecided`), then the known roots of the table are
    re-voted in the NEW election (`bootstrapElection` after `onFrameDecided`; inside it
    `processKnownRoots` before `onFrameDecided`), starting from the stored `LastDecidedFrame`, reading
    each frame's roots from the table before feeding them. This re-vote is what L5 (`OpenEl`: every
    known root of a later frame has voted in the open election) and hence order independence rest on:
    an instance that received the later roots earlier must end with the same election as one that
    receives them now. `Process` registers the root (`checkAndSaveEvent`) at top level. -/
theorem orderer_driving_loops :
    Gen.FactsC01.handleDecidesAfterVote = true ∧ Gen.FactsC01.handleReprocessesKnownRoots = true ∧
    Gen.FactsC01.bootstrapElectionLoops = true ∧ Gen.FactsC01.knownRootsFromLastDecided = true ∧
    Gen.FactsC01.knownRootsReadsThenVotes = true ∧ Gen.FactsC01.processSavesAtTop = true := by decide

/-- `Model.Vec.VState.fc` (vecfc/forkless_cause.go): the `observe` oracle of both instances is the
    graph relation (C05) only if an uncached query loads the branch table before `forklessCause`
    reads it (after a roll-back `vi.bi` is nil) and if a creator with several branches is counted
    once (`CountByIdx`; the model's `eraseDups`). -/
theorem forkless_cause_shape :
    Gen.FactsC01.fcInitsBranchesFirst = true ∧ Gen.FactsC01.fcCountsByCreator = true := by decide

end FactsC01
