import LachesisVerif.Model.Election
/-!
# C04 — Frame rule: processing and building agree with the specification

"Processing accepts an event exactly when its claimed frame is allowed: 1 for an event without
self-parent, otherwise at least the self-parent's frame, where each frame above the self-parent's
requires the event to be forkless-caused by roots holding a quorum of weight at the frame below.
Building an event assigns the highest allowed frame (at most 100 above the self-parent's) no
matter which events were built before, so an event a node builds and then processes is always
accepted."

Theorems about `Model.Election.calcFrameIdx` / `frameAccepted` (the model of
`Orderer.calcFrameIdx` / `checkAndSaveEvent`; loop condition, the cap `+100`, the `f == 0 → 1`
rule and the final comparison are regenerated from abft/event_processing.go). `Q g` stands for
`forklessCausedByQuorumOn(e, g)`; the self-parent's frame is 0 exactly for events without
self-parent (accepted events have frames ≥ 1), and no root is registered for frame 0 (`Q 0 = false`).
That `Q` is the graph-level predicate, whatever was built or queried before, is C05/C07's part; the
`cons` stream checks it on the real code (speculative builds, wrong-frame twins).
-/
namespace C04
open Model.Election

/-- the property's "allowed" -/
def Allowed (Q : Nat → Bool) (spf claimed : Nat) : Prop :=
  if spf = 0 then claimed = 1
  else spf ≤ claimed ∧ ∀ g, spf ≤ g → g < claimed → Q g = true

theorem frameLoop_spec (Q : Nat → Bool) (mx fuel f : Nat) (hfuel : mx - f ≤ fuel) :
    f ≤ frameLoop Q mx fuel f ∧ (f ≤ mx → frameLoop Q mx fuel f ≤ mx) ∧
    (∀ g, f ≤ g → g < frameLoop Q mx fuel f → Q g = true) ∧
    (frameLoop Q mx fuel f < mx → Q (frameLoop Q mx fuel f) = false) := by
  induction fuel generalizing f with
  | zero =>
    simp only [frameLoop]
    refine ⟨Nat.le_refl _, fun h => h, fun g h1 h2 => by omega, fun h => by omega⟩
  | succ k ih =>
    simp only [frameLoop, Gen.Orderer.frameLoopCond]
    by_cases hc : (decide (f < mx) && Q f) = true
    · simp only [hc, if_true]
      simp only [Bool.and_eq_true, decide_eq_true_eq] at hc
      obtain ⟨h1, h2, h3, h4⟩ := ih (f + 1) (by omega)
      refine ⟨by omega, fun _ => h2 (by omega), fun g hg1 hg2 => ?_, h4⟩
      by_cases hgf : g = f
      · subst hgf; exact hc.2
      · exact h3 g (by omega) hg2
    · simp only [hc, Bool.false_eq_true, if_false]
      refine ⟨Nat.le_refl _, fun h => h, fun g h1 h2 => by omega, fun h => ?_⟩
      simp only [Bool.and_eq_true, decide_eq_true_eq, not_and, Bool.not_eq_true] at hc
      exact hc h

/-- C04 (processing): the claimed frame is accepted exactly when it is allowed. -/
theorem C04_process_accepts_iff (Q : Nat → Bool) (spf claimed : Nat) (hQ0 : Q 0 = false) :
    frameAccepted Q spf claimed = true ↔ Allowed Q spf claimed := by
  unfold frameAccepted calcFrameIdx Allowed Gen.Orderer.wrongFrame Gen.Orderer.frameIsZero Gen.Orderer.frameIfZero Gen.Orderer.checkOnlyMaxFrame Gen.Orderer.useClaimedBound
  simp only [if_true, Bool.not_eq_eq_eq_not, Bool.not_true, decide_eq_false_iff_not, ne_eq, Decidable.not_not]
  obtain ⟨h1, h2, h3, h4⟩ := frameLoop_spec Q claimed (claimed - spf) spf (Nat.le_refl _)
  generalize frameLoop Q claimed (claimed - spf) spf = r at *
  by_cases hs : spf = 0
  · subst hs
    simp only [if_true]
    have hr0 : r = 0 ∨ claimed = 0 ∨ True := Or.inr (Or.inr trivial)
    -- the loop cannot leave frame 0 because Q 0 = false
    have hr : r = 0 := by
      by_cases h : r = 0
      · exact h
      · have := h3 0 (Nat.le_refl _) (by omega); rw [hQ0] at this; cases this
    subst hr
    simp
  · simp only [hs, if_false]
    have hrne : ¬ r = 0 := by omega
    simp only [hrne, decide_false, Bool.false_eq_true, if_false]
    constructor
    · intro h; subst h
      exact ⟨h1, h3⟩
    · rintro ⟨hle, hall⟩
      have hrle := h2 hle
      by_cases hlt : r < claimed
      · have := hall r h1 hlt
        rw [h4 hlt] at this; cases this
      · omega

/-- C04 (building): `Build` assigns the highest allowed frame, at most 100 above the self-parent's
    (frames are < 2^31, so `selfParentFrame + 100` does not wrap). -/
theorem C04_build_max (Q : Nat → Bool) (spf : Nat) (hQ0 : Q 0 = false) (hspf : spf < 2147483648) :
    Allowed Q spf (calcFrameIdx Q spf 0 false) ∧
    calcFrameIdx Q spf 0 false ≤ max 1 (spf + 100) ∧
    (∀ f, Allowed Q spf f → f ≤ spf + 100 → f ≤ calcFrameIdx Q spf 0 false) := by
  unfold calcFrameIdx Allowed Gen.Orderer.maxFrameToCheck Gen.Orderer.frameIsZero Gen.Orderer.frameIfZero Gen.Orderer.useClaimedBound
  have hmod : (spf + 100) % 4294967296 = spf + 100 := Nat.mod_eq_of_lt (by omega)
  simp only [Bool.false_eq_true, if_false, hmod]
  obtain ⟨h1, h2, h3, h4⟩ := frameLoop_spec Q (spf + 100) (spf + 100 - spf) spf (Nat.le_refl _)
  generalize frameLoop Q (spf + 100) (spf + 100 - spf) spf = r at *
  have hrle := h2 (by omega)
  by_cases hs : spf = 0
  · subst hs
    have hr : r = 0 := by
      by_cases h : r = 0
      · exact h
      · have := h3 0 (Nat.le_refl _) (by omega); rw [hQ0] at this; cases this
    subst hr
    simp
  · have hrne : ¬ r = 0 := by omega
    simp only [hs, if_false, hrne, decide_false, Bool.false_eq_true]
    refine ⟨⟨h1, h3⟩, by omega, ?_⟩
    rintro f ⟨hle, hall⟩ hcap
    by_cases hlt : r < f
    · have := hall r h1 hlt
      rw [h4 (by omega)] at this; cases this
    · omega

/-- C04 (corollary): an event that is built and then processed is accepted. -/
theorem C04_build_then_process_ok (Q : Nat → Bool) (spf : Nat) (hQ0 : Q 0 = false) (hspf : spf < 2147483648) :
    frameAccepted Q spf (calcFrameIdx Q spf 0 false) = true :=
  (C04_process_accepts_iff Q spf _ hQ0).2 (C04_build_max Q spf hQ0 hspf).1

/-- accepted events are registered as roots for exactly the frames above the self-parent's, up to their own -/
theorem rootFrames_spec (spf frame f : Nat) (h : spf < 2147483648) :
    f ∈ rootFrames spf frame ↔ spf < f ∧ f ≤ frame := by
  unfold rootFrames Gen.Orderer.isRoot Gen.Orderer.addRootFirstFrame Gen.Orderer.addRootLoopCond
  have hmod : (spf + 1) % 4294967296 = spf + 1 := Nat.mod_eq_of_lt (by omega)
  rw [hmod]
  by_cases hne : spf = frame
  · subst hne; simp
  · simp only [ne_eq, hne, not_false_eq_true, decide_true, if_true, List.mem_filter, List.mem_range,
      Bool.and_eq_true, decide_eq_true_eq]
    omega

/-! ### non-vacuity: a quorum at frames 3 and 4 only, self-parent at frame 3 -/
example : calcFrameIdx (fun g => g == 3 || g == 4) 3 0 false = 5 := by decide
example : frameAccepted (fun g => g == 3 || g == 4) 3 4 = true := by decide   -- under-claiming is allowed
example : frameAccepted (fun g => g == 3 || g == 4) 3 6 = false := by decide
example : calcFrameIdx (fun _ => false) 0 0 false = 1 := by decide

end C04
