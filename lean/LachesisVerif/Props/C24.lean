import LachesisVerif.Proofs.KVTable
/-!
# C24 — Tables isolate their key spaces

"A table view with a prefix behaves as the part of the underlying store whose keys start with that
prefix, with the prefix removed, for reads, iterations, batches, replays and snapshots, and writes
through it touch only such keys. Tables whose prefixes are not prefixes of one another never observe
each other's writes, and compacting a whole table asks the underlying store for a range covering
every key with the table's prefix."

Model: `Model.Table` (stateless key translation `prefixed` / `noPrefix` around the underlying
store's operations; `noPrefix`'s length test and `incPrefix`'s emptiness test are regenerated from
the source). `tableView p m` = the pairs of `m` whose key has prefix `p`, prefix removed.
`incPrefix` is modelled as a big-endian increment with carry (`none` = nil on overflow); the
big.Int implementation is tied to it by the `kvtable` stream.
-/
namespace C24
open Bytes Spec Spec.KV Model.Table

/-! ### every table operation commutes with `tableView` -/

theorem get_commutes (p : Bytes) (m : KV) (k : Bytes) : Model.Table.get p m k = KV.get (tableView p m) k := by
  unfold Model.Table.get prefixed; rw [get_tableView]

theorem has_commutes (p : Bytes) (m : KV) (k : Bytes) : Model.Table.has p m k = KV.has (tableView p m) k := by
  unfold Model.Table.has prefixed KV.has; rw [get_tableView]

theorem put_commutes {m : KV} (hs : KV.Sorted m) (p k v : Bytes) :
    tableView p (put p m k v) = (tableView p m).insert k v := by
  apply KV.ext (sorted_tableView (sorted_insert hs _ _) p) (sorted_insert (sorted_tableView hs p) _ _)
  intro k'
  rw [get_tableView]
  show KV.get (m.insert (p ++ k) v) (p ++ k') = _
  rw [get_insert, get_insert, get_tableView]
  by_cases e : k = k'
  · subst e; simp
  · have : ¬ (p ++ k = p ++ k') := fun h => e (List.append_cancel_left h)
    simp [e, this]

theorem delete_commutes {m : KV} (hs : KV.Sorted m) (p k : Bytes) :
    tableView p (delete p m k) = (tableView p m).erase k := by
  apply KV.ext (sorted_tableView (sorted_erase hs _) p) (sorted_erase (sorted_tableView hs p) _)
  intro k'
  rw [get_tableView]
  show KV.get (m.erase (p ++ k)) (p ++ k') = _
  rw [get_erase, get_erase, get_tableView]
  by_cases e : k = k'
  · subst e; simp
  · have : ¬ (p ++ k = p ++ k') := fun h => e (List.append_cancel_left h)
    simp [e, this]

theorem applyOp_prefixOp {m : KV} (hs : KV.Sorted m) (p : Bytes) (op : Op) :
    tableView p (applyOp m (prefixOp p op)) = applyOp (tableView p m) op := by
  cases op with
  | put k v => exact put_commutes hs p k v
  | del k => exact delete_commutes hs p k

/-- a batch written through the table = the same batch applied to the view -/
theorem write_commutes {m : KV} (hs : KV.Sorted m) (p : Bytes) (b : List Op) :
    tableView p (write p m b) = applyBatch (tableView p m) b := by
  unfold write applyBatch
  induction b generalizing m with
  | nil => rfl
  | cons op ops ih =>
    rw [List.map_cons, List.foldl_cons, List.foldl_cons, ih (sorted_applyOp hs _), applyOp_prefixOp hs]

/-- replaying a table batch hands the writer exactly the operations that were put into it
    (`noPrefix` undoes `prefixed`), in order -/
theorem replay_commutes (p : Bytes) (b : List Op) : replay p b = b := by
  unfold replay
  rw [List.map_map]
  conv => rhs; rw [← List.map_id b]
  apply List.map_congr_left
  intro op _
  cases op <;> simp [prefixOp, unprefixOp, noPrefix_prefixed]

/-- iteration with an inner prefix and start = `iterSpec` of the view -/
theorem iter_commutes (p : Bytes) (m : KV) (ip : Option Bytes) (start : Bytes) :
    iterate p m ip start = iterSpec (tableView p m) (ip.getD []) start := by
  unfold iterate iterOver iterSpec prefixed
  generalize ip.getD [] = q
  induction m with
  | nil => rfl
  | cons x xs ih =>
    obtain ⟨a, b⟩ := x
    by_cases hp : isPrefix p a = true
    · obtain ⟨r, rfl⟩ := isPrefix_exists.1 hp
      rw [tableView_cons_pos b xs hp, drop_append_self]
      have hq : (isPrefix (p ++ q) (p ++ r) && lexLe (p ++ q ++ start) (p ++ r)) = (isPrefix q r && lexLe (q ++ start) r) := by
        rw [isPrefix_append_left, isPrefix_append, drop_append_self, List.append_assoc, lexLe_append_left]; simp
      simp only [List.filter_cons, hq]
      by_cases hk : (isPrefix q r && lexLe (q ++ start) r) = true
      · simp only [hk, if_true, List.map_cons, ih, noPrefix_of_isPrefix hp, drop_append_self]
      · have hk' : (isPrefix q r && lexLe (q ++ start) r) = false := by simpa using hk
        simp only [hk', Bool.false_eq_true, if_false, ih]
    · have hp' : isPrefix p a = false := by simpa using hp
      rw [tableView_cons_neg b xs hp']
      have : (isPrefix (p ++ q) a && lexLe (p ++ q ++ start) a) = false := by
        rw [isPrefix_append_left, hp']; rfl
      simp only [List.filter_cons, this, Bool.false_eq_true, if_false, ih]

/-- a snapshot of the table = the view of a snapshot -/
theorem snapshot_commutes (p : Bytes) (m : KV) : tableView p (snapshot m) = snapshot (tableView p m) := rfl

/-! ### writes touch only keys with the table's prefix -/

theorem write_touches_only_prefix (p : Bytes) (m : KV) (b : List Op) (k' : Bytes) (h : isPrefix p k' = false) :
    KV.get (write p m b) k' = KV.get m k' := by
  unfold write applyBatch
  induction b generalizing m with
  | nil => rfl
  | cons op ops ih =>
    rw [List.map_cons, List.foldl_cons, ih]
    have hne : ∀ k, ¬ (p ++ k = k') := fun k e => by rw [← e, isPrefix_append] at h; cases h
    cases op with
    | put k v => simp [applyOp, prefixOp, prefixed, get_insert, hne]
    | del k => simp [applyOp, prefixOp, prefixed, get_erase, hne]

theorem put_touches_only_prefix (p : Bytes) (m : KV) (k v k' : Bytes) (h : isPrefix p k' = false) :
    KV.get (put p m k v) k' = KV.get m k' := write_touches_only_prefix p m [.put k v] k' h

theorem delete_touches_only_prefix (p : Bytes) (m : KV) (k k' : Bytes) (h : isPrefix p k' = false) :
    KV.get (delete p m k) k' = KV.get m k' := write_touches_only_prefix p m [.del k] k' h

/-! ### tables whose prefixes are not prefixes of one another are independent -/

theorem independent {m : KV} (hs : KV.Sorted m) (p1 p2 : Bytes) (h12 : isPrefix p1 p2 = false) (h21 : isPrefix p2 p1 = false)
    (b : List Op) : tableView p2 (write p1 m b) = tableView p2 m := by
  apply KV.ext (sorted_tableView (sorted_applyBatch hs _) p2) (sorted_tableView hs p2)
  intro k
  rw [get_tableView, get_tableView]
  show KV.get ((b.map (prefixOp p1)).foldl applyOp m) (p2 ++ k) = _
  induction b generalizing m with
  | nil => rfl
  | cons op ops ih =>
    rw [List.map_cons, List.foldl_cons, ih (sorted_applyOp hs _)]
    have hne : ∀ k1, ¬ (p1 ++ k1 = p2 ++ k) := by
      intro k1 e
      have : isPrefix p2 (p1 ++ k1) = true := by rw [e]; exact isPrefix_append _ _
      rcases isPrefix_append_cases this with h | h
      · rw [h] at h12; cases h12
      · rw [h] at h21; cases h21
    cases op with
    | put k1 v => simp [applyOp, prefixOp, prefixed, get_insert, hne]
    | del k1 => simp [applyOp, prefixOp, prefixed, get_erase, hne]

/-- in particular reads and iterations through the other table do not change -/
theorem independent_reads {m : KV} (hs : KV.Sorted m) (p1 p2 : Bytes) (h12 : isPrefix p1 p2 = false) (h21 : isPrefix p2 p1 = false)
    (b : List Op) (k : Bytes) (ip : Option Bytes) (start : Bytes) :
    Model.Table.get p2 (write p1 m b) k = Model.Table.get p2 m k ∧ iterate p2 (write p1 m b) ip start = iterate p2 m ip start := by
  rw [get_commutes, get_commutes, iter_commutes, iter_commutes, independent hs p1 p2 h12 h21 b]
  exact ⟨rfl, rfl⟩

/-! ### nested tables compose -/

theorem nested_compose (p1 p2 : Bytes) (m : KV) : tableView p2 (tableView p1 m) = tableView (p1 ++ p2) m := by
  induction m with
  | nil => rfl
  | cons x xs ih =>
    obtain ⟨a, b⟩ := x
    by_cases hp : isPrefix p1 a = true
    · obtain ⟨r, rfl⟩ := isPrefix_exists.1 hp
      rw [tableView_cons_pos b xs hp, drop_append_self]
      have hq : isPrefix (p1 ++ p2) (p1 ++ r) = isPrefix p2 r := by
        rw [isPrefix_append_left, isPrefix_append, drop_append_self]; rfl
      by_cases h2 : isPrefix p2 r = true
      · rw [tableView_cons_pos b _ h2, tableView_cons_pos b xs (by rw [hq]; exact h2), ih]
        simp [List.length_append, ← List.drop_drop]
      · have h2' : isPrefix p2 r = false := by simpa using h2
        rw [tableView_cons_neg b _ h2', tableView_cons_neg b xs (by rw [hq]; exact h2'), ih]
    · have hp' : isPrefix p1 a = false := by simpa using hp
      rw [tableView_cons_neg b xs hp', tableView_cons_neg b xs (by rw [isPrefix_append_left, hp']; rfl), ih]

/-- the key translation of a table inside a table is the translation of the concatenated prefix -/
theorem nested_prefixed (p1 p2 k : Bytes) : prefixed (prefixed k p2) p1 = prefixed k (p1 ++ p2) := by
  simp [prefixed]

/-! ### `incPrefix` and `Compact` -/

theorem incCarry_spec : ∀ (p k e : Bytes), isPrefix p k = true → incCarry p = some e → lexLt k e = true := by
  intro p
  induction p with
  | nil => intro k e _ h; cases h
  | cons b bs ih =>
    intro k e hk he
    cases k with
    | nil => simp [isPrefix] at hk
    | cons c k' =>
      simp only [isPrefix, Bool.and_eq_true, beq_iff_eq] at hk
      obtain ⟨hbc, hk'⟩ := hk
      subst hbc
      simp only [incCarry] at he
      cases hc : incCarry bs with
      | some bs' =>
        rw [hc] at he; cases he
        simp [lexLt, ih k' bs' hk' hc]
      | none =>
        rw [hc] at he
        by_cases hb : b < 255
        · simp only [hb, if_true, Option.some.injEq] at he
          subst he
          simp [lexLt]
        · simp [hb] at he

/-- **`incPrefix_spec`.** Every key with prefix `p` lies in `[p, incPrefix p)`; when `incPrefix`
    overflows (nil) the range is open above. -/
theorem incPrefix_spec (p k : Bytes) (hk : isPrefix p k = true) :
    lexLe p k = true ∧ ∀ e, incPrefix p = some e → lexLt k e = true := by
  refine ⟨lexLe_of_isPrefix hk, ?_⟩
  intro e he
  unfold incPrefix at he
  split at he
  · cases he
  · exact incCarry_spec p k e hk he

/-- `incPrefix` gives nil only for the empty prefix and for prefixes made of bytes ≥ 0xff -/
theorem incPrefix_none (p : Bytes) (h : incPrefix p = none) : ∀ b ∈ p, 255 ≤ b := by
  unfold incPrefix Gen.Kv.incPrefixEmpty at h
  have key : ∀ q : Bytes, incCarry q = none → ∀ b ∈ q, 255 ≤ b := by
    intro q
    induction q with
    | nil => intro _ b hb; cases hb
    | cons c cs ih =>
      intro hq b hb
      simp only [incCarry] at hq
      cases hc : incCarry cs with
      | some _ => rw [hc] at hq; cases hq
      | none =>
        rw [hc] at hq
        by_cases hlt : c < 255
        · simp [hlt] at hq
        · rcases List.mem_cons.1 hb with e | hb
          · subst e; omega
          · exact ih hc b hb
  cases p with
  | nil => intro b hb; cases hb
  | cons c cs => simp at h; exact key _ h

/-- the increment keeps the length (it is a limit key of the same width) -/
theorem incCarry_length : ∀ (p e : Bytes), incCarry p = some e → e.length = p.length := by
  intro p
  induction p with
  | nil => intro e h; cases h
  | cons b bs ih =>
    intro e he
    simp only [incCarry] at he
    cases hc : incCarry bs with
    | some bs' => rw [hc] at he; cases he; simp [ih bs' hc]
    | none =>
      rw [hc] at he
      by_cases hb : b < 255
      · simp only [hb, if_true, Option.some.injEq] at he; subst he; simp
      · simp [hb] at he

/-- compacting a whole table (`Compact(nil, nil)`) asks the underlying store for a range covering
    every key with the table's prefix -/
theorem compact_whole_table_covers (p k : Bytes) (hk : isPrefix p k = true) :
    (compactRange p none none).1 = some p ∧ lexLe p k = true ∧
    ∀ e, (compactRange p none none).2 = some e → lexLt k e = true := by
  refine ⟨by simp [compactRange, prefixed], (incPrefix_spec p k hk).1, ?_⟩
  intro e he
  exact (incPrefix_spec p k hk).2 e he

/-- ... also through nested tables, including the fall-through to the parent's own increment when
    the inner prefix is all 0xff (or empty) -/
theorem compact_nested_covers (p1 p2 k : Bytes) (hk : isPrefix (p1 ++ p2) k = true) :
    let r2 := compactRange p2 none none
    let r1 := compactRange p1 r2.1 r2.2
    r1.1 = some (p1 ++ p2) ∧ lexLe (p1 ++ p2) k = true ∧ ∀ e, r1.2 = some e → lexLt k e = true := by
  intro r2 r1
  obtain ⟨r, rfl⟩ := isPrefix_exists.1 hk
  refine ⟨by simp [r1, r2, compactRange, prefixed], lexLe_of_isPrefix hk, ?_⟩
  intro e he
  simp only [r1, r2, compactRange] at he
  cases h2 : incPrefix p2 with
  | some l =>
    rw [h2] at he
    simp only [prefixed, Option.some.injEq] at he
    subst he
    rw [List.append_assoc, lexLt_append_left]
    exact (incPrefix_spec p2 (p2 ++ r) (isPrefix_append _ _)).2 l h2
  | none =>
    rw [h2] at he
    simp only at he
    exact (incPrefix_spec p1 (p1 ++ p2 ++ r) (by rw [List.append_assoc]; exact isPrefix_append _ _)).2 e he

/-- a compaction of an explicit range of the table is the same range of the view, translated -/
theorem compact_range_translates (p s l k' : Bytes) :
    let r := compactRange p (some s) (some l)
    r.1 = some (p ++ s) ∧ r.2 = some (p ++ l) ∧
    lexLe (p ++ s) (p ++ k') = lexLe s k' ∧ lexLt (p ++ k') (p ++ l) = lexLt k' l := by
  refine ⟨rfl, rfl, lexLe_append_left _ _ _, lexLt_append_left _ _ _⟩

/-! ### non-vacuity -/

def exM : KV := [([0], [9]), ([0, 255], [1]), ([0, 255, 0], []), ([0, 255, 255], [3]), ([1], [4]), ([255, 255], [5])]

example : KV.Sorted exM := by unfold KV.Sorted exM; decide
example : tableView [0, 255] exM = [([], [1]), ([0], []), ([255], [3])] := by decide
example : iterate [0, 255] exM (some [255]) [] = [([255], [3])] := by decide
example : iterate [0] exM none [255, 0] = [([255, 0], []), ([255, 255], [3])] := by decide
example : tableView [0] (put [1] exM [7] [7]) = tableView [0] exM := by decide
example : incPrefix [0, 255] = some [1, 0] ∧ incPrefix [255, 255] = none ∧ incPrefix [] = none ∧ incPrefix [1, 254] = some [1, 255] := by decide
example : (compactRange [7] (compactRange [255] none none).1 (compactRange [255] none none).2) = (some [7, 255], some [8]) := by decide

end C24
