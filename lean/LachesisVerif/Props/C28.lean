import LachesisVerif.Proofs.LockAtomic
import LachesisVerif.Gen.Locks
/-!
# C28 — Thread-safe components are race free and linearizable

"The flushable store, the flush-buffering pool, the thread-safe LRU cache, the events semaphore
and the ordering buffer can be used from many goroutines at once without data races, and every
concurrent history of their operations is equivalent to a sequential history that respects the
order of non-overlapping calls."

Operations = exported methods that complete in one call (DESIGN §2.6); iterators are outside the
linearizability claim.

**What is proved.**
(i) `lock_atomic_linearizable` — for *every* object whose operations run as
`invoke; acquire the object's mutex (shared for read-only operations); body; release; return`
(semantics: `Model.LockAtomic`, the body reads at the beginning and writes at the end of its
section, so overlapping sections do interfere) and for *every* history that is well formed per
thread and respects mutual exclusion: the sections in the order of their release events form a
run of the sequential specification that (a) produces exactly the values the calls returned and
the final state, (b) places every section between the invocation and the return of its call, hence
if op1 returned before op2 was invoked then op1's section precedes op2's. Concurrent readers are
allowed (they commute: `hro`).
(ii) `lock_facts_ok` — the premise "the whole body is one critical section of the object's mutex"
holds for every non-exempt exported method of `flushable.Flushable`, `flushable.SyncedPool`,
`wlru.Cache`, `datasemaphore.DataSemaphore`, `dagordering.EventsBuffer`, by `decide` over the table
`Gen.Locks.rows`, which go/cmd/extract (lockfacts.go) regenerates from the Go source on every run:
first lock statement and its mode, `defer`red or paired unlock, guarded receiver fields touched
while their mutex is not held (following calls of the receiver's own methods), writes under a
shared lock, `cond.Wait`. A method that loses its lock (the pre-fix `NotFlushedPairs` /
`NotFlushedSizeEst`, §7-D11) makes this theorem fail: `d11_prefix_row_rejected`.

**Not proved / outside** (stated, not hidden):
* the Go memory model and `sync` itself (trusted: a held `sync.RWMutex` gives the exclusion that
  `run` checks); data-race freedom is *searched* with the race detector (stream `conc`), not proved;
* the step from a `rowOk` row to "the method's effect is `step`": the sequential models are tied to
  the code by the streams of C22/C29/C30/C14 and by the linearizability judge of stream `conc`;
* cross-object atomicity: `SyncedPool.Flush` against `Put`s on its stores is a sequence of
  per-store critical sections (the judge treats every store as its own object);
* exempt rows: iterators and snapshots' readers, `DataSemaphore.Acquire` (blocking: several
  sections, its last one is a `tryAcquire`), `SyncedPool.Initialize/Close` (life-cycle, by caller
  contract — they do touch `wrappers` without the lock), `EventsBuffer.IsBuffered/Total`
  (delegate to the cache and can observe it between the steps of a `PushEvent`/`Clear`),
  `Flushable.NewBatch` (touches no field); goroutines started internally (`time.AfterFunc` in `Acquire`).
-/
namespace C28
open Model.LockAtomic

/-! ## (i) the generic theorem -/

/-- **Linearizability of lock-atomic objects.** `c.log` is the list of critical sections in the
order of their `rel` events, `c.rets` the `ret` events; ids and times are positions in the history
(`run_clk`). -/
theorem lock_atomic_linearizable {State Op Ret : Type} [DecidableEq Ret]
    (S : Spec State Op Ret)
    (hro : ∀ s op, S.shared op = true → (S.step s op).1 = s)
    (n : Nat) (s0 : State) (tr : List (Ev Op Ret)) (c : Cfg State Op Ret)
    (h : run S true n (init s0) tr = some c) :
    -- (a) the order of the critical sections is a sequential history with the same results …
    seqRun S.step s0 (c.log.map (·.op)) = (c.mem, c.log.map (·.r)) ∧
    c.log.Pairwise (fun a b => a.time < b.time) ∧
    -- … every returned value is the value of the call's own section, which lies inside the call
    (∀ p ∈ c.rets, ∃ e ∈ c.log, e.id = p.id ∧ e.r = p.r ∧ e.id < e.time ∧ e.time < p.time) ∧
    -- (b) real-time order: a call that returned before another one was invoked is linearised first
    (∀ p ∈ c.rets, ∀ e2 ∈ c.log, p.time < e2.id →
      ∃ e1 ∈ c.log, e1.id = p.id ∧ e1.r = p.r ∧ e1.time < e2.time) := by
  have I := inv_run hro tr (inv_init S n s0) h
  refine ⟨I.seq, I.sorted, ?_, ?_⟩
  · intro p hp
    obtain ⟨_, e, he, h1, h2, h3⟩ := I.retT p hp
    exact ⟨e, he, h1, h2, (I.logT e he).1, h3⟩
  · intro p hp e2 he2 hlt
    obtain ⟨_, e, he, h1, h2, h3⟩ := I.retT p hp
    have := (I.logT e2 he2).1
    exact ⟨e, he, h1, h2, by omega⟩

/-- ids and times are positions in the history -/
theorem history_positions {State Op Ret : Type} [DecidableEq Ret] (S : Spec State Op Ret) (mx : Bool)
    (n : Nat) (s0 : State) (tr : List (Ev Op Ret)) (c : Cfg State Op Ret)
    (h : run S mx n (init s0) tr = some c) : c.clk = tr.length := by
  have := run_clk tr h
  simpa [init] using this

/-! ### non-vacuity and the negative witness: a counter with `inc` (returns the old value) and `get` -/

inductive COp where
  | inc | get
deriving DecidableEq, Repr

def counter : Spec Nat COp Nat where
  step s op := match op with
    | .inc => (s + 1, s)
    | .get => (s, s)
  shared op := match op with
    | .inc => false
    | .get => true

theorem counter_readers (s : Nat) (op : COp) (h : counter.shared op = true) : (counter.step s op).1 = s := by
  cases op with
  | inc => cases h
  | get => rfl

/-- two readers overlap (both inside their sections at once), a writer waits for them -/
def goodHistory : List (Ev COp Nat) :=
  [.inv 0 .inc, .acq 0, .inv 1 .get, .rel 0, .ret 0 0, .inv 2 .get, .acq 1, .acq 2, .inv 0 .inc,
   .rel 2, .rel 1, .acq 0, .ret 1 1, .rel 0, .ret 2 1, .ret 0 1]

/-- the hypotheses of the theorem are satisfiable on a history with overlapping calls -/
example : ((run counter true 3 (init 0) goodHistory).map fun c => (c.mem, c.log.map (·.r), c.clk)) =
    some (2, [0, 1, 1, 1], 16) := by decide

/-- the lock discipline rejects a writer entering while a reader is inside -/
example : (run counter true 2 (init 0) [.inv 0 .get, .inv 1 .inc, .acq 0, .acq 1]).isNone = true := by decide

/-- **Negative witness** (a method that lost its lock, `mx = false`): two unsynchronised increments
overlap, both return 0 and the counter ends at 1 — the sections are *not* a run of the sequential
specification, in either order. -/
def racyHistory : List (Ev COp Nat) :=
  [.inv 0 .inc, .inv 1 .inc, .acq 0, .acq 1, .rel 0, .rel 1, .ret 0 0, .ret 1 0]

example : ((run counter false 2 (init 0) racyHistory).map fun c => (c.mem, c.log.map (·.r))) = some (1, [0, 0]) := by
  decide

example : seqRun counter.step 0 [.inc, .inc] = (2, [0, 1]) := by decide

example : (run counter true 2 (init 0) racyHistory).isNone = true := by decide

/-! ## (ii) the premises, regenerated from the source -/
open Gen.Locks

/-- the mutex that stands for "the object's mutex" of each component -/
def objectMutex (ty : String) : String :=
  if ty == "SyncedPool" then "Mutex"
  else if ty == "DataSemaphore" || ty == "EventsBuffer" then "mu"
  else "lock"

/-- The premise of `lock_atomic_linearizable` for one exported method, as far as the syntax shows it:
the body takes the object's mutex first (`Lock`, or `RLock` if it writes no guarded field), releases
it by `defer` or by a paired unlock with no `return` in between, never waits inside, and touches no
guarded field of the receiver outside the section. Exempt rows: `pure` / `delegates` / `immutable`
methods must still touch no guarded field unprotected; a `blocking` method must keep all its accesses
under the exclusive lock; `lifecycle` methods are covered by the caller contract only. -/
def rowOk (r : Row) : Bool :=
  match r.exempt with
  | .no =>
    r.mode != .none && r.unlock != .none && r.mutex == objectMutex r.ty && r.outside.isEmpty &&
    r.irregular.isEmpty && !r.waits && (r.mode != .shared || r.readerWrites.isEmpty)
  | .pure | .delegates | .immutable => r.outside.isEmpty && r.irregular.isEmpty
  | .blocking => r.mode == .excl && r.unlock != .none && r.mutex == objectMutex r.ty && r.outside.isEmpty &&
    r.irregular.isEmpty && r.readerWrites.isEmpty
  | .lifecycle => true

/-- **Every non-exempt exported method of the five components is one critical section of the
object's mutex** (and the exempt ones keep what their exemption promises), for the source as it is
now: the table is regenerated on every check run. -/
theorem lock_facts_ok : rows.all rowOk = true := by decide

/-- the methods the property is mostly about are in the table, and are claimed (not exempt) -/
def claimed (ty method : String) : Bool :=
  rows.any fun r => r.ty == ty && r.method == method && r.exempt == .no

theorem core_methods_claimed :
    (claimed "Flushable" "Put" && claimed "Flushable" "Get" && claimed "Flushable" "Has" &&
     claimed "Flushable" "Delete" && claimed "Flushable" "Flush" && claimed "Flushable" "DropNotFlushed" &&
     claimed "Flushable" "NotFlushedPairs" && claimed "Flushable" "NotFlushedSizeEst" &&
     claimed "Flushable" "Stat" && claimed "Flushable" "Compact" &&
     claimed "SyncedPool" "OpenDB" && claimed "SyncedPool" "Flush" && claimed "SyncedPool" "NotFlushedSizeEst" &&
     claimed "SyncedPool" "Names" && claimed "SyncedPool" "GetUnderlying" &&
     claimed "Cache" "Add" && claimed "Cache" "Get" && claimed "Cache" "Contains" && claimed "Cache" "Remove" &&
     claimed "Cache" "Len" && claimed "Cache" "Total" && claimed "Cache" "Keys" &&
     claimed "DataSemaphore" "TryAcquire" && claimed "DataSemaphore" "Release" && claimed "DataSemaphore" "Processing" &&
     claimed "DataSemaphore" "Available" && claimed "DataSemaphore" "Terminate" &&
     claimed "EventsBuffer" "PushEvent" && claimed "EventsBuffer" "Clear") = true := by decide

/-- §7-D11, the rows the extractor produces for the pre-fix code (commit 6165b42 reverted):
`NotFlushedPairs` read the tree and `NotFlushedSizeEst` the size estimate without any lock. -/
def d11PrefixRows : List Row := [
  { ty := "Flushable", method := "NotFlushedPairs", mutex := "", mode := .none, unlock := .none,
    outside := ["modified"], readerWrites := [], irregular := [], waits := false, exempt := .no, reason := "" },
  { ty := "Flushable", method := "NotFlushedSizeEst", mutex := "", mode := .none, unlock := .none,
    outside := ["sizeEstimation"], readerWrites := [], irregular := [], waits := false, exempt := .no, reason := "" }]

/-- **Negative witness for D11**: the pre-fix rows do not satisfy the premise. -/
theorem d11_prefix_row_rejected : d11PrefixRows.any rowOk = false := by decide

/-- and the repaired methods do (shared lock, deferred unlock, nothing outside) -/
theorem d11_fixed_rows_accepted :
    ((rows.filter fun r => r.ty == "Flushable" &&
        (r.method == "NotFlushedPairs" || r.method == "NotFlushedSizeEst")).map
      fun r => (r.mode, r.unlock, r.outside, rowOk r)) =
    [(.shared, .deferred, [], true), (.shared, .deferred, [], true)] := by decide

end C28
