import LachesisVerif.Gen.FactsC14
/-!
# Structural expectations for C14 (regenerated facts `Gen.FactsC14`)

Split out of the family survey (`notes/facts-gossip-notes.md` lists what the selectors cannot express).
Each theorem states the expected value of Bool facts regenerated from the Go source by
`go/cmd/extract` (selectors `hascall:`, `topcall:`, `topassign:`, `before:`); a statement that is
dropped, guarded or reordered flips a fact and breaks the theorem.
-/
namespace FactsC14

/-- `EventsBuffer.PushEvent` — `Model.EventsBuffer.pushEvent`: the duplicate test (`Peek`) comes before
    `pushEvent` (otherwise `incompletes.Add` would replace the buffered copy, which would then never be
    released: clause (c)); the duplicate copy is released; the spill runs unconditionally and after the
    push (`spill … r.1.inc r.1` is applied to the state after `pushEv`), which is clause (d) "within the
    limits after every push". -/
theorem push_structure :
    Gen.FactsC14.pushDupCheckFirst = true ∧ Gen.FactsC14.pushDupReleased = true ∧
    Gen.FactsC14.pushSpillsAlways = true ∧ Gen.FactsC14.pushSpillsAfterPush = true := by decide

/-- `EventsBuffer.pushEvent` — `Model.EventsBuffer.pushEv`: `completeEventParents` precedes
    `processCompleteEvent` (clause (a): processed only after all parents are connected); past the two early
    returns the copy is released and removed from `incompletes` unconditionally, whatever `Check`/`Process`
    answered (`release st1 c`, `incRemove st3.inc e.id`: clause (c), and "a copy that is not released is
    still buffered" of `C14_safety`); an incomplete event is stored (`incAdd`; the liveness sentence). -/
theorem pushEv_structure :
    Gen.FactsC14.parentsBeforeProcess = true ∧ Gen.FactsC14.processedReleasedAlways = true ∧
    Gen.FactsC14.processedRemovedAlways = true ∧ Gen.FactsC14.incompleteStored = true := by decide

/-- `spillIncompletes`, `releaseEvent`, `Clear` — `Model.EventsBuffer.spill`, `release`, `clear`: the spilled
    entry is removed and then released; `releaseEvent` invokes `Released` and sets `released` unconditionally
    (the flag is what makes the second release and the stale-snapshot re-push no-ops: "exactly once", "never
    processed after released"); `Clear` spills everything (`C14_released_by_clear`). -/
theorem release_structure :
    Gen.FactsC14.spillRemovesBeforeRelease = true ∧ Gen.FactsC14.releaseMarksAlways = true ∧
    Gen.FactsC14.releaseCallsBack = true ∧ Gen.FactsC14.clearSpillsAll = true := by decide

end FactsC14
