import LachesisVerif.Model.Piecefunc
import LachesisVerif.Proofs.PiecefuncLinear
/-!
# C31 — Piecewise-linear functions interpolate within rounding

"For every valid dot list (at least two dots, strictly increasing X, coordinates within the
supported range), the function returns the first dot's Y before the first dot, the last dot's Y
after the last dot, and each dot's Y exactly at its X. Between two neighbouring dots the result
is at most the larger of their Ys, at least the smaller minus one, and within |ΔY|/10^6 + 2 of
the exact linear interpolation, with no overflow; invalid dot lists are rejected."

Constants, `Mul`, `Div`, every comparison of `NewFunc`/`Get` and the final sum are regenerated
from utils/piecefunc (`Gen.Piecefunc`, uint64 arithmetic modelled modulo 2^64).
Proved here: rejection of exactly the invalid lists, the three "exact" clauses, absence of
overflow (the uint64 result equals the formula over unbounded naturals), the upper/lower
bounds, and the "within |ΔY|/10^6 + 2 of the exact interpolation" clause (`near_linear`, stated
division-free: with `D = x1 - x0`, `a = x - x0` and the exact rational interpolation
`L = (y0·(D-a) + y1·a)/D`, `|Get·D·10^6 - L·D·10^6| ≤ (|y1-y0| + 2·10^6)·D`, written as two
inequalities over the naturals so that no subtraction can underflow; arithmetic core in
`Proofs.PiecefuncLinear`). Every clause of the property is proved about the model; the
correspondence stream compares every result of the real code with this model bit for bit.
-/
namespace C31
open Model.Piecefunc Gen.Piecefunc

theorem maxVal_eq : maxVal = 18446744073708 := by decide
theorem unit_eq : decimalUnit = 1000000 := rfl

/-- strictly increasing X (neighbouring dots) -/
def Incr : List Dot → Prop
  | a :: b :: r => a.x < b.x ∧ Incr (b :: r)
  | _ => True

def Bounded (dots : List Dot) : Prop := ∀ d ∈ dots, d.x ≤ maxVal ∧ d.y ≤ maxVal

/-- "valid dot list" of the property -/
structure Valid (dots : List Dot) : Prop where
  two : 2 ≤ dots.length
  incr : Incr dots
  bounded : Bounded dots

/-! ### `NewFunc` rejects exactly the invalid lists -/

theorem checkLoop_none_iff (i prev : Nat) (ds : List Dot) :
    checkLoop i prev ds = none ↔
      (match ds with | [] => True | d :: _ => (1 ≤ i → prev < d.x)) ∧ Incr ds ∧ Bounded ds := by
  induction ds generalizing i prev with
  | nil => simp [checkLoop, Incr, Bounded]
  | cons d ds ih =>
    simp only [checkLoop, nonMonotonic, tooLargeY, tooLargeX]
    by_cases h1 : (decide (i ≥ 1) && decide (d.x ≤ prev)) = true
    · simp only [h1, if_true]
      simp only [Bool.and_eq_true, decide_eq_true_eq] at h1
      constructor
      · intro h; cases h
      · rintro ⟨h, _, _⟩; have := h h1.1; omega
    · simp only [h1, Bool.false_eq_true, if_false]
      simp only [Bool.and_eq_true, decide_eq_true_eq, not_and, Nat.not_le] at h1
      by_cases h2 : d.y > maxVal
      · simp only [h2, decide_true, if_true]
        constructor
        · intro h; cases h
        · rintro ⟨_, _, hb⟩; have := (hb d List.mem_cons_self).2; omega
      · simp only [h2, decide_false, Bool.false_eq_true, if_false]
        by_cases h3 : d.x > maxVal
        · simp only [h3, decide_true, if_true]
          constructor
          · intro h; cases h
          · rintro ⟨_, _, hb⟩; have := (hb d List.mem_cons_self).1; omega
        · simp only [h3, decide_false, Bool.false_eq_true, if_false]
          rw [ih]
          constructor
          · rintro ⟨ha, hi, hb⟩
            refine ⟨h1, ?_, ?_⟩
            · cases ds with
              | nil => trivial
              | cons e es => exact ⟨ha (by omega), hi⟩
            · intro q hq
              rcases List.mem_cons.1 hq with rfl | hq
              · exact ⟨by omega, by omega⟩
              · exact hb q hq
          · rintro ⟨_, hi, hb⟩
            refine ⟨?_, ?_, fun q hq => hb q (List.mem_cons_of_mem _ hq)⟩
            · cases ds with
              | nil => trivial
              | cons e es => intro _; exact hi.1
            · cases ds with
              | nil => trivial
              | cons e es => exact hi.2

/-- invalid dot lists are rejected, valid ones accepted -/
theorem invalid_rejected (dots : List Dot) : newFunc dots = none ↔ Valid dots := by
  unfold newFunc tooFew
  by_cases h : dots.length < 2
  · simp only [h, decide_true, if_true]
    constructor
    · intro h; cases h
    · intro v; have := v.two; omega
  · simp only [h, decide_false, Bool.false_eq_true, if_false]
    rw [checkLoop_none_iff]
    constructor
    · rintro ⟨_, hi, hb⟩; exact ⟨by omega, hi, hb⟩
    · intro v
      refine ⟨?_, v.incr, v.bounded⟩
      cases dots with
      | nil => trivial
      | cons d ds => intro h0; omega

/-! ### index facts -/

theorem incr_adj (dots : List Dot) (h : Incr dots) (i : Nat) (hi : i + 1 < dots.length) :
    X dots i < X dots (i + 1) := by
  induction dots generalizing i with
  | nil => simp at hi
  | cons a r ih =>
    cases r with
    | nil => simp at hi
    | cons b r' =>
      cases i with
      | zero => simpa [X] using h.1
      | succ j =>
        have := ih h.2 j (by simpa using hi)
        simpa [X] using this

theorem incr_lt (dots : List Dot) (h : Incr dots) (i j : Nat) (hij : i < j) (hj : j < dots.length) :
    X dots i < X dots j := by
  induction j with
  | zero => omega
  | succ k ih =>
    have hk := incr_adj dots h k hj
    by_cases hik : i = k
    · subst hik; exact hk
    · have := ih (by omega) (by omega); omega

theorem bounded_idx (dots : List Dot) (h : Bounded dots) (i : Nat) (hi : i < dots.length) :
    X dots i ≤ maxVal ∧ Y dots i ≤ maxVal := by
  have hm : dots.getD i default ∈ dots := by
    rw [List.getD_eq_getElem?_getD, List.getElem?_eq_getElem hi]; simp
  exact h _ hm

/-! ### the piece search brackets x -/

theorem search_spec (dots : List Dot) (x : Nat) (k i : Nat) (hik : i + k = dots.length) (hn : 2 ≤ dots.length)
    (hprev : ∀ j, 1 ≤ j → j < i → j < dots.length - 1 → X dots j ≤ x) :
    search dots x k i + 2 ≤ dots.length ∧
    (1 ≤ search dots x k i → X dots (search dots x k i) ≤ x) ∧
    (search dots x k i + 2 < dots.length → x < X dots (search dots x k i + 1)) := by
  induction k generalizing i with
  | zero =>
    simp only [search]
    refine ⟨by omega, fun h => hprev _ h (by omega) (by omega), fun h => by omega⟩
  | succ k ih =>
    simp only [search, pieceFound]
    by_cases hf : ((decide (i ≥ 1) && decide (i < dots.length - 1)) && decide (X dots i > x)) = true
    · simp only [hf, if_true]
      simp only [Bool.and_eq_true, decide_eq_true_eq] at hf
      obtain ⟨⟨h1, h2⟩, h3⟩ := hf
      refine ⟨by omega, fun h => hprev _ h (by omega) (by omega), fun _ => ?_⟩
      have : i - 1 + 1 = i := by omega
      rw [this]; exact h3
    · simp only [hf, Bool.false_eq_true, if_false]
      apply ih (i + 1) (by omega)
      intro j hj1 hji hjn
      by_cases hje : j = i
      · subst hje
        simp only [Bool.and_eq_true, decide_eq_true_eq, not_and, Nat.not_lt] at hf
        exact hf ⟨hj1, hjn⟩
      · exact hprev j hj1 (by omega) hjn

/-! ### arithmetic of one piece -/

/-- The uint64 computation of `Get` on one piece never overflows: it equals the formula over
    unbounded naturals, with ratio `r ≤ 10^6`; the result is between min-1 and max, and exact at
    the two end points. -/
theorem interp_spec (x0 y0 x1 y1 x : Nat) (h0 : x0 ≤ x) (h1 : x ≤ x1) (hlt : x0 < x1)
    (hx1 : x1 ≤ maxVal) (hy0 : y0 ≤ maxVal) (hy1 : y1 ≤ maxVal) :
    ∃ r, r = (x - x0) * 1000000 / (x1 - x0) ∧ r ≤ 1000000 ∧
      (x - x0) * 1000000 < two64 ∧ y0 * (1000000 - r) < two64 ∧ y1 * r < two64 ∧
      y0 * (1000000 - r) / 1000000 + y1 * r / 1000000 < two64 ∧
      interp x0 y0 x1 y1 x = y0 * (1000000 - r) / 1000000 + y1 * r / 1000000 ∧
      interp x0 y0 x1 y1 x ≤ max y0 y1 ∧ min y0 y1 - 1 ≤ interp x0 y0 x1 y1 x ∧
      (x = x0 → interp x0 y0 x1 y1 x = y0) ∧ (x = x1 → interp x0 y0 x1 y1 x = y1) := by
  rw [maxVal_eq] at hx1 hy0 hy1
  have ha : x - x0 ≤ x1 - x0 := by omega
  have hD : 0 < x1 - x0 := by omega
  have hs1 : sub64 x x0 = x - x0 := by unfold sub64 two64; omega
  have hs2 : sub64 x1 x0 = x1 - x0 := by unfold sub64 two64; omega
  have haU : (x - x0) * 1000000 < two64 := by unfold two64; omega
  have hr : (x - x0) * 1000000 / (x1 - x0) ≤ 1000000 := by
    apply Nat.div_le_of_le_mul
    rw [Nat.mul_comm (x1 - x0)]
    exact Nat.mul_le_mul_left _ ha |> fun h => by rw [Nat.mul_comm 1000000 (x - x0)] at h; exact h
  generalize hrdef : (x - x0) * 1000000 / (x1 - x0) = r at hr
  have hdiv : div (sub64 x x0) (sub64 x1 x0) = r := by
    unfold div decimalUnit
    rw [hs1, hs2, Nat.mod_eq_of_lt (by simpa [two64] using haU), hrdef]
  have hs3 : sub64 1000000 r = 1000000 - r := by unfold sub64 two64; omega
  have hA : y0 * (1000000 - r) ≤ 18446744073708 * 1000000 := Nat.mul_le_mul hy0 (by omega)
  have hB : y1 * r ≤ 18446744073708 * 1000000 := Nat.mul_le_mul hy1 hr
  have hM0 : y0 * (1000000 - r) ≤ max y0 y1 * (1000000 - r) := Nat.mul_le_mul_right _ (by omega)
  have hM1 : y1 * r ≤ max y0 y1 * r := Nat.mul_le_mul_right _ (by omega)
  have hm0 : min y0 y1 * (1000000 - r) ≤ y0 * (1000000 - r) := Nat.mul_le_mul_right _ (by omega)
  have hm1 : min y0 y1 * r ≤ y1 * r := Nat.mul_le_mul_right _ (by omega)
  have hMs : max y0 y1 * (1000000 - r) + max y0 y1 * r = max y0 y1 * 1000000 := by
    rw [← Nat.mul_add]; congr 1; omega
  have hms : min y0 y1 * (1000000 - r) + min y0 y1 * r = min y0 y1 * 1000000 := by
    rw [← Nat.mul_add]; congr 1; omega
  have hval : interp x0 y0 x1 y1 x = y0 * (1000000 - r) / 1000000 + y1 * r / 1000000 := by
    unfold interp
    simp only [hdiv, unit_eq, hs3]
    unfold result mul decimalUnit
    rw [Nat.mod_eq_of_lt (a := y0 * (1000000 - r)) (by omega), Nat.mod_eq_of_lt (a := y1 * r) (by omega)]
    apply Nat.mod_eq_of_lt
    omega
  have e0 : x = x0 → r = 0 := by
    intro h; subst h; rw [← hrdef]; simp
  have e1 : x = x1 → r = 1000000 := by
    intro h; subst h; rw [← hrdef]
    rw [Nat.mul_comm]; exact Nat.mul_div_cancel _ hD
  refine ⟨r, rfl, hr, haU, by unfold two64; omega, by unfold two64; omega, by unfold two64; omega, hval, ?_, ?_, ?_, ?_⟩
  · rw [hval]
    generalize y0 * (1000000 - r) = A at *
    generalize y1 * r = B at *
    generalize max y0 y1 * (1000000 - r) = MA at *
    generalize max y0 y1 * r = MB at *
    omega
  · rw [hval]
    generalize y0 * (1000000 - r) = A at *
    generalize y1 * r = B at *
    generalize min y0 y1 * (1000000 - r) = MA at *
    generalize min y0 y1 * r = MB at *
    omega
  · intro h
    rw [hval, e0 h]
    simp
  · intro h
    rw [hval, e1 h]
    simp

/-! ### the property theorems -/

/-- before the first dot: the first dot's Y -/
theorem before_first (dots : List Dot) (x : Nat) (hx : x < X dots 0) : get dots x = Y dots 0 := by
  simp [Model.Piecefunc.get, beforeFirst, hx]

/-- after the last dot: the last dot's Y -/
theorem after_last (dots : List Dot) (v : Valid dots) (x : Nat) (hx : X dots (dots.length - 1) < x) :
    get dots x = Y dots (dots.length - 1) := by
  have h0 : X dots 0 < X dots (dots.length - 1) := incr_lt dots v.incr 0 _ (by have := v.two; omega) (by have := v.two; omega)
  have : ¬ x < X dots 0 := by omega
  simp [Model.Piecefunc.get, beforeFirst, afterLast, this, hx]

/-- between the first and the last dot `Get` interpolates on a piece that brackets `x` -/
theorem get_on_piece (dots : List Dot) (v : Valid dots) (x : Nat) (h0 : X dots 0 ≤ x) (h1 : x ≤ X dots (dots.length - 1)) :
    ∃ p, p + 1 < dots.length ∧ X dots p ≤ x ∧ x ≤ X dots (p + 1) ∧
      get dots x = interp (X dots p) (Y dots p) (X dots (p + 1)) (Y dots (p + 1)) x := by
  have hn := v.two
  obtain ⟨s1, s2, s3⟩ := search_spec dots x dots.length 0 (by omega) hn (fun j _ hj _ => by omega)
  refine ⟨findP0 dots x, by unfold findP0; omega, ?_, ?_, ?_⟩
  · unfold findP0
    by_cases hp : 1 ≤ search dots x dots.length 0
    · exact s2 hp
    · have : search dots x dots.length 0 = 0 := by omega
      rw [this]; exact h0
  · unfold findP0
    by_cases hp : search dots x dots.length 0 + 2 < dots.length
    · exact Nat.le_of_lt (s3 hp)
    · have : search dots x dots.length 0 + 1 = dots.length - 1 := by omega
      rw [this]; exact h1
  · have a : ¬ x < X dots 0 := by omega
    have b : ¬ x > X dots (dots.length - 1) := by omega
    simp [Model.Piecefunc.get, beforeFirst, afterLast, a, b]

/-- between two neighbouring dots: at most the larger Y, at least the smaller minus one, and the
    uint64 computation does not overflow (it equals the formula over unbounded naturals) -/
theorem between_bounds (dots : List Dot) (v : Valid dots) (x : Nat) (h0 : X dots 0 ≤ x) (h1 : x ≤ X dots (dots.length - 1)) :
    ∃ p r, p + 1 < dots.length ∧ X dots p ≤ x ∧ x ≤ X dots (p + 1) ∧
      r = (x - X dots p) * 1000000 / (X dots (p + 1) - X dots p) ∧ r ≤ 1000000 ∧
      (x - X dots p) * 1000000 < two64 ∧ Y dots p * (1000000 - r) < two64 ∧ Y dots (p + 1) * r < two64 ∧
      get dots x = Y dots p * (1000000 - r) / 1000000 + Y dots (p + 1) * r / 1000000 ∧
      get dots x < two64 ∧
      get dots x ≤ max (Y dots p) (Y dots (p + 1)) ∧ min (Y dots p) (Y dots (p + 1)) - 1 ≤ get dots x := by
  obtain ⟨p, hp, hl, hr, hg⟩ := get_on_piece dots v x h0 h1
  have hb0 := bounded_idx dots v.bounded p (by omega)
  have hb1 := bounded_idx dots v.bounded (p + 1) hp
  obtain ⟨r, e, hr1, o1, o2, o3, o4, hv, hu, hlo, _, _⟩ :=
    interp_spec (X dots p) (Y dots p) (X dots (p + 1)) (Y dots (p + 1)) x hl hr (incr_adj dots v.incr p hp) hb1.1 hb0.2 hb1.2
  exact ⟨p, r, hp, hl, hr, e, hr1, o1, o2, o3, by rw [hg, hv], by rw [hg, hv]; exact o4, by rw [hg]; exact hu, by rw [hg]; exact hlo⟩

/-- between two neighbouring dots the result is within `|ΔY|/10^6 + 2` of the exact linear
    interpolation `L = (y0·(D-a) + y1·a)/D` (`D = x1 - x0 > 0`, `a = x - x0`), on the same piece `p`
    and with the same ratio `r` as in `between_bounds`. Division-free, multiplied by `D·10^6`:
    `|get·D·10^6 - (y0·(D-a) + y1·a)·10^6| ≤ (|y1-y0| + 2·10^6)·D`, as two inequalities over `Nat`
    (`|y1-y0| = max y0 y1 - min y0 y1`, which cannot underflow). -/
theorem near_linear (dots : List Dot) (v : Valid dots) (x : Nat) (h0 : X dots 0 ≤ x) (h1 : x ≤ X dots (dots.length - 1)) :
    ∃ p r, p + 1 < dots.length ∧ X dots p ≤ x ∧ x ≤ X dots (p + 1) ∧ X dots p < X dots (p + 1) ∧
      r = (x - X dots p) * 1000000 / (X dots (p + 1) - X dots p) ∧
      get dots x = Y dots p * (1000000 - r) / 1000000 + Y dots (p + 1) * r / 1000000 ∧
      get dots x * (X dots (p + 1) - X dots p) * 1000000 ≤
        (Y dots p * ((X dots (p + 1) - X dots p) - (x - X dots p)) + Y dots (p + 1) * (x - X dots p)) * 1000000 +
          ((max (Y dots p) (Y dots (p + 1)) - min (Y dots p) (Y dots (p + 1))) + 2 * 1000000) * (X dots (p + 1) - X dots p) ∧
      (Y dots p * ((X dots (p + 1) - X dots p) - (x - X dots p)) + Y dots (p + 1) * (x - X dots p)) * 1000000 ≤
        get dots x * (X dots (p + 1) - X dots p) * 1000000 +
          ((max (Y dots p) (Y dots (p + 1)) - min (Y dots p) (Y dots (p + 1))) + 2 * 1000000) * (X dots (p + 1) - X dots p) := by
  obtain ⟨p, r, hp, hl, hr, e, hr1, _, _, _, hg, _, _, _⟩ := between_bounds dots v x h0 h1
  have hlt := incr_adj dots v.incr p hp
  have hc := Proofs.PiecefuncLinear.near_linear_nat (Y dots p) (Y dots (p + 1)) (x - X dots p)
    (X dots (p + 1) - X dots p) r (get dots x) 1000000 (by decide) (by omega) (by omega) e hr1 hg
  exact ⟨p, r, hp, hl, hr, hlt, e, hg, hc.1, hc.2⟩

theorem natAbs_sub_le (G L B : Nat) (i1 : G ≤ L + B) (i2 : L ≤ G + B) : ((G : Int) - (L : Int)).natAbs ≤ B := by
  omega

/-- the same over the integers: `|get·D·U - L·D·U| ≤ (|y1 - y0| + 2U)·D` with `U = 10^6` -/
theorem near_linear_int (dots : List Dot) (v : Valid dots) (x : Nat) (h0 : X dots 0 ≤ x) (h1 : x ≤ X dots (dots.length - 1)) :
    ∃ p, p + 1 < dots.length ∧ X dots p ≤ x ∧ x ≤ X dots (p + 1) ∧ X dots p < X dots (p + 1) ∧
      ((get dots x * (X dots (p + 1) - X dots p) * 1000000 : Nat) -
        ((Y dots p * (X dots (p + 1) - x) + Y dots (p + 1) * (x - X dots p)) * 1000000 : Nat) : Int).natAbs ≤
        (((Y dots (p + 1) : Int) - Y dots p).natAbs + 2 * 1000000) * (X dots (p + 1) - X dots p) := by
  obtain ⟨p, r, hp, hl, hr, hlt, _, _, i1, i2⟩ := near_linear dots v x h0 h1
  refine ⟨p, hp, hl, hr, hlt, ?_⟩
  have e1 : (X dots (p + 1) - X dots p) - (x - X dots p) = X dots (p + 1) - x := by omega
  rw [e1] at i1 i2
  have e2 : ((Y dots (p + 1) : Int) - Y dots p).natAbs = max (Y dots p) (Y dots (p + 1)) - min (Y dots p) (Y dots (p + 1)) := by omega
  rw [e2]
  exact natAbs_sub_le _ _ _ i1 i2

/-- each dot's Y exactly at its X -/
theorem exact_at_dots (dots : List Dot) (v : Valid dots) (i : Nat) (hi : i < dots.length) :
    get dots (X dots i) = Y dots i := by
  have hn := v.two
  have h0 : X dots 0 ≤ X dots i := by
    by_cases h : i = 0
    · subst h; exact Nat.le_refl _
    · exact Nat.le_of_lt (incr_lt dots v.incr 0 i (by omega) hi)
  have h1 : X dots i ≤ X dots (dots.length - 1) := by
    by_cases h : i = dots.length - 1
    · rw [← h]; exact Nat.le_refl _
    · exact Nat.le_of_lt (incr_lt dots v.incr i _ (by omega) (by omega))
  obtain ⟨p, hp, hl, hr, hg⟩ := get_on_piece dots v (X dots i) h0 h1
  have hb0 := bounded_idx dots v.bounded p (by omega)
  have hb1 := bounded_idx dots v.bounded (p + 1) hp
  obtain ⟨r, _, _, _, _, _, _, _, _, _, ex0, ex1⟩ :=
    interp_spec (X dots p) (Y dots p) (X dots (p + 1)) (Y dots (p + 1)) (X dots i) hl hr (incr_adj dots v.incr p hp) hb1.1 hb0.2 hb1.2
  have hpi : p ≤ i := by
    by_cases h : p ≤ i
    · exact h
    · have := incr_lt dots v.incr i p (by omega) (by omega); omega
  have hip : i ≤ p + 1 := by
    by_cases h : i ≤ p + 1
    · exact h
    · have := incr_lt dots v.incr (p + 1) i (by omega) hi; omega
  rw [hg]
  by_cases h : i = p
  · subst h; exact ex0 rfl
  · have : i = p + 1 := by omega
    subst this; exact ex1 rfl

/-! ### non-vacuity -/
example : newFunc [⟨0, 10⟩, ⟨10, 1000000⟩, ⟨100, 5⟩] = none := by decide
example : get [⟨0, 10⟩, ⟨10, 1000000⟩, ⟨100, 5⟩] 5 = 500005 := by decide
example : newFunc [⟨0, 10⟩, ⟨0, 11⟩] = some "non monotonic X" := by decide
/-- the slack is really used: the exact interpolation at x = 1 is 1.999998, `Get` gives 0 -/
example : get [⟨0, 1⟩, ⟨1000000, 999999⟩] 1 = 0 := by decide

end C31
