import LachesisVerif.Spec.Lachesis
import LachesisVerif.Proofs.OrdererSeal
/-!
# C09 — Epoch sealing switches cleanly to the new validator set

"When the application's end-of-block callback returns a validator set, the instance moves to the
next epoch number with exactly that set and no decided frames, emits no further block of the old
epoch, and numbers the new epoch's blocks from frame 1. An instance reset directly to that epoch
and validator set emits the same blocks for the new epoch's events as the instance that sealed it."

Two levels.

**Implementation level** (`Model.Orderer`, the statement-by-statement model of `abft.Orderer` that the
`cons` stream runs in lock-step against the real Go code; second half of this file, all
unconditional — no assumption on the oracles `observe` / `sealAt` / `idKey`):
* `C09_seal_state`: if the application returns `nv` for block `(s.epoch, frame)` then the state after
  `onFrameDecided` is *exactly* `Model.Orderer.initial (sealedEpoch s.epoch) nv`, the state `Reset`
  produces; `C09_initial_fields` spells it out (epoch `+1` — as `idx.Epoch`, i.e. for epochs
  `< 2^32-1` —, exactly that set, `LastDecidedFrame = 0`, frame to decide `1`, no roots, no votes, no
  decisions); `C09_reset_equiv`: hence every continuation (`process`, `build`, `bootstrap`) of the
  sealed instance equals that of a directly reset one.
* `C09_no_block_after_seal` (for `process`), `C09_handleElection_seal`, `C09_bootstrapElection_seal`,
  `C09_bootstrap_seal`: in the list of decided frames returned by one call only the LAST entry can be
  sealed; every entry belongs to the epoch the call started in; if the last entry is sealed the
  returned state is the fresh state of `C09_seal_state` (so no further block of the old epoch is
  emitted in that call, and the next decided frame is frame 1 of the new epoch); if none is sealed
  epoch and validators are unchanged. By induction over the fuel of `handleElection` /
  `bootstrapElection` (the `sealed → break` paths).
* `C09_frames_consecutive`: the decided frames of one call are consecutive, starting at the frame
  the election was deciding (`out[i].frame = frameToDecide + i`; stated with the regenerated
  `frame + 1` kernel without, and as `+ i` with the bound `< 2^32`).
* non-vacuity: a one-validator run whose 4th event seals epoch 1 at frame 2, and a restart that
  decides frame 1 and seals at frame 2 in one call (`decide`).

**Reference level** (`Spec.Lachesis`, first half): the same statement for the independent reference
implementation, which the `cons` correspondence stream compares with the real `IndexedLachesis` on
every generated multi-epoch scenario (seals at arbitrary frames, mutated and unchanged validator
sets, `Reset`).

Covered by correspondence only: that `sealEpoch` really empties the epoch DB / vector tables of the
real store (the model's `roots := []`), and the event-level half of "emits the same blocks" (the
confirmed-events table; block contents are C02).
-/
namespace C09
open Spec.Lachesis

/-- every block emitted by one decision loop except possibly the last one is unsealed, and the
    state after a sealed block is the fresh state of the next epoch with exactly the requested set -/
theorem decideLoop_seal (seals : Seals) (fuel : Nat) (s : Inst) (out : List Inst.Block)
    (hout : ∀ b ∈ out, b.sealed = false) :
    (∀ b ∈ (decideLoop seals fuel s out).2.dropLast, b.sealed = false) ∧
    (∀ b, (decideLoop seals fuel s out).2.getLast? = some b → b.sealed = true →
        ∃ nv, seals.lookup (b.epoch, b.frame) = some nv ∧
          (decideLoop seals fuel s out).1 = Inst.fresh (b.epoch + 1) nv) := by
  induction fuel generalizing s out with
  | zero =>
    simp only [decideLoop]
    refine ⟨fun b hb => hout b (List.dropLast_subset _ hb), fun b hb hs => ?_⟩
    have : b ∈ out := List.mem_of_getLast? hb
    rw [hout b this] at hs; cases hs
  | succ k ih =>
    simp only [decideLoop]
    split
    · refine ⟨fun b hb => hout b (List.dropLast_subset _ hb), fun b hb hs => ?_⟩
      have : b ∈ out := List.mem_of_getLast? hb
      rw [hout b this] at hs; cases hs
    · refine ⟨fun b hb => hout b (List.dropLast_subset _ hb), fun b hb hs => ?_⟩
      have : b ∈ out := List.mem_of_getLast? hb
      rw [hout b this] at hs; cases hs
    · rename_i a _
      split
      · rename_i nv hnv
        refine ⟨?_, ?_⟩
        · intro b hb
          rw [List.dropLast_concat] at hb
          exact hout b hb
        · intro b hb _
          rw [List.getLast?_concat] at hb
          cases hb
          exact ⟨nv, hnv, rfl⟩
      · apply ih
        intro b hb
        rcases List.mem_append.1 hb with h | h
        · exact hout b h
        · simp at h; rw [h]

/-- the fresh state of an epoch: that epoch number, the canonical form of exactly the given set,
    no decided frames, no events, no roots -/
theorem fresh_state (epoch : Nat) (pairs : List (Nat × Nat)) :
    (Inst.fresh epoch pairs).epoch = epoch ∧ (Inst.fresh epoch pairs).vals = canonVals pairs ∧
    (Inst.fresh epoch pairs).ldf = 0 ∧ (Inst.fresh epoch pairs).size = 0 ∧
    (∀ f, (Inst.fresh epoch pairs).rootsAt f = []) := by
  refine ⟨rfl, rfl, rfl, rfl, fun f => ?_⟩
  simp [Inst.rootsAt, Inst.fresh, Inst.size]

/-- C09: a `process` call that emits a sealed block ends with that block, leaves the instance in the
    fresh state of the next epoch with the requested validator set — which is literally the state a
    direct reset to that epoch and set produces, so every continuation behaves identically. -/
theorem C09_seal_switches_cleanly (seals : Seals) (s : Inst) (e : Ev) (bs : List Inst.Block) (s' : Inst)
    (h : process seals s e = (s', .ok bs)) :
    (∀ b ∈ bs.dropLast, b.sealed = false) ∧
    (∀ b, bs.getLast? = some b → b.sealed = true →
       ∃ nv, seals.lookup (b.epoch, b.frame) = some nv ∧ s' = Inst.fresh (b.epoch + 1) nv) := by
  unfold process at h
  split at h
  · cases h
  · split at h
    · cases h
    · rename_i s1 _
      split at h
      · cases h
      · have := decideLoop_seal seals (s1.size + 2) s1 [] (by simp)
        simp only at h
        have e1 : (decideLoop seals (s1.size + 2) s1 []).1 = s' := by
          have := congrArg Prod.fst h; simpa using this
        have e2 : (decideLoop seals (s1.size + 2) s1 []).2 = bs := by
          have := congrArg Prod.snd h
          simp at this; exact this
        rw [e1, e2] at this
        exact this

/-! ## Implementation level: `Model.Orderer` -/
section Impl
open Model.Pos Model.Election Model.Orderer OrdererSeal

/-- C09 (1): a seal leaves literally the state `Reset` produces for the next epoch and the returned
    validator set, and reports the block as sealed in the old epoch. -/
theorem C09_seal_state (env : Env) (s : OState) (frame atropos : Nat) (nv : Vals)
    (h : env.sealAt s.epoch frame = some nv) :
    (onFrameDecided env s frame atropos).1 = initial (Gen.Orderer.sealedEpoch s.epoch) nv ∧
    (onFrameDecided env s frame atropos).2 = ⟨s.epoch, frame, atropos, true⟩ := by
  rcases onFrameDecided_cases env s frame atropos with ⟨nv', hs, he⟩ | ⟨hs, _⟩
  · rw [h] at hs; cases hs; rw [he]; exact ⟨rfl, rfl⟩
  · rw [h] at hs; cases hs

/-- what the fresh state is: next epoch number, exactly the given set, nothing decided, frame 1 to
    decide, no roots, a fresh election -/
theorem C09_initial_fields (epoch : Nat) (nv : Vals) :
    (initial epoch nv).epoch = epoch ∧ (initial epoch nv).vals = nv ∧ (initial epoch nv).ldf = 0 ∧
    (initial epoch nv).el.frameToDecide = 1 ∧ (initial epoch nv).el.vals = nv ∧
    (initial epoch nv).roots = [] ∧ (initial epoch nv).el.votes = [] ∧ (initial epoch nv).el.decidedRoots = [] :=
  ⟨rfl, rfl, (by show Gen.Orderer.sealedLastDecided = 0; decide),
   (by show Gen.Orderer.sealedFrameToDecide = 1; decide), rfl, rfl, rfl, rfl⟩

theorem C09_sealedEpoch (epoch : Nat) (h : epoch + 1 < 4294967296) : Gen.Orderer.sealedEpoch epoch = epoch + 1 :=
  Nat.mod_eq_of_lt h

/-- C09 (reset equivalence): after a seal the instance is indistinguishable from one reset directly to
    that epoch and set — every later `process`, `build` and restart gives the same answers. -/
theorem C09_reset_equiv (env : Env) (s : OState) (frame atropos : Nat) (nv : Vals)
    (h : env.sealAt s.epoch frame = some nv) :
    let sealed := (onFrameDecided env s frame atropos).1
    let fresh := initial (Gen.Orderer.sealedEpoch s.epoch) nv
    (∀ id creator spf claimed, process env sealed id creator spf claimed = process env fresh id creator spf claimed) ∧
    (∀ id spf, build env sealed id spf = build env fresh id spf) ∧
    bootstrap env sealed = bootstrap env fresh := by
  intro sealed fresh
  have : sealed = fresh := (C09_seal_state env s frame atropos nv h).1
  rw [this]
  exact ⟨fun _ _ _ _ => rfl, fun _ _ => rfl, rfl⟩

/-- C09 (2) for `Process`: only the last decided frame of a call can be sealed, all of them belong to
    the epoch the call started in, a sealed last one leaves the fresh next-epoch state, and without a
    seal epoch and validators are unchanged. -/
theorem C09_no_block_after_seal (env : Env) (s : OState) (id creator spf claimed : Nat) (s' : OState)
    (out : List Decided) (h : process env s id creator spf claimed = (s', .ok out)) :
    (∀ d ∈ out, d.epoch = s.epoch) ∧
    (∀ d ∈ out.dropLast, d.sealed = false) ∧
    (∀ d, out.getLast? = some d → d.sealed = true →
      ∃ nv, env.sealAt s.epoch d.frame = some nv ∧ s' = initial (Gen.Orderer.sealedEpoch s.epoch) nv) ∧
    ((∀ d ∈ out, d.sealed = false) → s'.epoch = s.epoch ∧ s'.vals = s.vals) := by
  have := process_spec env s id creator spf claimed s' out h
  exact ⟨this.old_epoch, this.only_last_sealed, this.sealed_state,
    fun hu => ⟨(this.unsealed_state hu).1, (this.unsealed_state hu).2.1⟩⟩

/-- the same for the loop of `handleElection` alone, started with no decided frame -/
theorem C09_handleElection_seal (env : Env) (id creator frame fuel f : Nat) (s s' : OState)
    (out : List Decided) (h : handleElection env id creator frame fuel f s [] = .ok (s', out)) :
    CallSpec env s s.el.frameToDecide out s' :=
  callSpec_of env s _ out s'
    (handleElection_spec env id creator frame fuel f s [] s' out
      ⟨fun d hd => (by cases hd), rfl, rfl, rfl, rfl⟩ h)

/-- the same for `bootstrapElection`; its third result says whether the last entry sealed -/
theorem C09_bootstrapElection_seal (env : Env) (fuel : Nat) (s s' : OState) (out : List Decided) (flag : Bool)
    (h : bootstrapElection env fuel s [] = .ok (s', out, flag)) :
    CallSpec env s s.el.frameToDecide out s' ∧ (flag = true → ∃ d, out.getLast? = some d ∧ d.sealed = true) := by
  have hb := bootstrapElection_spec env fuel s [] s' out flag
    (E := s.epoch) (V := s.vals) (F := s.el.frameToDecide) ⟨fun d hd => (by cases hd), rfl, rfl, rfl, rfl⟩ h
  rcases hb with ⟨hf, hb⟩ | ⟨hf, hb⟩
  · exact ⟨callSpec_of env s _ out s' (Or.inl hb), fun hc => by rw [hf] at hc; cases hc⟩
  · refine ⟨callSpec_of env s _ out s' (Or.inr hb), fun _ => ?_⟩
    obtain ⟨out1, d, nv, rfl, _, hds, _⟩ := hb.ex
    exact ⟨d, List.getLast?_concat .., hds⟩

/-- the same for a restart (`Bootstrap`) -/
theorem C09_bootstrap_seal (env : Env) (s s' : OState) (out : List Decided) (flag : Bool)
    (h : bootstrap env s = .ok (s', out, flag)) :
    CallSpec env s (Gen.Orderer.bootstrapFrameToDecide s.ldf) out s' ∧
    (flag = true ↔ ∃ d, out.getLast? = some d ∧ d.sealed = true) :=
  bootstrap_spec env s s' out flag h

/-- C09 (3): the frames decided by one `Process` call are consecutive, starting at the frame the
    election was deciding. First form: with the regenerated `frame + 1` kernel; second: as numbers. -/
theorem C09_frames_consecutive (env : Env) (s : OState) (id creator spf claimed : Nat) (s' : OState)
    (out : List Decided) (h : process env s id creator spf claimed = (s', .ok out)) :
    (∀ (h0 : 0 < out.length), out[0].frame = s.el.frameToDecide) ∧
    (∀ i (hi : i + 1 < out.length), out[i + 1].frame = Gen.Orderer.nextFrameToDecide out[i].frame) ∧
    (s.el.frameToDecide + out.length < 4294967296 →
      ∀ i (hi : i < out.length), out[i].frame = s.el.frameToDecide + i) := by
  have sp := process_spec env s id creator spf claimed s' out h
  refine ⟨fun h0 => sp.frame_at 0 h0, fun i hi => ?_, fun hb i hi => ?_⟩
  · rw [sp.frame_at (i + 1) hi, sp.frame_at i (by omega)]; rfl
  · rw [sp.frame_at i hi]; exact frameAfter_eq _ _ (by omega)

/-- … and after an unsealed call the election waits for the frame after the last decided one -/
theorem C09_next_frame (env : Env) (s : OState) (id creator spf claimed : Nat) (s' : OState)
    (out : List Decided) (h : process env s id creator spf claimed = (s', .ok out))
    (hu : ∀ d ∈ out, d.sealed = false) (hb : s.el.frameToDecide + out.length < 4294967296) :
    s'.el.frameToDecide = s.el.frameToDecide + out.length := by
  have sp := process_spec env s id creator spf claimed s' out h
  rw [(sp.unsealed_state hu).2.2]; exact frameAfter_eq _ _ hb

end Impl

/-! ### non-vacuity -/
namespace Example
open Model.Pos Model.Election Model.Orderer

def vals1 : Vals := { sorted := [(0, 1)], total := 1 }
def vals2 : Vals := { sorted := [(0, 1), (1, 1)], total := 2 }
/-- one validator, a chain of events `0 ← 1 ← 2 ← 3` (frames 1..4); the application seals epoch 1 at
    frame 2 with a two-validator set -/
def env : Env :=
  { observe := fun a b => decide (b ≤ a), idKey := id
    sealAt := fun e f => if e = 1 ∧ f = 2 then some vals2 else none }
def st1 := (process env (initial 1 vals1) 0 0 0 1).1
def st2 := (process env st1 1 0 1 2).1
def st3 := (process env st2 2 0 2 3).1

/-- the third event decides frame 1 (no seal), the fourth decides frame 2 and seals -/
example : (match (process env st2 2 0 2 3).2 with
    | .ok out => decide (out = [⟨1, 1, 0, false⟩]) | _ => false) = true := by decide
example : (match (process env st3 3 0 3 4).2 with
    | .ok out => decide (out = [⟨1, 2, 1, true⟩]) | _ => false) = true := by decide
example : ((process env st3 3 0 3 4).1.epoch, (process env st3 3 0 3 4).1.vals.sorted,
    (process env st3 3 0 3 4).1.ldf, (process env st3 3 0 3 4).1.el.frameToDecide,
    (process env st3 3 0 3 4).1.roots) = (2, [(0, 1), (1, 1)], 0, 1, []) := by decide

/-- a restart with four known roots and nothing decided: one call decides frame 1 and then seals at
    frame 2 — two entries, only the last sealed -/
def stR : OState := { initial 1 vals1 with roots := [⟨0, 1, 0⟩, ⟨1, 2, 0⟩, ⟨2, 3, 0⟩, ⟨3, 4, 0⟩] }
example : (match bootstrap env stR with
    | .ok (_, out, flag) => decide (out = [⟨1, 1, 0, false⟩, ⟨1, 2, 1, true⟩]) && flag | _ => false) = true := by
  decide
end Example

end C09
