import LachesisVerif.Spec.Lachesis
/-!
# C09 — Epoch sealing switches cleanly to the new validator set

"When the application's end-of-block callback returns a validator set, the instance moves to the
next epoch number with exactly that set and no decided frames, emits no further block of the old
epoch, and numbers the new epoch's blocks from frame 1. An instance reset directly to that epoch
and validator set emits the same blocks for the new epoch's events as the instance that sealed it."

Theorems about the reference implementation (`Spec.Lachesis`), which the `cons` correspondence
stream compares with the real `IndexedLachesis` on every generated multi-epoch scenario (seals at
arbitrary frames, mutated and unchanged validator sets, `Reset`).
-/
namespace C09
open Spec.Lachesis

/-- every block emitted by one decision loop except possibly the last one is unsealed, and the
    state after a sealed block is the fresh state of the next epoch with exactly the requested set -/
theorem decideLoop_seal (seals : Seals) (fuel : Nat) (s : Inst) (out : List Inst.Block)
    (hout : ∀ b ∈ out, b.sealed = false) :
    (∀ b ∈ (decideLoop seals fuel s out).2.dropLast, b.sealed = false) ∧
    (∀ b, (decideLoop seals fuel s out).2.getLast? = some b → b.sealed = true →
        ∃ nv, seals.lookup (b.epoch, b.frame) = some nv ∧
          (decideLoop seals fuel s out).1 = Inst.fresh (b.epoch + 1) nv) := by
  induction fuel generalizing s out with
  | zero =>
    simp only [decideLoop]
    refine ⟨fun b hb => hout b (List.dropLast_subset _ hb), fun b hb hs => ?_⟩
    have : b ∈ out := List.mem_of_getLast? hb
    rw [hout b this] at hs; cases hs
  | succ k ih =>
    simp only [decideLoop]
    split
    · refine ⟨fun b hb => hout b (List.dropLast_subset _ hb), fun b hb hs => ?_⟩
      have : b ∈ out := List.mem_of_getLast? hb
      rw [hout b this] at hs; cases hs
    · refine ⟨fun b hb => hout b (List.dropLast_subset _ hb), fun b hb hs => ?_⟩
      have : b ∈ out := List.mem_of_getLast? hb
      rw [hout b this] at hs; cases hs
    · rename_i a _
      split
      · rename_i nv hnv
        refine ⟨?_, ?_⟩
        · intro b hb
          rw [List.dropLast_concat] at hb
          exact hout b hb
        · intro b hb _
          rw [List.getLast?_concat] at hb
          cases hb
          exact ⟨nv, hnv, rfl⟩
      · apply ih
        intro b hb
        rcases List.mem_append.1 hb with h | h
        · exact hout b h
        · simp at h; rw [h]

/-- the fresh state of an epoch: that epoch number, the canonical form of exactly the given set,
    no decided frames, no events, no roots -/
theorem fresh_state (epoch : Nat) (pairs : List (Nat × Nat)) :
    (Inst.fresh epoch pairs).epoch = epoch ∧ (Inst.fresh epoch pairs).vals = canonVals pairs ∧
    (Inst.fresh epoch pairs).ldf = 0 ∧ (Inst.fresh epoch pairs).size = 0 ∧
    (∀ f, (Inst.fresh epoch pairs).rootsAt f = []) := by
  refine ⟨rfl, rfl, rfl, rfl, fun f => ?_⟩
  simp [Inst.rootsAt, Inst.fresh, Inst.size]

/-- C09: a `process` call that emits a sealed block ends with that block, leaves the instance in the
    fresh state of the next epoch with the requested validator set — which is literally the state a
    direct reset to that epoch and set produces, so every continuation behaves identically. -/
theorem C09_seal_switches_cleanly (seals : Seals) (s : Inst) (e : Ev) (bs : List Inst.Block) (s' : Inst)
    (h : process seals s e = (s', .ok bs)) :
    (∀ b ∈ bs.dropLast, b.sealed = false) ∧
    (∀ b, bs.getLast? = some b → b.sealed = true →
       ∃ nv, seals.lookup (b.epoch, b.frame) = some nv ∧ s' = Inst.fresh (b.epoch + 1) nv) := by
  unfold process at h
  split at h
  · cases h
  · split at h
    · cases h
    · rename_i s1 _
      split at h
      · cases h
      · have := decideLoop_seal seals (s1.size + 2) s1 [] (by simp)
        simp only at h
        have e1 : (decideLoop seals (s1.size + 2) s1 []).1 = s' := by
          have := congrArg Prod.fst h; simpa using this
        have e2 : (decideLoop seals (s1.size + 2) s1 []).2 = bs := by
          have := congrArg Prod.snd h
          simp at this; exact this
        rw [e1, e2] at this
        exact this

end C09
