import LachesisVerif.Proofs.KVFlushOps
/-!
# C22 — Flushable store is the underlying store overlaid with unflushed writes

"A flushable store reads, checks existence and iterates (for every prefix and start key, in
ascending key order) as its underlying store overlaid with the writes made since the last flush or
drop. Flushing makes the underlying store equal to that view and empties the overlay, dropping
unflushed writes restores the underlying view, the reported number of unflushed keys equals the
number of distinct keys written since then, and snapshots are unaffected by later writes, flushes
and drops."

Model: `Model.Flushable` (tree `modified` = sorted association list with tombstones; the merged
iterator transliterated, its comparison conditions regenerated from the source as `Gen.Kv.*`).
Spec: `Spec.KV`. The iterator theorem is for iterators drained without intervening writes (DESIGN
§2.6); the underlying store's own iterator is assumed to obey `iterSpec` (the contract every
backend is tied to by the `kv` streams).

Not covered (neither by a theorem nor by the stream): an iterator that is kept open while the store
is written, flushed or dropped. The code is only weakly consistent there (the iterator walks the live
tree); the statement DESIGN §5 names `…_stale_iter_partial` ("keys strictly ascending, each pair was
in the view at some moment between creation and the call") is not modelled.
-/
namespace C22
open Bytes Spec Spec.KV Model.Flushable

/-- the view is the underlying store with every tree node applied in key order -/
theorem view_eq_overlayApply (st : St) : view st = overlayApply st.under st.overlay := rfl

/-- the view is characterised pointwise: the tree decides where it has a node (a tombstone hides
    the key), the underlying store elsewhere -/
theorem view_get {st : St} (ho : Overlay.Sorted st.overlay) (k : Bytes) :
    KV.get (view st) k = match Overlay.lookup st.overlay k with
      | some e => e
      | none => KV.get st.under k := get_overlayApply ho _ _

/-- `Get` reads the view -/
theorem get_eq_view {st : St} (ho : Overlay.Sorted st.overlay) (k : Bytes) : get st k = KV.get (view st) k :=
  get_eq_view_get ho k

/-- `Has` reads the view (an empty value is present) -/
theorem has_eq_view {st : St} (ho : Overlay.Sorted st.overlay) (k : Bytes) : has st k = KV.has (view st) k :=
  has_eq_view_has ho k

/-- **THE MAIN ONE.** Draining a fresh iterator yields exactly `iterSpec (view st) prefix start`
    (ascending, prefix-filtered, from `prefix ++ start`) for all sorted underlying stores, all
    trees with tombstones, all prefixes (nil or not) and all start keys. Proof: induction on the two
    cursors of the transliterated `Next` with the invariant "every tree key is above `prevKey`,
    every parent key is at or above it" (`Proofs/KVIter.lean`), then extensionality on lookups. -/
theorem iter_drain_eq_spec {st : St} (hu : KV.Sorted st.under) (ho : Overlay.Sorted st.overlay)
    (pfx : Option Bytes) (start : Bytes) :
    iterate st pfx start = iterSpec (view st) (pfx.getD []) start :=
  iterateOver_iterSpec hu ho pfx start

/-- the same over any parent iterator that obeys the contract (used by the composition theorem of C23) -/
theorem iter_drain_over_contract {under : KV} {ov : Overlay} (hu : KV.Sorted under) (ho : Overlay.Sorted ov)
    (pfx : Option Bytes) (start : Bytes) (parentItems : KV)
    (hc : parentItems = iterSpec under (pfx.getD []) start) :
    iterateOver parentItems ov pfx start = iterSpec (overlayApply under ov) (pfx.getD []) start := by
  subst hc; exact iterateOver_iterSpec hu ho pfx start

/-- the drained pairs come in strictly ascending key order -/
theorem iter_ascending {st : St} (hu : KV.Sorted st.under) (ho : Overlay.Sorted st.overlay)
    (pfx : Option Bytes) (start : Bytes) : KV.Sorted (iterate st pfx start) := by
  rw [iter_drain_eq_spec hu ho]
  exact sorted_iterSpec (sorted_overlayApply hu _) _ _

/-- the Go loop `for it.treeOk || it.parentOk` terminates where the model's `nextNoParent` stops -/
theorem next_loop_exits (pfx : Option Bytes) (tree : Overlay) (prev : Option Bytes)
    (h : (treeLoop pfx none tree prev).2.2 = none) :
    Gen.Kv.outerLoop (!(treeLoop pfx none tree prev).1.isEmpty) false = false := by
  rw [treeLoop_noParent_exhausts pfx tree prev h]; rfl

/-- `Put` / `Delete` act on the view as insert / erase -/
theorem put_spec {st : St} (hu : KV.Sorted st.under) (ho : Overlay.Sorted st.overlay) (k v : Bytes) :
    view (put st k v) = (view st).insert k v ∧ (put st k v).under = st.under :=
  ⟨view_put_some hu ho k v, rfl⟩

theorem delete_spec {st : St} (hu : KV.Sorted st.under) (ho : Overlay.Sorted st.overlay) (k : Bytes) :
    view (delete st k) = (view st).erase k ∧ (delete st k).under = st.under :=
  ⟨view_put_none hu ho k, rfl⟩

/-- flushing makes the underlying store equal to the view and empties the overlay -/
theorem flush_spec (st : St) :
    (flush st).under = view st ∧ (flush st).overlay = [] ∧ view (flush st) = view st ∧ notFlushedPairs (flush st) = 0 := by
  refine ⟨applyBatch_flushOps _ _, rfl, ?_, rfl⟩
  show overlayApply (applyBatch st.under (flushOps st.overlay)) [] = _
  rw [applyBatch_flushOps]; rfl

/-- dropping the unflushed writes restores the underlying view -/
theorem drop_spec (st : St) :
    view (dropNotFlushed st) = st.under ∧ (dropNotFlushed st).under = st.under ∧ notFlushedPairs (dropNotFlushed st) = 0 :=
  ⟨rfl, rfl, rfl⟩

/-- `LazyFlushable`: until the first flush it is a flushable store over an empty store; the first
    flush writes the tree into the real store, and keeps the view whenever the real store was empty
    (a newly created DB, the intended use) or already initialised -/
theorem lazy_flush_spec (l : Lazy) :
    (l.inited = false → l.st.under = []) ∧
    l.flush.real = overlayApply l.real l.overlay ∧ l.flush.overlay = [] ∧ l.flush.inited = true ∧
    ((l.inited = true ∨ l.real = []) → view l.flush.st = view l.st) := by
  refine ⟨fun h => by simp [Lazy.st, h], applyBatch_flushOps _ _, rfl, rfl, ?_⟩
  intro h
  have e : view l.flush.st = overlayApply l.real l.overlay := by
    show overlayApply (applyBatch l.real (flushOps l.overlay)) [] = _
    rw [applyBatch_flushOps]; rfl
  rw [e]
  rcases h with h | h
  · simp [view, Lazy.st, h]
  · cases hi : l.inited <;> simp [view, Lazy.st, hi, h]

/-! ### all operation sequences: refinement to a three-field specification -/

inductive FOp where
  | put (k v : Bytes)
  | del (k : Bytes)
  | write (b : List Op)
  | flush
  | drop

def step (st : St) : FOp → St
  | .put k v => put st k v
  | .del k => delete st k
  | .write b => write st b
  | .flush => flush st
  | .drop => dropNotFlushed st

/-- the specification: the flushed content, the current content, the distinct keys written since
    the last flush or drop -/
structure Abs where
  flushed : KV
  cur : KV
  dirty : List Bytes

def touch (d : List Bytes) (k : Bytes) : List Bytes := if k ∈ d then d else k :: d

def absOp (a : Abs) : Op → Abs
  | .put k v => { a with cur := a.cur.insert k v, dirty := touch a.dirty k }
  | .del k => { a with cur := a.cur.erase k, dirty := touch a.dirty k }

def absStep (a : Abs) : FOp → Abs
  | .put k v => absOp a (.put k v)
  | .del k => absOp a (.del k)
  | .write b => b.foldl absOp a
  | .flush => { flushed := a.cur, cur := a.cur, dirty := [] }
  | .drop => { flushed := a.flushed, cur := a.flushed, dirty := [] }

/-- the refinement relation -/
structure R (st : St) (a : Abs) : Prop where
  under : st.under = a.flushed
  view : view st = a.cur
  so : Overlay.Sorted st.overlay
  su : KV.Sorted st.under
  nodup : a.dirty.Nodup
  mem : ∀ k, k ∈ a.dirty ↔ (Overlay.lookup st.overlay k).isSome = true
  len : a.dirty.length = st.overlay.length

theorem touch_nodup {d : List Bytes} (h : d.Nodup) (k : Bytes) : (touch d k).Nodup := by
  unfold touch; split
  · exact h
  · exact List.nodup_cons.2 ⟨by assumption, h⟩

theorem R_write_one {st : St} {a : Abs} (r : R st a) (op : Op) :
    R (match op with | .put k v => put st k v | .del k => delete st k) (absOp a op) := by
  have key : ∀ (k : Bytes) (x : Option Bytes) (_sz : Nat),
      (∀ k', k' ∈ touch a.dirty k ↔ (Overlay.lookup (st.overlay.put k x) k').isSome = true) ∧
      (touch a.dirty k).length = (st.overlay.put k x).length := by
    intro k x _
    constructor
    · intro k'
      rw [Overlay.lookup_put]
      unfold touch
      by_cases e : k = k'
      · subst e; by_cases hm : k ∈ a.dirty <;> simp [hm]
      · by_cases hm : k ∈ a.dirty
        · simp [hm, e, r.mem k']
        · have e' : ¬ k' = k := fun h => e h.symm
          simp [hm, e, e', r.mem k']
    · rw [Overlay.length_put r.so]
      unfold touch
      by_cases hm : k ∈ a.dirty
      · have := (r.mem k).1 hm; simp [hm, this, r.len]
      · have : (Overlay.lookup st.overlay k).isSome = false := by
          cases h : (Overlay.lookup st.overlay k).isSome with
          | false => rfl
          | true => exact absurd ((r.mem k).2 h) hm
        simp [hm, this, r.len]
  cases op with
  | put k v =>
    exact ⟨r.under, by rw [(put_spec r.su r.so k v).1, r.view]; rfl, Overlay.sorted_put r.so _ _, r.su,
      touch_nodup r.nodup k, (key k (some v) 0).1, (key k (some v) 0).2⟩
  | del k =>
    exact ⟨r.under, by rw [(delete_spec r.su r.so k).1, r.view]; rfl, Overlay.sorted_put r.so _ _, r.su,
      touch_nodup r.nodup k, (key k none 0).1, (key k none 0).2⟩

theorem R_write {st : St} {a : Abs} (r : R st a) (b : List Op) : R (write st b) (b.foldl absOp a) := by
  induction b generalizing st a with
  | nil => exact r
  | cons op ops ih =>
    unfold write
    rw [List.foldl_cons, List.foldl_cons]
    exact ih (R_write_one r op)

theorem R_step {st : St} {a : Abs} (r : R st a) (op : FOp) : R (step st op) (absStep a op) := by
  cases op with
  | put k v => exact R_write_one r (.put k v)
  | del k => exact R_write_one r (.del k)
  | write b => exact R_write r b
  | flush =>
    obtain ⟨h1, h2, h3, _⟩ := flush_spec st
    refine ⟨?_, ?_, ?_, ?_, List.nodup_nil, ?_, ?_⟩
    · show (flush st).under = a.cur; rw [h1, r.view]
    · show view (flush st) = a.cur; rw [h3, r.view]
    · show Overlay.Sorted (flush st).overlay; rw [h2]; exact Overlay.sorted_nil
    · show KV.Sorted (flush st).under; rw [h1]; exact sorted_overlayApply r.su _
    · intro k; show k ∈ [] ↔ _; rw [show (step st FOp.flush).overlay = [] from h2]; simp [Overlay.lookup_nil]
    · show 0 = (flush st).overlay.length; rw [h2]; rfl
  | drop =>
    refine ⟨r.under, ?_, Overlay.sorted_nil, r.su, List.nodup_nil, ?_, rfl⟩
    · show st.under = a.flushed; exact r.under
    · intro k; show k ∈ [] ↔ _; simp [step, dropNotFlushed, Overlay.lookup_nil]

/-- **Every operation sequence** (puts, deletes, batch writes, flushes, drops) over any sorted
    initial content keeps the flushable store in step with the specification. -/
theorem run_refines (under0 : KV) (hs : KV.Sorted under0) (ops : List FOp) :
    R (ops.foldl step { under := under0 }) (ops.foldl absStep { flushed := under0, cur := under0, dirty := [] }) := by
  have h0 : R { under := under0 } { flushed := under0, cur := under0, dirty := [] } :=
    ⟨rfl, rfl, Overlay.sorted_nil, hs, List.nodup_nil, fun k => by simp [Overlay.lookup_nil], rfl⟩
  generalize ({ under := under0 } : St) = st at h0 ⊢
  generalize ({ flushed := under0, cur := under0, dirty := [] } : Abs) = a at h0 ⊢
  induction ops generalizing st a with
  | nil => exact h0
  | cons op ops ih => exact ih _ _ (R_step h0 op)

/-- ... hence after any history every observation is the specification's: reads, existence checks,
    iteration for every prefix and start, the underlying content, and the reported number of unflushed
    keys = the number of distinct keys written since the last flush or drop. -/
theorem observations_after_any_history (under0 : KV) (hs : KV.Sorted under0) (ops : List FOp) :
    let st := ops.foldl step { under := under0 }
    let a := ops.foldl absStep { flushed := under0, cur := under0, dirty := [] }
    (∀ k, get st k = KV.get a.cur k) ∧ (∀ k, has st k = KV.has a.cur k) ∧
    (∀ pfx start, iterate st pfx start = iterSpec a.cur (pfx.getD []) start) ∧
    st.under = a.flushed ∧ notFlushedPairs st = a.dirty.length ∧ a.dirty.Nodup := by
  intro st a
  have r : R st a := run_refines under0 hs ops
  refine ⟨fun k => ?_, fun k => ?_, fun pfx start => ?_, r.under, r.len.symm, r.nodup⟩
  · rw [get_eq_view r.so, r.view]
  · rw [has_eq_view r.so, r.view]
  · rw [iter_drain_eq_spec r.su r.so, r.view]

/-- the batch semantics of the specification: a batch write is its operations in order -/
theorem abs_write_cur (a : Abs) (b : List Op) : (b.foldl absOp a).cur = applyBatch a.cur b ∧ (b.foldl absOp a).flushed = a.flushed := by
  induction b generalizing a with
  | nil => exact ⟨rfl, rfl⟩
  | cons op ops ih =>
    rw [List.foldl_cons]
    have := ih (absOp a op)
    cases op <;> exact this

/-- **Snapshot isolation.** A snapshot taken after any history reads, checks and iterates as the
    view at the moment it was taken, whatever writes, flushes and drops `later` are applied to the
    store afterwards (the snapshot owns a copy of the tree and a snapshot of the parent). -/
theorem snapshot_isolated (under0 : KV) (hs : KV.Sorted under0) (ops later : List FOp) :
    let st := ops.foldl step { under := under0 }
    let snap := getSnapshot st
    let _after := later.foldl step st
    (∀ k, get snap k = KV.get (view st) k) ∧ (∀ k, has snap k = KV.has (view st) k) ∧
    (∀ pfx start, iterate snap pfx start = iterSpec (view st) (pfx.getD []) start) := by
  intro st snap _
  have r := run_refines under0 hs ops
  have hv : view snap = view st := rfl
  have so : Overlay.Sorted snap.overlay := r.so
  have su : KV.Sorted snap.under := r.su
  refine ⟨fun k => ?_, fun k => ?_, fun pfx start => ?_⟩
  · rw [get_eq_view so, hv]
  · rw [has_eq_view so, hv]
  · rw [iter_drain_eq_spec su so, hv]

/-! ### non-vacuity: concrete stores with tombstones, empty values, 0xff prefixes -/

def exUnder : KV := [([0], [1]), ([0, 255], [2]), ([1], [3]), ([255], [4]), ([255, 255], [5])]
def exSt : St := { under := exUnder, overlay := [([0], none), ([0, 1], some []), ([2], some [9]), ([255, 255, 0], some [7])] }

example : KV.Sorted exUnder := by unfold KV.Sorted exUnder; decide
example : Overlay.Sorted exSt.overlay := by unfold Overlay.Sorted exSt; decide
example : iterate exSt (some [0]) [] = [([0, 1], []), ([0, 255], [2])] := by decide
example : iterate exSt none [1] = [([1], [3]), ([2], [9]), ([255], [4]), ([255, 255], [5]), ([255, 255, 0], [7])] := by decide
example : iterate exSt (some [255, 255]) [] = [([255, 255], [5]), ([255, 255, 0], [7])] := by decide
example : get exSt [0] = none ∧ get exSt [0, 1] = some [] ∧ has exSt [0, 1] = true ∧ has exSt [0] = false := by decide
example : notFlushedPairs (step (step exSt (.put [2] [1])) (.del [3])) = 5 := by decide
example : (flush exSt).under = [([0, 1], []), ([0, 255], [2]), ([1], [3]), ([2], [9]), ([255], [4]), ([255, 255], [5]), ([255, 255, 0], [7])] := by decide

end C22
