import LachesisVerif.Gen.FactsC26
/-!
# Structural expectations for C26 (regenerated facts `Gen.FactsC26`)

Split out of the family survey (`notes/facts-multi-notes.md` lists what the selectors cannot express).
Each theorem states the expected value of Bool facts regenerated from the Go source by
`go/cmd/extract` (selectors `hascall:`, `topcall:`, `topassign:`, `before:`); a statement that is
dropped, guarded or reordered flips a fact and breaks the theorem.
-/
namespace FactsC26

/-- `NewProducer` sorts the requests unconditionally and before any pattern is compiled:
    `Model.Multidb.newProducer = newProducerIn ∘ sortEntries` (determinism of routing; without the
    sort the model is `newProducerPreFix`, defect D8). `CompileFilter` parses both templates and
    checks the verb prefix before it builds a matcher (`compileFilter`: `pops.isPrefixOf ops` first). -/
theorem router_construction :
    Gen.FactsC26.newProducerSorts = true ∧ Gen.FactsC26.newProducerSortsBeforeCompile = true ∧
    Gen.FactsC26.compileChecksOpsPrefix = true := by decide

/-- `Producer.OpenDB`: route first, open the routed DB, `handleRoute` at top level (no open escapes
    the record check), and the table store (`table.New`, the key prefix `physKey`) only after the
    check — `Model.Multidb.openDB`. A guarded or late check would hand out stores with overlapping
    tables. -/
theorem open_checks :
    Gen.FactsC26.openRoutesBeforeOpen = true ∧ Gen.FactsC26.openChecksAlways = true ∧
    Gen.FactsC26.openChecksBeforeTable = true := by decide

/-- `handleRoute` reads the stored records unconditionally, checks (`tablesConflicting`) before it
    saves, and the saved list is `Put` into the DB itself — `Model.Multidb.handleRoute` /
    `setRecs`: a refused request leaves no record, an accepted one is found again after a restart. -/
theorem records_persisted :
    Gen.FactsC26.handleReadsRecords = true ∧ Gen.FactsC26.handleChecksBeforeSave = true ∧
    Gen.FactsC26.writeListPuts = true := by decide

/-- `Verify`: the records of every existing DB are collected (`getRecords` stores what
    `ReadTablesList` returned), then `verifyRecords` routes every recorded request again —
    `Model.Multidb.verify` / `recordStays`. -/
theorem verify_structure :
    Gen.FactsC26.verifyReadsThenChecks = true ∧ Gen.FactsC26.verifyReroutes = true ∧
    Gen.FactsC26.getRecordsCollects = true := by decide

end FactsC26
