import LachesisVerif.Model.Orderer
import LachesisVerif.Props.C11
import LachesisVerif.Proofs.ElectionInv
import LachesisVerif.Proofs.ElectionL4
/-!
# C10 — Consensus output matches an independent reference implementation

"For any valid event set (including forks below one third of the weight), the accepted frames and
the emitted blocks equal those of an independent naive implementation of the Lachesis rules. Those
rules are: graph-based forkless cause and the frame rule; first-round roots vote yes for a
validator exactly when they forkless-cause a root of it in the frame being decided; later roots
vote with the weighted majority of the previous-frame roots they forkless-cause (a tie counts as
yes) and decide once one side holds a quorum. The Atropos is the root voted for by the first
validator, in canonical order, that is decided yes while all validators before it are decided no."

Status: PARTIAL proof. Proved below, about the implementation-level model `Model.Election` /
`Model.Orderer` (kernels regenerated from abft/election and abft/event_processing.go):
the Atropos choice rule, the vote rule (tie = yes, decision on quorum), the round arithmetic, and
L1 (two quorums share a validator that never forks when forkers hold < 1/3). NOT proved: the
induction L2–L5 of DESIGN §5 that lifts these to "model blocks = reference blocks" for whole
histories. That equality is checked three ways (real code = this model = reference
`Spec.Lachesis`) on every scenario of the `cons` stream.
-/
namespace C10
open Model.Pos Model.Election

/-- The Atropos rule: `chooseAtropos` returns root `a` exactly when the canonical order splits as
    `l₁ ++ v :: l₂` with every validator of `l₁` decided "no" and `v` decided "yes" for root `a`;
    it returns "undecided" exactly when the first not-decided-no validator is undecided. -/
theorem chooseAtropos_spec (el : Election) (l : List (Nat × Nat)) (f a : Nat) :
    chooseAtroposFrom el l = .ok (some (f, a)) ↔
      f = el.frameToDecide ∧ ∃ l₁ v w l₂, l = l₁ ++ (v, w) :: l₂ ∧
        (∀ u ∈ l₁, ∃ vote, el.decidedRoots.lookup u.1 = some vote ∧ vote.yes = false) ∧
        ∃ vote, el.decidedRoots.lookup v = some vote ∧ vote.yes = true ∧ vote.observedRoot = a := by
  induction l with
  | nil =>
    simp only [chooseAtroposFrom]
    constructor
    · intro h; cases h
    · rintro ⟨_, l₁, v, w, l₂, h, _⟩; cases l₁ <;> simp at h
  | cons x xs ih =>
    obtain ⟨vid, wt⟩ := x
    simp only [chooseAtroposFrom]
    cases hl : el.decidedRoots.lookup vid with
    | none =>
      simp only
      constructor
      · intro h; cases h
      · rintro ⟨_, l₁, v, w, l₂, h, hno, vote, hv, _⟩
        cases l₁ with
        | nil => simp at h; obtain ⟨⟨rfl, _⟩, _⟩ := h; rw [hl] at hv; cases hv
        | cons y ys =>
          simp at h
          obtain ⟨rfl, _⟩ := h
          obtain ⟨vt, hvt, _⟩ := hno (vid, wt) List.mem_cons_self
          rw [hl] at hvt; cases hvt
    | some vote =>
      simp only
      by_cases hy : vote.yes = true
      · simp only [hy, if_true]
        constructor
        · intro h
          simp only [Except.ok.injEq, Option.some.injEq, Prod.mk.injEq] at h
          exact ⟨h.1.symm, [], vid, wt, xs, rfl, by simp, vote, hl, hy, h.2⟩
        · rintro ⟨hf, l₁, v, w, l₂, h, hno, vt, hv, _, ha⟩
          cases l₁ with
          | nil =>
            simp at h; obtain ⟨⟨rfl, _⟩, _⟩ := h
            rw [hl] at hv; cases hv
            simp [hf, ha]
          | cons y ys =>
            simp at h
            obtain ⟨rfl, _⟩ := h
            obtain ⟨vt', hvt, hn⟩ := hno (vid, wt) List.mem_cons_self
            rw [hl] at hvt; cases hvt; rw [hy] at hn; cases hn
      · simp only [hy, Bool.false_eq_true, if_false]
        rw [ih]
        constructor
        · rintro ⟨hf, l₁, v, w, l₂, h, hno, rest⟩
          refine ⟨hf, (vid, wt) :: l₁, v, w, l₂, by simp [h], ?_, rest⟩
          intro u hu
          rcases List.mem_cons.1 hu with rfl | hu
          · exact ⟨vote, hl, by simpa using hy⟩
          · exact hno u hu
        · rintro ⟨hf, l₁, v, w, l₂, h, hno, vt, hv, hyes, ha⟩
          cases l₁ with
          | nil =>
            simp at h; obtain ⟨⟨rfl, _⟩, _⟩ := h
            rw [hl] at hv; cases hv; exact absurd hyes hy
          | cons y ys =>
            simp at h
            obtain ⟨rfl, rfl⟩ := h
            exact ⟨hf, ys, v, w, l₂, rfl, fun u hu => hno u (List.mem_cons_of_mem _ hu), vt, hv, hyes, ha⟩

/-- vote rule (regenerated): weighted majority, a tie counts as yes; decided once one side holds a quorum -/
theorem vote_rule (yes no : Nat) (yq nq : Bool) :
    (Gen.Election.voteYes yes no = true ↔ yes ≥ no) ∧
    (Gen.Election.voteDecided yq nq = true ↔ yq = true ∨ nq = true) := by
  unfold Gen.Election.voteYes Gen.Election.voteDecided
  simp

/-- round arithmetic (regenerated): roots at or below the frame to decide do not vote; otherwise the
    round is the frame distance, the first round is distance 1, and votes look at the frame below -/
theorem round_rule (rootFrame ftd : Nat) (h1 : rootFrame < 4294967296) (h2 : ftd < 4294967296) :
    (Gen.Election.skipOldRoot rootFrame ftd = true ↔ rootFrame ≤ ftd) ∧
    (ftd < rootFrame → Gen.Election.round rootFrame ftd = rootFrame - ftd ∧
       Gen.Election.roundZero (Gen.Election.round rootFrame ftd) = false ∧
       (Gen.Election.firstRound (Gen.Election.round rootFrame ftd) = true ↔ rootFrame = ftd + 1) ∧
       Gen.Election.prevFrame rootFrame = rootFrame - 1) := by
  unfold Gen.Election.skipOldRoot Gen.Election.round Gen.Election.roundZero Gen.Election.firstRound Gen.Election.prevFrame
  refine ⟨by simp, fun h => ?_⟩
  have e1 : (rootFrame + 4294967296 - ftd % 4294967296) % 4294967296 = rootFrame - ftd := by omega
  have e2 : (rootFrame + 4294967296 - 1 % 4294967296) % 4294967296 = rootFrame - 1 := by omega
  rw [e1, e2]
  refine ⟨rfl, by simp; omega, by simp; omega, rfl⟩

/-- if one masked weight exceeds another, some validator is in the first set and not in the second -/
theorem exists_of_msum_lt (ws : List Nat) (a b : List Bool) (h : C11.msum ws b < C11.msum ws a) :
    ∃ i, a.getD i false = true ∧ b.getD i false = false := by
  induction ws generalizing a b with
  | nil => cases a <;> cases b <;> simp [C11.msum] at h
  | cons w ws ih =>
    cases a with
    | nil => simp [C11.msum] at h
    | cons x xs =>
      cases b with
      | nil =>
        simp only [C11.msum] at h
        by_cases hx : x = true
        · exact ⟨0, by simp [hx], by simp⟩
        · have hx' : x = false := by simpa using hx
          subst hx'
          simp at h
          obtain ⟨i, hi, _⟩ := ih xs [] (by simpa [C11.msum] using h)
          exact ⟨i + 1, by simpa using hi, by simp⟩
      | cons y ys =>
        simp only [C11.msum] at h
        by_cases hxy : x = true ∧ y = false
        · exact ⟨0, by simp [hxy.1], by simp [hxy.2]⟩
        · have : C11.msum ws ys < C11.msum ws xs := by
            cases x <;> cases y <;> simp at hxy h ⊢ <;> omega
          obtain ⟨i, hi, hj⟩ := ih xs ys this
          exact ⟨i + 1, by simpa using hi, by simpa using hj⟩

/-- L1: when the forking validators (mask `fk`) hold less than one third of the total weight, any two
    sets that both reach the quorum share a validator that never forks. -/
theorem L1_quorums_share_honest (ws : List Nat) (m₁ m₂ fk : List Bool)
    (hlim : Gen.Pos.overLimit ws.sum = false)
    (h₁ : Gen.Pos.hasQuorum (C11.msum ws m₁) (Gen.Pos.quorum ws.sum) = true)
    (h₂ : Gen.Pos.hasQuorum (C11.msum ws m₂) (Gen.Pos.quorum ws.sum) = true)
    (hbft : 3 * C11.msum ws fk < ws.sum) :
    ∃ i, m₁.getD i false = true ∧ m₂.getD i false = true ∧ fk.getD i false = false := by
  have hint := C11.quorum_intersection ws m₁ m₂ hlim h₁ h₂
  obtain ⟨i, hi, hf⟩ := exists_of_msum_lt ws (C11.mand m₁ m₂) fk (by omega)
  refine ⟨i, ?_, ?_, hf⟩
  · clear hint h₁ h₂ hbft hf
    induction m₁ generalizing m₂ i with
    | nil => cases m₂ <;> simp [C11.mand] at hi
    | cons a as ih =>
      cases m₂ with
      | nil => simp [C11.mand] at hi
      | cons b bs =>
        cases i with
        | zero => simp [C11.mand] at hi ⊢; exact hi.1
        | succ j => simp [C11.mand] at hi ⊢; exact ih bs j (by simpa using hi)
  · clear hint h₁ h₂ hbft hf
    induction m₁ generalizing m₂ i with
    | nil => cases m₂ <;> simp [C11.mand] at hi
    | cons a as ih =>
      cases m₂ with
      | nil => simp [C11.mand] at hi
      | cons b bs =>
        cases i with
        | zero => simp [C11.mand] at hi ⊢; exact hi.2
        | succ j => simp [C11.mand] at hi ⊢; exact ih bs j (by simpa using hi)

/-! ### (1) invariants of the election model over any run of `processRoot` from `reset` -/
section ModelInvariants
open ElectionProofs

/-- In every state reachable from `reset vals ftd` by successful `processRoot` calls (any roots, any
    per-call oracles whose `frameRoots` answers satisfy the slot predicate `P frame validator id`):
    every stored yes-vote names a root of frame `ftd` whose slot validator is the subject; every entry
    of `decidedRoots` is marked decided, is the stored vote of a root of frame ≥ `ftd + 2`, and names
    such a root when it is "yes"; no subject is decided twice; `frameToDecide` and the validators
    never change. -/
theorem election_invariants (P : Nat → Nat → Nat → Prop) (vals : Vals) (ftd : Nat)
    (hids : (vals.sorted.map (·.1)).Nodup) (hf : ftd < 4294967296) (el : Election)
    (hr : Reach P vals ftd el) : Inv P el ∧ el.frameToDecide = ftd ∧ el.vals = vals :=
  reach_inv P vals ftd hids hf el hr

/-- decisions are only written in rounds ≥ 2: a root of frame ≤ `frameToDecide + 1` leaves
    `decidedRoots` unchanged -/
theorem election_no_early_decision (observe : Nat → Nat → Bool) (frameRoots : Nat → List Root)
    (el : Election) (nr : Root) (el' : Election) (res : Option (Nat × Nat))
    (hf : el.frameToDecide + 1 < 4294967296) (hnr : nr.frame ≤ el.frameToDecide + 1)
    (h : processRoot observe frameRoots el nr = .ok (el', res)) : el'.decidedRoots = el.decidedRoots :=
  processRoot_no_early_decision observe frameRoots el nr el' res hf hnr h

/-- whatever a reachable election returns is `(frameToDecide, a)` where `a` is a root of that frame
    whose slot validator belongs to the validator set -/
theorem election_atropos_is_slot_root (P : Nat → Nat → Nat → Prop) (vals : Vals) (ftd : Nat)
    (hids : (vals.sorted.map (·.1)).Nodup) (hf : ftd < 4294967296) (el el' : Election)
    (hr : Reach P vals ftd el) (observe : Nat → Nat → Bool) (frameRoots : Nat → List Root) (nr : Root)
    (hs : SoundRoots P frameRoots) (hn : nr.frame < 4294967296) (f a : Nat)
    (h : processRoot observe frameRoots el nr = .ok (el', some (f, a))) :
    f = ftd ∧ ∃ v w, (v, w) ∈ vals.sorted ∧ P ftd v a :=
  reach_atropos P vals ftd hids hf el el' hr observe frameRoots nr hs hn f a h

/-- non-vacuity: one validator, roots 10·f in frame f, everything observed: the root of frame 2
    votes yes for root 10, the root of frame 3 decides, the Atropos of frame 1 is root 10 -/
def exVals : Vals := { sorted := [(0, 1)], total := 1 }
def exRoots (f : Nat) : List Root := [⟨10 * f, f, 0⟩]
def exP (f v id : Nat) : Prop := id = 10 * f ∧ v = 0
theorem exRoots_sound : SoundRoots exP exRoots := by
  intro f r hr
  simp only [exRoots, List.mem_singleton] at hr
  subst hr; exact ⟨rfl, rfl⟩
def exEl1 : Election :=
  { frameToDecide := 1, vals := exVals,
    votes := [((⟨20, 2, 0⟩, 0), { decided := false, yes := true, observedRoot := 10 })] }
theorem ex_step1 : processRoot (fun _ _ => true) exRoots (reset exVals 1) ⟨20, 2, 0⟩ = .ok (exEl1, none) := rfl
example : ∃ el', processRoot (fun _ _ => true) exRoots exEl1 ⟨30, 3, 0⟩ = .ok (el', some (1, 10)) := ⟨_, rfl⟩
theorem ex_reach : Reach exP exVals 1 exEl1 :=
  Reach.step (res := none) Reach.init exRoots_sound (by decide) ex_step1
end ModelInvariants

/-! ### (2)–(4) the graph-level rules (`Spec/ElectionRules.lean`) and the lemma chain L1, L2, L4 -/
section Graph
open ElectionRules VecProofs

/-- L1 for the graph-level definitions: if the validators that fork hold less than a third of the
    weight, two validator sets that both reach the quorum share a validator that never forks. -/
theorem L1_graph (N : Net) : N.L1 := N.L1_holds

/-- L2: in a valid history with accepted frames and forkers below one third, two different roots of
    one slot (same frame, same creator) are never both forkless-caused — by anything. -/
theorem L2_one_root_per_slot (N : Net) : N.L2 := N.L2_holds

/-- L4: if some root decides subject `v` at round `k`, every root of every round ≥ `k` votes the same
    way and nobody decides the opposite. -/
theorem L4_decision_is_final (N : Net) : N.L4 := N.L4_holds

/-- hence the Atropos of a frame, as defined by the rules, is unique -/
theorem atropos_unique (N : Net) : N.AtroposUnique := N.atroposUnique_holds

/-- non-vacuity of the hypotheses `Valid`, `FramesAccepted`, `BFT` (one validator, one event) -/
def exNet : Net := { h := [{ creator := 0, seq := 1, parents := [] }], nVals := 1, w := fun _ => 1, fr := fun _ => 1 }
example : Valid exNet.nVals exNet.h ∧ exNet.FramesAccepted ∧ exNet.BFT := by
  refine ⟨?_, ?_, ?_⟩
  · exact Valid.snoc (h := []) Valid.nil
      { parents_lt := (by intro p hp; cases hp), creator_lt := (by decide), seq_pos := (by decide),
        seq_lt := (by decide), first := (by intro _ p hp; cases hp),
        self := (by intro h; exact absurd h (by decide)) }
  · intro e he
    have : e = 0 := by simp [exNet] at he; omega
    subst this
    unfold Net.Allowed
    rw [if_pos (by decide)]
    rfl
  · unfold Net.BFT
    have h0 : exNet.weightOf exNet.Forker = 0 := by
      apply Net.weightOf_zero
      rintro v _ ⟨x, y, hne, hx, hy, _⟩
      simp [exNet] at hx hy
      omega
    have h1 : exNet.total = 1 := by
      unfold Net.total
      rw [Net.weightOf_eq]
      show wsum _ [0] _ = 1
      rw [wsum_cons, wsum_nil, if_pos trivial]
      rfl
    rw [h0, h1]; decide
end Graph

/-! ### non-vacuity -/
def exampleElection : Election :=
  { frameToDecide := 7
    vals := { sorted := [(5, 3), (2, 1)], total := 4 }
    decidedRoots := [(2, { decided := true, yes := true, observedRoot := 42 }), (5, { decided := true, yes := false })]
    votes := [] }

example : chooseAtropos exampleElection = .ok (some (7, 42)) := by rfl

end C10
