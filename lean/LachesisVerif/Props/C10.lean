import LachesisVerif.Model.Orderer
import LachesisVerif.Props.C11
import LachesisVerif.Proofs.ElectionInv
import LachesisVerif.Proofs.ElectionL4
import LachesisVerif.Proofs.ElectionL3
import LachesisVerif.Proofs.ElectionSingle
import LachesisVerif.Proofs.ElectionComplete
import LachesisVerif.Proofs.ElectionExample
import LachesisVerif.Proofs.OrdererFinal
import LachesisVerif.Proofs.RefEquivG
import LachesisVerif.Proofs.RefEquivL
import LachesisVerif.Proofs.RefEpochs5
/-!
# C10 — Consensus output matches an independent reference implementation

"For any valid event set (including forks below one third of the weight), the accepted frames and
the emitted blocks equal those of an independent naive implementation of the Lachesis rules. Those
rules are: graph-based forkless cause and the frame rule; first-round roots vote yes for a
validator exactly when they forkless-cause a root of it in the frame being decided; later roots
vote with the weighted majority of the previous-frame roots they forkless-cause (a tie counts as
yes) and decide once one side holds a quorum. The Atropos is the root voted for by the first
validator, in canonical order, that is decided yes while all validators before it are decided no."

Status: PARTIAL proof. Proved below:

* about the implementation-level model `Model.Election` / `Model.Orderer` (kernels regenerated from
  abft/election and abft/event_processing.go): the Atropos choice rule (`chooseAtropos_spec`), the vote
  rule (`vote_rule`: tie = yes, decision on quorum), the round arithmetic (`round_rule`), and the
  invariants of any run of `processRoot` from `reset` (`election_invariants`,
  `election_no_early_decision`, `election_atropos_is_slot_root`);
* about the graph-level rules (`Spec/ElectionRules.lean`: `FC` = C05's `FCSpec`, `IsRoot`, the frame
  rule `Allowed`, `voteYes` by recursion on the round, `DecidesYes/No`, `IsAtropos`, `Forker`, `BFT`):
  L1 (`L1_quorums_share_honest`, `L1_graph`), L2 (`L2_one_root_per_slot`), L3 (`L3_votes_stable`),
  L4 (`L4_decision_is_final`), `atropos_unique`, and L6 (`L6_not_all_decided_no`: for every frame
  `f ≥ 1` some validator is not decided "no"; false for `f = 0`, which the Orderer never decides);
* the single-election tie (`C10_single_election_partial`, `C10_single_election_BFT`,
  `C10_processRoot_refines`, `C10_single_election_complete`, `C10_single_election_same_result`);
* L5, the lifting to whole `Orderer.process` runs of one epoch (`L5_process_invariant`,
  `L5_run_invariant`, `L5_facts`): along any parents-first processing order, with `observe` = the
  graph forkless cause, after every `process` call (a) `s.roots` is exactly the graph roots of the
  processed events, (b) the open election has `frameToDecide = ldf + 1` and stores the votes and
  decisions of the rules for the known roots of later frames, all of which have been fed, (c)
  everything decidable from the known roots has been decided; every event is accepted (the frame
  check passes exactly because the claimed frame obeys the frame rule, no election error is
  reachable — "all decided no" by L6); every emitted block carries the next frame and the Atropos of
  the rules. Hence `C10_model_eq_rules_partial`: the `(frame, Atropos)` sequence emitted by the
  model over all events of a history is the sequence of Atropoi of the Prop-level rules for the
  frames 1, 2, … up to the first frame without Atropos;
* the executable reference `Spec/Lachesis.lean` (the oracle of the `cons`/`vec` streams) agrees with
  the Prop-level rules on ancestry, forks, the merged highest-before view and forkless cause
  (`reference_anc_eq_rules`, `reference_fork_eq_rules`, `reference_hb_eq_rules`,
  `reference_fc_eq_rules`, `reference_fc_eq_rules_reachable`, `reference_hist_valid`), for every
  instance built by `Inst.insert` / reached by the oracle;
* the frame and election part of the executable reference (`Proofs/RefEquivH … RefEquivL`), for the
  states reached through `process` without seals on checked events (`RefEquiv.Run`; the frame lemmas
  for every reachable state): `rootsAt` = the roots of the rules, `quorumOn` = quorum of forkless-
  caused roots (`reference_roots_eq_rules`, `reference_quorumOn_eq_rules`); `allowed` = `Net.Allowed`
  = C04's `Allowed` = the model's `frameAccepted`, and `process` accepts exactly the allowed frames
  (`reference_allowed_eq_rules`, `reference_process_accepts_iff_allowed`); `maxFrame`/`build` = the
  model's `calcFrameIdx` = the highest allowed frame ≤ spf + 100 (`reference_build_max`);
  `votesOfFrame` computes `voteYes` and the decisions `DecidesYes/No` (`reference_votes_eq_rules`);
  `atroposSpec f = .atropos a ↔ IsAtropos f a`, "undecided" ↔ no Atropos, "all no" impossible
  (`reference_atropos_eq_rules`); `decideLoop` emits exactly the blocks (frame k, Atropos of frame k)
  for k = ldf + 1, … while an Atropos exists (`reference_decideLoop_eq_rules`,
  `reference_blocks_eq_rules`, with the cheater lists = the stored fork masks = `ForkSeen`); hence
  `C10_model_eq_reference_partial`: for every parents-first order of one epoch the model's decided
  `(frame, Atropos)` list = the reference's block `(frame, Atropos)` list (`_canon`: all graph
  hypotheses discharged by the run itself).

Hypotheses of the L5 theorems beyond "valid events, forkers below one third" (`OrdererProofs.Ctx`):
the forkless-cause oracle answers `N.FC` (C05), the validator record is canonical with total
≤ 2^31-1 (C12), accepted frames are < 2^31, the application never seals (one epoch).

Several epochs (last section, `Proofs/RefEpochs*.lean`): `reference_process_seal` (a `process` call of the
reference at which the seal table fires emits the blocks up to and including the sealing frame and
returns exactly `Inst.fresh (epoch+1) pairs`), `C10_model_eq_reference_epoch_partial` (one epoch that
may be sealed) and `C10_model_eq_reference_epochs_partial`: driven epoch by epoch with the same events
and seal entries at the same (epoch, frame), model and reference emit the same
`(epoch, frame, Atropos, sealed)` sequence and make the same epoch transitions (`initial (e+1) nv` /
`Inst.fresh (e+1) pairs`); remaining hypotheses are listed at the theorem (`RefEpochs.BothOK`).

NOT proved: restarts (C08); events of an old epoch submitted after its seal (they are skipped, as in C01). The other two fields of a block are treated in their own properties: the
confirmed-event lists in C02 (`C02_reference_delivers`, `C02_reference_eq_model_delivered`:
reference `events` = new ancestry of the Atropos = what the model's `confirmEvents` delivers), the
cheater lists in C03 (`C03_reference_cheaters`: reference cheaters = the model's cheater loop on the
Atropos, mapped to ids by the reference's own index → id table). That the accepted frames and the forkless-cause index of the real
code are the graph ones is C04 / C05. The equality "real code = this model = reference
`Spec.Lachesis`" is checked three ways on every scenario of the `cons` stream; inside Lean
"model = reference" is now closed for the `(frame, Atropos)` sequence of one epoch.
Composition with the vector index (`Ctx`'s `obs`, `ok`, `hb` discharged for the combined model `Model/Indexed.lean`): `Consensus.indexed_eq_reference_partial` (Props/Consensus.lean).
-/
namespace C10
open Model.Pos Model.Election

/-- The Atropos rule: `chooseAtropos` returns root `a` exactly when the canonical order splits as
    `l₁ ++ v :: l₂` with every validator of `l₁` decided "no" and `v` decided "yes" for root `a`;
    it returns "undecided" exactly when the first not-decided-no validator is undecided. -/
theorem chooseAtropos_spec (el : Election) (l : List (Nat × Nat)) (f a : Nat) :
    chooseAtroposFrom el l = .ok (some (f, a)) ↔
      f = el.frameToDecide ∧ ∃ l₁ v w l₂, l = l₁ ++ (v, w) :: l₂ ∧
        (∀ u ∈ l₁, ∃ vote, el.decidedRoots.lookup u.1 = some vote ∧ vote.yes = false) ∧
        ∃ vote, el.decidedRoots.lookup v = some vote ∧ vote.yes = true ∧ vote.observedRoot = a := by
  induction l with
  | nil =>
    simp only [chooseAtroposFrom]
    constructor
    · intro h; cases h
    · rintro ⟨_, l₁, v, w, l₂, h, _⟩; cases l₁ <;> simp at h
  | cons x xs ih =>
    obtain ⟨vid, wt⟩ := x
    simp only [chooseAtroposFrom]
    cases hl : el.decidedRoots.lookup vid with
    | none =>
      simp only
      constructor
      · intro h; cases h
      · rintro ⟨_, l₁, v, w, l₂, h, hno, vote, hv, _⟩
        cases l₁ with
        | nil => simp at h; obtain ⟨⟨rfl, _⟩, _⟩ := h; rw [hl] at hv; cases hv
        | cons y ys =>
          simp at h
          obtain ⟨rfl, _⟩ := h
          obtain ⟨vt, hvt, _⟩ := hno (vid, wt) List.mem_cons_self
          rw [hl] at hvt; cases hvt
    | some vote =>
      simp only
      by_cases hy : vote.yes = true
      · simp only [hy, if_true]
        constructor
        · intro h
          simp only [Except.ok.injEq, Option.some.injEq, Prod.mk.injEq] at h
          exact ⟨h.1.symm, [], vid, wt, xs, rfl, by simp, vote, hl, hy, h.2⟩
        · rintro ⟨hf, l₁, v, w, l₂, h, hno, vt, hv, _, ha⟩
          cases l₁ with
          | nil =>
            simp at h; obtain ⟨⟨rfl, _⟩, _⟩ := h
            rw [hl] at hv; cases hv
            simp [hf, ha]
          | cons y ys =>
            simp at h
            obtain ⟨rfl, _⟩ := h
            obtain ⟨vt', hvt, hn⟩ := hno (vid, wt) List.mem_cons_self
            rw [hl] at hvt; cases hvt; rw [hy] at hn; cases hn
      · simp only [hy, Bool.false_eq_true, if_false]
        rw [ih]
        constructor
        · rintro ⟨hf, l₁, v, w, l₂, h, hno, rest⟩
          refine ⟨hf, (vid, wt) :: l₁, v, w, l₂, by simp [h], ?_, rest⟩
          intro u hu
          rcases List.mem_cons.1 hu with rfl | hu
          · exact ⟨vote, hl, by simpa using hy⟩
          · exact hno u hu
        · rintro ⟨hf, l₁, v, w, l₂, h, hno, vt, hv, hyes, ha⟩
          cases l₁ with
          | nil =>
            simp at h; obtain ⟨⟨rfl, _⟩, _⟩ := h
            rw [hl] at hv; cases hv; exact absurd hyes hy
          | cons y ys =>
            simp at h
            obtain ⟨rfl, rfl⟩ := h
            exact ⟨hf, ys, v, w, l₂, rfl, fun u hu => hno u (List.mem_cons_of_mem _ hu), vt, hv, hyes, ha⟩

/-- vote rule (regenerated): weighted majority, a tie counts as yes; decided once one side holds a quorum -/
theorem vote_rule (yes no : Nat) (yq nq : Bool) :
    (Gen.Election.voteYes yes no = true ↔ yes ≥ no) ∧
    (Gen.Election.voteDecided yq nq = true ↔ yq = true ∨ nq = true) := by
  unfold Gen.Election.voteYes Gen.Election.voteDecided
  simp

/-- round arithmetic (regenerated): roots at or below the frame to decide do not vote; otherwise the
    round is the frame distance, the first round is distance 1, and votes look at the frame below -/
theorem round_rule (rootFrame ftd : Nat) (h1 : rootFrame < 4294967296) (h2 : ftd < 4294967296) :
    (Gen.Election.skipOldRoot rootFrame ftd = true ↔ rootFrame ≤ ftd) ∧
    (ftd < rootFrame → Gen.Election.round rootFrame ftd = rootFrame - ftd ∧
       Gen.Election.roundZero (Gen.Election.round rootFrame ftd) = false ∧
       (Gen.Election.firstRound (Gen.Election.round rootFrame ftd) = true ↔ rootFrame = ftd + 1) ∧
       Gen.Election.prevFrame rootFrame = rootFrame - 1) := by
  unfold Gen.Election.skipOldRoot Gen.Election.round Gen.Election.roundZero Gen.Election.firstRound Gen.Election.prevFrame
  refine ⟨by simp, fun h => ?_⟩
  have e1 : (rootFrame + 4294967296 - ftd % 4294967296) % 4294967296 = rootFrame - ftd := by omega
  have e2 : (rootFrame + 4294967296 - 1 % 4294967296) % 4294967296 = rootFrame - 1 := by omega
  rw [e1, e2]
  refine ⟨rfl, by simp; omega, by simp; omega, rfl⟩

/-- if one masked weight exceeds another, some validator is in the first set and not in the second -/
theorem exists_of_msum_lt (ws : List Nat) (a b : List Bool) (h : C11.msum ws b < C11.msum ws a) :
    ∃ i, a.getD i false = true ∧ b.getD i false = false := by
  induction ws generalizing a b with
  | nil => cases a <;> cases b <;> simp [C11.msum] at h
  | cons w ws ih =>
    cases a with
    | nil => simp [C11.msum] at h
    | cons x xs =>
      cases b with
      | nil =>
        simp only [C11.msum] at h
        by_cases hx : x = true
        · exact ⟨0, by simp [hx], by simp⟩
        · have hx' : x = false := by simpa using hx
          subst hx'
          simp at h
          obtain ⟨i, hi, _⟩ := ih xs [] (by simpa [C11.msum] using h)
          exact ⟨i + 1, by simpa using hi, by simp⟩
      | cons y ys =>
        simp only [C11.msum] at h
        by_cases hxy : x = true ∧ y = false
        · exact ⟨0, by simp [hxy.1], by simp [hxy.2]⟩
        · have : C11.msum ws ys < C11.msum ws xs := by
            cases x <;> cases y <;> simp at hxy h ⊢ <;> omega
          obtain ⟨i, hi, hj⟩ := ih xs ys this
          exact ⟨i + 1, by simpa using hi, by simpa using hj⟩

/-- L1: when the forking validators (mask `fk`) hold less than one third of the total weight, any two
    sets that both reach the quorum share a validator that never forks. -/
theorem L1_quorums_share_honest (ws : List Nat) (m₁ m₂ fk : List Bool)
    (hlim : Gen.Pos.overLimit ws.sum = false)
    (h₁ : Gen.Pos.hasQuorum (C11.msum ws m₁) (Gen.Pos.quorum ws.sum) = true)
    (h₂ : Gen.Pos.hasQuorum (C11.msum ws m₂) (Gen.Pos.quorum ws.sum) = true)
    (hbft : 3 * C11.msum ws fk < ws.sum) :
    ∃ i, m₁.getD i false = true ∧ m₂.getD i false = true ∧ fk.getD i false = false := by
  have hint := C11.quorum_intersection ws m₁ m₂ hlim h₁ h₂
  obtain ⟨i, hi, hf⟩ := exists_of_msum_lt ws (C11.mand m₁ m₂) fk (by omega)
  refine ⟨i, ?_, ?_, hf⟩
  · clear hint h₁ h₂ hbft hf
    induction m₁ generalizing m₂ i with
    | nil => cases m₂ <;> simp [C11.mand] at hi
    | cons a as ih =>
      cases m₂ with
      | nil => simp [C11.mand] at hi
      | cons b bs =>
        cases i with
        | zero => simp [C11.mand] at hi ⊢; exact hi.1
        | succ j => simp [C11.mand] at hi ⊢; exact ih bs j (by simpa using hi)
  · clear hint h₁ h₂ hbft hf
    induction m₁ generalizing m₂ i with
    | nil => cases m₂ <;> simp [C11.mand] at hi
    | cons a as ih =>
      cases m₂ with
      | nil => simp [C11.mand] at hi
      | cons b bs =>
        cases i with
        | zero => simp [C11.mand] at hi ⊢; exact hi.2
        | succ j => simp [C11.mand] at hi ⊢; exact ih bs j (by simpa using hi)

/-! ### (1) invariants of the election model over any run of `processRoot` from `reset` -/
section ModelInvariants
open ElectionProofs

/-- In every state reachable from `reset vals ftd` by successful `processRoot` calls (any roots, any
    per-call oracles whose `frameRoots` answers satisfy the slot predicate `P frame validator id`):
    every stored yes-vote names a root of frame `ftd` whose slot validator is the subject; every entry
    of `decidedRoots` is marked decided, is the stored vote of a root of frame ≥ `ftd + 2`, and names
    such a root when it is "yes"; no subject is decided twice; `frameToDecide` and the validators
    never change. -/
theorem election_invariants (P : Nat → Nat → Nat → Prop) (vals : Vals) (ftd : Nat)
    (hids : (vals.sorted.map (·.1)).Nodup) (hf : ftd < 4294967296) (el : Election)
    (hr : Reach P vals ftd el) : Inv P el ∧ el.frameToDecide = ftd ∧ el.vals = vals :=
  reach_inv P vals ftd hids hf el hr

/-- decisions are only written in rounds ≥ 2: a root of frame ≤ `frameToDecide + 1` leaves
    `decidedRoots` unchanged -/
theorem election_no_early_decision (observe : Nat → Nat → Bool) (frameRoots : Nat → List Root)
    (el : Election) (nr : Root) (el' : Election) (res : Option (Nat × Nat))
    (hf : el.frameToDecide + 1 < 4294967296) (hnr : nr.frame ≤ el.frameToDecide + 1)
    (h : processRoot observe frameRoots el nr = .ok (el', res)) : el'.decidedRoots = el.decidedRoots :=
  processRoot_no_early_decision observe frameRoots el nr el' res hf hnr h

/-- whatever a reachable election returns is `(frameToDecide, a)` where `a` is a root of that frame
    whose slot validator belongs to the validator set -/
theorem election_atropos_is_slot_root (P : Nat → Nat → Nat → Prop) (vals : Vals) (ftd : Nat)
    (hids : (vals.sorted.map (·.1)).Nodup) (hf : ftd < 4294967296) (el el' : Election)
    (hr : Reach P vals ftd el) (observe : Nat → Nat → Bool) (frameRoots : Nat → List Root) (nr : Root)
    (hs : SoundRoots P frameRoots) (hn : nr.frame < 4294967296) (f a : Nat)
    (h : processRoot observe frameRoots el nr = .ok (el', some (f, a))) :
    f = ftd ∧ ∃ v w, (v, w) ∈ vals.sorted ∧ P ftd v a :=
  reach_atropos P vals ftd hids hf el el' hr observe frameRoots nr hs hn f a h

/-- non-vacuity: one validator, roots 10·f in frame f, everything observed: the root of frame 2
    votes yes for root 10, the root of frame 3 decides, the Atropos of frame 1 is root 10 -/
def exVals : Vals := { sorted := [(0, 1)], total := 1 }
def exRoots (f : Nat) : List Root := [⟨10 * f, f, 0⟩]
def exP (f v id : Nat) : Prop := id = 10 * f ∧ v = 0
theorem exRoots_sound : SoundRoots exP exRoots := by
  intro f r hr
  simp only [exRoots, List.mem_singleton] at hr
  subst hr; exact ⟨rfl, rfl⟩
def exEl1 : Election :=
  { frameToDecide := 1, vals := exVals,
    votes := [((⟨20, 2, 0⟩, 0), { decided := false, yes := true, observedRoot := 10 })] }
theorem ex_step1 : processRoot (fun _ _ => true) exRoots (reset exVals 1) ⟨20, 2, 0⟩ = .ok (exEl1, none) := rfl
example : ∃ el', processRoot (fun _ _ => true) exRoots exEl1 ⟨30, 3, 0⟩ = .ok (el', some (1, 10)) := ⟨_, rfl⟩
theorem ex_reach : Reach exP exVals 1 exEl1 :=
  Reach.step (res := none) Reach.init exRoots_sound (by decide) ex_step1
end ModelInvariants

/-! ### (2)–(4) the graph-level rules (`Spec/ElectionRules.lean`) and the lemma chain L1, L2, L4 -/
section Graph
open ElectionRules VecProofs

/-- L1 for the graph-level definitions: if the validators that fork hold less than a third of the
    weight, two validator sets that both reach the quorum share a validator that never forks. -/
theorem L1_graph (N : Net) : N.L1 := N.L1_holds

/-- L2: in a valid history with accepted frames and forkers below one third, two different roots of
    one slot (same frame, same creator) are never both forkless-caused — by anything. -/
theorem L2_one_root_per_slot (N : Net) : N.L2 := N.L2_holds

/-- L3: the vote of a root is a function of its ancestry — when a valid history grows (`Extends`:
    events appended, validators, weights and the accepted frames of the old events unchanged), the
    forkless-cause relation from an old event, its root status, its votes and its decisions are
    unchanged. -/
theorem L3_votes_stable (N N' : Net) (E : Extends N N') (hv : Valid N'.nVals N'.h) (f v k r : Nat)
    (hr : r < N.h.length) :
    (∀ b, N'.FC r b ↔ N.FC r b) ∧ (∀ g, N'.IsRoot r g ↔ N.IsRoot r g) ∧
    (N'.voteYes f k r v ↔ N.voteYes f k r v) ∧
    (N'.DecidesYes f k r v ↔ N.DecidesYes f k r v) ∧ (N'.DecidesNo f k r v ↔ N.DecidesNo f k r v) :=
  ⟨fun _ => E.FC_iff hv hr, fun _ => E.isRoot_iff hv hr, E.voteYes_iff hv f v k r hr,
    (E.decides_iff hv f k r v hr).1, (E.decides_iff hv f k r v hr).2⟩

/-- L4: if some root decides subject `v` at round `k`, every root of every round ≥ `k` votes the same
    way and nobody decides the opposite. -/
theorem L4_decision_is_final (N : Net) : N.L4 := N.L4_holds

/-- hence the Atropos of a frame, as defined by the rules, is unique -/
theorem atropos_unique (N : Net) : N.AtroposUnique := N.atroposUnique_holds

/-- non-vacuity of the hypotheses `Valid`, `FramesAccepted`, `BFT` (one validator, one event) -/
def exNet : Net := { h := [{ creator := 0, seq := 1, parents := [] }], nVals := 1, w := fun _ => 1, fr := fun _ => 1 }
example : Valid exNet.nVals exNet.h ∧ exNet.FramesAccepted ∧ exNet.BFT := by
  refine ⟨?_, ?_, ?_⟩
  · exact Valid.snoc (h := []) Valid.nil
      { parents_lt := (by intro p hp; cases hp), creator_lt := (by decide), seq_pos := (by decide),
        seq_lt := (by decide), first := (by intro _ p hp; cases hp),
        self := (by intro h; exact absurd h (by decide)) }
  · intro e he
    have : e = 0 := by simp [exNet] at he; omega
    subst this
    unfold Net.Allowed
    rw [if_pos (by decide)]
    rfl
  · unfold Net.BFT
    have h0 : exNet.weightOf exNet.Forker = 0 := by
      apply Net.weightOf_zero
      rintro v _ ⟨x, y, hne, hx, hy, _⟩
      simp [exNet] at hx hy
      omega
    have h1 : exNet.total = 1 := by
      unfold Net.total
      rw [Net.weightOf_eq]
      show wsum _ [0] _ = 1
      rw [wsum_cons, wsum_nil, if_pos trivial]
      rfl
    rw [h0, h1]; decide
end Graph

/-! ### (5) the single-election refinement -/
section Refinement
open ElectionRules VecProofs ElectionRefine ElectionProofs
open Classical

/-- `C10_single_election_partial`. One election (frame `f` to decide) of the implementation-level
    model, started from `reset` and fed roots by `runRoots` (= the loop of `processKnownRoots`, see
    `knownRootsFrame_eq`; it stops at the first returned Atropos), under `Setup`:
    validators in canonical numbering with the weights of the graph `N` and a total ≤ 2^31-1;
    `observe` = the graph forkless cause `N.FC` (C05's `FCSpec`); `frameRoots g` lists roots of frame
    `g` (once each, labelled with their creator) and contains every root that a listed root
    forkless-causes (the table of any parents-first prefix does); creators are validators; accepted frames
    obey the frame rule; slot uniqueness (`N.SlotUnique` — the conclusion of L2, see
    `C10_single_election_BFT` where it is discharged from BFT); `f < 2^32`.
    `FeedClosed`: every fed root is a root with frame `< 2^32` and the roots of the previous frame it
    forkless-causes were fed before it (true for any frame-ascending complete order:
    `feedClosed_of_ascending`, and for the arrival order of `handleElection`).
    Then: no error branch (`two-fork-roots`, `missing-vote`, `not-enough-votes`) is ever reached; the
    only possible error is "all decided no", and then every validator is decided no by the rules;
    otherwise the final state is sound (`JS`): every stored vote `((r, s), vote)` satisfies
    `vote.yes ↔ N.voteYes f (r.frame - f) r.id s`, yes-votes carry the unique candidate root of the
    subject, every stored decision is `N.DecidedYes` / `N.DecidedNo`; and a returned result `(f', a)`
    has `f' = f` and `N.IsAtropos f a`.
    The converse is `C10_single_election_complete` / `C10_single_election_same_result`.
    `_partial`: this is one election; the lifting to whole `Orderer` runs with restarts of the
    election after each decision is L5 below (`L5_process_invariant`), where "all decided no" is
    excluded by L6. -/
theorem C10_single_election_partial (N : Net) (vals : Vals) (f : Nat) (observe : Nat → Nat → Bool)
    (frameRoots : Nat → List Root) (S : Setup N vals f observe frameRoots) (rs : List Root)
    (hfc : FeedClosed observe frameRoots f [] rs) :
    (runRoots observe frameRoots (reset vals f) rs = .error .allNo ∧ ∀ v, v < N.nVals → N.DecidedNo f v) ∨
    (∃ el' res, runRoots observe frameRoots (reset vals f) rs = .ok (el', res) ∧ JS N vals f frameRoots el' ∧
      ∀ f' a, res = some (f', a) → f' = f ∧ N.IsAtropos f a) :=
  single_election S rs hfc

/-- The same with slot uniqueness discharged by L2: for every valid history with accepted frames,
    forkers below one third and total weight ≤ 2^31-1, with the canonical oracles (`observe` = `N.FC`,
    `frameRoots` = `rootsOf N`), every closed feed refines the rules. In particular the hypotheses
    `Setup` are satisfiable for every such history (non-vacuity; `exNet` above is one). -/
theorem C10_single_election_BFT (N : Net) (f : Nat) (hv : Valid N.nVals N.h) (hfa : N.FramesAccepted)
    (hbft : N.BFT) (htot : N.total ≤ 2147483647) (hf : f < 4294967296) (rs : List Root)
    (hfc : FeedClosed (fun a b => decide (N.FC a b)) (rootsOf N) f [] rs) :
    (runRoots (fun a b => decide (N.FC a b)) (rootsOf N) (reset (canonVals N) f) rs = .error .allNo ∧
      ∀ v, v < N.nVals → N.DecidedNo f v) ∨
    (∃ el' res, runRoots (fun a b => decide (N.FC a b)) (rootsOf N) (reset (canonVals N) f) rs = .ok (el', res) ∧
      JS N (canonVals N) f (rootsOf N) el' ∧ ∀ f' a, res = some (f', a) → f' = f ∧ N.IsAtropos f a) :=
  single_election (setup_exists N f hv hfa hbft htot hf) rs hfc

/-- every single `processRoot` call on a sound state, the step behind the theorem above -/
theorem C10_processRoot_refines (N : Net) (vals : Vals) (f : Nat) (observe : Nat → Nat → Bool)
    (frameRoots : Nat → List Root) (S : Setup N vals f observe frameRoots) (el : Election)
    (js : JS N vals f frameRoots el) (fed : List Root) (hst : Stored f fed el) (nr : Root)
    (hroot : nr ∈ frameRoots nr.frame) (hb : nr.frame < 4294967296)
    (hclosed : ∀ p ∈ frameRoots (nr.frame - 1), f < p.frame → observe nr.id p.id = true → p ∈ fed) :
    (processRoot observe frameRoots el nr = .error .allNo ∧ ∀ v, v < N.nVals → N.DecidedNo f v) ∨
    (∃ el' res, processRoot observe frameRoots el nr = .ok (el', res) ∧ JS N vals f frameRoots el' ∧
      (res = none → Stored f (nr :: fed) el') ∧ (∀ f' a, res = some (f', a) → f' = f ∧ N.IsAtropos f a)) :=
  processRoot_refines S js fed hst nr hroot hb hclosed

/-- The converse side: along any closed feed every decision that the rules derive from a fed root is
    stored (`Complete`), stored votes belong to fed roots and decided entries are decided stored votes
    (`JC`); after a run that returned nothing, `chooseAtropos` of the final state is "undecided". -/
theorem C10_single_election_complete (N : Net) (vals : Vals) (f : Nat) (observe : Nat → Nat → Bool)
    (frameRoots : Nat → List Root) (S : Setup N vals f observe frameRoots) (rs : List Root)
    (hfc : FeedClosed observe frameRoots f [] rs) (hne : rs ≠ []) (el' : Election) (res : Option (Nat × Nat))
    (h : runRoots observe frameRoots (reset vals f) rs = .ok (el', res)) :
    JC N f (rs.reverse ++ []) el' ∧ chooseAtropos el' = .ok res ∧
    (res = none → Complete N f (rs.reverse ++ []) el') := by
  obtain ⟨a, b, c⟩ := runRoots_complete S rs [] (reset vals f) (JS_reset N vals f frameRoots)
    (by intro r hr; cases hr) (JC_reset N vals f) (by intro r hr; cases hr) hfc (fun h => absurd h hne) el' res h
  exact ⟨a, b hne, fun h => (c h).1⟩

/-- Hence one election is independent of the feeding order: if some closed feed `rs₁` makes the model
    return `b`, every closed feed `rs₂` (other oracles for the same graph, other order) that contains
    the roots of `rs₁` of frames above `f` returns the same `b` — neither nothing nor an error. -/
theorem C10_single_election_same_result (N : Net) (f : Nat) (vals₁ vals₂ : Vals)
    (observe₁ observe₂ : Nat → Nat → Bool) (frameRoots₁ frameRoots₂ : Nat → List Root)
    (S₁ : Setup N vals₁ f observe₁ frameRoots₁) (S₂ : Setup N vals₂ f observe₂ frameRoots₂) (rs₁ rs₂ : List Root)
    (hfc₁ : FeedClosed observe₁ frameRoots₁ f [] rs₁) (hfc₂ : FeedClosed observe₂ frameRoots₂ f [] rs₂)
    (hsub : ∀ r ∈ rs₁, f < r.frame → r ∈ rs₂) (el₁ : Election) (b : Nat × Nat)
    (h₁ : runRoots observe₁ frameRoots₁ (reset vals₁ f) rs₁ = .ok (el₁, some b)) :
    ∃ el₂, runRoots observe₂ frameRoots₂ (reset vals₂ f) rs₂ = .ok (el₂, some b) :=
  same_result S₁ S₂ rs₁ rs₂ hfc₁ hfc₂ hsub el₁ b h₁

/-- non-vacuity (`Proofs/ElectionExample.lean`): one validator, a chain of three events accepted in
    frames 1, 2, 3. All hypotheses of L2 / L4 / `atropos_unique` hold; `Setup` holds with computable
    oracles; the feed "root of frame 2, root of frame 3" is closed; the model's election for frame 1
    returns event 0; hence, by `C10_single_election_partial`, event 0 is the Atropos of frame 1. -/
example : Valid ElectionExample.net.nVals ElectionExample.net.h ∧ ElectionExample.net.FramesAccepted ∧
    ElectionExample.net.BFT := ⟨ElectionExample.valid, ElectionExample.framesAccepted, ElectionExample.bft⟩
example : Setup ElectionExample.net ElectionExample.vals 1 ElectionExample.observe ElectionExample.frameRoots ∧
    FeedClosed ElectionExample.observe ElectionExample.frameRoots 1 [] ElectionExample.feed1 ∧
    ∃ el', runRoots ElectionExample.observe ElectionExample.frameRoots (reset ElectionExample.vals 1)
      ElectionExample.feed1 = .ok (el', some (1, 0)) :=
  ⟨ElectionExample.setup 1 (by decide), ElectionExample.feed1_closed, ElectionExample.run1⟩
example : ElectionExample.net.IsAtropos 1 0 := ElectionExample.atropos1
/-- non-vacuity of L3's hypotheses: the example history extends its two-event prefix -/
example : Extends { ElectionExample.net with h := ElectionExample.net.h.take 2 } ElectionExample.net :=
  ⟨⟨[{ creator := 0, seq := 3, parents := [1] }], rfl⟩, rfl, rfl, fun _ _ => rfl⟩

/-- non-vacuity: the hypotheses of `C10_single_election_BFT` hold for `exNet` and the empty feed -/
example : ∃ el', runRoots (fun a b => decide (exNet.FC a b)) (rootsOf exNet) (reset (canonVals exNet) 1) [] = .ok (el', none) :=
  ⟨_, rfl⟩
end Refinement

/-! ### (6) L6, and L5: whole `Orderer.process` runs -/
section Runs
open ElectionRules VecProofs ElectionRefine ElectionProofs OrdererProofs Model.Orderer

/-- L6: in a valid history with accepted frames and forkers below one third, for every frame `f ≥ 1`
    some validator is not decided "no" (weighted double counting over the round-1 votes,
    `Proofs/ElectionL6.lean`). For `f = 0` the statement is false (no roots to vote for). -/
theorem L6_not_all_decided_no (N : Net) : N.L6 := N.L6_holds

/-- L5, one step. `Ctx`: valid history `N`, accepted frames below 2^31, BFT, canonical validator record,
    `env.observe` = `N.FC`, no sealing. `OInv N vals done blocks s`: the instance has processed the
    events `done` (closed under ancestry), `s.roots` lists exactly the graph roots of those events
    (once each), it has emitted `blocks`, whose frames are 1, 2, … and whose Atropoi are those of the
    rules, and `s.ldf = blocks.length`. `OpenEl N vals s (fun _ => False)`: for some list `fed` of
    table roots containing every table root of a frame `> ldf + 1`, the open election `s.el` has
    `frameToDecide = ldf + 1`, every stored vote is `N.voteYes`, every stored decision is
    `N.DecidedYes/No` (`JS`), votes and decisions stem from fed roots (`JC`), every fed root has its
    votes stored (`Stored`), every decision the rules derive from a fed root is stored (`Complete`),
    and `chooseAtropos s.el = none` (nothing more is decidable from the known roots).
    Then `process` of a new event whose ancestors have all been processed is accepted — no
    wrong-frame, no election error — and re-establishes both with the event added and the new
    blocks appended. -/
theorem L5_process_invariant {N : Net} {vals : Vals} {env : Env} (C : Ctx N vals env) {done : List Nat}
    {blocks : List (Nat × Nat)} {s : OState} (I : OInv N vals done blocks s) (O : OpenEl N vals s (fun _ => False))
    (id : Nat) (hid : id < N.h.length) (hnew : id ∉ done) (hpar : ∀ x, Anc N.h id x → x ≠ id → x ∈ done) :
    ∃ s' ds, process env s id (N.creator id) (N.spf id) (N.fr id) = (s', .ok ds) ∧
      OInv N vals (id :: done) (blocks ++ ds.map blk) s' ∧ OpenEl N vals s' (fun _ => False) :=
  process_spec C I O id hid hnew hpar

/-- L5 for a whole run from the start of an epoch, in any parents-first order -/
theorem L5_run_invariant {N : Net} {vals : Vals} {env : Env} (C : Ctx N vals env) (ep : Nat) (ids : List Nat)
    (hpf : PFFrom N [] ids) :
    ∃ s ds, runIds N env ids (initial ep vals) [] = some (s, ds) ∧
      OInv N vals ids.reverse (ds.map blk) s ∧ OpenEl N vals s (fun _ => False) :=
  L5_run C ep ids hpf

/-- what the two invariants say, spelled out: (a) the table, (b) the open election, (c) completeness -/
theorem L5_facts {N : Net} {vals : Vals} {done : List Nat} {blocks : List (Nat × Nat)} {s : OState}
    (I : OInv N vals done blocks s) (O : OpenEl N vals s (fun _ => False)) :
    (∀ r, r ∈ s.roots ↔ (r.id ∈ done ∧ N.IsRoot r.id r.frame ∧ r.validator = N.creator r.id)) ∧
    s.el.frameToDecide = s.ldf + 1 ∧
    (∀ r v vote, ((r, v), vote) ∈ s.el.votes → r ∈ s.roots ∧ s.ldf + 1 < r.frame ∧
      (vote.yes = true ↔ N.voteYes (s.ldf + 1) (r.frame - (s.ldf + 1)) r.id v)) ∧
    (∀ v vote, (v, vote) ∈ s.el.decidedRoots →
      (vote.yes = true → N.DecidedYes (s.ldf + 1) v) ∧ (vote.yes = false → N.DecidedNo (s.ldf + 1) v)) ∧
    (∀ r ∈ s.roots, s.ldf + 1 < r.frame → ∀ v, v < N.nVals →
      (N.DecidesYes (s.ldf + 1) (r.frame - (s.ldf + 1)) r.id v ∨ N.DecidesNo (s.ldf + 1) (r.frame - (s.ldf + 1)) r.id v) →
      ∃ vote, s.el.decidedRoots.lookup v = some vote) ∧
    chooseAtropos s.el = .ok none := by
  obtain ⟨fed, E, hsub, hall⟩ := O
  refine ⟨I.table.mem, E.js.ftd, ?_, ?_, ?_, E.undecided⟩
  · intro r v vote hm
    obtain ⟨a, _, _, d, _⟩ := E.js.votes r v vote hm
    exact ⟨hsub r (E.jc.votes_fed r v vote hm), a, d⟩
  · intro v vote hm
    obtain ⟨_, b, c⟩ := E.js.decided v vote hm
    exact ⟨fun h => (b h).1, c⟩
  · intro r hr hfr v hv hd
    exact E.complete r ((hall r hr hfr).elim id False.elim) hfr v hv hd

/-- `C10_model_eq_rules_partial`: an instance of the model that processes all events of `N` in any
    parents-first order accepts every event and emits, for the frames 1, 2, …, exactly the Atropoi
    of the rules, and stops exactly at the first frame that has no Atropos by the rules.
    Hence "model blocks = blocks of the Prop-level rules" for `(frame, Atropos)` in one epoch.
    (`_partial`: hypotheses `Ctx` beyond valid events + BFT, no cheaters / confirmed events / epochs,
    and the rules are the Prop-level ones, not the executable reference.) -/
theorem C10_model_eq_rules_partial {N : Net} {vals : Vals} {env : Env} (C : Ctx N vals env) (ep : Nat)
    (ids : List Nat) (hpf : PFFrom N [] ids) (hall : ∀ e, e < N.h.length → e ∈ ids) :
    ∃ s ds, runIds N env ids (initial ep vals) [] = some (s, ds) ∧ s.ldf = ds.length ∧
      (∀ i (h : i < ds.length), (ds[i]).frame = i + 1 ∧ N.IsAtropos (i + 1) (ds[i]).atropos) ∧
      ∀ a, ¬ N.IsAtropos (ds.length + 1) a := by
  obtain ⟨s, ds, h, I, O⟩ := L5_run C ep ids hpf
  refine ⟨s, ds, h, by rw [I.ldf, List.length_map], ?_, ?_⟩
  · intro i hi
    have hi' : i < (ds.map blk).length := by rw [List.length_map]; exact hi
    have f1 := I.frames i hi'
    have a1 := I.atropoi _ (List.getElem_mem hi')
    rw [List.getElem_map] at f1 a1
    have f1' : (ds[i]).frame = i + 1 := f1
    exact ⟨f1', by rw [← f1']; exact a1⟩
  · intro a
    have := no_next_atropos C I O (fun e he => List.mem_reverse.2 (hall e he)) a
    rw [List.length_map] at this
    exact this

/-- non-vacuity: `Ctx`, the order and the run of the three-event example -/
example : Ctx ElectionExample.net ElectionExample.vals Example.env ∧ PFFrom ElectionExample.net [] [0, 1, 2] :=
  ⟨Example.ctx, Example.pf⟩
end Runs

/-! ### (7) the executable reference `Spec/Lachesis.lean` agrees with the Prop-level rules -/
section Reference
open Spec.Lachesis RefEquiv VecProofs

/-- bit-mask ancestry of the reference = `Anc` of the associated history (`histOf`: creators are
    canonical validator indices, parents are positions), for every instance built by `Inst.insert` -/
theorem reference_anc_eq_rules {ep : Nat} {vals : List (Nat × Nat)} {evs : List Ev} {s : Inst}
    (hb : Built ep vals evs s) {a : Nat} (ha : a < s.size) (x : Nat) :
    (bit (s.ancOf a) x = true ↔ Anc (histOf s) a x) ∧ (bit (s.descOf a) x = true ↔ Anc (histOf s) x a) :=
  ⟨ancOf_iff hb ha x, descOf_iff hb ha x⟩

/-- the reference's fork test and stored fork mask = `ForkSeen` -/
theorem reference_fork_eq_rules {ep : Nat} {vals : List (Nat × Nat)} {evs : List Ev} {s : Inst}
    (hb : Built ep vals evs s) {a v : Nat} (ha : a < s.size) (hv : v < s.nv) :
    (s.forkIn (s.ancOf a) v = true ↔ ForkSeen (histOf s) a v) ∧ (bit (s.forksOf a) v = true ↔ ForkSeen (histOf s) a v) :=
  ⟨forkIn_iff hb ha hv, forks_iff hb ha v⟩

/-- C06 oracle: `hbSpec` is "fork" exactly when a fork is visible, otherwise the highest observed seq -/
theorem reference_hb_eq_rules {ep : Nat} {vals : List (Nat × Nat)} {evs : List Ev} {s : Inst}
    (hb : Built ep vals evs s) {a v : Nat} (ha : a < s.size) (hv : v < s.nv) :
    (s.hbSpec a v = none ↔ ForkSeen (histOf s) a v) ∧
    (∀ m, s.hbSpec a v = some m ↔ (¬ ForkSeen (histOf s) a v ∧ MaxSeq (histOf s) a v m)) :=
  ⟨hbSpec_none_iff hb ha v, fun _ => ⟨hbSpec_some hb ha hv, fun h => hbSpec_of_maxSeq hb ha hv h.1 h.2⟩⟩

/-- C05 oracle: `fcSpec` = `FCSpec` = `Net.FC` of the associated net (same quorum) -/
theorem reference_fc_eq_rules {ep : Nat} {vals : List (Nat × Nat)} {evs : List Ev} {s : Inst}
    (hb : Built ep vals evs s) {a b : Nat} (ha : a < s.size) (hbb : b < s.size) :
    (s.fcSpec a b = true ↔ (netOf s).FC a b) ∧
    (s.fcSpec a b = true ↔ FCSpec (histOf s) s.nv s.weightIdx s.quorum a b) ∧ (netOf s).quorum = s.quorum :=
  ⟨fcSpec_iff_FC hb ha hbb, fcSpec_iff_FCSpec hb ha hbb, quorum_netOf s⟩

/-- the same for every state the oracle reaches from `Inst.fresh` through `process` (sealing included) -/
theorem reference_fc_eq_rules_reachable {s : Inst} (hr : Reach s) {a b : Nat} (ha : a < s.size) (hbb : b < s.size) :
    s.fcSpec a b = true ↔ (netOf s).FC a b := hr.good.fcSpec_iff_FC ha hbb

/-- the associated history is `Valid` when every inserted event passes the event checks (`GoodEv`) -/
theorem reference_hist_valid {ep : Nat} {vals : List (Nat × Nat)} {evs : List Ev} {s : Inst}
    (hg : GoodBuilt ep vals evs s) : Valid s.nv (histOf s) := hg.valid

/-- non-vacuity: a concrete instance (2 validators, 3 events) built with `insert` -/
example : Built 1 RefEquiv.exVals exEvs exInst ∧ GoodBuilt 1 RefEquiv.exVals exEvs exInst := ⟨exBuilt, exGoodBuilt⟩
end Reference

/-! ### (8) the frame and election part of the executable reference; model = reference -/
section ReferenceElection
open Spec.Lachesis RefEquiv VecProofs ElectionRules OrdererProofs Model.Orderer
open Spec.Lachesis.Inst (Block)

/-- `rootsAt f` lists exactly the positions with `IsRoot · f`, ascending (each once) — for every state
    the oracle reaches (seals included) -/
theorem reference_roots_eq_rules {s : Inst} (hr : Reach s) (f : Nat) :
    (∀ r, r ∈ s.rootsAt f ↔ (netOf s).IsRoot r f) ∧ (s.rootsAt f).Pairwise (· < ·) :=
  ⟨fun _ => mem_rootsAt hr.good.inv, rootsAt_pairwise s f⟩

/-- `quorumOn i f`: the roots of frame `f` other than `i` that `i` forkless-causes hold a quorum by
    creator — the quantity of `Net.Allowed`; frame 0 never has a quorum -/
theorem reference_quorumOn_eq_rules {s : Inst} (hr : Reach s) {i : Nat} (hi : i < s.size) (f : Nat) :
    (s.quorumOn i f = true ↔ (netOf s).quorum ≤ (netOf s).causedWeight i f (fun r => r ≠ i)) ∧
    s.quorumOn i 0 = false :=
  ⟨quorumOn_iff hr.good hi f, quorumOn_zero s i⟩

/-- the frame check. In a run of the reference (`Run`: one epoch, no seals, checked events), for the
    next checked event `e` that `insert` can place (giving `s1`; `e` sits at position `s.size`):
    `allowed` = the frame rule `Net.Allowed` of the rules = C04's `Allowed` on `quorumOn` and the
    self-parent frame = the model's `frameAccepted`; and once it passes, all frames are accepted -/
theorem reference_allowed_eq_rules {ep : Nat} {vals : List (Nat × Nat)} {evs : List Ev} {s s1 : Inst}
    {out : List Block} {e : Ev} (hrun : Run ep vals evs s out) (hge : GoodEv s e) (h : s.insert e = some s1) :
    (s1.allowed s.size = true ↔ (netOf s1).Allowed s.size e.frame) ∧
    (s1.allowed s.size = true ↔ C04.Allowed (s1.quorumOn s.size) (s1.selfParentFrame e) e.frame) ∧
    s1.allowed s.size = Model.Election.frameAccepted (s1.quorumOn s.size) (s1.selfParentFrame e) e.frame ∧
    (s1.allowed s.size = true → (netOf s1).FramesAccepted) := by
  have I := run_inv hrun
  have hev := ev_insert_new h
  have hsp : 1 < (s1.ev s.size).seq → (s1.ev s.size).parents ≠ [] → 1 ≤ s1.selfParentFrame (s1.ev s.size) := by
    rw [hev]; exact fun h1 _ => (spf_pos_insert I.good I.valid I.fa hge h h1).2
  have h2 := allowed_iff_C04 s1 s.size hsp
  have h3 := allowed_eq_frameAccepted s1 s.size hsp
  rw [hev] at h2 h3
  exact ⟨(framesAccepted_insert I.good I.valid I.fa hge h).1, h2, h3,
    (framesAccepted_insert I.good I.valid I.fa hge h).2⟩

/-- `process` accepts exactly the allowed frames: an event of the current epoch that `insert` can
    place is accepted iff its claimed frame obeys the frame rule, otherwise answered "wrong frame"
    with the instance unchanged -/
theorem reference_process_accepts_iff_allowed {ep : Nat} {vals : List (Nat × Nat)} {evs : List Ev}
    {s s1 : Inst} {out : List Block} {e : Ev} (hrun : Run ep vals evs s out) (hge : GoodEv s e)
    (hep : e.epoch = s.epoch) (h : s.insert e = some s1) :
    ((∃ s' bs, process [] s e = (s', .ok bs)) ↔ (netOf s1).Allowed s.size e.frame) ∧
    (process [] s e = (s, .wrongFrame) ↔ ¬ (netOf s1).Allowed s.size e.frame) := by
  have h1 := (reference_allowed_eq_rules hrun hge h).1
  have h2 := process_accepts_iff [] hep h
  refine ⟨h2.1.trans h1, h2.2.trans ?_⟩
  rw [← h1]
  exact ⟨fun h => by rw [h]; exact Bool.false_ne_true, fun h => by simpa using h⟩

/-- `build` assigns the model's `calcFrameIdx` = the highest allowed frame, at most 100 above the
    self-parent's (frames < 2^31) -/
theorem reference_build_max {s s1 : Inst} {e : Ev} (h : s.insert e = some s1)
    (hb : s1.selfParentFrame e < 2147483648) :
    Spec.Lachesis.build s e = some (s1.maxFrame s.size) ∧
    s1.maxFrame s.size = Model.Election.calcFrameIdx (s1.quorumOn s.size) (s1.selfParentFrame e) 0 false ∧
    C04.Allowed (s1.quorumOn s.size) (s1.selfParentFrame e) (s1.maxFrame s.size) ∧
    s1.maxFrame s.size ≤ max 1 (s1.selfParentFrame e + 100) ∧
    ∀ f, C04.Allowed (s1.quorumOn s.size) (s1.selfParentFrame e) f → f ≤ s1.selfParentFrame e + 100 →
      f ≤ s1.maxFrame s.size := by
  have hev := ev_insert_new h
  have hb' : s1.selfParentFrame (s1.ev s.size) < 2147483648 := by rw [hev]; exact hb
  have h1 := maxFrame_eq_calcFrameIdx s1 s.size hb'
  have h2 := maxFrame_spec s1 s.size hb'
  rw [hev] at h1 h2
  exact ⟨by unfold Spec.Lachesis.build; rw [h], h1, h2⟩

/-- votes: the table that `electionFrom` computes for the roots of frame `f + k` (`votesAt s f k`:
    round 1 by `votesOfFrame` from nothing, round `k + 1` from round `k`) holds, for every root `r`
    of that frame and every validator `v`: `yes ↔ voteYes f k r v`; `decided ↔ DecidesYes ∨ DecidesNo`,
    a decided yes being a `DecidesYes` and a decided no a `DecidesNo`; a yes-vote carries a root of `v`
    in frame `f` forkless-caused by a root of frame `f + 1` -/
theorem reference_votes_eq_rules {ep : Nat} {vals : List (Nat × Nat)} {evs : List Ev} {s : Inst}
    {out : List Block} (hrun : Run ep vals evs s out) (f k : Nat) (hk : 1 ≤ k) {r v : Nat}
    (hr : (netOf s).IsRoot r (f + k)) (hv : v < s.nv) :
    let vt := Inst.lookupVote (votesAt s f k) r v
    (vt.yes = true ↔ (netOf s).voteYes f k r v) ∧
    (vt.decided = true ↔ ((netOf s).DecidesYes f k r v ∨ (netOf s).DecidesNo f k r v)) ∧
    (vt.decided = true → vt.yes = true → (netOf s).DecidesYes f k r v) ∧
    (vt.decided = true → vt.yes = false → (netOf s).DecidesNo f k r v) ∧
    (vt.yes = true → (netOf s).IsRoot vt.obs f ∧ (netOf s).creator vt.obs = v ∧
      ∃ r1, (netOf s).IsRoot r1 (f + 1) ∧ (netOf s).FC r1 vt.obs) := by
  have I := run_inv hrun
  obtain ⟨h1, h2, h3, h4, h5⟩ := votesAt_ok I.good I.fa f k hk r v ((mem_rootsAt I.good.inv).2 hr) hv
  refine ⟨h1, ⟨fun hd => ?_, h4⟩, h2, h3, h5⟩
  cases hy : (Inst.lookupVote (votesAt s f k) r v).yes with
  | true => exact Or.inl (h2 hd hy)
  | false => exact Or.inr (h3 hd hy)

/-- the election: in every state of a run, `atroposSpec f` returns root `a` exactly when `a` is the
    Atropos of frame `f` by the rules (← needs BFT: uniqueness, L2/L4); it returns "undecided" exactly
    when frame `f ≥ 1` has no Atropos, and never "all no" (L6); without BFT: a returned root is the
    Atropos, "undecided" means that the first validator not decided "no" is undecided -/
theorem reference_atropos_eq_rules {ep : Nat} {vals : List (Nat × Nat)} {evs : List Ev} {s : Inst}
    {out : List Block} (hrun : Run ep vals evs s out) (f : Nat) :
    (∀ a, s.atroposSpec f = .atropos a → (netOf s).IsAtropos f a) ∧
    (s.atroposSpec f = .undecided → s.nv = 0 ∨ ∃ v, v < s.nv ∧ (∀ u, u < v → (netOf s).DecidedNo f u) ∧
      ¬ (netOf s).DecidedYes f v ∧ ¬ (netOf s).DecidedNo f v) ∧
    (s.atroposSpec f = .allNo → ∀ u, u < s.nv → (netOf s).DecidedNo f u) ∧
    ((netOf s).BFT → (∀ a, s.atroposSpec f = .atropos a ↔ (netOf s).IsAtropos f a) ∧
      (1 ≤ f → (s.atroposSpec f = .undecided ↔ ∀ a, ¬ (netOf s).IsAtropos f a) ∧ s.atroposSpec f ≠ .allNo)) := by
  have I := run_inv hrun
  exact ⟨fun a => atroposSpec_sound I.good I.valid I.fa, atroposSpec_undecided I.good I.valid I.fa,
    atroposSpec_allNo I.good I.valid I.fa,
    fun hbft => ⟨atroposSpec_iff I.good I.valid I.fa hbft f,
      fun hf => ⟨atroposSpec_undecided_iff I.good I.valid I.fa hbft hf,
        atroposSpec_ne_allNo I.good I.valid I.fa hbft hf⟩⟩⟩

/-- `decideLoop` (no seals) from any state of a run: it emits `n` blocks, for the frames
    `ldf + 1, …, ldf + n`, block `j` carrying the protocol number of the Atropos of frame
    `ldf + 1 + j` (and as cheaters the ids of the validators in the stored fork mask of the Atropos),
    only advances `ldf` by `n` and `confirmed`, and — unless the fuel ran out — under BFT frame
    `ldf + n + 1` has no Atropos. (In `process` the fuel `size + 2` never runs out:
    `reference_blocks_eq_rules`.) -/
theorem reference_decideLoop_eq_rules {ep : Nat} {vals : List (Nat × Nat)} {evs : List Ev} {s : Inst}
    {out : List Block} (hrun : Run ep vals evs s out) (fuel : Nat) (acc : List Block) :
    ∃ n c bs, decideLoop [] fuel s acc = ({ s with ldf := s.ldf + n, confirmed := c }, acc ++ bs) ∧
      bs.length = n ∧
      (∀ j (h : j < bs.length), (bs[j]).frame = s.ldf + 1 + j ∧ ∃ a, a < s.size ∧
        (bs[j]).atropos = (s.ev a).n ∧ (netOf s).IsAtropos (s.ldf + 1 + j) a ∧
        (bs[j]).cheaters = ((List.range s.nv).filter (fun v => Spec.Lachesis.bit (s.forksOf a) v)).map s.idOf) ∧
      (n = fuel ∨ ((netOf s).BFT → ∀ a, ¬ (netOf s).IsAtropos (s.ldf + n + 1) a)) := by
  have I := run_inv hrun
  obtain ⟨n, c, bs, h1, h2, h3, h4⟩ := decideLoop_spec fuel s acc I.good I.valid I.fa
  refine ⟨n, c, bs, h1, h2, fun j hj => ?_, h4⟩
  obtain ⟨a1, _, _, a, a2, a3, a4, a5⟩ := blocksFrom_get s s.ldf bs h3 j hj
  exact ⟨a1, a, a2, a3, a4, a5⟩

/-- the block sequence of a run of the reference = the block sequence of the rules: `ldf` blocks;
    block `i` has frame `i + 1`, is not sealed, carries the protocol number of the Atropos of frame
    `i + 1` and, as cheaters, the ids (canonical order) of exactly the validators with a fork visible
    in the ancestry of that Atropos; under BFT frame `ldf + 1` has no Atropos (the loop stopped
    because nothing more is decidable, not for lack of fuel) -/
theorem reference_blocks_eq_rules {ep : Nat} {vals : List (Nat × Nat)} {evs : List Ev} {s : Inst}
    {out : List Block} (hrun : Run ep vals evs s out) :
    s.ldf = out.length ∧
    (∀ i (h : i < out.length), (out[i]).frame = i + 1 ∧ (out[i]).sealed = false ∧
      ∃ a, a < s.size ∧ (out[i]).atropos = (s.ev a).n ∧ (netOf s).IsAtropos (i + 1) a ∧
        (out[i]).cheaters = ((List.range s.nv).filter (fun v => Spec.Lachesis.bit (s.forksOf a) v)).map s.idOf ∧
        ∀ v, Spec.Lachesis.bit (s.forksOf a) v = true ↔ ForkSeen (histOf s) a v) ∧
    ((netOf s).BFT → ∀ a, ¬ (netOf s).IsAtropos (out.length + 1) a) :=
  reference_blocks hrun

/-- `C10_model_eq_reference_partial`: model blocks = reference blocks for one epoch.
    Let the executable reference accept the checked events `evs` (`Run`: started from
    `start ep rvals` = `Inst.fresh`, through `process` without seals), ending in state `s` with the
    blocks `out`. Let the implementation-level model (`Model.Orderer.process` via `runIds`) process the
    events of the net of `s` in ANY parents-first order `ids` covering all of them, under `Ctx`.
    Then the model accepts every event, ends with the same last decided frame, and its decided
    `(frame, Atropos)` list is the reference's block `(frame, Atropos)` list (the reference names the
    Atropos by protocol number: `(s.ev a).n` for the model's position `a`).
    `_partial`: one epoch, no seals; `(frame, Atropos)` only (cheaters: `reference_blocks_eq_rules` /
    C03; confirmed events: C02); hypotheses `Ctx` (see `C10_model_eq_reference_canon`). -/
theorem C10_model_eq_reference_partial {ep : Nat} {rvals : List (Nat × Nat)} {evs : List Ev} {s : Inst}
    {out : List Block} (hrun : Run ep rvals evs s out) {vals : Vals} {env : Env}
    (C : Ctx (netOf s) vals env) (mep : Nat) (ids : List Nat) (hpf : PFFrom (netOf s) [] ids)
    (hall : ∀ e, e < s.size → e ∈ ids) :
    ∃ sm ds, runIds (netOf s) env ids (initial mep vals) [] = some (sm, ds) ∧ sm.ldf = s.ldf ∧
      ds.map (fun d => (d.frame, (s.ev d.atropos).n)) = out.map (fun b => (b.frame, b.atropos)) :=
  model_eq_reference hrun C mep ids hpf hall

/-- the same with every graph hypothesis discharged by the run itself (validity and accepted frames
    are consequences of `Run`): what remains is BFT, the 31-bit bounds, and the canonical model
    inputs (`canonVals`, `canonEnv`: oracle = `N.FC`, no seal); the model is fed the events in the
    order in which the reference accepted them -/
theorem C10_model_eq_reference_canon {ep : Nat} {rvals : List (Nat × Nat)} {evs : List Ev} {s : Inst}
    {out : List Block} (hrun : Run ep rvals evs s out) (hbft : (netOf s).BFT)
    (hb : FrameBound (netOf s)) (htot : (netOf s).total ≤ 2147483647) (mep : Nat) :
    ∃ sm ds, runIds (netOf s) (canonEnv (netOf s)) (List.range s.size)
        (initial mep (ElectionRefine.canonVals (netOf s))) [] = some (sm, ds) ∧ sm.ldf = s.ldf ∧
      ds.map (fun d => (d.frame, (s.ev d.atropos).n)) = out.map (fun b => (b.frame, b.atropos)) :=
  model_eq_reference_canon hrun hbft hb htot mep

/-- what a run is: its events are the instance's events, its validators never change, and the
    reference's own constructor starts one -/
theorem reference_run_facts {ep : Nat} {rvals : List (Nat × Nat)} {evs : List Ev} {s : Inst}
    {out : List Block} (hrun : Run ep rvals evs s out) (pairs : List (Nat × Nat)) :
    s.evs.toList = evs ∧ s.vals = rvals ∧ Valid s.nv (histOf s) ∧ (netOf s).FramesAccepted ∧
    Run ep (canonVals pairs) [] (Inst.fresh ep pairs) [] :=
  ⟨run_evs hrun, run_vals hrun, (run_inv hrun).valid, (run_inv hrun).fa, Run.nil⟩

/-- non-vacuity: a run (one validator, one accepted event) satisfying all hypotheses of
    `C10_model_eq_reference_canon` -/
example : ∃ s out, Run 1 exV1 [exE0] s out ∧ (netOf s).BFT ∧ FrameBound (netOf s) ∧
    (netOf s).total ≤ 2147483647 := by
  obtain ⟨s, out, h⟩ := exRun1
  exact ⟨s, out, h, exRun1_hyps h⟩

end ReferenceElection

/-! ## Several epochs: model = reference with seals (`Proofs/RefEpochs*.lean`)

The reference consults the application's seal table inside `decideLoop`; a sealing instance is computed
from the instance with the empty table (the setting of everything above) exactly as
`Proofs/OrdererEpochs*.lean` does for the model: of the blocks `bs` of the unsealing call it emits
`rcut seals ep bs` — the prefix up to and including the first frame with a table entry, that block
marked sealed — and is then *exactly* `Inst.fresh (ep + 1) pairs` (`reference_process_seal`). Whole
epochs: `refEpoch` / `refEpochs` (reference) beside `runEpoch` / `runEpochs` (model, C01); the one-epoch
theorem above applies to each epoch's unsealing runs, and equal sequences are cut at the same place. -/
section ReferenceEpochs
open Spec.Lachesis RefEquiv RefEpochs OrdererEpochs OrdererProofs Model.Orderer
open Spec.Lachesis.Inst (Block)

/-- the reference when the seal table fires (about `Spec/Lachesis.lean` as it is): if `process` with the
    empty table accepts `e` and emits `bs`, then `process seals` returns the same unless the table has
    an entry at the frame of one of these blocks; in that case it emits the blocks up to and including
    the first such frame (that one marked sealed) and returns *exactly* the fresh instance of epoch + 1
    over the validators of that entry -/
theorem reference_process_seal (seals : Seals) {s s' : Inst} {e : Ev} {bs : List Block}
    (h : process [] s e = (s', .ok bs)) :
    process seals s e =
      match rcut seals s.epoch bs with
      | none => (s', .ok bs)
      | some (l, nv) => (Inst.fresh (s.epoch + 1) nv, .ok l) :=
  process_sim seals h

/-- **`C10_model_eq_reference_epochs_partial`: model = reference over several epochs.**
    `ps` lists, per epoch, the events the reference accepts (in the reference's own order), the
    reference's end state `fin` of that epoch under the empty seal table (it names the epoch's graph
    `netOf fin` and its events: position ↦ protocol number, as in `C10_model_eq_reference_partial`), and
    the model's oracles and processing order. The reference is driven by `refEpochs seals` from
    `start ep rvals` (= `Inst.fresh ep pairs` when `rvals = canonVals pairs`), the model by C01's
    `runEpochs` from `initial ep vals` (`runEpochsNamed` = `runEpochs` with each epoch's Atropoi named
    by protocol number); both stop an epoch at the `process` call that seals and do not submit the
    rest of the epoch's events. Then both accept everything they are given, emit the same sequence
    `(epoch, frame, Atropos, sealed)`, and make the same transitions (`SameTransitions`): every sealed
    epoch is sealed by entries `sealAt e F = some nv`, `seals.lookup (e, F) = some pairs` for the same
    `(e, F)`, after which the model is exactly `initial (e+1) nv` and the reference exactly
    `Inst.fresh (e+1) pairs`; if the last listed epoch is not sealed, both are in that epoch with its
    validators and the same last decided frame.

    Remaining hypotheses (`RefEpochs.BothOK seals sealAt ep rvals vals ps`, by recursion over the epochs,
    for the epoch `ep` with reference validators `rvals` and model validators `vals`):
    * `Run ep rvals p.evs p.fin out` — the reference with the empty table accepts the epoch's checked
      events `p.evs` (every event `GoodEv`) and ends in `p.fin`;
    * `Ctx (netOf p.fin) vals (noSeal p.env)` — as in `C10_model_eq_reference_partial`: forkers below one
      third (BFT), accepted frames < 2^31, `vals` the canonical record of the epoch's validators with
      total ≤ 2^31-1, the model's forkless-cause oracle of this epoch answers `N.FC` (C05, C12);
    * `p.env.sealAt = sealAt` — one application for all epochs;
    * `PFFrom (netOf p.fin) [] p.ids`, `∀ e < p.fin.size, e ∈ p.ids` — the model's order is parents-first
      and covers the epoch's events;
    * `ep + 1 < 2^32` — the model's epoch counter does not wrap;
    * `SealsAgree seals sealAt ep` — table and application have entries at the same frames of `ep`;
    * for every pair of entries `sealAt ep F = some nv`, `seals.lookup (ep, F) = some pairs`:
      `BothOK` for the remaining epochs from `(ep+1, canonVals pairs, nv)` (so "`nv` is the canonical
      record of `pairs`" is the next epoch's `Ctx`).
    `_partial`: `(epoch, frame, Atropos, sealed)` only (cheaters C03, confirmed events C02); events of
    an old epoch arriving after its seal are not submitted (as in `C01_multi_epoch_partial`). -/
theorem C10_model_eq_reference_epochs_partial (seals : Seals) (sealAt : Nat → Nat → Option Vals)
    (ps : List EpochBoth) (ep : Nat) (rvals : List (Nat × Nat)) (vals : Vals)
    (hok : BothOK seals sealAt ep rvals vals ps) :
    ∃ sm sr bs, runEpochsNamed ps (initial ep vals) [] = some (sm, bs.map bkey) ∧
      refEpochs seals (ps.map (·.evs)) (start ep rvals) [] = some (sr, bs) ∧
      SameTransitions seals sealAt ep rvals vals ps sm sr ∧ sm.epoch = sr.epoch ∧ sm.ldf = sr.ldf ∧
      ∃ ds, runEpochs (ps.map EpochBoth.model) (initial ep vals) [] = some (sm, ds) ∧
        ds.map (fun d => (d.epoch, d.frame, d.sealed)) = bs.map (fun b => (b.epoch, b.frame, b.sealed)) := by
  obtain ⟨sm, sr, bs, h1, h2, h3⟩ := epochs_model_eq_reference seals sealAt ps ep rvals vals [] hok
  obtain ⟨ds, h4, h5⟩ := runEpochsNamed_runEpochs ps (initial ep vals) [] [] rfl sm _ h1
  refine ⟨sm, sr, bs, h1, h2, h3, (sameTransitions_end _ _ _ _ _ _ _ _ h3).1,
    (sameTransitions_end _ _ _ _ _ _ _ _ h3).2, ds, h4, ?_⟩
  rw [← h5, List.map_map]
  rfl

/-- one epoch that may be sealed (the step of the theorem above) -/
theorem C10_model_eq_reference_epoch_partial {ep : Nat} {rvals : List (Nat × Nat)} {evs : List Ev} {s : Inst}
    {out : List Block} (hrun : Run ep rvals evs s out) {vals : Vals} {env : Env}
    (C : Ctx (netOf s) vals (noSeal env)) (seals : Seals) (hs : SealsAgree seals env.sealAt ep)
    (ids : List Nat) (hpf : PFFrom (netOf s) [] ids) (hall : ∀ e, e < s.size → e ∈ ids)
    (hepb : ep + 1 < 4294967296) :
    ∃ sm ds skm sr bs skr, runEpoch (netOf s) env ids (initial ep vals) [] = some (sm, ds, skm) ∧
      refEpoch seals evs (start ep rvals) [] = some (sr, bs, skr) ∧
      ds.map (dkey (fun a => (s.ev a).n)) = bs.map bkey ∧
      ((ds.any (·.sealed) = true ∧ bs.any (·.sealed) = true ∧ ∃ F nv pairs, env.sealAt ep F = some nv ∧
          seals.lookup (ep, F) = some pairs ∧ sm = initial (ep + 1) nv ∧ sr = Inst.fresh (ep + 1) pairs) ∨
       (ds.any (·.sealed) = false ∧ bs.any (·.sealed) = false ∧ skm = [] ∧ skr = [] ∧ sm.epoch = ep ∧
          sr.epoch = ep ∧ sm.vals = vals ∧ sr.vals = rvals ∧ sm.ldf = sr.ldf)) :=
  epoch_model_eq_reference hrun C seals hs ids hpf hall hepb

/-- non-vacuity (`Proofs/RefEpochs5.lean`): one validator, two epochs with a chain of three events each
    (frames 1, 2, 3); table and application seal epoch 1 at frame 1. All hypotheses hold, and both
    sides emit `(1, 1, 10, sealed)`, `(2, 1, 20, unsealed)` (the reference evaluated by the kernel). -/
example : BothOK Example.exSeals Example.exSealAt 1 Example.v1 Example.valsA [Example.pA, Example.pB] ∧
    ∃ sm sr bs, runEpochsNamed [Example.pA, Example.pB] (initial 1 Example.valsA) [] = some (sm, bs.map bkey) ∧
      refEpochs Example.exSeals [Example.chain 1 10, Example.chain 2 20] (start 1 Example.v1) [] = some (sr, bs) ∧
      bs.map bkey = [(1, 1, 10, true), (2, 1, 20, false)] ∧
      SameTransitions Example.exSeals Example.exSealAt 1 Example.v1 Example.valsA [Example.pA, Example.pB] sm sr ∧
      sm.epoch = sr.epoch ∧ sm.ldf = sr.ldf :=
  Example.example_two_epochs

end ReferenceEpochs

/-! ### non-vacuity -/
def exampleElection : Election :=
  { frameToDecide := 7
    vals := { sorted := [(5, 3), (2, 1)], total := 4 }
    decidedRoots := [(2, { decided := true, yes := true, observedRoot := 42 }), (5, { decided := true, yes := false })]
    votes := [] }

example : chooseAtropos exampleElection = .ok (some (7, 42)) := by rfl

end C10
