import LachesisVerif.Model.Leecher
import LachesisVerif.Gen.FactsC18
/-!
# C18 — Leechers respect flow control and peer removal

"A peer leecher never has more requested-but-unprocessed chunks than its parallelism limit,
issues no request while suspended, and stops once the download is reported done. The base
leecher runs at most one session at a time, and once a peer is unregistered no session with
that peer is running or started later, and no session starts after termination."

Statements about `Model.Leecher.Peer` (loop of `BasePeerLeecher`: events `chunk`, `tick`,
external `terminate`; callbacks `Done`, `IsProcessed`, `Suspend` as per-event oracles) and
`Model.Leecher.Base` (`Routine`, `RegisterPeer`, `UnregisterPeer`, `Terminate`; the
application's sessions as the explicit variable `running`, candidates = the listed peers that
are registered at the time of the call). All comparisons are `Gen.Leecher.*`, regenerated from
the Go source on every run. Every theorem quantifies over all operation sequences and all
oracle answers.
-/
namespace C18
open Model.Leecher

/-! ## the peer leecher -/
section peer
open Model.Leecher.Peer

/-- requested-but-unprocessed chunks never exceed the parallelism limit -/
def Window (st : St) : Prop := st.requested ≤ st.processed + st.parallel

theorem tryToSync_spec (o : Oracle) (st : St) (h : Window st) :
    Window (tryToSync o st).1 ∧ (tryToSync o st).1.parallel = st.parallel ∧
    (tryToSync o st).1.stopped = st.stopped ∧ (tryToSync o st).1.processed = st.processed ∧
    (o.suspend = true → (tryToSync o st).2 = none) ∧
    (∀ n, (tryToSync o st).2 = some n → 0 < n ∧ st.requested + n = st.processed + st.parallel ∧
      (tryToSync o st).1.requested = st.requested + n) := by
  unfold tryToSync Window at *
  by_cases hs : o.suspend = true
  · rw [if_pos hs]; exact ⟨h, by simp, by simp, by simp, by simp, by simp⟩
  · rw [if_neg hs]
    by_cases hw : Gen.Leecher.windowOpen st.requested st.processed st.parallel = true
    · rw [if_pos hw]
      simp only [Gen.Leecher.windowOpen, decide_eq_true_eq] at hw
      simp only [Gen.Leecher.requestsToSend, Gen.Leecher.requestedAfter]
      refine ⟨by omega, by simp, by simp, by simp, fun h => absurd h hs, ?_⟩
      intro n hn
      simp only [Option.some.injEq] at hn
      omega
    · rw [if_neg hw]
      exact ⟨h, rfl, rfl, rfl, fun _ => rfl, fun n hn => (by cases hn)⟩

theorem sweep_spec (o : Oracle) (st : St) (h : Window st) :
    Window (sweep o st) ∧ (sweep o st).parallel = st.parallel ∧ (sweep o st).stopped = st.stopped ∧
    (sweep o st).requested = st.requested ∧ st.processed ≤ (sweep o st).processed := by
  unfold Window at *
  refine ⟨?_, rfl, rfl, rfl, ?_⟩ <;> simp only [sweep] <;> omega

theorem routine_spec (o : Oracle) (st : St) (h : Window st) :
    Window (routine o st).1 ∧ (routine o st).1.parallel = st.parallel ∧
    (o.done = true → (routine o st).1.stopped = true ∧ (routine o st).2 = none) ∧
    (o.suspend = true → (routine o st).2 = none) ∧
    (∀ n, (routine o st).2 = some n → 0 < n ∧
      (routine o st).1.requested = (routine o st).1.processed + (routine o st).1.parallel) ∧
    (st.stopped = true → (routine o st).1.stopped = true) := by
  unfold routine
  by_cases hd : o.done = true
  · rw [if_pos hd]
    exact ⟨h, rfl, fun _ => ⟨rfl, rfl⟩, fun _ => rfl, fun n hn => (by cases hn), fun _ => rfl⟩
  · rw [if_neg hd]
    obtain ⟨w1, p1, s1, r1, _⟩ := sweep_spec o st h
    obtain ⟨w2, p2, s2, pr2, su2, rq2⟩ := tryToSync_spec o (sweep o st) w1
    refine ⟨w2, by rw [p2, p1], fun h => absurd h hd, su2, ?_, fun hs => by rw [s2, s1]; exact hs⟩
    intro n hn
    obtain ⟨hpos, e1, e2⟩ := rq2 n hn
    exact ⟨hpos, by rw [e2, pr2, p2]; exact e1⟩

/-- what one loop event does -/
theorem step_spec (st : St) (op : Op) (h : Window st) :
    Window (step st op).1 ∧ (step st op).1.parallel = st.parallel ∧
    (st.stopped = true → (step st op).1.stopped = true ∧ (step st op).2 = none) ∧
    (∀ n, (step st op).2 = some n → 0 < n ∧
      (step st op).1.requested = (step st op).1.processed + (step st op).1.parallel) := by
  cases op with
  | terminate => exact ⟨h, rfl, fun _ => ⟨rfl, rfl⟩, fun n hn => (by cases hn)⟩
  | tick o =>
    simp only [step]
    by_cases hs : st.stopped = true
    · rw [if_pos hs]; exact ⟨h, rfl, fun _ => ⟨hs, rfl⟩, fun n hn => (by cases hn)⟩
    · rw [if_neg hs]
      obtain ⟨a, b, _, _, e, _⟩ := routine_spec o st h
      exact ⟨a, b, fun x => absurd x hs, e⟩
  | chunk id o =>
    simp only [step]
    by_cases hs : st.stopped = true
    · rw [if_pos hs]; exact ⟨h, rfl, fun _ => ⟨hs, rfl⟩, fun n hn => (by cases hn)⟩
    · rw [if_neg hs]
      split
      · obtain ⟨a, b, _, _, e, _⟩ := routine_spec o { st with processing := st.processing ++ [id] } h
        exact ⟨a, b, fun x => absurd x hs, e⟩
      · exact ⟨h, rfl, fun x => absurd x hs, fun n hn => (by cases hn)⟩

/-- **Window.** After any sequence of chunk arrivals, ticks and terminations, with any answers of
    `Done`/`IsProcessed`/`Suspend`, the number of requested chunks exceeds the number of chunks
    the leecher has seen processed by at most `ParallelChunksDownload`; every `RequestChunks`
    call asks for at least one chunk and fills the window exactly. -/
theorem C18_window (par : Nat) (ops : List Op) :
    let z := run { parallel := par } ops
    z.1.requested ≤ z.1.processed + par ∧ ∀ n, some n ∈ z.2 → 0 < n := by
  have key : ∀ st, Window st → Window (run st ops).1 ∧ (run st ops).1.parallel = st.parallel ∧
      ∀ n, some n ∈ (run st ops).2 → 0 < n := by
    induction ops with
    | nil => intro st h; exact ⟨h, rfl, by simp [run]⟩
    | cons op t ih =>
      intro st h
      obtain ⟨w, p, _, rq⟩ := step_spec st op h
      obtain ⟨w', p', rq'⟩ := ih (step st op).1 w
      simp only [run]
      refine ⟨w', by rw [p', p], ?_⟩
      intro n hn
      simp only [List.mem_cons] at hn
      rcases hn with hn | hn
      · exact (rq n hn.symm).1
      · exact rq' n hn
  obtain ⟨w, p, rq⟩ := key { parallel := par } (by simp [Window])
  simp only [Window, p] at w
  exact ⟨w, rq⟩

/-- **No request while suspended**: an event during which `Suspend()` answers true issues none. -/
theorem C18_no_request_when_suspended (st : St) (op : Op)
    (h : match op with | .chunk _ o => o.suspend = true | .tick o => o.suspend = true | .terminate => True) :
    (step st op).2 = none := by
  have hr : ∀ o st', o.suspend = true → (routine o st').2 = none := by
    intro o st' hs
    unfold routine
    split
    · rfl
    · unfold tryToSync; rw [if_pos hs]
  cases op with
  | terminate => rfl
  | tick o => simp only [step]; split; rfl; exact hr o st h
  | chunk id o =>
    simp only [step]
    split
    · rfl
    · split
      · exact hr o _ h
      · rfl

/-- **Stops when done**: the event in which `Done()` answers true (it is asked by every tick and
    by every accepted chunk of a running leecher) stops the leecher without a request … -/
theorem C18_stops_when_done (st : St) (o : Oracle) (hd : o.done = true) (hs : st.stopped = false) :
    (step st (.tick o)).1.stopped = true ∧ (step st (.tick o)).2 = none ∧
    ∀ id, Gen.Leecher.acceptChunk st.processing.length st.parallel = true →
      (step st (.chunk id o)).1.stopped = true ∧ (step st (.chunk id o)).2 = none := by
  refine ⟨?_, ?_, ?_⟩
  · simp [step, hs, routine, hd]
  · simp [step, hs, routine, hd]
  · intro id ha; simp [step, hs, ha, routine, hd]

/-- … and a stopped leecher (after `Done()` or `Terminate`) never issues a request again. -/
theorem C18_no_request_after_stop (st : St) (ops : List Op) (hs : st.stopped = true) :
    (run st ops).1.stopped = true ∧ ∀ r ∈ (run st ops).2, r = none := by
  induction ops generalizing st with
  | nil => exact ⟨hs, by simp [run]⟩
  | cons op t ih =>
    have h1 : (step st op).1.stopped = true ∧ (step st op).2 = none := by
      cases op with
      | terminate => exact ⟨rfl, rfl⟩
      | tick o => simp [step, hs]
      | chunk id o => simp [step, hs]
    obtain ⟨a, b⟩ := ih (step st op).1 h1.1
    refine ⟨a, ?_⟩
    intro r hr
    simp only [run, List.mem_cons] at hr
    rcases hr with hr | hr
    · rw [hr]; exact h1.2
    · exact b r hr

end peer

/-! ## the base leecher -/
section base
open Model.Leecher.Base

/-- at most one session; sessions only with registered peers; none after termination -/
structure Good (st : St) : Prop where
  one : st.running.length ≤ 1
  registered : ∀ p ∈ st.running, p ∈ st.peers
  dead : st.terminated = true → st.running = []

theorem getD_mod_mem (l : List Nat) (i d : Nat) (h : l.length ≠ 0) : l.getD (i % l.length) d ∈ l := by
  have hlt : i % l.length < l.length := Nat.mod_lt _ (by omega)
  rw [List.getD_eq_getElem?_getD, List.getElem?_eq_getElem hlt]
  exact List.getElem_mem _

/-- `Routine` keeps the invariant, leaves the peers and the termination flag alone, starts a
    session only when none is running, only with a registered peer, never when terminated -/
theorem base_routine_spec (o : Oracle) (st : St) (g : Good st) :
    Good (routine o st).1 ∧ (routine o st).1.peers = st.peers ∧ (routine o st).1.terminated = st.terminated ∧
    (∀ p, .start p ∈ (routine o st).2 → p ∈ st.peers ∧ st.terminated = false) := by
  unfold routine
  by_cases ht : Gen.Leecher.routineTerminated st.terminated = true
  · rw [if_pos ht]; exact ⟨g, rfl, rfl, by simp⟩
  · rw [if_neg ht]
    have htf : st.terminated = false := by simpa [Gen.Leecher.routineTerminated] using ht
    -- after the optional TerminateSession
    have ha : ∀ a : St × List Ev,
        a = (if Gen.Leecher.routineShouldStop (ongoing st) o.shouldTerminate = true then terminateSession st else (st, [])) →
        Good a.1 ∧ a.1.peers = st.peers ∧ a.1.terminated = st.terminated ∧ ∀ p, Ev.start p ∉ a.2 := by
      intro a e
      split at e
      · subst e; exact ⟨⟨by simp [terminateSession], by simp [terminateSession], by simp [terminateSession]⟩, rfl, rfl, by simp [terminateSession]⟩
      · subst e; exact ⟨g, rfl, rfl, by simp⟩
    generalize hae : (if Gen.Leecher.routineShouldStop (ongoing st) o.shouldTerminate = true then terminateSession st else (st, [])) = a
    obtain ⟨ga, pa, ta, na⟩ := ha a hae.symm
    simp only
    by_cases hi : Gen.Leecher.routineIdle (ongoing a.1) = true
    · rw [if_pos hi]
      have hrun : a.1.running = [] := by
        simp only [Gen.Leecher.routineIdle, ongoing, Bool.not_not] at hi
        exact List.isEmpty_iff.1 hi
      by_cases hc : Gen.Leecher.routineHasCandidates (o.cands.filter (fun p => a.1.peers.contains p)).length = true
      · rw [if_pos hc]
        have hne : (o.cands.filter (fun p => a.1.peers.contains p)).length ≠ 0 := by
          simpa [Gen.Leecher.routineHasCandidates] using hc
        have hmem := getD_mod_mem (o.cands.filter (fun p => a.1.peers.contains p)) o.pick 0 hne
        have hin : (o.cands.filter (fun p => a.1.peers.contains p)).getD
            (o.pick % (o.cands.filter (fun p => a.1.peers.contains p)).length) 0 ∈ a.1.peers := by
          have := (List.mem_filter.1 hmem).2
          simpa using this
        refine ⟨⟨by simp [hrun], ?_, ?_⟩, pa, ta, ?_⟩
        · intro p hp
          simp only [hrun, List.nil_append, List.mem_singleton] at hp
          subst hp; exact hin
        · intro h
          simp only at h
          rw [ta, htf] at h; cases h
        · intro p hp
          simp only [List.mem_append, List.mem_singleton, Ev.start.injEq] at hp
          rcases hp with hp | hp
          · exact absurd hp (na p)
          · subst hp; rw [← pa]; exact ⟨hin, htf⟩
      · rw [if_neg hc]; exact ⟨ga, pa, ta, fun p hp => absurd hp (na p)⟩
    · rw [if_neg hi]; exact ⟨ga, pa, ta, fun p hp => absurd hp (na p)⟩

theorem mem_filter_ne (l : List Nat) (p q : Nat) : q ∈ l.filter (· != p) ↔ q ∈ l ∧ q ≠ p := by
  simp [List.mem_filter]

/-- `UnregisterPeer p`: afterwards `p` is not registered, the invariant holds (so no session with
    `p` is running), and a session started inside is with a peer that is still registered -/
theorem unregister_spec (o : Oracle) (st : St) (p : Nat) (g : Good st) :
    Good (unregister o st p).1 ∧ (∀ q, q ∈ (unregister o st p).1.peers ↔ q ∈ st.peers ∧ q ≠ p) ∧
    (unregister o st p).1.terminated = st.terminated ∧
    (∀ q, .start q ∈ (unregister o st p).2 → q ∈ (unregister o st p).1.peers ∧ st.terminated = false) := by
  unfold unregister
  simp only
  by_cases hh : Gen.Leecher.unregisterHitsSession (sessionPeer { st with peers := st.peers.filter (· != p) }) p = true
  · rw [if_pos hh]
    have g1 : Good (terminateSession { st with peers := st.peers.filter (· != p) }).1 :=
      ⟨by simp [terminateSession], by simp [terminateSession], by simp [terminateSession]⟩
    obtain ⟨gr, pr, tr, sr⟩ := base_routine_spec o _ g1
    refine ⟨gr, ?_, by rw [tr]; rfl, ?_⟩
    · intro q; rw [pr]; exact mem_filter_ne _ _ _
    · intro q hq
      simp only [terminateSession, List.cons_append, List.nil_append, List.mem_cons, reduceCtorEq, false_or] at hq
      have := sr q hq
      rw [pr]; exact this
  · rw [if_neg hh]
    refine ⟨⟨g.one, ?_, g.dead⟩, fun q => mem_filter_ne _ _ _, rfl, by simp⟩
    intro q hq
    have hq' : q ∈ st.running := hq
    refine (mem_filter_ne _ _ _).2 ⟨g.registered q hq', ?_⟩
    intro e
    subst e
    -- the only running session is with q: the call would have hit it
    apply hh
    have h1 := g.one
    have : st.running = [q] := by
      match hr : st.running with
      | [] => rw [hr] at hq'; cases hq'
      | [x] => rw [hr] at hq'; simp at hq'; rw [hq']
      | x :: y :: t => rw [hr] at h1; simp at h1
    simp [Gen.Leecher.unregisterHitsSession, sessionPeer, this]

theorem base_step_spec (st : St) (op : Op) (g : Good st) :
    Good (step st op).1 ∧
    (st.terminated = true → (step st op).1.terminated = true) ∧
    (∀ q, .start q ∈ (step st op).2 → q ∈ (step st op).1.peers ∧ st.terminated = false) ∧
    (∀ q, op ≠ .register q → q ∉ st.peers → q ∉ (step st op).1.peers) := by
  cases op with
  | routine o =>
    obtain ⟨a, b, c, d⟩ := base_routine_spec o st g
    exact ⟨a, fun h => by show (routine o st).1.terminated = true; rw [c]; exact h,
      fun q hq => by show q ∈ (routine o st).1.peers ∧ _; rw [b]; exact d q hq,
      fun q _ hq => by show q ∉ (routine o st).1.peers; rw [b]; exact hq⟩
  | register p =>
    simp only [step, register]
    refine ⟨?_, ?_, by simp, ?_⟩
    · split
      · exact g
      · split
        · exact g
        · exact ⟨g.one, fun q hq => List.mem_append_left _ (g.registered q hq), g.dead⟩
    · intro h; split
      · exact h
      · split <;> exact h
    · intro q hne hq
      have : q ≠ p := fun e => hne (by rw [e])
      split
      · exact hq
      · split
        · exact hq
        · simp [hq, this]
  | unregister p o =>
    obtain ⟨a, b, c, d⟩ := unregister_spec o st p g
    exact ⟨a, fun h => by show (unregister o st p).1.terminated = true; rw [c]; exact h, d,
      fun q _ hq hin => hq ((b q).1 hin).1⟩
  | terminate =>
    simp only [step, terminate]
    by_cases ht : st.terminated = true
    · simp [ht]; exact g
    · simp only [ht, Bool.false_eq_true, if_false, Option.getD_some]
      refine ⟨⟨by simp, by simp, by simp⟩, by simp, by simp, fun q _ hq => hq⟩

theorem run_good (st : St) (ops : List Op) (g : Good st) : Good (run st ops).1 := by
  induction ops generalizing st with
  | nil => exact g
  | cons op t ih => exact ih _ (base_step_spec st op g).1

/-- **One session at a time.** After any sequence of `Routine`, `RegisterPeer`, `UnregisterPeer`,
    `Terminate` calls with any callback answers, the application has at most one session
    running (`StartSession` is never called while one is), and it is with a registered peer. -/
theorem C18_one_session (ops : List Op) :
    (run {} ops).1.running.length ≤ 1 ∧ ∀ p ∈ (run {} ops).1.running, p ∈ (run {} ops).1.peers :=
  let g := run_good {} ops ⟨by simp, by simp, by simp⟩
  ⟨g.one, g.registered⟩

/-- **No session starts after termination**, and none is running. -/
theorem C18_no_start_after_terminate (st : St) (ops : List Op) (g : Good st) (ht : st.terminated = true) :
    (run st ops).1.running = [] ∧ ∀ p, .start p ∉ (run st ops).2 := by
  induction ops generalizing st with
  | nil => exact ⟨g.dead ht, by simp [run]⟩
  | cons op t ih =>
    obtain ⟨g', t', s', _⟩ := base_step_spec st op g
    obtain ⟨a, b⟩ := ih _ g' (t' ht)
    refine ⟨a, ?_⟩
    intro p hp
    simp only [run, List.mem_append] at hp
    rcases hp with hp | hp
    · have := (s' p hp).2; rw [ht] at this; cases this
    · exact b p hp

/-- `Terminate` itself ends the running session and sets the flag (from then on the previous
    theorem applies). -/
theorem terminate_spec (st : St) (g : Good st) :
    Good (step st .terminate).1 ∧ (step st .terminate).1.terminated = true ∧ (step st .terminate).1.running = [] := by
  refine ⟨(base_step_spec st .terminate g).1, ?_, ?_⟩
  · simp only [step, terminate]; by_cases ht : st.terminated = true <;> simp [ht]
  · simp only [step, terminate]
    by_cases ht : st.terminated = true
    · simp [ht]; exact g.dead ht
    · simp [ht]

/-- **Once a peer is unregistered no session with it is running or started later** (until it is
    registered again): from any reachable state, after `UnregisterPeer p` and any further calls
    other than `RegisterPeer p`, no session with `p` runs and `StartSession` was never called
    with `p` chosen — neither inside `UnregisterPeer` nor later. -/
theorem C18_unregistered_peer_has_no_session (st : St) (g : Good st) (p : Nat) (o : Oracle) (ops : List Op)
    (hno : ∀ op ∈ ops, op ≠ .register p) :
    let y := step st (.unregister p o)
    let z := run y.1 ops
    p ∉ y.1.running ∧ .start p ∉ y.2 ∧ p ∉ z.1.running ∧ .start p ∉ z.2 := by
  obtain ⟨gy, py, _, sy⟩ := unregister_spec o st p g
  have hpy : p ∉ (step st (.unregister p o)).1.peers := fun h => ((py p).1 h).2 rfl
  have key : ∀ (st' : St), Good st' → p ∉ st'.peers → p ∉ (run st' ops).1.peers ∧ .start p ∉ (run st' ops).2 := by
    induction ops with
    | nil => intro st' _ h; exact ⟨h, by simp [run]⟩
    | cons op t ih =>
      intro st' g' h
      obtain ⟨g'', _, s'', n''⟩ := base_step_spec st' op g'
      have hne : op ≠ .register p := hno op List.mem_cons_self
      have h' := n'' p hne h
      obtain ⟨a, b⟩ := ih (fun x hx => hno x (List.mem_cons_of_mem _ hx)) _ g'' h'
      refine ⟨a, ?_⟩
      intro hp
      simp only [run, List.mem_append] at hp
      rcases hp with hp | hp
      · exact h' (s'' p hp).1
      · exact b hp
  obtain ⟨a, b⟩ := key _ gy hpy
  intro y z
  refine ⟨fun h => hpy (gy.registered p h), fun h => hpy (sy p h).1, ?_, b⟩
  intro h
  exact a ((run_good _ ops gy).registered p h)

/-! ### non-vacuity and the repaired defect (DESIGN §7-D5) -/

def o12 : Oracle := { cands := [1, 2], pick := 0 }

/-- a run that starts a session with peer 1, moves to peer 2 when 1 is unregistered, and ends it on Terminate -/
example : run {} [.register 1, .register 2, .routine o12, .unregister 1 o12, .terminate, .routine o12] =
    ({ peers := [2], terminated := true, running := [] }, [.start 1, .term, .start 2, .term]) := by decide

/-- the peer leecher: parallelism 2, chunk 1 arrives and is processed: one more chunk is requested -/
example : Peer.run { parallel := 2 } [.tick ⟨false, [], false⟩, .chunk 1 ⟨false, [1], false⟩, .chunk 2 ⟨false, [], true⟩,
    .chunk 3 ⟨true, [], false⟩, .tick ⟨false, [2], false⟩] =
    ({ parallel := 2, requested := 3, processed := 1, processing := [2, 3], stopped := true },
     [some 2, some 1, none, none, none]) := by decide

/-- **D5, before the repair**: `UnregisterPeer 1` with the session on peer 1 restarted a session
    with peer 1 (still registered while `Routine` ran) and only then removed the peer: a session
    with an unregistered peer keeps running. The repaired order starts none. -/
theorem D5_old_order_keeps_session :
    unregisterOld { cands := [1] } { peers := [1], running := [1] } 1 =
      ({ peers := [], terminated := false, running := [1] }, [.term, .start 1]) ∧
    unregister { cands := [1] } { peers := [1], running := [1] } 1 =
      ({ peers := [], terminated := false, running := [] }, [.term]) := by decide

end base
end C18

/-! ### Structural expectations (regenerated facts `Gen.FactsC18`)
The leecher model's `unregister` removes the peer and terminates its session BEFORE the routine
selects the next session peer. -/
namespace C18Facts
theorem unregister_order : Gen.FactsC18.unregisterDeletesBeforeRoutine = true ∧ Gen.FactsC18.unregisterTerminatesBeforeRoutine = true := by decide
end C18Facts
