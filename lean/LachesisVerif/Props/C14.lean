import LachesisVerif.Proofs.BufferOps
import LachesisVerif.Proofs.BufferLive2
/-!
# C14 — Ordering buffer delivers parents first, once, and releases every push

"For any arrival order, duplication, concurrency and buffer limits, the ordering buffer hands an event
to processing only after all its parents are connected, hands each pushed copy to processing at most
once and never after reporting that copy released, reports every pushed copy released exactly once by
the time the buffer is cleared, and holds no more events or bytes than its limits after every push.
When the limits suffice and all checks and processing succeed, every event of a parents-closed set is
processed whatever the arrival order."

Model: `Model.EventsBuffer` (`pushEvent` exactly as written, with the stale snapshot, the `recheck`
flag and the `released` guard of the `fix:` commit; `guard = false` is the code before the fix).
A *pushed copy* is one `PushEvent` call (DESIGN §2.6); copies are numbered by push. Callbacks are
oracles: arbitrary `Check`/`Process` results per (copy, call number); `Exists/Get` = processed
successfully or connected from outside (`Op.connect`). The trace of callback invocations is kept newest
first; `parentsOk`, `procOk`, `relOk`, `allReleased`, `withinLimits` are the clauses of `P_C14`, the
same functions the driver evaluates on the implementation's trace. The loop condition of the spill is
regenerated from the source (`Gen.Buffer.spillCond`). Concurrency: `PushEvent` and `Clear` hold the
buffer's mutex for their whole duration, so concurrent callers are a sequence of operations.

The weighted LRU behind `incompletes` is created without a cap of its own (`MaxUint` bytes, `MaxInt`
entries, since the `fix:` commit 52f91c5; before, a cap of `MaxInt32` evicted silently — corpus
`lru-cap.ops`), so only `spillIncompletes` removes entries. On 32-bit platforms `MaxInt = 2^31-1`.
-/
namespace C14
open Model.EventsBuffer

def evA : Ev := ⟨1, [], 10⟩
def evB : Ev := ⟨2, [1], 10⟩
def evC : Ev := ⟨3, [1, 2], 10⟩

/-- **C14 (a)–(d), all operation sequences.** For every sequence of pushes (any events, any
    duplication), outside connections and clears, every limit pair and every behaviour of
    `Check`/`Process`, in the state reached:
    (a) at every `Process` all parents were connected;
    (b) no copy is processed twice, and none after its `Released`;
    (c) no copy is released twice; a released copy has exactly one `Released`; a copy that is not
        released yet was never processed and is still buffered — and (see `C14_released_by_clear`)
        `Clear` releases all of those;
    (d) the spill loop's own condition is false (or the buffer is empty), i.e. within the limits;
    and the recursion never exhausted its fuel `|incompletes| + 1`. -/
theorem C14_safety (O : Oracle) (limNum limSize : Nat) (init : List Nat) (ops : List Op) :
    let st := run true O limNum limSize (St.init init) ops
    parentsOk (fun c => (st.recs c).ev) init st.trace = true ∧
    procOk st.trace = true ∧
    relOk st.trace = true ∧
    (∀ c, c < st.n →
      ((st.recs c).released = true → nRel c st.trace = 1) ∧
      ((st.recs c).released = false →
        nRel c st.trace = 0 ∧ nProc c st.trace = 0 ∧ ((st.recs c).ev.id, c) ∈ st.inc)) ∧
    (Gen.Buffer.spillCond st.inc.length limNum st.weight limSize = false ∨ st.inc = []) ∧
    st.oof = false := by
  intro st
  obtain ⟨g, l, _⟩ := run_good O limNum limSize init ops (St.init init) (good_init init) (lim_init limNum limSize init)
  have g' : Inv init st.n st := g
  refine ⟨(g'.parents _ (fun _ _ => rfl)).1, g'.procOk, g'.relOk, ?_, l, g'.oof⟩
  intro c hc
  constructor
  · intro hr; rw [g'.relsync c, hr]; rfl
  · intro hr
    refine ⟨by rw [g'.relsync c, hr]; rfl, g'.noproc c hr, g'.buffered c hc (Nat.ne_of_lt hc) hr⟩

/-- **C14 (c), "exactly once by the time the buffer is cleared".** After `Clear` returns every copy
    pushed so far — duplicates, already connected, spilled, failed and processed ones alike — has
    exactly one `Released` in the trace, and the buffer is empty. (`ops.length < 2^32`: the number of
    buffered events fits Go's `idx.Event`.) -/
theorem C14_released_by_clear (O : Oracle) (limNum limSize : Nat) (init : List Nat) (ops : List Op)
    (hlen : ops.length < 4294967296) :
    let st := run true O limNum limSize (St.init init) (ops ++ [Op.clear])
    allReleased st.n st.trace = true ∧ st.inc = [] := by
  intro st
  obtain ⟨g, _, hn⟩ := run_good O limNum limSize init ops (St.init init) (good_init init) (lim_init limNum limSize init)
  have hst : st = clear (run true O limNum limSize (St.init init) ops) := by
    show run true O limNum limSize (St.init init) (ops ++ [Op.clear]) = _
    unfold run
    rw [List.foldl_append]; rfl
  obtain ⟨a, b, _, _, e⟩ := clear_post init limNum limSize _ g
  have hn' : (run true O limNum limSize (St.init init) ops).n < 4294967296 := by
    have : (St.init init).n = 0 := rfl
    omega
  have hempty := e hn'
  rw [← hst] at a b hempty
  have a' : Inv init st.n st := a
  refine ⟨?_, hempty⟩
  unfold allReleased
  rw [List.all_eq_true]
  intro c hc
  have hc' : c < st.n := List.mem_range.1 hc
  cases hr : (st.recs c).released
  · have := a'.buffered c hc' (Nat.ne_of_lt hc') hr
    rw [hempty] at this; cases this
  · rw [a'.relsync c, hr]; rfl

/-- **C14 (d) in the property's words**: the number of buffered events and their bytes are within the
    limits after every operation (in particular after every push), provided they fit Go's integer
    types (`idx.Event` is 32 bit, `uint` 64 bit). -/
theorem C14_within_limits (O : Oracle) (limNum limSize : Nat) (init : List Nat) (ops : List Op)
    (hlen : ops.length < 4294967296) :
    let st := run true O limNum limSize (St.init init) ops
    st.weight < 18446744073709551616 → withinLimits limNum limSize st.total = true := by
  intro st hw
  obtain ⟨g, l, hn⟩ := run_good O limNum limSize init ops (St.init init) (good_init init) (lim_init limNum limSize init)
  have g' : Inv init st.n st := g
  have hl : st.inc.length < 4294967296 := by
    have := g'.incLen
    have h0 : (St.init init).n = 0 := rfl
    have : st.n ≤ (St.init init).n + ops.length := hn
    omega
  unfold withinLimits St.total
  rcases l with l | l
  · unfold Gen.Buffer.spillCond at l
    simp only [Bool.or_eq_false_iff, decide_eq_false_iff_not] at l
    have hw' : st.weight < 18446744073709551616 := hw
    simp only [Bool.and_eq_true, decide_eq_true_eq]
    have l1 := l.1
    have l2 := l.2
    rw [Nat.mod_eq_of_lt hl] at l1
    rw [Nat.mod_eq_of_lt hw'] at l2
    omega
  · have l' : st.inc = [] := l
    have : st.weight = 0 := by unfold St.weight weightOf; rw [l']; rfl
    simp [l', this]

/-! ### (e) liveness -/

/-- **C14 (e), liveness.** Let `E` be a set of events with distinct ids, none connected yet, that is
    parents-closed (every parent is connected from the start or is itself in `E`) and acyclic (a rank
    decreases along parent edges — for real events the Lamport time). If the limits admit all of `E`
    (`|E| ≤ Num`, total bytes `≤ Size`) and every `Check` and `Process` succeeds, then for **every**
    arrival sequence `arr` of copies of events of `E` that contains each event at least once — any
    order, any duplication — every event of `E` is processed: some pushed copy of it has a successful
    `Process` in the trace. -/
theorem C14_liveness (limNum limSize : Nat) (init : List Nat) (E arr : List Ev) (rank : Nat → Nat)
    (hid : (E.map (·.id)).Nodup)
    (hnew : ∀ e ∈ E, e.id ∉ init)
    (hclosed : ∀ e ∈ E, ∀ p ∈ e.parents, p ∈ init ∨ ∃ e' ∈ E, e'.id = p)
    (hrank : ∀ e ∈ E, ∀ e' ∈ E, e'.id ∈ e.parents → rank e'.id < rank e.id)
    (harr : ∀ e ∈ arr, e ∈ E) (hall : ∀ e ∈ E, e ∈ arr)
    (hnum : E.length ≤ limNum) (hsize : (E.map (·.size)).sum ≤ limSize) :
    let st := run true Oracle.allOk limNum limSize (St.init init) (arr.map Op.push)
    ∀ e ∈ E, ∃ c, c < st.n ∧ (st.recs c).ev = e ∧ Cb.process c true ∈ st.trace := by
  intro st
  obtain ⟨lv, _, _, hpushed⟩ := run_live init E limNum limSize hnum hsize arr (St.init init) (live_init init E) harr
  have lv' : Live init E st := lv
  have hg : Inv init st.n st := lv'.good
  -- every event of E is connected in the end
  have hconn : ∀ k, ∀ e ∈ E, rank e.id < k → e.id ∈ st.conn := by
    intro k
    induction k with
    | zero => intro e _ h; cases h
    | succ k ih =>
      intro e he hr
      -- all parents are connected
      have hcomp : st.complete e = true := by
        unfold St.complete
        rw [List.all_eq_true]
        intro p hp
        simp only [List.contains_iff_mem]
        rcases hclosed e he p hp with r | ⟨e', he', rfl⟩
        · exact lv'.initc p r
        · exact ih e' he' (by have := hrank e he e' he' hp; omega)
      obtain ⟨c, hc, hce⟩ := hpushed e (hall e he)
      have hce' : (st.recs c).ev = e := hce
      rcases lv'.pushed c hc with r | r
      · rw [hce'] at r; exact r
      · exfalso
        obtain ⟨p, hp, hpid⟩ := List.mem_map.1 r
        have h1 := hg.incId p hp
        have hpe : (st.recs p.2).ev = e := by
          apply id_unique hid (lv'.evs p.2 h1.2) he
          rw [h1.1, hpid, hce']
        have := lv'.j p hp
        rw [hpe, hcomp] at this
        cases this
  intro e he
  have hc := hconn (rank e.id + 1) e he (Nat.lt_succ_self _)
  rcases lv'.connd e.id hc with r | ⟨c, hc, ht, hid'⟩
  · exact absurd r (hnew e he)
  · exact ⟨c, hc, id_unique hid (lv'.evs c hc) he hid', ht⟩

/-- non-vacuity of the liveness hypotheses: the three events A, B(A), C(A,B) in the worst order -/
example :
    let st := run true Oracle.allOk 3 30 (St.init []) ([evC, evB, evC, evA].map Op.push)
    (Cb.process 3 true ∈ st.trace ∧ Cb.process 1 true ∈ st.trace ∧ Cb.process 0 true ∈ st.trace) := by
  decide

/-! ### the defect repaired by the `fix:` commit (DESIGN §7-D2), on the pre-fix model -/

/-- `Process` of the copy pushed second (C) fails; everything else succeeds -/
def failSecond : Oracle := ⟨fun _ _ => true, fun tag _ => tag != 1⟩

/-- Without the `released` guard (`guard = false`, the code before the fix) three events suffice:
    B (parent A) and C (parents A, B) wait; A arrives; B is processed in the loop over the snapshot
    [B, C], its own nested loop processes C, which fails and is released; back in A's loop the stale
    snapshot still lists C, and `Process` runs on the released copy a second time. -/
theorem C14_defect_double_process :
    let st := run false failSecond 10 1000 (St.init []) [.push evB, .push evC, .push evA]
    procOk st.trace = false ∧ nProc 1 st.trace = 2 ∧ nRel 1 st.trace = 1 := by
  decide

/-- the same scenario on the repaired code: C is processed once -/
example :
    let st := run true failSecond 10 1000 (St.init []) [.push evB, .push evC, .push evA]
    procOk st.trace = true ∧ nProc 1 st.trace = 1 ∧ nRel 1 st.trace = 1 := by
  decide

/-! ### non-vacuity: a run with a duplicate, a spill (limit 1), a recursive re-push, an already
    connected event, a failing check and a clear -/
example :
    let st := run true ⟨fun tag _ => tag != 5, fun _ _ => true⟩ 1 1000 (St.init [])
      [.push evC, .push evC, .push evB, .push evA, .push evB, .push evC, .clear]
    (st.trace.reverse, st.inc, st.n) =
      ([.released 1 errDup, .released 0 errSpilled, .check 3 true, .process 3 true, .released 3 0,
        .check 2 true, .process 2 true, .released 2 0, .released 4 errConnected,
        .check 5 false, .released 5 errCheck], [], 6) := by
  decide

end C14
