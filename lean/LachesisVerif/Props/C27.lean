import LachesisVerif.Model.CachedProducer
/-!
# C27 — Caching producer reference-counts opens

"Opening the same name several times through either caching producer returns the same store; the
underlying database is closed exactly once, when the last of those opens is closed; closing more
often than opening is reported as an error; and the underlying drop runs at most once per open."

Model: `Model.CachedProducer` — both constructors (`Wrap`, `WrapAll`; every theorem quantifies over
the `Kind`), the shared `openDB` with its three maps, the counter tests regenerated from the source.
A store is identified by its generation (number of the underlying `OpenDB` that created it).
All trace theorems are over **all** operation sequences from a fresh producer, interleaving any
number of names; `exactly_once` needs the reading of DESIGN §2.6 ("per generation and per handle
obtained in that generation"): a handle of an *earlier* generation is not closed while a newer
generation of the same name is open (`WF`). The stream covers stale handles too (the model follows
the code there).
-/
namespace C27
open Model.CachedProducer

abbrev Trace := List (Op × Out)

def events (tr : Trace) : List Ev := tr.flatMap (fun x => x.2.evs)

/-- OpenDB calls on `n` (successful or not) -/
def opens (n : Nat) (tr : Trace) : Nat := tr.countP (fun x => match x.1 with | .open m _ => m == n | _ => false)
/-- OpenDB calls on `n` that returned a store -/
def opensOk (n : Nat) (tr : Trace) : Nat :=
  tr.countP (fun x => match x.1 with | .open m _ => m == n && !x.2.err | _ => false)
/-- Close calls on handles of `n` that returned no error -/
def closesOk (n : Nat) (tr : Trace) : Nat :=
  tr.countP (fun x => match x.1 with | .close m _ => m == n && !x.2.err | _ => false)
/-- underlying Drop calls on stores of `n` -/
def realDrops (n : Nat) (tr : Trace) : Nat :=
  (events tr).countP (fun e => match e with | .realDrop m _ => m == n | _ => false)

theorem setName_same (st : State) (n : Nat) (s : NameSt) : (setName st n s).names n = s := by simp [setName]
theorem setName_other (st : State) (n m : Nat) (s : NameSt) (h : m ≠ n) : (setName st n s).names m = st.names m := by
  simp [setName, h]

/-! ## what one call does (any state, either constructor) -/

/-- **Same store**: while `n` is open, `OpenDB(n)` returns the cached store (same generation),
makes no underlying call and counts one more reference. -/
theorem open_same_store (st : State) (n g : Nat) (fail : Bool) (h : (st.names n).opened = some g) :
    (openDB st n fail).2.gen = some g ∧ (openDB st n fail).2.evs = [] ∧ (openDB st n fail).2.err = false ∧
    ((openDB st n fail).1.names n).opened = some g ∧ ((openDB st n fail).1.names n).ref = (st.names n).ref + 1 ∧
    (openDB st n fail).1.nextGen = st.nextGen := by
  have hc : Gen.Cachedproducer.reuseOpened ({ st.names n with notDropped := true } : NameSt).opened.isSome = true := by
    show (st.names n).opened.isSome = true
    rw [h]; rfl
  unfold openDB
  rw [if_pos hc]
  refine ⟨h, rfl, rfl, ?_, ?_, rfl⟩
  · show ((setName st n _).names n).opened = _; rw [setName_same]; exact h
  · show ((setName st n _).names n).ref = _; rw [setName_same]

/-- a name that is not open is opened underneath, as a new generation -/
theorem open_fresh (st : State) (n : Nat) (h : (st.names n).opened = none) :
    (openDB st n false).2.gen = some st.nextGen ∧ (openDB st n false).2.evs = [.realOpen n st.nextGen] ∧
    (openDB st n false).2.err = false ∧
    ((openDB st n false).1.names n).opened = some st.nextGen ∧
    ((openDB st n false).1.names n).ref = (st.names n).ref + 1 ∧ (openDB st n false).1.nextGen = st.nextGen + 1 := by
  have hc : ¬ Gen.Cachedproducer.reuseOpened ({ st.names n with notDropped := true } : NameSt).opened.isSome = true := by
    show ¬ (st.names n).opened.isSome = true
    rw [h]; simp
  unfold openDB
  rw [if_neg hc, if_neg (by simp)]
  refine ⟨rfl, rfl, rfl, ?_, ?_, rfl⟩
  · show ((setName st n _).names n).opened = _; rw [setName_same]
  · show ((setName st n _).names n).ref = _; rw [setName_same]

/-- a failing underlying OpenDB is passed on; nothing is cached -/
theorem open_fail (st : State) (n : Nat) (h : (st.names n).opened = none) :
    (openDB st n true).2.err = true ∧ (openDB st n true).2.gen = none ∧ (openDB st n true).2.evs = [.realOpenFail n] ∧
    ((openDB st n true).1.names n).opened = none ∧ ((openDB st n true).1.names n).ref = (st.names n).ref ∧
    (openDB st n true).1.nextGen = st.nextGen := by
  have hc : ¬ Gen.Cachedproducer.reuseOpened ({ st.names n with notDropped := true } : NameSt).opened.isSome = true := by
    show ¬ (st.names n).opened.isSome = true
    rw [h]; simp
  unfold openDB
  rw [if_neg hc, if_pos rfl]
  refine ⟨rfl, rfl, rfl, ?_, ?_, rfl⟩
  · show ((setName st n _).names n).opened = _; rw [setName_same]; exact h
  · show ((setName st n _).names n).ref = _; rw [setName_same]

theorem open_other (st : State) (n m : Nat) (fail : Bool) (hm : m ≠ n) : (openDB st n fail).1.names m = st.names m := by
  unfold openDB
  by_cases hc : Gen.Cachedproducer.reuseOpened ({ st.names n with notDropped := true } : NameSt).opened.isSome = true
  · rw [if_pos hc]; exact setName_other _ _ _ _ hm
  · rw [if_neg hc]
    cases fail
    · rw [if_neg (by simp)]
      show (setName st n _).names m = _
      exact setName_other _ _ _ _ hm
    · rw [if_pos rfl]; exact setName_other _ _ _ _ hm

/-- **Closing more often than opening is an error**: with no reference left, Close returns the
error, calls nothing underneath and changes nothing. -/
theorem close_too_often (st : State) (n g : Nat) (h : (st.names n).ref = 0) :
    close st n g = (st, { err := true }) := by
  unfold close Gen.Cachedproducer.closeTooOften
  rw [if_pos (by simp [h])]

/-- **The last close closes the underlying store** (the one the handle belongs to) and forgets the
cached store. -/
theorem close_last (st : State) (n g : Nat) (h : (st.names n).ref = 1) :
    (close st n g).2.err = false ∧ (close st n g).2.evs = [.realClose n g] ∧
    ((close st n g).1.names n).opened = none ∧ ((close st n g).1.names n).ref = 0 ∧
    ((close st n g).1.names n).notDropped = (st.names n).notDropped ∧ (close st n g).1.nextGen = st.nextGen := by
  unfold close Gen.Cachedproducer.closeTooOften Gen.Cachedproducer.closeLast Gen.Cachedproducer.doRealClose
  rw [if_neg (by simp [h]), if_pos (by simp [h])]
  refine ⟨rfl, rfl, ?_, ?_, ?_, rfl⟩
  · show ((setName st n _).names n).opened = _; rw [setName_same]
  · show ((setName st n _).names n).ref = _; rw [setName_same]
  · show ((setName st n _).names n).notDropped = _; rw [setName_same]

/-- an earlier close only counts down -/
theorem close_not_last (st : State) (n g : Nat) (h : (st.names n).ref ≥ 2) :
    (close st n g).2.err = false ∧ (close st n g).2.evs = [] ∧
    ((close st n g).1.names n).opened = (st.names n).opened ∧ ((close st n g).1.names n).ref = (st.names n).ref - 1 ∧
    ((close st n g).1.names n).notDropped = (st.names n).notDropped ∧ (close st n g).1.nextGen = st.nextGen := by
  unfold close Gen.Cachedproducer.closeTooOften Gen.Cachedproducer.closeLast Gen.Cachedproducer.doRealClose
  rw [if_neg (by simp; omega), if_neg (by simp; omega)]
  refine ⟨rfl, rfl, ?_, ?_, ?_, rfl⟩
  · show ((setName st n _).names n).opened = _; rw [setName_same]
  · show ((setName st n _).names n).ref = _; rw [setName_same]
  · show ((setName st n _).names n).notDropped = _; rw [setName_same]

theorem close_other (st : State) (n g m : Nat) (hm : m ≠ n) : (close st n g).1.names m = st.names m := by
  unfold close
  by_cases h1 : Gen.Cachedproducer.closeTooOften (st.names n).ref = true
  · rw [if_pos h1]
  · rw [if_neg h1]
    by_cases h2 : Gen.Cachedproducer.closeLast (st.names n).ref = true
    · rw [if_pos h2]; exact setName_other _ _ _ _ hm
    · rw [if_neg h2]; exact setName_other _ _ _ _ hm

/-- Drop calls the underlying Drop only if the name was opened since the last Drop -/
theorem drop_eq (st : State) (n g : Nat) :
    (drop st n g).2.evs = (if (st.names n).notDropped then [.realDrop n g] else []) ∧ (drop st n g).2.err = false ∧
    ((drop st n g).1.names n).notDropped = false ∧ ((drop st n g).1.names n).opened = (st.names n).opened ∧
    ((drop st n g).1.names n).ref = (st.names n).ref ∧ (drop st n g).1.nextGen = st.nextGen := by
  unfold drop Gen.Cachedproducer.doRealDrop
  refine ⟨rfl, rfl, ?_, ?_, ?_, rfl⟩
  · show ((setName st n _).names n).notDropped = _; rw [setName_same]
  · show ((setName st n _).names n).opened = _; rw [setName_same]
  · show ((setName st n _).names n).ref = _; rw [setName_same]

theorem drop_other (st : State) (n g m : Nat) (hm : m ≠ n) : (drop st n g).1.names m = st.names m :=
  setName_other _ _ _ _ hm

/-! ## counting over traces -/

def opName : Op → Nat
  | .open n _ => n
  | .close n _ => n
  | .drop n _ => n

def evName : Ev → Nat
  | .realOpen n _ => n
  | .realOpenFail n => n
  | .realClose n _ => n
  | .realDrop n _ => n

theorem events_snoc (tr : Trace) (x : Op × Out) : events (tr ++ [x]) = events tr ++ x.2.evs := by
  unfold events; rw [List.flatMap_append]; simp

/-- every underlying call made by an operation concerns the operation's own name -/
theorem step_evs_name (st : State) (op : Op) : ∀ e ∈ (step st op).2.evs, evName e = opName op := by
  cases op with
  | «open» n f =>
    intro e he
    change e ∈ (openDB st n f).2.evs at he
    unfold openDB at he
    by_cases hc : Gen.Cachedproducer.reuseOpened ({ st.names n with notDropped := true } : NameSt).opened.isSome = true
    · rw [if_pos hc] at he; cases he
    · rw [if_neg hc] at he
      cases f
      · rw [if_neg (by simp)] at he; simp at he; subst he; rfl
      · rw [if_pos rfl] at he; simp at he; subst he; rfl
  | close n g =>
    intro e he
    change e ∈ (close st n g).2.evs at he
    unfold close Gen.Cachedproducer.doRealClose at he
    by_cases h1 : Gen.Cachedproducer.closeTooOften (st.names n).ref = true
    · rw [if_pos h1] at he; cases he
    · rw [if_neg h1] at he
      by_cases h2 : Gen.Cachedproducer.closeLast (st.names n).ref = true
      · rw [if_pos h2] at he; simp at he; subst he; rfl
      · rw [if_neg h2] at he; simp at he
  | drop n g =>
    intro e he
    have := (drop_eq st n g).1
    change e ∈ (drop st n g).2.evs at he
    rw [this] at he
    split at he
    · simp at he; subst he; rfl
    · cases he

theorem step_other (st : State) (op : Op) (m : Nat) (hm : m ≠ opName op) : (step st op).1.names m = st.names m := by
  cases op with
  | «open» n f => exact open_other st n m f hm
  | close n g => exact close_other st n g m hm
  | drop n g => exact drop_other st n g m hm

theorem counts_other (tr : Trace) (op : Op) (o : Out) (n : Nat) (hn : n ≠ opName op) :
    opens n (tr ++ [(op, o)]) = opens n tr ∧ opensOk n (tr ++ [(op, o)]) = opensOk n tr ∧
    closesOk n (tr ++ [(op, o)]) = closesOk n tr := by
  have hne : (opName op == n) = false := by simpa using fun h => hn h.symm
  unfold opens opensOk closesOk
  simp only [List.countP_append, List.countP_cons, List.countP_nil]
  cases op <;> simp_all [opName]

theorem realDrops_other (st : State) (tr : Trace) (op : Op) (n : Nat) (hn : n ≠ opName op) :
    realDrops n (tr ++ [(op, (step st op).2)]) = realDrops n tr := by
  unfold realDrops
  rw [events_snoc, List.countP_append]
  have : List.countP (fun e => match e with | .realDrop m _ => m == n | _ => false) (step st op).2.evs = 0 := by
    apply List.countP_eq_zero.mpr
    intro e he
    have := step_evs_name st op e he
    cases e <;> simp_all [evName]
    exact fun h => hn h.symm
  simp only at this ⊢
  omega

theorem open_notDropped (st : State) (n : Nat) (fail : Bool) : ((openDB st n fail).1.names n).notDropped = true := by
  unfold openDB
  by_cases hc : Gen.Cachedproducer.reuseOpened ({ st.names n with notDropped := true } : NameSt).opened.isSome = true
  · rw [if_pos hc]; show ((setName st n _).names n).notDropped = _; rw [setName_same]
  · rw [if_neg hc]
    cases fail
    · rw [if_neg (by simp)]; show ((setName st n _).names n).notDropped = _; rw [setName_same]
    · rw [if_pos rfl]; show ((setName st n _).names n).notDropped = _; rw [setName_same]

def dropPred (n : Nat) : Ev → Bool := fun e => match e with | .realDrop m _ => m == n | _ => false

theorem realDrops_snoc (tr : Trace) (x : Op × Out) (n : Nat) :
    realDrops n (tr ++ [x]) = realDrops n tr + x.2.evs.countP (dropPred n) := by
  unfold realDrops; rw [events_snoc, List.countP_append]; rfl

theorem counts_open (tr : Trace) (n : Nat) (f : Bool) (o : Out) :
    opens n (tr ++ [(.open n f, o)]) = opens n tr + 1 ∧
    opensOk n (tr ++ [(.open n f, o)]) = opensOk n tr + (if o.err then 0 else 1) ∧
    closesOk n (tr ++ [(.open n f, o)]) = closesOk n tr := by
  unfold opens opensOk closesOk
  simp only [List.countP_append, List.countP_cons, List.countP_nil]
  cases o.err <;> simp

theorem counts_close (tr : Trace) (n g : Nat) (o : Out) :
    opens n (tr ++ [(.close n g, o)]) = opens n tr ∧ opensOk n (tr ++ [(.close n g, o)]) = opensOk n tr ∧
    closesOk n (tr ++ [(.close n g, o)]) = closesOk n tr + (if o.err then 0 else 1) := by
  unfold opens opensOk closesOk
  simp only [List.countP_append, List.countP_cons, List.countP_nil]
  cases o.err <;> simp

theorem counts_drop (tr : Trace) (n g : Nat) (o : Out) :
    opens n (tr ++ [(.drop n g, o)]) = opens n tr ∧ opensOk n (tr ++ [(.drop n g, o)]) = opensOk n tr ∧
    closesOk n (tr ++ [(.drop n g, o)]) = closesOk n tr := by
  unfold opens opensOk closesOk
  simp [List.countP_append]

/-! ## invariant of all operation sequences (no well-formedness needed) -/

structure Inv (st : State) (tr : Trace) : Prop where
  /-- a store is cached exactly while references are counted -/
  openIff : ∀ n, (st.names n).opened = none ↔ (st.names n).ref = 0
  /-- the counter is the number of successful opens minus the number of successful closes -/
  balance : ∀ n, (st.names n).ref + closesOk n tr = opensOk n tr
  /-- underlying drops, plus the one still allowed, never exceed the OpenDB calls -/
  drops : ∀ n, realDrops n tr + (if (st.names n).notDropped then 1 else 0) ≤ opens n tr

theorem inv_new (k : Kind) : Inv (new k) [] :=
  ⟨fun _ => ⟨fun _ => rfl, fun _ => rfl⟩, fun _ => rfl, fun _ => Nat.le_refl _⟩

theorem inv_step (st : State) (tr : Trace) (op : Op) (h : Inv st tr) :
    Inv (step st op).1 (tr ++ [(op, (step st op).2)]) := by
  -- names the operation does not concern
  have other : ∀ n, n ≠ opName op →
      ((step st op).1.names n = st.names n) ∧ opens n (tr ++ [(op, (step st op).2)]) = opens n tr ∧
      opensOk n (tr ++ [(op, (step st op).2)]) = opensOk n tr ∧ closesOk n (tr ++ [(op, (step st op).2)]) = closesOk n tr ∧
      realDrops n (tr ++ [(op, (step st op).2)]) = realDrops n tr := by
    intro n hn
    have c := counts_other tr op (step st op).2 n hn
    exact ⟨step_other st op n hn, c.1, c.2.1, c.2.2, realDrops_other st tr op n hn⟩
  -- the operation's own name
  have own : (((step st op).1.names (opName op)).opened = none ↔ ((step st op).1.names (opName op)).ref = 0) ∧
      (((step st op).1.names (opName op)).ref + closesOk (opName op) (tr ++ [(op, (step st op).2)]) =
        opensOk (opName op) (tr ++ [(op, (step st op).2)])) ∧
      (realDrops (opName op) (tr ++ [(op, (step st op).2)]) +
        (if ((step st op).1.names (opName op)).notDropped then 1 else 0) ≤ opens (opName op) (tr ++ [(op, (step st op).2)])) := by
    cases op with
    | «open» n f =>
      have hi := h.openIff n; have hb := h.balance n; have hd := h.drops n
      have c := counts_open tr n f (openDB st n f).2
      have hnd := open_notDropped st n f
      have hdr : realDrops n (tr ++ [(Op.open n f, (openDB st n f).2)]) = realDrops n tr := by
        rw [realDrops_snoc]
        have : List.countP (dropPred n) (openDB st n f).2.evs = 0 := by
          apply List.countP_eq_zero.mpr
          intro e he
          cases ho : (st.names n).opened with
          | some g => rw [(open_same_store st n g f ho).2.1] at he; cases he
          | none =>
            cases f
            · rw [(open_fresh st n ho).2.1] at he; simp at he; subst he; simp [dropPred]
            · rw [(open_fail st n ho).2.2.1] at he; simp at he; subst he; simp [dropPred]
        simp only at this ⊢; omega
      show (((openDB st n f).1.names n).opened = none ↔ ((openDB st n f).1.names n).ref = 0) ∧
        (((openDB st n f).1.names n).ref + closesOk n (tr ++ [(Op.open n f, (openDB st n f).2)]) =
          opensOk n (tr ++ [(Op.open n f, (openDB st n f).2)])) ∧
        (realDrops n (tr ++ [(Op.open n f, (openDB st n f).2)]) + (if ((openDB st n f).1.names n).notDropped then 1 else 0) ≤
          opens n (tr ++ [(Op.open n f, (openDB st n f).2)]))
      rw [c.1, c.2.1, c.2.2, hdr, hnd]
      have hd' : realDrops n tr ≤ opens n tr := by split at hd <;> omega
      cases ho : (st.names n).opened with
      | some g =>
        have o := open_same_store st n g f ho
        rw [o.2.2.2.1, o.2.2.2.2.1, o.2.2.1]
        refine ⟨⟨fun h' => (by cases h'), fun h' => (by omega)⟩, by simp; omega, by simp; omega⟩
      | none =>
        cases f
        · have o := open_fresh st n ho
          rw [o.2.2.2.1, o.2.2.2.2.1, o.2.2.1]
          refine ⟨⟨fun h' => (by cases h'), fun h' => (by omega)⟩, by simp; omega, by simp; omega⟩
        · have o := open_fail st n ho
          rw [o.2.2.2.1, o.2.2.2.2.1, o.1]
          refine ⟨⟨fun _ => hi.mp ho, fun _ => rfl⟩, by simp; omega, by simp; omega⟩
    | close n g =>
      have hi := h.openIff n; have hb := h.balance n; have hd := h.drops n
      have c := counts_close tr n g (close st n g).2
      show (((close st n g).1.names n).opened = none ↔ ((close st n g).1.names n).ref = 0) ∧
        (((close st n g).1.names n).ref + closesOk n (tr ++ [(Op.close n g, (close st n g).2)]) =
          opensOk n (tr ++ [(Op.close n g, (close st n g).2)])) ∧
        (realDrops n (tr ++ [(Op.close n g, (close st n g).2)]) + (if ((close st n g).1.names n).notDropped then 1 else 0) ≤
          opens n (tr ++ [(Op.close n g, (close st n g).2)]))
      rw [c.1, c.2.1, c.2.2, realDrops_snoc]
      by_cases h0 : (st.names n).ref = 0
      · rw [close_too_often st n g h0]
        refine ⟨hi, by simp; omega, by simpa using hd⟩
      · by_cases h1 : (st.names n).ref = 1
        · have o := close_last st n g h1
          rw [o.1, o.2.1, o.2.2.1, o.2.2.2.1, o.2.2.2.2.1]
          refine ⟨⟨fun _ => rfl, fun _ => rfl⟩, by simp; omega, by simpa [dropPred] using hd⟩
        · have o := close_not_last st n g (by omega)
          rw [o.1, o.2.1, o.2.2.1, o.2.2.2.1, o.2.2.2.2.1]
          refine ⟨⟨fun h' => by have := hi.mp h'; omega, fun h' => by omega⟩, by simp; omega, by simpa using hd⟩
    | drop n g =>
      have hi := h.openIff n; have hb := h.balance n; have hd := h.drops n
      have c := counts_drop tr n g (drop st n g).2
      have o := drop_eq st n g
      show (((drop st n g).1.names n).opened = none ↔ ((drop st n g).1.names n).ref = 0) ∧
        (((drop st n g).1.names n).ref + closesOk n (tr ++ [(Op.drop n g, (drop st n g).2)]) =
          opensOk n (tr ++ [(Op.drop n g, (drop st n g).2)])) ∧
        (realDrops n (tr ++ [(Op.drop n g, (drop st n g).2)]) + (if ((drop st n g).1.names n).notDropped then 1 else 0) ≤
          opens n (tr ++ [(Op.drop n g, (drop st n g).2)]))
      rw [c.1, c.2.1, c.2.2, realDrops_snoc, o.1, o.2.2.1, o.2.2.2.1, o.2.2.2.2.1]
      refine ⟨hi, hb, ?_⟩
      cases hnd : (st.names n).notDropped
      · rw [hnd] at hd; simpa using hd
      · rw [hnd] at hd; simpa [dropPred] using hd
  refine ⟨?_, ?_, ?_⟩
  · intro n
    by_cases hn : n = opName op
    · subst hn; exact own.1
    · rw [(other n hn).1]; exact h.openIff n
  · intro n
    by_cases hn : n = opName op
    · subst hn; exact own.2.1
    · rw [(other n hn).1, (other n hn).2.2.1, (other n hn).2.2.2.1]; exact h.balance n
  · intro n
    by_cases hn : n = opName op
    · subst hn; exact own.2.2
    · rw [(other n hn).1, (other n hn).2.1, (other n hn).2.2.2.2]; exact h.drops n

theorem inv_run (st : State) (tr : Trace) (ops : List Op) (h : Inv st tr) :
    Inv (run st ops).1 (tr ++ (run st ops).2) := by
  induction ops generalizing st tr with
  | nil => simpa [run] using h
  | cons op ops ih =>
    have := ih (step st op).1 (tr ++ [(op, (step st op).2)]) (inv_step st tr op h)
    simpa [run, List.append_assoc] using this

/-! ## the clauses of the property over all operation sequences -/

theorem inv_reach (k : Kind) (ops : List Op) (st : State) (tr : Trace) (hr : run (new k) ops = (st, tr)) : Inv st tr := by
  have h := inv_run (new k) [] ops (inv_new k)
  rw [List.nil_append, hr] at h
  exact h

/-- **Reference counting** (either constructor, any sequence, any interleaving of names): the
counter of a name is the number of successful `OpenDB`s minus the number of successful `Close`s,
and a store is cached exactly while that difference is positive. (`st`, `tr`: final state and
trace of the run.) -/
theorem refcount_balance (k : Kind) (ops : List Op) (st : State) (tr : Trace) (hr : run (new k) ops = (st, tr)) (n : Nat) :
    (st.names n).ref + closesOk n tr = opensOk n tr ∧ ((st.names n).opened = none ↔ opensOk n tr = closesOk n tr) := by
  have h := inv_reach k ops st tr hr
  have hb := h.balance n
  refine ⟨hb, ?_⟩
  rw [h.openIff n]
  constructor <;> (intro h'; omega)

/-- **Same store**: after any sequence, as long as some successful open of `n` is not yet closed,
there is a cached store `g` and the next `OpenDB(n)` returns it without an underlying call. -/
theorem open_returns_same_store (k : Kind) (ops : List Op) (st : State) (tr : Trace) (hr : run (new k) ops = (st, tr))
    (n : Nat) (fail : Bool) (hgt : opensOk n tr > closesOk n tr) :
    ∃ g, (st.names n).opened = some g ∧ (openDB st n fail).2.gen = some g ∧ (openDB st n fail).2.evs = [] ∧
      ((openDB st n fail).1.names n).opened = some g := by
  have hb := refcount_balance k ops st tr hr n
  cases ho : (st.names n).opened with
  | none => have := hb.2.mp ho; omega
  | some g =>
    have o := open_same_store st n g fail ho
    exact ⟨g, rfl, o.1, o.2.1, o.2.2.2.1⟩

/-- **Closed exactly at the last close; closing more often is an error** — in terms of the
observable history alone: after any sequence, `Close` on a handle of `n` calls the underlying
`Close` iff exactly one successful open is outstanding, returns the error iff none is (and then
changes nothing), and otherwise just counts down. -/
theorem close_at_last_close (k : Kind) (ops : List Op) (st : State) (tr : Trace) (hr : run (new k) ops = (st, tr)) (n g : Nat) :
    (close st n g).2.evs = (if opensOk n tr = closesOk n tr + 1 then [.realClose n g] else []) ∧
    (close st n g).2.err = decide (opensOk n tr = closesOk n tr) ∧
    (opensOk n tr = closesOk n tr → (close st n g).1 = st) := by
  have hb := (refcount_balance k ops st tr hr n).1
  by_cases h0 : (st.names n).ref = 0
  · rw [close_too_often st n g h0]
    refine ⟨by rw [if_neg (by omega)], by simp; omega, fun _ => rfl⟩
  · by_cases h1 : (st.names n).ref = 1
    · have o := close_last st n g h1
      rw [o.1, o.2.1]
      refine ⟨by rw [if_pos (by omega)], by simp; omega, fun h' => by omega⟩
    · have o := close_not_last st n g (by omega)
      rw [o.1, o.2.1]
      refine ⟨by rw [if_neg (by omega)], by simp; omega, fun h' => by omega⟩

/-- **The underlying drop runs at most once per open**: after any sequence, the number of
underlying `Drop` calls on stores of `n` is at most the number of `OpenDB(n)` calls. -/
theorem drop_at_most_once_per_open (k : Kind) (ops : List Op) (n : Nat) :
    realDrops n (run (new k) ops).2 ≤ opens n (run (new k) ops).2 := by
  have h := inv_reach k ops _ _ rfl
  have := h.drops n
  split at this <;> omega

/-- … and between two `OpenDB(n)` calls at most one: a `Drop` right after a `Drop` calls nothing -/
theorem second_drop_is_noop (st : State) (n g g' : Nat) : (drop (drop st n g).1 n g').2.evs = [] := by
  rw [(drop_eq _ n g').1, (drop_eq st n g).2.2.1]
  rfl

/-! ## the underlying store is closed exactly once (per generation) -/

/-- handles of an earlier generation are not closed while a newer generation of the name is open -/
def okOp (st : State) : Op → Prop
  | .close n g => (st.names n).opened = some g ∨ (st.names n).opened = none
  | _ => True

def WF (st : State) : List Op → Prop
  | [] => True
  | op :: ops => okOp st op ∧ WF (step st op).1 ops

/-- what one operation on name `n = opName op` does to the events, the cached store and the
generation counter: (A) nothing of interest, (B) a new generation is opened, (C) the last close -/
theorem step_shape (st : State) (op : Op) (hi : (st.names (opName op)).opened = none ↔ (st.names (opName op)).ref = 0) :
    ((∀ n g, Ev.realOpen n g ∉ (step st op).2.evs ∧ Ev.realClose n g ∉ (step st op).2.evs) ∧
      ((step st op).1.names (opName op)).opened = (st.names (opName op)).opened ∧ (step st op).1.nextGen = st.nextGen) ∨
    ((st.names (opName op)).opened = none ∧ (step st op).2.evs = [.realOpen (opName op) st.nextGen] ∧
      ((step st op).1.names (opName op)).opened = some st.nextGen ∧ (step st op).1.nextGen = st.nextGen + 1) ∨
    (∃ g, op = .close (opName op) g ∧ (st.names (opName op)).opened ≠ none ∧ (step st op).2.evs = [.realClose (opName op) g] ∧
      ((step st op).1.names (opName op)).opened = none ∧ (step st op).1.nextGen = st.nextGen) := by
  cases op with
  | «open» n f =>
    cases ho : (st.names n).opened with
    | some g =>
      have o := open_same_store st n g f ho
      left
      refine ⟨fun n' g' => ?_, by show ((openDB st n f).1.names n).opened = (st.names n).opened; rw [o.2.2.2.1, ho], o.2.2.2.2.2⟩
      show _ ∉ (openDB st n f).2.evs ∧ _ ∉ (openDB st n f).2.evs
      rw [o.2.1]; simp
    | none =>
      cases f
      · have o := open_fresh st n ho
        right; left
        exact ⟨ho, o.2.1, o.2.2.2.1, o.2.2.2.2.2⟩
      · have o := open_fail st n ho
        left
        refine ⟨fun n' g' => ?_, by show ((openDB st n true).1.names n).opened = (st.names n).opened; rw [o.2.2.2.1, ho], o.2.2.2.2.2⟩
        show _ ∉ (openDB st n true).2.evs ∧ _ ∉ (openDB st n true).2.evs
        rw [o.2.2.1]; simp
  | close n g =>
    by_cases h0 : (st.names n).ref = 0
    · left
      show (∀ n' g', _ ∉ (close st n g).2.evs ∧ _ ∉ (close st n g).2.evs) ∧ ((close st n g).1.names n).opened = _ ∧
        (close st n g).1.nextGen = _
      rw [close_too_often st n g h0]
      exact ⟨fun _ _ => ⟨by simp, by simp⟩, rfl, rfl⟩
    · by_cases h1 : (st.names n).ref = 1
      · have o := close_last st n g h1
        right; right
        exact ⟨g, rfl, fun h' => h0 (hi.mp h'), o.2.1, o.2.2.1, o.2.2.2.2.2⟩
      · have o := close_not_last st n g (by omega)
        left
        refine ⟨fun n' g' => ?_, o.2.2.1, o.2.2.2.2.2⟩
        show _ ∉ (close st n g).2.evs ∧ _ ∉ (close st n g).2.evs
        rw [o.2.1]; simp
  | drop n g =>
    have o := drop_eq st n g
    left
    refine ⟨fun n' g' => ?_, o.2.2.2.1, o.2.2.2.2.2⟩
    show _ ∉ (drop st n g).2.evs ∧ _ ∉ (drop st n g).2.evs
    rw [o.1]; split <;> simp

theorem count_snoc_ne (E : List Ev) (e x : Ev) (h : x ≠ e) : (E ++ [x]).count e = E.count e := by
  rw [List.count_append]
  have : List.count e [x] = 0 := List.count_eq_zero.mpr (by simp; exact fun h' => h h'.symm)
  omega

theorem count_snoc_self (E : List Ev) (e : Ev) : (E ++ [e]).count e = E.count e + 1 := by
  rw [List.count_append]; simp

theorem count_append_none (E ev : List Ev) (e : Ev) (h : e ∉ ev) : (E ++ ev).count e = E.count e := by
  rw [List.count_append, List.count_eq_zero.mpr h]; rfl

structure Inv2 (st : State) (tr : Trace) : Prop where
  lt : ∀ n g, (Ev.realOpen n g ∈ events tr ∨ (st.names n).opened = some g) → g < st.nextGen
  clt : ∀ n g, Ev.realClose n g ∈ events tr → g < st.nextGen
  /-- the cached generation has been opened underneath and not closed yet -/
  cur : ∀ n g, (st.names n).opened = some g → Ev.realOpen n g ∈ events tr ∧ (events tr).count (.realClose n g) = 0
  /-- every earlier generation has been closed underneath exactly once -/
  past : ∀ n g, Ev.realOpen n g ∈ events tr → (st.names n).opened ≠ some g → (events tr).count (.realClose n g) = 1

theorem inv2_new (k : Kind) : Inv2 (new k) [] := by
  refine ⟨?_, ?_, ?_, ?_⟩
  · intro n g h; rcases h with h | h <;> cases h
  · intro n g h; cases h
  · intro n g h; cases h
  · intro n g h; cases h

theorem inv2_step (st : State) (tr : Trace) (op : Op) (hi : Inv st tr) (h : Inv2 st tr) (hok : okOp st op) :
    Inv2 (step st op).1 (tr ++ [(op, (step st op).2)]) := by
  have hev := events_snoc tr (op, (step st op).2)
  simp only at hev
  have oth : ∀ n, n ≠ opName op → ((step st op).1.names n).opened = (st.names n).opened :=
    fun n hn => by rw [step_other st op n hn]
  have nm := step_evs_name st op
  rcases step_shape st op (hi.openIff _) with ⟨hno, hop, hng⟩ | ⟨hnone, hevs, hop, hng⟩ | ⟨g0, hopq, hne, hevs, hop, hng⟩
  · -- (A) nothing of interest happens
    have opened_eq : ∀ n, ((step st op).1.names n).opened = (st.names n).opened := by
      intro n; by_cases hn : n = opName op
      · subst hn; exact hop
      · exact oth n hn
    have mem_iff : ∀ n g, Ev.realOpen n g ∈ events tr ++ (step st op).2.evs ↔ Ev.realOpen n g ∈ events tr := by
      intro n g; rw [List.mem_append]; exact ⟨fun h' => h'.resolve_right (hno n g).1, Or.inl⟩
    have cnt : ∀ n g, (events tr ++ (step st op).2.evs).count (.realClose n g) = (events tr).count (.realClose n g) :=
      fun n g => count_append_none _ _ _ (hno n g).2
    refine ⟨?_, ?_, ?_, ?_⟩
    · intro n g hh; rw [hev, mem_iff, opened_eq, hng] at *; exact h.lt n g hh
    · intro n g hh; rw [hev, List.mem_append] at hh; rw [hng]
      exact h.clt n g (hh.resolve_right (hno n g).2)
    · intro n g hh; rw [opened_eq] at hh; rw [hev, mem_iff, cnt]; exact h.cur n g hh
    · intro n g h1 h2; rw [hev, mem_iff] at h1; rw [opened_eq] at h2; rw [hev, cnt]; exact h.past n g h1 h2
  · -- (B) a new generation of the op's name is opened underneath
    rw [hevs] at hev
    have fresh : (events tr).count (.realClose (opName op) st.nextGen) = 0 := by
      apply List.count_eq_zero.mpr
      intro hm; have := h.clt _ _ hm; omega
    refine ⟨?_, ?_, ?_, ?_⟩
    · intro n g hh
      rw [hev, hng] at *
      rcases hh with hh | hh
      · rcases List.mem_append.mp hh with h1 | h1
        · have := h.lt n g (Or.inl h1); omega
        · simp at h1; omega
      · by_cases hn : n = opName op
        · subst hn; rw [hop] at hh; cases hh; omega
        · rw [oth n hn] at hh; have := h.lt n g (Or.inr hh); omega
    · intro n g hh
      rw [hev] at hh; rw [hng]
      rcases List.mem_append.mp hh with h1 | h1
      · have := h.clt n g h1; omega
      · simp at h1
    · intro n g hh
      rw [hev]
      by_cases hn : n = opName op
      · subst hn; rw [hop] at hh; cases hh
        exact ⟨List.mem_append_right _ (by simp), by rw [count_snoc_ne _ _ _ (by simp)]; exact fresh⟩
      · rw [oth n hn] at hh
        have := h.cur n g hh
        exact ⟨List.mem_append_left _ this.1, by rw [count_snoc_ne _ _ _ (by simp)]; exact this.2⟩
    · intro n g h1 h2
      rw [hev] at h1 ⊢
      rw [count_snoc_ne _ _ _ (by simp)]
      rcases List.mem_append.mp h1 with h1 | h1
      · by_cases hn : n = opName op
        · subst hn; exact h.past _ g h1 (by rw [hnone]; simp)
        · rw [oth n hn] at h2; exact h.past n g h1 h2
      · simp at h1; obtain ⟨rfl, rfl⟩ := h1; exact absurd hop h2
  · -- (C) the last close of the current generation
    rw [hevs] at hev
    have hcur : (st.names (opName op)).opened = some g0 := by
      rw [hopq] at hok
      rcases hok with h' | h'
      · exact h'
      · exact absurd h' hne
    have mem_iff : ∀ n g, Ev.realOpen n g ∈ events tr ++ [Ev.realClose (opName op) g0] ↔ Ev.realOpen n g ∈ events tr := by
      intro n g; rw [List.mem_append]; exact ⟨fun h' => h'.resolve_right (by simp), Or.inl⟩
    refine ⟨?_, ?_, ?_, ?_⟩
    · intro n g hh
      rw [hev, mem_iff, hng] at *
      rcases hh with hh | hh
      · exact h.lt n g (Or.inl hh)
      · by_cases hn : n = opName op
        · subst hn; rw [hop] at hh; cases hh
        · rw [oth n hn] at hh; exact h.lt n g (Or.inr hh)
    · intro n g hh
      rw [hev] at hh; rw [hng]
      rcases List.mem_append.mp hh with h1 | h1
      · exact h.clt n g h1
      · simp at h1; obtain ⟨rfl, rfl⟩ := h1; exact h.lt _ _ (Or.inr hcur)
    · intro n g hh
      rw [hev, mem_iff]
      by_cases hn : n = opName op
      · subst hn; rw [hop] at hh; cases hh
      · rw [oth n hn] at hh
        have := h.cur n g hh
        exact ⟨this.1, by rw [count_snoc_ne _ _ _ (by simp; exact fun h' => absurd h'.symm hn)]; exact this.2⟩
    · intro n g h1 h2
      rw [hev, mem_iff] at h1; rw [hev]
      by_cases hn : n = opName op
      · subst hn
        by_cases hg : g = g0
        · subst hg; rw [count_snoc_self, (h.cur _ _ hcur).2]
        · rw [count_snoc_ne _ _ _ (by simp; exact fun h' => hg h'.symm)]
          exact h.past _ g h1 (by rw [hcur]; simp; exact fun h' => hg h'.symm)
      · rw [oth n hn] at h2
        rw [count_snoc_ne _ _ _ (by simp; exact fun h' => absurd h'.symm hn)]
        exact h.past n g h1 h2

theorem inv2_run (st : State) (tr : Trace) (ops : List Op) (hi : Inv st tr) (h : Inv2 st tr) (hw : WF st ops) :
    Inv2 (run st ops).1 (tr ++ (run st ops).2) := by
  induction ops generalizing st tr with
  | nil => simpa [run] using h
  | cons op ops ih =>
    have := ih (step st op).1 (tr ++ [(op, (step st op).2)]) (inv_step st tr op hi) (inv2_step st tr op hi h hw.1) hw.2
    simpa [run, List.append_assoc] using this

/-- **The underlying database is closed exactly once, when the last of the opens is closed**
(per generation, DESIGN §2.6): for either constructor and every operation sequence in which no
stale handle is closed while a newer generation of its name is open, every store ever opened
underneath (`realOpen n g`) has been closed underneath exactly once if it is no longer the cached
store of `n`, and not at all while it is — and by `close_at_last_close` the cached store is given
up exactly by the close that brings the outstanding opens to zero. -/
theorem closed_exactly_once (k : Kind) (ops : List Op) (hw : WF (new k) ops) (n g : Nat) :
    Ev.realOpen n g ∈ events (run (new k) ops).2 →
    (events (run (new k) ops).2).count (.realClose n g) =
      if ((run (new k) ops).1.names n).opened = some g then 0 else 1 := by
  intro hm
  have h := inv2_run (new k) [] ops (inv_new k) (inv2_new k) hw
  rw [List.nil_append] at h
  split
  · next hc => exact (h.cur n g hc).2
  · next hc => exact h.past n g hm hc

/-- a cached store is always one that was really opened, and once all opens are closed (nothing
cached) every store of the name has been closed exactly once -/
theorem all_closed_when_balanced (k : Kind) (ops : List Op) (hw : WF (new k) ops) (n g : Nat)
    (hb : opensOk n (run (new k) ops).2 = closesOk n (run (new k) ops).2)
    (hm : Ev.realOpen n g ∈ events (run (new k) ops).2) :
    (events (run (new k) ops).2).count (.realClose n g) = 1 := by
  have hn := (refcount_balance k ops _ _ rfl n).2.mpr hb
  rw [closed_exactly_once k ops hw n g hm, if_neg (by rw [hn]; simp)]

/-! ## negative witness: `Wrap` before the `fix:` commit (DESIGN §7 D9) -/

/-- `Wrap` built its cacheState without `refCounter`; Go panics on `c.refCounter[name]++` of a nil
map ("assignment to entry in nil map"). The pre-fix producer: `refAllocated = false` for `wrap`. -/
def refAllocatedPreFix : Kind → Bool
  | .wrap => false
  | .wrapAll => true

/-- first `OpenDB` through the pre-fix producer: `none` = panic at the counter increment (reached on
both paths of openDB, after a successful underlying open) -/
def openPreFix (k : Kind) (st : State) (n : Nat) : Option (State × Out) :=
  if refAllocatedPreFix k then some (openDB st n false) else none

example : openPreFix .wrap (new .wrap) 7 = none := by decide
example : (openPreFix .wrapAll (new .wrapAll) 7).isSome = true := by decide
/-- the repaired `Wrap` behaves as `WrapAll` on its first open -/
example : (openDB (new .wrap) 7 false).2.evs = [.realOpen 7 0] ∧ (openDB (new .wrap) 7 false).2.gen = some 0 := by decide

/-! ## non-vacuity -/

/-- two names interleaved, both constructors: the second open of 0 reuses generation 0; its store
is closed underneath by the second close only; a third close is an error; reopening creates
generation 2; one underlying drop per open -/
example : ∀ k, ((run (new k) [.open 0 false, .open 1 false, .open 0 false, .close 0 0, .close 0 0, .close 0 0,
      .open 0 false, .drop 0 2, .drop 0 2, .close 1 1]).2.map (fun x => (x.2.err, x.2.gen, x.2.evs))) =
    [(false, some 0, [.realOpen 0 0]), (false, some 1, [.realOpen 1 1]), (false, some 0, []), (false, none, []),
     (false, none, [.realClose 0 0]), (true, none, []), (false, some 2, [.realOpen 0 2]), (false, none, [.realDrop 0 2]),
     (false, none, []), (false, none, [.realClose 1 1])] := by
  intro k; cases k <;> decide

example : WF (new .wrap) [.open 0 false, .open 0 false, .close 0 0, .close 0 0, .close 0 0, .open 0 false, .close 0 1] := by
  simp [WF, okOp, step, openDB, close, new, setName, Gen.Cachedproducer.reuseOpened, Gen.Cachedproducer.closeTooOften,
    Gen.Cachedproducer.closeLast]

/-- why `WF` is needed (the model follows the code): closing the stale handle of generation 0 while
generation 1 is open closes store 0 a second time and leaves store 1 open -/
example : (events (run (new .wrap) [.open 0 false, .close 0 0, .open 0 false, .close 0 0]).2).count (.realClose 0 0) = 2 := by
  decide

end C27
