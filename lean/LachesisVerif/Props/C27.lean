namespace C27
theorem stub : True := trivial
end C27
