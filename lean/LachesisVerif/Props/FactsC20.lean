import LachesisVerif.Gen.FactsC20
/-!
# Structural expectations for C20 (regenerated facts `Gen.FactsC20`)

Split out of the family survey (`notes/facts-misc-notes.md` lists what the selectors cannot express).
Each theorem states the expected value of Bool facts regenerated from the Go source by
`go/cmd/extract` (selectors `hascall:`, `topcall:`, `topassign:`, `before:`); a statement that is
dropped, guarded or reordered flips a fact and breaks the theorem.
-/
namespace FactsC20

/-- `QuorumIndexer.ProcessEvent` (`Model.Ancestor.processEvent` / `processBody`): the matrix cell and
    (for self events) the own observation receive `seqOf(...)` (a fork counts as the maximal value),
    and `dirty := true` is set unconditionally at the end — otherwise the medians reported next would
    be those of an older matrix. -/
theorem process_event_structure :
    Gen.FactsC20.processMarksDirty = true ∧ Gen.FactsC20.processWritesMatrix = true ∧
    Gen.FactsC20.processWritesSelf = true := by decide

/-- `QuorumIndexer.recacheState` (`Model.Ancestor.recache` / `recacheBody`): the pairs carry the
    validator weights, are sorted (descending, kernel `sortBefore`) BEFORE `wmedian.Of` scans them,
    the scan stops at `validators.Quorum()`, the median is stored and only then `dirty := false`;
    the search strategy (with its metric cache) is replaced at top level, so no cached metric
    survives a recache (`qchoose`: "the per-recache metric cache is transparent"). The median is
    "the largest s observed by a quorum of weight" only for a sorted scan up to the quorum. -/
theorem recache_structure :
    Gen.FactsC20.recacheSortsBeforeMedian = true ∧ Gen.FactsC20.recacheStopsAtQuorum = true ∧
    Gen.FactsC20.recacheUsesWeights = true ∧ Gen.FactsC20.recacheStoresBeforeClean = true ∧
    Gen.FactsC20.recacheRenewsStrategy = true := by decide

/-- the readers (`getMetric`, `getMedians`, `qchoose`): the body of their `if h.dirty` (kernels
    `metricDirty`, `mediansDirty`, `strategyDirty`) really is `recacheState()`, in `GetMetricOf` it
    precedes the first use of the medians, and the candidate's observation goes through `seqOf`. -/
theorem readers_structure :
    Gen.FactsC20.metricRecachesBeforeDiff = true ∧ Gen.FactsC20.metricForkAdjusted = true ∧
    Gen.FactsC20.mediansRecache = true ∧ Gen.FactsC20.strategyRecaches = true := by decide

end FactsC20
