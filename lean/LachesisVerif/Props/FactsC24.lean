import LachesisVerif.Gen.FactsC24
/-!
# Structural expectations for C24 (regenerated facts `Gen.FactsC24`)

Split out of the family survey (`notes/facts-kv-notes.md` lists what the selectors cannot express).
Each theorem states the expected value of Bool facts regenerated from the Go source by
`go/cmd/extract` (selectors `hascall:`, `topcall:`, `topassign:`, `before:`); a statement that is
dropped, guarded or reordered flips a fact and breaks the theorem.
-/
namespace FactsC24

/-- every way down prefixes the key (`Model.Table.get/has/put/delete`, `prefixOp`, `iterOver`):
    `Put`, `Delete`, `Get`, `Has`, `NewIterator`, `batch.Put`, `batch.Delete` all call `prefixed`.
    One of them without it reads or writes outside the table's key space — `*_touches_only_prefix`
    and `independent` fail. -/
theorem down_prefixes :
    Gen.FactsC24.putPrefixes = true ∧ Gen.FactsC24.deletePrefixes = true ∧
    Gen.FactsC24.getPrefixes = true ∧ Gen.FactsC24.hasPrefixes = true ∧
    Gen.FactsC24.iterPrefixes = true ∧ Gen.FactsC24.batchPutPrefixes = true ∧
    Gen.FactsC24.batchDeletePrefixes = true := by decide

/-- every way up strips it (`unprefixOp`, `iterOver`'s key map): `iterator.Key`, `replayer.Put`,
    `replayer.Delete` call `noPrefix` (`iter_commutes`, `replay_commutes`). -/
theorem up_strips :
    Gen.FactsC24.iterKeyStrips = true ∧ Gen.FactsC24.replayPutStrips = true ∧
    Gen.FactsC24.replayDeleteStrips = true := by decide

/-- `Table.Compact` (`compactRange`): the start is prefixed and a nil limit is replaced by
    `incPrefix(prefix)` — the range covers every key with the table's prefix. -/
theorem compact_structure :
    Gen.FactsC24.compactPrefixesStart = true ∧ Gen.FactsC24.compactIncPrefix = true := by decide

end FactsC24
