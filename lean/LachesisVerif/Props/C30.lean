namespace C30
theorem stub : True := trivial
end C30
