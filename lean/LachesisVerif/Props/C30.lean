import LachesisVerif.Model.Semaphore
/-!
# C30 — Events semaphore bounds, waits and times out correctly

"The events semaphore never lets the held amount exceed its capacity, grants a fitting request
immediately or as soon as enough is released, and refuses a request that exceeds the capacity or
is still unsatisfied when its timeout expires, returning shortly after the timeout. After
termination every non-empty request is refused and blocked callers return, and an over-release
resets the held amount to zero and is reported."

Model: `Model.Semaphore` — uint32/uint64 amounts with the wrap-around arithmetic and every
condition of `tryAcquire`, `Release` and the `Acquire` loop regenerated from the source; blocked
callers are waiters on a logical clock; the scheduler's wake order at a `Release` is an arbitrary
input. All trace theorems hold for **every** operation sequence from `new cap` (any amounts, also
outside the uint ranges; any timeouts; any wake orders).

"Capacity" is the configured one (`cap0`): `Terminate` zeroes `maxProcessing`, after which the
held amount may exceed the *current* bound but never the configured one.
*Partial by nature*: "returning shortly after the timeout" is real time; the theorems place the
return exactly at the deadline of the logical clock, the stream `semtimed` checks
`timeout ≤ elapsed ≤ 2·timeout + 200 ms` on the real code.
-/
namespace C30
open Model.Semaphore

/-- within the uint32 / uint64 ranges of dag.Metric -/
def InRange (m : Metric) : Prop := m.num < 4294967296 ∧ m.size < 18446744073709551616

/-- componentwise ≤ -/
def Le (a b : Metric) : Prop := a.num ≤ b.num ∧ a.size ≤ b.size

/-- the request fits: true sums (unbounded naturals) within the bound -/
def Fits (held cap m : Metric) : Prop := held.num + m.num ≤ cap.num ∧ held.size + m.size ≤ cap.size

instance (held cap m : Metric) : Decidable (Fits held cap m) := by unfold Fits; infer_instance

def madd (a b : Metric) : Metric := ⟨a.num + b.num, a.size + b.size⟩

theorem Le.trans {a b c : Metric} (h1 : Le a b) (h2 : Le b c) : Le a c :=
  ⟨Nat.le_trans h1.1 h2.1, Nat.le_trans h1.2 h2.2⟩

theorem Le.refl (a : Metric) : Le a a := ⟨Nat.le_refl _, Nat.le_refl _⟩

theorem inRange_of_le {a b : Metric} (h : Le a b) (hb : InRange b) : InRange a :=
  ⟨Nat.lt_of_le_of_lt h.1 hb.1, Nat.lt_of_le_of_lt h.2 hb.2⟩

theorem not_fits_mono {h h' cap m : Metric} (hle : Le h h') (hn : ¬ Fits h cap m) : ¬ Fits h' cap m := by
  unfold Fits Le at *; omega

/-! ## the decision kernels -/

/-- `tryAcquire` (with the overflow guard) grants exactly the requests whose true sums fit, and
then adds exactly the amount — for held amounts and bounds in the uint ranges and **any** request,
also one that would wrap. -/
theorem tryAcquire_eq (held cap m : Metric) (hh : InRange held) (hc : InRange cap) :
    tryAcquire held cap m = if Fits held cap m then some (madd held m) else none := by
  unfold tryAcquire Gen.Semaphore.addNum Gen.Semaphore.addSize Gen.Semaphore.overflowCond Gen.Semaphore.exceedsCond
  unfold InRange at hh hc
  simp only [Bool.or_eq_true, decide_eq_true_eq]
  by_cases hf : Fits held cap m
  · rw [if_pos hf]
    unfold Fits at hf
    have e1 : (held.num + m.num) % 4294967296 = held.num + m.num := Nat.mod_eq_of_lt (by omega)
    have e2 : (held.size + m.size) % 18446744073709551616 = held.size + m.size := Nat.mod_eq_of_lt (by omega)
    rw [e1, e2, if_neg (by omega), if_neg (by omega)]
    rfl
  · rw [if_neg hf]
    unfold Fits at hf
    split
    · rfl
    · next h1 =>
      rw [if_pos]
      omega

/-- one iteration of the Acquire loop -/
theorem attempt_eq (st : State) (m : Metric) (d : Nat) (hh : InRange st.held) (hc : InRange st.cap) :
    attempt st m d =
      if Fits st.held st.cap m then ({ st with held := madd st.held m }, some true)
      else if m.size > st.cap.size ∨ m.num > st.cap.num ∨ d ≤ st.now then (st, some false)
      else (st, none) := by
  unfold attempt
  rw [tryAcquire_eq _ _ _ hh hc]
  by_cases hf : Fits st.held st.cap m
  · simp [hf, Gen.Semaphore.acquireLoop]
  · simp only [hf, if_false, Gen.Semaphore.acquireLoop, Gen.Semaphore.acquireGiveUp, Option.isSome_none,
      Bool.not_false, if_true, Bool.or_eq_true, decide_eq_true_eq]
    by_cases hg : m.size > st.cap.size ∨ m.num > st.cap.num ∨ d ≤ st.now
    · rw [if_pos hg, if_pos (by omega)]
    · rw [if_neg hg, if_neg (by omega)]

/-! ## step-level clauses -/

/-- **A fitting request is granted at once** (Acquire with any timeout), and the held amount grows
by exactly the request. -/
theorem fitting_granted_at_once (st : State) (id : Nat) (m : Metric) (t : Nat)
    (hh : InRange st.held) (hc : InRange st.cap) (hf : Fits st.held st.cap m) :
    acquire st id m t = ({ st with held := madd st.held m }, [.ret id true]) := by
  unfold acquire; rw [attempt_eq _ _ _ hh hc, if_pos hf]

/-- TryAcquire succeeds exactly when the request fits -/
theorem tryAcq_iff (st : State) (id : Nat) (m : Metric) (hh : InRange st.held) (hc : InRange st.cap) :
    tryAcq st id m = if Fits st.held st.cap m then ({ st with held := madd st.held m }, [.ret id true])
      else (st, [.ret id false]) := by
  unfold tryAcq; rw [tryAcquire_eq _ _ _ hh hc]
  by_cases hf : Fits st.held st.cap m <;> simp [hf]

/-- **A request above the capacity is refused** at once, whatever its timeout; nothing changes. -/
theorem above_capacity_refused (st : State) (id : Nat) (m : Metric) (t : Nat)
    (hh : InRange st.held) (hc : InRange st.cap) (hm : m.num > st.cap.num ∨ m.size > st.cap.size) :
    acquire st id m t = (st, [.ret id false]) := by
  unfold acquire
  rw [attempt_eq _ _ _ hh hc, if_neg (by unfold Fits; omega), if_pos (by omega)]

/-- a request that neither fits nor exceeds the capacity waits (positive timeout) -/
theorem waits_otherwise (st : State) (id : Nat) (m : Metric) (t : Nat)
    (hh : InRange st.held) (hc : InRange st.cap) (hf : ¬ Fits st.held st.cap m) (hm : Le m st.cap) (ht : 0 < t) :
    acquire st id m t = ({ st with waiters := st.waiters ++ [⟨id, m, st.now + t⟩] }, []) := by
  unfold acquire
  unfold Le at hm
  rw [attempt_eq _ _ _ hh hc, if_neg hf, if_neg (by omega)]

/-- **Over-release resets the held amount to zero and is reported**; a release within the held
amount subtracts exactly (no wrap). -/
theorem releaseCore_eq (st : State) (m : Metric) (hh : InRange st.held) :
    releaseCore st m =
      if st.held.num < m.num ∨ st.held.size < m.size then ({ st with held := Metric.zero }, [.warn st.held m])
      else ({ st with held := ⟨st.held.num - m.num, st.held.size - m.size⟩ }, []) := by
  unfold releaseCore Gen.Semaphore.releaseOver Gen.Semaphore.releaseSubNum Gen.Semaphore.releaseSubSize
  unfold InRange at hh
  simp only [Bool.or_eq_true, decide_eq_true_eq]
  split
  · rfl
  · next h =>
    have e1 : (st.held.num + 4294967296 - m.num % 4294967296) % 4294967296 = st.held.num - m.num := by omega
    have e2 : (st.held.size + 18446744073709551616 - m.size % 18446744073709551616) % 18446744073709551616 =
        st.held.size - m.size := by omega
    rw [e1, e2]

theorem over_release_resets (st : State) (m : Metric) (ord : List Nat) (hh : InRange st.held)
    (ho : st.held.num < m.num ∨ st.held.size < m.size) :
    release st m ord = ((broadcast { st with held := Metric.zero } ord).1,
      .warn st.held m :: (broadcast { st with held := Metric.zero } ord).2) := by
  unfold release; rw [releaseCore_eq _ _ hh, if_pos ho]; rfl

/-- with nobody waiting, an over-release leaves exactly zero held and one warning -/
theorem over_release_no_waiters (st : State) (m : Metric) (ord : List Nat) (hh : InRange st.held)
    (ho : st.held.num < m.num ∨ st.held.size < m.size) (hw : st.waiters = []) :
    (release st m ord).1.held = Metric.zero ∧ (release st m ord).2 = [.warn st.held m] := by
  rw [over_release_resets _ _ _ hh ho]
  unfold broadcast
  simp only [hw]
  have : wakeOrder [] ord = [] := by
    induction ord with
    | nil => rfl
    | cons i ord ih => unfold wakeOrder; simpa using ih
  rw [this]
  exact ⟨rfl, rfl⟩

/-! ## waking waiters -/

theorem attempt_fields (st : State) (m : Metric) (d : Nat) :
    (attempt st m d).1.cap = st.cap ∧ (attempt st m d).1.now = st.now ∧ (attempt st m d).1.waiters = st.waiters := by
  unfold attempt
  simp only
  cases tryAcquire st.held st.cap m <;> (simp only; split <;> (try split) <;> exact ⟨rfl, rfl, rfl⟩)

theorem wake_fields (ws : List Waiter) : ∀ st : State,
    (wake st ws).1.cap = st.cap ∧ (wake st ws).1.now = st.now ∧ (wake st ws).1.waiters = st.waiters := by
  induction ws with
  | nil => intro st; exact ⟨rfl, rfl, rfl⟩
  | cons w ws ih =>
    intro st
    have ha := attempt_fields st w.amt w.deadline
    unfold wake
    cases h : attempt st w.amt w.deadline with
    | mk st' r =>
      rw [h] at ha
      cases r with
      | none => simp only; have := ih st'; exact ⟨this.1.trans ha.1, this.2.1.trans ha.2.1, this.2.2.trans ha.2.2⟩
      | some b => simp only; have := ih st'; exact ⟨this.1.trans ha.1, this.2.1.trans ha.2.1, this.2.2.trans ha.2.2⟩

/-- **General wake lemma**: whatever is woken, the held amount only grows and stays within the
configured capacity, and every waiter that goes back to sleep has its deadline ahead, is within
the current bound, and does not fit the final held amount. -/
theorem wake_general (cap0 : Metric) (hr : InRange cap0) (ws : List Waiter) : ∀ st : State,
    Le st.cap cap0 → Le st.held cap0 →
    Le st.held (wake st ws).1.held ∧ Le (wake st ws).1.held cap0 ∧
    ∀ w ∈ (wake st ws).2.1, w ∈ ws ∧ st.now < w.deadline ∧ Le w.amt st.cap ∧ ¬ Fits (wake st ws).1.held st.cap w.amt := by
  induction ws with
  | nil => intro st _ hh; exact ⟨Le.refl _, hh, by intro w hw; cases hw⟩
  | cons w ws ih =>
    intro st hc hh
    have hrh := inRange_of_le hh hr
    have hrc := inRange_of_le hc hr
    unfold wake
    rw [attempt_eq _ _ _ hrh hrc]
    by_cases hf : Fits st.held st.cap w.amt
    · rw [if_pos hf]
      simp only
      have hle : Le st.held (madd st.held w.amt) := by unfold Le madd; simp
      have hh' : Le (madd st.held w.amt) cap0 := by
        unfold Fits at hf; unfold Le madd at *; simp only; omega
      have := ih { st with held := madd st.held w.amt } hc hh'
      refine ⟨hle.trans this.1, this.2.1, ?_⟩
      intro x hx
      have := this.2.2 x hx
      exact ⟨List.mem_cons_of_mem _ this.1, this.2.1, this.2.2.1, this.2.2.2⟩
    · rw [if_neg hf]
      by_cases hg : w.amt.size > st.cap.size ∨ w.amt.num > st.cap.num ∨ w.deadline ≤ st.now
      · rw [if_pos hg]
        simp only
        have := ih st hc hh
        refine ⟨this.1, this.2.1, ?_⟩
        intro x hx
        have := this.2.2 x hx
        exact ⟨List.mem_cons_of_mem _ this.1, this.2.1, this.2.2.1, this.2.2.2⟩
      · rw [if_neg hg]
        simp only
        have := ih st hc hh
        refine ⟨this.1, this.2.1, ?_⟩
        intro x hx
        rcases List.mem_cons.mp hx with rfl | hx
        · refine ⟨List.mem_cons_self, by omega, by unfold Le; omega, not_fits_mono this.1 hf⟩
        · have := this.2.2 x hx
          exact ⟨List.mem_cons_of_mem _ this.1, this.2.1, this.2.2.1, this.2.2.2⟩

/-- waking waiters whose deadline is ahead and that are within the bound never refuses anybody:
each one is granted (`ret id true`) or stays, and nothing else is reported -/
theorem wake_no_refusal (cap0 : Metric) (hr : InRange cap0) (ws : List Waiter) : ∀ st : State,
    Le st.cap cap0 → Le st.held cap0 → (∀ w ∈ ws, st.now < w.deadline ∧ Le w.amt st.cap) →
    (∀ w ∈ ws, Ev.ret w.id true ∈ (wake st ws).2.2 ∨ w ∈ (wake st ws).2.1) ∧
    (∀ e ∈ (wake st ws).2.2, ∃ w ∈ ws, e = Ev.ret w.id true) := by
  induction ws with
  | nil =>
    intro st _ _ _
    refine ⟨?_, ?_⟩
    · intro w hw; cases hw
    · intro e he; cases he
  | cons w ws ih =>
    intro st hc hh hq
    have hrh := inRange_of_le hh hr
    have hrc := inRange_of_le hc hr
    have hqw := hq w List.mem_cons_self
    unfold wake
    rw [attempt_eq _ _ _ hrh hrc]
    by_cases hf : Fits st.held st.cap w.amt
    · rw [if_pos hf]
      simp only
      have hh' : Le (madd st.held w.amt) cap0 := by
        unfold Fits at hf; unfold Le madd at *; simp only; omega
      have := ih { st with held := madd st.held w.amt } hc hh' (fun x hx => hq x (List.mem_cons_of_mem _ hx))
      constructor
      · intro x hx
        rcases List.mem_cons.mp hx with rfl | hx
        · exact Or.inl List.mem_cons_self
        · rcases this.1 x hx with h | h
          · exact Or.inl (List.mem_cons_of_mem _ h)
          · exact Or.inr h
      · intro e he
        rcases List.mem_cons.mp he with rfl | he
        · exact ⟨w, List.mem_cons_self, rfl⟩
        · obtain ⟨x, hx, rfl⟩ := this.2 e he
          exact ⟨x, List.mem_cons_of_mem _ hx, rfl⟩
    · rw [if_neg hf, if_neg (by unfold Le at hqw; omega)]
      simp only
      have := ih st hc hh (fun x hx => hq x (List.mem_cons_of_mem _ hx))
      constructor
      · intro x hx
        rcases List.mem_cons.mp hx with rfl | hx
        · exact Or.inr List.mem_cons_self
        · rcases this.1 x hx with h | h
          · exact Or.inl h
          · exact Or.inr (List.mem_cons_of_mem _ h)
      · intro e he
        obtain ⟨x, hx, rfl⟩ := this.2 e he
        exact ⟨x, List.mem_cons_of_mem _ hx, rfl⟩

/-- waking waiters none of which fits (and all within the bound) changes nothing: exactly those
whose deadline has been reached return `false`, the others go back to sleep -/
theorem wake_nofit (ws : List Waiter) (st : State) (hh : InRange st.held) (hc : InRange st.cap)
    (hq : ∀ w ∈ ws, Le w.amt st.cap ∧ ¬ Fits st.held st.cap w.amt) :
    wake st ws = (st, ws.filter (fun w => decide (st.now < w.deadline)),
      (ws.filter (fun w => decide (w.deadline ≤ st.now))).map (fun w => Ev.ret w.id false)) := by
  induction ws with
  | nil => rfl
  | cons w ws ih =>
    have hw := hq w List.mem_cons_self
    have ih := ih (fun x hx => hq x (List.mem_cons_of_mem _ hx))
    unfold wake
    rw [attempt_eq _ _ _ hh hc, if_neg hw.2]
    by_cases hd : w.deadline ≤ st.now
    · rw [if_pos (by omega)]
      simp only
      rw [ih, List.filter_cons, List.filter_cons]
      simp [hd, Nat.not_lt.mpr hd]
    · rw [if_neg (by unfold Le at hw; omega)]
      simp only
      rw [ih, List.filter_cons, List.filter_cons]
      simp [hd, Nat.lt_of_not_le hd]

theorem mem_wakeOrder (ord : List Nat) : ∀ (ws : List Waiter) (w : Waiter), w ∈ wakeOrder ws ord ↔ w ∈ ws := by
  induction ord with
  | nil => intro ws w; rfl
  | cons i ord ih =>
    intro ws w
    unfold wakeOrder
    cases h : ws.find? (fun x => x.id == i) with
    | none => exact ih ws w
    | some x =>
      have hx := List.mem_of_find?_eq_some h
      simp only [List.mem_cons, ih]
      rw [(List.perm_cons_erase hx).mem_iff, List.mem_cons]

/-! ## the invariant of all operation sequences -/

structure Inv (cap0 : Metric) (st : State) : Prop where
  range : InRange cap0
  /-- the bound is the configured one, or zero after Terminate -/
  capc : st.cap = cap0 ∨ st.cap = Metric.zero
  held : Le st.held cap0
  /-- quiescence: every blocked request has its deadline ahead, is within the bound and does not fit -/
  q : ∀ w ∈ st.waiters, st.now < w.deadline ∧ Le w.amt st.cap ∧ ¬ Fits st.held st.cap w.amt

theorem cap_le {cap0 : Metric} {st : State} (h : st.cap = cap0 ∨ st.cap = Metric.zero) : Le st.cap cap0 := by
  rcases h with e | e <;> rw [e]
  · exact Le.refl _
  · exact ⟨Nat.zero_le _, Nat.zero_le _⟩

theorem inv_new (cap : Metric) (hr : InRange cap) : Inv cap (new cap) :=
  ⟨hr, Or.inl rfl, ⟨Nat.zero_le _, Nat.zero_le _⟩, by intro w hw; cases hw⟩

theorem inv_broadcast (cap0 : Metric) (st : State) (ord : List Nat) (hr : InRange cap0)
    (hc : st.cap = cap0 ∨ st.cap = Metric.zero) (hh : Le st.held cap0) : Inv cap0 (broadcast st ord).1 := by
  have f := wake_fields (wakeOrder st.waiters ord) st
  have g := wake_general cap0 hr (wakeOrder st.waiters ord) st (cap_le hc) hh
  unfold broadcast
  refine ⟨hr, ?_, g.2.1, ?_⟩
  · show (wake st (wakeOrder st.waiters ord)).1.cap = cap0 ∨ _
    rw [f.1]; exact hc
  · intro w hw
    have := g.2.2 w hw
    show (wake st (wakeOrder st.waiters ord)).1.now < _ ∧ Le _ (wake st (wakeOrder st.waiters ord)).1.cap ∧
      ¬ Fits _ (wake st (wakeOrder st.waiters ord)).1.cap _
    rw [f.1, f.2.1]
    exact ⟨this.2.1, this.2.2.1, this.2.2.2⟩

theorem acquire_eq (st : State) (id : Nat) (m : Metric) (t : Nat) (hh : InRange st.held) (hc : InRange st.cap) :
    acquire st id m t =
      if Fits st.held st.cap m then ({ st with held := madd st.held m }, [.ret id true])
      else if m.size > st.cap.size ∨ m.num > st.cap.num ∨ t = 0 then (st, [.ret id false])
      else ({ st with waiters := st.waiters ++ [⟨id, m, st.now + t⟩] }, []) := by
  unfold acquire
  rw [attempt_eq _ _ _ hh hc]
  by_cases hf : Fits st.held st.cap m
  · rw [if_pos hf, if_pos hf]
  · rw [if_neg hf, if_neg hf]
    by_cases hg : m.size > st.cap.size ∨ m.num > st.cap.num ∨ t = 0
    · rw [if_pos hg, if_pos (by omega)]
    · rw [if_neg hg, if_neg (by omega)]

theorem releaseCore_fields (st : State) (m : Metric) (hh : InRange st.held) :
    (releaseCore st m).1.cap = st.cap ∧ (releaseCore st m).1.now = st.now ∧ (releaseCore st m).1.waiters = st.waiters ∧
    Le (releaseCore st m).1.held st.held ∧ ∀ e ∈ (releaseCore st m).2, e = Ev.warn st.held m := by
  rw [releaseCore_eq _ _ hh]
  split
  · exact ⟨rfl, rfl, rfl, ⟨Nat.zero_le _, Nat.zero_le _⟩, by intro e he; simpa using he⟩
  · exact ⟨rfl, rfl, rfl, ⟨Nat.sub_le _ _, Nat.sub_le _ _⟩, by intro e he; cases he⟩

theorem inv_step (cap0 : Metric) (st : State) (op : Op) (h : Inv cap0 st) : Inv cap0 (step st op).1 := by
  have hrh := inRange_of_le h.held h.range
  have hrc := inRange_of_le (cap_le h.capc) h.range
  cases op with
  | acquire id m t =>
    show Inv cap0 (acquire st id m t).1
    rw [acquire_eq _ _ _ _ hrh hrc]
    by_cases hf : Fits st.held st.cap m
    · rw [if_pos hf]
      have hle : Le st.held (madd st.held m) := by unfold Le madd; simp
      refine ⟨h.range, h.capc, ?_, ?_⟩
      · have := cap_le h.capc
        unfold Fits at hf; unfold Le madd at *; simp only; omega
      · intro w hw
        have := h.q w hw
        exact ⟨this.1, this.2.1, not_fits_mono hle this.2.2⟩
    · rw [if_neg hf]
      by_cases hg : m.size > st.cap.size ∨ m.num > st.cap.num ∨ t = 0
      · rw [if_pos hg]; exact h
      · rw [if_neg hg]
        refine ⟨h.range, h.capc, h.held, ?_⟩
        intro w hw
        rcases List.mem_append.mp hw with hw | hw
        · exact h.q w hw
        · simp at hw; subst hw
          exact ⟨by show st.now < st.now + t; omega, by show Le m st.cap; unfold Le; omega, hf⟩
  | tryAcq id m =>
    show Inv cap0 (tryAcq st id m).1
    rw [tryAcq_iff _ _ _ hrh hrc]
    by_cases hf : Fits st.held st.cap m
    · rw [if_pos hf]
      have hle : Le st.held (madd st.held m) := by unfold Le madd; simp
      refine ⟨h.range, h.capc, ?_, ?_⟩
      · have := cap_le h.capc
        unfold Fits at hf; unfold Le madd at *; simp only; omega
      · intro w hw
        have := h.q w hw
        exact ⟨this.1, this.2.1, not_fits_mono hle this.2.2⟩
    · rw [if_neg hf]; exact h
  | release m ord =>
    have f := releaseCore_fields st m hrh
    show Inv cap0 (broadcast (releaseCore st m).1 ord).1
    exact inv_broadcast cap0 _ ord h.range (by rw [f.1]; exact h.capc) (f.2.2.2.1.trans h.held)
  | tick t =>
    show Inv cap0 (tick st t).1
    unfold tick
    simp only
    split
    · exact inv_broadcast cap0 _ [] h.range h.capc h.held
    · next hn =>
      refine ⟨h.range, h.capc, h.held, ?_⟩
      intro w hw
      have := h.q w hw
      refine ⟨?_, this.2.1, this.2.2⟩
      show st.now + t < w.deadline
      apply Nat.lt_of_not_le
      intro hle
      apply hn
      exact List.any_eq_true.mpr ⟨w, hw, by simpa using hle⟩
  | terminate =>
    exact inv_broadcast cap0 _ [] h.range (Or.inr rfl) h.held

theorem inv_run (cap0 : Metric) (st : State) (ops : List Op) (h : Inv cap0 st) : Inv cap0 (run st ops).1 := by
  induction ops generalizing st with
  | nil => exact h
  | cons op ops ih => exact ih _ (inv_step cap0 st op h)

/-! ## the clauses of the property, over all operation sequences -/

/-- **The held amount never exceeds the capacity**: after any sequence of acquire / try / release /
tick / terminate operations (any amounts, timeouts, wake orders) on a semaphore of capacity `cap`,
both components of the held amount are at most the configured capacity (so they never wrap). -/
theorem held_never_exceeds_capacity (cap : Metric) (hr : InRange cap) (ops : List Op) :
    (run (new cap) ops).1.held.num ≤ cap.num ∧ (run (new cap) ops).1.held.size ≤ cap.size :=
  (inv_run cap _ ops (inv_new cap hr)).held

/-- **No fitting request is ever left waiting** ("granted at once or as soon as enough is
released"): after any operation sequence, every request still blocked does not fit the held amount,
its deadline is still ahead, and it is within the current bound. -/
theorem no_fitting_request_left_waiting (cap : Metric) (hr : InRange cap) (ops : List Op) :
    let st := (run (new cap) ops).1
    ∀ w ∈ st.waiters, ¬ Fits st.held st.cap w.amt ∧ st.now < w.deadline ∧ Le w.amt st.cap := by
  intro st w hw
  have := (inv_run cap _ ops (inv_new cap hr)).q w hw
  exact ⟨this.2.2, this.1, this.2.1⟩

/-- **A release grants or keeps, never refuses**: at a `Release` (any amount, any wake order) in
any reachable state, every blocked request either returns `true` at this very release or stays
blocked — and then it does not fit what is held after the release; no request returns `false`. -/
theorem release_grants_what_fits (cap : Metric) (hr : InRange cap) (ops : List Op) (m : Metric) (ord : List Nat) :
    let st := (run (new cap) ops).1
    let r := release st m ord
    (∀ w ∈ st.waiters, Ev.ret w.id true ∈ r.2 ∨ (w ∈ r.1.waiters ∧ ¬ Fits r.1.held r.1.cap w.amt)) ∧
    (∀ id, Ev.ret id false ∉ r.2) := by
  intro st r
  have h := inv_run cap _ ops (inv_new cap hr)
  have hrh := inRange_of_le h.held h.range
  have f := releaseCore_fields st m hrh
  have h' : Inv cap r.1 := inv_step cap st (.release m ord) h
  have hq : ∀ w ∈ wakeOrder (releaseCore st m).1.waiters ord,
      (releaseCore st m).1.now < w.deadline ∧ Le w.amt (releaseCore st m).1.cap := by
    intro w hw
    rw [mem_wakeOrder, f.2.2.1] at hw
    rw [f.1, f.2.1]
    exact ⟨(h.q w hw).1, (h.q w hw).2.1⟩
  have nr := wake_no_refusal cap hr (wakeOrder (releaseCore st m).1.waiters ord) (releaseCore st m).1
    (by rw [f.1]; exact cap_le h.capc) (f.2.2.2.1.trans h.held) hq
  constructor
  · intro w hw
    have hw' : w ∈ wakeOrder (releaseCore st m).1.waiters ord := by rw [mem_wakeOrder, f.2.2.1]; exact hw
    rcases nr.1 w hw' with h1 | h1
    · exact Or.inl (List.mem_append_right _ h1)
    · exact Or.inr ⟨h1, (h'.q w h1).2.2⟩
  · intro id hid
    rcases List.mem_append.mp hid with h1 | h1
    · have := f.2.2.2.2 _ h1; cases this
    · obtain ⟨w, _, e⟩ := nr.2 _ h1; cases e

/-- the first request in the wake order that fits what is left after the release is granted at
that release -/
theorem release_grants_first (cap : Metric) (hr : InRange cap) (ops : List Op) (m : Metric) (ord : List Nat)
    (w : Waiter) (rest : List Waiter) :
    let st := (run (new cap) ops).1
    wakeOrder st.waiters ord = w :: rest → Fits (releaseCore st m).1.held st.cap w.amt →
    Ev.ret w.id true ∈ (release st m ord).2 := by
  intro st hw hf
  have h := inv_run cap _ ops (inv_new cap hr)
  have hrh := inRange_of_le h.held h.range
  have f := releaseCore_fields st m hrh
  apply List.mem_append_right
  show Ev.ret w.id true ∈ (wake (releaseCore st m).1 (wakeOrder (releaseCore st m).1.waiters ord)).2.2
  rw [f.2.2.1, hw]
  unfold wake
  rw [attempt_eq _ _ _ (inRange_of_le (f.2.2.2.1.trans h.held) h.range) (by rw [f.1]; exact inRange_of_le (cap_le h.capc) h.range),
    if_pos (by rw [f.1]; exact hf)]
  exact List.mem_cons_self

/-- **A waiter returns false at its deadline** — and only then: when the clock advances by `t` in
any reachable state, exactly the blocked requests whose deadline is reached return `false`, the
others stay blocked, nothing else is reported and the held amount is unchanged. -/
theorem waiter_returns_false_at_deadline (cap : Metric) (hr : InRange cap) (ops : List Op) (t : Nat) :
    let st := (run (new cap) ops).1
    let r := tick st t
    (∀ w ∈ st.waiters, w.deadline ≤ st.now + t → Ev.ret w.id false ∈ r.2) ∧
    (∀ w ∈ st.waiters, st.now + t < w.deadline → w ∈ r.1.waiters) ∧
    (∀ e ∈ r.2, ∃ w ∈ st.waiters, w.deadline ≤ st.now + t ∧ e = Ev.ret w.id false) ∧
    (∀ w ∈ r.1.waiters, w ∈ st.waiters ∧ st.now + t < w.deadline) ∧
    r.1.held = st.held := by
  intro st r
  have h := inv_run cap _ ops (inv_new cap hr)
  have hrh := inRange_of_le h.held h.range
  have hrc := inRange_of_le (cap_le h.capc) h.range
  have hnf := wake_nofit st.waiters { st with now := st.now + t } hrh hrc
    (fun w hw => ⟨(h.q w hw).2.1, (h.q w hw).2.2⟩)
  have e : r = tick st t := rfl
  unfold tick at e
  simp only at e
  by_cases hany : (st.waiters.any fun w => decide (w.deadline ≤ st.now + t)) = true
  · rw [if_pos hany] at e
    have e2 : r = ({ st with now := st.now + t, waiters := st.waiters.filter (fun w => decide (st.now + t < w.deadline)) },
        (st.waiters.filter (fun w => decide (w.deadline ≤ st.now + t))).map (fun w => Ev.ret w.id false)) := by
      rw [e]; unfold broadcast; show (_, _) = _
      have : wakeOrder st.waiters [] = st.waiters := rfl
      simp only [this]
      rw [hnf]
    rw [e2]
    refine ⟨?_, ?_, ?_, ?_, rfl⟩
    · intro w hw hd
      exact List.mem_map.mpr ⟨w, List.mem_filter.mpr ⟨hw, by simpa using hd⟩, rfl⟩
    · intro w hw hd
      exact List.mem_filter.mpr ⟨hw, by simpa using hd⟩
    · intro e he
      obtain ⟨w, hw, rfl⟩ := List.mem_map.mp he
      have := List.mem_filter.mp hw
      exact ⟨w, this.1, by simpa using this.2, rfl⟩
    · intro w hw
      have := List.mem_filter.mp hw
      exact ⟨this.1, by simpa using this.2⟩
  · rw [if_neg hany] at e
    rw [e]
    have hno : ∀ w ∈ st.waiters, st.now + t < w.deadline := by
      intro w hw
      apply Nat.lt_of_not_le
      intro hle
      exact hany (List.any_eq_true.mpr ⟨w, hw, by simpa using hle⟩)
    refine ⟨?_, ?_, ?_, ?_, rfl⟩
    · intro w hw hd; have := hno w hw; omega
    · intro w hw _; exact hw
    · intro e he; cases he
    · intro w hw; exact ⟨hw, hno w hw⟩

theorem nonzero_pos (m : Metric) (h : m ≠ Metric.zero) : m.num > 0 ∨ m.size > 0 := by
  cases m with
  | mk n s =>
    by_cases hn : n = 0
    · by_cases hs : s = 0
      · subst hn; subst hs; exact absurd rfl h
      · exact Or.inr (Nat.pos_of_ne_zero hs)
    · exact Or.inl (Nat.pos_of_ne_zero hn)

theorem wake_terminated (cap0 : Metric) (hr : InRange cap0) (ws : List Waiter) : ∀ st : State,
    st.cap = Metric.zero → Le st.held cap0 →
    ∀ w ∈ ws, w.amt ≠ Metric.zero → Ev.ret w.id false ∈ (wake st ws).2.2 := by
  induction ws with
  | nil => intro st _ _ w hw; cases hw
  | cons x ws ih =>
    intro st hc hh w hw hne
    have hrh := inRange_of_le hh hr
    have hrc : InRange st.cap := by rw [hc]; exact ⟨by decide, by decide⟩
    unfold wake
    rw [attempt_eq _ _ _ hrh hrc]
    by_cases hf : Fits st.held st.cap x.amt
    · rw [if_pos hf]
      simp only
      rcases List.mem_cons.mp hw with rfl | hw
      · exfalso
        have := nonzero_pos _ hne
        unfold Fits at hf; rw [hc] at hf; unfold Metric.zero at hf; simp only at hf; omega
      · have hh' : Le (madd st.held x.amt) cap0 := by
          unfold Fits at hf; rw [hc] at hf; unfold Metric.zero at hf
          unfold Le madd at *; simp only at *; omega
        exact List.mem_cons_of_mem _ (ih { st with held := madd st.held x.amt } hc hh' w hw hne)
    · rw [if_neg hf]
      by_cases hg : x.amt.size > st.cap.size ∨ x.amt.num > st.cap.num ∨ x.deadline ≤ st.now
      · rw [if_pos hg]
        simp only
        rcases List.mem_cons.mp hw with rfl | hw
        · exact List.mem_cons_self
        · exact List.mem_cons_of_mem _ (ih st hc hh w hw hne)
      · rw [if_neg hg]
        simp only
        rcases List.mem_cons.mp hw with rfl | hw
        · exfalso
          have := nonzero_pos _ hne
          rw [hc] at hg; unfold Metric.zero at hg; simp only at hg; omega
        · exact ih st hc hh w hw hne

/-- **After Terminate blocked callers return**: at `Terminate` in any reachable state, the bound
becomes zero, every blocked non-empty request returns `false`, and only empty requests (if any)
can still be blocked. -/
theorem terminate_releases_waiters (cap : Metric) (hr : InRange cap) (ops : List Op) :
    let st := (run (new cap) ops).1
    let r := terminate st
    r.1.cap = Metric.zero ∧
    (∀ w ∈ st.waiters, w.amt ≠ Metric.zero → Ev.ret w.id false ∈ r.2) ∧
    (∀ w ∈ r.1.waiters, w.amt = Metric.zero) := by
  intro st r
  have h := inv_run cap _ ops (inv_new cap hr)
  have h' : Inv cap r.1 := inv_step cap st .terminate h
  have f := wake_fields (wakeOrder st.waiters []) { st with cap := Metric.zero }
  have hc : r.1.cap = Metric.zero := f.1
  refine ⟨hc, ?_, ?_⟩
  · intro w hw hne
    exact wake_terminated cap hr st.waiters { st with cap := Metric.zero } rfl h.held w hw hne
  · intro w hw
    have := (h'.q w hw).2.1
    rw [hc] at this
    unfold Le Metric.zero at this
    cases w with
    | mk id amt d =>
      cases amt with
      | mk n s =>
        have h1 : n = 0 := Nat.le_zero.mp this.1
        have h2 : s = 0 := Nat.le_zero.mp this.2
        subst h1; subst h2; rfl

/-- **After Terminate every non-empty request is refused** at once (Acquire with any timeout, and
TryAcquire), in any state whose bound is zero. -/
theorem refused_after_terminate (st : State) (id : Nat) (m : Metric) (t : Nat)
    (hh : InRange st.held) (hc : st.cap = Metric.zero) (hne : m ≠ Metric.zero) :
    acquire st id m t = (st, [.ret id false]) ∧ tryAcq st id m = (st, [.ret id false]) := by
  have hrc : InRange st.cap := by rw [hc]; exact ⟨by decide, by decide⟩
  have hp := nonzero_pos m hne
  have hgt : m.num > st.cap.num ∨ m.size > st.cap.size := by rw [hc]; exact hp
  refine ⟨above_capacity_refused st id m t hh hrc hgt, ?_⟩
  rw [tryAcq_iff _ _ _ hh hrc, if_neg]
  unfold Fits; omega

theorem broadcast_cap (st : State) (ord : List Nat) : (broadcast st ord).1.cap = st.cap :=
  (wake_fields (wakeOrder st.waiters ord) st).1

theorem acquire_cap (st : State) (id : Nat) (m : Metric) (t : Nat) : (acquire st id m t).1.cap = st.cap := by
  have f := attempt_fields st m (st.now + t)
  unfold acquire
  split
  · next st' r h => rw [h] at f; exact f.1
  · next st' h => rw [h] at f; exact f.1

theorem tryAcq_cap (st : State) (id : Nat) (m : Metric) : (tryAcq st id m).1.cap = st.cap := by
  unfold tryAcq; split <;> rfl

/-- (kept free of `rfl` on the uint64 subtraction terms: the kernel must never unfold `x % 2^64`) -/
theorem releaseCore_shape (st : State) (m : Metric) : ∃ h evs, releaseCore st m = ({ st with held := h }, evs) := by
  unfold releaseCore
  split
  · exact ⟨_, _, rfl⟩
  · exact ⟨_, _, rfl⟩

theorem releaseCore_cap (st : State) (m : Metric) : (releaseCore st m).1.cap = st.cap := by
  obtain ⟨h, evs, e⟩ := releaseCore_shape st m
  rw [e]

theorem tick_cap (st : State) (t : Nat) : (tick st t).1.cap = st.cap := by
  unfold tick; simp only; split
  · rw [broadcast_cap]
  · rfl

/-- … and the bound stays zero whatever happens afterwards -/
theorem terminated_forever (st : State) (op : Op) (hc : st.cap = Metric.zero) : (step st op).1.cap = Metric.zero := by
  cases op with
  | acquire id m t => exact (acquire_cap st id m t).trans hc
  | tryAcq id m => exact (tryAcq_cap st id m).trans hc
  | release m ord =>
    show (broadcast (releaseCore st m).1 ord).1.cap = _
    rw [broadcast_cap, releaseCore_cap]; exact hc
  | tick t => exact (tick_cap st t).trans hc
  | terminate => show (broadcast _ []).1.cap = _; rw [broadcast_cap]

/-! ## negative witnesses: the behaviour before the `fix:` commit (DESIGN §7 D10) -/

/-- `tryAcquire` as it was: `tmp.Num += metric.Num` without the overflow guard -/
def tryAcquirePreFix (held cap m : Metric) : Option Metric :=
  let n := Gen.Semaphore.addNum held.num m.num
  let s := Gen.Semaphore.addSize held.size m.size
  if Gen.Semaphore.exceedsCond n cap.num s cap.size then none else some ⟨n, s⟩

/-- D10(a): with 10 held out of 100, a request of 2^32-5 events was granted and the held amount
became 5 — the sum wrapped around -/
example : tryAcquirePreFix ⟨10, 0⟩ ⟨100, 1000⟩ ⟨4294967291, 0⟩ = some ⟨5, 0⟩ := by decide

/-- the repaired code refuses it -/
example : tryAcquire ⟨10, 0⟩ ⟨100, 1000⟩ ⟨4294967291, 0⟩ = none := by decide

/-- the same for the uint64 component -/
example : tryAcquirePreFix ⟨0, 7⟩ ⟨100, 1000⟩ ⟨1, 18446744073709551615⟩ = some ⟨1, 6⟩ ∧
    tryAcquire ⟨0, 7⟩ ⟨100, 1000⟩ ⟨1, 18446744073709551615⟩ = none := by decide

/-- D10(b): before the fix nothing woke a waiter at its deadline (no timer broadcast): the clock
just advanced -/
def tickPreFix (st : State) (t : Nat) : State × List Ev := ({ st with now := st.now + t }, [])

/-- a request of 8 with 5 of 10 held and a timeout of 100: long after the deadline it was still
blocked; the repaired code returns `false` at the deadline -/
example :
    let st := (run (new ⟨10, 1000⟩) [.acquire 1 ⟨5, 50⟩ 100, .acquire 2 ⟨8, 80⟩ 100]).1
    (tickPreFix st 2000).1.waiters.length = 1 ∧ (tickPreFix st 2000).2 = [] ∧
    (tick st 100).2 = [.ret 2 false] ∧ (tick st 100).1.waiters = [] := by decide

/-! ## non-vacuity: a reachable state with a waiter, granted at the release that makes room -/

example :
    (run (new ⟨10, 1000⟩) [.acquire 1 ⟨5, 50⟩ 30, .acquire 2 ⟨8, 80⟩ 30, .tick 10, .release ⟨2, 20⟩ [],
      .release ⟨1, 10⟩ [], .acquire 3 ⟨11, 1⟩ 30, .release ⟨99, 0⟩ [], .terminate, .acquire 4 ⟨1, 1⟩ 30]).2 =
    [[.ret 1 true], [], [], [], [.ret 2 true], [.ret 3 false], [.warn ⟨10, 100⟩ ⟨99, 0⟩], [], [.ret 4 false]] := by decide

example : InRange ⟨10, 1000⟩ := ⟨by decide, by decide⟩

end C30
