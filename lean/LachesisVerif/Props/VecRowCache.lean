import LachesisVerif.Proofs.VecRowCacheNeg
import LachesisVerif.Proofs.VecRowCacheLink
import LachesisVerif.Gen.FactsVec
/-!
# The row caches of the vector index are transparent (supports C05, C07, C08)

Go code: `vecfc.Index.{GetHighestBefore, GetLowestAfter, SetHighestBefore, SetLowestAfter}`
(vecfc/store_vectors.go), `vecfc.Index.{initCaches, Reset, onDropNotFlushed, GetEngineCallbacks}`
(vecfc/index.go), `vecengine.Engine.{Reset, Flush, DropNotFlushed}` (vecengine/index.go), the LRU
`utils/simplewlru` (`Get`, `Add`, `Purge`, `normalize`).

Model: `Model.VecRowCache` — ONE generic cache `RC α` (α = row type; the HighestBefore cache and the
LowestAfter cache run the same code) in front of `Base α` = parent-DB table + this table's unflushed
pairs + the number of unflushed pairs of the other tables of the same flushable
(`NotFlushedPairs() = ov.length + other`). Calls: `get id` (hit: cached row; miss: overlay-then-
parent read, cached ONLY when present — a miss on an absent row caches nothing), `set id row`
(overlay and cache), `otherPut n`, `flush` (cache kept), `drop` (= `Engine.DropNotFlushed`: overlay
cleared and cache purged under the ONE guard `Gen.VecPersist.dropClears (NotFlushedPairs())`,
the kernel regenerated from vecengine/index.go:90), `reset db` (= `Index.Reset`: new flushable over
`db`, cache purged unconditionally), `evict keep` (the LRU drops any keys at any time); an arbitrary
function `ev` is applied after every insertion. Which `Purge`/`Add` calls exist is the record
`Model.VecRowCache.Calls`; `goCalls` (all four) is the Go code.
`VecRowCacheProofs.{read_eq_tab_look, ovTab_put, flush_store_eq_merge, guard_eq_flag}` tie `Base` to
the layered tables of `Model.VecPersist` (same read, `Put`, `Flush`, guard).

## Proved (for every row type, start DB, history of calls, and eviction function inventing no entries)

* `cache_coherent`: every cached pair `(id, row)` equals what overlay-then-parent holds for `id`.
* `get_transparent`: `get` through the cache returns exactly the uncached read of the store that
  the same history produces WITHOUT cache; `store_unaffected`: the store under the cache is that
  store; `answers_transparent`: the whole list of answers of a history is the uncached one.
* Which calls are necessary — `transparent_iff`: the cache is transparent for all histories IFF
  (purge in `onDropNotFlushed` ∧ `onDropNotFlushed()` in `Index.Reset` ∧ `Add` in the setters) or
  nothing is ever cached. Witnesses: `stale_without_drop_purge` (Set 0:=7, DropNotFlushed, Get 0
  serves the rolled-back 7 instead of nil), `stale_without_reset_purge` (Set, Flush, Reset over an
  empty DB, Get serves the old DB's row), `stale_without_set_add` (Get, Set, Get serves the
  overwritten row). The `Add` after a `Get` miss is never needed for correctness.
* The guard: the purge sits inside `if NotFlushedPairs() != 0`. That is safe —
  `guard_false_nothing_to_roll_back`: when the guard is false, `DropNotFlushed` is the identity on
  store, overlay and cache, every read is a parent-DB read, and every cached row is a persisted row
  (no cached entry can be stale because nothing is unflushed). `setter_makes_guard_true`: after any
  setter the guard is true, so a roll-back of a cached unflushed row always purges.
  The guard counts the pairs of ALL tables, so a roll-back of branch-table writes alone also purges
  the row caches: harmless over-approximation.

## Go-level findings (no defect in the shipped call pattern)

* The purge on `Reset` is NOT performed by `vecengine.Engine.Reset`: it makes a new flushable, so its
  own `DropNotFlushed` sees `NotFlushedPairs() == 0` and does not call `OnDropNotFlushed`. Only the
  explicit `vi.onDropNotFlushed()` in `vecfc.Index.Reset` (index.go:104) purges. A caller that resets
  the embedded exported `Engine` directly (`idx.Engine.Reset(…)`, possible with `NewIndexWithEngine`)
  gets witness (b). abft only calls `Index.Reset`.
* `initCaches` (index.go:94) sizes the LowestAfter cache with `HighestBeforeSeqSize` as max entry
  count — capacity only; covered by "arbitrary eviction".

## Not modelled

* Rows are pointers: `Get` returns the cached object itself. The only in-place mutation of a
  returned row is `LowestAfterSeq.Visit` in `fillEventVectors.onWalk` (vecengine/index.go:216),
  which returns true exactly when it mutated and is then immediately followed by
  `SetLowestAfter(walk, sameObject)`, i.e. the model's `set`. `GetMergedHighestBefore` hands the
  cached pointer to external callers when there are no forks; the model assumes they only read.
* The composition with `Model.VecPersist.PState.add` (which gets/sets happen inside one `Engine.Add`)
  — the theorems hold for EVERY sequence of gets and sets, so for that one too.
* LRU weights, recency order, locking; DB errors (`crit`).
-/
namespace VecRowCache
open Model.VecPersist (Tab)
open Model.VecRowCache VecRowCacheProofs

variable {α : Type}

/-- every cached entry equals what overlay-then-store holds for that id, after every history -/
theorem cache_coherent (ev : Evict α) (hev : Shrinks ev) (db : Tab α) (ops : List (Op α)) :
    ∀ id r, (id, r) ∈ ((RC.fresh db).exec goCalls ev ops).cache →
      ((RC.fresh db).exec goCalls ev ops).base.read id = some r :=
  exec_inv goCalls sound_goCalls ev hev ops (RC.fresh db) (inv_fresh db)

/-- the store under the cache is the store the same history produces without cache -/
theorem store_unaffected (ev : Evict α) (db : Tab α) (ops : List (Op α)) :
    ((RC.fresh db).exec goCalls ev ops).base = (⟨db, [], 0⟩ : Base α).exec ops :=
  exec_base goCalls ev ops (RC.fresh db)

/-- cache transparency: after every history, `get` returns the uncached read -/
theorem get_transparent (ev : Evict α) (hev : Shrinks ev) (db : Tab α) (ops : List (Op α)) (id : Nat) :
    (((RC.fresh db).exec goCalls ev ops).get goCalls ev id).2 = ((⟨db, [], 0⟩ : Base α).exec ops).read id := by
  rw [get_eq_read goCalls ev _ id (exec_inv goCalls sound_goCalls ev hev ops (RC.fresh db) (inv_fresh db)),
    store_unaffected]

/-- all answers of a history are the uncached answers -/
theorem answers_transparent (ev : Evict α) (hev : Shrinks ev) (db : Tab α) (ops : List (Op α)) :
    (RC.fresh db).answers goCalls ev ops = (⟨db, [], 0⟩ : Base α).answers ops :=
  answers_eq goCalls sound_goCalls ev hev ops (RC.fresh db) (inv_fresh db)

/-- exactly which cache calls transparency needs -/
theorem transparent_iff (k : Calls) : Transparent k ↔ (Sound k ∨ NeverFilled k) :=
  VecRowCacheProofs.transparent_iff k

/-- (a) the purge in `onDropNotFlushed` is necessary -/
theorem stale_without_drop_purge :
    (RC.fresh dbEmpty).answers { goCalls with purgeOnDrop := false } noEvict histRollback = [some 7]
    ∧ (RC.fresh dbEmpty).base.answers histRollback = [none]
    ∧ (RC.fresh dbEmpty).answers goCalls noEvict histRollback = [none] :=
  VecRowCacheProofs.stale_without_drop_purge

/-- (b) the `onDropNotFlushed()` call in `Index.Reset` is necessary -/
theorem stale_without_reset_purge :
    (RC.fresh dbEmpty).answers { goCalls with purgeOnReset := false } noEvict histNewEpoch = [some 7]
    ∧ (RC.fresh dbEmpty).base.answers histNewEpoch = [none]
    ∧ (RC.fresh dbEmpty).answers goCalls noEvict histNewEpoch = [none] :=
  VecRowCacheProofs.stale_without_reset_purge

/-- (c) the `Add` in `SetHighestBefore` / `SetLowestAfter` is necessary -/
theorem stale_without_set_add :
    (RC.fresh dbOne).answers { goCalls with addOnSet := false } noEvict histOverwrite = [some 1, some 1]
    ∧ (RC.fresh dbOne).base.answers histOverwrite = [some 1, some 2]
    ∧ (RC.fresh dbOne).answers goCalls noEvict histOverwrite = [some 1, some 2] :=
  VecRowCacheProofs.stale_without_set_add

/-- "purged iff something was unflushed" is safe: with the guard false there is nothing to roll back
    and nothing cached that is not persisted -/
theorem guard_false_nothing_to_roll_back (ev : Evict α) (hev : Shrinks ev) (db : Tab α) (ops : List (Op α))
    (hg : Gen.VecPersist.dropClears ((RC.fresh db).exec goCalls ev ops).base.notFlushedPairs = false) :
    let s := (RC.fresh db).exec goCalls ev ops
    s.dropNotFlushed goCalls = s ∧ s.base.ov = [] ∧ (∀ id, s.base.read id = s.base.store.get id)
    ∧ (∀ id r, (id, r) ∈ s.cache → s.base.store.get id = some r) := by
  intro s
  have hinv : Inv s := exec_inv goCalls sound_goCalls ev hev ops (RC.fresh db) (inv_fresh db)
  exact ⟨drop_clean_noop goCalls s hg, ((dropClears_false_iff s.base).1 hg).1,
    clean_read_store s.base hg, clean_cache_persisted s hinv hg⟩

/-- after a setter the guard is true: rolling back a written row always purges -/
theorem setter_makes_guard_true (ev : Evict α) (s : RC α) (id : Nat) (r : α) :
    Gen.VecPersist.dropClears (s.set goCalls ev id r).base.notFlushedPairs = true
    ∧ ((s.set goCalls ev id r).dropNotFlushed goCalls).cache = [] :=
  ⟨set_makes_dirty goCalls ev s id r, (drop_dirty _ (set_makes_dirty goCalls ev s id r)).1⟩

/-! ### non-vacuity: a one-entry LRU over a DB holding event 0; hits, misses, a roll-back, an eviction -/

/-- keep only the newest entry -/
def keepOne : Evict Nat := fun c => c.take 1
theorem shrinks_keepOne : Shrinks keepOne := fun _ _ h => List.mem_of_mem_take h

def exHist : List (Op Nat) :=
  [.get 0, .get 0, .get 5, .set 1 4, .get 1, .get 0, .flush, .set 1 9, .get 1, .drop, .get 1,
   .evict (fun _ => false), .get 1]

example :
    (RC.fresh dbOne).answers goCalls keepOne exHist
      = [some 1, some 1, none, some 4, some 1, some 9, some 4, some 4]
    ∧ (RC.fresh dbOne).base.answers exHist = [some 1, some 1, none, some 4, some 1, some 9, some 4, some 4]
    -- the second `get 0` and the `get 1` after `set 1 4` are cache hits
    ∧ ((RC.fresh dbOne).exec goCalls keepOne [.get 0]).cache = [(0, 1)]
    ∧ ((RC.fresh dbOne).exec goCalls keepOne [.get 0, .get 0, .get 5, .set 1 4]).cache = [(1, 4)]
    -- the roll-back purged
    ∧ ((RC.fresh dbOne).exec goCalls keepOne (exHist.take 10)).cache = [] := by decide

example : (RC.fresh dbOne).answers goCalls keepOne exHist = (RC.fresh dbOne).base.answers exHist :=
  answers_transparent keepOne shrinks_keepOne dbOne exHist

/-- The call pattern `goCalls` the theorems are about IS the one of the source: the four fields are the
    regenerated call-presence facts (`Gen.FactsVec`: the two `Purge()` calls of `onDropNotFlushed`, the
    `onDropNotFlushed()` call of `Index.Reset`, the `Add` calls of the two setters and of the two getters).
    Dropping one of these calls flips a fact and breaks this theorem; `transparent_iff` says which of them
    matter. -/
theorem goCalls_is_the_code :
    Model.VecRowCache.goCalls =
      ⟨Gen.FactsVec.dropPurgesHB && Gen.FactsVec.dropPurgesLA, Gen.FactsVec.resetPurgesRows,
       Gen.FactsVec.setLAAdds && Gen.FactsVec.setHBAdds && Gen.FactsVec.setLAWritesFirst && Gen.FactsVec.setHBWritesFirst,
       Gen.FactsVec.getLAAdds && Gen.FactsVec.getHBAdds⟩ := rfl

end VecRowCache
