import LachesisVerif.Gen.Election
/-!
# Structural expectations for C10 / C01 (election helpers)

`Model.Election.processRoot` takes the observed roots of the previous frame to be ALL roots of that
frame that forkless-cause the voter (`frameRoots.filter observe`; in the first round a later root of a
validator overwrites an earlier one in the map). In the Go code this is the single condition
`if el.observe(root, frameRoot.ID)` of `Election.observedRoots` / `observedRootsMap`
(abft/election/election.go), the first `if` of each loop body. The kernels `rootObservedList` /
`rootObservedMap` regenerate it; an added guard before it (e.g. "check only one root per slot") shifts
the anchor and the extraction fails, a changed condition breaks the theorem below.
-/
namespace FactsC10

theorem observed_roots_are_all_observed (b : Bool) :
    Gen.Election.rootObservedList b = b ∧ Gen.Election.rootObservedMap b = b := ⟨rfl, rfl⟩

end FactsC10
