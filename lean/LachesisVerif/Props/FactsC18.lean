import LachesisVerif.Gen.FactsC18b
/-!
# Structural expectations for C18 (regenerated facts `Gen.FactsC18b`)

Split out of the family survey (`notes/facts-gossip-notes.md` lists what the selectors cannot express).
Each theorem states the expected value of Bool facts regenerated from the Go source by
`go/cmd/extract` (selectors `hascall:`, `topcall:`, `topassign:`, `before:`); a statement that is
dropped, guarded or reordered flips a fact and breaks the theorem.
-/
namespace FactsC18

/-- `BasePeerLeecher.routine` / `tryToSync` / `Terminate` — `Model.Leecher.Peer.routine`, `tryToSync`: `Done`
    is asked first and terminates (closes `quit`: "stops once the download is reported done"); the swept list
    is stored unconditionally (otherwise processed chunks are counted again and the window opens beyond the
    parallelism limit) and before `tryToSync`; `Suspend` is asked before `RequestChunks`, which is NOT
    unconditional (it sits under the suspend return and the window test `Gen.Leecher.windowOpen`). -/
theorem peer_structure :
    Gen.FactsC18b.doneBeforeSweep = true ∧ Gen.FactsC18b.doneTerminates = true ∧
    Gen.FactsC18b.peerTerminateCloses = true ∧ Gen.FactsC18b.sweepStored = true ∧
    Gen.FactsC18b.sweepBeforeSync = true ∧ Gen.FactsC18b.suspendBeforeRequest = true ∧
    Gen.FactsC18b.requestUnconditional = false := by decide

/-- `BaseLeecher.Routine` / `Terminate` / `UnregisterPeer` — `Model.Leecher.Base.routine`, `terminate`,
    `unregister`: a session that should stop is terminated before candidates are selected, and `StartSession`
    is NOT unconditional (it sits under `!OngoingSession()`: "at most one session at a time"); `Terminate`
    sets `Terminated` and ends the session unconditionally ("no session starts after termination");
    `UnregisterPeer` deletes the peer unconditionally (the order delete / TerminateSession < Routine is
    `Gen.FactsC18`). -/
theorem base_structure :
    Gen.FactsC18b.routineTerminatesBeforeSelect = true ∧ Gen.FactsC18b.startUnconditional = false ∧
    Gen.FactsC18b.baseTerminateSets = true ∧ Gen.FactsC18b.baseTerminateEndsSession = true ∧
    Gen.FactsC18b.unregisterDeletesAlways = true := by decide

end FactsC18
