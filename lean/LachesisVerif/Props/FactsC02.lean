import LachesisVerif.Gen.FactsC02
/-!
# Structural expectations for C02 (regenerated facts `Gen.FactsC02`)

Split out of the family survey (`notes/facts-cons-notes.md` lists what the selectors cannot express).
Each theorem states the expected value of Bool facts regenerated from the Go source by
`go/cmd/extract` (selectors `hascall:`, `topcall:`, `topassign:`, `before:`); a statement that is
dropped, guarded or reordered flips a fact and breaks the theorem.
-/
namespace FactsC02

/-- `Model.Confirm.dfs` / `Model.ApplyAtropos.dfsCb` (abft/lachesis.go `confirmEvents`,
    abft/traversal.go `dfsSubgraph`): the walk is the DFS (`dfsSubgraph` at top level); per popped
    event: read it, run the filter, push its parents only if the filter accepted it, continue with
    `stack.Pop`; the filter reads the confirmed mark BEFORE it sets it and hands the event to the
    application after marking (together with the existing `FactsCons.confirmMarks`). "Exactly the
    new ancestry, each once" (`C02_block_delivers_new_ancestry`) needs all of them: no mark ⇒ delivered again by
    the next block; parents pushed for rejected events ⇒ old events re-walked; no `Pop` ⇒ only the
    Atropos is delivered. -/
theorem confirm_walk :
    Gen.FactsC02.confirmWalksDfs = true ∧ Gen.FactsC02.confirmChecksBeforeMark = true ∧
    Gen.FactsC02.confirmMarksBeforeApply = true ∧ Gen.FactsC02.dfsReadsBeforeFilter = true ∧
    Gen.FactsC02.dfsFiltersBeforePush = true ∧ Gen.FactsC02.dfsPushesParents = true ∧
    Gen.FactsC02.dfsPops = true := by decide

/-- `Model.ApplyAtropos.applyAtropos`: `BeginBlock`, then the walk, then `EndBlock` (whose answer is the
    seal decision: it must see the complete block); the confirmed marks are written to and read from
    the EPOCH table (`Tab` is per epoch: "no event is delivered twice in an epoch", and a new epoch
    starts with an empty table because the epoch DB is replaced, FactsC09). -/
theorem apply_block :
    Gen.FactsC02.applyBeginsBeforeConfirm = true ∧ Gen.FactsC02.applyConfirmsBeforeEnd = true ∧
    Gen.FactsC02.confirmedWrittenToEpochTable = true ∧ Gen.FactsC02.confirmedReadFromEpochTable = true := by decide

end FactsC02
