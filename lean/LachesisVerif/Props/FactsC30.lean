import LachesisVerif.Gen.FactsC30
/-!
# Structural expectations for C30 (regenerated facts `Gen.FactsC30`)

Split out of the family survey (`notes/facts-misc-notes.md` lists what the selectors cannot express).
Each theorem states the expected value of Bool facts regenerated from the Go source by
`go/cmd/extract` (selectors `hascall:`, `topcall:`, `topassign:`, `before:`); a statement that is
dropped, guarded or reordered flips a fact and breaks the theorem.
-/
namespace FactsC30

/-- `Release` / `Terminate` (`Model.Semaphore.release`, `releaseCore`, `terminate`): the model
    broadcasts after EVERY release ("as soon as enough is released"); the warning receives the held
    amount before it is reset ("an over-release resets … and is reported"); `Terminate` zeroes the
    capacity unconditionally and only then broadcasts, so woken waiters give up ("blocked callers
    return"). -/
theorem release_terminate_structure :
    Gen.FactsC30.releaseBroadcastsAlways = true ∧ Gen.FactsC30.releaseWarnsBeforeReset = true ∧
    Gen.FactsC30.terminateZeroesCap = true ∧ Gen.FactsC30.terminateBroadcasts = true ∧
    Gen.FactsC30.terminateZeroBeforeBroadcast = true := by decide

/-- `Acquire` / `tryAcquire` (`Model.Semaphore.acquire`, `attempt`, `tick`, `tryAcquire`): the
    deadline is taken first; a timer is armed unconditionally and its callback broadcasts (`tick`:
    "refuses a request still unsatisfied when its timeout expires, returning shortly after");
    `tryAcquire` runs before the first `cond.Wait` ("grants a fitting request immediately");
    `tryAcquire` starts from the held amount and commits `s.processing = tmp` at top level, after
    both tests; the public `TryAcquire` delegates to it. -/
theorem acquire_structure :
    Gen.FactsC30.acquireArmsTimer = true ∧ Gen.FactsC30.acquireTimerBroadcasts = true ∧
    Gen.FactsC30.acquireTriesBeforeWait = true ∧ Gen.FactsC30.acquireDeadlineFirst = true ∧
    Gen.FactsC30.tryStartsFromHeld = true ∧ Gen.FactsC30.tryCommits = true ∧
    Gen.FactsC30.tryAcquireDelegates = true := by decide

end FactsC30
