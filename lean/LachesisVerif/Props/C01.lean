import LachesisVerif.Props.C10
import LachesisVerif.Proofs.OrdererFinal
/-!
# C01 — Order independence

"Any two consensus instances that start from the same genesis and process the same valid events of
each epoch, each in any parents-first order, accept every event and emit identical block sequences
(same Atropos and same cheater list for every frame) and the same epoch transitions. This holds when
validators that create forks hold strictly less than one third of the total weight."

Status: PARTIAL proof (one epoch, `(frame, Atropos)` sequences).

Proved (`C01_order_independent_partial`): let `N` be a valid history (`Valid`: what the event checkers
guarantee; `FramesAccepted`: every claimed frame obeys the frame rule) whose forking validators hold
less than one third of the weight (`BFT`). Two instances of the implementation-level model
`Model.Orderer` (kernels regenerated from abft/), each started by `initial` and each processing *all*
events of `N` by `process` in its own parents-first order (`PFFrom`), both accept every event (no
wrong-frame rejection, none of the five election errors — in particular not "all decided no", by
L6), emit the same `(frame, Atropos)` sequence and end with the same last decided frame.
The proof is L5 (`Proofs/Orderer*.lean`, stated in `Props/C10.lean` as `L5_process_invariant`,
`L5_run_invariant`): after every `process` call the roots table is exactly the graph roots of the
processed events, the blocks emitted so far carry the frames 1, 2, … and the Atropos of the rules,
the open election decides frame `ldf + 1`, stores exactly the votes and decisions of the rules for
the known roots of later frames and has decided everything decidable from them; plus L2, L4, L6 and
`atropos_unique`.

Hypotheses of `C01_order_independent_partial` other than the property's own (`hvalid`, `hframes`,
`hbft`, the two parents-first orders) — these are what keeps the name `_partial`:
* `hobs₁/₂` — each instance's forkless-cause oracle answers the graph relation `N.FC` on the event
  numbers of `N`, whatever its own indexing order (C05 proves it for the vector index; the numbering
  of events by positions of one fixed history `N` is the abstraction of event ids);
* `hvals₁/₂` — each validator record is the canonical one (ids `0 … n-1` in canonical order with the
  weights of `N`, total ≤ 2^31-1; C12);
* `hbound` — accepted frames are below 2^31 (the model's `frame + 1` must not wrap in `idx.Frame`);
* `hseal₁/₂` — the application never seals the epoch: the statement covers one epoch.
No longer assumed (derived from L5/L6 since the previous version): `BlocksFromElections`,
`OpenElection`, `FramesConsecutive`, the "not all decided no" part of "accept every event", and
"the roots table returns the graph roots" (formerly part of `OraclesAgree`).

Also proved: `C01_election_order_independent`, `C01_election_same_result` (one election, any two
closed feeds: same Atropos).

Not proved: equality of the cheater lists (C03/C06: cheaters are a function of the Atropos'
ancestry, so they follow from equal Atropoi), epoch transitions / several epochs (sealing is a
function of the decided block, C09), restarts (C08). The `cons` correspondence stream checks all of
it on the real code: 2–3 instances, each with its own random parents-first order, must emit identical
blocks, cheaters and epoch switches, equal to the order-free reference.
-/
namespace C01
open Model.Pos Model.Election Model.Orderer ElectionRules VecProofs ElectionRefine OrdererProofs

/-- Two elections for the same frame over the same graph — different oracles, different feeds —
    that both return an Atropos return the same one. -/
theorem C01_election_order_independent (N : Net) (f : Nat)
    (vals₁ vals₂ : Vals) (observe₁ observe₂ : Nat → Nat → Bool) (frameRoots₁ frameRoots₂ : Nat → List Root)
    (S₁ : Setup N vals₁ f observe₁ frameRoots₁) (S₂ : Setup N vals₂ f observe₂ frameRoots₂)
    (rs₁ rs₂ : List Root) (hfc₁ : FeedClosed observe₁ frameRoots₁ f [] rs₁)
    (hfc₂ : FeedClosed observe₂ frameRoots₂ f [] rs₂) (el₁ el₂ : Election) (b₁ b₂ : Nat × Nat)
    (h₁ : runRoots observe₁ frameRoots₁ (reset vals₁ f) rs₁ = .ok (el₁, some b₁))
    (h₂ : runRoots observe₂ frameRoots₂ (reset vals₂ f) rs₂ = .ok (el₂, some b₂)) : b₁ = b₂ := by
  have g₁ : b₁.1 = f ∧ N.IsAtropos f b₁.2 := by
    rcases C10.C10_single_election_partial N vals₁ f observe₁ frameRoots₁ S₁ rs₁ hfc₁ with ⟨he, _⟩ | ⟨el', res, he, _, hat⟩
    · rw [he] at h₁; cases h₁
    · rw [he] at h₁; cases h₁; exact hat _ _ rfl
  have g₂ : b₂.1 = f ∧ N.IsAtropos f b₂.2 := by
    rcases C10.C10_single_election_partial N vals₂ f observe₂ frameRoots₂ S₂ rs₂ hfc₂ with ⟨he, _⟩ | ⟨el', res, he, _, hat⟩
    · rw [he] at h₂; cases h₂
    · rw [he] at h₂; cases h₂; exact hat _ _ rfl
  have := N.atroposUnique_of_slotUnique S₁.accepted S₁.slots f _ _ g₁.2 g₂.2
  exact Prod.ext (g₁.1.trans g₂.1.symm) this

/-- One election, any two closed feeds with the same later-frame roots: same Atropos. -/
theorem C01_election_same_result (N : Net) (f : Nat) (vals₁ vals₂ : Vals)
    (observe₁ observe₂ : Nat → Nat → Bool) (frameRoots₁ frameRoots₂ : Nat → List Root)
    (S₁ : Setup N vals₁ f observe₁ frameRoots₁) (S₂ : Setup N vals₂ f observe₂ frameRoots₂) (rs₁ rs₂ : List Root)
    (hfc₁ : FeedClosed observe₁ frameRoots₁ f [] rs₁) (hfc₂ : FeedClosed observe₂ frameRoots₂ f [] rs₂)
    (hsub : ∀ r ∈ rs₁, f < r.frame → r ∈ rs₂) (el₁ : Election) (b : Nat × Nat)
    (h₁ : runRoots observe₁ frameRoots₁ (reset vals₁ f) rs₁ = .ok (el₁, some b)) :
    ∃ el₂, runRoots observe₂ frameRoots₂ (reset vals₂ f) rs₂ = .ok (el₂, some b) :=
  C10.C10_single_election_same_result N f vals₁ vals₂ observe₁ observe₂ frameRoots₁ frameRoots₂ S₁ S₂ rs₁ rs₂
    hfc₁ hfc₂ hsub el₁ b h₁

/-- C01 for the block sequences of one epoch; see the module doc for the hypotheses that are not the
    property's own -/
theorem C01_order_independent_partial (N : Net) (vals₁ vals₂ : Vals) (env₁ env₂ : Env) (ep₁ ep₂ : Nat)
    (ids₁ ids₂ : List Nat)
    (hvalid : Valid N.nVals N.h) (hframes : N.FramesAccepted) (hbft : N.BFT)
    (horder₁ : PFFrom N [] ids₁) (horder₂ : PFFrom N [] ids₂)
    (hall₁ : ∀ e, e < N.h.length → e ∈ ids₁) (hall₂ : ∀ e, e < N.h.length → e ∈ ids₂)
    (hobs₁ : ∀ a b, env₁.observe a b = true ↔ N.FC a b) (hobs₂ : ∀ a b, env₂.observe a b = true ↔ N.FC a b)
    (hvals₁ : ValsOK vals₁ N.nVals N.w) (hvals₂ : ValsOK vals₂ N.nVals N.w) (hbound : FrameBound N)
    (hseal₁ : ∀ ep f, env₁.sealAt ep f = none) (hseal₂ : ∀ ep f, env₂.sealAt ep f = none) :
    ∃ s₁ s₂ ds₁ ds₂, runIds N env₁ ids₁ (initial ep₁ vals₁) [] = some (s₁, ds₁) ∧
      runIds N env₂ ids₂ (initial ep₂ vals₂) [] = some (s₂, ds₂) ∧
      ds₁.map blk = ds₂.map blk ∧ s₁.ldf = s₂.ldf :=
  order_independent ⟨hvalid, hframes, hbft, hbound, hvals₁, hobs₁, hseal₁⟩
    ⟨hvalid, hframes, hbft, hbound, hvals₂, hobs₂, hseal₂⟩ ep₁ ep₂ ids₁ ids₂ horder₁ horder₂ hall₁ hall₂

/-- non-vacuity (`Proofs/OrdererFinal.lean`, `Example`): one validator, three chained events in frames
    1, 2, 3, computable oracles: all hypotheses hold and the model emits the block `(1, 0)` -/
example : Ctx ElectionExample.net ElectionExample.vals Example.env ∧ PFFrom ElectionExample.net [] [0, 1, 2] ∧
    (∀ e, e < ElectionExample.net.h.length → e ∈ [0, 1, 2]) ∧
    ∃ s, runIds ElectionExample.net Example.env [0, 1, 2] (initial 1 ElectionExample.vals) [] =
      some (s, [⟨1, 1, 0, false⟩]) := by
  refine ⟨Example.ctx, Example.pf, ?_, Example.run⟩
  intro e he
  have : e < 3 := he
  have : e = 0 ∨ e = 1 ∨ e = 2 := by omega
  rcases this with rfl | rfl | rfl <;> simp

end C01
