import LachesisVerif.Props.C10
/-!
# C01 — Order independence

"Any two consensus instances that start from the same genesis and process the same valid events of
each epoch, each in any parents-first order, accept every event and emit identical block sequences
(same Atropos and same cheater list for every frame) and the same epoch transitions. This holds when
validators that create forks hold strictly less than one third of the total weight."

Status: PARTIAL proof.

Proved (`C01_election_order_independent`): for one valid history `N` (event numbering fixed once,
independently of the processing orders) with accepted frames and forkers below one third, two runs of
the election model for the same frame — different validator-set records, different forkless-cause
oracles, different root tables, different feeding orders, as long as each oracle answers the graph
forkless cause of `N`, each table lists the roots of `N`, and each feed is closed (every root is
fed after the previous-frame roots it forkless-causes; any parents-first arrival order and any
frame-ascending complete order is closed) — that both return an Atropos return the same frame and
the same Atropos. Derived from L2, L4, `atropos_unique` and `C10_single_election_partial`.

Proved (`C01_election_same_result`): moreover, if one closed feed makes the election return an
Atropos, every closed feed containing the same roots of later frames — in any order, through other
oracles for the same graph — returns the same Atropos (neither nothing nor an error).

Proved (`C01_order_independent_partial`): the corollary for block sequences. The `(frame, Atropos)`
sequences emitted by two instances are identical (same length, same entries), under these explicit,
named hypotheses that are NOT derived here:
* `OraclesAgree` (per instance) — the instance's forkless-cause index answers `N.FC` whatever its
  indexing order (this is C05), and its root table returns exactly the roots of `N` (C33 + C04);
  its validator set is the canonical one with total weight ≤ 2^31-1 (C12);
* `FramesAccepted` — the frames under which the events were accepted obey the frame rule (C04);
* `BlocksFromElections` (per instance) — every emitted block `(f, a)` is what one election for frame
  `f`, run from `reset` over some closed feed, returned (L5 of DESIGN §5: the Orderer restarts the
  election after every decision and re-feeds the known roots);
* `OpenElection` (per instance) — the election for the first frame without a block has been fed, in
  a closed order, every root of later frames in the instance's table and has returned nothing (L5
  again, for the election that is open when all events have been processed; it also excludes the
  "all decided no" error, i.e. the part of "accept every event" that needs L6);
* `FramesConsecutive` (per instance) — blocks carry the frames 1, 2, 3, … (C02, proved there at
  model level).
(`C01_blocks_equal_of_length` is the same without `OpenElection` but with equal lengths assumed.)

Not proved: L5 itself (the two hypotheses above); "accept every event" (C04 + L6: not all subjects
are decided no); equality of the cheater lists (C03/C06: cheaters are a function of the Atropos'
ancestry, so they follow from equal Atropoi); epoch transitions (sealing is a function of the decided
block, C09). The `cons` correspondence stream checks all of it on the real code: 2–3 instances, each
with its own random parents-first order, must emit identical blocks, cheaters and epoch switches,
equal to the order-free reference.
-/
namespace C01
open Model.Pos Model.Election ElectionRules VecProofs ElectionRefine

/-- Two elections for the same frame over the same graph — different oracles, different feeds —
    that both return an Atropos return the same one. -/
theorem C01_election_order_independent (N : Net) (f : Nat)
    (vals₁ vals₂ : Vals) (observe₁ observe₂ : Nat → Nat → Bool) (frameRoots₁ frameRoots₂ : Nat → List Root)
    (S₁ : Setup N vals₁ f observe₁ frameRoots₁) (S₂ : Setup N vals₂ f observe₂ frameRoots₂)
    (rs₁ rs₂ : List Root) (hfc₁ : FeedClosed observe₁ frameRoots₁ f [] rs₁)
    (hfc₂ : FeedClosed observe₂ frameRoots₂ f [] rs₂) (el₁ el₂ : Election) (b₁ b₂ : Nat × Nat)
    (h₁ : runRoots observe₁ frameRoots₁ (reset vals₁ f) rs₁ = .ok (el₁, some b₁))
    (h₂ : runRoots observe₂ frameRoots₂ (reset vals₂ f) rs₂ = .ok (el₂, some b₂)) : b₁ = b₂ := by
  have g₁ : b₁.1 = f ∧ N.IsAtropos f b₁.2 := by
    rcases C10.C10_single_election_partial N vals₁ f observe₁ frameRoots₁ S₁ rs₁ hfc₁ with ⟨he, _⟩ | ⟨el', res, he, _, hat⟩
    · rw [he] at h₁; cases h₁
    · rw [he] at h₁; cases h₁; exact hat _ _ rfl
  have g₂ : b₂.1 = f ∧ N.IsAtropos f b₂.2 := by
    rcases C10.C10_single_election_partial N vals₂ f observe₂ frameRoots₂ S₂ rs₂ hfc₂ with ⟨he, _⟩ | ⟨el', res, he, _, hat⟩
    · rw [he] at h₂; cases h₂
    · rw [he] at h₂; cases h₂; exact hat _ _ rfl
  have := N.atroposUnique_of_slotUnique S₁.accepted S₁.slots f _ _ g₁.2 g₂.2
  exact Prod.ext (g₁.1.trans g₂.1.symm) this

/-- a consensus instance as far as C01 is concerned: its validator record, its two oracles and the
    `(frame, Atropos)` sequence it emitted -/
structure Instance where
  vals : Vals
  observe : Nat → Nat → Bool
  frameRoots : Nat → List Root
  blocks : List (Nat × Nat)

/-- hypothesis (C05, C33 + C04, C12): the instance's oracles are those of the graph `N` -/
structure OraclesAgree (N : Net) (I : Instance) : Prop where
  vals : ValsOK I.vals N.nVals N.w
  obs : ∀ a b, I.observe a b = true ↔ N.FC a b
  roots : ∀ g r, r ∈ I.frameRoots g ↔ (r.frame = g ∧ N.IsRoot r.id g ∧ r.validator = N.creator r.id)
  nodup : ∀ g, (I.frameRoots g).Nodup

/-- hypothesis (L5): every emitted block is the result of one election run from `reset` -/
def BlocksFromElections (I : Instance) : Prop :=
  ∀ b ∈ I.blocks, b.1 < 4294967296 ∧ ∃ rs el', FeedClosed I.observe I.frameRoots b.1 [] rs ∧
    runRoots I.observe I.frameRoots (reset I.vals b.1) rs = .ok (el', some b)

/-- hypothesis (C02): blocks carry the frames 1, 2, 3, … -/
def FramesConsecutive (I : Instance) : Prop := ∀ i (h : i < I.blocks.length), (I.blocks[i]).1 = i + 1

/-- block sequences of equal length are equal -/
theorem C01_blocks_equal_of_length (N : Net) (I₁ I₂ : Instance)
    (hvalid : Valid N.nVals N.h) (hframes : N.FramesAccepted) (hbft : N.BFT)
    (horacles₁ : OraclesAgree N I₁) (horacles₂ : OraclesAgree N I₂)
    (hL5₁ : BlocksFromElections I₁) (hL5₂ : BlocksFromElections I₂)
    (hcons₁ : FramesConsecutive I₁) (hcons₂ : FramesConsecutive I₂)
    (hlen : I₁.blocks.length = I₂.blocks.length) : I₁.blocks = I₂.blocks := by
  have setup : ∀ (I : Instance), OraclesAgree N I → ∀ f, f < 4294967296 → Setup N I.vals f I.observe I.frameRoots :=
    fun I o f hf =>
      { vals := o.vals, obs := o.obs, roots := o.roots, nodup := o.nodup
        creators := fun e he => (valid_ev hvalid e he).creator_lt
        slots := N.slotUnique_of_BFT hvalid hframes hbft, accepted := hframes, fbound := hf }
  apply List.ext_getElem hlen
  intro i h1 h2
  obtain ⟨hb₁, rs₁, el₁, fc₁, r₁⟩ := hL5₁ _ (List.getElem_mem h1)
  obtain ⟨hb₂, rs₂, el₂, fc₂, r₂⟩ := hL5₂ _ (List.getElem_mem h2)
  have e₁ := hcons₁ i h1
  have e₂ := hcons₂ i h2
  rw [e₁] at hb₁ fc₁ r₁
  rw [e₂] at hb₂ fc₂ r₂
  exact C01_election_order_independent N (i + 1) _ _ _ _ _ _ (setup I₁ horacles₁ _ hb₁) (setup I₂ horacles₂ _ hb₂)
    rs₁ rs₂ fc₁ fc₂ el₁ el₂ _ _ r₁ r₂

/-- hypothesis (L5, open election): the election for the first frame without a block was fed every
    root of later frames of the instance's table, in a closed order, and returned nothing -/
def OpenElection (I : Instance) : Prop :=
  I.blocks.length + 1 < 4294967296 ∧ ∃ rs el', FeedClosed I.observe I.frameRoots (I.blocks.length + 1) [] rs ∧
    (∀ g r, r ∈ I.frameRoots g → I.blocks.length + 1 < g → r ∈ rs) ∧
    runRoots I.observe I.frameRoots (reset I.vals (I.blocks.length + 1)) rs = .ok (el', none)

/-- One election, any two closed feeds with the same later-frame roots: same Atropos. -/
theorem C01_election_same_result (N : Net) (f : Nat) (vals₁ vals₂ : Vals)
    (observe₁ observe₂ : Nat → Nat → Bool) (frameRoots₁ frameRoots₂ : Nat → List Root)
    (S₁ : Setup N vals₁ f observe₁ frameRoots₁) (S₂ : Setup N vals₂ f observe₂ frameRoots₂) (rs₁ rs₂ : List Root)
    (hfc₁ : FeedClosed observe₁ frameRoots₁ f [] rs₁) (hfc₂ : FeedClosed observe₂ frameRoots₂ f [] rs₂)
    (hsub : ∀ r ∈ rs₁, f < r.frame → r ∈ rs₂) (el₁ : Election) (b : Nat × Nat)
    (h₁ : runRoots observe₁ frameRoots₁ (reset vals₁ f) rs₁ = .ok (el₁, some b)) :
    ∃ el₂, runRoots observe₂ frameRoots₂ (reset vals₂ f) rs₂ = .ok (el₂, some b) :=
  C10.C10_single_election_same_result N f vals₁ vals₂ observe₁ observe₂ frameRoots₁ frameRoots₂ S₁ S₂ rs₁ rs₂
    hfc₁ hfc₂ hsub el₁ b h₁

/-- C01 for block sequences, with everything that is not derived as an explicit hypothesis -/
theorem C01_order_independent_partial (N : Net) (I₁ I₂ : Instance)
    (hvalid : Valid N.nVals N.h) (hframes : N.FramesAccepted) (hbft : N.BFT)
    (horacles₁ : OraclesAgree N I₁) (horacles₂ : OraclesAgree N I₂)
    (hL5₁ : BlocksFromElections I₁) (hL5₂ : BlocksFromElections I₂)
    (hopen₁ : OpenElection I₁) (hopen₂ : OpenElection I₂)
    (hcons₁ : FramesConsecutive I₁) (hcons₂ : FramesConsecutive I₂) : I₁.blocks = I₂.blocks := by
  have setup : ∀ (I : Instance), OraclesAgree N I → ∀ f, f < 4294967296 → Setup N I.vals f I.observe I.frameRoots :=
    fun I o f hf =>
      { vals := o.vals, obs := o.obs, roots := o.roots, nodup := o.nodup
        creators := fun e he => (valid_ev hvalid e he).creator_lt
        slots := N.slotUnique_of_BFT hvalid hframes hbft, accepted := hframes, fbound := hf }
  -- an instance with fewer blocks would have decided its open election
  have key : ∀ (I J : Instance), OraclesAgree N I → OraclesAgree N J → BlocksFromElections J → OpenElection I →
      FramesConsecutive J → ¬ I.blocks.length < J.blocks.length := by
    intro I J oI oJ hJ ⟨hb, rs, el', fc, hall, hrun⟩ hcons hlt
    have hfr := hcons _ hlt
    obtain ⟨_, rsJ, elJ, fcJ, runJ⟩ := hJ _ (List.getElem_mem hlt)
    rw [hfr] at fcJ runJ
    obtain ⟨el₂, h₂⟩ := C01_election_same_result N (I.blocks.length + 1) J.vals I.vals J.observe I.observe
      J.frameRoots I.frameRoots (setup J oJ _ hb) (setup I oI _ hb) rsJ rs fcJ fc
      (fun r hr hfr => hall r.frame r ((oI.roots _ r).2 ((oJ.roots _ r).1 (FeedClosed.mem fcJ r hr))) hfr)
      elJ _ runJ
    rw [hrun] at h₂
    cases h₂
  have hlen : I₁.blocks.length = I₂.blocks.length := by
    have a := key I₁ I₂ horacles₁ horacles₂ hL5₂ hopen₁ hcons₂
    have b := key I₂ I₁ horacles₂ horacles₁ hL5₁ hopen₂ hcons₁
    omega
  exact C01_blocks_equal_of_length N I₁ I₂ hvalid hframes hbft horacles₁ horacles₂ hL5₁ hL5₂ hcons₁ hcons₂ hlen

/-- non-vacuity (`Proofs/ElectionExample.lean`: one validator, three chained events in frames 1, 2, 3):
    an instance with computable oracles that has emitted the block `(1, 0)` satisfies every hypothesis
    of `C01_order_independent_partial` -/
def exInstance : Instance :=
  ⟨ElectionExample.vals, ElectionExample.observe, ElectionExample.frameRoots, [(1, 0)]⟩

example : Valid ElectionExample.net.nVals ElectionExample.net.h ∧ ElectionExample.net.FramesAccepted ∧
    ElectionExample.net.BFT ∧ OraclesAgree ElectionExample.net exInstance ∧ BlocksFromElections exInstance ∧
    FramesConsecutive exInstance ∧ OpenElection exInstance := by
  have S := ElectionExample.setup 1 (by decide)
  refine ⟨ElectionExample.valid, ElectionExample.framesAccepted, ElectionExample.bft,
    ⟨S.vals, S.obs, S.roots, S.nodup⟩, ?_, ?_, ?_⟩
  · intro b hb
    have : b = (1, 0) := by simpa [exInstance] using hb
    subst this
    obtain ⟨el', h⟩ := ElectionExample.run1
    exact ⟨by decide, ElectionExample.feed1, el', ElectionExample.feed1_closed, h⟩
  · intro i h
    have : i = 0 := by simp [exInstance] at h; omega
    subst this; rfl
  · obtain ⟨el', h⟩ := ElectionExample.run2
    refine ⟨by decide, ElectionExample.feed2, el', ElectionExample.feed2_closed, ?_, h⟩
    intro g r hr hg
    have hg2 : 2 < g := hg
    have h1 := ((S.roots g r).1 hr)
    obtain ⟨h3, h4⟩ := (ElectionExample.isRoot_iff r.id g).1 h1.2.1
    have hv : r.validator = 0 := by rw [h1.2.2, ElectionExample.creator_zero]
    have : r = ⟨2, 3, 0⟩ := by
      cases r
      simp only at h1 h3 h4 hv
      simp only [Root.mk.injEq]
      omega
    subst this
    exact List.mem_cons_self

end C01
