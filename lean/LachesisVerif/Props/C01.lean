import LachesisVerif.Props.C10
/-!
# C01 — Order independence

"Any two consensus instances that start from the same genesis and process the same valid events of
each epoch, each in any parents-first order, accept every event and emit identical block sequences
(same Atropos and same cheater list for every frame) and the same epoch transitions. This holds when
validators that create forks hold strictly less than one third of the total weight."

Status: PARTIAL proof.

Proved (`C01_election_order_independent`): for one valid history `N` (event numbering fixed once,
independently of the processing orders) with accepted frames and forkers below one third, two runs of
the election model for the same frame — different validator-set records, different forkless-cause
oracles, different root tables, different feeding orders, as long as each oracle answers the graph
forkless cause of `N`, each table lists the roots of `N`, and each feed is closed (every root is
fed after the previous-frame roots it forkless-causes; any parents-first arrival order and any
frame-ascending complete order is closed) — that both return an Atropos return the same frame and
the same Atropos. Derived from L2, L4, `atropos_unique` and `C10_single_election_partial`.

Proved (`C01_order_independent_partial`): the corollary for block sequences. Two instances whose
emitted `(frame, Atropos)` sequences have the same length are equal, under these explicit, named
hypotheses that are NOT derived here:
* `OraclesAgree` (per instance) — the instance's forkless-cause index answers `N.FC` whatever its
  indexing order (this is C05), and its root table returns exactly the roots of `N` (C33 + C04);
  its validator set is the canonical one with total weight ≤ 2^31-1 (C12);
* `FramesAccepted` — the frames under which the events were accepted obey the frame rule (C04);
* `BlocksFromElections` (per instance) — every emitted block `(f, a)` is what one election for frame
  `f`, run from `reset` over some closed feed, returned (this is L5 of DESIGN §5: the Orderer
  restarts the election after every decision and re-feeds the known roots);
* `FramesConsecutive` (per instance) — blocks carry the frames 1, 2, 3, … (C02, proved there at
  model level);
* equal length of the two block sequences.

Not proved: that both instances decide the same number of frames (needs the converse of the
single-election refinement: the model returns an Atropos as soon as the rules determine one from
the fed roots); "accept every event" (C04 + L6: not all subjects are decided no); equality of the
cheater lists (C03/C06: cheaters are a function of the Atropos' ancestry, so they follow from equal
Atropoi once C06 is proved); epoch transitions (sealing is a function of the decided block, C09);
L5 itself. The `cons` correspondence stream checks all of it on the real code: 2–3 instances, each
with its own random parents-first order, must emit identical blocks, cheaters and epoch switches,
equal to the order-free reference.
-/
namespace C01
open Model.Pos Model.Election ElectionRules VecProofs ElectionRefine

/-- Two elections for the same frame over the same graph — different oracles, different feeds —
    that both return an Atropos return the same one. -/
theorem C01_election_order_independent (N : Net) (f : Nat)
    (vals₁ vals₂ : Vals) (observe₁ observe₂ : Nat → Nat → Bool) (frameRoots₁ frameRoots₂ : Nat → List Root)
    (S₁ : Setup N vals₁ f observe₁ frameRoots₁) (S₂ : Setup N vals₂ f observe₂ frameRoots₂)
    (rs₁ rs₂ : List Root) (hfc₁ : FeedClosed observe₁ frameRoots₁ f [] rs₁)
    (hfc₂ : FeedClosed observe₂ frameRoots₂ f [] rs₂) (el₁ el₂ : Election) (b₁ b₂ : Nat × Nat)
    (h₁ : runRoots observe₁ frameRoots₁ (reset vals₁ f) rs₁ = .ok (el₁, some b₁))
    (h₂ : runRoots observe₂ frameRoots₂ (reset vals₂ f) rs₂ = .ok (el₂, some b₂)) : b₁ = b₂ := by
  have g₁ : b₁.1 = f ∧ N.IsAtropos f b₁.2 := by
    rcases C10.C10_single_election_partial N vals₁ f observe₁ frameRoots₁ S₁ rs₁ hfc₁ with ⟨he, _⟩ | ⟨el', res, he, _, hat⟩
    · rw [he] at h₁; cases h₁
    · rw [he] at h₁; cases h₁; exact hat _ _ rfl
  have g₂ : b₂.1 = f ∧ N.IsAtropos f b₂.2 := by
    rcases C10.C10_single_election_partial N vals₂ f observe₂ frameRoots₂ S₂ rs₂ hfc₂ with ⟨he, _⟩ | ⟨el', res, he, _, hat⟩
    · rw [he] at h₂; cases h₂
    · rw [he] at h₂; cases h₂; exact hat _ _ rfl
  have := N.atroposUnique_of_slotUnique S₁.accepted S₁.slots f _ _ g₁.2 g₂.2
  exact Prod.ext (g₁.1.trans g₂.1.symm) this

/-- a consensus instance as far as C01 is concerned: its validator record, its two oracles and the
    `(frame, Atropos)` sequence it emitted -/
structure Instance where
  vals : Vals
  observe : Nat → Nat → Bool
  frameRoots : Nat → List Root
  blocks : List (Nat × Nat)

/-- hypothesis (C05, C33 + C04, C12): the instance's oracles are those of the graph `N` -/
structure OraclesAgree (N : Net) (I : Instance) : Prop where
  vals : ValsOK I.vals N.nVals N.w
  obs : ∀ a b, I.observe a b = true ↔ N.FC a b
  roots : ∀ g r, r ∈ I.frameRoots g ↔ (r.frame = g ∧ N.IsRoot r.id g ∧ r.validator = N.creator r.id)
  nodup : ∀ g, (I.frameRoots g).Nodup

/-- hypothesis (L5): every emitted block is the result of one election run from `reset` -/
def BlocksFromElections (I : Instance) : Prop :=
  ∀ b ∈ I.blocks, b.1 < 4294967296 ∧ ∃ rs el', FeedClosed I.observe I.frameRoots b.1 [] rs ∧
    runRoots I.observe I.frameRoots (reset I.vals b.1) rs = .ok (el', some b)

/-- hypothesis (C02): blocks carry the frames 1, 2, 3, … -/
def FramesConsecutive (I : Instance) : Prop := ∀ i (h : i < I.blocks.length), (I.blocks[i]).1 = i + 1

/-- C01 for block sequences, with everything that is not derived as an explicit hypothesis -/
theorem C01_order_independent_partial (N : Net) (I₁ I₂ : Instance)
    (hvalid : Valid N.nVals N.h) (hframes : N.FramesAccepted) (hbft : N.BFT)
    (horacles₁ : OraclesAgree N I₁) (horacles₂ : OraclesAgree N I₂)
    (hL5₁ : BlocksFromElections I₁) (hL5₂ : BlocksFromElections I₂)
    (hcons₁ : FramesConsecutive I₁) (hcons₂ : FramesConsecutive I₂)
    (hlen : I₁.blocks.length = I₂.blocks.length) : I₁.blocks = I₂.blocks := by
  have setup : ∀ (I : Instance), OraclesAgree N I → ∀ f, f < 4294967296 → Setup N I.vals f I.observe I.frameRoots :=
    fun I o f hf =>
      { vals := o.vals, obs := o.obs, roots := o.roots, nodup := o.nodup
        creators := fun e he => (valid_ev hvalid e he).creator_lt
        slots := N.slotUnique_of_BFT hvalid hframes hbft, accepted := hframes, fbound := hf }
  apply List.ext_getElem hlen
  intro i h1 h2
  obtain ⟨hb₁, rs₁, el₁, fc₁, r₁⟩ := hL5₁ _ (List.getElem_mem h1)
  obtain ⟨hb₂, rs₂, el₂, fc₂, r₂⟩ := hL5₂ _ (List.getElem_mem h2)
  have e₁ := hcons₁ i h1
  have e₂ := hcons₂ i h2
  rw [e₁] at hb₁ fc₁ r₁
  rw [e₂] at hb₂ fc₂ r₂
  exact C01_election_order_independent N (i + 1) _ _ _ _ _ _ (setup I₁ horacles₁ _ hb₁) (setup I₂ horacles₂ _ hb₂)
    rs₁ rs₂ fc₁ fc₂ el₁ el₂ _ _ r₁ r₂

/-- non-vacuity: the hypotheses are satisfiable (the one-event history `C10.exNet`, two instances
    with the canonical oracles that have not emitted a block yet) -/
example : ∃ (N : Net) (I : Instance), Valid N.nVals N.h ∧ N.FramesAccepted ∧ N.BFT ∧ OraclesAgree N I ∧
    BlocksFromElections I ∧ FramesConsecutive I := by
  open Classical in
  refine ⟨C10.exNet, ⟨canonVals C10.exNet, fun a b => decide (C10.exNet.FC a b), rootsOf C10.exNet, []⟩, ?_⟩
  have hv : Valid C10.exNet.nVals C10.exNet.h :=
    Valid.snoc (h := []) Valid.nil
      { parents_lt := (by intro p hp; cases hp), creator_lt := (by decide), seq_pos := (by decide),
        seq_lt := (by decide), first := (by intro _ p hp; cases hp),
        self := (by intro h; exact absurd h (by decide)) }
  have hfa : C10.exNet.FramesAccepted := by
    intro e he
    have : e = 0 := by simp [C10.exNet] at he; omega
    subst this
    unfold Net.Allowed
    rw [if_pos (by decide)]
    rfl
  have h1 : C10.exNet.total = 1 := by
    unfold Net.total
    rw [Net.weightOf_eq]
    show wsum _ [0] _ = 1
    rw [wsum_cons, wsum_nil, if_pos trivial]
    rfl
  have hbft : C10.exNet.BFT := by
    unfold Net.BFT
    have h0 : C10.exNet.weightOf C10.exNet.Forker = 0 := by
      apply Net.weightOf_zero
      rintro v _ ⟨x, y, hne, hx, hy, _⟩
      simp [C10.exNet] at hx hy
      omega
    rw [h0, h1]; decide
  have S := setup_exists C10.exNet 1 hv hfa hbft (by rw [h1]; decide) (by decide)
  exact ⟨hv, hfa, hbft, ⟨S.vals, S.obs, S.roots, S.nodup⟩, (by intro b hb; cases hb), (by intro i h; cases h)⟩

end C01
