import LachesisVerif.Props.C10
import LachesisVerif.Proofs.OrdererFinal
import LachesisVerif.Proofs.OrdererEpochs4
/-!
# C01 — Order independence

"Any two consensus instances that start from the same genesis and process the same valid events of
each epoch, each in any parents-first order, accept every event and emit identical block sequences
(same Atropos and same cheater list for every frame) and the same epoch transitions. This holds when
validators that create forks hold strictly less than one third of the total weight."

Status: PARTIAL proof: `(frame, Atropos)` sequences of one epoch (`C01_order_independent_partial`), and
decided-frame sequences `(epoch, frame, Atropos, sealed)` with epoch transitions over several epochs
(`C01_epoch_partial`, `C01_multi_epoch_partial`, last section of this file).

Proved (`C01_order_independent_partial`): let `N` be a valid history (`Valid`: what the event checkers
guarantee; `FramesAccepted`: every claimed frame obeys the frame rule) whose forking validators hold
less than one third of the weight (`BFT`). Two instances of the implementation-level model
`Model.Orderer` (kernels regenerated from abft/), each started by `initial` and each processing *all*
events of `N` by `process` in its own parents-first order (`PFFrom`), both accept every event (no
wrong-frame rejection, none of the five election errors — in particular not "all decided no", by
L6), emit the same `(frame, Atropos)` sequence and end with the same last decided frame.
The proof is L5 (`Proofs/Orderer*.lean`, stated in `Props/C10.lean` as `L5_process_invariant`,
`L5_run_invariant`): after every `process` call the roots table is exactly the graph roots of the
processed events, the blocks emitted so far carry the frames 1, 2, … and the Atropos of the rules,
the open election decides frame `ldf + 1`, stores exactly the votes and decisions of the rules for
the known roots of later frames and has decided everything decidable from them; plus L2, L4, L6 and
`atropos_unique`.

Hypotheses of `C01_order_independent_partial` other than the property's own (`hvalid`, `hframes`,
`hbft`, the two parents-first orders) — these are what keeps the name `_partial`:
* `hobs₁/₂` — each instance's forkless-cause oracle answers the graph relation `N.FC` on the event
  numbers of `N`, whatever its own indexing order (C05 proves it for the vector index; the numbering
  of events by positions of one fixed history `N` is the abstraction of event ids);
* `hvals₁/₂` — each validator record is the canonical one (ids `0 … n-1` in canonical order with the
  weights of `N`, total ≤ 2^31-1; C12);
* `hbound` — accepted frames are below 2^31 (the model's `frame + 1` must not wrap in `idx.Frame`);
* `hseal₁/₂` — the application never seals the epoch: the statement covers one epoch.
No longer assumed (derived from L5/L6 since the previous version): `BlocksFromElections`,
`OpenElection`, `FramesConsecutive`, the "not all decided no" part of "accept every event", and
"the roots table returns the graph roots" (formerly part of `OraclesAgree`).

Also proved: `C01_election_order_independent`, `C01_election_same_result` (one election, any two
closed feeds: same Atropos).

Several epochs (`C01_epoch_partial`, `C01_multi_epoch_partial`): the application's seal decision is the
oracle `sealAt (epoch, frame)`; both instances receive, per epoch, all events of that epoch's history
in their own parents-first orders, the applications are the same function; events of an old epoch
that would arrive after the seal are not submitted (`runEpoch` skips the rest of the epoch's list;
`C01_late_events_partial`). Both emit the same `(epoch, frame, Atropos, sealed)` sequence and make the
same epoch transitions (after a seal both are exactly `initial (epoch+1) nv`, C09). Remaining
hypotheses: per epoch those of `C01_order_independent_partial` except `hseal` (packed in
`OrdererEpochs.EpochsOK`); the forkless-cause oracle is per epoch (the index is reset by a seal).

Not proved: equality of the cheater lists (C03/C06: cheaters are a function of the Atropos'
ancestry, so they follow from equal Atropoi), restarts combined with seals (for the combined model: `Consensus.indexed_restarts_multi_epoch_partial`). The `cons` correspondence stream checks all of
it on the real code: 2–3 instances, each with its own random parents-first order, must emit identical
blocks, cheaters and epoch switches, equal to the order-free reference.
Composition with the vector index (hypotheses `hobs`, `hvals`, `hbound` discharged for the combined model `Model/Indexed.lean` = Orderer over each instance's own index; cheater lists included): `Consensus.indexed_order_independent_partial`, `Consensus.indexed_blocks_cheaters_partial` (Props/Consensus.lean).
-/
namespace C01
open Model.Pos Model.Election Model.Orderer ElectionRules VecProofs ElectionRefine OrdererProofs

/-- Two elections for the same frame over the same graph — different oracles, different feeds —
    that both return an Atropos return the same one. -/
theorem C01_election_order_independent (N : Net) (f : Nat)
    (vals₁ vals₂ : Vals) (observe₁ observe₂ : Nat → Nat → Bool) (frameRoots₁ frameRoots₂ : Nat → List Root)
    (S₁ : Setup N vals₁ f observe₁ frameRoots₁) (S₂ : Setup N vals₂ f observe₂ frameRoots₂)
    (rs₁ rs₂ : List Root) (hfc₁ : FeedClosed observe₁ frameRoots₁ f [] rs₁)
    (hfc₂ : FeedClosed observe₂ frameRoots₂ f [] rs₂) (el₁ el₂ : Election) (b₁ b₂ : Nat × Nat)
    (h₁ : runRoots observe₁ frameRoots₁ (reset vals₁ f) rs₁ = .ok (el₁, some b₁))
    (h₂ : runRoots observe₂ frameRoots₂ (reset vals₂ f) rs₂ = .ok (el₂, some b₂)) : b₁ = b₂ := by
  have g₁ : b₁.1 = f ∧ N.IsAtropos f b₁.2 := by
    rcases C10.C10_single_election_partial N vals₁ f observe₁ frameRoots₁ S₁ rs₁ hfc₁ with ⟨he, _⟩ | ⟨el', res, he, _, hat⟩
    · rw [he] at h₁; cases h₁
    · rw [he] at h₁; cases h₁; exact hat _ _ rfl
  have g₂ : b₂.1 = f ∧ N.IsAtropos f b₂.2 := by
    rcases C10.C10_single_election_partial N vals₂ f observe₂ frameRoots₂ S₂ rs₂ hfc₂ with ⟨he, _⟩ | ⟨el', res, he, _, hat⟩
    · rw [he] at h₂; cases h₂
    · rw [he] at h₂; cases h₂; exact hat _ _ rfl
  have := N.atroposUnique_of_slotUnique S₁.accepted S₁.slots f _ _ g₁.2 g₂.2
  exact Prod.ext (g₁.1.trans g₂.1.symm) this

/-- One election, any two closed feeds with the same later-frame roots: same Atropos. -/
theorem C01_election_same_result (N : Net) (f : Nat) (vals₁ vals₂ : Vals)
    (observe₁ observe₂ : Nat → Nat → Bool) (frameRoots₁ frameRoots₂ : Nat → List Root)
    (S₁ : Setup N vals₁ f observe₁ frameRoots₁) (S₂ : Setup N vals₂ f observe₂ frameRoots₂) (rs₁ rs₂ : List Root)
    (hfc₁ : FeedClosed observe₁ frameRoots₁ f [] rs₁) (hfc₂ : FeedClosed observe₂ frameRoots₂ f [] rs₂)
    (hsub : ∀ r ∈ rs₁, f < r.frame → r ∈ rs₂) (el₁ : Election) (b : Nat × Nat)
    (h₁ : runRoots observe₁ frameRoots₁ (reset vals₁ f) rs₁ = .ok (el₁, some b)) :
    ∃ el₂, runRoots observe₂ frameRoots₂ (reset vals₂ f) rs₂ = .ok (el₂, some b) :=
  C10.C10_single_election_same_result N f vals₁ vals₂ observe₁ observe₂ frameRoots₁ frameRoots₂ S₁ S₂ rs₁ rs₂
    hfc₁ hfc₂ hsub el₁ b h₁

/-- C01 for the block sequences of one epoch; see the module doc for the hypotheses that are not the
    property's own -/
theorem C01_order_independent_partial (N : Net) (vals₁ vals₂ : Vals) (env₁ env₂ : Env) (ep₁ ep₂ : Nat)
    (ids₁ ids₂ : List Nat)
    (hvalid : Valid N.nVals N.h) (hframes : N.FramesAccepted) (hbft : N.BFT)
    (horder₁ : PFFrom N [] ids₁) (horder₂ : PFFrom N [] ids₂)
    (hall₁ : ∀ e, e < N.h.length → e ∈ ids₁) (hall₂ : ∀ e, e < N.h.length → e ∈ ids₂)
    (hobs₁ : ∀ a b, env₁.observe a b = true ↔ N.FC a b) (hobs₂ : ∀ a b, env₂.observe a b = true ↔ N.FC a b)
    (hvals₁ : ValsOK vals₁ N.nVals N.w) (hvals₂ : ValsOK vals₂ N.nVals N.w) (hbound : FrameBound N)
    (hseal₁ : ∀ ep f, env₁.sealAt ep f = none) (hseal₂ : ∀ ep f, env₂.sealAt ep f = none) :
    ∃ s₁ s₂ ds₁ ds₂, runIds N env₁ ids₁ (initial ep₁ vals₁) [] = some (s₁, ds₁) ∧
      runIds N env₂ ids₂ (initial ep₂ vals₂) [] = some (s₂, ds₂) ∧
      ds₁.map blk = ds₂.map blk ∧ s₁.ldf = s₂.ldf :=
  order_independent ⟨hvalid, hframes, hbft, hbound, hvals₁, hobs₁, hseal₁⟩
    ⟨hvalid, hframes, hbft, hbound, hvals₂, hobs₂, hseal₂⟩ ep₁ ep₂ ids₁ ids₂ horder₁ horder₂ hall₁ hall₂

/-- non-vacuity (`Proofs/OrdererFinal.lean`, `Example`): one validator, three chained events in frames
    1, 2, 3, computable oracles: all hypotheses hold and the model emits the block `(1, 0)` -/
example : Ctx ElectionExample.net ElectionExample.vals Example.env ∧ PFFrom ElectionExample.net [] [0, 1, 2] ∧
    (∀ e, e < ElectionExample.net.h.length → e ∈ [0, 1, 2]) ∧
    ∃ s, runIds ElectionExample.net Example.env [0, 1, 2] (initial 1 ElectionExample.vals) [] =
      some (s, [⟨1, 1, 0, false⟩]) := by
  refine ⟨Example.ctx, Example.pf, ?_, Example.run⟩
  intro e he
  have : e < 3 := he
  have : e = 0 ∨ e = 1 ∨ e = 2 := by omega
  rcases this with rfl | rfl | rfl <;> simp

/-! ## Several epochs (`Proofs/OrdererEpochs*.lean`)

The application's seal decision is the oracle `Env.sealAt : epoch → frame → Option Vals`. An instance
whose application seals is computed from the instance whose application never seals (`noSeal`, the
setting of L5): of the decided frames `ds` of the latter it emits `cut sealAt ep ds` — the prefix up to
and including the first frame at which the application seals, that entry marked `sealed` — and is
then *exactly* in `initial (epoch+1) nv` (`C09_seal_state`); `boot_sim`, `handle_sim`, `process_sim`,
`runEpoch_sim`. Hence a run over several epochs decomposes into per-epoch runs each starting from
`initial`, and `C01_order_independent_partial` applies to each of them.

Treatment of events of an old epoch that arrive after the seal: they are NOT submitted (the `cons`
harness skips them). `runEpoch` stops after the `Process` call that emits a sealed frame and returns
the rest of the epoch's list as `skipped`; `C01_late_events_partial` says this is the plain model run
`runIds` on the input list from which these events have been removed — i.e. for plain runs the
hypothesis on the input lists is "the list of an epoch that seals ends with the event whose
processing seals it". `runEpochs` submits the next epoch's list only after the current one sealed. -/
section Epochs
open OrdererEpochs

/-- **C01 for one epoch that may be sealed.** Two instances are in epoch `ep` with the same validators
    (`initial ep vals`), are given all events of the epoch's valid BFT history `N`, each in its own
    parents-first order, with applications that seal at the same frames of this epoch with the same
    validator sets (`hsa`). Both accept every event submitted and emit the same decided frames
    (epoch, frame, Atropos, sealed flag). Either both seal at the same frame (the last entry of
    `ds`), skip the rest of their lists, and are both exactly in `initial (ep+1) nv`; or neither seals,
    nothing is skipped, and they end in the same epoch with the same validators and last decided
    frame. Remaining hypotheses: as in `C01_order_independent_partial` (`hobs`, `hvals`, `hbound`). -/
theorem C01_epoch_partial (N : Net) (vals : Vals) (env₁ env₂ : Env) (ep : Nat) (ids₁ ids₂ : List Nat)
    (hvalid : Valid N.nVals N.h) (hframes : N.FramesAccepted) (hbft : N.BFT)
    (horder₁ : PFFrom N [] ids₁) (horder₂ : PFFrom N [] ids₂)
    (hall₁ : ∀ e, e < N.h.length → e ∈ ids₁) (hall₂ : ∀ e, e < N.h.length → e ∈ ids₂)
    (hobs₁ : ∀ a b, env₁.observe a b = true ↔ N.FC a b) (hobs₂ : ∀ a b, env₂.observe a b = true ↔ N.FC a b)
    (hvals : ValsOK vals N.nVals N.w) (hbound : FrameBound N)
    (hsa : ∀ f, env₁.sealAt ep f = env₂.sealAt ep f) :
    ∃ s₁ s₂ ds sk₁ sk₂, runEpoch N env₁ ids₁ (initial ep vals) [] = some (s₁, ds, sk₁) ∧
      runEpoch N env₂ ids₂ (initial ep vals) [] = some (s₂, ds, sk₂) ∧
      ((ds.any (·.sealed) = true ∧ ∃ nv, (∃ F, env₁.sealAt ep F = some nv) ∧
          s₁ = initial (Gen.Orderer.sealedEpoch ep) nv ∧ s₂ = initial (Gen.Orderer.sealedEpoch ep) nv) ∨
       (ds.any (·.sealed) = false ∧ sk₁ = [] ∧ sk₂ = [] ∧ s₁.epoch = ep ∧ s₂.epoch = ep ∧
          s₁.vals = vals ∧ s₂.vals = vals ∧ s₁.ldf = s₂.ldf)) :=
  epoch_agree (env₁ := env₁) (env₂ := env₂) ⟨hvalid, hframes, hbft, hbound, hvals, hobs₁, fun _ _ => rfl⟩
    ⟨hvalid, hframes, hbft, hbound, hvals, hobs₂, fun _ _ => rfl⟩ ep hsa ids₁ ids₂ horder₁ horder₂ hall₁ hall₂

/-- the skipped events: `runEpoch` is the plain run `runIds` on the list without them -/
theorem C01_late_events_partial (N : Net) (env : Env) (ids : List Nat) (s s' : OState) (out out' : List Decided)
    (skipped : List Nat) (h : runEpoch N env ids s out = some (s', out', skipped)) :
    ∃ used, ids = used ++ skipped ∧ runIds N env used s out = some (s', out') :=
  runEpoch_prefix N env ids s out s' out' skipped h

/-- **C01 over several epochs.** `ps`: per epoch the history `N`, the two instances' oracles and
    parents-first orders. `EpochsOK sealAt ep vals ps` (by recursion over the epochs, starting in
    epoch `ep` with validators `vals`): in each epoch `N` is valid with accepted, bounded frames and
    BFT, `vals` is its canonical validator record, both forkless-cause oracles answer `N.FC`
    (`Ctx N vals (noSeal envᵢ)`), both applications are `sealAt`, both lists are parents-first orders
    of all events of `N`, and for every validator set `nv` the application may return in this epoch
    the remaining epochs are OK from `(ep+1, nv)`. Then both instances accept everything they are
    given, emit the same sequence of decided frames `(epoch, frame, Atropos, sealed)` — hence the
    same epoch transitions — and end in the same epoch with the same validators and last decided
    frame. -/
theorem C01_multi_epoch_partial (sealAt : Nat → Nat → Option Vals) (ps : List EpochPair) (ep : Nat) (vals : Vals)
    (hok : EpochsOK sealAt ep vals ps) :
    ∃ s₁ s₂ ds, runEpochs (ps.map EpochPair.in₁) (initial ep vals) [] = some (s₁, ds) ∧
      runEpochs (ps.map EpochPair.in₂) (initial ep vals) [] = some (s₂, ds) ∧
      s₁.epoch = s₂.epoch ∧ s₁.vals = s₂.vals ∧ s₁.ldf = s₂.ldf :=
  epochs_agree sealAt ps ep vals [] hok

/-! non-vacuity: the three-event chain, twice; the application seals epoch 1 at frame 1 -/
namespace EpochExample
open ElectionExample

def exSeal : Nat → Nat → Option Vals := fun e f => if e = 1 ∧ f = 1 then some ElectionExample.vals else none
def exEnv : Env := { observe := ElectionExample.observe, idKey := fun x => x, sealAt := exSeal }
def exPair : EpochPair := ⟨net, exEnv, exEnv, [0, 1, 2], [0, 1, 2]⟩

theorem ex_all : ∀ e, e < net.h.length → e ∈ [0, 1, 2] := by
  intro e he
  have : e < 3 := he
  have : e = 0 ∨ e = 1 ∨ e = 2 := by omega
  rcases this with rfl | rfl | rfl <;> simp

theorem ex_ok : EpochsOK exSeal 1 ElectionExample.vals [exPair, exPair] := by
  refine ⟨Example.ctx, Example.ctx, rfl, rfl, Example.pf, Example.pf, ex_all, ex_all, ?_⟩
  intro nv hnv
  obtain ⟨F, hF⟩ := hnv
  unfold exSeal at hF
  split at hF
  · cases hF
    exact ⟨Example.ctx, Example.ctx, rfl, rfl, Example.pf, Example.pf, ex_all, ex_all, fun _ _ => trivial⟩
  · cases hF

/-- … and the model indeed seals epoch 1 at its first block and goes on in epoch 2 -/
example : ∃ s, runEpochs ([exPair, exPair].map EpochPair.in₁) (initial 1 ElectionExample.vals) [] =
    some (s, [⟨1, 1, 0, true⟩, ⟨2, 1, 0, false⟩]) := ⟨_, rfl⟩

end EpochExample
end Epochs

end C01
