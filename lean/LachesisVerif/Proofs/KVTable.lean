import LachesisVerif.Model.Table
import LachesisVerif.Proofs.KVSpec
/-! Helper lemmas on `Model.Table`: `tableView` characterised by lookups, key translation. -/
namespace Model.Table
open Bytes Spec Spec.KV

theorem noPrefix_prefixed (k p : Bytes) : noPrefix (prefixed k p) p = k := by
  unfold noPrefix prefixed Gen.Kv.noPrefixShort
  have h : decide ((p ++ k).length < p.length + 0) = false := by simp
  rw [h, if_neg (by simp)]
  exact drop_append_self p k

theorem noPrefix_of_isPrefix {k p : Bytes} (h : isPrefix p k = true) : noPrefix k p = k.drop p.length := by
  obtain ⟨r, rfl⟩ := isPrefix_exists.1 h
  rw [show p ++ r = prefixed r p from rfl, noPrefix_prefixed]
  simp [prefixed]

theorem tableView_nil (p : Bytes) : tableView p [] = [] := rfl

theorem tableView_cons_pos {p a : Bytes} (b : Bytes) (m : KV) (h : isPrefix p a = true) :
    tableView p ((a, b) :: m) = (a.drop p.length, b) :: tableView p m := by
  unfold tableView
  rw [List.filter_cons_of_pos (by simpa using h), List.map_cons]

theorem tableView_cons_neg {p a : Bytes} (b : Bytes) (m : KV) (h : isPrefix p a = false) :
    tableView p ((a, b) :: m) = tableView p m := by
  unfold tableView
  rw [List.filter_cons_of_neg (by simp [h])]

/-- a lookup in the table view is a lookup of the prefixed key below -/
theorem get_tableView (p : Bytes) (m : KV) (k : Bytes) : KV.get (tableView p m) k = KV.get m (p ++ k) := by
  induction m with
  | nil => rfl
  | cons x xs ih =>
    obtain ⟨a, b⟩ := x
    by_cases hp : isPrefix p a = true
    · obtain ⟨r, rfl⟩ := isPrefix_exists.1 hp
      rw [tableView_cons_pos b xs hp, get_cons, get_cons, ih, drop_append_self]
      by_cases e : r = k
      · subst e; simp
      · have : ¬ (p ++ r = p ++ k) := fun h => e (List.append_cancel_left h)
        simp [e, this]
    · have hp' : isPrefix p a = false := by simpa using hp
      rw [tableView_cons_neg b xs hp', get_cons, ih]
      have : ¬ (a = p ++ k) := fun h => by rw [h, isPrefix_append] at hp'; cases hp'
      simp [this]

theorem mem_tableView {p : Bytes} {m : KV} {y : Bytes × Bytes} (h : y ∈ tableView p m) : (p ++ y.1, y.2) ∈ m := by
  unfold tableView at h
  obtain ⟨x, hx, rfl⟩ := List.mem_map.1 h
  obtain ⟨hxm, hxp⟩ := List.mem_filter.1 hx
  have := isPrefix_iff.1 hxp
  simp only
  rw [← this]; exact hxm

theorem sorted_tableView {m : KV} (hs : KV.Sorted m) (p : Bytes) : KV.Sorted (tableView p m) := by
  induction m with
  | nil => exact sorted_nil
  | cons x xs ih =>
    obtain ⟨a, b⟩ := x
    obtain ⟨g, s⟩ := sorted_cons.1 hs
    by_cases hp : isPrefix p a = true
    · rw [tableView_cons_pos b xs hp]
      refine sorted_cons.2 ⟨?_, ih s⟩
      intro y hy
      have := g _ (mem_tableView hy)
      obtain ⟨r, rfl⟩ := isPrefix_exists.1 hp
      simp only [drop_append_self]
      rw [lexLt_append_left] at this
      exact this
    · rw [tableView_cons_neg b xs (by simpa using hp)]; exact ih s

end Model.Table
