import LachesisVerif.Proofs.RefEpochs4
/-!
# Several epochs, part 5: non-vacuity

One validator (id 7, weight 1); in each of two epochs a chain of three events in frames 1, 2, 3 (which
decides frame 1). The reference's seal table and the model's application seal epoch 1 at frame 1.
All hypotheses of `epochs_model_eq_reference` (`BothOK`) hold, and both sides emit
`(1, 1, 10, sealed)`, `(2, 1, 20, unsealed)`. The reference is evaluated by the kernel (`decide +kernel`:
plain kernel reduction, no axiom; `Array.findIdx?` does not unfold for the elaborator's `decide`).
-/
namespace RefEpochs.Example
open Spec.Lachesis RefEquiv VecProofs ElectionRules OrdererProofs OrdererEpochs
open Model.Pos Model.Election Model.Orderer
open Spec.Lachesis.Inst (Block)

/-! ### building a `Run` by evaluation -/

def stepOK (s : Inst) (e : Ev) : Bool := match process [] s e with | (_, .ok _) => true | _ => false
def stepSt (s : Inst) (e : Ev) : Inst := (process [] s e).1
def stepBs (s : Inst) (e : Ev) : List Block := match process [] s e with | (_, .ok bs) => bs | _ => []

theorem step_eq {s : Inst} {e : Ev} (h : stepOK s e = true) :
    process [] s e = (stepSt s e, .ok (stepBs s e)) := by
  unfold stepOK at h
  unfold stepSt stepBs
  cases hp : process [] s e with
  | mk s' r =>
    rw [hp] at h
    cases r with
    | ok bs => rfl
    | skip => cases h
    | noParent => cases h
    | wrongFrame => cases h

/-- the hypotheses of the one-epoch theorem for a run without equal sequence numbers (one honest
    chain per validator), bounded frames and bounded positive total weight -/
theorem hyps_of_run {ep : Nat} {rvals : List (Nat × Nat)} {evs : List Ev} {s : Inst} {out : List Block}
    (hrun : Run ep rvals evs s out)
    (hseq : ∀ x, x < s.size → ∀ y, y < s.size → (s.ev x).seq = (s.ev y).seq → x = y)
    (hfr : ∀ e, e < s.size → (s.ev e).frame < 2147483648) (ht1 : 1 ≤ s.total) (ht2 : s.total ≤ 2147483647) :
    Ctx (netOf s) (ElectionRefine.canonVals (netOf s)) (canonEnv (netOf s)) ∧
    PFFrom (netOf s) [] (List.range s.size) := by
  have I := run_inv hrun
  have htot : (netOf s).total = s.total := total_netOf s
  have hbft : (netOf s).BFT := by
    unfold Net.BFT
    have h0 : (netOf s).weightOf (netOf s).Forker = 0 := by
      apply Net.weightOf_zero
      rintro v _ ⟨x, y, hne, hx, hy, _, _, hs⟩
      rw [length_netOf] at hx hy
      rw [seq_netOf s hx, seq_netOf s hy] at hs
      exact hne (hseq x hx y hy hs)
    rw [h0, htot]; omega
  have hb : FrameBound (netOf s) := by
    intro e he
    rw [length_netOf] at he
    exact hfr e he
  have hpf := pfFrom_range (netOf s) I.valid
  rw [length_netOf] at hpf
  exact ⟨ctx_canon (netOf s) I.valid I.fa hbft hb (by rw [htot]; exact ht2), hpf⟩

/-! ### the data -/

def v1 : List (Nat × Nat) := [(7, 1)]
def mkE (ep n seq frame : Nat) (parents : List Nat) : Ev :=
  { n := n, epoch := ep, creator := 7, seq := seq, lamport := seq, frame := frame, parents := parents }
/-- the chain of epoch `ep`, protocol numbers `b, b+1, b+2` -/
def chain (ep b : Nat) : List Ev := [mkE ep b 1 1 [], mkE ep (b + 1) 2 2 [b], mkE ep (b + 2) 3 3 [b + 1]]
def e0 (ep b : Nat) : Ev := mkE ep b 1 1 []
def e1 (ep b : Nat) : Ev := mkE ep (b + 1) 2 2 [b]
def e2 (ep b : Nat) : Ev := mkE ep (b + 2) 3 3 [b + 1]
def st0 (ep : Nat) : Inst := start ep v1
def st1 (ep b : Nat) : Inst := stepSt (st0 ep) (e0 ep b)
def st2 (ep b : Nat) : Inst := stepSt (st1 ep b) (e1 ep b)
def st3 (ep b : Nat) : Inst := stepSt (st2 ep b) (e2 ep b)

/-- the facts about the chain that are evaluated -/
def chainFacts (ep b : Nat) : Bool :=
  stepOK (st0 ep) (e0 ep b) && stepOK (st1 ep b) (e1 ep b) && stepOK (st2 ep b) (e2 ep b) &&
  decide (parentPos (st0 ep) (e0 ep b) = []) &&
  decide (parentPos (st1 ep b) (e1 ep b) = [0]) && decide (((st1 ep b).ev 0).creator = 7) &&
  decide (((st1 ep b).ev 0).seq + 1 = 2) &&
  decide (parentPos (st2 ep b) (e2 ep b) = [1]) && decide (((st2 ep b).ev 1).creator = 7) &&
  decide (((st2 ep b).ev 1).seq + 1 = 3)

/-- the three events are checked events and are accepted: a `Run` -/
theorem chain_run (ep b : Nat) (h : chainFacts ep b = true) :
    ∃ out, Run ep v1 (chain ep b) (st3 ep b) out := by
  simp only [chainFacts, Bool.and_eq_true, decide_eq_true_eq] at h
  obtain ⟨⟨⟨⟨⟨⟨⟨⟨⟨k0, k1⟩, k2⟩, p0⟩, p1⟩, c1⟩, s1⟩, p2⟩, c2⟩, s2⟩ := h
  have g0 : GoodEv (st0 ep) (e0 ep b) :=
    ⟨Nat.le_refl 1, (by show 1 < 2147483646; decide), fun _ p hp => (by rw [p0] at hp; cases hp),
      fun h => absurd h (Nat.lt_irrefl 1)⟩
  have g1 : GoodEv (st1 ep b) (e1 ep b) :=
    ⟨(by show 1 ≤ 2; decide), (by show 2 < 2147483646; decide), fun h => absurd h (by show ¬ 2 = 1; decide),
      fun _ => ⟨0, [], p1, c1, s1, fun q hq => (by cases hq)⟩⟩
  have g2 : GoodEv (st2 ep b) (e2 ep b) :=
    ⟨(by show 1 ≤ 3; decide), (by show 3 < 2147483646; decide), fun h => absurd h (by show ¬ 3 = 1; decide),
      fun _ => ⟨1, [], p2, c2, s2, fun q hq => (by cases hq)⟩⟩
  exact ⟨_, ((Run.nil.snoc g0 (step_eq k0)).snoc g1 (step_eq k1)).snoc g2 (step_eq k2)⟩

theorem factsA : chainFacts 1 10 = true := by decide +kernel
theorem factsB : chainFacts 2 20 = true := by decide +kernel

/-- further evaluated facts: three events, distinct sequence numbers, small frames, total weight 1 -/
def finFacts (ep b : Nat) : Bool :=
  decide ((st3 ep b).size = 3) &&
  ((List.range 3).all fun x => (List.range 3).all fun y =>
    decide (((st3 ep b).ev x).seq = ((st3 ep b).ev y).seq → x = y)) &&
  ((List.range 3).all fun e => decide (((st3 ep b).ev e).frame < 2147483648)) &&
  decide ((st3 ep b).total = 1)

theorem finFactsA : finFacts 1 10 = true := by decide +kernel
theorem finFactsB : finFacts 2 20 = true := by decide +kernel

theorem chain_hyps (ep b : Nat) (h : chainFacts ep b = true) (h' : finFacts ep b = true) :
    Ctx (netOf (st3 ep b)) (ElectionRefine.canonVals (netOf (st3 ep b))) (canonEnv (netOf (st3 ep b))) ∧
    PFFrom (netOf (st3 ep b)) [] (List.range (st3 ep b).size) := by
  obtain ⟨out, hrun⟩ := chain_run ep b h
  simp only [finFacts, Bool.and_eq_true, decide_eq_true_eq, List.all_eq_true, List.mem_range] at h'
  obtain ⟨⟨⟨hsz, hseq⟩, hfr⟩, htot⟩ := h'
  exact hyps_of_run hrun (by rw [hsz]; exact fun x hx y hy => hseq x hx y hy) (by rw [hsz]; exact hfr)
    (by rw [htot]; decide) (by rw [htot]; decide)

/-! ### two epochs; epoch 1 is sealed at frame 1 -/

def finA : Inst := st3 1 10
def finB : Inst := st3 2 20
/-- the reference's seal table -/
def exSeals : Seals := [((1, 1), [(7, 1)])]
/-- the model's validators of the two epochs -/
noncomputable def valsA : Vals := ElectionRefine.canonVals (netOf finA)
noncomputable def valsB : Vals := ElectionRefine.canonVals (netOf finB)
/-- the model's application -/
noncomputable def exSealAt : Nat → Nat → Option Vals := fun e f => if e = 1 ∧ f = 1 then some valsB else none
noncomputable def envA : Env := { canonEnv (netOf finA) with sealAt := exSealAt }
noncomputable def envB : Env := { canonEnv (netOf finB) with sealAt := exSealAt }
noncomputable def pA : EpochBoth := ⟨chain 1 10, finA, envA, List.range finA.size⟩
noncomputable def pB : EpochBoth := ⟨chain 2 20, finB, envB, List.range finB.size⟩

theorem lookup_ne (e f : Nat) (h : ¬ (e = 1 ∧ f = 1)) : exSeals.lookup (e, f) = none := by
  have : ((e, f) == ((1 : Nat), (1 : Nat))) = false := by
    rw [beq_eq_false_iff_ne]
    intro hh
    simp only [Prod.mk.injEq] at hh
    exact h hh
  simp only [exSeals, List.lookup, this]

theorem exAgree (ep : Nat) : SealsAgree exSeals exSealAt ep := by
  intro f
  by_cases h : ep = 1 ∧ f = 1
  · obtain ⟨rfl, rfl⟩ := h; rfl
  · rw [lookup_ne ep f h]
    simp only [exSealAt, if_neg h]
    rfl

theorem exOKB : BothOK exSeals exSealAt 2 v1 valsB [pB] := by
  obtain ⟨C, pf⟩ := chain_hyps 2 20 factsB finFactsB
  refine ⟨chain_run 2 20 factsB, C, rfl, pf, fun e he => List.mem_range.2 he, by decide, exAgree 2, ?_⟩
  intro F nv pairs hF _
  unfold exSealAt at hF
  rw [if_neg (by omega)] at hF
  cases hF

theorem exOK : BothOK exSeals exSealAt 1 v1 valsA [pA, pB] := by
  obtain ⟨C, pf⟩ := chain_hyps 1 10 factsA finFactsA
  refine ⟨chain_run 1 10 factsA, C, rfl, pf, fun e he => List.mem_range.2 he, by decide, exAgree 1, ?_⟩
  intro F nv pairs hF hl
  by_cases h : F = 1
  · subst h
    have h1 : nv = valsB := by
      unfold exSealAt at hF
      rw [if_pos ⟨rfl, rfl⟩] at hF
      exact (Option.some.inj hF).symm
    have h2 : pairs = [(7, 1)] := (Option.some.inj hl).symm
    subst h1 h2
    exact exOKB
  · rw [lookup_ne 1 F (fun hh => h hh.2)] at hl
    cases hl

/-- what the reference emits, evaluated: epoch 1 sealed at its first block, then epoch 2 -/
theorem exRef : (refEpochs exSeals [chain 1 10, chain 2 20] (start 1 v1) []).map (fun r => r.2.map bkey) =
    some [(1, 1, 10, true), (2, 1, 20, false)] := by decide +kernel

/-- **non-vacuity of `epochs_model_eq_reference`**: the hypotheses hold for the two sealed-then-open
    epochs, and the common output is `(1, 1, 10, sealed)`, `(2, 1, 20, unsealed)`; both end in epoch 2 -/
theorem example_two_epochs : BothOK exSeals exSealAt 1 v1 valsA [pA, pB] ∧
    ∃ sm sr bs, runEpochsNamed [pA, pB] (initial 1 valsA) [] = some (sm, bs.map bkey) ∧
      refEpochs exSeals [chain 1 10, chain 2 20] (start 1 v1) [] = some (sr, bs) ∧
      bs.map bkey = [(1, 1, 10, true), (2, 1, 20, false)] ∧
      SameTransitions exSeals exSealAt 1 v1 valsA [pA, pB] sm sr ∧ sm.epoch = sr.epoch ∧ sm.ldf = sr.ldf := by
  refine ⟨exOK, ?_⟩
  obtain ⟨sm, sr, bs, h1, h2, h3⟩ := epochs_model_eq_reference exSeals exSealAt [pA, pB] 1 v1 valsA [] exOK
  have h2' : refEpochs exSeals [chain 1 10, chain 2 20] (start 1 v1) [] = some (sr, bs) := h2
  have hr := exRef
  rw [h2'] at hr
  exact ⟨sm, sr, bs, h1, h2', Option.some.inj hr, h3, sameTransitions_end _ _ _ _ _ _ _ _ h3⟩

end RefEpochs.Example
