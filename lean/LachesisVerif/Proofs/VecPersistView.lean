import LachesisVerif.Model.VecPersist
import LachesisVerif.Proofs.VecDefs
/-!
Persistence of the vector index, part 1: the layered tables refine the total tables of `Model.Vec`.
Main result `view_add`: `Engine.Add` over (overlay, parent DB, in-memory BranchesInfo) computes, on
the working view, exactly `Model.Vec.VState.add`. No hypothesis on the event or on the state.
-/
namespace VecPersistProofs
open Model.Vec Model.VecPersist

/-! ### the decisions, with the kernels `Gen.VecPersist.*` unfolded -/

theorem loadBI_def (s : PState) : s.loadBI = (match s.storeBI with
    | some b => b
    | none => BI.initial s.nVals) := by
  cases h : s.storeBI <;>
    simp only [PState.loadBI, Gen.VecPersist.useInitial, h, Option.isNone_none, Option.isNone_some,
      Option.getD_some, Bool.false_eq_true, if_true, if_false]

theorem initBI_def (s : PState) : s.initBI = (match s.bi with
    | some _ => s
    | none => { s with bi := some s.loadBI }) := by
  cases h : s.bi <;>
    simp only [PState.initBI, Gen.VecPersist.initNeeded, h, Option.isNone_none, Option.isNone_some,
      Bool.false_eq_true, if_true, if_false]

theorem curBI_def (s : PState) : s.curBI = (match s.bi with
    | some b => b
    | none => s.loadBI) := by
  cases h : s.bi <;>
    simp only [PState.curBI, Gen.VecPersist.initNeeded, h, Option.isNone_none, Option.isNone_some,
      Option.getD_some, Bool.false_eq_true, if_true, if_false]

theorem flush_def (s : PState) : s.flush =
    { s with
      storeBI := (match s.bi with
                  | some b => some b
                  | none => s.storeBI),
      store := Rows.merge s.ov s.store, fsize := s.size, ov := Rows.empty, dirty := false } := by
  cases h : s.bi <;>
    simp only [PState.flush, Gen.VecPersist.flushWritesBI, h, Option.isSome_none, Option.isSome_some,
      Bool.false_eq_true, if_true, if_false]

theorem drop_def (s : PState) : s.dropNotFlushed =
    { s with bi := none, ov := if s.dirty then Rows.empty else s.ov, dirty := false, size := s.fsize } := by
  cases h : s.dirty <;>
    simp only [PState.dropNotFlushed, Gen.VecPersist.dropClears, h, Bool.false_eq_true, if_true, if_false] <;> rfl

/-! ### tables -/

theorem look_empty {α : Type} (st : Tab α) (a : Nat) : Tab.look Tab.empty st a = st.get a := rfl

theorem look_set {α : Type} (ov st : Tab α) (n : Nat) (x : α) (a : Nat) :
    Tab.look (ov.set n x) st a = if a = n then some x else Tab.look ov st a := by
  by_cases h : a = n
  · simp only [Tab.look, Tab.set, h, if_true]
  · simp only [Tab.look, Tab.set, h, if_false]

theorem read_set {α : Type} (ov st : Tab α) (d : α) (n : Nat) (x : α) (a : Nat) :
    Tab.read (ov.set n x) st d a = if a = n then x else Tab.read ov st d a := by
  by_cases h : a = n
  · simp only [Tab.read, look_set, h, if_true, Option.getD_some]
  · simp only [Tab.read, look_set, h, if_false]

theorem read_empty_merge {α : Type} (ov st : Tab α) (d : α) (a : Nat) :
    Tab.read Tab.empty (Tab.merge ov st) d a = Tab.read ov st d a := rfl

theorem look_empty_merge {α : Type} (ov st : Tab α) (a : Nat) :
    Tab.look Tab.empty (Tab.merge ov st) a = Tab.look ov st a := rfl

theorem merge_empty {α : Type} (st : Tab α) : Tab.merge Tab.empty st = st := rfl

theorem rows_merge_empty (st : Rows) : Rows.merge Rows.empty st = st := rfl

/-! ### `assignBranch` touches the BranchesInfo only -/

theorem assignBranch_frame (s : VState) (e : Event) :
    (s.assignBranch e).1.nVals = s.nVals ∧ (s.assignBranch e).1.branchOf = s.branchOf ∧
    (s.assignBranch e).1.hb = s.hb ∧ (s.assignBranch e).1.la = s.la ∧
    (s.assignBranch e).1.parents = s.parents ∧ (s.assignBranch e).1.size = s.size := by
  unfold VState.assignBranch
  dsimp only
  split
  · split <;> exact ⟨rfl, rfl, rfl, rfl, rfl, rfl⟩
  · split <;> exact ⟨rfl, rfl, rfl, rfl, rfl, rfl⟩

/-! ### the LowestAfter DFS over layers -/

/-- the LowestAfter table seen through overlay `ov` over parent `st` -/
def laView (st ov : Tab LAV) : LAT := ⟨fun a => Tab.read ov st LAV.zero a⟩

theorem laView_set (st ov : Tab LAV) (w : Nat) (row : LAV) :
    laView st (ov.set w row) = (laView st ov).setRow w row := by
  simp only [laView, LAT.setRow]
  congr 1
  funext a
  exact read_set ov st LAV.zero w row a

theorem visitLA_view (parents : Nat → List Nat) (me seq : Nat) (st : Tab LAV) :
    ∀ (fuel : Nat) (stack : List Nat) (ov : Tab LAV),
      laView st (PState.visitLA parents me seq st fuel stack ov) =
        VState.visitLA parents me seq fuel stack (laView st ov) := by
  intro fuel
  induction fuel with
  | zero => intro stack ov; rfl
  | succ fuel ih =>
    intro stack ov
    cases stack with
    | nil => rfl
    | cons w stack =>
      by_cases h : Gen.Vec.visitSkip ((Tab.read ov st LAV.zero w).get me) = true
      · have h' : Gen.Vec.visitSkip (((laView st ov).get w).get me) = true := h
        simp only [PState.visitLA, VState.visitLA, h, h', if_true]
        exact ih stack ov
      · have h' : ¬ Gen.Vec.visitSkip (((laView st ov).get w).get me) = true := h
        simp only [PState.visitLA, VState.visitLA, h, h', Bool.false_eq_true, if_false]
        rw [ih, laView_set]
        rfl

/-! ### `Engine.Add` over layers = `VState.add` on the view -/

theorem vstate_ext {a b : VState} (h1 : a.nVals = b.nVals) (h2 : a.nBr = b.nBr)
    (h3 : a.lastSeq = b.lastSeq) (h4 : a.creatorOf = b.creatorOf) (h5 : a.branchOf = b.branchOf)
    (h6 : a.hb = b.hb) (h7 : a.la = b.la) (h8 : a.parents = b.parents) (h9 : a.size = b.size) : a = b := by
  cases a; cases b
  simp only at h1 h2 h3 h4 h5 h6 h7 h8 h9
  subst h1 h2 h3 h4 h5 h6 h7 h8 h9
  rfl

theorem view_add (s : PState) (e : Event) : (s.add e).view = s.view.add e := by
  obtain ⟨hnv, hbr, hhb, hla, hpar, hsz⟩ := assignBranch_frame s.view e
  unfold VState.add PState.add
  dsimp only
  generalize hr : s.view.assignBranch e = r at *
  obtain ⟨s1, me⟩ := r
  simp only at hnv hbr hhb hla hpar hsz
  apply vstate_ext
  · exact hnv.symm
  · rfl
  · rfl
  · rfl
  · funext a
    simp only [PState.view, read_set, hbr]
  · simp only [PState.view, HBT.setRow, hhb]
    congr 1
    funext a
    exact read_set _ _ _ _ _ _
  · simp only [hla, hpar, hsz]
    have hv := visitLA_view s.view.parents me e.seq s.store.la ((s.size + 1) * (s.size + 2))
      e.parents.reverse s.ov.la
    have hl : laView s.store.la s.ov.la = s.view.la := rfl
    rw [hl] at hv
    have hs : s.view.size = s.size := rfl
    rw [hs, ← hv]
    simp only [PState.view, LAT.setRow, laView]
    congr 1
    funext a
    exact read_set _ _ _ _ _ _
  · funext a
    simp only [PState.view, read_set, hpar]
  · rfl
