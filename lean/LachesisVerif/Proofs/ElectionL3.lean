import LachesisVerif.Proofs.ElectionL4
/-!
Graph-level lemmas behind C10/C01, part 4: L3 — the vote of a root is a function of its ancestry:
when a valid history grows (events are appended; weights, validators and the accepted frames of the
old events stay), ancestry, visible forks, forkless cause, roots, votes and decisions of the old
events do not change.
-/
namespace ElectionRules
open VecProofs
open Classical

/-- `N'` is `N` with more events appended -/
structure Extends (N N' : Net) : Prop where
  hist : ∃ more, N'.h = N.h ++ more
  nVals : N'.nVals = N.nVals
  w : N'.w = N.w
  fr : ∀ e, e < N.h.length → N'.fr e = N.fr e

namespace Extends
variable {N N' : Net} (E : Extends N N')
include E

theorem len_le : N.h.length ≤ N'.h.length := by
  obtain ⟨more, h⟩ := E.hist
  rw [h, List.length_append]; omega

theorem ev_eq {e : Nat} (he : e < N.h.length) : N'.h.ev e = N.h.ev e := by
  obtain ⟨more, h⟩ := E.hist
  unfold Hist.ev
  rw [h, List.getD_eq_getElem?_getD, List.getD_eq_getElem?_getD, List.getElem?_append_left he]

theorem creator_eq {e : Nat} (he : e < N.h.length) : N'.creator e = N.creator e := by
  unfold Net.creator; rw [E.ev_eq he]

theorem anc_old {a b : Nat} (h : Anc N.h a b) : Anc N'.h a b := by
  induction h with
  | refl h1 => exact Anc.refl (Nat.lt_of_lt_of_le h1 E.len_le)
  | step h1 h2 _ ih => exact Anc.step (Nat.lt_of_lt_of_le h1 E.len_le) (by rw [E.ev_eq h1]; exact h2) ih

theorem anc_new (hv : Valid N'.nVals N'.h) {a b : Nat} (h : Anc N'.h a b) (ha : a < N.h.length) : Anc N.h a b := by
  induction h with
  | refl _ => exact Anc.refl ha
  | step h1 h2 _ ih =>
    have hp := (valid_ev hv _ h1).parents_lt _ h2
    exact Anc.step ha (by rw [← E.ev_eq ha]; exact h2) (ih (by omega))

theorem anc_iff (hv : Valid N'.nVals N'.h) {a b : Nat} (ha : a < N.h.length) : Anc N'.h a b ↔ Anc N.h a b :=
  ⟨fun h => E.anc_new hv h ha, E.anc_old⟩

theorem forkSeen_iff (hv : Valid N'.nVals N'.h) {a c : Nat} (ha : a < N.h.length) :
    ForkSeen N'.h a c ↔ ForkSeen N.h a c := by
  constructor
  · rintro ⟨x, y, hne, hx, hy, cx, cy, hs⟩
    have hx' : x < N.h.length := Nat.lt_of_le_of_lt (anc_le hv hx) ha
    have hy' : y < N.h.length := Nat.lt_of_le_of_lt (anc_le hv hy) ha
    rw [E.ev_eq hx'] at cx hs
    rw [E.ev_eq hy'] at cy hs
    exact ⟨x, y, hne, E.anc_new hv hx ha, E.anc_new hv hy ha, cx, cy, hs⟩
  · rintro ⟨x, y, hne, hx, hy, cx, cy, hs⟩
    have hx2 := E.anc_old hx
    have hy2 := E.anc_old hy
    have hx' : x < N.h.length := Nat.lt_of_le_of_lt (anc_le hv hx2) ha
    have hy' : y < N.h.length := Nat.lt_of_le_of_lt (anc_le hv hy2) ha
    refine ⟨x, y, hne, hx2, hy2, ?_, ?_, ?_⟩
    · rw [E.ev_eq hx']; exact cx
    · rw [E.ev_eq hy']; exact cy
    · rw [E.ev_eq hx', E.ev_eq hy']; exact hs

theorem weightOf_eq' (P : Nat → Prop) : N'.weightOf P = N.weightOf P := by
  unfold Net.weightOf; rw [E.nVals, E.w]

theorem quorum_eq' : N'.quorum = N.quorum := by
  unfold Net.quorum Net.total; rw [E.weightOf_eq']

end Extends

/-- forkless cause implies ancestry (in any net) -/
theorem Net.FC_anc (N : Net) {a b : Nat} (h : N.FC a b) : Anc N.h a b := by
  have hq := N.quorum_pos
  obtain ⟨v, _, _, e, _, h1, h2⟩ := N.weightOf_pos _ (Nat.lt_of_lt_of_le hq h.2)
  exact anc_trans h2 h1

namespace Extends
variable {N N' : Net} (E : Extends N N')
include E

theorem FC_iff (hv : Valid N'.nVals N'.h) {a b : Nat} (ha : a < N.h.length) : N'.FC a b ↔ N.FC a b := by
  have key : b ≤ a → (N'.FC a b ↔ N.FC a b) := by
    intro hba
    have hb : b < N.h.length := by omega
    unfold Net.FC
    rw [E.creator_eq hb, E.forkSeen_iff hv ha, E.quorum_eq', E.weightOf_eq']
    have : N.weightOf (fun v => ¬ ForkSeen N'.h a v ∧ ∃ e, N'.creator e = v ∧ Anc N'.h e b ∧ Anc N'.h a e) =
        N.weightOf (fun v => ¬ ForkSeen N.h a v ∧ ∃ e, N.creator e = v ∧ Anc N.h e b ∧ Anc N.h a e) := by
      apply N.weightOf_congr
      intro v _
      rw [E.forkSeen_iff hv ha]
      constructor
      · rintro ⟨h1, e, h2, h3, h4⟩
        have he : e < N.h.length := Nat.lt_of_le_of_lt (anc_le hv h4) ha
        exact ⟨h1, e, by rw [← E.creator_eq he]; exact h2, E.anc_new hv h3 he, E.anc_new hv h4 ha⟩
      · rintro ⟨h1, e, h2, h3, h4⟩
        have h4' := E.anc_old h4
        have he : e < N.h.length := Nat.lt_of_le_of_lt (anc_le hv h4') ha
        exact ⟨h1, e, by rw [E.creator_eq he]; exact h2, E.anc_old h3, h4'⟩
    rw [this]
  constructor
  · intro h; exact (key (anc_le hv (N'.FC_anc h))).1 h
  · intro h; exact (key (anc_le hv (E.anc_old (N.FC_anc h)))).2 h

theorem spf_eq (hv : Valid N'.nVals N'.h) {e : Nat} (he : e < N.h.length) : N'.spf e = N.spf e := by
  unfold Net.spf
  rw [E.ev_eq he]
  by_cases hs : (N.h.ev e).seq ≤ 1
  · rw [if_pos hs, if_pos hs]
  · rw [if_neg hs, if_neg hs]
    cases hp : (N.h.ev e).parents with
    | nil => rfl
    | cons p ps =>
      have hlt := (valid_ev hv e (Nat.lt_of_lt_of_le he E.len_le)).parents_lt p
        (by rw [E.ev_eq he, hp]; exact List.mem_cons_self)
      exact E.fr p (by omega)

theorem isRoot_iff (hv : Valid N'.nVals N'.h) {e g : Nat} (he : e < N.h.length) : N'.IsRoot e g ↔ N.IsRoot e g := by
  unfold Net.IsRoot
  rw [E.spf_eq hv he, E.fr e he]
  exact ⟨fun h => ⟨he, h.2⟩, fun h => ⟨Nat.lt_of_lt_of_le he E.len_le, h.2⟩⟩

theorem causedWeight_eq (hv : Valid N'.nVals N'.h) {r : Nat} (hr : r < N.h.length) (g : Nat) (P' P : Nat → Prop)
    (hP : ∀ p, p < N.h.length → (P' p ↔ P p)) : N'.causedWeight r g P' = N.causedWeight r g P := by
  unfold Net.causedWeight
  rw [E.weightOf_eq']
  apply N.weightOf_congr
  intro u _
  constructor
  · rintro ⟨p, h1, h2, h3, h4⟩
    have hp : p < N.h.length := Nat.lt_of_le_of_lt (anc_le hv (N'.FC_anc h3)) hr
    exact ⟨p, (E.isRoot_iff hv hp).1 h1, by rw [← E.creator_eq hp]; exact h2, (E.FC_iff hv hr).1 h3, (hP p hp).1 h4⟩
  · rintro ⟨p, h1, h2, h3, h4⟩
    have h3' := (E.FC_iff hv hr).2 h3
    have hp : p < N.h.length := Nat.lt_of_le_of_lt (anc_le hv (N'.FC_anc h3')) hr
    exact ⟨p, (E.isRoot_iff hv hp).2 h1, by rw [E.creator_eq hp]; exact h2, h3', (hP p hp).2 h4⟩

/-- L3: the votes of old events do not change when the history grows -/
theorem voteYes_iff (hv : Valid N'.nVals N'.h) (f v : Nat) :
    ∀ k r, r < N.h.length → (N'.voteYes f k r v ↔ N.voteYes f k r v) := by
  intro k
  induction k with
  | zero => intro r _; exact Iff.rfl
  | succ k ih =>
    intro r hr
    cases k with
    | zero =>
      show (∃ b, N'.IsRoot b f ∧ N'.creator b = v ∧ N'.FC r b) ↔ (∃ b, N.IsRoot b f ∧ N.creator b = v ∧ N.FC r b)
      constructor
      · rintro ⟨b, h1, h2, h3⟩
        have hb : b < N.h.length := Nat.lt_of_le_of_lt (anc_le hv (N'.FC_anc h3)) hr
        exact ⟨b, (E.isRoot_iff hv hb).1 h1, by rw [← E.creator_eq hb]; exact h2, (E.FC_iff hv hr).1 h3⟩
      · rintro ⟨b, h1, h2, h3⟩
        have h3' := (E.FC_iff hv hr).2 h3
        have hb : b < N.h.length := Nat.lt_of_le_of_lt (anc_le hv (N'.FC_anc h3')) hr
        exact ⟨b, (E.isRoot_iff hv hb).2 h1, by rw [E.creator_eq hb]; exact h2, h3'⟩
    | succ j =>
      show N'.causedWeight r (f + j + 1) (fun p => ¬ N'.voteYes f (j + 1) p v) ≤
            N'.causedWeight r (f + j + 1) (fun p => N'.voteYes f (j + 1) p v) ↔
          N.causedWeight r (f + j + 1) (fun p => ¬ N.voteYes f (j + 1) p v) ≤
            N.causedWeight r (f + j + 1) (fun p => N.voteYes f (j + 1) p v)
      rw [E.causedWeight_eq hv hr (f + j + 1) _ (fun p => ¬ N.voteYes f (j + 1) p v)
            (fun p hp => not_congr (ih p hp)),
          E.causedWeight_eq hv hr (f + j + 1) _ (fun p => N.voteYes f (j + 1) p v) (fun p hp => ih p hp)]

/-- … and neither do their decisions -/
theorem decides_iff (hv : Valid N'.nVals N'.h) (f k r v : Nat) (hr : r < N.h.length) :
    (N'.DecidesYes f k r v ↔ N.DecidesYes f k r v) ∧ (N'.DecidesNo f k r v ↔ N.DecidesNo f k r v) := by
  unfold Net.DecidesYes Net.DecidesNo
  rw [E.isRoot_iff hv hr, E.quorum_eq',
    E.causedWeight_eq hv hr (f + k - 1) _ (fun p => N.voteYes f (k - 1) p v) (fun p hp => E.voteYes_iff hv f v (k - 1) p hp),
    E.causedWeight_eq hv hr (f + k - 1) _ (fun p => ¬ N.voteYes f (k - 1) p v)
      (fun p hp => not_congr (E.voteYes_iff hv f v (k - 1) p hp))]
  exact ⟨Iff.rfl, Iff.rfl⟩

end Extends
end ElectionRules
