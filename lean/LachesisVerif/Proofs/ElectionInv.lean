import LachesisVerif.Model.Election
/-!
Invariants of the election model `Model.Election` over any sequence of `processRoot` calls that
starts from `reset` (used by C02 `C02_atropos_is_root` and C10).

`P f v id` is any "slot predicate" (`id` is a root of frame `f` whose slot validator is `v`); the only
thing assumed about the `frameRoots` oracles used along the run is that they return such roots.
-/
namespace ElectionProofs
open Model.Pos Model.Election

theorem lookup_mem {α β} [BEq α] [LawfulBEq α] (l : List (α × β)) (k : α) (v : β)
    (h : l.lookup k = some v) : (k, v) ∈ l := by
  induction l with
  | nil => simp [List.lookup] at h
  | cons x xs ih =>
    obtain ⟨a, b⟩ := x
    simp only [List.lookup] at h
    split at h
    · rename_i heq
      have : k = a := by simpa using heq
      cases h; subst this; exact List.mem_cons_self
    · exact List.mem_cons_of_mem _ (ih h)

theorem lookup_none_not_mem {α β} [BEq α] [LawfulBEq α] (l : List (α × β)) (k : α)
    (h : (l.lookup k).isNone = true) : k ∉ l.map (·.1) := by
  induction l with
  | nil => simp
  | cons x xs ih =>
    obtain ⟨a, b⟩ := x
    simp only [List.lookup] at h
    split at h
    · simp at h
    · rename_i hne
      have hka : k ≠ a := by intro hk; subst hk; simp at hne
      simp only [List.map_cons, List.mem_cons, not_or]
      exact ⟨hka, ih h⟩

theorem quorum_pos (t : Nat) : 1 ≤ Gen.Pos.quorum t := by
  unfold Gen.Pos.quorum; omega

/-- the oracle returns only roots of the asked frame, labelled with their slot validator -/
def SoundRoots (P : Nat → Nat → Nat → Prop) (frameRoots : Nat → List Root) : Prop :=
  ∀ f r, r ∈ frameRoots f → P f r.validator r.id

/-- invariant of the election state -/
structure Inv (P : Nat → Nat → Nat → Prop) (el : Election) : Prop where
  /-- every stored yes-vote names a root of the frame to decide whose slot validator is the subject -/
  votes : ∀ k vote, (k, vote) ∈ el.votes → vote.yes = true → P el.frameToDecide k.2 vote.observedRoot
  /-- decided entries are decided, name such a root when "yes", and are the vote of a root of round ≥ 2 -/
  decided : ∀ s vote, (s, vote) ∈ el.decidedRoots → vote.decided = true ∧
    (vote.yes = true → P el.frameToDecide s vote.observedRoot) ∧
    ∃ r, ((r, s), vote) ∈ el.votes ∧ el.frameToDecide + 2 ≤ r.frame
  /-- a subject is decided at most once -/
  nodup : (el.decidedRoots.map (·.1)).Nodup

theorem inv_reset (P : Nat → Nat → Nat → Prop) (vals : Vals) (f : Nat) : Inv P (reset vals f) :=
  { votes := by intro k v h; simp [reset] at h
    decided := by intro s v h; simp [reset] at h
    nodup := by simp [reset] }

/-- invariant of the tally loop -/
structure TInv (P : Nat → Nat → Nat → Prop) (ftd subject : Nat) (t : Tally) : Prop where
  some : ∀ h, t.subject = some h → P ftd subject h
  none : t.subject = none → t.yes.sum = 0 ∧ t.no = t.all

theorem tally_inv (P : Nat → Nat → Nat → Prop) (el : Election) (subject : Nat)
    (hv : ∀ k vote, (k, vote) ∈ el.votes → vote.yes = true → P el.frameToDecide k.2 vote.observedRoot)
    (obs : List Root) (t t' : Tally) (ht : TInv P el.frameToDecide subject t)
    (h : tally el subject obs t = .ok t') : TInv P el.frameToDecide subject t' := by
  induction obs generalizing t with
  | nil => simp only [tally] at h; cases h; exact ht
  | cons r rest ih =>
    simp only [tally] at h
    split at h
    · cases h
    · rename_i vote hl
      have hm := lookup_mem _ _ _ hl
      split at h
      · cases h
      · split at h
        · cases h
        · refine ih _ ?_ h
          by_cases hy : vote.yes = true
          · simp only [hy, if_true]
            exact { some := by
                      intro x hx
                      simp only [Option.some.injEq] at hx
                      subst hx
                      exact hv _ _ hm hy
                    none := by intro hx; simp at hx }
          · simp only [hy, Bool.false_eq_true, if_false]
            exact { some := fun x hx => ht.some x hx
                    none := by
                      intro hx
                      have := ht.none hx
                      refine ⟨this.1, ?_⟩
                      show (count el.vals t.no r.validator).1 = (count el.vals t.all r.validator).1
                      rw [this.2] }

end ElectionProofs
