import LachesisVerif.Model.Election
/-!
Invariants of the election model `Model.Election` over any sequence of `processRoot` calls that
starts from `reset` (used by C02 `C02_atropos_is_root` and C10).

`P f v id` is any "slot predicate" (`id` is a root of frame `f` whose slot validator is `v`); the only
thing assumed about the `frameRoots` oracles used along the run is that they return such roots.
-/
namespace ElectionProofs
open Model.Pos Model.Election

theorem lookup_mem {α β} [BEq α] [LawfulBEq α] (l : List (α × β)) (k : α) (v : β)
    (h : l.lookup k = some v) : (k, v) ∈ l := by
  induction l with
  | nil => simp [List.lookup] at h
  | cons x xs ih =>
    obtain ⟨a, b⟩ := x
    simp only [List.lookup] at h
    split at h
    · rename_i heq
      have : k = a := by simpa using heq
      cases h; subst this; exact List.mem_cons_self
    · exact List.mem_cons_of_mem _ (ih h)

theorem lookup_none_not_mem {α β} [BEq α] [LawfulBEq α] (l : List (α × β)) (k : α)
    (h : (l.lookup k).isNone = true) : k ∉ l.map (·.1) := by
  induction l with
  | nil => simp
  | cons x xs ih =>
    obtain ⟨a, b⟩ := x
    simp only [List.lookup] at h
    split at h
    · simp at h
    · rename_i hne
      have hka : k ≠ a := by intro hk; subst hk; simp at hne
      simp only [List.map_cons, List.mem_cons, not_or]
      exact ⟨hka, ih h⟩

theorem quorum_pos (t : Nat) : 1 ≤ Gen.Pos.quorum t := by
  unfold Gen.Pos.quorum; omega

/-- the oracle returns only roots of the asked frame, labelled with their slot validator -/
def SoundRoots (P : Nat → Nat → Nat → Prop) (frameRoots : Nat → List Root) : Prop :=
  ∀ f r, r ∈ frameRoots f → P f r.validator r.id

/-- invariant of the election state -/
structure Inv (P : Nat → Nat → Nat → Prop) (el : Election) : Prop where
  /-- every stored yes-vote names a root of the frame to decide whose slot validator is the subject -/
  votes : ∀ k vote, (k, vote) ∈ el.votes → vote.yes = true → P el.frameToDecide k.2 vote.observedRoot
  /-- decided entries are decided, name such a root when "yes", and are the vote of a root of round ≥ 2 -/
  decided : ∀ s vote, (s, vote) ∈ el.decidedRoots → vote.decided = true ∧
    (vote.yes = true → P el.frameToDecide s vote.observedRoot) ∧
    ∃ r, ((r, s), vote) ∈ el.votes ∧ el.frameToDecide + 2 ≤ r.frame
  /-- a subject is decided at most once -/
  nodup : (el.decidedRoots.map (·.1)).Nodup

theorem inv_reset (P : Nat → Nat → Nat → Prop) (vals : Vals) (f : Nat) : Inv P (reset vals f) :=
  { votes := by intro k v h; simp [reset] at h
    decided := by intro s v h; simp [reset] at h
    nodup := by simp [reset] }

/-- invariant of the tally loop -/
structure TInv (P : Nat → Nat → Nat → Prop) (ftd subject : Nat) (t : Tally) : Prop where
  some : ∀ h, t.subject = some h → P ftd subject h
  none : t.subject = none → t.yes.sum = 0 ∧ t.no = t.all

theorem tally_inv (P : Nat → Nat → Nat → Prop) (el : Election) (subject : Nat)
    (hv : ∀ k vote, (k, vote) ∈ el.votes → vote.yes = true → P el.frameToDecide k.2 vote.observedRoot)
    (obs : List Root) (t t' : Tally) (ht : TInv P el.frameToDecide subject t)
    (h : tally el subject obs t = .ok t') : TInv P el.frameToDecide subject t' := by
  induction obs generalizing t with
  | nil => simp only [tally] at h; cases h; exact ht
  | cons r rest ih =>
    cases hl : el.votes.lookup (r, subject) with
    | none => simp only [tally, hl] at h; cases h
    | some vote =>
      have hm := lookup_mem _ _ _ hl
      by_cases hy : vote.yes = true
      · have key : ∀ c : Bool, (if c = true then (Except.error ElErr.twoForkRootsHash : Except ElErr Tally) else
            if (!(count el.vals t.all r.validator).snd) = true then Except.error ElErr.twoForkRootsCount
            else tally el subject rest
              { yes := (count el.vals t.yes r.validator).fst, no := t.no,
                all := (count el.vals t.all r.validator).fst, subject := some vote.observedRoot }) = .ok t' →
            TInv P el.frameToDecide subject t' := by
          intro c h
          split at h
          · cases h
          · split at h
            · cases h
            · refine ih _ ?_ h
              exact { some := by
                        intro x hx
                        simp only [Option.some.injEq] at hx
                        subst hx
                        exact hv _ _ hm hy
                      none := by intro hx; simp at hx }
        simp only [tally, hl, hy, if_true, Bool.true_and] at h
        exact key _ h
      · have hy' : vote.yes = false := by simpa using hy
        simp only [tally, hl, hy', Bool.false_and, Bool.false_eq_true, if_false] at h
        split at h
        · cases h
        · refine ih _ ?_ h
          exact { some := fun x hx => ht.some x hx
                  none := by
                    intro hx
                    have := ht.none hx
                    refine ⟨this.1, ?_⟩
                    show (count el.vals t.no r.validator).1 = (count el.vals t.all r.validator).1
                    rw [this.2] }

/-- what `voteLoop` does with one computed vote -/
def pushVote (e : Election) (newRoot : Root) (s : Nat) (vote : VoteValue) : Election :=
  let e1 := if vote.decided then { e with decidedRoots := (s, vote) :: e.decidedRoots } else e
  { e1 with votes := ((newRoot, s), vote) :: e1.votes }

theorem pushVote_votes (e : Election) (newRoot : Root) (s : Nat) (vote : VoteValue) :
    (pushVote e newRoot s vote).votes = ((newRoot, s), vote) :: e.votes := by
  unfold pushVote; cases vote.decided <;> rfl
theorem pushVote_ftd (e : Election) (newRoot : Root) (s : Nat) (vote : VoteValue) :
    (pushVote e newRoot s vote).frameToDecide = e.frameToDecide := by
  unfold pushVote; cases vote.decided <;> rfl
theorem pushVote_vals (e : Election) (newRoot : Root) (s : Nat) (vote : VoteValue) :
    (pushVote e newRoot s vote).vals = e.vals := by
  unfold pushVote; cases vote.decided <;> rfl
theorem pushVote_decided (e : Election) (newRoot : Root) (s : Nat) (vote : VoteValue) :
    (pushVote e newRoot s vote).decidedRoots =
      if vote.decided = true then (s, vote) :: e.decidedRoots else e.decidedRoots := by
  unfold pushVote; cases vote.decided <;> rfl

/-- accumulator invariant of `voteLoop` -/
structure AInv (P : Nat → Nat → Nat → Prop) (el e : Election) (subjects : List Nat) : Prop where
  inv : Inv P e
  ftd : e.frameToDecide = el.frameToDecide
  vals : e.vals = el.vals
  fresh : ∀ s ∈ subjects, s ∉ e.decidedRoots.map (·.1)
  nd : subjects.Nodup

theorem AInv_push (P : Nat → Nat → Nat → Prop) (el e : Election) (newRoot : Root) (s : Nat) (rest : List Nat)
    (vote : VoteValue) (hacc : AInv P el e (s :: rest))
    (hy : vote.yes = true → P el.frameToDecide s vote.observedRoot)
    (hd : vote.decided = true → el.frameToDecide + 2 ≤ newRoot.frame) :
    AInv P el (pushVote e newRoot s vote) rest := by
  have hnd := List.nodup_cons.1 hacc.nd
  refine { inv := { votes := ?_, decided := ?_, nodup := ?_ }, ftd := ?_, vals := ?_, fresh := ?_, nd := hnd.2 }
  · intro k v hm hyes
    rw [pushVote_votes] at hm
    rw [pushVote_ftd]
    rcases List.mem_cons.1 hm with heq | hm
    · cases heq; rw [hacc.ftd]; exact hy hyes
    · exact hacc.inv.votes k v hm hyes
  · intro s' v hm
    rw [pushVote_decided] at hm
    rw [pushVote_ftd, pushVote_votes]
    have old : (s', v) ∈ e.decidedRoots → v.decided = true ∧
        (v.yes = true → P e.frameToDecide s' v.observedRoot) ∧
        ∃ r, ((r, s'), v) ∈ ((newRoot, s), vote) :: e.votes ∧ e.frameToDecide + 2 ≤ r.frame := by
      intro hm
      obtain ⟨h1, h2, r, h3, h4⟩ := hacc.inv.decided s' v hm
      exact ⟨h1, h2, r, List.mem_cons_of_mem _ h3, h4⟩
    by_cases hdec : vote.decided = true
    · rw [if_pos hdec] at hm
      rcases List.mem_cons.1 hm with heq | hm
      · cases heq
        rw [hacc.ftd]
        exact ⟨hdec, hy, newRoot, List.mem_cons_self, hd hdec⟩
      · exact old hm
    · rw [if_neg hdec] at hm; exact old hm
  · rw [pushVote_decided]
    by_cases hdec : vote.decided = true
    · rw [if_pos hdec]
      simp only [List.map_cons]
      exact List.nodup_cons.2 ⟨hacc.fresh s List.mem_cons_self, hacc.inv.nodup⟩
    · rw [if_neg hdec]; exact hacc.inv.nodup
  · rw [pushVote_ftd]; exact hacc.ftd
  · rw [pushVote_vals]; exact hacc.vals
  · intro s' hs'
    rw [pushVote_decided]
    have hne : s' ≠ s := by intro h; subst h; exact hnd.1 hs'
    have hold := hacc.fresh s' (List.mem_cons_of_mem _ hs')
    by_cases hdec : vote.decided = true
    · rw [if_pos hdec]
      simp only [List.map_cons, List.mem_cons, not_or]
      exact ⟨hne, hold⟩
    · rw [if_neg hdec]; exact hold

/-- the vote of a first-round root -/
def firstVote (om : List (Nat × Root)) (s : Nat) : VoteValue :=
  match om.lookup s with
  | some r => { decided := false, yes := true, observedRoot := r.id }
  | none => { decided := false, yes := false }

/-- the vote of a later root, from the finished tally -/
def roundVote (el : Election) (t : Tally) : VoteValue :=
  { yes := Gen.Election.voteYes t.yes.sum t.no.sum,
    observedRoot := if Gen.Election.voteYes t.yes.sum t.no.sum then (match t.subject with | some h => h | none => 0) else 0,
    decided := Gen.Election.voteDecided (hasQuorum el.vals t.yes) (hasQuorum el.vals t.no) }

def tally0 (el : Election) : Tally := { yes := el.vals.newCounter, no := el.vals.newCounter, all := el.vals.newCounter }

theorem voteLoop_cons_first (el : Election) (nr : Root) (round : Nat) (om : List (Nat × Root)) (obs : List Root)
    (s : Nat) (rest : List Nat) (e : Election) (hf : Gen.Election.firstRound round = true) :
    voteLoop el nr round om obs (s :: rest) e = voteLoop el nr round om obs rest (pushVote e nr s (firstVote om s)) := by
  rw [voteLoop, if_pos hf]
  congr 1
  unfold firstVote pushVote
  cases om.lookup s <;> rfl

theorem voteLoop_cons_later (el : Election) (nr : Root) (round : Nat) (om : List (Nat × Root)) (obs : List Root)
    (s : Nat) (rest : List Nat) (e : Election) (hf : Gen.Election.firstRound round = false) :
    voteLoop el nr round om obs (s :: rest) e =
      match tally el s obs (tally0 el) with
      | .error x => .error x
      | .ok t => if Gen.Election.notEnoughVotes (hasQuorum el.vals t.all) then .error .notEnoughVotes
                 else voteLoop el nr round om obs rest (pushVote e nr s (roundVote el t)) := by
  rw [voteLoop, if_neg (by simp [hf])]
  rfl

theorem voteLoop_inv (P : Nat → Nat → Nat → Prop) (el : Election) (nr : Root) (round : Nat)
    (om : List (Nat × Root)) (obs : List Root)
    (hv : ∀ k vote, (k, vote) ∈ el.votes → vote.yes = true → P el.frameToDecide k.2 vote.observedRoot)
    (hom : Gen.Election.firstRound round = true → ∀ s r, om.lookup s = some r → P el.frameToDecide s r.id)
    (hr : Gen.Election.firstRound round = false → el.frameToDecide + 2 ≤ nr.frame)
    (subjects : List Nat) (e e' : Election) (hacc : AInv P el e subjects)
    (h : voteLoop el nr round om obs subjects e = .ok e') : AInv P el e' [] := by
  induction subjects generalizing e with
  | nil => simp only [voteLoop] at h; cases h; exact hacc
  | cons s rest ih =>
    by_cases hf : Gen.Election.firstRound round = true
    · rw [voteLoop_cons_first _ _ _ _ _ _ _ _ hf] at h
      refine ih _ (AInv_push P el e nr s rest _ hacc ?_ ?_) h
      · intro hy
        unfold firstVote at hy ⊢
        cases hl : om.lookup s with
        | none => rw [hl] at hy; cases hy
        | some r => exact hom hf s r hl
      · intro hd; unfold firstVote at hd; cases hl : om.lookup s <;> rw [hl] at hd <;> cases hd
    · have hf' : Gen.Election.firstRound round = false := by simpa using hf
      rw [voteLoop_cons_later _ _ _ _ _ _ _ _ hf'] at h
      cases ht : tally el s obs (tally0 el) with
      | error x => rw [ht] at h; cases h
      | ok t =>
        rw [ht] at h
        simp only at h
        by_cases hne : Gen.Election.notEnoughVotes (hasQuorum el.vals t.all) = true
        · rw [if_pos hne] at h; cases h
        · rw [if_neg hne] at h
          have tinv : TInv P el.frameToDecide s t := tally_inv P el s hv obs (tally0 el) t
            { some := by intro x hx; cases hx
              none := fun _ => ⟨rfl, rfl⟩ } ht
          refine ih _ (AInv_push P el e nr s rest _ hacc ?_ (fun _ => hr hf')) h
          intro hy
          have hy' : Gen.Election.voteYes t.yes.sum t.no.sum = true := hy
          show P el.frameToDecide s (if Gen.Election.voteYes t.yes.sum t.no.sum = true then
            (match t.subject with | some h => h | none => 0) else 0)
          rw [if_pos hy']
          cases hs : t.subject with
          | some x => exact tinv.some x hs
          | none =>
            exfalso
            obtain ⟨h0, hna⟩ := tinv.none hs
            have hq : hasQuorum el.vals t.no = true := by
              rw [hna]; simpa [Gen.Election.notEnoughVotes] using hne
            have hpos := quorum_pos el.vals.total
            unfold hasQuorum Gen.Pos.hasQuorum Vals.quorum at hq
            unfold Gen.Election.voteYes at hy'
            rw [h0] at hy'
            simp only [decide_eq_true_eq] at hq hy'
            omega

/-- `observedRootsMap`: every entry is one of the seen roots, filed under its slot validator -/
theorem seenMap_sound (l : List Root) (m0 : List (Nat × Root)) (Q : Nat → Root → Prop)
    (h0 : ∀ x ∈ m0, Q x.1 x.2) (hl : ∀ r ∈ l, Q r.validator r) :
    ∀ x ∈ l.foldl (fun m r => (r.validator, r) :: m.filter (fun x => x.1 != r.validator)) m0, Q x.1 x.2 := by
  induction l generalizing m0 with
  | nil => exact h0
  | cons r rest ih =>
    simp only [List.foldl_cons]
    apply ih
    · intro x hx
      rcases List.mem_cons.1 hx with rfl | hx
      · exact hl r List.mem_cons_self
      · exact h0 x (List.mem_filter.1 hx).1
    · intro r' hr'; exact hl r' (List.mem_cons_of_mem _ hr')

/-- frame arithmetic of `ProcessRoot` below 2^32 -/
theorem round_facts (rootFrame ftd : Nat) (h1 : rootFrame < 4294967296) (h2 : ftd < 4294967296)
    (hs : Gen.Election.skipOldRoot rootFrame ftd = false) :
    ftd < rootFrame ∧ Gen.Election.round rootFrame ftd = rootFrame - ftd ∧
    (Gen.Election.firstRound (Gen.Election.round rootFrame ftd) = true → Gen.Election.prevFrame rootFrame = ftd) ∧
    (Gen.Election.firstRound (Gen.Election.round rootFrame ftd) = false → ftd + 2 ≤ rootFrame) ∧
    Gen.Election.prevFrame rootFrame = rootFrame - 1 := by
  unfold Gen.Election.skipOldRoot at hs
  have hlt : ftd < rootFrame := by simpa using hs
  unfold Gen.Election.round Gen.Election.firstRound Gen.Election.prevFrame
  have e1 : (rootFrame + 4294967296 - ftd % 4294967296) % 4294967296 = rootFrame - ftd := by omega
  have e2 : (rootFrame + 4294967296 - 1 % 4294967296) % 4294967296 = rootFrame - 1 := by omega
  rw [e1, e2]
  refine ⟨hlt, rfl, ?_, ?_, rfl⟩
  · intro h; simp only [decide_eq_true_eq] at h; omega
  · intro h; simp only [decide_eq_false_iff_not] at h; omega

/-- the not yet decided subjects, as computed by `processRoot` -/
def notDecided (el : Election) : List Nat :=
  (el.vals.sorted.map (·.1)).filter (fun v => (el.decidedRoots.lookup v).isNone)

def seenRoots (observe : Nat → Nat → Bool) (frameRoots : Nat → List Root) (nr : Root) : List Root :=
  (frameRoots (Gen.Election.prevFrame nr.frame)).filter (fun r => observe nr.id r.id)

def seenMap (seen : List Root) : List (Nat × Root) :=
  seen.foldl (fun m r => (r.validator, r) :: m.filter (fun x => x.1 != r.validator)) []

/-- `processRoot` with its three early exits made explicit -/
theorem processRoot_eq (observe : Nat → Nat → Bool) (frameRoots : Nat → List Root) (el : Election) (nr : Root) :
    processRoot observe frameRoots el nr =
      match chooseAtropos el with
      | .error x => .error x
      | .ok (some res) => .ok (el, some res)
      | .ok none =>
        if Gen.Election.skipOldRoot nr.frame el.frameToDecide then .ok (el, none) else
        if Gen.Election.roundZero (Gen.Election.round nr.frame el.frameToDecide) then .ok (el, none) else
        match voteLoop el nr (Gen.Election.round nr.frame el.frameToDecide) (seenMap (seenRoots observe frameRoots nr))
            (seenRoots observe frameRoots nr) (notDecided el) el with
        | .error x => .error x
        | .ok el' =>
          match chooseAtropos el' with
          | .error x => .error x
          | .ok res => .ok (el', res) := rfl

/-- the three ways `processRoot` can succeed -/
theorem processRoot_cases (observe : Nat → Nat → Bool) (frameRoots : Nat → List Root) (el : Election) (nr : Root)
    (el' : Election) (res : Option (Nat × Nat)) (h : processRoot observe frameRoots el nr = .ok (el', res)) :
    (el' = el ∧ ∃ r, chooseAtropos el = .ok (some r) ∧ res = some r) ∨
    (el' = el ∧ chooseAtropos el = .ok none ∧ res = none ∧
      (Gen.Election.skipOldRoot nr.frame el.frameToDecide = true ∨
       Gen.Election.roundZero (Gen.Election.round nr.frame el.frameToDecide) = true)) ∨
    (chooseAtropos el = .ok none ∧ Gen.Election.skipOldRoot nr.frame el.frameToDecide = false ∧
      Gen.Election.roundZero (Gen.Election.round nr.frame el.frameToDecide) = false ∧
      voteLoop el nr (Gen.Election.round nr.frame el.frameToDecide) (seenMap (seenRoots observe frameRoots nr))
        (seenRoots observe frameRoots nr) (notDecided el) el = .ok el' ∧
      chooseAtropos el' = .ok res) := by
  rw [processRoot_eq] at h
  cases hc : chooseAtropos el with
  | error x => rw [hc] at h; cases h
  | ok r =>
    rw [hc] at h
    cases r with
    | some r => simp only at h; cases h; exact Or.inl ⟨rfl, r, rfl, rfl⟩
    | none =>
      simp only at h
      by_cases hs : Gen.Election.skipOldRoot nr.frame el.frameToDecide = true
      · rw [if_pos hs] at h; cases h; exact Or.inr (Or.inl ⟨rfl, rfl, rfl, Or.inl hs⟩)
      · rw [if_neg hs] at h
        by_cases hz : Gen.Election.roundZero (Gen.Election.round nr.frame el.frameToDecide) = true
        · rw [if_pos hz] at h; cases h; exact Or.inr (Or.inl ⟨rfl, rfl, rfl, Or.inr hz⟩)
        · rw [if_neg hz] at h
          cases hvl : voteLoop el nr (Gen.Election.round nr.frame el.frameToDecide)
              (seenMap (seenRoots observe frameRoots nr)) (seenRoots observe frameRoots nr) (notDecided el) el with
          | error x => rw [hvl] at h; cases h
          | ok e2 =>
            rw [hvl] at h
            simp only at h
            cases hc2 : chooseAtropos e2 with
            | error x => rw [hc2] at h; cases h
            | ok r2 =>
              rw [hc2] at h
              cases h
              exact Or.inr (Or.inr ⟨rfl, by simpa using hs, by simpa using hz, rfl, hc2⟩)

/-- one successful `processRoot` call preserves the invariant, the frame to decide and the validators -/
theorem processRoot_inv (P : Nat → Nat → Nat → Prop) (observe : Nat → Nat → Bool) (frameRoots : Nat → List Root)
    (el : Election) (nr : Root) (el' : Election) (res : Option (Nat × Nat))
    (hinv : Inv P el) (hids : (el.vals.sorted.map (·.1)).Nodup) (hsound : SoundRoots P frameRoots)
    (hf : el.frameToDecide < 4294967296) (hnr : nr.frame < 4294967296)
    (h : processRoot observe frameRoots el nr = .ok (el', res)) :
    Inv P el' ∧ el'.frameToDecide = el.frameToDecide ∧ el'.vals = el.vals := by
  rcases processRoot_cases _ _ _ _ _ _ h with ⟨rfl, _⟩ | ⟨rfl, _⟩ | ⟨_, hs, _, hvl, _⟩
  · exact ⟨hinv, rfl, rfl⟩
  · exact ⟨hinv, rfl, rfl⟩
  · obtain ⟨_, _, hfirst, hlater, _⟩ := round_facts nr.frame el.frameToDecide hnr hf hs
    have hacc : AInv P el el (notDecided el) :=
      { inv := hinv, ftd := rfl, vals := rfl
        fresh := by
          intro s hs
          exact lookup_none_not_mem _ _ (List.mem_filter.1 hs).2
        nd := List.Pairwise.filter _ hids }
    have := voteLoop_inv P el nr _ (seenMap (seenRoots observe frameRoots nr)) (seenRoots observe frameRoots nr)
      hinv.votes ?_ hlater (notDecided el) el el' hacc hvl
    · exact ⟨this.inv, this.ftd, this.vals⟩
    · intro hfr s r hl
      have hm := lookup_mem _ _ _ hl
      have := seenMap_sound (seenRoots observe frameRoots nr) [] (fun k r => r.validator = k ∧ P el.frameToDecide r.validator r.id)
        (by intro x hx; cases hx) (by
          intro r hr
          refine ⟨rfl, ?_⟩
          have := hsound _ r (List.mem_filter.1 hr).1
          rwa [hfirst hfr] at this) (s, r) hm
      obtain ⟨h1, h2⟩ := this
      simp only at h1 h2
      rw [← h1]; exact h2

/-- election states reachable from `reset vals ftd` by successful `processRoot` calls with arbitrary
    (per call) forkless-cause and roots oracles, the latter sound for the slot predicate `P` -/
inductive Reach (P : Nat → Nat → Nat → Prop) (vals : Vals) (ftd : Nat) : Election → Prop
  | init : Reach P vals ftd (reset vals ftd)
  | step {el el' : Election} {observe : Nat → Nat → Bool} {frameRoots : Nat → List Root} {nr : Root}
      {res : Option (Nat × Nat)} : Reach P vals ftd el → SoundRoots P frameRoots → nr.frame < 4294967296 →
      processRoot observe frameRoots el nr = .ok (el', res) → Reach P vals ftd el'

theorem reach_inv (P : Nat → Nat → Nat → Prop) (vals : Vals) (ftd : Nat) (hids : (vals.sorted.map (·.1)).Nodup)
    (hf : ftd < 4294967296) (el : Election) (hr : Reach P vals ftd el) :
    Inv P el ∧ el.frameToDecide = ftd ∧ el.vals = vals := by
  induction hr with
  | init => exact ⟨inv_reset P vals ftd, rfl, rfl⟩
  | step _ hs hn hp ih =>
    obtain ⟨h1, h2, h3⟩ := ih
    obtain ⟨g1, g2, g3⟩ := processRoot_inv P _ _ _ _ _ _ h1 (by rw [h3]; exact hids) hs (by rw [h2]; exact hf) hn hp
    exact ⟨g1, g2.trans h2, g3.trans h3⟩

theorem chooseAtroposFrom_some (el : Election) (l : List (Nat × Nat)) (f a : Nat)
    (h : chooseAtroposFrom el l = .ok (some (f, a))) :
    f = el.frameToDecide ∧ ∃ v w vote, (v, w) ∈ l ∧ el.decidedRoots.lookup v = some vote ∧
      vote.yes = true ∧ vote.observedRoot = a := by
  induction l with
  | nil => simp [chooseAtroposFrom] at h
  | cons x xs ih =>
    obtain ⟨vid, w⟩ := x
    simp only [chooseAtroposFrom] at h
    cases hl : el.decidedRoots.lookup vid with
    | none => rw [hl] at h; cases h
    | some vote =>
      rw [hl] at h
      simp only at h
      by_cases hy : vote.yes = true
      · rw [if_pos hy] at h
        simp only [Except.ok.injEq, Option.some.injEq, Prod.mk.injEq] at h
        exact ⟨h.1.symm, vid, w, vote, List.mem_cons_self, hl, hy, h.2⟩
      · rw [if_neg hy] at h
        obtain ⟨h1, v, w', vt, hm, rest⟩ := ih h
        exact ⟨h1, v, w', vt, List.mem_cons_of_mem _ hm, rest⟩

/-- whatever `processRoot` returns as Atropos in a reachable state is named by the decided yes-vote of
    a validator of the set, for the frame to decide, and satisfies the slot predicate -/
theorem reach_atropos (P : Nat → Nat → Nat → Prop) (vals : Vals) (ftd : Nat) (hids : (vals.sorted.map (·.1)).Nodup)
    (hf : ftd < 4294967296) (el el' : Election) (hr : Reach P vals ftd el)
    (observe : Nat → Nat → Bool) (frameRoots : Nat → List Root) (nr : Root)
    (hs : SoundRoots P frameRoots) (hn : nr.frame < 4294967296) (f a : Nat)
    (h : processRoot observe frameRoots el nr = .ok (el', some (f, a))) :
    f = ftd ∧ ∃ v w, (v, w) ∈ vals.sorted ∧ P ftd v a := by
  have hr' : Reach P vals ftd el' := Reach.step hr hs hn h
  obtain ⟨i1, i2, i3⟩ := reach_inv P vals ftd hids hf el hr
  obtain ⟨j1, j2, j3⟩ := reach_inv P vals ftd hids hf el' hr'
  have fin : ∀ e : Election, Inv P e → e.frameToDecide = ftd → e.vals = vals →
      chooseAtropos e = .ok (some (f, a)) → f = ftd ∧ ∃ v w, (v, w) ∈ vals.sorted ∧ P ftd v a := by
    intro e k1 k2 k3 hc
    obtain ⟨g1, v, w, vote, hm, hl, hy, ha⟩ := chooseAtroposFrom_some e _ f a hc
    refine ⟨g1.trans k2, v, w, by rw [← k3]; exact hm, ?_⟩
    have := (k1.decided v vote (lookup_mem _ _ _ hl)).2.1 hy
    rw [k2, ha] at this; exact this
  rcases processRoot_cases _ _ _ _ _ _ h with ⟨rfl, r, hc, hres⟩ | ⟨_, _, hres, _⟩ | ⟨_, _, _, _, hc⟩
  · cases hres; exact fin _ i1 i2 i3 hc
  · cases hres
  · exact fin _ j1 j2 j3 hc

/-- first-round votes never write a decision -/
theorem voteLoop_first_decided (el : Election) (nr : Root) (round : Nat) (om : List (Nat × Root)) (obs : List Root)
    (hf : Gen.Election.firstRound round = true) (subjects : List Nat) (e e' : Election)
    (h : voteLoop el nr round om obs subjects e = .ok e') : e'.decidedRoots = e.decidedRoots := by
  induction subjects generalizing e with
  | nil => simp only [voteLoop] at h; cases h; rfl
  | cons s rest ih =>
    rw [voteLoop_cons_first _ _ _ _ _ _ _ _ hf] at h
    rw [ih _ h, pushVote_decided]
    have : (firstVote om s).decided = false := by unfold firstVote; cases om.lookup s <;> rfl
    rw [this]; rfl

/-- decisions are only written by roots of rounds ≥ 2: a root of frame ≤ `frameToDecide + 1` leaves
    `decidedRoots` as it was -/
theorem processRoot_no_early_decision (observe : Nat → Nat → Bool) (frameRoots : Nat → List Root)
    (el : Election) (nr : Root) (el' : Election) (res : Option (Nat × Nat))
    (hf : el.frameToDecide + 1 < 4294967296) (hnr : nr.frame ≤ el.frameToDecide + 1)
    (h : processRoot observe frameRoots el nr = .ok (el', res)) : el'.decidedRoots = el.decidedRoots := by
  rcases processRoot_cases _ _ _ _ _ _ h with ⟨rfl, _⟩ | ⟨rfl, _⟩ | ⟨_, hs, _, hvl, _⟩
  · rfl
  · rfl
  · obtain ⟨h1, h2, _, h4, _⟩ := round_facts nr.frame el.frameToDecide (by omega) (by omega) hs
    refine voteLoop_first_decided _ _ _ _ _ ?_ _ _ _ hvl
    cases hfr : Gen.Election.firstRound (Gen.Election.round nr.frame el.frameToDecide) with
    | true => rfl
    | false => have := h4 hfr; omega

end ElectionProofs
