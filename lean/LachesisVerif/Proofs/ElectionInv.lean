import LachesisVerif.Model.Election
/-!
Invariants of the election model `Model.Election` over any sequence of `processRoot` calls that
starts from `reset` (used by C02 `C02_atropos_is_root` and C10).

`P f v id` is any "slot predicate" (`id` is a root of frame `f` whose slot validator is `v`); the only
thing assumed about the `frameRoots` oracles used along the run is that they return such roots.
-/
namespace ElectionProofs
open Model.Pos Model.Election

theorem lookup_mem {α β} [BEq α] [LawfulBEq α] (l : List (α × β)) (k : α) (v : β)
    (h : l.lookup k = some v) : (k, v) ∈ l := by
  induction l with
  | nil => simp [List.lookup] at h
  | cons x xs ih =>
    obtain ⟨a, b⟩ := x
    simp only [List.lookup] at h
    split at h
    · rename_i heq
      have : k = a := by simpa using heq
      cases h; subst this; exact List.mem_cons_self
    · exact List.mem_cons_of_mem _ (ih h)

theorem lookup_none_not_mem {α β} [BEq α] [LawfulBEq α] (l : List (α × β)) (k : α)
    (h : (l.lookup k).isNone = true) : k ∉ l.map (·.1) := by
  induction l with
  | nil => simp
  | cons x xs ih =>
    obtain ⟨a, b⟩ := x
    simp only [List.lookup] at h
    split at h
    · simp at h
    · rename_i hne
      have hka : k ≠ a := by intro hk; subst hk; simp at hne
      simp only [List.map_cons, List.mem_cons, not_or]
      exact ⟨hka, ih h⟩

theorem quorum_pos (t : Nat) : 1 ≤ Gen.Pos.quorum t := by
  unfold Gen.Pos.quorum; omega

/-- the oracle returns only roots of the asked frame, labelled with their slot validator -/
def SoundRoots (P : Nat → Nat → Nat → Prop) (frameRoots : Nat → List Root) : Prop :=
  ∀ f r, r ∈ frameRoots f → P f r.validator r.id

/-- invariant of the election state -/
structure Inv (P : Nat → Nat → Nat → Prop) (el : Election) : Prop where
  /-- every stored yes-vote names a root of the frame to decide whose slot validator is the subject -/
  votes : ∀ k vote, (k, vote) ∈ el.votes → vote.yes = true → P el.frameToDecide k.2 vote.observedRoot
  /-- decided entries are decided, name such a root when "yes", and are the vote of a root of round ≥ 2 -/
  decided : ∀ s vote, (s, vote) ∈ el.decidedRoots → vote.decided = true ∧
    (vote.yes = true → P el.frameToDecide s vote.observedRoot) ∧
    ∃ r, ((r, s), vote) ∈ el.votes ∧ el.frameToDecide + 2 ≤ r.frame
  /-- a subject is decided at most once -/
  nodup : (el.decidedRoots.map (·.1)).Nodup

theorem inv_reset (P : Nat → Nat → Nat → Prop) (vals : Vals) (f : Nat) : Inv P (reset vals f) :=
  { votes := by intro k v h; simp [reset] at h
    decided := by intro s v h; simp [reset] at h
    nodup := by simp [reset] }

/-- invariant of the tally loop -/
structure TInv (P : Nat → Nat → Nat → Prop) (ftd subject : Nat) (t : Tally) : Prop where
  some : ∀ h, t.subject = some h → P ftd subject h
  none : t.subject = none → t.yes.sum = 0 ∧ t.no = t.all

theorem tally_inv (P : Nat → Nat → Nat → Prop) (el : Election) (subject : Nat)
    (hv : ∀ k vote, (k, vote) ∈ el.votes → vote.yes = true → P el.frameToDecide k.2 vote.observedRoot)
    (obs : List Root) (t t' : Tally) (ht : TInv P el.frameToDecide subject t)
    (h : tally el subject obs t = .ok t') : TInv P el.frameToDecide subject t' := by
  induction obs generalizing t with
  | nil => simp only [tally] at h; cases h; exact ht
  | cons r rest ih =>
    cases hl : el.votes.lookup (r, subject) with
    | none => simp only [tally, hl] at h; cases h
    | some vote =>
      have hm := lookup_mem _ _ _ hl
      by_cases hy : vote.yes = true
      · have key : ∀ c : Bool, (if c = true then (Except.error ElErr.twoForkRootsHash : Except ElErr Tally) else
            if (!(count el.vals t.all r.validator).snd) = true then Except.error ElErr.twoForkRootsCount
            else tally el subject rest
              { yes := (count el.vals t.yes r.validator).fst, no := t.no,
                all := (count el.vals t.all r.validator).fst, subject := some vote.observedRoot }) = .ok t' →
            TInv P el.frameToDecide subject t' := by
          intro c h
          split at h
          · cases h
          · split at h
            · cases h
            · refine ih _ ?_ h
              exact { some := by
                        intro x hx
                        simp only [Option.some.injEq] at hx
                        subst hx
                        exact hv _ _ hm hy
                      none := by intro hx; simp at hx }
        simp only [tally, hl, hy, if_true, Bool.true_and] at h
        exact key _ h
      · have hy' : vote.yes = false := by simpa using hy
        simp only [tally, hl, hy', Bool.false_and, Bool.false_eq_true, if_false] at h
        split at h
        · cases h
        · refine ih _ ?_ h
          exact { some := fun x hx => ht.some x hx
                  none := by
                    intro hx
                    have := ht.none hx
                    refine ⟨this.1, ?_⟩
                    show (count el.vals t.no r.validator).1 = (count el.vals t.all r.validator).1
                    rw [this.2] }

/-- what `voteLoop` does with one computed vote -/
def pushVote (e : Election) (newRoot : Root) (s : Nat) (vote : VoteValue) : Election :=
  let e1 := if vote.decided then { e with decidedRoots := (s, vote) :: e.decidedRoots } else e
  { e1 with votes := ((newRoot, s), vote) :: e1.votes }

theorem pushVote_votes (e : Election) (newRoot : Root) (s : Nat) (vote : VoteValue) :
    (pushVote e newRoot s vote).votes = ((newRoot, s), vote) :: e.votes := by
  unfold pushVote; cases vote.decided <;> rfl
theorem pushVote_ftd (e : Election) (newRoot : Root) (s : Nat) (vote : VoteValue) :
    (pushVote e newRoot s vote).frameToDecide = e.frameToDecide := by
  unfold pushVote; cases vote.decided <;> rfl
theorem pushVote_vals (e : Election) (newRoot : Root) (s : Nat) (vote : VoteValue) :
    (pushVote e newRoot s vote).vals = e.vals := by
  unfold pushVote; cases vote.decided <;> rfl
theorem pushVote_decided (e : Election) (newRoot : Root) (s : Nat) (vote : VoteValue) :
    (pushVote e newRoot s vote).decidedRoots =
      if vote.decided = true then (s, vote) :: e.decidedRoots else e.decidedRoots := by
  unfold pushVote; cases vote.decided <;> rfl

/-- accumulator invariant of `voteLoop` -/
structure AInv (P : Nat → Nat → Nat → Prop) (el e : Election) (subjects : List Nat) : Prop where
  inv : Inv P e
  ftd : e.frameToDecide = el.frameToDecide
  vals : e.vals = el.vals
  fresh : ∀ s ∈ subjects, s ∉ e.decidedRoots.map (·.1)
  nd : subjects.Nodup

theorem AInv_push (P : Nat → Nat → Nat → Prop) (el e : Election) (newRoot : Root) (s : Nat) (rest : List Nat)
    (vote : VoteValue) (hacc : AInv P el e (s :: rest))
    (hy : vote.yes = true → P el.frameToDecide s vote.observedRoot)
    (hd : vote.decided = true → el.frameToDecide + 2 ≤ newRoot.frame) :
    AInv P el (pushVote e newRoot s vote) rest := by
  have hnd := List.nodup_cons.1 hacc.nd
  refine { inv := { votes := ?_, decided := ?_, nodup := ?_ }, ftd := ?_, vals := ?_, fresh := ?_, nd := hnd.2 }
  · intro k v hm hyes
    rw [pushVote_votes] at hm
    rw [pushVote_ftd]
    rcases List.mem_cons.1 hm with heq | hm
    · cases heq; rw [hacc.ftd]; exact hy hyes
    · exact hacc.inv.votes k v hm hyes
  · intro s' v hm
    rw [pushVote_decided] at hm
    rw [pushVote_ftd, pushVote_votes]
    have old : (s', v) ∈ e.decidedRoots → v.decided = true ∧
        (v.yes = true → P e.frameToDecide s' v.observedRoot) ∧
        ∃ r, ((r, s'), v) ∈ ((newRoot, s), vote) :: e.votes ∧ e.frameToDecide + 2 ≤ r.frame := by
      intro hm
      obtain ⟨h1, h2, r, h3, h4⟩ := hacc.inv.decided s' v hm
      exact ⟨h1, h2, r, List.mem_cons_of_mem _ h3, h4⟩
    by_cases hdec : vote.decided = true
    · rw [if_pos hdec] at hm
      rcases List.mem_cons.1 hm with heq | hm
      · cases heq
        rw [hacc.ftd]
        exact ⟨hdec, hy, newRoot, List.mem_cons_self, hd hdec⟩
      · exact old hm
    · rw [if_neg hdec] at hm; exact old hm
  · rw [pushVote_decided]
    by_cases hdec : vote.decided = true
    · rw [if_pos hdec]
      simp only [List.map_cons]
      exact List.nodup_cons.2 ⟨hacc.fresh s List.mem_cons_self, hacc.inv.nodup⟩
    · rw [if_neg hdec]; exact hacc.inv.nodup
  · rw [pushVote_ftd]; exact hacc.ftd
  · rw [pushVote_vals]; exact hacc.vals
  · intro s' hs'
    rw [pushVote_decided]
    have hne : s' ≠ s := by intro h; subst h; exact hnd.1 hs'
    have hold := hacc.fresh s' (List.mem_cons_of_mem _ hs')
    by_cases hdec : vote.decided = true
    · rw [if_pos hdec]
      simp only [List.map_cons, List.mem_cons, not_or]
      exact ⟨hne, hold⟩
    · rw [if_neg hdec]; exact hold

end ElectionProofs
