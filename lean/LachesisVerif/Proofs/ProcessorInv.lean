import LachesisVerif.Model.Processor
import LachesisVerif.Proofs.BufferOps
/-! C15: predicates on the processor state that every `process()` call preserves are preserved by the
    whole inserter machinery; instances: semaphore within capacity, semaphore balance, buffer invariant. -/
namespace C15
open Model.EventsBuffer Model.Processor

section generic
variable {σ : Type} (hd : σ → Item → Nat → σ × List Nat) (P : σ → Prop)

theorem orderedInner_pres (hP : ∀ s it e, P s → P (hd s it e).1) :
    ∀ fuel b s, P s → P (orderedInner hd fuel b s).2 := by
  intro fuel
  induction fuel with
  | zero => intro b s h; exact h
  | succ fuel ih =>
    intro b s h
    unfold orderedInner
    split
    · split
      · exact ih _ _ (hP _ _ _ h)
      · exact h
    · exact h

theorem consume_pres (hP : ∀ s it e, P s → P (hd s it e).1) (b : Batch) (s : σ) (pos err : Nat) (h : P s) :
    P (consume hd b s pos err).2 := by
  unfold consume
  split
  · exact h
  · split
    · exact orderedInner_pres hd P hP _ _ _ h
    · split
      · exact hP _ _ _ h
      · exact h

theorem drain_pres (hP : ∀ s it e, P s → P (hd s it e).1) :
    ∀ q b s, P s → P (drain hd b s q).2 := by
  intro q
  induction q with
  | nil => intro b s h; exact h
  | cons x q ih =>
    intro b s h
    obtain ⟨pos, err⟩ := x
    unfold drain
    exact ih _ _ (consume_pres hd P hP b s pos err h)
end generic

/-- a predicate on processor states that the handler and the bookkeeping steps preserve is an invariant
    of every operation sequence -/
structure Stable (cfg : Cfg) (O : Oracle) (P : PSt → Prop) : Prop where
  handle : ∀ st it e, P st → P (handle cfg O st it e).1
  finish : ∀ b st, P st → P (finish b st)

theorem pump_pres {cfg : Cfg} {O : Oracle} {P : PSt → Prop} (hs : Stable cfg O P) :
    ∀ bs st, P st → P (pump cfg O bs st).2 := by
  intro bs
  induction bs with
  | nil => intro st h; exact h
  | cons b bs ih =>
    intro st h
    unfold pump
    have h1 := drain_pres (Model.Processor.handle cfg O) P hs.handle b.queue b st h
    show P (if (drain (Model.Processor.handle cfg O) b st b.queue).1.finished = true
      then pump cfg O bs (finish (drain (Model.Processor.handle cfg O) b st b.queue).1
        (drain (Model.Processor.handle cfg O) b st b.queue).2)
      else ((drain (Model.Processor.handle cfg O) b st b.queue).1 :: bs,
        (drain (Model.Processor.handle cfg O) b st b.queue).2)).2
    split
    · exact ih _ (hs.finish _ _ h1)
    · exact h1

/-! ### `absorb` -/

theorem absorb_pres (P : PSt → Prop)
    (hrel : ∀ st tag sz e, P st → P (relTag st tag sz e))
    (hlog : ∀ st tr hi, P st → P { st with trace := tr, highest := hi }) (recs : Nat → Rec) :
    ∀ l st, P st → P (absorb recs l st) := by
  intro l
  induction l with
  | nil => intro st h; exact h
  | cons x l ih =>
    intro st h
    cases x with
    | check c ok => exact ih _ (hlog st _ st.highest h)
    | process c ok => exact ih _ (hlog st _ _ h)
    | released c e => exact ih _ (hrel st _ _ e h)
    | connect id => exact ih _ h

theorem relTag_buf (st : PSt) (tag sz e : Nat) : (relTag st tag sz e).buf = st.buf := rfl

theorem absorb_buf (recs : Nat → Rec) : ∀ l st, (absorb recs l st).buf = st.buf := by
  intro l
  induction l with
  | nil => intro st; rfl
  | cons x l ih =>
    intro st
    cases x with
    | check c ok => exact ih _
    | process c ok => exact ih _
    | released c e => exact (ih _).trans (relTag_buf st _ _ e)
    | connect id => exact ih _

/-- a predicate that only looks at the semaphore and the ghost counters -/
structure SemOnly (P : PSt → Prop) : Prop where
  rel : ∀ st tag sz e, P st → P (relTag st tag sz e)
  log : ∀ st tr hi, P st → P { st with trace := tr, highest := hi }
  buf : ∀ st b lm, P st → P { st with buf := b, lams := lm }
  mark : ∀ st it, P st → P (mark st it)

/-- `process()` after the `HighestLamport()` call -/
def st1Of (st : PSt) : PSt := { st with trace := .highest :: st.trace }
/-- … and after the first `Exists` call of `PushEvent` (not made for a duplicate of a buffered event) -/
def st2Of (st : PSt) (it : Item) : PSt :=
  if (st1Of st).buf.inc.any (fun p => p.1 == it.ev.id) then st1Of st
  else { st1Of st with trace := .push it.tag :: (st1Of st).trace }

theorem handle_eq (cfg : Cfg) (O : Oracle) (st : PSt) (it : Item) (err : Nat) :
    handle cfg O st it err =
      if err != 0 then (relTag (mark st it) it.tag it.ev.size err, [])
      else if Gen.Buffer.farFuture it.lamport st.highest (Gen.Buffer.maxLamportDiff cfg.bufNum) then
        (relTag (st1Of (mark st it)) it.tag it.ev.size errSpilled, [])
      else
        (absorb (pushEvent true O cfg.bufNum cfg.bufSize (st2Of (mark st it) it).buf it.ev it.tag).1.recs
            (added (st2Of (mark st it) it).buf (pushEvent true O cfg.bufNum cfg.bufSize (st2Of (mark st it) it).buf it.ev it.tag).1)
            { st2Of (mark st it) it with
                buf := (pushEvent true O cfg.bufNum cfg.bufSize (st2Of (mark st it) it).buf it.ev it.tag).1,
                lams := (it.tag, it.lamport) :: (st2Of (mark st it) it).lams },
         if Gen.Buffer.reRequest it.lamport st.highest (Gen.Buffer.maxLamportDiff cfg.bufNum)
              (pushEvent true O cfg.bufNum cfg.bufSize (st2Of (mark st it) it).buf it.ev it.tag).2 then it.ev.parents else []) := rfl

theorem st2Of_buf (st : PSt) (it : Item) : (st2Of st it).buf = st.buf := by
  unfold st2Of; split <;> rfl

theorem handle_semOnly {P : PSt → Prop} (h : SemOnly P) (cfg : Cfg) (O : Oracle) (st : PSt) (it : Item) (e : Nat)
    (hp : P st) : P (handle cfg O st it e).1 := by
  rw [handle_eq]
  have hp := h.mark st it hp
  have h1 : P (st1Of (mark st it)) := h.log _ _ (mark st it).highest hp
  have h2 : P (st2Of (mark st it) it) := by
    unfold st2Of
    split
    · exact h1
    · exact h.log _ _ _ h1
  split
  · exact h.rel _ _ _ _ hp
  · split
    · exact h.rel _ _ _ _ h1
    · apply absorb_pres P h.rel h.log
      exact h.buf _ _ _ h2

theorem finish_semOnly {P : PSt → Prop} (h : SemOnly P) (b : Batch) (st : PSt) (hp : P st) : P (finish b st) := by
  unfold finish
  split
  · exact h.log st _ st.highest hp
  · exact h.log _ _ _ (h.log st _ st.highest hp)

theorem stable_of_semOnly {P : PSt → Prop} (h : SemOnly P) (cfg : Cfg) (O : Oracle) : Stable cfg O P :=
  ⟨fun st it e hp => handle_semOnly h cfg O st it e hp, fun b st hp => finish_semOnly h b st hp⟩

/-! ### the semaphore never holds more than its capacity, and is balanced while no warning fires -/

/-- held ≤ (original) capacity `N`, `S`; and the ghost accounting: as long as the warning callback has
    not fired, held = acquired − released, in events and in bytes -/
def SemInv (N S : Nat) (st : PSt) : Prop :=
  st.sem.num ≤ N ∧ st.sem.size ≤ S ∧ st.sem.capNum ≤ N ∧ st.sem.capSize ≤ S ∧
  (st.warned = false → st.sem.num + st.relNum = st.acqNum ∧ st.sem.size + st.relSize = st.acqSize)

theorem semInv_semOnly (N S : Nat) : SemOnly (SemInv N S) where
  rel := by
    intro st tag sz e h
    obtain ⟨h1, h2, h3, h4, h5⟩ := h
    unfold relTag Sem.release
    by_cases hu : Gen.Buffer.semUnderflow st.sem.num 1 st.sem.size sz = true
    · simp only [hu, if_true]
      refine ⟨Nat.zero_le _, Nat.zero_le _, h3, h4, ?_⟩
      intro hw
      simp at hw
    · have hu' : Gen.Buffer.semUnderflow st.sem.num 1 st.sem.size sz = false := by simpa using hu
      simp only [hu', Bool.false_eq_true, if_false]
      unfold Gen.Buffer.semUnderflow at hu'
      simp only [Bool.or_eq_false_iff, decide_eq_false_iff_not] at hu'
      unfold Gen.Buffer.semSubNum Gen.Buffer.semSubSize
      refine ⟨by show st.sem.num - 1 ≤ N; omega, by show st.sem.size - sz ≤ S; omega, h3, h4, ?_⟩
      intro hw
      have hw' : st.warned = false := by simpa using hw
      obtain ⟨a, b⟩ := h5 hw'
      constructor
      · show st.sem.num - 1 + (st.relNum + 1) = st.acqNum
        omega
      · show st.sem.size - sz + (st.relSize + sz) = st.acqSize
        omega
  log := fun st tr hi h => h
  buf := fun st b lm h => h
  mark := fun st it h => h

theorem acquire_semInv (N S : Nat) (hN : N < 4294967296) (hS : S < 18446744073709551616) (st : PSt) (items : List Item)
    (hlen : items.length < 4294967296) (hsz : totalSize items < 18446744073709551616) (h : SemInv N S st)
    (hok : (st.sem.tryAcquire (items.length % 4294967296) (totalSize items)).2 = true) :
    SemInv N S { st with sem := (st.sem.tryAcquire (items.length % 4294967296) (totalSize items)).1,
                         acqNum := st.acqNum + items.length, acqSize := st.acqSize + totalSize items } := by
  obtain ⟨h1, h2, h3, h4, h5⟩ := h
  unfold Sem.tryAcquire at hok ⊢
  rw [Nat.mod_eq_of_lt hlen] at hok ⊢
  by_cases ho : Gen.Buffer.semOverflow (Gen.Buffer.semAddNum st.sem.num items.length) items.length
      (Gen.Buffer.semAddSize st.sem.size (totalSize items)) (totalSize items) = true
  · simp [ho] at hok
  · have ho' : Gen.Buffer.semOverflow (Gen.Buffer.semAddNum st.sem.num items.length) items.length
        (Gen.Buffer.semAddSize st.sem.size (totalSize items)) (totalSize items) = false := by simpa using ho
    simp only [ho', Bool.false_eq_true, if_false] at hok ⊢
    by_cases hc : Gen.Buffer.semOverCap (Gen.Buffer.semAddNum st.sem.num items.length) st.sem.capNum
        (Gen.Buffer.semAddSize st.sem.size (totalSize items)) st.sem.capSize = true
    · simp [hc] at hok
    · have hc' : Gen.Buffer.semOverCap (Gen.Buffer.semAddNum st.sem.num items.length) st.sem.capNum
          (Gen.Buffer.semAddSize st.sem.size (totalSize items)) st.sem.capSize = false := by simpa using hc
      simp only [hc', Bool.false_eq_true, if_false]
      unfold Gen.Buffer.semOverflow at ho'
      unfold Gen.Buffer.semOverCap at hc'
      unfold Gen.Buffer.semAddNum Gen.Buffer.semAddSize at ho' hc' ⊢
      simp only [Bool.or_eq_false_iff, decide_eq_false_iff_not] at ho' hc'
      have e1 : (st.sem.num + items.length) % 4294967296 = st.sem.num + items.length := by omega
      have e2 : (st.sem.size + totalSize items) % 18446744073709551616 = st.sem.size + totalSize items := by omega
      rw [e1, e2] at hc' ⊢
      refine ⟨by show st.sem.num + items.length ≤ N; omega, by show st.sem.size + totalSize items ≤ S; omega, h3, h4, ?_⟩
      intro hw
      obtain ⟨a, b⟩ := h5 hw
      constructor
      · show st.sem.num + items.length + st.relNum = st.acqNum + items.length
        omega
      · show st.sem.size + totalSize items + st.relSize = st.acqSize + totalSize items
        omega

/-- operations whose sizes fit Go's integer types -/
def validOp : POp → Prop
  | .enq _ _ items => items.length < 4294967296 ∧ totalSize items < 18446744073709551616
  | _ => True

theorem pstep_cfg (O : Oracle) (p : Proc) (op : POp) : (pstep O p op).cfg = p.cfg := by
  cases op with
  | enq id o items =>
    show (if (!(p.st.sem.tryAcquire (items.length % 4294967296) (totalSize items)).2) = true then (p, false)
      else (_, true)).1.cfg = p.cfg
    split <;> rfl
  | deliver id pos err => rfl
  | stop => rfl

theorem pstep_semInv (N S : Nat) (hN : N < 4294967296) (hS : S < 18446744073709551616) (O : Oracle) (p : Proc)
    (op : POp) (hv : validOp op) (h : SemInv N S p.st) : SemInv N S (pstep O p op).st := by
  have hst := stable_of_semOnly (semInv_semOnly N S) p.cfg O
  cases op with
  | enq id o items =>
    unfold pstep enqueue
    by_cases hok : (p.st.sem.tryAcquire (items.length % 4294967296) (totalSize items)).2 = true
    · simp only [hok, Bool.not_true, Bool.false_eq_true, if_false]
      exact pump_pres hst _ _ (acquire_semInv N S hN hS p.st items hv.1 hv.2 h hok)
    · have : (p.st.sem.tryAcquire (items.length % 4294967296) (totalSize items)).2 = false := by simpa using hok
      simp only [this, Bool.not_false, if_true]
      exact h
  | deliver id pos err =>
    unfold pstep deliver
    exact pump_pres hst _ _ h
  | stop =>
    unfold pstep stop
    apply absorb_pres _ (semInv_semOnly N S).rel (semInv_semOnly N S).log
    obtain ⟨h1, h2, h3, h4, h5⟩ := h
    exact ⟨h1, h2, Nat.zero_le _, Nat.zero_le _, h5⟩

theorem prun_semInv (N S : Nat) (hN : N < 4294967296) (hS : S < 18446744073709551616) (O : Oracle) :
    ∀ ops p, (∀ op ∈ ops, validOp op) → SemInv N S p.st → SemInv N S (prun O p ops).st := by
  intro ops
  induction ops with
  | nil => intro p _ h; exact h
  | cons op ops ih =>
    intro p hv h
    unfold prun
    rw [List.foldl_cons]
    exact ih _ (fun o ho => hv o (List.mem_cons_of_mem _ ho))
      (pstep_semInv N S hN hS O p op (hv op List.mem_cons_self) h)

/-! ### the ordering buffer inside the processor keeps the invariant of C14 -/

def BufInv (init : List Nat) (cfg : Cfg) (st : PSt) : Prop :=
  C14.Good init st.buf ∧ C14.Lim cfg.bufNum cfg.bufSize st.buf

theorem handle_buf (cfg : Cfg) (O : Oracle) (st : PSt) (it : Item) (e : Nat) :
    (handle cfg O st it e).1.buf = st.buf ∨
    (handle cfg O st it e).1.buf = (pushEvent true O cfg.bufNum cfg.bufSize st.buf it.ev it.tag).1 := by
  rw [handle_eq]
  split
  · exact Or.inl rfl
  · split
    · exact Or.inl rfl
    · right
      show (absorb _ _ _).buf = _
      rw [absorb_buf, st2Of_buf]
      rfl

theorem finish_buf (b : Batch) (st : PSt) : (finish b st).buf = st.buf := by
  unfold finish; split <;> rfl

theorem bufInv_stable (init : List Nat) (cfg : Cfg) (O : Oracle) : Stable cfg O (BufInv init cfg) where
  handle := by
    intro st it e h
    unfold BufInv
    rcases handle_buf cfg O st it e with r | r <;> rw [r]
    · exact h
    · obtain ⟨a, _, _, _, d⟩ := C14.pushEvent_post init O cfg.bufNum cfg.bufSize st.buf it.ev it.tag h.1 h.2
      exact ⟨a, d⟩
  finish := by
    intro b st h
    unfold BufInv
    rw [finish_buf]; exact h

theorem pstep_bufInv (init : List Nat) (O : Oracle) (p : Proc) (op : POp) (h : BufInv init p.cfg p.st) :
    BufInv init (pstep O p op).cfg (pstep O p op).st := by
  rw [pstep_cfg]
  have hst := bufInv_stable init p.cfg O
  cases op with
  | enq id o items =>
    unfold pstep enqueue
    by_cases hok : (p.st.sem.tryAcquire (items.length % 4294967296) (totalSize items)).2 = true
    · simp only [hok, Bool.not_true, Bool.false_eq_true, if_false]
      exact pump_pres hst _ _ h
    · have : (p.st.sem.tryAcquire (items.length % 4294967296) (totalSize items)).2 = false := by simpa using hok
      simp only [this, Bool.not_false, if_true]
      exact h
  | deliver id pos err =>
    unfold pstep deliver
    exact pump_pres hst _ _ h
  | stop =>
    unfold pstep stop
    unfold BufInv
    show C14.Good init (absorb _ _ _).buf ∧ C14.Lim _ _ (absorb _ _ _).buf
    rw [absorb_buf]
    obtain ⟨a, _, _, d, _⟩ := C14.clear_post init p.cfg.bufNum p.cfg.bufSize p.st.buf h.1
    exact ⟨a, d⟩

theorem prun_bufInv (init : List Nat) (O : Oracle) :
    ∀ ops p, BufInv init p.cfg p.st → BufInv init (prun O p ops).cfg (prun O p ops).st := by
  intro ops
  induction ops with
  | nil => intro p h; exact h
  | cons op ops ih =>
    intro p h
    unfold prun
    rw [List.foldl_cons]
    exact ih _ (pstep_bufInv init O p op h)

end C15
